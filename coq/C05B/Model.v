(* C05B/Model.v — the plumbing between a CFF file and the Type 2 interpreter:
   mirrors M_x of cff/dict.go readPrivate and of the glyph loop of cff/read.go
   Read, on top of C13's INDEX / DICT readers, C13B's model of cff.Read up to
   the charstrings, and C05's interpreter S_t2.  Definitions only.

   What is regenerated from the source on every run (Gen/C05B.v) and used here:
   * c05b_access            which accessor (getInt / getFloat / getPair /
                            getDeltaF16) and which default every operator is
                            read with inside readPrivate;
   * c05b_privateInfo_lits  where the fields of privateInfo come from;
   * c05b_decodeInfo_lits   where the fields of decodeInfo come from (CID
                            branch, simple branch);
   * the literals of the guards (pdOffs < 4, pdSize < 0, subrsIndexOffs > 0,
     pos < 4 in readIndexAt) and the four operator numbers.

   Numbers: Private DICT numbers are exact decimals (C13B.ModelNum.real);
   charstring operands, coordinates and stem edges are 16.16 numbers held as
   v*65536 (C05.Model); a glyph width is an exact decimal again
   (nominalWidthX + operand). *)
From Coq Require Import List NArith ZArith Bool Arith Lia.
From C05 Require Import Model.
From Common Require Import Bytes Outcome.
From Gen Require Import C13 C13B C05B.
From C13 Require Import Model ModelDict ModelTables ModelLayout.
From C13B Require Import ModelNum ModelStr ModelCDict ModelFont.
Import ListNotations.
Local Open Scope N_scope.

(* ================= numbers ================= *)

(* a 16.16 number w/65536 as an exact decimal: w * 5^16 / 10^16 *)
Definition real_of_fix (w : Z) : real := rnorm (w <? 0)%Z (Z.abs w * 152587890625) (-16).

(* exact sum of two decimals *)
Definition radd (a b : real) : real :=
  let e := Z.min (r_exp a) (r_exp b) in
  let v := (rscale a e + rscale b e)%Z in
  rnorm (v <? 0)%Z (Z.abs v) e.

(* ================= the accessor table ================= *)

Definition acc_entry := (N * N * N * (bool * Z * Z))%type.   (* receiver, accessor, operator, default *)

Definition e_recv (e : acc_entry) : N := fst (fst (fst e)).
Definition e_acc (e : acc_entry) : N := snd (fst (fst e)).
Definition e_op (e : acc_entry) : N := snd (fst e).
Definition e_def (e : acc_entry) : bool * Z * Z := snd e.

Fixpoint find_access (tbl : list acc_entry) (recv op : N) : option (N * (bool * Z * Z)) :=
  match tbl with
  | [] => None
  | e :: r => if (e_recv e =? recv) && (e_op e =? op) then Some (e_acc e, e_def e) else find_access r recv op
  end.

(* the value an accessor returns *)
Inductive fval :=
| FInt (z : Z)
| FNum (r : real)
| FPair (p : option (Z * Z))
| FDelta (l : list Z)
| FNone.                     (* the function does not read this operator *)

(* an integer default: getInt(op, 7) *)
Definition int_of_triple (t : bool * Z * Z) : Z :=
  let '(neg, m, e) := t in
  let v := (m * 10 ^ e)%Z in if neg then (- v)%Z else v.

(* the accessor numbered acc applied to d[op] *)
Definition apply_access (acc : N) (def : bool * Z * Z) (d : rdict) (op : N) : fval :=
  if acc =? 0 then FInt (getInt d op (int_of_triple def))
  else if acc =? 1 then FNum (getFloat d op (rnorm (fst (fst def)) (snd (fst def)) (snd def)))
  else if acc =? 2 then FPair (getPair d op)
  else if acc =? 3 then FDelta (getDelta d op)
  else FNone.

(* how readPrivate reads operator op from the dictionary called recv
   (0 = the Top / Font DICT it is a method of, 1 = the Private DICT) *)
Definition read_op (tbl : list acc_entry) (recv : N) (d : rdict) (op : N) : fval :=
  match find_access tbl recv op with
  | Some (acc, def) => apply_access acc def d op
  | None => FNone
  end.

(* float64(x) of an accessor's result / use as a number *)
Definition fval_num (v : fval) : real :=
  match v with
  | FInt z => real_of_Z z          (* float64(d.getInt(..)) *)
  | FNum r => r
  | _ => R0
  end.

Definition fval_int (v : fval) : Z :=
  match v with FInt z => z | _ => 0%Z end.

(* ================= readPrivate ================= *)

(* a value expression of a composite literal: (kind, a, b, c, default) *)
Definition vdesc := (N * N * N * N * (bool * Z * Z))%type.
Definition v_kind (v : vdesc) : N := fst (fst (fst (fst v))).
Definition v_a (v : vdesc) : N := snd (fst (fst (fst v))).
Definition v_b (v : vdesc) : N := snd (fst (fst v)).
Definition v_c (v : vdesc) : N := snd (fst v).
Definition v_def (v : vdesc) : bool * Z * Z := snd v.

Fixpoint lit_field (lit : list (N * vdesc)) (field : N) : option vdesc :=
  match lit with
  | [] => None
  | (f, v) :: r => if f =? field then Some v else lit_field r field
  end.

(* privateInfo: what Read keeps of a Private DICT for the interpreter *)
Record pinfo := mkPinfo {
  pi_subrs : list (list N);
  pi_defw : real;
  pi_nomw : real
}.

(* a number-valued field of the privateInfo literal: an accessor call on the
   Private DICT (kind 1), anything else leaves the zero value *)
Definition pinfo_num (lit : list (N * vdesc)) (field : N) (pd : rdict) : real :=
  match lit_field lit field with
  | Some v =>
    if (v_kind v =? 1) && (v_a v =? 1) then fval_num (apply_access (v_b v) (v_def v) pd (v_c v)) else R0
  | None => R0
  end.

(* the index-valued field: the local variable subrs (kind 3, field code 1) *)
Definition pinfo_idx (lit : list (N * vdesc)) (field : N) (subrs : list (list N)) : list (list N) :=
  match lit_field lit field with
  | Some v => if (v_kind v =? 3) && (v_a v =? 1) then subrs else []
  | None => []
  end.

Definition the_pinfo_lit : list (N * vdesc) := hd [] c05b_privateInfo_lits.

(* readIndexAt(p, pos, name) *)
Definition M_read_index_at (data : list N) (pos : Z) : outcome (list (list N)) :=
  if (pos <? c05b_minIndexPos)%Z then Err
  else x <- M_index_read_fast (lenN data) (dropN data (Z.to_N pos)) ;; Ok (fst x).

(* (cffDict).readPrivate, for the parts the interpreter depends on.
   tbl = the accessor table. *)
Definition M_read_private_with (tbl : list acc_entry) (lit : list (N * vdesc))
    (data : list N) (strs : list str) (d : rdict) : outcome pinfo :=
  match read_op tbl 0 d c05b_opPrivate with
  | FPair (Some (pdSize, pdOffs)) =>
    if (pdOffs <? c05b_minPrivOffs)%Z || (pdSize <? c05b_minPrivSize)%Z then Err
    else if (Z.of_N (lenN data) <? pdOffs + pdSize)%Z then Err     (* int64 sum: no wrap *)
    else
      let blob := takeN (dropN data (Z.to_N pdOffs)) (Z.to_N pdSize) in
      pd <- M_decodeDict strs blob ;;
      let subrsOffs := fval_int (read_op tbl 1 pd c05b_opSubrs) in
      subrs <- (if (c05b_minSubrsOffs <? subrsOffs)%Z
                then M_read_index_at data (wrap_i32 (pdOffs + subrsOffs))   (* int32 sum *)
                else Ok []) ;;
      Ok {| pi_subrs := pinfo_idx lit 1 subrs;
            pi_defw := pinfo_num lit 2 pd;
            pi_nomw := pinfo_num lit 3 pd |}
  | _ => Err
  end.

Definition M_read_private : list N -> list str -> rdict -> outcome pinfo :=
  M_read_private_with c05b_access the_pinfo_lit.

(* ================= decodeInfo ================= *)

Record dinfo := mkDinfo {
  di_subr : list (list N);
  di_gsubr : list (list N);
  di_defw : real;
  di_nomw : real
}.

(* an index-valued source: pInfo.subrs (kind 2, a 0, b 1) or gsubrs (kind 3, a 4) *)
Definition dsrc_idx (v : option vdesc) (p : pinfo) (gsubrs : list (list N)) : list (list N) :=
  match v with
  | Some v =>
    if (v_kind v =? 2) && (v_a v =? 0) && (v_b v =? 1) then pi_subrs p
    else if (v_kind v =? 3) && (v_a v =? 4) then gsubrs
    else []
  | None => []
  end.

(* a number-valued source: pInfo.defaultWidth (b 2) or pInfo.nominalWidth (b 3) *)
Definition dsrc_num (v : option vdesc) (p : pinfo) : real :=
  match v with
  | Some v =>
    if (v_kind v =? 2) && (v_a v =? 0) && (v_b v =? 2) then pi_defw p
    else if (v_kind v =? 2) && (v_a v =? 0) && (v_b v =? 3) then pi_nomw p
    else R0
  | None => R0
  end.

(* &decodeInfo{subr: .., gsubr: .., defaultWidth: .., nominalWidth: ..} *)
Definition mk_dinfo (lit : list (N * vdesc)) (p : pinfo) (gsubrs : list (list N)) : dinfo :=
  {| di_subr := dsrc_idx (lit_field lit 1) p gsubrs;
     di_gsubr := dsrc_idx (lit_field lit 4) p gsubrs;
     di_defw := dsrc_num (lit_field lit 2) p;
     di_nomw := dsrc_num (lit_field lit 3) p |}.

Definition lit_cid : list (N * vdesc) := nth 0 c05b_decodeInfo_lits [].
Definition lit_simple : list (N * vdesc) := nth 1 c05b_decodeInfo_lits [].

(* ================= one glyph ================= *)

(* a subroutine INDEX as the table S_t2 takes: entry i = the i-th object *)
Fixpoint number_from (i : Z) (bl : list (list N)) : list (Z * list N) :=
  match bl with
  | [] => []
  | b :: r => (i, b) :: number_from (i + 1)%Z r
  end.

Definition tab_of_index (bl : list (list N)) : subrtab :=
  mkTab (Z.of_N (lenN bl)) [] (number_from 0 bl).

Record cglyph := mkCglyph {
  cg_width : real;
  cg_hstem : list Z;
  cg_vstem : list Z;
  cg_cmds : list cmd
}.

(* result of decoding: a glyph, an error, or a program whose meaning the
   Type 2 specification leaves open (outside the compared domain) *)
Inductive gres (A : Type) :=
| GOk (a : A)
| GErr
| GPanic
| GFuel
| GUnspec.
Arguments GOk {A} a.
Arguments GErr {A}.
Arguments GPanic {A}.
Arguments GFuel {A}.
Arguments GUnspec {A}.

(* the width rule (TN5177 section 4.1 as coded in setGlyphWidth): the default
   width when the charstring has no width operand, nominal width + operand
   otherwise *)
Definition width_of (defw nomw : real) (w : option Z) : real :=
  match w with
  | None => defw
  | Some x => radd nomw (real_of_fix x)
  end.

(* C05's interpreter on given widths and subroutine INDEXes *)
Definition T2_decode (defw nomw : real) (subr gsubr : list (list N)) (code : list N) : gres cglyph :=
  match S_t2_state (tab_of_index subr) (tab_of_index gsubr) code with
  | RDone st => GOk {| cg_width := width_of defw nomw (width st);
                       cg_hstem := hs st; cg_vstem := vs st; cg_cmds := cmds st |}
  | RUnspec _ => GUnspec
  | RFuel => GFuel
  | RRet _ | RFell _ | RErr _ _ => GErr
  end.

(* info.decodeCharString(code) *)
Definition M_decode (di : dinfo) (code : list N) : gres cglyph :=
  T2_decode (di_defw di) (di_nomw di) (di_subr di) (di_gsubr di) code.

(* ================= the glyph loop of Read ================= *)

(* for gid, code := range charStrings { fdIdx := fdSelect(gid); info :=
   decoders[fdIdx]; glyph, err := info.decodeCharString(code); ... } *)
Fixpoint M_glyph_loop (decs : list dinfo) (fdsel : list N) (codes : list (list N)) {struct codes} : gres (list cglyph) :=
  match codes with
  | [] => GOk []
  | code :: cr =>
    match fdsel with
    | [] => GPanic                                   (* fdSelect has no value for this glyph *)
    | fd :: fr =>
      match nth_error decs (N.to_nat fd) with
      | None => GPanic                               (* decoders[fdIdx]: index out of range *)
      | Some di =>
        match M_decode di code with
        | GOk g =>
          match M_glyph_loop decs fr cr with
          | GOk gs => GOk (g :: gs)
          | other => other
          end
        | GErr => GErr
        | GPanic => GPanic
        | GFuel => GFuel
        | GUnspec => GUnspec
        end
      end
    end
  end.

(* rprivate (C13B) -> privateInfo: the same three fields *)
Definition pinfo_of (p : rprivate) : pinfo :=
  {| pi_subrs := rp_subrs p; pi_defw := rp_defw p; pi_nomw := rp_nomw p |}.

(* the decoders Read builds: one per Font DICT (CID branch) or one (simple) *)
Definition M_decoders (rf : rfont) : list dinfo :=
  let lit := match rf_ros rf with Some _ => lit_cid | None => lit_simple end in
  map (fun p => mk_dinfo lit (pinfo_of p) (rf_gsubrs rf)) (rf_private rf).

Section Read.
Variable std_code : str -> option N.
Variable exp_code : str -> option N.

(* cff.Read as far as the glyphs are concerned: C13B's M_read (everything up
   to the charstrings, with M_readPrivate for every Font DICT), then the loop *)
Definition M_cff_read (data : list N) : gres (list cglyph) :=
  match M_read std_code exp_code data with
  | Ok rf => M_glyph_loop (M_decoders rf) (rf_fdselect rf) (map snd (rf_glyphs rf))
  | Err => GErr
  | Panic => GPanic
  | OutOfFuel => GFuel
  end.
End Read.

(* ================= variants of the code (for the _refuted witnesses) ================= *)

(* defaultWidthX / nominalWidthX read with the integer accessor (C05-h class) *)
Definition int_width_access : list acc_entry :=
  map (fun e => if (e_op e =? c05b_opDefaultWidthX) || (e_op e =? c05b_opNominalWidthX)
                then (e_recv e, 0, e_op e, e_def e) else e) c05b_access.

Definition int_width_lit : list (N * vdesc) :=
  map (fun fv => let '(f, v) := fv in
                 if (f =? 2) || (f =? 3) then (f, (v_kind v, v_a v, 0, v_c v, v_def v)) else fv) the_pinfo_lit.

Definition M_read_private_intw : list N -> list str -> rdict -> outcome pinfo :=
  M_read_private_with int_width_access int_width_lit.

(* the Font DICT loop with a cache keyed by the Private DICT offset alone
   (C05-i class) *)
Fixpoint assoc_off (k : Z) (l : list (Z * pinfo)) : option pinfo :=
  match l with
  | [] => None
  | (k', v) :: r => if (k =? k')%Z then Some v else assoc_off k r
  end.

Fixpoint M_fd_loop_cached (data : list N) (strs : list str) (seen : list (Z * pinfo)) (fds : list rdict)
  : outcome (list pinfo) :=
  match fds with
  | [] => Ok []
  | fd :: r =>
    let offs := match getPair fd c05b_opPrivate with Some (_, o) => o | None => 0%Z end in
    match assoc_off offs seen with
    | Some p => t <- M_fd_loop_cached data strs seen r ;; Ok (p :: t)
    | None =>
      p <- M_read_private data strs fd ;;
      t <- M_fd_loop_cached data strs ((offs, p) :: seen) r ;; Ok (p :: t)
    end
  end.

(* the Font DICT loop as it is: readPrivate for every Font DICT *)
Definition M_fd_loop (data : list N) (strs : list str) (fds : list rdict) : outcome (list pinfo) :=
  map_outcome (M_read_private data strs) fds.

(* readIndex with strictly increasing offsets (C05-j class) *)
Fixpoint read_offsets_strict (size offSize : N) (k : nat) (prev : N) (inp : list N)
  : option (list N * list N) :=
  match k with
  | O => Some ([], inp)
  | S k' =>
    match splitN inp offSize with
    | None => None
    | Some (blob, r) =>
      let offs := be_val blob in
      if (offs <=? prev) || (size <=? offs) then None
      else match read_offsets_strict size offSize k' offs r with
           | None => None
           | Some (l, r') => Some ((offs - 1) :: l, r')
           end
    end
  end.

Definition M_index_read_strict (size : N) (inp : list N) : outcome (list (list N) * list N) :=
  match rd_u16 inp with
  | None => Err
  | Some (count, r1) =>
    if count =? 0 then Ok ([], r1) else
    match rd_u8 r1 with
    | None => Err
    | Some (offSize, r2) =>
      match read_offsets_strict size offSize (S (N.to_nat count)) 0 r2 with
      | None => Err
      | Some (offs, r3) =>
        match splitN r3 (lastN 0 offs) with
        | None => Err
        | Some (buf, r4) =>
          match offs with
          | o0 :: tl => Ok (split_seq (dropN buf o0) o0 tl, r4)
          | [] => Ok ([], r4)
          end
        end
      end
    end
  end.
