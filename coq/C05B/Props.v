(* C05B/Props.v — part C05B of property C05: the plumbing between a CFF file
   and the Type 2 interpreter.  Mirror M_cff_read = C13B's model of cff.Read up
   to the charstrings + the glyph loop with the per Font DICT decodeInfo, the
   Private DICT accessors regenerated from cff/dict.go and the decodeInfo
   wiring regenerated from cff/read.go (Gen/C05B.v); specification
   S_cff_glyphs (Spec.v); interpreter = C05's S_t2.  Every proof is an
   instantiation of a lemma of Proofs_*.v / Tie.v. *)
From Coq Require Import List NArith ZArith Bool Arith Lia.
From C05 Require Import Model.
From Common Require Import Bytes Outcome.
From Gen Require Import C13 C13B C05B.
From C13 Require Import Model ModelDict ModelTables Proofs_real.
From C13B Require Import ModelNum ModelStr ModelCDict ModelFont.
From C05B Require Import Model Spec Proofs_index Proofs_dict Proofs_read Tie TieText Proofs_conform Proofs_misc Proofs_num Proofs_props Witness.
Import ListNotations.
Local Open Scope N_scope.

(* ================= (1) glyphs_conform ================= *)

(* Whenever the mirror of cff.Read accepts a byte string, the glyph list is
   the one the specifications define, glyph by glyph: S_glyph takes the
   charstring with index gid of the CharStrings INDEX, the Font DICT FDSelect
   assigns to gid (the Top DICT for a name-keyed font), the Private DICT at
   the (size, offset) THAT dictionary states, defaultWidthX / nominalWidthX of
   THAT Private DICT as numbers (integer or real operand; absent = 0), the
   Subrs INDEX at that Private DICT's offset + its Subrs operand, the Global
   Subr INDEX of the font, and runs C05's S_t2 with both INDEXes numbered
   from 0 and the size-dependent bias (T2_decode: width = defaultWidthX when
   the charstring has no width operand, nominalWidthX + operand otherwise,
   exactly).  For every pair of encoding tables, every byte string, no bounds. *)
Theorem glyphs_conform :
  forall (std_code exp_code : str -> option N) (data : list N) (gl : list cglyph),
    bytes_ok data = true ->
    M_cff_read std_code exp_code data = GOk gl ->
    S_cff_glyphs data = Some (map GOk gl) /\
    exists f, S_font_of data = Some f /\
              length gl = length (sf_charstrings f) /\
              forall gid g, nth_error gl gid = Some g -> S_glyph data f gid = Some (GOk g).
Proof.
  intros std_code exp_code data gl Hb H. split.
  - exact (cff_glyphs_conform std_code exp_code data gl Hb H).
  - exact (glyphs_conform_lemma std_code exp_code data gl Hb H).
Qed.
Print Assumptions glyphs_conform.

(* the width rule in numbers: the width of a decoded glyph is the default
   width, or the EXACT sum of the nominal width and the 16.16 operand w/65536
   (scaled by 10^16 or finer: rscale r e = value * 10^-e) *)
Theorem width_rule :
  forall (defw nomw : real) (subr gsubr : list (list N)) (code : list N) (g : cglyph),
    T2_decode defw nomw subr gsubr code = GOk g ->
    exists st, S_t2_state (tab_of_index subr) (tab_of_index gsubr) code = RDone st /\
      cg_cmds g = cmds st /\ cg_hstem g = hs st /\ cg_vstem g = vs st /\
      match width st with
      | None => cg_width g = defw
      | Some w =>
        forall e0, (e0 <= r_exp nomw)%Z -> (e0 <= -16)%Z ->
          rscale (cg_width g) e0 = (rscale nomw e0 + w * 152587890625 * 10 ^ (-16 - e0))%Z
      end.
Proof. exact width_rule_lemma. Qed.
Print Assumptions width_rule.

(* callsubr / callgsubr: operand v selects object v + bias of ITS INDEX,
   bias 107 / 1131 / 32768 by the number of objects (C05's subr_bias, proved
   equal to the regenerated getSubr by C05's bias_correct) *)
Theorem subr_numbering :
  forall (bl : list (list N)) (v : Z),
    lookup (tab_of_index bl) v =
    let n := Z.of_nat (length bl) in
    let idx := (v + subr_bias n)%Z in
    if ((0 <=? idx) && (idx <? n))%Z then Some (nth (Z.to_nat idx) bl []) else None.
Proof. exact tab_lookup. Qed.
Print Assumptions subr_numbering.

(* ================= (2) private_per_fd ================= *)

(* The Font DICT loop of Read (fd_loop_is_read: C13B's M_read runs exactly
   this loop) gives every Font DICT the Private info read from ITS OWN
   (size, offset): the dictionary decoded from exactly size bytes at offset.
   Two Font DICTs get the same info when their (size, offset) pairs are equal
   (sharing); same offset and different size give each its own. *)
Theorem private_per_fd :
  forall (data : list N) (strs : list str) (fds : list rdict) (ps : list pinfo),
    M_fd_loop data strs fds = Ok ps ->
    length ps = length fds /\
    forall i fd, nth_error fds i = Some fd ->
      exists p size offs pd,
        nth_error ps i = Some p /\
        getPair fd b_opPrivate = Some (size, offs) /\
        M_decodeDict strs (takeN (dropN data (Z.to_N offs)) (Z.to_N size)) = Ok pd /\
        pi_defw p = S_dict_number pd S_opDefaultWidthX R0 /\
        pi_nomw p = S_dict_number pd S_opNominalWidthX R0 /\
        pi_subrs p = (if (0 <? getInt pd b_opSubrs 0)%Z
                      then match read_index_at data (wrap_i32 (offs + getInt pd b_opSubrs 0)) with Ok l => l | _ => [] end
                      else []) /\
        forall j fd', nth_error fds j = Some fd' ->
          getPair fd' b_opPrivate = Some (size, offs) -> nth_error ps j = Some p.
Proof. exact private_per_fd_lemma. Qed.
Print Assumptions private_per_fd.

Theorem fd_loop_of_read :
  forall data strs fdIdx fds,
    map_outcome (fd_reader data strs) fdIdx = Ok fds ->
    exists fdicts, map_outcome (M_decodeDict strs) fdIdx = Ok fdicts /\
                   M_fd_loop data strs fdicts = Ok (map (fun x => pinfo_of (fst x)) fds).
Proof. exact fd_loop_is_read. Qed.
Print Assumptions fd_loop_of_read.

(* A cache keyed by the Private DICT offset alone (the Font DICT loop with a
   map offset -> privateInfo in front of readPrivate) gives the second of two
   Font DICTs with Private [12 156] and Private [0 156] - an empty Private DICT
   written at the same offset - the widths and the two local subroutines of
   the first, where the loop as it is gives it defaultWidthX 0 and no
   subroutines (font ex_cid, corpus/C05B/02). *)
Theorem private_cache_by_offset_refuted :
  exists data strs fds ps ps',
    M_fd_loop data strs fds = Ok ps /\ M_fd_loop_cached data strs [] fds = Ok ps' /\
    map pi_defw ps <> map pi_defw ps' /\
    map (fun p => List.length (pi_subrs p)) ps <> map (fun p => List.length (pi_subrs p)) ps'.
Proof.
  destruct cache_witness as [(ps & A & B & C) (ps' & A' & B' & C')].
  exists ex_cid, [], fds_cid, ps, ps'. rewrite B, B', C, C'. repeat split; try assumption; discriminate.
Qed.
Print Assumptions private_cache_by_offset_refuted.

(* ================= (3) empty_index_entries_accepted ================= *)

(* An INDEX with empty objects ANYWHERE (blobs is any list of byte strings) is
   read as such wherever it stands, by the mirror of readIndex and by the
   specification's INDEX, and the numbering of the subroutines is unchanged:
   callsubr with operand v still selects blobs[v + bias]. *)
Theorem empty_index_entries_accepted :
  forall blobs : list (list N),
    lenN blobs < 65536 -> sumN (map lenN blobs) < 4294967295 ->
    exists bs, M_index_encode blobs = Ok bs /\
      (forall size tail, lenN bs <= size ->
         M_index_read_fast size (bs ++ tail) = Ok (blobs, tail) /\
         (exists n, S_index (bs ++ tail) = Some (blobs, n))) /\
      (forall v, lookup (tab_of_index blobs) v =
         let n := Z.of_nat (length blobs) in
         let idx := (v + subr_bias n)%Z in
         if ((0 <=? idx) && (idx <? n))%Z then Some (nth (Z.to_nat idx) blobs []) else None).
Proof.
  intros blobs Hc Hs. destruct (empty_entries_lemma blobs Hc Hs) as (bs & E & R).
  exists bs. split; [exact E|]. split; [exact R|]. intros v. apply tab_lookup.
Qed.
Print Assumptions empty_index_entries_accepted.

(* For ANY bytes (any offSize, offsets that need not be the canonical ones):
   whatever readIndex accepts is the specification's INDEX - equal neighbouring
   offsets are an empty object - and the reader stops at its end. *)
Theorem index_read_conforms :
  forall size inp bl rest,
    M_index_read_fast size inp = Ok (bl, rest) ->
    exists n, S_index inp = Some (bl, n) /\ rest = dropN inp n /\ n <= lenN inp.
Proof. exact index_conforms. Qed.
Print Assumptions index_read_conforms.

(* A reader that wants strictly increasing offsets rejects an INDEX whose
   first object is empty (offsets 1 1 5 8 12), which readIndex and the
   specification read as four objects. *)
Theorem strict_offsets_refuted :
  exists size inp bl rest n,
    M_index_read_fast size inp = Ok (bl, rest) /\ S_index inp = Some (bl, n) /\ In [] bl /\
    M_index_read_strict size inp = Err.
Proof.
  destruct strict_index_witness as (A & B & C).
  eexists 100, idx_empty_first, _, _, _. split; [exact A|]. split; [exact B|]. split; [left; reflexivity|exact C].
Qed.
Print Assumptions strict_offsets_refuted.

(* ================= (4) width_operand_forms ================= *)
Local Open Scope Z_scope.

(* A Private DICT holding defaultWidthX (op = 20) or nominalWidthX (op = 21)
   with ANY operand encoding enc the DICT tokenizer reads as one number v: the
   value readPrivate hands to the interpreter is the number's value - the same
   for an integer operand and for a real operand. *)
Theorem width_operand_forms :
  forall data strs d p size offs enc v (op : N),
    M_read_private data strs d = Ok p ->
    getPair d b_opPrivate = Some (size, offs) ->
    takeN (dropN data (Z.to_N offs)) (Z.to_N size) = enc ++ [op] ->
    (op = 20 \/ op = 21)%N -> is_number v ->
    dict_token (enc ++ [op]) = Ok (TVal v, [op]) ->
    (op = 20%N -> pi_defw p = S_value v /\ pi_nomw p = R0) /\
    (op = 21%N -> pi_nomw p = S_value v /\ pi_defw p = R0).
Proof. exact width_forms_lemma. Qed.
Print Assumptions width_operand_forms.

(* ... and the value does not depend on the encoding:
   (a) the three integer forms of a value (shortest form: C13's
       dict_int_roundtrip; 28 hi lo; 29 b3 b2 b1 b0) are read as that integer;
   (b) two real operands denoting the same number (m1*10^e1 = m2*10^e2, same
       sign) have the same value - "500", "500.", "5E2", "5000E-1", ...;
   (c) a real operand denoting an integer has the value of the integer
       operand;
   (d) the layout C13's dict_real_value speaks about (sign, digits d1..dm,
       point position l) has the value D * 10^(l-m). *)
Theorem number_value_encoding_independent :
  (forall a rest, -2147483648 <= a <= 2147483647 ->
     dict_token (M_dict_int_encode a ++ rest) = Ok (TVal (DInt a), rest) /\
     dict_token (int_form5 a ++ rest) = Ok (TVal (DInt a), rest) /\
     (-32768 <= a <= 32767 -> dict_token (int_form3 a ++ rest) = Ok (TVal (DInt a), rest))) /\
  (forall d1 d2, 0 < d_mant d1 -> 0 < d_mant d2 -> d_neg d1 = d_neg d2 ->
     dec_equiv (d_mant d1) (decimal_exp d1) (d_mant d2) (decimal_exp d2) ->
     real_of_decimal d1 = real_of_decimal d2) /\
  (forall d z, z <> 0 -> Z.abs z < 10 ^ 300 -> 0 < d_mant d -> d_neg d = (z <? 0) ->
     dec_equiv (d_mant d) (decimal_exp d) (Z.abs z) 0 ->
     real_of_decimal d = real_of_Z z) /\
  (forall neg ds l rest,
     Forall (fun x => (x < 10)%N) ds -> ds <> [] -> 0 < digits_value ds ->
     exists cs d,
       M_real_chars (M_real_layout neg ds l ++ rest) [] = Ok (cs, rest) /\ S_real_parse cs = Some d /\
       forall d', 0 < d_mant d' -> d_neg d' = neg ->
         dec_equiv (d_mant d') (decimal_exp d') (digits_value ds) (l - Z.of_nat (length ds)) ->
         real_of_decimal d' = real_of_decimal d).
Proof. exact number_forms_lemma. Qed.
Print Assumptions number_value_encoding_independent.

(* With the integer accessor (getInt) for the two width entries a Private DICT
   "250.5 defaultWidthX 500. nominalWidthX" - real operands, the second one
   integral - yields 0 and 0 where the code as it is yields 250.5 and 500
   (font ex_simple, corpus/C05B/01). *)
Theorem integer_accessor_refuted :
  exists data strs d p p',
    M_read_private data strs d = Ok p /\ M_read_private_intw data strs d = Ok p' /\
    pi_defw p = mkReal false 2505 (-1) /\ pi_nomw p = mkReal false 5 2 /\
    pi_defw p' = R0 /\ pi_nomw p' = R0.
Proof.
  destruct int_accessor_witness as [(p & A & B & C) (p' & A' & B' & C')].
  exists ex_simple, [], fd_simple, p, p'. repeat split; assumption.
Qed.
Print Assumptions integer_accessor_refuted.

(* ================= (5) read_glyphs_total ================= *)

(* No byte string makes the mirror of cff.Read panic (no index out of range in
   decoders[fdSelect(gid)], none in the readers below it) or run out of fuel:
   C13B's read_is_total + C13's FDSelect totality + C05's t2_terminates. *)
Theorem read_glyphs_total :
  forall (std_code exp_code : str -> option N) (data : list N),
    bytes_ok data = true ->
    M_cff_read std_code exp_code data <> GPanic /\ M_cff_read std_code exp_code data <> GFuel.
Proof. exact read_glyphs_total_lemma. Qed.
Print Assumptions read_glyphs_total.

(* ================= the tie to the source as it is now ================= *)

(* The accessor table, the privateInfo literal and the two decodeInfo literals
   regenerated from cff/dict.go and cff/read.go on this run: both widths are
   read as numbers with default 0, Subrs as an integer, Private as a pair;
   the table-driven mirror is C13B's model of readPrivate on the three fields
   the interpreter gets; decodeInfo passes the Font DICT's own subrs / widths
   and the font's gsubrs on unchanged, in both branches. *)
Theorem tables_match_source :
  (forall data strs d, M_read_private data strs d = omap pinfo_of (M_readPrivate data strs d)) /\
  (forall pd, read_op c05b_access 1 pd c05b_opDefaultWidthX = FNum (getFloat pd b_opDefaultWidthX R0)) /\
  (forall pd, read_op c05b_access 1 pd c05b_opNominalWidthX = FNum (getFloat pd b_opNominalWidthX R0)) /\
  (forall pd, read_op c05b_access 1 pd c05b_opSubrs = FInt (getInt pd b_opSubrs 0)) /\
  (forall d, read_op c05b_access 0 d c05b_opPrivate = FPair (getPair d b_opPrivate)) /\
  (forall p g, mk_dinfo lit_cid p g = mkDinfo (pi_subrs p) g (pi_defw p) (pi_nomw p)) /\
  (forall p g, mk_dinfo lit_simple p g = mkDinfo (pi_subrs p) g (pi_defw p) (pi_nomw p)) /\
  (c05b_minPrivOffs = 4 /\ c05b_minPrivSize = 0 /\ c05b_minSubrsOffs = 0 /\ c05b_minIndexPos = 4).
Proof.
  split; [exact read_private_tie|]. split; [exact read_defw|]. split; [exact read_nomw|].
  split; [exact read_subrs|]. split; [exact read_private_pair|]. split; [exact decodeInfo_cid|].
  split; [exact decodeInfo_simple|]. exact guards_source.
Qed.
Print Assumptions tables_match_source.

(* the statements of the source the models were written from (text) *)
From Coq Require Import String.
Theorem source_shape :
  c05b_pInfo_defs = ["fontDict.readPrivate(p, strings)"; "topDict.readPrivate(p, strings)"]%string /\
  c05b_info_defs = ["decoders[fdIdx]"]%string /\
  c05b_fdIdx_defs = ["fdSelect(glyph.ID(gid))"]%string /\
  c05b_glyph_defs = ["info.decodeCharString(code)"]%string /\
  c05b_subrs_pos = "pdOffs + subrsIndexOffs"%string.
Proof.
  split; [exact pInfo_source|]. destruct glyph_loop_source as (A & B & C & _). destruct readPrivate_source as (D & _).
  repeat split; assumption.
Qed.
Print Assumptions source_shape.
