(* C05B/Proofs_misc.v — one Private DICT per (offset, size); INDEXes with
   empty objects; subroutine numbering; totality of the glyph loop. *)
From Coq Require Import List NArith ZArith Bool Arith Lia.
From C05 Require Import Model Proofs.
From C05 Require Props.
From Common Require Import Bytes Outcome.
From Gen Require Import C13 C13B C05B.
From C13 Require Import Model Util ModelDict ModelTables ModelLayout Proofs_index Proofs_fdselect.
From C13B Require Import ModelNum ModelStr ModelCDict ModelFont Proofs_total.
From C05B Require Import Model Spec Proofs_index Proofs_dict Proofs_read Tie Proofs_conform.
Import ListNotations.
Local Open Scope N_scope.

(* ================= one Private DICT per (offset, size) ================= *)

(* what readPrivate returns depends on the Font DICT only through its
   Private operands (size, offset) *)
Lemma private_by_range data strs d1 d2 :
  getPair d1 b_opPrivate = getPair d2 b_opPrivate ->
  M_read_private data strs d1 = M_read_private data strs d2.
Proof.
  intros H. unfold M_read_private, M_read_private_with. rewrite !read_private_pair, H. reflexivity.
Qed.

(* and it is read from exactly the size bytes at offset *)
Lemma private_own_range data strs d p :
  M_read_private data strs d = Ok p ->
  exists size offs pd,
    getPair d b_opPrivate = Some (size, offs) /\
    (4 <= offs)%Z /\ (0 <= size)%Z /\ (offs + size <= Z.of_N (lenN data))%Z /\
    M_decodeDict strs (takeN (dropN data (Z.to_N offs)) (Z.to_N size)) = Ok pd /\
    pi_defw p = S_dict_number pd S_opDefaultWidthX R0 /\
    pi_nomw p = S_dict_number pd S_opNominalWidthX R0 /\
    pi_subrs p = (if (0 <? getInt pd b_opSubrs 0)%Z
                  then match read_index_at data (wrap_i32 (offs + getInt pd b_opSubrs 0)) with Ok l => l | _ => [] end
                  else []).
Proof.
  unfold M_read_private, M_read_private_with. rewrite read_private_pair.
  destruct (getPair d b_opPrivate) as [[pdSize pdOffs]|]; [|discriminate].
  change c05b_minPrivOffs with 4%Z. change c05b_minPrivSize with 0%Z.
  destruct (Z.ltb_spec pdOffs 4); [discriminate|]. destruct (Z.ltb_spec pdSize 0); [discriminate|]. cbn [orb].
  destruct (Z.ltb_spec (Z.of_N (lenN data)) (pdOffs + pdSize)); [discriminate|].
  intros T. apply obind_ok in T. destruct T as (pd & Epd & T).
  rewrite read_subrs in T. cbn [fval_int] in T. change c05b_minSubrsOffs with 0%Z in T.
  rewrite read_index_at_same in T.
  apply obind_ok in T. destruct T as (subrs & Esubrs & T).
  destruct (pinfo_fields pd subrs) as (A & B & C). rewrite A, B, C in T. inversion T; subst p; clear T.
  exists pdSize, pdOffs, pd. cbn [pi_defw pi_nomw pi_subrs].
  repeat split; try assumption; try lia; try apply getFloat_number.
  destruct (0 <? getInt pd b_opSubrs 0)%Z; [rewrite Esubrs; reflexivity|inversion Esubrs; reflexivity].
Qed.

Lemma fd_loop_own data strs fds ps :
  M_fd_loop data strs fds = Ok ps ->
  length ps = length fds /\
  forall i fd, nth_error fds i = Some fd ->
    exists p, nth_error ps i = Some p /\ M_read_private data strs fd = Ok p.
Proof.
  unfold M_fd_loop. intros H. split; [eapply map_outcome_length; exact H|].
  revert ps H. induction fds as [|fd0 r IH]; intros ps H i fd E; [destruct i; discriminate|].
  cbn [map_outcome] in H. apply obind_ok in H. destruct H as (p0 & Ep0 & H).
  apply obind_ok in H. destruct H as (t & Et & H). inversion H; subst.
  destruct i as [|i]; cbn [nth_error] in *.
  - inversion E; subst. exists p0. split; [reflexivity|exact Ep0].
  - apply (IH _ Et _ _ E).
Qed.

(* the Font DICT loop of Read is this loop *)
Lemma fd_loop_is_read data strs fdIdx fds :
  map_outcome (fd_reader data strs) fdIdx = Ok fds ->
  exists fdicts, map_outcome (M_decodeDict strs) fdIdx = Ok fdicts /\
                 M_fd_loop data strs fdicts = Ok (map (fun x => pinfo_of (fst x)) fds).
Proof.
  revert fds. induction fdIdx as [|b r IH]; intros fds H; cbn [map_outcome] in H.
  - inversion H; subst. exists []. split; reflexivity.
  - apply obind_ok in H. destruct H as (y & Ey & H). apply obind_ok in H. destruct H as (t & Et & H).
    inversion H; subst. destruct (IH _ Et) as (fdicts & A & B).
    unfold fd_reader in Ey. apply obind_ok in Ey. destruct Ey as (fd & Efd & Ey).
    apply obind_ok in Ey. destruct Ey as (pi & Epi & Ey). inversion Ey; subst.
    exists (fd :: fdicts). split.
    + cbn [map_outcome]. rewrite Efd, A. reflexivity.
    + unfold M_fd_loop in *. cbn [map_outcome map fst]. rewrite read_private_tie, Epi. cbn [omap obind].
      rewrite B. reflexivity.
Qed.

(* ================= subroutine numbering ================= *)

Lemma assoc_number_from bl : forall i0 idx,
  (i0 <= idx < i0 + Z.of_nat (length bl))%Z ->
  assoc_z idx (number_from i0 bl) [] = nth (Z.to_nat (idx - i0)) bl [].
Proof.
  induction bl as [|b r IH]; intros i0 idx H; [cbn in H; lia|].
  cbn [number_from assoc_z]. destruct (Z.eqb_spec idx i0) as [->|Hne].
  - rewrite Z.sub_diag. reflexivity.
  - rewrite IH by (cbn [length] in H; lia).
    replace (Z.to_nat (idx - i0)) with (S (Z.to_nat (idx - (i0 + 1)))) by lia. reflexivity.
Qed.

(* callsubr / callgsubr with operand v selects object number v + bias of the
   INDEX, bias by the number of objects (TN5176 section 16), whatever the
   objects are (empty ones included) *)
Lemma tab_lookup bl v :
  lookup (tab_of_index bl) v =
  let n := Z.of_nat (length bl) in
  let idx := (v + subr_bias n)%Z in
  if ((0 <=? idx) && (idx <? n))%Z then Some (nth (Z.to_nat idx) bl []) else None.
Proof.
  unfold lookup, tab_of_index. cbn [t_size t_special t_default].
  rewrite lenN_length, nat_N_Z. cbv zeta.
  destruct ((0 <=? v + subr_bias (Z.of_nat (length bl))) && (v + subr_bias (Z.of_nat (length bl)) <? Z.of_nat (length bl)))%Z eqn:E; [|reflexivity].
  apply andb_true_iff in E. rewrite Z.leb_le, Z.ltb_lt in E.
  rewrite assoc_number_from by lia. rewrite Z.sub_0_r. reflexivity.
Qed.

(* ================= totality ================= *)

Lemma decode_no_fuel di code : M_decode di code <> GFuel.
Proof.
  unfold M_decode, T2_decode.
  pose proof (proj2 (Props.t2_terminates 0 0 (tab_of_index (di_subr di)) (tab_of_index (di_gsubr di)) code
                       (S Gen.C05.cff_t2_maxCallDepth) (le_n _))) as T.
  unfold S_t2 in T. unfold S_t2_state.
  destruct (exec (tab_of_index (di_subr di)) (tab_of_index (di_gsubr di)) t2_fuel init_state code); try discriminate.
  exfalso. apply T. reflexivity.
Qed.

Lemma decode_no_panic di code : M_decode di code <> GPanic.
Proof.
  unfold M_decode, T2_decode.
  destruct (S_t2_state (tab_of_index (di_subr di)) (tab_of_index (di_gsubr di)) code); discriminate.
Qed.

Lemma glyph_loop_total decs : forall codes fdsel,
  (length codes <= length fdsel)%nat ->
  Forall (fun fd => (N.to_nat fd < length decs)%nat) fdsel ->
  M_glyph_loop decs fdsel codes <> GPanic /\ M_glyph_loop decs fdsel codes <> GFuel.
Proof.
  induction codes as [|code cr IH]; intros fdsel Hl Hf; cbn [M_glyph_loop]; [split; discriminate|].
  destruct fdsel as [|fd fr]; [cbn in Hl; lia|]. inversion Hf as [|? ? Hfd Hfr]; subst.
  destruct (nth_error decs (N.to_nat fd)) as [di|] eqn:Ed; [|apply nth_error_None in Ed; lia].
  pose proof (decode_no_fuel di code). pose proof (decode_no_panic di code).
  destruct (M_decode di code); try congruence; try (split; discriminate).
  destruct (IH fr ltac:(cbn in Hl; lia) Hfr) as [A B].
  destruct (M_glyph_loop decs fr cr); try congruence; split; discriminate.
Qed.

Section Total.
Variable std_code : str -> option N.
Variable exp_code : str -> option N.

Lemma read_glyphs_total_lemma data :
  bytes_ok data = true ->
  M_cff_read std_code exp_code data <> GPanic /\ M_cff_read std_code exp_code data <> GFuel.
Proof.
  intros Hb. unfold M_cff_read.
  destruct (read_total std_code exp_code data Hb) as [NP NF].
  destruct (M_read std_code exp_code data) as [rf| | |] eqn:Er; try congruence; try (split; discriminate).
  destruct (read_inv _ _ _ _ Er) as [x1 x2 x3 x4 top cs E1 E2 E3 Etop E4 Ecs Hg Hc Hbr].
  rewrite Hc. pose proof (read_index_at_count _ _ _ Hb Ecs) as Hn.
  apply glyph_loop_total.
  - destruct Hbr as [(_ & _ & p & _ & _ & Hsel)|(_ & _ & fdIdx & fds & fsel & _ & _ & _ & Efsel & _ & Hsel)].
    + rewrite Hsel, repeat_length, lenN_nat. lia.
    + rewrite Hsel. pose proof (fdselect_read_total_gen (lenN cs) (lenN fds) (dropN data (Z.to_N (getInt top b_opFDSelect 0))) Hn) as T. rewrite Efsel in T.
      destruct fsel as [tbl r]. destruct T as [T _]. cbn [fst]. rewrite <- (lenN_nat tbl), T, lenN_nat. lia.
  - unfold M_decoders. rewrite map_length.
    destruct Hbr as [(_ & _ & p & _ & Hp & Hsel)|(_ & _ & fdIdx & fds & fsel & _ & _ & _ & Efsel & Hp & Hsel)].
    + rewrite Hsel, Hp. apply Forall_forall. intros x Hx. apply repeat_spec in Hx. subst. cbn. lia.
    + rewrite Hsel, Hp, map_length. pose proof (fdselect_read_total_gen (lenN cs) (lenN fds) (dropN data (Z.to_N (getInt top b_opFDSelect 0))) Hn) as T. rewrite Efsel in T.
      destruct fsel as [tbl r]. destruct T as [_ T]. cbn [fst]. eapply Forall_impl; [|exact T].
      intros fd Hfd. cbn beta in Hfd. rewrite lenN_length in Hfd. lia.
Qed.
End Total.
