(* C05B/Proofs_conform.v — glyphs_conform: whenever the mirror of cff.Read
   accepts a file, every glyph is the glyph the specifications define. *)
From Coq Require Import List NArith ZArith Bool Arith Lia.
From C05 Require Import Model.
From Common Require Import Bytes Outcome.
From Gen Require Import C13 C13B C05B.
From C13 Require Import Model Util ModelDict ModelTables ModelLayout.
From C13B Require Import ModelNum ModelStr ModelCDict ModelFont Proofs_total.
From C05B Require Import Model Spec Proofs_index Proofs_dict Proofs_read Tie.
Import ListNotations.
Local Open Scope N_scope.

(* ---------- readIndexAt ---------- *)

Lemma read_index_at_spec data pos bl :
  read_index_at data pos = Ok bl -> (4 <= pos)%Z /\ S_index_at data pos = Some bl.
Proof.
  unfold read_index_at, S_index_at. destruct (Z.ltb_spec pos 4); [discriminate|].
  intros HH. apply obind_ok in HH. destruct HH as ([bl' rest] & E & HH). inversion HH; subst. cbn [fst].
  split; [assumption|]. destruct (Z.ltb_spec pos 0); [lia|].
  destruct (index_conforms _ _ _ _ E) as (n & En & _). rewrite En. reflexivity.
Qed.

(* an offset operand read with getInt(op, 0) that passed readIndexAt's
   "pos < 4" test is an integer operand of the DICT *)
Lemma offset_operand d op : (4 <= getInt d op 0)%Z -> S_dict_offset d op = Some (getInt d op 0).
Proof.
  intros H. unfold S_dict_offset. rewrite (getInt_entry d op 0 (getInt d op 0) eq_refl) by lia. reflexivity.
Qed.

(* ---------- the objects of an INDEX of a byte string are byte strings ---------- *)

Lemma bytes_ok_sub data a n : bytes_ok data = true -> bytes_ok (takeN (dropN data a) n) = true.
Proof. intros H. apply bytes_ok_takeN. apply bytes_ok_dropN. exact H. Qed.

Lemma adj_Forall {A} (P : A -> Prop) (f : N -> N -> A) l : (forall a b, P (f a b)) -> Forall P (adj f l).
Proof.
  intros H. induction l as [|a t IH]; [constructor|]. cbn [adj]. destruct t as [|b t']; [constructor|].
  constructor; [apply H|exact IH].
Qed.

Lemma index_objects_bytes size inp x :
  bytes_ok inp = true -> M_index_read_fast size inp = Ok x -> Forall (fun b => bytes_ok b = true) (fst x).
Proof.
  intros Hb E. destruct x as [bl rest]. destruct (index_conforms _ _ _ _ E) as (n & S & _). cbn [fst].
  unfold S_index in S. destruct (S_index_count inp) as [count|]; [|discriminate].
  destruct (count =? 0); [inversion S; constructor|].
  destruct (S_index_wf inp count); [|discriminate].
  assert (Ebl : bl = adj (S_index_object inp (S_index_base inp count)) (S_index_offsets inp count)) by congruence.
  rewrite Ebl. apply adj_Forall. intros a b. unfold S_index_object. apply bytes_ok_sub. exact Hb.
Qed.

Lemma read_index_at_bytes data pos bl :
  bytes_ok data = true -> read_index_at data pos = Ok bl -> Forall (fun b => bytes_ok b = true) bl.
Proof.
  intros Hb. unfold read_index_at. destruct (pos <? 4)%Z; [discriminate|].
  intros HH. apply obind_ok in HH. destruct HH as (x & E & HH). inversion HH; subst.
  eapply index_objects_bytes; [|exact E]. apply bytes_ok_dropN. exact Hb.
Qed.

(* ---------- readPrivate ---------- *)

Lemma readPrivate_spec data (f : sfont) fdict pi :
  bytes_ok data = true -> rd_ok fdict ->
  M_readPrivate data (sf_strs f) fdict = Ok pi ->
  exists offs pd lsubrs,
    S_private_of data f fdict = Some (offs, pd) /\
    S_local_subrs data offs pd = Some lsubrs /\
    rp_subrs pi = lsubrs /\
    rp_defw pi = S_dict_number pd S_opDefaultWidthX R0 /\
    rp_nomw pi = S_dict_number pd S_opNominalWidthX R0.
Proof.
  intros Hb Hfd H.
  (* through the table-driven mirror: the regenerated accessor table decides *)
  pose proof (read_private_tie data (sf_strs f) fdict) as T. rewrite H in T. cbn [omap obind] in T.
  unfold M_read_private, M_read_private_with in T. rewrite read_private_pair in T.
  destruct (getPair fdict b_opPrivate) as [[pdSize pdOffs]|] eqn:Ep; [|discriminate].
  destruct (getPair_int32 _ _ _ _ Hfd Ep) as [Hs32 Ho32].
  change c05b_minPrivOffs with 4%Z in T. change c05b_minPrivSize with 0%Z in T.
  destruct (Z.ltb_spec pdOffs 4); [discriminate|]. destruct (Z.ltb_spec pdSize 0); [discriminate|]. cbn [orb] in T.
  destruct (Z.ltb_spec (Z.of_N (lenN data)) (pdOffs + pdSize)); [discriminate|].
  apply obind_ok in T. destruct T as (pd & Epd & T).
  assert (Hpd : rd_ok pd) by (eapply decodeDict_ok; [apply bytes_ok_sub; exact Hb|exact Epd]).
  rewrite read_subrs in T. cbn [fval_int] in T. change c05b_minSubrsOffs with 0%Z in T.
  apply obind_ok in T. destruct T as (subrs & Esubrs & T).
  destruct (pinfo_fields pd subrs) as (A & B & C). rewrite A, B, C in T.
  inversion T as [[T1 T2 T3]]; clear T.
  exists pdOffs, pd, subrs.
  split.
  { unfold S_private_of. change S_opPrivate with b_opPrivate. rewrite (getPair_entry _ _ _ _ Ep).
    replace ((0 <=? pdSize)%Z && (0 <=? pdOffs)%Z && (pdOffs + pdSize <=? Z.of_N (lenN data))%Z) with true
      by (symmetry; repeat (apply andb_true_intro; split); apply Z.leb_le; lia).
    unfold S_decode_dict. rewrite Epd. reflexivity. }
  split.
  { unfold S_local_subrs. change S_opSubrs with b_opSubrs.
    pose proof (getInt_int32 pd b_opSubrs 0 Hpd ltac:(unfold int32; lia)) as Hso32.
    destruct (Z.ltb_spec 0 (getInt pd b_opSubrs 0)) as [Hpos|Hnpos].
    - rewrite read_index_at_same in Esubrs.
      destruct (read_index_at_spec _ _ _ Esubrs) as [Hge4 Hidx].
      unfold S_dict_offset. rewrite (getInt_entry pd b_opSubrs 0 _ eq_refl) by lia.
      replace (0 <? getInt pd b_opSubrs 0)%Z with true by (symmetry; apply Z.ltb_lt; exact Hpos).
      unfold int32 in *.
      destruct (Z.lt_ge_cases (pdOffs + getInt pd b_opSubrs 0) 2147483648) as [Hsmall|Hbig].
      + rewrite wrap_i32_id in Hidx by (unfold int32; lia). exact Hidx.
      + pose proof (wrap_i32_big (pdOffs + getInt pd b_opSubrs 0) ltac:(lia)). lia.
    - inversion Esubrs; subst.
      unfold S_dict_offset. destruct (dget pd b_opSubrs) as [|v [|v2 r]] eqn:Ed; try reflexivity; destruct v; try reflexivity.
      assert (getInt pd b_opSubrs 0 = z) by (unfold getInt; rewrite Ed; reflexivity).
      replace (0 <? z)%Z with false by (symmetry; apply Z.ltb_ge; lia). reflexivity. }
  split; [congruence|]. split.
  - transitivity (getFloat pd b_opDefaultWidthX R0); [congruence|apply getFloat_number].
  - transitivity (getFloat pd b_opNominalWidthX R0); [congruence|apply getFloat_number].
Qed.

(* ---------- the glyph loop ---------- *)

Lemma glyph_loop_spec decs : forall codes fdsel gl,
  M_glyph_loop decs fdsel codes = GOk gl ->
  length gl = length codes /\
  forall gid g, nth_error gl gid = Some g ->
    exists code fd di, nth_error codes gid = Some code /\ nth_error fdsel gid = Some fd /\
                       nth_error decs (N.to_nat fd) = Some di /\ M_decode di code = GOk g.
Proof.
  induction codes as [|code cr IH]; intros fdsel gl; cbn [M_glyph_loop].
  - intros H; inversion H; subst. split; [reflexivity|]. intros gid g E. destruct gid; discriminate.
  - destruct fdsel as [|fd fr]; [discriminate|].
    destruct (nth_error decs (N.to_nat fd)) as [di|] eqn:Ed; [|discriminate].
    destruct (M_decode di code) as [g0| | | |] eqn:Eg; try discriminate.
    destruct (M_glyph_loop decs fr cr) as [gs| | | |] eqn:El; try discriminate.
    intros H; inversion H; subst. destruct (IH _ _ El) as [L P].
    split; [cbn [length]; f_equal; exact L|].
    intros gid g E. destruct gid as [|gid]; cbn [nth_error] in *.
    + inversion E; subst. exists code, fd, di. repeat split; assumption.
    + apply P. exact E.
Qed.

(* ---------- the font ---------- *)

Lemma index_chain size inp x : M_index_read_fast size inp = Ok x ->
  exists n, S_index inp = Some (fst x, n) /\ snd x = dropN inp n.
Proof. destruct x as [bl r]. intros H. destruct (index_conforms _ _ _ _ H) as (n & A & B & _). exists n. split; assumption. Qed.

Lemma font_of_spec data rf :
  bytes_ok data = true ->
  read_facts data rf ->
  exists f x3 top cs,
    S_font_of data = Some f /\ sf_strs f = x3 /\ sf_top f = top /\ sf_gsubrs f = rf_gsubrs rf /\
    sf_charstrings f = cs /\ map snd (rf_glyphs rf) = cs /\
    (exists b, bytes_ok b = true /\ M_decodeDict x3 b = Ok top) /\
    ((dfind b_opROS top = None /\ rf_ros rf = None /\
      exists p, M_readPrivate data x3 top = Ok p /\ rf_private rf = [p] /\
                rf_fdselect rf = repeat 0 (N.to_nat (lenN cs)))
     \/
     ((exists v, dfind b_opROS top = Some v) /\ (exists r, rf_ros rf = Some r) /\
      exists fdIdx fds fsel,
        read_index_at data (getInt top b_opFDArray 0) = Ok fdIdx /\
        map_outcome (fd_reader data x3) fdIdx = Ok fds /\
        (4 <= getInt top b_opFDSelect 0)%Z /\
        M_fdselect_read (lenN cs) (lenN fds) (dropN data (Z.to_N (getInt top b_opFDSelect 0))) = Ok fsel /\
        rf_private rf = map fst fds /\ rf_fdselect rf = fst fsel)).
Proof.
  intros Hb [x1 x2 x3 x4 top cs E1 E2 E3 Etop E4 Ecs Hg Hc Hbr].
  destruct (index_chain _ _ _ E1) as (n1 & S1 & R1).
  rewrite R1 in E2. rewrite dropN_dropN in E2.
  pose proof (index_objects_bytes _ _ _ (bytes_ok_dropN _ _ Hb) E2) as Hb2.
  destruct (index_chain _ _ _ E2) as (n2 & S2 & R2).
  rewrite R2 in E3. rewrite dropN_dropN in E3.
  destruct (index_chain _ _ _ E3) as (n3 & S3 & R3).
  rewrite R3 in E4. rewrite dropN_dropN in E4.
  destruct (index_chain _ _ _ E4) as (n4 & S4 & R4).
  destruct (read_index_at_spec _ _ _ Ecs) as [Hcs4 Scs].
  exists {| sf_strs := fst x3; sf_top := top; sf_gsubrs := fst x4; sf_charstrings := cs |}, (fst x3), top, cs.
  split.
  { unfold S_font_of. rewrite S1. cbn [opt_bind snd fst]. rewrite S2. cbn [opt_bind snd fst].
    rewrite S3. cbn [opt_bind snd fst]. rewrite S4. cbn [opt_bind snd fst].
    unfold S_decode_dict. rewrite Etop. cbn [opt_bind].
    change S_opCharStrings with b_opCharStrings. rewrite (offset_operand _ _ Hcs4). cbn [opt_bind].
    rewrite Scs. reflexivity. }
  cbn [sf_strs sf_top sf_gsubrs sf_charstrings].
  repeat split; try assumption; try reflexivity; try (symmetry; assumption).
  exists (hd [] (fst x2)). split; [|exact Etop].
  destruct (fst x2) as [|b0 bs]; [reflexivity|]. inversion Hb2; assumption.
Qed.

(* ---------- the theorem ---------- *)

Lemma nth_error_repeat {A} (x : A) n i : (i < n)%nat -> nth_error (repeat x n) i = Some x.
Proof. revert i; induction n as [|n IH]; intros i H; [lia|]. destruct i; cbn; [reflexivity|apply IH; lia]. Qed.

Lemma nth_error_repeat_inv {A} (x y : A) n i : nth_error (repeat x n) i = Some y -> y = x.
Proof. revert i; induction n as [|n IH]; intros i; destruct i; cbn; try discriminate; [intros H; inversion H; reflexivity|apply IH]. Qed.

Section Conform.
Variable std_code : str -> option N.
Variable exp_code : str -> option N.

Lemma glyphs_conform_lemma data gl :
  bytes_ok data = true ->
  M_cff_read std_code exp_code data = GOk gl ->
  exists f, S_font_of data = Some f /\
            length gl = length (sf_charstrings f) /\
            forall gid g, nth_error gl gid = Some g -> S_glyph data f gid = Some (GOk g).
Proof.
  intros Hb. unfold M_cff_read.
  destruct (M_read std_code exp_code data) as [rf| | |] eqn:Er; try discriminate.
  intros Hloop.
  destruct (font_of_spec data rf Hb (read_inv _ _ _ _ Er)) as (f & x3 & top & cs & Sf & Hstrs & Htop & Hgs & Hcs & Hcodes & [tb [Htb Etop]] & Hbr).
  exists f. split; [exact Sf|].
  rewrite Hcodes in Hloop. destruct (glyph_loop_spec _ _ _ _ Hloop) as [Hlen Hg].
  split; [rewrite Hcs; exact Hlen|].
  intros gid g Eg. destruct (Hg gid g Eg) as (code & fd & di & Ecode & Efd & Edi & Edec).
  unfold S_glyph. rewrite Hcs, Ecode. cbn [opt_bind].
  assert (Hrd : rd_ok top) by (eapply decodeDict_ok; [exact Htb|exact Etop]).
  destruct Hbr as [(Hros & Hrf & p & Ep & Hpriv & Hsel)|([rosv Hros] & [rr Hrf] & fdIdx & fds & fsel & Efdi & Efds & Hsel4 & Efsel & Hpriv & Hsel)].
  - (* name-keyed font: one Private DICT, named by the Top DICT *)
    assert (Hcid : S_is_cid f = false).
    { unfold S_is_cid. rewrite Htop. change S_opROS with b_opROS. rewrite Hros. reflexivity. }
    unfold S_fd_of, S_fontdict. rewrite Hcid. cbn [opt_bind].
    rewrite Hsel in Efd. apply nth_error_repeat_inv in Efd. subst fd.
    unfold M_decoders in Edi. rewrite Hrf, Hpriv in Edi. cbn [map nth_error N.to_nat] in Edi.
    inversion Edi; subst di; clear Edi.
    rewrite <- Hstrs in Ep. rewrite Htop.
    destruct (readPrivate_spec data f top p Hb Hrd Ep) as (offs & pd & lsubrs & Sp & Sl & A & B & C).
    rewrite Sp. cbn [opt_bind]. rewrite Sl. cbn [opt_bind].
    rewrite decodeInfo_simple in Edec. unfold M_decode in Edec. cbn [di_defw di_nomw di_subr di_gsubr pinfo_of pi_subrs pi_defw pi_nomw] in Edec.
    rewrite A, B, C in Edec. rewrite Hgs. rewrite Edec. reflexivity.
  - (* CID-keyed font: the Private DICT of the glyph's own Font DICT *)
    assert (Hcid : S_is_cid f = true).
    { unfold S_is_cid. rewrite Htop. change S_opROS with b_opROS. rewrite Hros. reflexivity. }
    destruct (read_index_at_spec _ _ _ Efdi) as [Hfa4 Sfa].
    assert (Sfda : S_fdarray data f = Some fdIdx).
    { unfold S_fdarray. rewrite Htop. change S_opFDArray with b_opFDArray. rewrite (offset_operand _ _ Hfa4).
      cbn [opt_bind]. exact Sfa. }
    assert (Hnfd : S_num_fd data f = lenN fds).
    { unfold S_num_fd. rewrite Hcid, Sfda. rewrite !lenN_length. f_equal. symmetry. eapply map_outcome_length. exact Efds. }
    (* the decoder of this glyph *)
    unfold M_decoders in Edi. rewrite Hrf, Hpriv, map_map in Edi.
    rewrite nth_error_map in Edi.
    destruct (nth_error fds (N.to_nat fd)) as [[pi fm]|] eqn:Efdn; [|discriminate].
    cbn [option_map fst] in Edi. inversion Edi; subst di; clear Edi.
    destruct (map_outcome_nth _ _ _ _ _ Efds Efdn) as (blob & Eblob & Erd).
    unfold fd_reader in Erd. apply obind_ok in Erd. destruct Erd as (fdict & Efdict & Erd).
    apply obind_ok in Erd. destruct Erd as (pi' & Epi & Erd). inversion Erd; subst pi' fm; clear Erd.
    (* FDSelect *)
    unfold S_fd_of. rewrite Hcid, Hnfd, Htop. change S_opFDSelect with b_opFDSelect.
    rewrite (offset_operand _ _ Hsel4). cbn [opt_bind].
    replace (getInt top b_opFDSelect 0 <? 0)%Z with false by (symmetry; apply Z.ltb_ge; lia).
    rewrite Hcs, Efsel. destruct fsel as [tbl r0]. cbn [fst] in Hsel. rewrite Hsel in Efd. rewrite Efd. cbn [opt_bind].
    (* the Font DICT *)
    unfold S_fontdict. rewrite Hcid, Sfda. cbn [opt_bind]. rewrite Eblob. cbn [opt_bind].
    rewrite Hstrs. unfold S_decode_dict at 1. rewrite Efdict. cbn [opt_bind].
    assert (Hbb : bytes_ok blob = true).
    { pose proof (read_index_at_bytes _ _ _ Hb Efdi) as Hall. rewrite Forall_forall in Hall.
      apply Hall. eapply nth_error_In. exact Eblob. }
    assert (Hrdf : rd_ok fdict) by (eapply decodeDict_ok; [exact Hbb|exact Efdict]).
    rewrite <- Hstrs in Epi.
    destruct (readPrivate_spec data f fdict pi Hb Hrdf Epi) as (offs & pd & lsubrs & Sp & Sl & A & B & C).
    rewrite Sp. cbn [opt_bind]. rewrite Sl. cbn [opt_bind].
    rewrite decodeInfo_cid in Edec. unfold M_decode in Edec. cbn [di_defw di_nomw di_subr di_gsubr pinfo_of pi_subrs pi_defw pi_nomw] in Edec.
    rewrite A, B, C in Edec. rewrite Hgs. rewrite Edec. reflexivity.
Qed.

(* the whole list *)
Lemma glyphs_from_spec data f : forall k gid (gl : list cglyph),
  length gl = k ->
  (forall i g, nth_error gl i = Some g -> S_glyph data f (gid + i) = Some (GOk g)) ->
  S_glyphs_from data f gid k = Some (map GOk gl).
Proof.
  induction k as [|k IH]; intros gid gl Hl Hg.
  - destruct gl; [reflexivity|discriminate].
  - destruct gl as [|g gl]; [discriminate|]. cbn [S_glyphs_from map].
    pose proof (Hg 0%nat g eq_refl) as H0. rewrite Nat.add_0_r in H0. rewrite H0. cbn [opt_bind].
    rewrite (IH (S gid) gl); [reflexivity|cbn in Hl; lia|].
    intros i g' E. specialize (Hg (S i) g' E). rewrite Nat.add_succ_r in Hg. exact Hg.
Qed.

Lemma cff_glyphs_conform data gl :
  bytes_ok data = true ->
  M_cff_read std_code exp_code data = GOk gl ->
  S_cff_glyphs data = Some (map GOk gl).
Proof.
  intros Hb H. destruct (glyphs_conform_lemma data gl Hb H) as (f & Sf & Hl & Hg).
  unfold S_cff_glyphs. rewrite Sf. cbn [opt_bind]. apply glyphs_from_spec; [exact Hl|].
  intros i g E. apply Hg. exact E.
Qed.
End Conform.
