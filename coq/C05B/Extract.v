From Coq Require Import Extraction ExtrOcamlBasic.
From Common Require Import Conv.
From C13 Require Import Model ModelDict.
From C13B Require Import ModelNum ModelCDict.
From C05B Require Import Model Spec.
Extraction "c05b_model.ml" conv_anchor lenN M_cff_read S_cff_glyphs M_read_private M_decodeDict M_index_read_fast S_index.
