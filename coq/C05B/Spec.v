(* C05B/Spec.v — S_cff_glyphs: the glyphs of a CFF font BY THE SPECIFICATIONS,
   written from Adobe TN5176 (INDEX section 5, DICT section 4 "number"
   operands, Top DICT / Font DICT operators Private, CharStrings, FDArray,
   FDSelect, ROS; Private DICT operators Subrs, defaultWidthX, nominalWidthX;
   Local / Global Subrs section 16; FDSelect section 19) and TN5177 (width
   rule of section 3.1 / 4.1), as a function of the bytes and a glyph index.
   It is NOT a mirror of cff/read.go: there is no reader position, no list of
   decoders, no accessor table - every object is addressed by the offsets the
   file states, per glyph.

   Components taken from the developments this part imports: the DICT
   tokenizer / operand values of C13 (M_decodeDict: integers, reals as exact
   decimals), the FDSelect reader of C13 (formats 0 and 3), the Type 2
   interpreter S_t2 of C05.  Definitions only. *)
From Coq Require Import List NArith ZArith Bool Arith Lia.
From C05 Require Import Model.
From Common Require Import Bytes Outcome.
From C13 Require Import Model ModelDict ModelTables.
From C13B Require Import ModelNum ModelStr ModelCDict.
From C05B Require Import Model.
Import ListNotations.
Local Open Scope N_scope.

(* ================= INDEX (TN5176 section 5) ================= *)

(* "count (Card16), offSize (OffSize), offset[count+1] (Offset), data.
   Offsets in the offset array are relative to the byte that precedes the
   object data.  An object is retrieved by indexing the offset array and
   fetching the object at the specified offset; its length is the difference
   of the next offset and its own.  An empty INDEX is a count field of 0 and
   nothing else."  inp = the file from the first byte of the INDEX. *)

(* an Offset field of offSize bytes at position p, most significant byte
   first.  The specification allows offSize 1..4; for a larger offSize the
   value is folded into 32 bits (C13's be_val), which is how the library reads
   such a field - an INDEX of that kind is outside the specification and the
   choice only keeps S_index defined there. *)
Definition S_be (inp : list N) (p k : N) : N := be_val (takeN (dropN inp p) k).

Definition S_index_count (inp : list N) : option N :=
  match inp with a :: b :: _ => Some (a * 256 + b) | _ => None end.

Definition S_index_offsize (inp : list N) : N := nth 2 inp 0.

(* offset number i, 0 <= i <= count *)
Definition S_index_offset (inp : list N) (i : N) : N :=
  S_be inp (3 + i * S_index_offsize inp) (S_index_offsize inp).

(* position of the byte that precedes the object data *)
Definition S_index_base (inp : list N) (count : N) : N :=
  3 + (count + 1) * S_index_offsize inp - 1.

Fixpoint seqN0 (k : nat) (i : N) : list N :=
  match k with O => [] | S k' => i :: seqN0 k' (i + 1) end.

(* the offset array *)
Definition S_index_offsets (inp : list N) (count : N) : list N :=
  map (S_index_offset inp) (seqN0 (S (N.to_nat count)) 0).

(* f applied to every pair of neighbours *)
Fixpoint adj {A} (f : N -> N -> A) (l : list N) : list A :=
  match l with
  | a :: t => match t with b :: _ => f a b :: adj f t | [] => [] end
  | [] => []
  end.

(* the object between two neighbouring offsets a, b: b - a bytes at base + a *)
Definition S_index_object (inp : list N) (base a b : N) : list N :=
  takeN (dropN inp (base + a)) (b - a).

(* well-formed: the count, offSize and offset array are there, the first
   offset is at least 1, offsets do not decrease (an object may be EMPTY: two
   equal neighbours), and the data they describe lies inside the input *)
Definition S_index_wf (inp : list N) (count : N) : bool :=
  (3 + (count + 1) * S_index_offsize inp <=? lenN inp) &&
  (1 <=? hd 0 (S_index_offsets inp count)) &&
  forallb (fun x => x) (adj (fun a b => a <=? b) (S_index_offsets inp count)) &&
  (S_index_base inp count + lastN 0 (S_index_offsets inp count) <=? lenN inp).

(* the objects and the total length of the INDEX *)
Definition S_index (inp : list N) : option (list (list N) * N) :=
  match S_index_count inp with
  | None => None
  | Some count =>
    if count =? 0 then Some ([], 2)
    else if S_index_wf inp count
         then Some (adj (S_index_object inp (S_index_base inp count)) (S_index_offsets inp count),
                    S_index_base inp count + lastN 0 (S_index_offsets inp count))
         else None
  end.

Definition S_index_at (data : list N) (pos : Z) : option (list (list N)) :=
  if (pos <? 0)%Z then None
  else match S_index (dropN data (Z.to_N pos)) with Some (bl, _) => Some bl | None => None end.

(* ================= DICT operands (TN5176 section 4, tables 3-6, 9, 23) ================= *)

(* operand type "number": an integer or a real; both denote their value *)
Definition S_number (v : rval) : option real :=
  match v with
  | RInt z => Some (real_of_Z z)
  | RReal r => Some r
  | RStr _ => None
  end.

(* the value of a single-number entry; the default when the entry is absent
   (or does not have the one-number form) *)
Definition S_dict_number (d : rdict) (op : N) (dflt : real) : real :=
  match dget d op with
  | [v] => match S_number v with Some r => r | None => dflt end
  | _ => dflt
  end.

(* an offset or size operand: an integer operand *)
Definition S_dict_offset (d : rdict) (op : N) : option Z :=
  match dget d op with [RInt z] => Some z | _ => None end.

(* operator numbers of TN5176 tables 9, 10, 23 (one-byte b, two-byte 12 b as 3072 + b) *)
Definition S_opCharStrings : N := 17.
Definition S_opPrivate : N := 18.
Definition S_opSubrs : N := 19.
Definition S_opDefaultWidthX : N := 20.
Definition S_opNominalWidthX : N := 21.
Definition S_opROS : N := 3072 + 30.
Definition S_opFDArray : N := 3072 + 36.
Definition S_opFDSelect : N := 3072 + 37.

(* ================= the font ================= *)

Definition opt_bind {A B} (x : option A) (f : A -> option B) : option B :=
  match x with Some a => f a | None => None end.
Notation "x <-? e1 ;; e2" := (opt_bind e1 (fun x => e2)) (at level 61, e1 at next level, right associativity).

Definition S_decode_dict (strs : list str) (b : list N) : option rdict :=
  match M_decodeDict strs b with Ok d => Some d | _ => None end.

Record sfont := mkSfont {
  sf_strs : list str;
  sf_top : rdict;
  sf_gsubrs : list (list N);          (* Global Subr INDEX *)
  sf_charstrings : list (list N)      (* CharStrings INDEX *)
}.

(* header (hdrSize at byte 2), then Name INDEX, Top DICT INDEX, String INDEX,
   Global Subr INDEX one after the other; CharStrings INDEX at the offset the
   Top DICT states (TN5176 section 2, table 1) *)
Definition S_font_of (data : list N) : option sfont :=
  let hdrSize := nth 2 data 0 in
  x1 <-? S_index (dropN data hdrSize) ;;
  let p2 := hdrSize + snd x1 in
  x2 <-? S_index (dropN data p2) ;;
  let p3 := p2 + snd x2 in
  x3 <-? S_index (dropN data p3) ;;
  let p4 := p3 + snd x3 in
  x4 <-? S_index (dropN data p4) ;;
  top <-? S_decode_dict (fst x3) (hd [] (fst x2)) ;;
  cso <-? S_dict_offset top S_opCharStrings ;;
  cs <-? S_index_at data cso ;;
  Some {| sf_strs := fst x3; sf_top := top; sf_gsubrs := fst x4; sf_charstrings := cs |}.

Definition S_is_cid (f : sfont) : bool :=
  match dfind S_opROS (sf_top f) with Some _ => true | None => false end.

(* the Font DICT index of a glyph: FDSelect (TN5176 section 19) for a CIDFont,
   0 for a name-keyed font *)
Definition S_fd_of (data : list N) (f : sfont) (nFD : N) (gid : nat) : option N :=
  if S_is_cid f then
    o <-? S_dict_offset (sf_top f) S_opFDSelect ;;
    if (o <? 0)%Z then None else
    match M_fdselect_read (lenN (sf_charstrings f)) nFD (dropN data (Z.to_N o)) with
    | Ok (tbl, _) => nth_error tbl gid
    | _ => None
    end
  else Some 0.

(* the dictionary that holds the Private operator of Font DICT number fd:
   that Font DICT of the FDArray INDEX (CIDFont), the Top DICT otherwise *)
Definition S_fdarray (data : list N) (f : sfont) : option (list (list N)) :=
  o <-? S_dict_offset (sf_top f) S_opFDArray ;; S_index_at data o.

Definition S_fontdict (data : list N) (f : sfont) (fd : N) : option rdict :=
  if S_is_cid f then
    fa <-? S_fdarray data f ;;
    b <-? nth_error fa (N.to_nat fd) ;;
    S_decode_dict (sf_strs f) b
  else Some (sf_top f).

Definition S_num_fd (data : list N) (f : sfont) : N :=
  if S_is_cid f then match S_fdarray data f with Some fa => lenN fa | None => 0 end else 1.

(* "Private: number number - Private DICT size and offset (0)": the Private
   DICT of a Font DICT is the size bytes at offset; returns (offset, DICT) *)
Definition S_private_of (data : list N) (f : sfont) (fdict : rdict) : option (Z * rdict) :=
  match dget fdict S_opPrivate with
  | [RInt size; RInt offs] =>
    if (0 <=? size)%Z && (0 <=? offs)%Z && (offs + size <=? Z.of_N (lenN data))%Z then
      pd <-? S_decode_dict (sf_strs f) (takeN (dropN data (Z.to_N offs)) (Z.to_N size)) ;;
      Some (offs, pd)
    else None
  | _ => None
  end.

(* "Subrs: number - Offset (self) to local subrs": relative to the start of
   the Private DICT; no entry (or no positive offset): no local subroutines *)
Definition S_local_subrs (data : list N) (offs : Z) (pd : rdict) : option (list (list N)) :=
  match S_dict_offset pd S_opSubrs with
  | Some o => if (0 <? o)%Z then S_index_at data (offs + o) else Some []
  | None => Some []
  end.

(* the glyph with index gid: its charstring interpreted with the local
   subroutines and the default / nominal width of ITS Font DICT's Private DICT
   and the global subroutines of the font *)
Definition S_glyph (data : list N) (f : sfont) (gid : nat) : option (gres cglyph) :=
  code <-? nth_error (sf_charstrings f) gid ;;
  fd <-? S_fd_of data f (S_num_fd data f) gid ;;
  fdict <-? S_fontdict data f fd ;;
  op <-? S_private_of data f fdict ;;
  let '(offs, pd) := op in
  lsubrs <-? S_local_subrs data offs pd ;;
  Some (T2_decode (S_dict_number pd S_opDefaultWidthX R0) (S_dict_number pd S_opNominalWidthX R0)
                  lsubrs (sf_gsubrs f) code).

(* all glyphs, in glyph order; None when a glyph's data cannot be located *)
Fixpoint S_glyphs_from (data : list N) (f : sfont) (gid : nat) (k : nat) : option (list (gres cglyph)) :=
  match k with
  | O => Some []
  | S k' =>
    g <-? S_glyph data f gid ;;
    r <-? S_glyphs_from data f (S gid) k' ;;
    Some (g :: r)
  end.

Definition S_cff_glyphs (data : list N) : option (list (gres cglyph)) :=
  f <-? S_font_of data ;;
  S_glyphs_from data f 0 (length (sf_charstrings f)).
