(* C05B/Proofs_num.v — the value of a "number" operand does not depend on the
   form it is written in: every integer form, every real form of the same
   number, an integral real and the integer itself. *)
From Coq Require Import List NArith ZArith Bool Arith Lia.
From C05 Require Import Model.
From Common Require Import Bytes Outcome.
From Gen Require Import C13 C13B C05B.
From C13 Require Import Model Util ModelDict ModelTables Proofs_real Proofs_dict.
From C13B Require Import ModelNum ModelStr ModelCDict ModelFont Util.
From C05B Require Import Model Spec Proofs_dict Tie Proofs_misc.
Import ListNotations.
Local Open Scope Z_scope.

(* ---------- canonical decimals ---------- *)

Lemma canon_unique c1 c2 a b :
  0 < c1 -> c1 mod 10 <> 0 -> 0 < c2 -> c2 mod 10 <> 0 -> 0 <= a -> 0 <= b ->
  c1 * 10 ^ a = c2 * 10 ^ b -> a = b /\ c1 = c2.
Proof.
  intros H1 N1 H2 N2 Ha Hb E.
  destruct (Z.le_gt_cases a b) as [L|G].
  - assert (E' : c1 = c2 * 10 ^ (b - a)).
    { replace b with (a + (b - a)) in E by lia. rewrite Z.pow_add_r in E by lia.
      pose proof (pow10_pos a Ha). nia. }
    pose proof (not_div10_pow c1 c2 (b - a) H1 N1 ltac:(lia) E') as K.
    split; [lia|]. rewrite K, Z.pow_0_r in E'. lia.
  - assert (E' : c2 = c1 * 10 ^ (a - b)).
    { replace a with (b + (a - b)) in E by lia. rewrite Z.pow_add_r in E by lia.
      pose proof (pow10_pos b Hb). nia. }
    pose proof (not_div10_pow c2 c1 (a - b) H2 N2 ltac:(lia) E') as K. lia.
Qed.

(* rnorm of a positive mantissa: the canonical pair *)
Lemma rnorm_canon neg m e : 0 < m ->
  exists c f, rnorm neg m e = mkReal neg c f /\ 0 < c /\ c mod 10 <> 0 /\ e <= f /\ m = c * 10 ^ (f - e).
Proof.
  intros Hm. unfold rnorm. destruct (Z.leb_spec m 0); [lia|].
  destruct (strip10_spec (strip_fuel m) m e Hm (log2_fuel m Hm)) as (A & B & C & D).
  eexists _, _. split; [reflexivity|]. repeat split; assumption.
Qed.

(* two decimals m1*10^e1 = m2*10^e2 have the same canonical form and the same
   order of magnitude *)
Lemma rnorm_equiv neg m1 e1 m2 e2 : 0 < m1 -> 0 < m2 -> dec_equiv m1 e1 m2 e2 ->
  rnorm neg m1 e1 = rnorm neg m2 e2 /\ ndigits m1 + e1 = ndigits m2 + e2.
Proof.
  intros H1 H2 E.
  destruct (rnorm_canon neg m1 e1 H1) as (c1 & f1 & R1 & P1 & N1 & L1 & M1).
  destruct (rnorm_canon neg m2 e2 H2) as (c2 & f2 & R2 & P2 & N2 & L2 & M2).
  unfold dec_equiv in E. set (mn := Z.min e1 e2) in *.
  assert (X : c1 * 10 ^ (f1 - mn) = c2 * 10 ^ (f2 - mn)).
  { replace (f1 - mn) with ((f1 - e1) + (e1 - mn)) by lia.
    replace (f2 - mn) with ((f2 - e2) + (e2 - mn)) by lia.
    rewrite !Z.pow_add_r by lia. rewrite !Z.mul_assoc, <- M1, <- M2. exact E. }
  destruct (canon_unique c1 c2 (f1 - mn) (f2 - mn) P1 N1 P2 N2 ltac:(lia) ltac:(lia) X) as [Ef Ec].
  assert (f1 = f2) by lia. subst f2 c2.
  split; [rewrite R1, R2; reflexivity|].
  rewrite M1, M2. rewrite !ndigits_mul10 by lia. lia.
Qed.

(* ---------- real operands: only the number counts ---------- *)

Definition decimal_exp (d : decimal) : Z := d_exp d - d_nfrac d.

Lemma real_of_decimal_value d1 d2 :
  0 < d_mant d1 -> 0 < d_mant d2 -> d_neg d1 = d_neg d2 ->
  dec_equiv (d_mant d1) (decimal_exp d1) (d_mant d2) (decimal_exp d2) ->
  real_of_decimal d1 = real_of_decimal d2.
Proof.
  intros H1 H2 Hn E. unfold real_of_decimal. fold (decimal_exp d1) (decimal_exp d2).
  destruct (Z.leb_spec (d_mant d1) 0); [lia|]. destruct (Z.leb_spec (d_mant d2) 0); [lia|].
  destruct (rnorm_equiv (d_neg d1) _ _ _ _ H1 H2 E) as [A B]. rewrite B, Hn in *. rewrite A. reflexivity.
Qed.

Lemma real_of_decimal_zero d : d_mant d <= 0 -> real_of_decimal d = R0.
Proof. intros H. unfold real_of_decimal. destruct (Z.leb_spec (d_mant d) 0); [reflexivity|lia]. Qed.

(* an integral real and the integer operand of the same value *)
Lemma real_of_decimal_int d z :
  z <> 0 -> Z.abs z < 10 ^ 300 -> 0 < d_mant d -> d_neg d = (z <? 0) ->
  dec_equiv (d_mant d) (decimal_exp d) (Z.abs z) 0 ->
  real_of_decimal d = real_of_Z z.
Proof.
  intros Hz Hb Hm Hn E. unfold real_of_decimal, real_of_Z. fold (decimal_exp d).
  destruct (Z.leb_spec (d_mant d) 0); [lia|].
  assert (Hza : 0 < Z.abs z) by lia.
  destruct (rnorm_equiv (d_neg d) _ _ _ _ Hm Hza E) as [A B]. rewrite B, Z.add_0_r.
  destruct (ndigits_spec (Z.abs z) ltac:(lia)) as (N1 & N2 & N3).
  assert (ndigits (Z.abs z) <= 300).
  { destruct (Z.le_gt_cases (ndigits (Z.abs z)) 300); [assumption|].
    pose proof (pow10_mono 300 (ndigits (Z.abs z) - 1) ltac:(lia)). lia. }
  destruct (Z.leb_spec (ndigits (Z.abs z)) (-300)); [lia|].
  destruct (Z.leb_spec 301 (ndigits (Z.abs z))); [lia|].
  rewrite A, Hn. reflexivity.
Qed.

(* ---------- integer operands: every form ---------- *)

From Coq Require Import ZifyBool ZifyNat ZifyN.
Ltac Zify.zify_post_hook ::= Z.div_mod_to_equations.

(* the three-byte form 28 hi lo of an int16 and the five-byte form 29 b3 b2 b1 b0
   of an int32 (TN5176 table 3): the encoder never needs them for small
   values, a font may use them *)
Definition int_form3 (a : Z) : list N :=
  let u := Z.to_N (a mod 65536) in [28; u / 256; u mod 256]%N.
Definition int_form5 (a : Z) : list N :=
  let u := Z.to_N (a mod 4294967296) in
  [29; u / 16777216; (u / 65536) mod 256; (u / 256) mod 256; u mod 256]%N.

Lemma int_form3_decodes a rest : -32768 <= a <= 32767 ->
  dict_token (int_form3 a ++ rest) = Ok (TVal (DInt a), rest).
Proof.
  intros H. unfold int_form3, dict_token. cbn [app N.eqb N.leb N.compare Pos.compare Pos.compare_cont Pos.eqb].
  do 4 f_equal. unfold to_i16.
  set (u := Z.to_N (a mod 65536)).
  assert (Zu : Z.of_N u = a mod 65536) by (unfold u; rewrite Z2N.id; [reflexivity|apply Z.mod_pos_bound; lia]).
  replace (u / 256 * 256 + u mod 256)%N with u by (pose proof (N.div_mod u 256 ltac:(lia)); lia).
  destruct (N.ltb_spec u 32768); lia.
Qed.

Lemma int_form5_decodes a rest : -2147483648 <= a <= 2147483647 ->
  dict_token (int_form5 a ++ rest) = Ok (TVal (DInt a), rest).
Proof.
  intros H. unfold int_form5, dict_token. cbn [app N.eqb N.leb N.compare Pos.compare Pos.compare_cont Pos.eqb].
  do 4 f_equal. unfold to_i32.
  set (u := Z.to_N (a mod 4294967296)).
  assert (Zu : Z.of_N u = a mod 4294967296) by (unfold u; rewrite Z2N.id; [reflexivity|apply Z.mod_pos_bound; lia]).
  assert (Hsum : (u / 16777216 * 16777216 + (u / 65536) mod 256 * 65536 + (u / 256) mod 256 * 256 + u mod 256 = u)%N).
  { pose proof (N.div_mod u 256 ltac:(lia)). pose proof (N.div_mod (u / 256) 256 ltac:(lia)).
    pose proof (N.div_mod (u / 256 / 256) 256 ltac:(lia)).
    replace (u / 65536)%N with (u / 256 / 256)%N by (rewrite N.div_div by lia; reflexivity).
    replace (u / 16777216)%N with (u / 256 / 256 / 256)%N by (rewrite !N.div_div by lia; reflexivity).
    lia. }
  rewrite Hsum.
  destruct (N.ltb_spec u 2147483648); lia.
Qed.

(* ---------- a Private DICT holding one width entry ---------- *)

Definition S_value (v : dictval) : real :=
  match v with
  | DInt z => real_of_Z z
  | DReal d => real_of_decimal d
  | DStr _ => R0
  end.

Definition is_number (v : dictval) : Prop := match v with DStr _ => False | _ => True end.

(* operand bytes followed by the operator 20 or 21: the DICT has that one entry *)
Lemma one_entry_dict strs enc v (op : N) :
  (op = 20 \/ op = 21)%N -> is_number v ->
  dict_token (enc ++ [op]) = Ok (TVal v, [op]) ->
  M_decodeDict strs (enc ++ [op]) = Ok [(op, [resolve strs v])].
Proof.
  intros Hop Hv Ht. unfold M_decodeDict, M_dict_decode_top.
  assert (Hl : (2 <= length (enc ++ [op]))%nat).
  { rewrite app_length. cbn [length]. destruct enc; [|cbn; lia].
    cbn [app] in Ht. unfold dict_token in Ht. destruct Hop; subst op; cbn in Ht; discriminate. }
  destruct (length (enc ++ [op])) as [|[|n]] eqn:El; try lia.
  cbn [M_dict_decode]. destruct (enc ++ [op]) as [|b r] eqn:Eb; [cbn in El; lia|].
  rewrite Ht. cbn [obind fst snd app].
  assert (Hop2 : dict_token [op] = Ok (TOp op, [])) by (destruct Hop; subst op; reflexivity).
  rewrite Hop2. cbn [obind fst snd].
  assert (Hf : flush (lenN strs) op [v] [] = Ok [(op, [v])]) by (destruct Hop; subst op; reflexivity).
  rewrite Hf. cbn [obind]. destruct n; reflexivity.
Qed.

Lemma one_entry_number strs v (op : N) (d : rdict) :
  is_number v -> d = [(op, [resolve strs v])] -> S_dict_number d op R0 = S_value v.
Proof.
  intros Hv ->. unfold S_dict_number, dget. cbn [dfind]. rewrite N.eqb_refl.
  destruct v; [reflexivity|reflexivity|contradiction].
Qed.
