(* C05B/Proofs_props.v — the lemmas behind Props.v that combine the pieces. *)
From Coq Require Import List NArith ZArith Bool Arith Lia.
From C05 Require Import Model.
From Common Require Import Bytes Outcome.
From Gen Require Import C13 C13B C05B.
From C13 Require Import Model Util ModelDict ModelTables Proofs_real Proofs_index.
From C13 Require Props.
From C13B Require Import ModelNum ModelStr ModelCDict ModelFont Util.
From C05B Require Import Model Spec Proofs_index Proofs_dict Proofs_read Tie Proofs_conform Proofs_misc Proofs_num.
Import ListNotations.
Local Open Scope N_scope.

(* ---------- width entries in every operand form ---------- *)

Lemma width_forms_lemma data strs d p size offs enc v (op : N) :
  M_read_private data strs d = Ok p ->
  getPair d b_opPrivate = Some (size, offs) ->
  takeN (dropN data (Z.to_N offs)) (Z.to_N size) = enc ++ [op] ->
  (op = 20 \/ op = 21) -> is_number v ->
  dict_token (enc ++ [op]) = Ok (TVal v, [op]) ->
  (op = 20 -> pi_defw p = S_value v /\ pi_nomw p = R0) /\
  (op = 21 -> pi_nomw p = S_value v /\ pi_defw p = R0).
Proof.
  intros Hp Hpair Hbytes Hop Hv Htok.
  destruct (private_own_range _ _ _ _ Hp) as (size' & offs' & pd & Hpair' & _ & _ & _ & Hpd & Hd & Hn & _).
  rewrite Hpair in Hpair'. inversion Hpair'; subst size' offs'. rewrite Hbytes in Hpd.
  rewrite (one_entry_dict strs enc v op Hop Hv Htok) in Hpd. inversion Hpd; subst pd.
  split; intros ->.
  - split; [rewrite Hd; apply (one_entry_number strs v 20 _ Hv eq_refl)|rewrite Hn; reflexivity].
  - split; [rewrite Hn; apply (one_entry_number strs v 21 _ Hv eq_refl)|rewrite Hd; reflexivity].
Qed.

(* ---------- INDEXes with empty objects ---------- *)

Lemma empty_entries_lemma (blobs : list (list N)) :
  lenN blobs < 65536 -> sumN (map lenN blobs) < 4294967295 ->
  exists bs, M_index_encode blobs = Ok bs /\
    forall size tail, lenN bs <= size ->
      M_index_read_fast size (bs ++ tail) = Ok (blobs, tail) /\
      (exists n, S_index (bs ++ tail) = Some (blobs, n)).
Proof.
  intros Hc Hs. destruct (Props.index_roundtrip blobs Hc Hs) as (bs & E & R).
  exists bs. split; [exact E|]. intros size tail Hl.
  assert (F : M_index_read_fast size (bs ++ tail) = Ok (blobs, tail)).
  { rewrite index_read_fast_eq. apply R. exact Hl. }
  split; [exact F|]. destruct (index_conforms _ _ _ _ F) as (n & Sn & _). exists n. exact Sn.
Qed.

(* ---------- exact addition ---------- *)

Local Open Scope Z_scope.

(* the value of a canonicalised decimal at any finer scale *)
Lemma rscale_rnorm neg m e e0 : 0 <= m -> e0 <= e ->
  rscale (rnorm neg m e) e0 = (if neg then -1 else 1) * m * 10 ^ (e - e0).
Proof.
  intros Hm He. destruct (Z.eq_dec m 0) as [->|Hnz].
  - unfold rnorm. cbn. unfold rscale. cbn. destruct neg; lia.
  - destruct (rnorm_canon neg m e ltac:(lia)) as (c & f & R & P & Nd & L & M). rewrite R.
    unfold rscale. cbn [r_neg r_mant r_exp]. rewrite M.
    replace (f - e0) with ((f - e) + (e - e0)) by lia. rewrite Z.pow_add_r by lia. lia.
Qed.

(* radd is exact: at any scale not coarser than both operands the sum of the
   scaled values is the scaled value of the sum *)
Lemma radd_exact a b e0 : e0 <= r_exp a -> e0 <= r_exp b ->
  rscale (radd a b) e0 = rscale a e0 + rscale b e0.
Proof.
  intros Ha Hb. unfold radd. set (e := Z.min (r_exp a) (r_exp b)).
  set (v := rscale a e + rscale b e).
  rewrite rscale_rnorm by lia.
  assert (Hv : (if v <? 0 then -1 else 1) * Z.abs v = v) by (destruct (Z.ltb_spec v 0); lia).
  rewrite Hv. unfold v, rscale.
  replace (r_exp a - e0) with ((r_exp a - e) + (e - e0)) by lia.
  replace (r_exp b - e0) with ((r_exp b - e) + (e - e0)) by lia.
  rewrite !Z.pow_add_r by lia. lia.
Qed.

(* a 16.16 number w/65536 as a decimal: scaled by 10^16 it is w * 5^16 *)
Lemma real_of_fix_exact w : rscale (real_of_fix w) (-16) = w * 152587890625.
Proof.
  unfold real_of_fix. rewrite rscale_rnorm by lia. rewrite Z.sub_diag, Z.pow_0_r.
  destruct (Z.ltb_spec w 0); lia.
Qed.

(* ---------- the width rule ---------- *)

Lemma real_of_fix_exp w : -16 <= r_exp (real_of_fix w).
Proof.
  unfold real_of_fix. destruct (Z.eq_dec w 0) as [->|Hnz]; [cbn; lia|].
  destruct (rnorm_canon (w <? 0) (Z.abs w * 152587890625) (-16) ltac:(lia)) as (c & f & R & _ & _ & L & _).
  rewrite R. cbn [r_exp]. exact L.
Qed.

Lemma width_rule_lemma (defw nomw : real) (subr gsubr : list (list N)) (code : list N) (g : cglyph) :
  T2_decode defw nomw subr gsubr code = GOk g ->
  exists st, S_t2_state (tab_of_index subr) (tab_of_index gsubr) code = RDone st /\
    cg_cmds g = cmds st /\ cg_hstem g = hs st /\ cg_vstem g = vs st /\
    match width st with
    | None => cg_width g = defw
    | Some w =>
      forall e0, e0 <= r_exp nomw -> e0 <= -16 ->
        rscale (cg_width g) e0 = rscale nomw e0 + w * 152587890625 * 10 ^ (-16 - e0)
    end.
Proof.
  unfold T2_decode.
  destruct (S_t2_state (tab_of_index subr) (tab_of_index gsubr) code) as [st| | | | |]; try discriminate.
  intros H; inversion H; subst; clear H. exists st. cbn [cg_cmds cg_hstem cg_vstem cg_width].
  split; [reflexivity|]. split; [reflexivity|]. split; [reflexivity|]. split; [reflexivity|].
  unfold width_of. destruct (width st) as [w|]; [|reflexivity].
  intros e0 H1 H2. pose proof (real_of_fix_exp w) as Hfix.
  rewrite radd_exact by lia. f_equal.
  unfold real_of_fix. rewrite rscale_rnorm by lia.
  destruct (Z.ltb_spec w 0); lia.
Qed.

(* ---------- one Private DICT per (offset, size) ---------- *)

Lemma private_per_fd_lemma (data : list N) (strs : list str) (fds : list rdict) (ps : list pinfo) :
  M_fd_loop data strs fds = Ok ps ->
  length ps = length fds /\
  forall i fd, nth_error fds i = Some fd ->
    exists p size offs pd,
      nth_error ps i = Some p /\
      getPair fd b_opPrivate = Some (size, offs) /\
      M_decodeDict strs (takeN (dropN data (Z.to_N offs)) (Z.to_N size)) = Ok pd /\
      pi_defw p = S_dict_number pd S_opDefaultWidthX R0 /\
      pi_nomw p = S_dict_number pd S_opNominalWidthX R0 /\
      pi_subrs p = (if 0 <? getInt pd b_opSubrs 0
                    then match read_index_at data (wrap_i32 (offs + getInt pd b_opSubrs 0)) with Ok l => l | _ => [] end
                    else []) /\
      forall j fd', nth_error fds j = Some fd' ->
        getPair fd' b_opPrivate = Some (size, offs) -> nth_error ps j = Some p.
Proof.
  intros H. destruct (fd_loop_own _ _ _ _ H) as [Hl Hown]. split; [exact Hl|].
  intros i fd Ei. destruct (Hown i fd Ei) as (p & Ep & Hp).
  destruct (private_own_range _ _ _ _ Hp) as (size & offs & pd & Hpair & _ & _ & _ & Hpd & A & B & C).
  exists p, size, offs, pd. repeat split; try assumption.
  intros j fd' Ej Hpair'. destruct (Hown j fd' Ej) as (p' & Ep' & Hp').
  rewrite (private_by_range data strs fd' fd) in Hp' by congruence. rewrite Hp in Hp'. inversion Hp'; subst. exact Ep'.
Qed.

(* ---------- the value of a number does not depend on its encoding ---------- *)

Lemma number_forms_lemma :
  (forall a rest, -2147483648 <= a <= 2147483647 ->
     dict_token (M_dict_int_encode a ++ rest) = Ok (TVal (DInt a), rest) /\
     dict_token (int_form5 a ++ rest) = Ok (TVal (DInt a), rest) /\
     (-32768 <= a <= 32767 -> dict_token (int_form3 a ++ rest) = Ok (TVal (DInt a), rest))) /\
  (forall d1 d2, 0 < d_mant d1 -> 0 < d_mant d2 -> d_neg d1 = d_neg d2 ->
     dec_equiv (d_mant d1) (decimal_exp d1) (d_mant d2) (decimal_exp d2) ->
     real_of_decimal d1 = real_of_decimal d2) /\
  (forall d z, z <> 0 -> Z.abs z < 10 ^ 300 -> 0 < d_mant d -> d_neg d = (z <? 0) ->
     dec_equiv (d_mant d) (decimal_exp d) (Z.abs z) 0 ->
     real_of_decimal d = real_of_Z z) /\
  (forall neg ds l rest,
     Forall (fun x => (x < 10)%N) ds -> ds <> [] -> 0 < digits_value ds ->
     exists cs d,
       M_real_chars (M_real_layout neg ds l ++ rest) [] = Ok (cs, rest) /\ S_real_parse cs = Some d /\
       forall d', 0 < d_mant d' -> d_neg d' = neg ->
         dec_equiv (d_mant d') (decimal_exp d') (digits_value ds) (l - Z.of_nat (length ds)) ->
         real_of_decimal d' = real_of_decimal d).
Proof.
  split; [|split; [|split]].
  - intros a rest Ha. split; [exact (proj1 (Props.dict_int_roundtrip a rest Ha))|].
    split; [exact (int_form5_decodes a rest Ha)|]. intros H16. exact (int_form3_decodes a rest H16).
  - exact real_of_decimal_value.
  - exact real_of_decimal_int.
  - intros neg ds l rest Hd Hne Hpos.
    destruct (Props.dict_real_value neg ds l rest Hd Hne) as (_ & cs & d & A & B & C & D).
    exists cs, d. split; [exact A|]. split; [exact B|].
    intros d' Hm' Hn' E'.
    assert (Hm : 0 < d_mant d).
    { unfold dec_equiv in D.
      set (a := d_exp d - d_nfrac d - Z.min (d_exp d - d_nfrac d) (l - Z.of_nat (length ds))) in *.
      set (b := l - Z.of_nat (length ds) - Z.min (d_exp d - d_nfrac d) (l - Z.of_nat (length ds))) in *.
      pose proof (pow10_pos a ltac:(lia)). pose proof (pow10_pos b ltac:(lia)). nia. }
    unfold real_of_decimal. fold (decimal_exp d') (decimal_exp d).
    destruct (Z.leb_spec (d_mant d') 0); [lia|]. destruct (Z.leb_spec (d_mant d) 0); [lia|].
    destruct (rnorm_equiv neg _ _ _ _ Hm' Hpos E') as [A1 B1].
    destruct (rnorm_equiv neg _ _ _ _ Hm Hpos D) as [A2 B2].
    rewrite Hn', C. unfold decimal_exp in *. rewrite B1, <- B2, A1, <- A2. reflexivity.
Qed.
