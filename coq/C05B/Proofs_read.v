(* C05B/Proofs_read.v — what an accepting run of C13B's M_read (cff.Read up to
   the charstrings) has established, in the form the conformance proof needs. *)
From Coq Require Import List NArith ZArith Bool Arith Lia.
From C05 Require Import Model.
From Common Require Import Bytes Outcome.
From Gen Require Import C13 C13B C05B.
From C13 Require Import Model Util ModelDict ModelTables ModelLayout Proofs_charset.
From C13B Require Import ModelNum ModelStr ModelCDict ModelFont Proofs_simple.
From C05B Require Import Model.
Import ListNotations.
Local Open Scope N_scope.

Lemma obind_ok_inv {A B} (x : outcome A) (f : A -> outcome B) b :
  (a <- x ;; f a) = Ok b -> exists a, x = Ok a /\ f a = Ok b.
Proof. apply obind_ok. Qed.

Lemma if_err_ok {A} (c : bool) (x : outcome A) a : (if c then Err else x) = Ok a -> c = false /\ x = Ok a.
Proof. destruct c; [discriminate|]. auto. Qed.

Lemma map_snd_combine {A B} (l1 : list A) : forall (l2 : list B),
  length l1 = length l2 -> map snd (combine l1 l2) = l2.
Proof.
  induction l1 as [|a l1 IH]; intros [|b l2] H; try discriminate; [reflexivity|].
  cbn [combine map snd]. f_equal. apply IH. cbn in H. lia.
Qed.

Lemma names_of_length strs : forall cs names, names_of strs cs = Ok names -> length names = length cs.
Proof.
  induction cs as [|sid r IH]; intros names; cbn [names_of].
  - intros H; inversion H. reflexivity.
  - destruct (ss_get strs sid); [|discriminate]. intros H.
    apply obind_ok in H. destruct H as (t & Ht & H). inversion H; subst. cbn [length]. f_equal. apply IH. exact Ht.
Qed.

Lemma lenN_nat {A} (l : list A) : N.to_nat (lenN l) = length l.
Proof. rewrite lenN_length. apply Nat2N.id. Qed.

Lemma map_outcome_length {A B} (f : A -> outcome B) : forall l r, map_outcome f l = Ok r -> length r = length l.
Proof.
  induction l as [|x l IH]; intros r; cbn [map_outcome].
  - intros H; inversion H. reflexivity.
  - intros H. apply obind_ok in H. destruct H as (y & _ & H). apply obind_ok in H. destruct H as (t & Ht & H).
    inversion H; subst. cbn [length]. f_equal. apply IH. exact Ht.
Qed.

Lemma map_outcome_nth {A B} (f : A -> outcome B) : forall l r i y,
  map_outcome f l = Ok r -> nth_error r i = Some y ->
  exists x, nth_error l i = Some x /\ f x = Ok y.
Proof.
  induction l as [|x l IH]; intros r i y; cbn [map_outcome].
  - intros H; inversion H; subst. destruct i; discriminate.
  - intros H. apply obind_ok in H. destruct H as (y0 & Hy0 & H). apply obind_ok in H. destruct H as (t & Ht & H).
    inversion H; subst. destruct i as [|i]; cbn [nth_error].
    + intros E; inversion E; subst. exists x. split; [reflexivity|exact Hy0].
    + intros E. apply (IH _ _ _ Ht E).
Qed.

(* the length of the charset a simple font ends up with *)
Lemma predef_length strs id n cs : M_predef_charset strs id n = Ok cs -> length cs = N.to_nat n.
Proof.
  unfold M_predef_charset, M_predefined_charset. intros H. apply obind_ok in H. destruct H as (x & Hx & H).
  inversion H; subst. rewrite lookups_length, map_length.
  destruct (N.ltb_spec (lenN (if id =? 0 then cff_isoAdobeCharset_sids else if id =? 1 then cff_expertCharset_sids else cff_expertSubsetCharset_sids)) n); [discriminate|].
  inversion Hx; subst. rewrite <- lenN_nat. rewrite lenN_takeN by assumption. reflexivity.
Qed.

Lemma charset_read_length n inp l r : M_charset_read (Z.of_N n) inp = Ok (l, r) -> length l = N.to_nat n.
Proof.
  intros H. pose proof (charset_read_total_gen (Z.of_N n) inp) as T. rewrite H in T. destruct T as [T _].
  rewrite <- lenN_nat. f_equal. lia.
Qed.

(* ---------- what M_read has done when it returns a font ---------- *)

Definition fd_reader (data : list N) (strs : list str) (blob : list N) : outcome (rprivate * list real) :=
  fd <- M_decodeDict strs blob ;;
  pi <- M_readPrivate data strs fd ;;
  Ok (pi, getFontMatrix fd b_opFontMatrix false).

Inductive read_facts (data : list N) (rf : rfont) : Prop :=
| mkFacts (rd_x1 rd_x2 rd_x3 rd_x4 : list (list N) * list N) (rd_top : rdict) (rd_cs : list (list N))
  (rd_e1 : M_index_read_fast (lenN data) (dropN data (nth 2 data 0)) = Ok rd_x1)
  (rd_e2 : M_index_read_fast (lenN data) (snd rd_x1) = Ok rd_x2)
  (rd_e3 : M_index_read_fast (lenN data) (snd rd_x2) = Ok rd_x3)
  (rd_etop : M_decodeDict (fst rd_x3) (hd [] (fst rd_x2)) = Ok rd_top)
  (rd_e4 : M_index_read_fast (lenN data) (snd rd_x3) = Ok rd_x4)
  (rd_ecs : read_index_at data (getInt rd_top b_opCharStrings 0) = Ok rd_cs)
  (rd_gsubrs : rf_gsubrs rf = fst rd_x4)
  (rd_codes : map snd (rf_glyphs rf) = rd_cs)
  (rd_branch :
    (dfind b_opROS rd_top = None /\ rf_ros rf = None /\
     exists p, M_readPrivate data (fst rd_x3) rd_top = Ok p /\ rf_private rf = [p] /\
               rf_fdselect rf = repeat 0 (N.to_nat (lenN rd_cs)))
    \/
    ((exists v, dfind b_opROS rd_top = Some v) /\ (exists r, rf_ros rf = Some r) /\
     exists fdIdx fds fsel,
       read_index_at data (getInt rd_top b_opFDArray 0) = Ok fdIdx /\
       map_outcome (fd_reader data (fst rd_x3)) fdIdx = Ok fds /\
       (4 <= getInt rd_top b_opFDSelect 0)%Z /\
       M_fdselect_read (lenN rd_cs) (lenN fds) (dropN data (Z.to_N (getInt rd_top b_opFDSelect 0))) = Ok fsel /\
       rf_private rf = map fst fds /\ rf_fdselect rf = fst fsel)).

Lemma read_inv std_code exp_code data rf :
  M_read std_code exp_code data = Ok rf -> read_facts data rf.
Proof.
  unfold M_read.
  destruct data as [|major [|minor [|hdrSize [|offSize rest]]]]; try discriminate.
  set (data := major :: minor :: hdrSize :: offSize :: rest) in *.
  intros H.
  apply if_err_ok in H. destruct H as [_ H].
  apply if_err_ok in H. destruct H as [_ H].
  apply obind_ok in H. destruct H as (x1 & E1 & H).
  apply if_err_ok in H. destruct H as [_ H].
  apply if_err_ok in H. destruct H as [_ H].
  apply obind_ok in H. destruct H as (x2 & E2 & H).
  apply if_err_ok in H. destruct H as [_ H].
  apply obind_ok in H. destruct H as (x3 & E3 & H).
  apply obind_ok in H. destruct H as (top & Etop & H).
  apply if_err_ok in H. destruct H as [_ H].
  apply obind_ok in H. destruct H as (x4 & E4 & H).
  apply obind_ok in H. destruct H as (cs & Ecs & H).
  apply if_err_ok in H. destruct H as [Hn0 H].
  apply obind_ok in H. destruct H as (cidPart & Ecid & H).
  destruct cidPart as [[[ros cidPrivs] fontMatrices] fdsel].
  apply obind_ok in H. destruct H as (charset & Echarset & H).
  apply obind_ok in H. destruct H as (privs & Eprivs & H).
  apply obind_ok in H. destruct H as (names & Enames & H).
  apply obind_ok in H. destruct H as (enc & Eenc & H).
  inversion H; subst rf; clear H. cbn [rf_gsubrs rf_glyphs rf_ros rf_private rf_fdselect].
  destruct (dfind b_opROS top) as [rosv|] eqn:Eros.
  - (* CID-keyed *)
    destruct (dget top b_opROS) as [|r0 [|r1 [|r2 [|r3 rr]]]]; try discriminate.
    destruct r0; try discriminate. destruct r1; try discriminate. destruct r2; try discriminate.
    apply obind_ok in Ecid. destruct Ecid as (fdIdx & Efd & Ecid).
    apply if_err_ok in Ecid. destruct Ecid as [_ Ecid].
    apply if_err_ok in Ecid. destruct Ecid as [_ Ecid].
    apply obind_ok in Ecid. destruct Ecid as (fds & Efds & Ecid).
    apply if_err_ok in Ecid. destruct Ecid as [Hsel Ecid].
    apply obind_ok in Ecid. destruct Ecid as (fsel & Efsel & Ecid).
    inversion Ecid; subst; clear Ecid. inversion Eprivs; subst; clear Eprivs.
    inversion Enames; subst; clear Enames.
    eapply (mkFacts _ _ x1 x2 x3 x4 top cs E1 E2 E3 Etop E4 Ecs); [reflexivity| |].
    + apply map_snd_combine. rewrite repeat_length. apply lenN_nat.
    + right. split; [eexists; exact Eros|]. split; [eexists; reflexivity|]. exists fdIdx, fds, fsel.
      repeat split; try assumption; try reflexivity. apply Z.ltb_ge in Hsel. exact Hsel.
  - (* simple *)
    inversion Ecid; subst; clear Ecid.
    apply obind_ok in Eprivs. destruct Eprivs as (p & Ep & Eprivs). inversion Eprivs; subst; clear Eprivs.
    eapply (mkFacts _ _ x1 x2 x3 x4 top cs E1 E2 E3 Etop E4 Ecs); [reflexivity| |].
    + apply map_snd_combine. rewrite (names_of_length _ _ _ Enames).
      destruct ((0 <=? getInt top b_opCharset 0)%Z && (getInt top b_opCharset 0 <=? 2)%Z).
      * rewrite (predef_length _ _ _ _ Echarset). apply lenN_nat.
      * apply obind_ok in Echarset. destruct Echarset as (inp & _ & Echarset).
        apply obind_ok in Echarset. destruct Echarset as ([l r] & El & Echarset).
        inversion Echarset; subst. rewrite map_length. cbn [fst]. rewrite (charset_read_length _ _ _ _ El). apply lenN_nat.
    + left. split; [exact Eros|]. split; [reflexivity|]. exists p. repeat split; try assumption; reflexivity.
Qed.
