(* C05B/Proofs_dict.v — facts about decoded DICTs: integer operands of a DICT
   made of bytes are int32 values; the number accessor getFloat returns the
   value of a "number" operand whatever its form. *)
From Coq Require Import List NArith ZArith Bool Arith Lia.
From C05 Require Import Model.
From Common Require Import Bytes Outcome.
From Gen Require Import C13 C13B C05B.
From C13 Require Import Model Util ModelDict ModelTables Proofs_misc.
From C13B Require Import ModelNum ModelStr ModelCDict ModelFont.
From C05B Require Import Model Spec.
Import ListNotations.
Local Open Scope Z_scope.

Definition int32 (z : Z) : Prop := -2147483648 <= z <= 2147483647.

Definition dv_ok (v : dictval) : Prop := match v with DInt z => int32 z | _ => True end.
Definition rv_ok (v : rval) : Prop := match v with RInt z => int32 z | _ => True end.

Lemma bytes_ok_cons b l : bytes_ok (b :: l) = true -> (b < 256)%N /\ bytes_ok l = true.
Proof.
  unfold bytes_ok. cbn [forallb]. intros H. apply andb_prop in H. destruct H as [A B].
  unfold byte_ok in A. apply N.ltb_lt in A. split; assumption.
Qed.

Lemma real_chars_bytes buf : forall acc cs rest,
  M_real_chars buf acc = Ok (cs, rest) -> bytes_ok buf = true -> bytes_ok rest = true.
Proof.
  induction buf as [|b r IH]; intros acc cs rest; cbn [M_real_chars]; [discriminate|].
  intros H Hb. apply bytes_ok_cons in Hb. destruct Hb as [_ Hb].
  destruct (nib_step (b / 16)); try discriminate.
  - destruct (nib_step (b mod 16)); try discriminate.
    + eapply IH; eassumption.
    + inversion H; subst. exact Hb.
  - inversion H; subst. exact Hb.
Qed.

Lemma to_i16_range x : (x < 65536)%N -> int32 (to_i16 x).
Proof. unfold to_i16, int32. intros Hx. destruct (N.ltb_spec x 32768); lia. Qed.

Lemma to_i32_range x : (x < 4294967296)%N -> int32 (to_i32 x).
Proof. unfold to_i32, int32. intros Hx. destruct (N.ltb_spec x 2147483648); lia. Qed.

Lemma dict_token_ok buf t rest :
  bytes_ok buf = true -> dict_token buf = Ok (t, rest) ->
  bytes_ok rest = true /\ match t with TVal v => dv_ok v | TOp _ => True end.
Proof.
  intros Hb. unfold dict_token. destruct buf as [|b0 r]; [discriminate|].
  apply bytes_ok_cons in Hb. destruct Hb as [B0 Hr].
  destruct (N.eqb_spec b0 12).
  { destruct r as [|b1 r']; [discriminate|]. intros HH; inversion HH; subst.
    apply bytes_ok_cons in Hr. split; [tauto|exact I]. }
  destruct (N.leb_spec b0 21). { intros HH; inversion HH; subst. split; [assumption|exact I]. }
  destruct (N.leb_spec b0 27); [discriminate|].
  destruct (N.eqb_spec b0 28).
  { destruct r as [|b1 [|b2 r']]; try discriminate. intros HH; inversion HH; subst.
    apply bytes_ok_cons in Hr. destruct Hr as [B1 Hr]. apply bytes_ok_cons in Hr. destruct Hr as [B2 Hr].
    split; [assumption|]. cbn [dv_ok]. apply to_i16_range. lia. }
  destruct (N.eqb_spec b0 29).
  { destruct r as [|b1 [|b2 [|b3 [|b4 r']]]]; try discriminate. intros HH; inversion HH; subst.
    apply bytes_ok_cons in Hr. destruct Hr as [B1 Hr]. apply bytes_ok_cons in Hr. destruct Hr as [B2 Hr].
    apply bytes_ok_cons in Hr. destruct Hr as [B3 Hr]. apply bytes_ok_cons in Hr. destruct Hr as [B4 Hr].
    split; [assumption|]. cbn [dv_ok]. apply to_i32_range. lia. }
  destruct (N.eqb_spec b0 30).
  { unfold M_real_decode. destruct (M_real_chars r []) as [[cs r']| | |] eqn:E; try discriminate.
    destruct (S_real_parse cs); try discriminate. destruct (S_real_overflow d); try discriminate.
    intros HH; inversion HH; subst. split; [|exact I]. eapply real_chars_bytes; eassumption. }
  destruct (N.eqb_spec b0 31); [discriminate|].
  destruct (N.leb_spec b0 246).
  { intros HH; inversion HH; subst. split; [assumption|]. cbn [dv_ok]. unfold int32, zb. lia. }
  destruct (N.leb_spec b0 250).
  { destruct r as [|b1 r']; [discriminate|]. intros HH; inversion HH; subst.
    apply bytes_ok_cons in Hr. destruct Hr as [B1 Hr]. split; [assumption|]. cbn [dv_ok]. unfold int32, zb. lia. }
  destruct (N.leb_spec b0 254); [|discriminate].
  destruct r as [|b1 r']; [discriminate|]. intros HH; inversion HH; subst.
  apply bytes_ok_cons in Hr. destruct Hr as [B1 Hr]. split; [assumption|]. cbn [dv_ok]. unfold int32, zb. lia.
Qed.

Definition dd_ok (d : list (N * list dictval)) : Prop := Forall (fun e => Forall dv_ok (snd e)) d.

Lemma dict_set_ok op v res : Forall dv_ok v -> dd_ok res -> dd_ok (dict_set op v res).
Proof.
  intros Hv. induction res as [|[o w] r IH]; intros Hr; cbn [dict_set].
  - constructor; [exact Hv|constructor].
  - inversion Hr; subst.
    destruct (op <? o)%N; [constructor; [exact Hv|exact Hr]|].
    destruct (op =? o)%N; [constructor; [exact Hv|assumption]|].
    constructor; [assumption|]. apply IH. assumption.
Qed.

Lemma map_first_ok nstr k : forall l l', Forall dv_ok l -> map_first k (to_sid nstr) l = Ok l' -> Forall dv_ok l'.
Proof.
  induction k as [|k IH]; intros l l' Hl; cbn [map_first].
  - destruct l; intros H; inversion H; subst; assumption.
  - destruct l as [|v r]; [intros H; inversion H; subst; constructor|].
    inversion Hl; subst. intros H. apply obind_ok in H. destruct H as (v' & Hv' & H).
    apply obind_ok in H. destruct H as (r' & Hr' & H). inversion H; subst.
    constructor; [|eapply IH; eassumption].
    unfold to_sid in Hv'. destruct v; try discriminate.
    + destruct (sid_ok nstr z); inversion Hv'; exact I.
    + destruct (decimal_int d); [|discriminate].
      destruct ((-2147483648 <=? z) && (z <=? 2147483647) && sid_ok nstr z); inversion Hv'; exact I.
Qed.

Lemma flush_ok nstr op stack res res' :
  Forall dv_ok stack -> dd_ok res -> flush nstr op stack res = Ok res' -> dd_ok res'.
Proof.
  intros Hs Hr. unfold flush. destruct (op_is_string op).
  - intros H. apply obind_ok in H. destruct H as (st & Hst & H). inversion H; subst.
    apply dict_set_ok; [|exact Hr]. eapply map_first_ok; eassumption.
  - intros H; inversion H; subst. apply dict_set_ok; assumption.
Qed.

Lemma dict_decode_ok fuel : forall nstr buf stack res d,
  bytes_ok buf = true -> Forall dv_ok stack -> dd_ok res ->
  M_dict_decode fuel nstr buf stack res = Ok d -> dd_ok d.
Proof.
  induction fuel as [|f IH]; intros nstr buf stack res d Hb Hs Hr; cbn [M_dict_decode]; [discriminate|].
  destruct buf as [|b r]. { destruct stack; intros H; inversion H; subst; exact Hr. }
  intros H. apply obind_ok in H. destruct H as ([t rest] & Ht & H). cbn [fst snd] in H.
  destruct (dict_token_ok _ _ _ Hb Ht) as [Hrest Htok].
  destruct t as [op|v].
  - apply obind_ok in H. destruct H as (res' & Hres' & H).
    eapply IH; [exact Hrest|constructor| |exact H]. eapply flush_ok; eassumption.
  - eapply IH; [exact Hrest| |exact Hr|exact H]. apply Forall_app. split; [exact Hs|constructor; [exact Htok|constructor]].
Qed.

Definition rd_ok (d : rdict) : Prop := Forall (fun e => Forall rv_ok (snd e)) d.

Lemma decodeDict_ok strs buf d : bytes_ok buf = true -> M_decodeDict strs buf = Ok d -> rd_ok d.
Proof.
  intros Hb. unfold M_decodeDict. intros H. apply obind_ok in H. destruct H as (dd & Hdd & H). inversion H; subst.
  assert (G : dd_ok dd).
  { unfold M_dict_decode_top in Hdd. eapply dict_decode_ok; [exact Hb|constructor|constructor|exact Hdd]. }
  unfold rd_ok. apply Forall_map. cbn [snd]. eapply Forall_impl; [|exact G].
  intros [op vs] Hv. cbn [snd] in *. apply Forall_map. eapply Forall_impl; [|exact Hv].
  intros v. destruct v; cbn; auto.
Qed.

Lemma dfind_ok (d : rdict) op vs : rd_ok d -> dfind op d = Some vs -> Forall rv_ok vs.
Proof.
  induction d as [|[o a] r IH]; cbn [dfind]; [discriminate|]. intros Hd. inversion Hd; subst.
  destruct (o =? op)%N; [intros H; inversion H; subst; assumption|apply IH; assumption].
Qed.

Lemma dget_ok (d : rdict) op : rd_ok d -> Forall rv_ok (dget d op).
Proof. intros Hd. unfold dget. destruct (dfind op d) eqn:E; [eapply dfind_ok; eassumption|constructor]. Qed.

Lemma getInt_int32 d op def : rd_ok d -> int32 def -> int32 (getInt d op def).
Proof.
  intros Hd Hdef. unfold getInt. pose proof (dget_ok d op Hd) as G.
  destruct (dget d op) as [|v [|v2 r]]; try exact Hdef; destruct v; try exact Hdef.
  inversion G as [|? ? G1 G2]; subst. exact G1.
Qed.

(* an integer accessor that returned something else than its default saw
   exactly one integer operand *)
Lemma getInt_entry d op def z : getInt d op def = z -> z <> def -> dget d op = [RInt z].
Proof.
  unfold getInt. destruct (dget d op) as [|v [|v2 r]]; try congruence; destruct v; congruence.
Qed.

Lemma getPair_entry d op a b : getPair d op = Some (a, b) -> dget d op = [RInt a; RInt b].
Proof.
  unfold getPair. destruct (dget d op) as [|v l]; [discriminate|].
  destruct v; try (destruct l as [|? [|? ?]]; discriminate).
  destruct l as [|v2 l]; [discriminate|].
  destruct v2; try (destruct l; discriminate).
  destruct l; [|discriminate]. intros H; inversion H; reflexivity.
Qed.

Lemma getPair_int32 d op a b : rd_ok d -> getPair d op = Some (a, b) -> int32 a /\ int32 b.
Proof.
  intros Hd H. pose proof (dget_ok d op Hd) as G. rewrite (getPair_entry _ _ _ _ H) in G.
  inversion G as [|? ? G1 G2]; subst. inversion G2 as [|? ? G3 G4]; subst. split; assumption.
Qed.

(* getFloat is the value of the "number": integer and real operands alike *)
Lemma getFloat_number d op def : getFloat d op def = S_dict_number d op def.
Proof.
  unfold getFloat, S_dict_number. destruct (dget d op) as [|v [|v2 r]]; try reflexivity; destruct v; reflexivity.
Qed.

Lemma bytes_ok_takeN l : forall n, bytes_ok l = true -> bytes_ok (takeN l n) = true.
Proof.
  induction l as [|x l IH]; intros n H; cbn [takeN]; [reflexivity|].
  destruct (n =? 0)%N; [reflexivity|]. apply bytes_ok_cons in H. destruct H as [A B].
  unfold bytes_ok. cbn [forallb]. apply andb_true_intro. split; [unfold byte_ok; apply N.ltb_lt; exact A|].
  apply IH. exact B.
Qed.

Lemma wrap_i32_id z : int32 z -> wrap_i32 z = z.
Proof. unfold wrap_i32, int32. intros H. rewrite Z.mod_small by lia. lia. Qed.

Lemma wrap_i32_big z : 2147483648 <= z < 4294967296 -> wrap_i32 z < 0.
Proof.
  unfold wrap_i32. intros H.
  replace (z + 2147483648) with ((z - 2147483648) + 1 * 4294967296) by lia.
  rewrite Z.mod_add by lia. rewrite Z.mod_small by lia. lia.
Qed.
