(* C05B/Witness.v — concrete fonts (assembled from the specification by the
   harness, corpus/C05B) and the witnesses of the _refuted statements: what the
   three variants of the code (integer accessor for the widths, Private DICT
   cache keyed by the offset, readIndex with strictly increasing offsets) do
   on them. *)
From Coq Require Import List NArith ZArith Bool Arith Lia.
From C05 Require Import Model.
From Common Require Import Bytes Outcome.
From Gen Require Import C13 C13B C05B.
From C13 Require Import Model ModelDict ModelTables.
From C13B Require Import ModelNum ModelStr ModelCDict ModelFont.
From C05B Require Import Model Spec.
Import ListNotations.
Local Open Scope N_scope.

(* name-keyed font; Private DICT "250.5 defaultWidthX 500. nominalWidthX" (both
   real operands) at offset 155, 10 bytes; nine glyphs: .notdef, then width
   operands none, 50, -30, 0, 50.5, -0.25, 2^-16, 1000 *)
Definition ex_simple : list N := [1; 0; 4; 2; 0; 1; 1; 1; 2; 65; 0; 1; 1; 1; 18; 29; 0; 0; 0; 36; 17; 29; 0; 0; 0; 10; 29; 0; 0; 0; 155; 18; 0; 0; 0; 0; 0; 9; 1; 1; 2; 9; 22; 37; 45; 62; 81; 93; 107; 14; 239; 247; 92; 21; 179; 7; 14; 189; 149; 159; 1; 19; 128; 239; 247; 92; 21; 179; 7; 14; 109; 239; 247; 92; 21; 149; 139; 149; 149; 139; 149; 8; 179; 7; 14; 139; 239; 247; 92; 21; 179; 7; 14; 255; 0; 50; 128; 0; 149; 159; 1; 19; 128; 239; 247; 92; 21; 179; 7; 14; 255; 255; 255; 192; 0; 239; 247; 92; 21; 149; 139; 149; 149; 139; 149; 8; 179; 7; 14; 255; 0; 0; 0; 1; 239; 247; 92; 21; 179; 7; 14; 250; 124; 149; 159; 1; 19; 128; 239; 247; 92; 21; 179; 7; 14; 30; 37; 10; 95; 20; 30; 80; 10; 255; 21].

(* CID-keyed font, two Font DICTs: FD 0 has Private [12 156] = "500
   defaultWidthX 600 nominalWidthX 12 Subrs" with two local subroutines, FD 1
   has the EMPTY Private DICT [0 156] at the same offset; glyphs 1, 2 belong to
   FD 0 (no width operand / 50), glyphs 3, 4 to FD 1 (none / 10) *)
Definition ex_cid : list N := [1; 0; 4; 2; 0; 1; 1; 1; 2; 65; 0; 1; 1; 1; 34; 248; 27; 248; 28; 139; 12; 30; 29; 0; 0; 0; 69; 15; 29; 0; 0; 0; 74; 12; 37; 29; 0; 0; 0; 128; 12; 36; 29; 0; 0; 0; 80; 17; 0; 2; 1; 1; 6; 14; 65; 100; 111; 98; 101; 73; 100; 101; 110; 116; 105; 116; 121; 0; 0; 2; 0; 1; 0; 3; 0; 0; 0; 0; 1; 1; 0; 5; 1; 1; 2; 13; 25; 32; 40; 14; 239; 247; 92; 21; 32; 10; 33; 10; 179; 7; 14; 189; 239; 247; 92; 21; 32; 10; 33; 10; 179; 7; 14; 239; 247; 92; 21; 179; 7; 14; 149; 239; 247; 92; 21; 179; 7; 14; 0; 2; 1; 1; 12; 23; 29; 0; 0; 0; 12; 29; 0; 0; 0; 156; 18; 29; 0; 0; 0; 0; 29; 0; 0; 0; 156; 18; 248; 136; 20; 248; 236; 21; 29; 0; 0; 0; 12; 19; 0; 2; 1; 1; 4; 8; 149; 6; 11; 145; 132; 5; 11].

(* name-keyed font whose local Subrs INDEX (at offset 66) has four objects,
   the first one EMPTY; the glyph calls subroutines 1, 2, 3 *)
Definition ex_subr : list N := [1; 0; 4; 2; 0; 1; 1; 1; 2; 65; 0; 1; 1; 1; 18; 29; 0; 0; 0; 36; 17; 29; 0; 0; 0; 9; 29; 0; 0; 0; 57; 18; 0; 0; 0; 0; 0; 2; 1; 1; 2; 16; 14; 239; 239; 247; 92; 21; 33; 10; 34; 10; 35; 10; 179; 7; 14; 248; 136; 21; 29; 0; 0; 0; 9; 19; 0; 4; 1; 1; 1; 5; 8; 12; 145; 132; 5; 11; 161; 7; 11; 142; 142; 5; 11].

Definition no_code (_ : str) : option N := None.

Definition widths_of (r : gres (list cglyph)) : option (list real) :=
  match r with GOk gl => Some (map cg_width gl) | _ => None end.

Definition r (neg : bool) (m e : Z) : real := mkReal neg m e.

(* ---------- integer accessor for the widths (C05-h class) ---------- *)

Definition fd_simple : rdict := [(18, [RInt 10; RInt 155])].

Lemma int_accessor_witness :
  (exists p, M_read_private ex_simple [] fd_simple = Ok p /\ pi_defw p = r false 2505 (-1) /\ pi_nomw p = r false 5 2) /\
  (exists p, M_read_private_intw ex_simple [] fd_simple = Ok p /\ pi_defw p = R0 /\ pi_nomw p = R0).
Proof. split; eexists; vm_compute; repeat split; reflexivity. Qed.

(* ---------- Private DICT cache keyed by the offset (C05-i class) ---------- *)

Definition fds_cid : list rdict := [[(18, [RInt 12; RInt 156])]; [(18, [RInt 0; RInt 156])]].

Lemma cache_witness :
  (exists ps, M_fd_loop ex_cid [] fds_cid = Ok ps /\ map pi_defw ps = [r false 5 2; R0] /\
              map (fun p => length (pi_subrs p)) ps = [2%nat; 0%nat]) /\
  (exists ps, M_fd_loop_cached ex_cid [] [] fds_cid = Ok ps /\ map pi_defw ps = [r false 5 2; r false 5 2] /\
              map (fun p => length (pi_subrs p)) ps = [2%nat; 2%nat]).
Proof. split; eexists; vm_compute; repeat split; reflexivity. Qed.

(* ---------- readIndex with strictly increasing offsets (C05-j class) ---------- *)

Definition idx_empty_first : list N := [0; 4; 1; 1; 1; 5; 8; 12; 145; 132; 5; 11; 161; 7; 11; 142; 142; 5; 11; 238].

Lemma strict_index_witness :
  M_index_read_fast 100 idx_empty_first = Ok ([[]; [145; 132; 5; 11]; [161; 7; 11]; [142; 142; 5; 11]], [238]) /\
  S_index idx_empty_first = Some ([[]; [145; 132; 5; 11]; [161; 7; 11]; [142; 142; 5; 11]], 19) /\
  M_index_read_strict 100 idx_empty_first = Err.
Proof. repeat split; vm_compute; reflexivity. Qed.
