(* C05B/Examples.v — non-vacuity: concrete fonts (corpus/C05B) satisfy the
   hypotheses of every theorem of Props.v, and the models evaluated inside Coq
   give the values the extracted driver prints for them. *)
From Coq Require Import List NArith ZArith Bool Arith Lia.
From C05 Require Import Model.
From Common Require Import Bytes Outcome.
From Gen Require Import C13 C13B C05B.
From C13 Require Import Model ModelDict ModelTables Proofs_real.
From C13B Require Import ModelNum ModelStr ModelCDict ModelFont.
From C05B Require Import Model Spec Proofs_num Witness.
Import ListNotations.
Local Open Scope N_scope.

(* ---------- glyphs_conform / read_glyphs_total: accepted fonts ---------- *)

Example ex_simple_bytes : bytes_ok ex_simple = true. Proof. vm_compute. reflexivity. Qed.

(* real-valued width entries: 250.5 without a width operand; 500 + operand
   for 50, -30, 0, 50.5, -0.25, 2^-16, 1000 *)
Example ex_simple_widths :
  widths_of (M_cff_read no_code no_code ex_simple) =
  Some [r false 2505 (-1); r false 2505 (-1); r false 55 1; r false 47 1; r false 5 2; r false 5505 (-1);
        r false 49975 (-2); r false 5000000152587890625 (-16); r false 15 2].
Proof. vm_compute. reflexivity. Qed.

Example ex_simple_spec :
  match M_cff_read no_code no_code ex_simple with
  | GOk gl => S_cff_glyphs ex_simple = Some (map GOk gl) /\ length gl = 9%nat
  | _ => False
  end.
Proof. vm_compute. split; reflexivity. Qed.

(* a CID-keyed font: each glyph with the widths and local subroutines of ITS
   Font DICT - FD 1's empty Private DICT at FD 0's offset gives 0 and 0 + 10 *)
Example ex_cid_widths :
  bytes_ok ex_cid = true /\
  widths_of (M_cff_read no_code no_code ex_cid) =
  Some [r false 5 2; r false 5 2; r false 65 1; R0; r false 1 1].
Proof. split; vm_compute; reflexivity. Qed.

Example ex_cid_outlines :
  match M_cff_read no_code no_code ex_cid with
  | GOk gl => map (fun g => length (cg_cmds g)) gl = [0; 4; 4; 2; 2]%nat /\ S_cff_glyphs ex_cid = Some (map GOk gl)
  | _ => False
  end.
Proof. vm_compute. split; reflexivity. Qed.

(* a subroutine INDEX with an empty first object: accepted, the calls of
   subroutines 1, 2, 3 draw three more lines *)
Example ex_subr_accepted :
  bytes_ok ex_subr = true /\
  match M_cff_read no_code no_code ex_subr with
  | GOk gl => map (fun g => length (cg_cmds g)) gl = [0; 5]%nat /\ map cg_width gl = [R0; r false 6 2] /\
              S_cff_glyphs ex_subr = Some (map GOk gl)
  | _ => False
  end.
Proof. split; vm_compute; repeat split; reflexivity. Qed.

(* rejected inputs; never a panic *)
Example ex_rejected :
  M_cff_read no_code no_code [] = GErr /\ M_cff_read no_code no_code [1; 0; 4; 1; 0; 1; 1; 1] = GErr /\
  M_cff_read no_code no_code (firstn 150 ex_simple) = GErr.
Proof. repeat split; vm_compute; reflexivity. Qed.

(* a call outside the table is an error of the whole font *)
Example ex_bad_subr :
  T2_decode R0 R0 [[11]] [] [28; 0; 200; 10; 14] = GErr /\
  T2_decode R0 R0 [[11]] [] [32; 10; 14] = GOk (mkCglyph R0 [] [] []).
Proof. split; vm_compute; reflexivity. Qed.

(* ---------- private_per_fd ---------- *)

Example ex_fd_loop :
  match M_fd_loop ex_cid [] fds_cid with
  | Ok ps => map pi_defw ps = [r false 5 2; R0] /\ map pi_nomw ps = [r false 6 2; R0]
  | _ => False
  end.
Proof. vm_compute. split; reflexivity. Qed.

(* ---------- width_operand_forms: the hypotheses hold ---------- *)

(* a file whose Private DICT is "500." defaultWidthX, as a real operand *)
Definition ex_w_data : list N := [0; 0; 0; 0; 30; 80; 10; 255; 20].
Definition ex_w_fd : rdict := [(18, [RInt 5; RInt 4])].

Example ex_width_forms_hyps :
  (exists p, M_read_private ex_w_data [] ex_w_fd = Ok p /\ pi_defw p = r false 5 2) /\
  getPair ex_w_fd b_opPrivate = Some (5, 4)%Z /\
  takeN (dropN ex_w_data 4) 5 = [30; 80; 10; 255] ++ [20] /\
  (exists d, dict_token ([30; 80; 10; 255] ++ [20]) = Ok (TVal (DReal d), [20]) /\ S_value (DReal d) = r false 5 2) /\
  S_value (DInt 500) = r false 5 2.
Proof.
  split; [eexists; vm_compute; split; reflexivity|]. split; [reflexivity|]. split; [reflexivity|].
  split; [eexists; vm_compute; split; reflexivity|]. vm_compute. reflexivity.
Qed.

(* the integer forms of 500 and of -5; reals denoting 500 in four ways *)
Example ex_number_forms :
  int_form3 500 = [28; 1; 244] /\ int_form5 500 = [29; 0; 0; 1; 244] /\ int_form5 (-5) = [29; 255; 255; 255; 251] /\
  M_dict_int_encode 500 = [248; 136] /\
  real_of_decimal {| d_neg := false; d_mant := 500; d_nfrac := 0; d_exp := 0 |} = r false 5 2 /\
  real_of_decimal {| d_neg := false; d_mant := 5; d_nfrac := 0; d_exp := 2 |} = r false 5 2 /\
  real_of_decimal {| d_neg := false; d_mant := 5000; d_nfrac := 1; d_exp := 0 |} = r false 5 2 /\
  real_of_decimal {| d_neg := false; d_mant := 50000; d_nfrac := 0; d_exp := -2 |} = r false 5 2 /\
  dec_equiv 50000 (-2) 5 2 /\ real_of_Z 500 = r false 5 2.
Proof. repeat split; vm_compute; reflexivity. Qed.

(* ---------- empty_index_entries_accepted ---------- *)

Example ex_index_with_empty :
  match M_index_encode [[1]; []; [2; 3]; []; []] with
  | Ok bs => M_index_read_fast 100 (bs ++ [9]) = Ok ([[1]; []; [2; 3]; []; []], [9]) /\
             S_index (bs ++ [9]) = Some ([[1]; []; [2; 3]; []; []], 12)
  | _ => False
  end /\
  (* numbering: with five objects the bias is 107; operand -105 selects object 2 *)
  lookup (tab_of_index [[1]; []; [2; 3]; []; []]) (-105) = Some [2; 3] /\
  lookup (tab_of_index [[1]; []; [2; 3]; []; []]) (-106) = Some [] /\
  lookup (tab_of_index [[1]; []; [2; 3]; []; []]) (-102) = None.
Proof. repeat split; vm_compute; reflexivity. Qed.

(* ---------- width_rule ---------- *)

Example ex_width_rule :
  radd (r false 5 2) (real_of_fix 3309568) = r false 5505 (-1) /\      (* 500 + 50.5 *)
  radd (r false 2505 (-1)) (real_of_fix (-16384)) = r false 25025 (-2) /\  (* 250.5 - 0.25 *)
  real_of_fix 1 = r false 152587890625 (-16).
Proof. repeat split; vm_compute; reflexivity. Qed.
