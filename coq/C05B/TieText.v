(* C05B/TieText.v — the statements of cff/read.go and cff/dict.go the models
   were written from, as text regenerated on this run: every Font DICT gets
   its Private DICT from readPrivate directly (no cache in between), a glyph is
   decoded with decoders[fdSelect(gid)], the Global Subr INDEX is read once,
   Subrs is relative to the Private DICT offset. *)
From Coq Require Import List String.
From Gen Require Import C05B.
Import ListNotations.
Local Open Scope string_scope.

Lemma pInfo_source :
  c05b_pInfo_defs = ["fontDict.readPrivate(p, strings)"; "topDict.readPrivate(p, strings)"].
Proof. reflexivity. Qed.

Lemma glyph_loop_source :
  c05b_fdIdx_defs = ["fdSelect(glyph.ID(gid))"] /\
  c05b_info_defs = ["decoders[fdIdx]"] /\
  c05b_glyph_defs = ["info.decodeCharString(code)"] /\
  c05b_gsubrs_defs = ["readIndex(p)"].
Proof. repeat split; reflexivity. Qed.

Lemma readPrivate_source :
  c05b_subrs_pos = "pdOffs + subrsIndexOffs" /\
  c05b_subrsOffs_defs = ["privateDict.getInt(opSubrs, 0)"] /\
  c05b_blob_defs = ["make([]byte, pdSize)"] /\
  c05b_pdSize_defs = ["d.getPair(opPrivate)"].
Proof. repeat split; reflexivity. Qed.
