(* C05B/Proofs_index.v — readIndex (C13's mirror M_index_read_fast) returns the
   objects the specification's INDEX defines (S_index), on every input it
   accepts; objects may be empty anywhere. *)
From Coq Require Import List NArith ZArith Bool Arith Lia.
From C05 Require Import Model.
From Common Require Import Bytes Outcome.
From C13 Require Import Model Util Proofs_index.
From C05B Require Import Model Spec.
Import ListNotations.
Local Open Scope N_scope.

(* ---------- takeN / dropN ---------- *)

Lemma takeN_takeN {A} (l : list A) : forall n m, m <= n -> takeN (takeN l n) m = takeN l m.
Proof.
  induction l as [|x l IH]; intros n m H; cbn [takeN]; [reflexivity|].
  destruct (N.eqb_spec n 0) as [->|Hn].
  - assert (m = 0) by lia. subst. reflexivity.
  - cbn [takeN]. destruct (N.eqb_spec m 0); [reflexivity|]. f_equal. apply IH. lia.
Qed.

Lemma dropN_takeN {A} (l : list A) : forall n a, a <= n -> dropN (takeN l n) a = takeN (dropN l a) (n - a).
Proof.
  induction l as [|x l IH]; intros n a H; cbn [takeN dropN].
  - destruct (n =? 0); destruct (a =? 0); reflexivity.
  - destruct (N.eqb_spec n 0) as [->|Hn].
    + assert (a = 0) by lia. subst. cbn [dropN]. reflexivity.
    + cbn [dropN]. destruct (N.eqb_spec a 0) as [->|Ha].
      * rewrite N.sub_0_r. cbn [takeN]. destruct (N.eqb_spec n 0); [contradiction|reflexivity].
      * rewrite IH by lia. f_equal. lia.
Qed.

Lemma take_drop_take {A} (l : list A) n a m : a + m <= n ->
  takeN (dropN (takeN l n) a) m = takeN (dropN l a) m.
Proof. intros H. rewrite dropN_takeN by lia. apply takeN_takeN. lia. Qed.

Lemma lenN_takeN_le {A} (l : list A) : forall n, lenN (takeN l n) <= n.
Proof.
  induction l as [|x l IH]; intros n; cbn [takeN lenN]; [lia|].
  destruct (N.eqb_spec n 0); cbn [lenN]; [lia|]. specialize (IH (N.pred n)). lia.
Qed.

(* ---------- the offset array ---------- *)

Lemma map_seqN0_shift {A} (f : N -> A) k : forall i,
  map f (seqN0 k (i + 1)) = map (fun j => f (j + 1)) (seqN0 k i).
Proof. induction k as [|k IH]; intros i; cbn [seqN0 map]; [reflexivity|]. rewrite IH. reflexivity. Qed.

Lemma map_seqN0_ext {A} (f g : N -> A) k : forall i,
  (forall j, f j = g j) -> map f (seqN0 k i) = map g (seqN0 k i).
Proof. intros i H. induction (seqN0 k i) as [|x l IH]; cbn [map]; [reflexivity|]. rewrite H, IH. reflexivity. Qed.

(* what the loop of readIndex stores: offset - 1 for each of the k offset
   fields, read one after the other; every field is at least 1 *)
Lemma read_offsets_spec k : forall size os prev inp offs r,
  1 <= prev ->
  read_offsets size os k prev inp = Some (offs, r) ->
  N.of_nat k * os <= lenN inp /\
  r = dropN inp (N.of_nat k * os) /\
  map (fun x => x + 1) offs = map (fun i => be_val (takeN (dropN inp (i * os)) os)) (seqN0 k 0).
Proof.
  induction k as [|k IH]; intros size os prev inp offs r Hp; cbn [read_offsets].
  - intros H; inversion H; subst. cbn [N.of_nat seqN0 map]. rewrite N.mul_0_l, dropN_zero.
    repeat split; try reflexivity; lia.
  - destruct (splitN inp os) as [[blob r1]|] eqn:S; [|discriminate].
    destruct (N.ltb_spec (be_val blob) prev) as [|Hge]; [discriminate|].
    destruct (size <=? be_val blob); [discriminate|]. cbn [orb].
    destruct (read_offsets size os k (be_val blob) r1) as [[l r2]|] eqn:R; [|discriminate].
    intros Hx; inversion Hx; subst; clear Hx.
    pose proof (splitN_inv _ _ _ _ S) as [E L].
    assert (Hos : os <= lenN inp) by (rewrite E, lenN_app; lia).
    assert (Hb : blob = takeN inp os) by (rewrite E, <- L; symmetry; apply takeN_app).
    assert (Hr1 : r1 = dropN inp os) by (rewrite E, <- L; symmetry; apply dropN_app).
    assert (Hge1 : 1 <= be_val blob) by lia.
    destruct (IH _ _ _ _ _ _ Hge1 R) as (A & B & C).
    assert (Hl1 : lenN r1 = lenN inp - os) by (rewrite Hr1; apply lenN_dropN; exact Hos).
    split; [rewrite Nat2N.inj_succ; lia|]. split.
    + rewrite B, Hr1, dropN_dropN. f_equal. rewrite Nat2N.inj_succ. lia.
    + cbn [seqN0 map]. f_equal.
      * rewrite N.mul_0_l, dropN_zero, <- Hb. lia.
      * rewrite C. replace 1 with (0 + 1) at 2 by reflexivity.
        rewrite (map_seqN0_shift (fun i => be_val (takeN (dropN inp (i * os)) os)) k 0).
        apply map_seqN0_ext. intros j. rewrite Hr1, dropN_dropN. do 3 f_equal. lia.
Qed.

(* ---------- cutting the data ---------- *)

(* the objects readIndex cuts out of the data buffer, for neighbours (a, b)
   of the stored offsets *)
Lemma split_seq_adj tl : forall (buf : list N) cur,
  mono cur tl -> lastN cur tl <= lenN buf ->
  split_seq (dropN buf cur) cur tl = adj (fun a b => takeN (dropN buf a) (b - a)) (cur :: tl).
Proof.
  induction tl as [|b tl IH]; intros buf cur Hm Hl; [reflexivity|].
  cbn [mono] in Hm. destruct Hm as [H1 H2]. cbn [lastN] in Hl.
  pose proof (mono_lastN _ _ H2) as Hb.
  cbn [split_seq]. rewrite splitN_some by (rewrite lenN_dropN by lia; lia).
  rewrite dropN_dropN. replace (cur + (b - cur)) with b by lia.
  rewrite (IH buf b H2 Hl). reflexivity.
Qed.

Lemma adj_ext {A} (f g : N -> N -> A) l :
  (forall a b, f a b = g a b) -> adj f l = adj g l.
Proof.
  intros H. induction l as [|a t IH]; [reflexivity|]. cbn [adj]. destruct t as [|b t']; [reflexivity|].
  rewrite H. f_equal. exact IH.
Qed.

Lemma adj_map {A} (f : N -> N -> A) (g : N -> N) (l : list N) :
  adj f (map g l) = adj (fun a b => f (g a) (g b)) l.
Proof.
  induction l as [|a t IH]; [reflexivity|]. cbn [map adj]. destruct t as [|b t']; [reflexivity|].
  cbn [map]. f_equal. exact IH.
Qed.

Lemma adj_in_ext {A} (f g : N -> N -> A) l :
  (forall a b, In a l -> In b l -> f a b = g a b) -> adj f l = adj g l.
Proof.
  induction l as [|a t IH]; intros H; [reflexivity|]. cbn [adj]. destruct t as [|b t']; [reflexivity|].
  rewrite H by (cbn; tauto). f_equal. apply IH. intros x y Hx Hy. apply H; right; assumption.
Qed.

(* facts about mono lists *)
Lemma mono_all_ge p l : mono p l -> forall x, In x l -> p <= x.
Proof.
  revert p; induction l as [|y l IH]; intros p Hm x Hx; [contradiction|].
  cbn [mono] in Hm. destruct Hm as [H1 H2]. destruct Hx as [->|Hx]; [exact H1|].
  specialize (IH _ H2 _ Hx). lia.
Qed.

Lemma mono_all_le_last p l : mono p l -> forall x, In x (p :: l) -> x <= lastN p l.
Proof.
  revert p; induction l as [|y l IH]; intros p Hm x Hx.
  - destruct Hx as [->|[]]. cbn. lia.
  - cbn [mono] in Hm. destruct Hm as [H1 H2]. cbn [lastN].
    destruct Hx as [->|Hx].
    + pose proof (mono_lastN _ _ H2). lia.
    + apply IH; assumption.
Qed.

Lemma mono_adj_le p l : mono p l -> forallb (fun x => x) (adj (fun a b => a <=? b) (p :: l)) = true.
Proof.
  revert p; induction l as [|y l IH]; intros p Hm; [reflexivity|].
  cbn [mono] in Hm. destruct Hm as [H1 H2]. cbn [adj forallb].
  apply andb_true_intro. split; [apply N.leb_le; exact H1|]. apply IH. exact H2.
Qed.

Lemma mono_map_succ p l : mono p l -> mono (p + 1) (map (fun x => x + 1) l).
Proof.
  revert p; induction l as [|y l IH]; intros p Hm; [exact I|].
  cbn [mono map] in *. destruct Hm as [H1 H2]. split; [lia|]. apply IH. exact H2.
Qed.

Lemma lastN_map_succ p l : lastN (p + 1) (map (fun x => x + 1) l) = lastN p l + 1.
Proof. revert p; induction l as [|y l IH]; intros p; cbn [lastN map]; [reflexivity|apply IH]. Qed.

(* ---------- the theorem ---------- *)

(* On every input readIndex accepts, it returns the objects of the
   specification's INDEX and stops at its end. *)
Lemma index_conforms size inp bl rest :
  M_index_read_fast size inp = Ok (bl, rest) ->
  exists n, S_index inp = Some (bl, n) /\ rest = dropN inp n /\ n <= lenN inp.
Proof.
  unfold M_index_read_fast, S_index, S_index_count, rd_u16.
  destruct inp as [|c0 [|c1 r1]]; try discriminate.
  set (count := c0 * 256 + c1).
  destruct (N.eqb_spec count 0) as [Hc0|Hc0].
  - intros H; inversion H; subst. exists 2. split; [reflexivity|]. split; [symmetry; apply (dropN_app [c0; c1] rest)|]. cbn [lenN]. lia.
  - unfold rd_u8. destruct r1 as [|os r2]; [discriminate|].
    destruct (read_offsets size os (S (N.to_nat count)) 1 r2) as [[offs r3]|] eqn:R; [|discriminate].
    destruct (splitN r3 (lastN 0 offs)) as [[buf r4]|] eqn:Hsp; [|discriminate].
    destruct (read_offsets_mono _ _ _ _ _ _ _ (N.le_refl 1) R) as (Hm & Hlen & _).
    destruct (read_offsets_spec _ _ _ _ _ _ _ (N.le_refl 1) R) as (Hfit & Hr3 & Hoffs).
    destruct offs as [|o0 tl]; [discriminate|].
    intros H; inversion H; subst bl rest; clear H.
    cbn [mono] in Hm. destruct Hm as [_ Hm]. cbn [lastN] in Hsp.
    pose proof (splitN_inv _ _ _ _ Hsp) as [E L].
    set (inp := c0 :: c1 :: os :: r2) in *.
    assert (Hos : S_index_offsize inp = os) by reflexivity.
    set (k := S (N.to_nat count)) in *.
    assert (Hk : N.of_nat k = count + 1) by (unfold k; rewrite Nat2N.inj_succ, N2Nat.id; lia).
    assert (Hdrop : forall j, dropN inp (3 + j) = dropN r2 j).
    { intros j. change inp with ([c0; c1; os] ++ r2).
      replace (3 + j) with (lenN [c0; c1; os] + j) by reflexivity.
      rewrite <- dropN_dropN, dropN_app. reflexivity. }
    (* the specification's offset array is the stored one plus 1 *)
    assert (Hso : S_index_offsets inp count = map (fun x => x + 1) (o0 :: tl)).
    { unfold S_index_offsets. fold k. rewrite Hoffs.
      apply map_seqN0_ext. intros j. unfold S_index_offset, S_be. rewrite Hos, Hdrop. reflexivity. }
    assert (Hlr2 : lenN inp = 3 + lenN r2) by (unfold inp; cbn [lenN]; lia).
    assert (Hlr3 : lenN r3 = lenN r2 - N.of_nat k * os) by (rewrite Hr3; apply lenN_dropN; exact Hfit).
    assert (Hlb : lastN o0 tl <= lenN r3) by (rewrite E, lenN_app; lia).
    assert (Hbase : S_index_base inp count = 3 + N.of_nat k * os - 1) by (unfold S_index_base; rewrite Hos, Hk; reflexivity).
    assert (Hlast : lastN 0 (S_index_offsets inp count) = lastN o0 tl + 1).
    { rewrite Hso. cbn [map lastN]. apply lastN_map_succ. }
    assert (Hwf : S_index_wf inp count = true).
    { unfold S_index_wf. rewrite Hos, Hlast, Hbase, <- Hk.
      repeat (apply andb_true_intro; split).
      - apply N.leb_le. lia.
      - rewrite Hso. cbn [map hd]. apply N.leb_le. lia.
      - rewrite Hso. cbn [map]. apply mono_adj_le. apply mono_map_succ. exact Hm.
      - apply N.leb_le. lia. }
    rewrite Hwf. exists (S_index_base inp count + lastN 0 (S_index_offsets inp count)).
    rewrite Hlast, Hbase.
    assert (Hbuf : buf = takeN r3 (lastN o0 tl)) by (rewrite E, <- L; symmetry; apply takeN_app).
    split; [|split].
    + f_equal. f_equal.
      rewrite Hso, adj_map.
      rewrite (split_seq_adj tl buf o0 Hm ltac:(lia)).
      apply adj_in_ext. intros a b Ha Hb.
      unfold S_index_object.
      replace (b + 1 - (a + 1)) with (b - a) by lia.
      replace (3 + N.of_nat k * os - 1 + (a + 1)) with (3 + (N.of_nat k * os + a)) by lia.
      rewrite Hdrop, <- dropN_dropN, <- Hr3, Hbuf.
      symmetry. apply take_drop_take.
      pose proof (mono_all_le_last _ _ Hm a Ha). pose proof (mono_all_le_last _ _ Hm b Hb). lia.
    + replace (3 + N.of_nat k * os - 1 + (lastN o0 tl + 1)) with (3 + (N.of_nat k * os + lastN o0 tl)) by lia.
      rewrite Hdrop, <- dropN_dropN, <- Hr3, E, <- L. symmetry. apply dropN_app.
    + lia.
Qed.

(* An INDEX whose objects are bl - empty objects anywhere - written with any
   legal offSize is read as bl: C13's index_roundtrip covers the library's own
   encoding; this is the statement for the reader alone, through S_index. *)
Lemma index_objects_unique size inp bl rest n bl' :
  M_index_read_fast size inp = Ok (bl, rest) -> S_index inp = Some (bl', n) -> bl = bl'.
Proof.
  intros H1 H2. destruct (index_conforms _ _ _ _ H1) as (m & E & _). rewrite E in H2. inversion H2. reflexivity.
Qed.
