(* C05B/Tie.v — the tie of the models to the Go source as it is NOW: the
   tables regenerated from cff/dict.go (readPrivate) and cff/read.go (Read)
   on this run (Gen/C05B.v) make the table-driven mirror M_read_private
   coincide with C13B's model of readPrivate on the three fields the
   interpreter gets, and make the decodeInfo literals wire these fields and the
   Global Subr INDEX to the interpreter unchanged.  A changed accessor
   (getInt instead of getFloat for a width), a changed default, operator,
   field wiring or a cache in front of readPrivate changes Gen/C05B.v and
   breaks one of these proofs. *)
From Coq Require Import List NArith ZArith Bool Arith Lia.
From C05 Require Import Model.
From Common Require Import Bytes Outcome.
From Gen Require Import C13 C13B C05B.
From C13 Require Import Model ModelDict ModelTables ModelLayout.
From C13B Require Import ModelNum ModelStr ModelCDict ModelFont.
From C05B Require Import Model.
Import ListNotations.
Local Open Scope N_scope.

(* ---------- the accessor table ---------- *)

(* readPrivate reads: Private with getPair on its own dictionary; on the
   Private DICT BlueValues / OtherBlues with getDeltaF16, BlueScale (default
   0.039625), StdHW, StdVW, defaultWidthX, nominalWidthX (default 0) with
   getFloat, BlueShift (7), BlueFuzz (1), ForceBold (0), Subrs (0) with getInt *)
Lemma access_table_source :
  c05b_access =
  [ (0, 2, 18, (false, 0, 0)%Z);
    (1, 3, 6, (false, 0, 0)%Z); (1, 3, 7, (false, 0, 0)%Z);
    (1, 1, 3081, (false, 39625, -6)%Z);
    (1, 0, 3082, (false, 7, 0)%Z); (1, 0, 3083, (false, 1, 0)%Z);
    (1, 1, 10, (false, 0, 0)%Z); (1, 1, 11, (false, 0, 0)%Z);
    (1, 0, 3086, (false, 0, 0)%Z);
    (1, 0, 19, (false, 0, 0)%Z);
    (1, 1, 20, (false, 0, 0)%Z); (1, 1, 21, (false, 0, 0)%Z) ].
Proof. reflexivity. Qed.

(* the operators are the ones of C13B's tables and of TN5176 *)
Lemma operators_source :
  c05b_opPrivate = b_opPrivate /\ c05b_opSubrs = b_opSubrs /\
  c05b_opDefaultWidthX = b_opDefaultWidthX /\ c05b_opNominalWidthX = b_opNominalWidthX /\
  c05b_opPrivate = 18 /\ c05b_opSubrs = 19 /\ c05b_opDefaultWidthX = 20 /\ c05b_opNominalWidthX = 21.
Proof. repeat split; reflexivity. Qed.

Lemma guards_source :
  c05b_minPrivOffs = 4%Z /\ c05b_minPrivSize = 0%Z /\ c05b_minSubrsOffs = 0%Z /\ c05b_minIndexPos = 4%Z.
Proof. repeat split; reflexivity. Qed.

(* both widths are read as NUMBERS (getFloat: an integer or a real operand),
   default 0; Subrs as an integer, default 0; Private as a pair of integers *)
Lemma read_defw (pd : rdict) :
  read_op c05b_access 1 pd c05b_opDefaultWidthX = FNum (getFloat pd b_opDefaultWidthX R0).
Proof. reflexivity. Qed.

Lemma read_nomw (pd : rdict) :
  read_op c05b_access 1 pd c05b_opNominalWidthX = FNum (getFloat pd b_opNominalWidthX R0).
Proof. reflexivity. Qed.

Lemma read_subrs (pd : rdict) :
  read_op c05b_access 1 pd c05b_opSubrs = FInt (getInt pd b_opSubrs 0).
Proof. reflexivity. Qed.

Lemma read_private_pair (d : rdict) :
  read_op c05b_access 0 d c05b_opPrivate = FPair (getPair d b_opPrivate).
Proof. reflexivity. Qed.

(* ---------- the privateInfo literal ---------- *)

(* &privateInfo{private: private, defaultWidth: privateDict.getFloat(opDefaultWidthX, 0),
   nominalWidth: privateDict.getFloat(opNominalWidthX, 0), subrs: subrs} *)
Lemma pinfo_fields (pd : rdict) (subrs : list (list N)) :
  pinfo_idx the_pinfo_lit 1 subrs = subrs /\
  pinfo_num the_pinfo_lit 2 pd = getFloat pd b_opDefaultWidthX R0 /\
  pinfo_num the_pinfo_lit 3 pd = getFloat pd b_opNominalWidthX R0.
Proof. repeat split; reflexivity. Qed.

(* the literal and the accessor table say the same about the two widths *)
Lemma pinfo_lit_agrees_with_table (pd : rdict) :
  pinfo_num the_pinfo_lit 2 pd = fval_num (read_op c05b_access 1 pd c05b_opDefaultWidthX) /\
  pinfo_num the_pinfo_lit 3 pd = fval_num (read_op c05b_access 1 pd c05b_opNominalWidthX).
Proof. split; reflexivity. Qed.

(* ---------- readPrivate ---------- *)

Lemma read_index_at_same data pos : M_read_index_at data pos = read_index_at data pos.
Proof. reflexivity. Qed.

(* the table-driven mirror is C13B's model of readPrivate, on the three fields *)
Lemma read_private_tie data strs d :
  M_read_private data strs d = omap pinfo_of (M_readPrivate data strs d).
Proof.
  unfold M_read_private, M_read_private_with, M_readPrivate.
  rewrite read_private_pair.
  destruct (getPair d b_opPrivate) as [[pdSize pdOffs]|]; [|reflexivity].
  change c05b_minPrivOffs with 4%Z. change c05b_minPrivSize with 0%Z.
  destruct ((pdOffs <? 4)%Z || (pdSize <? 0)%Z); [reflexivity|].
  destruct (Z.of_N (lenN data) <? pdOffs + pdSize)%Z; [reflexivity|].
  destruct (M_decodeDict strs (takeN (dropN data (Z.to_N pdOffs)) (Z.to_N pdSize))) as [pd| | |]; try reflexivity.
  cbn [obind omap]. rewrite read_subrs. cbn [fval_int].
  change c05b_minSubrsOffs with 0%Z. rewrite read_index_at_same.
  destruct (if (0 <? getInt pd b_opSubrs 0)%Z then read_index_at data (wrap_i32 (pdOffs + getInt pd b_opSubrs 0)) else Ok [])
    as [subrs| | |]; try reflexivity.
Qed.

(* ---------- the decodeInfo literals ---------- *)

(* &decodeInfo{subr: pInfo.subrs, gsubr: gsubrs, defaultWidth: pInfo.defaultWidth,
   nominalWidth: pInfo.nominalWidth} - in the CID branch and in the simple branch *)
Lemma decodeInfo_cid (p : pinfo) (gsubrs : list (list N)) :
  mk_dinfo lit_cid p gsubrs = mkDinfo (pi_subrs p) gsubrs (pi_defw p) (pi_nomw p).
Proof. reflexivity. Qed.

Lemma decodeInfo_simple (p : pinfo) (gsubrs : list (list N)) :
  mk_dinfo lit_simple p gsubrs = mkDinfo (pi_subrs p) gsubrs (pi_defw p) (pi_nomw p).
Proof. reflexivity. Qed.

Lemma decodeInfo_two_literals : length c05b_decodeInfo_lits = 2%nat /\ length c05b_privateInfo_lits = 1%nat.
Proof. split; reflexivity. Qed.
