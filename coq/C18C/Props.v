(* C18C/Props.v — part C of C18: the theorems of part B with the table decoders
   of the library CONCRETE.  concrete_decoders nv is C18B's decoder record
   filled, by import, with the models of the developments that own the
   decoders (Concrete.v lists them).  What remains quantified is the record
   [navs]:
     n_post n_cff n_gdef n_gsub n_gpos n_kern   how these parser-based decoders move through
                                                their section (which ranges they fetch, as a
                                                function of what they have fetched) - ANY strategy
     n_std_code n_exp_code                      the Adobe standard / expert encoding tables
     n_cff_unspec                               cff.Read's verdict on charstrings outside the domain
                                                of C05's interpreter model - must not panic (navs_ok)
     n_namever n_grow                           a discarded error; io.ReadAll's buffer growth
   The admissibility conditions part B asks of a decoder are PROVED here from
   the theorems of the imported developments:
     - no panic, no non-termination: C09.decode_table_total, C14.name_decode_total,
       C14.post_read_total, C12.maxp_decode_total, C12.os2_decode_total, C05B.read_glyphs_total,
       C02B.gtab_read_total_concrete, C08.gdef_read_total, C15.kern_read_total,
       C12.head_decode_total, C12.hmtx_decode_total, C11.glyf_decode_total
     - an error at once when a read fails, determinism, accesses inside the
       table: by construction of a decoder from a navigation and a function on
       bytes (Nav.v; C18B.run_sec_determined / run_sec_inside hold of every
       strategy). *)
From Coq Require Import List NArith ZArith Bool Arith Lia.
From Common Require Import Bytes Outcome.
From Gen Require Import Consts.
From C03 Require Import Model.
From C18B Require Import Model Spec Proofs_Trunc Proofs_Props Concrete.
From C18B Require Props.
From C18C Require Import Nav Concrete Proofs_Nav Proofs_Concrete Proofs_Short.
From C12 Require Model2.
Import ListNotations.
Local Open Scope N_scope.

(* 0. Admissibility: the concrete decoders never panic and never loop, and
   return an error as soon as a read fails. *)
Theorem concrete_decoders_admissible : forall nv : navs,
  (navs_ok nv -> decoders_total (concrete_decoders nv)) /\ decoders_strict (concrete_decoders nv).
Proof. intros nv. split; [apply concrete_total|apply concrete_strict]. Qed.
Print Assumptions concrete_decoders_admissible.

(* the imported models, one by one, answer with a value or an error on every byte string *)
Theorem imported_models_total : forall (b : list N),
  okerr (c_cmap b) /\ okerr (c_name b) /\ okerr (b_maxp b) /\ okerr (b_os2 b) /\ okerr (b_post b) /\
  okerr (b_gsub b) /\ okerr (b_gpos b) /\ okerr (b_gdef b) /\ okerr (b_kern b) /\
  okerr (c_hmtx b None) /\ (forall hm, okerr (c_hmtx b (Some hm))) /\ (forall lf loca, okerr (c_glyf lf loca b)) /\
  (forall std exp unspec, (forall x, okerr (unspec x)) -> okerr (b_cff std exp unspec b)).
Proof.
  intros b.
  split; [apply c_cmap_okerr|]. split; [apply c_name_okerr|]. split; [apply b_maxp_okerr|].
  split; [apply b_os2_okerr|]. split; [apply b_post_okerr|]. split; [apply b_gsub_okerr|].
  split; [apply b_gpos_okerr|]. split; [apply b_gdef_okerr|]. split; [apply b_kern_okerr|].
  split; [apply C18B.Proofs_Concrete.c_hmtx_okerr|].
  split; [intros hm; apply C18B.Proofs_Concrete.c_hmtx_okerr|].
  split; [intros lf loca; apply C18B.Proofs_Concrete.c_glyf_okerr|].
  intros std exp unspec H. now apply b_cff_okerr.
Qed.
Print Assumptions imported_models_total.

(* the byte normalisation in front of the imported models is the identity on bytes *)
Theorem norm_is_identity_on_bytes : forall b, bytes_ok b = true -> norm b = b.
Proof. exact norm_id. Qed.
Print Assumptions norm_is_identity_on_bytes.

(* 1. Errors propagate: sfnt.Read with the library's decoders returns a font or
   an error, never panics; it returns a font exactly under read_ok; it fails
   whenever must_fail lists a reason - a missing required table, the gate, an
   imported decoder's error, a failing table read. *)
Theorem read_error_propagates_concrete : forall (nv : navs) (rd : racc), navs_ok nv ->
  okerr (fst (M_sfnt_read_at (concrete_decoders nv) rd)) /\
  (forall v, fst (M_sfnt_read_at (concrete_decoders nv) rd) = Ok v <-> read_ok (concrete_decoders nv) rd v) /\
  (forall s toc, M_read_dir_r (to_c03 rd) = Ok (s, toc) -> must_fail (concrete_decoders nv) rd s toc ->
                 fst (M_sfnt_read_at (concrete_decoders nv) rd) = Err) /\
  (M_read_dir_r (to_c03 rd) = Err -> fst (M_sfnt_read_at (concrete_decoders nv) rd) = Err).
Proof. intros nv rd H. apply C18B.Props.read_error_propagates. now apply concrete_total. Qed.
Print Assumptions read_error_propagates_concrete.

(* 2. Faults surface - no hypothesis on decoders is left: for every navigation,
   every set of bad offsets and a reader failing on every access that touches
   one, a bad offset in a consulted range is an error, none there changes
   neither the outcome nor the accesses. *)
Theorem read_fault_surfaces_concrete : forall (nv : navs) (rd : racc) (fails : N -> N -> bool) (bad : N -> Prop),
  fails_is bad fails ->
  ((exists k, bad k /\ covers (snd (M_sfnt_read_at (concrete_decoders nv) rd)) k) ->
     fst (M_sfnt_read_at (concrete_decoders nv) (faulty fails rd)) = Err) /\
  ((forall k, bad k -> ~ covers (snd (M_sfnt_read_at (concrete_decoders nv) rd)) k) ->
     M_sfnt_read_at (concrete_decoders nv) (faulty fails rd) = M_sfnt_read_at (concrete_decoders nv) rd).
Proof. intros nv rd fails bad H. apply C18B.Props.read_fault_surfaces; [apply concrete_strict|exact H]. Qed.
Print Assumptions read_fault_surfaces_concrete.

(* 3. Truncation inside the table data is rejected, through every kind of reader;
   cutting the final padding changes nothing. *)
Theorem truncation_inside_tables_rejected_concrete : forall (nv : navs) (b : list N) (s : N) (toc : list toc_entry) (k : N),
  M_read_dir_r (to_c03 (plain_at b)) = Ok (s, toc) -> no_wrap toc -> k < toc_end toc ->
  fst (M_sfnt_read_at (concrete_decoders nv) (plain_at (firstn (N.to_nat k) b))) = Err /\
  fst (M_sfnt_read_at (concrete_decoders nv) (faulty (fails_ge k) (plain_at b))) = Err /\
  (forall evs, ~ In SFail evs -> stream_data evs = firstn (N.to_nat k) b ->
               fst (M_sfnt_read_concrete nv (SrcStream evs)) = Err).
Proof. intros nv. apply C18B.Props.truncation_inside_tables_rejected. Qed.
Print Assumptions truncation_inside_tables_rejected_concrete.

(* 4. The consulted ranges of a successful read, site by site. *)
Theorem consulted_closed_form_concrete : forall (nv : navs) (rd : racc) (v s : N) (toc : list toc_entry),
  M_read_dir_r (to_c03 rd) = Ok (s, toc) -> fst (M_sfnt_read_at (concrete_decoders nv) rd) = Ok v ->
  snd (M_sfnt_read_at (concrete_decoders nv) rd) = consulted (concrete_decoders nv) rd s toc.
Proof. intros nv. apply C18B.Props.consulted_closed_form. Qed.
Print Assumptions consulted_closed_form_concrete.

(* 5. Tables that fit the parser's buffer.  The first refill of parser.Parser
   asks for bufferSize bytes; the section reader cuts the request to the table:
   ONE request fetches the whole table.  With that navigation the decoder's
   verdict on an intact file is the imported model applied to the table's
   bytes, and its footprint is the table. *)
Theorem one_window_verdict : forall (V : Type) (dec : list N -> outcome V) (b : list N) (off len : N),
  0 < len -> len <= N.of_nat parser_bufferSize -> off + len <= N.of_nat (length b) ->
  run_sec (plain_at b) off len (nav_prog (nav_one_window (N.of_nat parser_bufferSize)) dec len) =
  (dec (sub b (N.to_nat off) (N.to_nat len)), [(off, len)]).
Proof. intros V dec b off len. apply one_window_exact. Qed.
Print Assumptions one_window_verdict.

(* 6. A decoder built from ANY navigation and ANY function on bytes that answers
   with a value or an error is admissible. *)
Theorem nav_decoder_admissible : forall (V : Type) (nv : nav) (dec : list N -> outcome V) (len : N),
  strict (nav_prog nv dec len) /\ ((forall b, okerr (dec b)) -> total (nav_prog nv dec len)).
Proof. intros V nv dec len. split; [apply nav_prog_strict|apply nav_prog_total]. Qed.
Print Assumptions nav_decoder_admissible.

(* 7. "An error on truncated input inside the consulted range", for the decoders
   whose consulted range is fixed by the format - proved about the imported
   models: head.Read needs 54 bytes, maxp.Read 6 (32 for version 1.0), os2.Read
   68.  (For the parser-based decoders the consulted range depends on the data;
   there the correspondence cuts every table of the base fonts to every
   length and compares the library with the imported model.) *)
Theorem fixed_layout_tables_cut_short_rejected :
  (forall b, (length b < 54)%nat -> C12.Model2.M_head_decode b = Err) /\
  (forall b, (length b < 6)%nat -> C12.Model2.M_maxp_decode b = Err) /\
  (forall b i, C12.Model2.M_maxp_decode b = Ok i -> C12.Model2.mx_ttf i <> None -> (32 <= length b)%nat) /\
  (forall b, (length b < 68)%nat -> C12.Model2.M_os2_decode b = Err).
Proof.
  split; [exact head_short_rejected|]. split; [exact maxp_short_rejected|].
  split; [exact maxp_v1_short_rejected|exact os2_short_rejected].
Qed.
Print Assumptions fixed_layout_tables_cut_short_rejected.
