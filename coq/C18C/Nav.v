(* C18C/Nav.v — from a decoder on bytes to a decoder on a section reader.

   The other developments model the table decoders as functions
   bytes -> outcome (C17 proves that the parser they read through is a plain
   byte view).  sfnt.Read hands nine of them an io.SectionReader; C18B treats
   such a decoder as a reading strategy [prog].  What a function on bytes does
   not say is WHICH ranges the decoder fetches (for the parser-based ones: the
   1024-byte refills, which depend on how the decoder moves through the table).
   That navigation is a separate object here:

     nav : what has been fetched so far |-> the next range to fetch, or "done"

   and the decoder on the section reader is: fetch what the navigation says; a
   read error ends it with an error; when the navigation is done, the verdict
   is the function on bytes applied to the table as far as it is known (bytes
   never fetched read as zero).  Executable definitions only. *)
From Coq Require Import List NArith ZArith Bool Arith.
From Common Require Import Bytes Outcome.
From C18B Require Import Model.
Import ListNotations.
Local Open Scope N_scope.

(* one fetch: offset in the section, length asked for, bytes delivered *)
Definition fetch : Type := (N * N * list N)%type.

Record nav : Type := mk_nav {
  nv_next : N -> list fetch -> option (N * N);   (* section length, history |-> next request *)
  nv_max : nat                                    (* bound on the number of requests *)
}.

(* the table as far as the fetches show it: [len] bytes, zero where nothing was fetched *)
Fixpoint put_at (img : list N) (off : nat) (d : list N) : list N :=
  match off, img with
  | _, [] => []
  | O, x :: r => match d with [] => img | y :: d' => y :: put_at r O d' end
  | S o, x :: r => x :: put_at r o d
  end.
Definition image (len : N) (hist : list fetch) : list N :=
  fold_left (fun img (f : fetch) => put_at img (N.to_nat (fst (fst f))) (snd f)) hist (repeat 0 (N.to_nat len)).

Fixpoint nav_loop {V} (fuel : nat) (next : list fetch -> option (N * N)) (dec : list N -> outcome V)
         (len : N) (hist : list fetch) : prog V :=
  match fuel with
  | O => Ret Err                                   (* more requests than the bound: gives up *)
  | S f =>
    match next hist with
    | None => Ret (dec (image len hist))
    | Some (o, n) =>
      Rd o n (fun r =>
        match r with
        | RFail => Ret Err                         (* the read error is returned *)
        | RData d => nav_loop f next dec len (hist ++ [(o, n, d)])
        | REof d => nav_loop f next dec len (hist ++ [(o, n, d)])
        end)
    end
  end.

Definition nav_prog {V} (nv : nav) (dec : list N -> outcome V) : N -> prog V :=
  fun len => nav_loop (nv_max nv) (nv_next nv len) dec len [].

(* a navigation given by a recording of requests (the correspondence) *)
Definition nav_replay (accs : list (N * N)) : nav :=
  mk_nav (fun _ hist => nth_error accs (length hist)) (S (length accs)).

(* the parser's first refill when the whole section fits its buffer: one request
   for everything (nothing for an empty section) *)
Definition nav_one_window (bs : N) : nav :=
  mk_nav (fun len hist => match hist with [] => if len =? 0 then None else Some (0, N.min bs len) | _ => None end) 2.

(* models without fuel of their own never answer OutOfFuel; this says so in the type *)
Definition defuel {V} (x : outcome V) : outcome V :=
  match x with OutOfFuel => Err | y => y end.

(* bytes as bytes: the imported models are stated for lists of numbers below 256 *)
Definition norm (b : list N) : list N := map (fun x => x mod 256) b.
