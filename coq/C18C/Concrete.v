(* C18C/Concrete.v — the table decoders of sfnt.Read instantiated BY IMPORT
   with the models of the developments that own them (nothing copied):

     cmap.Decode          C09.ModelT.M_decode_table
     Table.GetBest        C09.ModelT.M_decode_table_bytes ; C09B.Model.M_getbest_v
     name.Decode          C14.Model.M_name_decode
     post.Read            C14.Model.M_post_read
     maxp.Read            C12.Model2.M_maxp_decode
     os2.Read             C12.Model2.M_os2_decode
     cff.Read             C05B.Model.M_cff_read (C13B's M_read + the glyph loop over C05's interpreter)
     gtab.Read GSUB/GPOS  C02B.Model.M_gtab_read (C02's reader over C08D's subtable readers)
     gdef.Read            C08.ModelGDEF.M_gdef_read
     kern.Read            C15.Entry.run_kern_read
     head.Read, hmtx.Decode, glyf.Decode   as in C18B.Concrete (C12, C11)

   What stays quantified ([navs]): how the parser-based decoders move through
   their section (Nav.v), the Adobe standard / expert encoding tables cff.Read
   compares encodings with, and cff.Read's verdict on charstrings outside the
   domain of C05's interpreter model.  Executable definitions only. *)
From Coq Require Import List NArith ZArith Bool Arith.
From Common Require Import Bytes Outcome.
From Gen Require Import Consts.
From C03 Require Import Model.
From C09 Require ModelT.
From C09B Require Model.
From C14 Require Model.
From C12 Require Model2.
From C13 Require Model.
From C05B Require Model.
From C08D Require Model.
From C02B Require Model.
From C08 Require ModelGDEF.
From C15 Require Entry.
From C18B Require Import Model Concrete.
From C18C Require Import Nav.
Import ListNotations.
Local Open Scope N_scope.

(* ---- decoders that get the bytes ---- *)

Definition c_cmap (c : list N) : outcome unit :=
  defuel (omap (fun _ => tt) (C09.ModelT.M_decode_table (norm c))).

Definition c_getbest (c : list N) : outcome unit :=
  t <- C09.ModelT.M_decode_table_bytes (norm c) ;;
  omap (fun _ => tt) (C09B.Model.M_getbest_v t).

Definition c_name (c : list N) : outcome unit :=
  omap (fun _ => tt) (C14.Model.M_name_decode (norm c)).

(* ---- the functions on bytes behind the section decoders ---- *)

Definition b_maxp (b : list N) : outcome N :=
  omap (fun i => Z.to_N (C12.Model2.mx_numglyphs i)) (C12.Model2.M_maxp_decode (norm b)).
Definition b_os2 (b : list N) : outcome unit :=
  omap (fun _ => tt) (C12.Model2.M_os2_decode (norm b)).
Definition b_post (b : list N) : outcome unit :=
  omap (fun _ => tt) (C14.Model.M_post_read (norm b)).
Definition b_gsub (b : list N) : outcome unit :=
  omap (fun _ => tt) (C02B.Model.M_gtab_read C08D.Model.GSUB (norm b)).
Definition b_gpos (b : list N) : outcome unit :=
  omap (fun _ => tt) (C02B.Model.M_gtab_read C08D.Model.GPOS (norm b)).
Definition b_gdef (b : list N) : outcome unit :=
  defuel (omap (fun _ => tt) (C08.ModelGDEF.M_gdef_read (norm b))).
Definition b_kern (b : list N) : outcome unit :=
  omap (fun _ => tt) (C15.Entry.run_kern_read (norm b)).

Section CFF.
  Variable std_code exp_code : list N -> option N.
  (* what cff.Read answers when a charstring lies outside the domain of C05's model *)
  Variable unspec : list N -> outcome N.
  Definition b_cff (b : list N) : outcome N :=
    match C05B.Model.M_cff_read std_code exp_code (norm b) with
    | C05B.Model.GOk gl => Ok (N.of_nat (length gl))
    | C05B.Model.GErr => Err
    | C05B.Model.GPanic => Panic
    | C05B.Model.GFuel => OutOfFuel
    | C05B.Model.GUnspec => unspec b
    end.
End CFF.

(* ---- navigation of the two decoders that read through a plain io.Reader ---- *)

(* maxp.Read: io.ReadFull of 6 bytes; for version 1.0 with glyphs, 26 more *)
Definition nav_maxp : nav :=
  mk_nav (fun _ hist =>
            match hist with
            | [] => Some (0, 6)
            | [(_, _, d)] =>
              if Nat.eqb (length d) 6 && (rd32 d =? 65536) && negb (rd16 (skipn 4 d) =? 0)
              then Some (6, 26) else None
            | _ => None
            end) 3.

(* os2.Read: binary.Read of the 68-byte version 0 block; then - unless the
   version is above 5 - the 10 bytes of the Microsoft extension (none at all:
   a version 0 table of the Apple kind); for version >= 2, 8 bytes of code page
   ranges and 10 bytes of version 2 fields *)
Definition nav_os2 : nav :=
  mk_nav (fun _ hist =>
            match hist with
            | [] => Some (0, 68)
            | [(_, _, d)] => if Nat.eqb (length d) 68 && (rd16 d <=? 5) then Some (68, 10) else None
            | [(_, _, d); (_, _, e)] => if Nat.eqb (length e) 10 && (2 <=? rd16 d) then Some (78, 8) else None
            | [_; _; (_, _, f)] => if Nat.eqb (length f) 8 then Some (86, 10) else None
            | _ => None
            end) 5.

(* ---- what stays quantified ---- *)

Record navs : Type := mk_navs {
  n_post : nav; n_cff : nav; n_gdef : nav; n_gsub : nav; n_gpos : nav; n_kern : nav;
  n_std_code : list N -> option N;
  n_exp_code : list N -> option N;
  n_cff_unspec : list N -> outcome N;
  n_namever : list N -> outcome unit;       (* head.VersionFromString on the name table's version: discarded *)
  n_grow : N -> N                           (* io.ReadAll's buffer growth *)
}.

Definition concrete_decoders (nv : navs) : decoders :=
  mk_decoders
    c_head
    (nav_prog nav_maxp b_maxp)
    (nav_prog nav_os2 b_os2)
    (nav_prog (n_post nv) b_post)
    (nav_prog (n_cff nv) (b_cff (n_std_code nv) (n_exp_code nv) (n_cff_unspec nv)))
    (nav_prog (n_gdef nv) b_gdef)
    (nav_prog (n_gsub nv) b_gsub)
    (nav_prog (n_gpos nv) b_gpos)
    (nav_prog (n_kern nv) b_kern)
    c_hmtx c_cmap c_name c_glyf c_getbest (n_namever nv) (n_grow nv).

(* sfnt.Read with the decoders of the library *)
Definition M_sfnt_read_concrete (nv : navs) : source -> outcome N * fprint :=
  M_sfnt_read (concrete_decoders nv).
