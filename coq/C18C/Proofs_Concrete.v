(* C18C/Proofs_Concrete.v — every imported decoder model is total (the theorem
   of the development it comes from), so the concrete decoders satisfy what
   C18B's theorems assume. *)
From Coq Require Import List NArith ZArith Bool Arith Lia.
From Common Require Import Bytes Outcome.
From C03 Require Import Model.
From C09 Require ModelT Props.
From C14 Require Model Props.
From C12 Require Model2 Props.
From C05B Require Model Props.
From C08D Require Model.
From C02B Require Model Props.
From C08 Require Model ModelGDEF Props.
From C15 Require Entry Props.
From C18B Require Import Model Spec Concrete Proofs_Concrete.
From C18C Require Import Nav Concrete Proofs_Nav.
Import ListNotations.

Lemma c_cmap_okerr c : okerr (c_cmap c).
Proof.
  unfold c_cmap. apply okerr_defuel, omap_not_panic.
  exact (proj1 (C09.Props.decode_table_total (norm c))).
Qed.

Lemma c_name_okerr c : okerr (c_name c).
Proof.
  unfold c_name. apply okerr_omap.
  destruct (C14.Props.name_decode_total (norm c) (norm_bytes_ok c)). now apply okerr_of_safe.
Qed.

Lemma b_maxp_okerr b : okerr (b_maxp b).
Proof. unfold b_maxp. apply okerr_omap. destruct (C12.Props.maxp_decode_total (norm b)). now apply okerr_of_safe. Qed.

Lemma b_os2_okerr b : okerr (b_os2 b).
Proof. unfold b_os2. apply okerr_omap. destruct (C12.Props.os2_decode_total (norm b)). now apply okerr_of_safe. Qed.

Lemma b_post_okerr b : okerr (b_post b).
Proof.
  unfold b_post. apply okerr_omap.
  destruct (C14.Props.post_read_total (norm b) (norm_bytes_ok b)). now apply okerr_of_safe.
Qed.

Lemma b_gsub_okerr b : okerr (b_gsub b).
Proof.
  unfold b_gsub. apply okerr_omap.
  destruct (C02B.Props.gtab_read_total_concrete C08D.Model.GSUB (norm b) (norm_forall b)). now apply okerr_of_safe.
Qed.

Lemma b_gpos_okerr b : okerr (b_gpos b).
Proof.
  unfold b_gpos. apply okerr_omap.
  destruct (C02B.Props.gtab_read_total_concrete C08D.Model.GPOS (norm b) (norm_forall b)). now apply okerr_of_safe.
Qed.

Lemma b_gdef_okerr b : okerr (b_gdef b).
Proof. unfold b_gdef. apply okerr_defuel, omap_not_panic. apply C08.Props.gdef_read_total. Qed.

Lemma b_kern_okerr b : okerr (b_kern b).
Proof.
  unfold b_kern. apply okerr_omap.
  destruct (C15.Props.kern_read_total (norm b)) as (H1 & H2 & _). now apply okerr_of_safe.
Qed.

Lemma b_cff_okerr std exp unspec b : (forall x, okerr (unspec x)) -> okerr (b_cff std exp unspec b).
Proof.
  intros Hu. unfold b_cff.
  destruct (C05B.Props.read_glyphs_total std exp (norm b) (norm_bytes_ok b)) as [H1 H2].
  destruct (C05B.Model.M_cff_read std exp (norm b)); try congruence.
  - right. eauto.
  - now left.
  - apply Hu.
Qed.

(* the only thing asked of what stays quantified: cff.Read does not panic on
   charstrings outside the domain of C05's model either *)
Definition navs_ok (nv : navs) : Prop := forall x, okerr (n_cff_unspec nv x).

Lemma concrete_total nv : navs_ok nv -> decoders_total (concrete_decoders nv).
Proof.
  intros Hu. constructor; intros; unfold concrete_decoders.
  - apply c_head_total.
  - apply nav_prog_total, b_maxp_okerr.
  - apply nav_prog_total, b_os2_okerr.
  - apply nav_prog_total, b_post_okerr.
  - apply nav_prog_total. intros b. now apply b_cff_okerr.
  - apply nav_prog_total, b_gdef_okerr.
  - apply nav_prog_total, b_gsub_okerr.
  - apply nav_prog_total, b_gpos_okerr.
  - apply nav_prog_total, b_kern_okerr.
  - apply c_hmtx_okerr.
  - apply c_cmap_okerr.
  - apply c_name_okerr.
  - apply c_glyf_okerr.
Qed.

Lemma concrete_strict nv : decoders_strict (concrete_decoders nv).
Proof. constructor; intros; unfold concrete_decoders; first [apply c_head_strict|apply nav_prog_strict]. Qed.
