(* C18C/Examples.v — the hypotheses of the theorems of Props.v are met by
   concrete values; the imported models run inside Coq on real table bytes. *)
From Coq Require Import List NArith ZArith Bool Arith Lia.
From Common Require Import Bytes Outcome.
From Gen Require Import Consts.
From C03 Require Import Model.
From C18B Require Import Model Spec.
From C18C Require Import Nav Concrete Proofs_Nav Proofs_Concrete Props.
Import ListNotations.
Local Open Scope N_scope.

Ltac splits := repeat match goal with |- _ /\ _ => split end.

(* a navigation record: every parser-based decoder fetches its section with one
   request; no encoding tables; cff.Read refuses what C05 does not specify *)
Definition ex_nv : navs :=
  let w := nav_one_window (N.of_nat parser_bufferSize) in
  mk_navs w w w w w w (fun _ => None) (fun _ => None) (fun _ => Err) (fun _ => Ok tt) (fun _ => 512).

Example ex_nv_ok : navs_ok ex_nv.
Proof. intros x. now left. Qed.

(* a TrueType file of four tables written by C03's model of header.Write: head
   (54 bytes), maxp (version 0.5, one glyph), loca (short format, one blank
   glyph), glyf (empty: "all glyphs are blank") *)
Definition ex_head : list N :=
  [0; 1; 0; 0;  0; 1; 0; 0;  0; 0; 0; 0;  95; 15; 60; 245;  0; 3;  3; 232;
   0; 0; 0; 0; 0; 0; 0; 0;  0; 0; 0; 0; 0; 0; 0; 0;
   0; 0; 0; 0; 0; 100; 0; 100;  0; 0;  0; 8;  0; 2;  0; 0;  0; 0].
Definition ex_tables : list table :=
  [ ([104; 101; 97; 100], Some ex_head);
    ([109; 97; 120; 112], Some [0; 0; 80; 0; 0; 1]);
    ([108; 111; 99; 97], Some [0; 0; 0; 0]);
    ([103; 108; 121; 102], Some []) ].
Definition ex_file : list N :=
  match M_write header_scalerTrueType ex_tables with Ok b => b | _ => [] end.

(* the library's decoders - C12's head and maxp, C11's glyf/loca model - read it: one glyph;
   the requests: directory, head (54 bytes), maxp (6 bytes), loca (4 bytes) *)
Example ex_read :
  M_sfnt_read_at (concrete_decoders ex_nv) (plain_at ex_file) =
  (Ok 1, [(0, 6); (12, 16); (28, 16); (44, 16); (60, 16); (143, 1); (76, 54); (132, 6); (140, 4)]).
Proof. vm_compute. reflexivity. Qed.

(* read_error_propagates_concrete: its hypothesis holds, its conclusion read_ok too *)
Example ex_read_ok : read_ok (concrete_decoders ex_nv) (plain_at ex_file) 1.
Proof.
  apply (proj1 (proj2 (read_error_propagates_concrete ex_nv (plain_at ex_file) ex_nv_ok)) 1).
  vm_compute. reflexivity.
Qed.

(* read_fault_surfaces_concrete: a bad byte inside head (offset 100) or maxp (135) is an
   error; inside the padding behind head (130) or behind the file it changes nothing *)
Example ex_faults :
  map (fun k => fst (M_sfnt_read_at (concrete_decoders ex_nv) (faulty (fails_at k) (plain_at ex_file))))
      [100; 135; 141; 130; 138; 500] = [Err; Err; Err; Ok 1; Ok 1; Ok 1] /\
  map (fun k => touches (snd (M_sfnt_read_at (concrete_decoders ex_nv) (plain_at ex_file))) k)
      [100; 135; 141; 130; 138; 500] = [true; true; true; false; false; false].
Proof. splits; vm_compute; reflexivity. Qed.

(* the head table cut to 53 bytes in place (length field of its directory entry):
   C12's model of head.Read refuses it, and so does Read *)
Definition ex_cut (b : list N) : list N := firstn 40 b ++ be32 53 ++ skipn 44 b.
Example ex_head_cut :
  sub ex_file 28 4 = [104; 101; 97; 100] /\
  fst (M_sfnt_read_at (concrete_decoders ex_nv) (plain_at (ex_cut ex_file))) = Err.
Proof. splits; vm_compute; reflexivity. Qed.

(* truncation of the file: every cut below the end of the table data is rejected *)
Example ex_truncation :
  forallb (fun k => negb (is_ok (fst (M_sfnt_read_at (concrete_decoders ex_nv) (plain_at (firstn k ex_file))))))
          (seq 0 144) = true /\
  fst (M_sfnt_read_concrete ex_nv (SrcStream [SChunk (firstn 100 ex_file); SChunk (skipn 100 ex_file)])) = Ok 1 /\
  fst (M_sfnt_read_concrete ex_nv (SrcStream [SChunk (firstn 100 ex_file); SFail])) = Err.
Proof. splits; vm_compute; reflexivity. Qed.

(* the decoders built from a navigation: maxp version 1.0 is fetched with two requests,
   version 0.5 with one; a table that ends inside the second request is refused *)
Definition ex_maxp1 : list N := [0; 1; 0; 0; 0; 7] ++ repeat 0 26.
Example ex_maxp_nav :
  run_sec (plain_at ex_maxp1) 0 32 (nav_prog nav_maxp b_maxp 32) = (Ok 7, [(0, 6); (6, 26)]) /\
  run_sec (plain_at [0; 0; 80; 0; 0; 7]) 0 6 (nav_prog nav_maxp b_maxp 6) = (Ok 7, [(0, 6)]) /\
  run_sec (plain_at ex_maxp1) 0 20 (nav_prog nav_maxp b_maxp 20) = (Err, [(0, 6); (6, 14)]) /\
  fst (run_sec (faulty (fails_at 9) (plain_at ex_maxp1)) 0 32 (nav_prog nav_maxp b_maxp 32)) = Err.
Proof. splits; vm_compute; reflexivity. Qed.

(* one_window_verdict on a kern table (C15's model): one request for the 18 bytes; cut
   short it is refused *)
Definition ex_kern : list N := [0; 0; 0; 1;  0; 0; 0; 20; 0; 1;  0; 1; 0; 6; 0; 0; 0; 0;  0; 1; 0; 2; 255; 226].
Example ex_kern_window :
  run_sec (plain_at ex_kern) 0 24 (nav_prog (nav_one_window 1024) b_kern 24) = (Ok tt, [(0, 24)]) /\
  fst (run_sec (plain_at ex_kern) 0 23 (nav_prog (nav_one_window 1024) b_kern 23)) = Err.
Proof. splits; vm_compute; reflexivity. Qed.

(* a recorded navigation: the requests are replayed, then the function on bytes sees the
   table as far as it was fetched (bytes never fetched read as zero: a navigation that
   stops short of what the function looks at is not the decoder's) *)
Example ex_replay :
  run_sec (plain_at ex_maxp1) 0 32 (nav_prog (nav_replay [(0, 4); (4, 2)]) b_maxp 32) = (Ok 7, [(0, 4); (4, 2)]) /\
  run_sec (plain_at ex_maxp1) 0 32 (nav_prog (nav_replay [(0, 4)]) b_maxp 32) = (Err, [(0, 4)]) /\
  run_sec (plain_at ex_maxp1) 0 32 (nav_prog (nav_replay [(0, 6); (6, 26)]) b_maxp 32) = (Ok 7, [(0, 6); (6, 26)]).
Proof. splits; vm_compute; reflexivity. Qed.
