From Coq Require Import Extraction ExtrOcamlBasic.
From Common Require Import Conv Outcome.
From Gen Require Import Consts.
From C03 Require Import Model.
From C18B Require Import Model Concrete.
From C18C Require Import Nav Concrete.
Extraction "c18c_model.ml" conv_anchor M_sfnt_read_at M_sfnt_read faulty fails_at fails_ge
  plain_at to_c03 M_read_dir_r dir_fp covered first_touch table_of
  nav_replay nav_one_window concrete_decoders M_sfnt_read_concrete parser_bufferSize
  c_cmap c_getbest c_name b_maxp b_os2 b_post b_gsub b_gpos b_gdef b_kern b_cff c_head c_hmtx c_glyf.
