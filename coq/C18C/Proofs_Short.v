(* C18C/Proofs_Short.v — the decoders whose consulted range is fixed by the
   format reject a table that ends inside it: "an error on truncated input
   inside the consulted range", proved about the imported models. *)
From Coq Require Import List NArith ZArith Bool Arith Lia.
From Common Require Import Bytes Outcome.
From C12 Require Codec Model2.
From C18C Require Import Nav Concrete.
Import ListNotations.

(* head.Read consults 54 bytes *)
Lemma head_short_rejected (b : list N) : (length b < 54)%nat -> C12.Model2.M_head_decode b = Err.
Proof.
  intros H. do 54 (destruct b as [|? b]; [reflexivity|]). cbn [length] in H. lia.
Qed.

(* maxp.Read consults 6 bytes, and 32 for version 1.0 *)
Lemma maxp_short_rejected (b : list N) : (length b < 6)%nat -> C12.Model2.M_maxp_decode b = Err.
Proof.
  intros H. do 6 (destruct b as [|? b]; [reflexivity|]). cbn [length] in H. lia.
Qed.

(* os2.Read consults 68 bytes at least *)
Lemma os2_short_rejected (b : list N) : (length b < 68)%nat -> C12.Model2.M_os2_decode b = Err.
Proof.
  intros H. do 68 (destruct b as [|? b]; [reflexivity|]). cbn [length] in H. lia.
Qed.

(* a version 1.0 maxp table (the one with the TrueType fields) has at least 32 bytes *)
Lemma maxp_v1_short_rejected (b : list N) (i : C12.Model2.maxp_info) :
  C12.Model2.M_maxp_decode b = Ok i -> C12.Model2.mx_ttf i <> None -> (32 <= length b)%nat.
Proof.
  intros H Hn. destruct (Nat.le_gt_cases 32 (length b)) as [Hl|Hl]; [assumption|exfalso].
  do 32 (destruct b as [|? b];
         [cbv [C12.Model2.M_maxp_decode C12.Codec.get32 C12.Codec.get16 C12.Codec.get16s C12.Codec.oget] in H;
          repeat match type of H with context [if ?c then _ else _] => destruct c end;
          try discriminate; inversion H; subst; cbn in Hn; congruence|]).
  cbn [length] in Hl. lia.
Qed.
