(* C18C/Proofs_Nav.v — a decoder built from a navigation and a function on
   bytes is what C18B asks of a section decoder: it returns an error at once
   when a read fails (strict), it neither panics nor loops when the function
   does not (total); when one request fetches the whole table the verdict is
   the function applied to the table. *)
From Coq Require Import List NArith ZArith Bool Arith Lia.
From Coq Require Import ZifyBool ZifyNat ZifyN.
From Common Require Import Bytes Outcome.
From C03 Require Import Model.
From C18B Require Import Model Spec Proofs_Cover.
From C18C Require Import Nav.
Import ListNotations.
Local Open Scope N_scope.

Lemma nav_loop_strict {V} (next : list fetch -> option (N * N)) (dec : list N -> outcome V) len :
  forall fuel hist, strict (nav_loop fuel next dec len hist).
Proof.
  induction fuel as [|f IH]; intros hist; cbn [nav_loop]; [constructor|].
  destruct (next hist) as [[o n]|]; [|constructor].
  constructor; [reflexivity|]. intros x. destruct x; try apply IH. constructor.
Qed.

Lemma nav_prog_strict {V} nv (dec : list N -> outcome V) len : strict (nav_prog nv dec len).
Proof. apply nav_loop_strict. Qed.

Lemma total_of_okerr {V} (x : outcome V) : okerr x -> total (Ret x).
Proof. intros [->|(a & ->)]; constructor. Qed.

Lemma nav_loop_total {V} (next : list fetch -> option (N * N)) (dec : list N -> outcome V) len :
  (forall b, okerr (dec b)) -> forall fuel hist, total (nav_loop fuel next dec len hist).
Proof.
  intros Hd. induction fuel as [|f IH]; intros hist; cbn [nav_loop]; [constructor|].
  destruct (next hist) as [[o n]|]; [|apply total_of_okerr, Hd].
  constructor. intros x. destruct x; try apply IH. constructor.
Qed.

Lemma nav_prog_total {V} nv (dec : list N -> outcome V) len :
  (forall b, okerr (dec b)) -> total (nav_prog nv dec len).
Proof. intros H. now apply nav_loop_total. Qed.

(* ---- bytes ---- *)

Lemma norm_bytes_ok b : bytes_ok (norm b) = true.
Proof.
  unfold bytes_ok, norm. apply forallb_forall. intros x Hx. apply in_map_iff in Hx.
  destruct Hx as (y & <- & _). unfold byte_ok. apply N.ltb_lt. apply N.mod_lt. discriminate.
Qed.

Lemma norm_forall b : Forall (fun x => x < 256) (norm b).
Proof.
  unfold norm. apply Forall_forall. intros x Hx. apply in_map_iff in Hx.
  destruct Hx as (y & <- & _). apply N.mod_lt. discriminate.
Qed.

Lemma norm_id b : bytes_ok b = true -> norm b = b.
Proof.
  unfold bytes_ok, norm. induction b as [|x b IH]; cbn [forallb map]; [reflexivity|].
  intros H. apply andb_true_iff in H. destruct H as [H1 H2]. rewrite (IH H2). f_equal.
  unfold byte_ok in H1. apply N.ltb_lt in H1. now apply N.mod_small.
Qed.

(* ---- outcomes ---- *)

Lemma okerr_of_safe {A} (x : outcome A) : x <> Panic -> x <> OutOfFuel -> okerr x.
Proof. destruct x; intros H1 H2; [right; eauto|now left|congruence|congruence]. Qed.

Lemma okerr_omap {A B} (f : A -> B) (x : outcome A) : okerr x -> okerr (omap f x).
Proof. intros [->|(a & ->)]; [now left|right; eexists; reflexivity]. Qed.

Lemma okerr_defuel {A} (x : outcome A) : x <> Panic -> okerr (defuel x).
Proof. destruct x; intros H; cbn; [right; eauto|now left|congruence|now left]. Qed.

Lemma omap_not_panic {A B} (f : A -> B) (x : outcome A) : x <> Panic -> omap f x <> Panic.
Proof. destruct x; cbn; congruence. Qed.

(* ---- one request for the whole table ---- *)

Lemma put_at_all (d : list N) : forall img, length img = length d -> put_at img 0 d = d.
Proof.
  induction d as [|y d IH]; intros img H; destruct img as [|x img]; cbn in *; try reflexivity; try discriminate.
  f_equal. apply IH. lia.
Qed.

Lemma one_window_exact {V} (dec : list N -> outcome V) (bs : N) (b : list N) (off len : N) :
  0 < len -> len <= bs -> off + len <= N.of_nat (length b) ->
  run_sec (plain_at b) off len (nav_prog (nav_one_window bs) dec len) =
  (dec (sub b (N.to_nat off) (N.to_nat len)), [(off, len)]).
Proof.
  intros H0 Hbs Hin. unfold nav_prog, nav_one_window. cbn [nv_max nv_next nav_loop].
  replace (len =? 0) with false by (symmetry; apply N.eqb_neq; lia).
  replace (N.min bs len) with len by lia.
  cbn [run_sec]. replace (len <=? 0) with false by (symmetry; apply N.leb_gt; lia).
  replace (N.min len (len - 0)) with len by lia. replace (off + 0) with off by lia.
  rewrite plain_at_inside by lia. rewrite N.ltb_irrefl.
  cbn [nav_loop run_sec fst snd app]. f_equal. f_equal.
  unfold image. cbn [fold_left fst snd]. change (N.to_nat 0) with 0%nat.
  apply put_at_all. rewrite repeat_length, sub_length; lia.
Qed.
