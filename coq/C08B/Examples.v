(* C08B/Examples.v — non-vacuity: concrete non-trivial values satisfy the
   well-formedness predicates of every theorem of Props.v, the encoders accept
   them, and the models evaluate (inside Coq, vm_compute) to the bytes and
   values the extracted model prints.  The [_refuted_found] witnesses are in
   Proofs_refuted.v. *)
From Coq Require Import List NArith ZArith Bool Lia.
From Common Require Import Bytes Outcome.
From C08 Require Import Model ModelCD ModelSub ModelSub2.
From C08B Require Import Model Model2 Model3 Proofs_refuted.
Import ListNotations.
Local Open Scope N_scope.

(* ---- GPOS 4.1 / 6.1 ---- *)
Definition ex_glm : list N := [5; 6; 9].
Definition ex_glb : list N := [30; 31].
Definition ex_marks : list markrec := [(0, (10, 20)%Z); (1, (-5, 7)%Z); (0, (0, 0)%Z)].
Definition ex_base : list (list anchor) := [[(1, 2)%Z; (0, 0)%Z]; [(-32768, 32767)%Z; (3, -4)%Z]].

Example ex41_wf : markbase_wf ex_glm ex_glb ex_marks ex_base = true.
Proof. vm_compute. reflexivity. Qed.

Example ex41_encode :
  M_gpos41_encode (S_cov_table ex_glm) (S_cov_table ex_glb) ex_marks ex_base =
  Ok [0;1; 0;12; 0;22; 0;2; 0;30; 0;62;
      0;1; 0;3; 0;5; 0;6; 0;9;
      0;1; 0;2; 0;30; 0;31;
      0;3; 0;0; 0;14; 0;1; 0;20; 0;0; 0;26;
      0;1; 0;10; 0;20;  0;1; 255;251; 0;7;  0;1; 0;0; 0;0;
      0;2; 0;10; 0;0; 0;16; 0;22;
      0;1; 0;1; 0;2;  0;1; 128;0; 127;255;  0;1; 0;3; 255;252].
Proof. vm_compute. reflexivity. Qed.

Example ex41_len :
  M_gpos41_len (S_cov_table ex_glm) (S_cov_table ex_glb) ex_marks ex_base = Ok 90.
Proof. vm_compute. reflexivity. Qed.

Example ex41_roundtrip :
  M_gpos41_read ([9; 9; 9] ++ outcome_bytes (M_gpos41_encode (S_cov_table ex_glm) (S_cov_table ex_glb) ex_marks ex_base) ++ [7]) 3
  = Ok (S_cov_pairs ex_glm, S_cov_pairs ex_glb, ex_marks, ex_base).
Proof. vm_compute. reflexivity. Qed.

Example ex41_fields :
  markbase_fields (outcome_bytes (M_cov_encode (S_cov_table ex_glm)))
                  (outcome_bytes (M_cov_encode (S_cov_table ex_glb))) ex_marks ex_base
  = [12; 22; 2; 30; 62; 3; 14; 20; 26; 2; 10; 0; 16; 22].
Proof. vm_compute. reflexivity. Qed.

(* no base record: markClassCount = max class + 1 *)
Example ex61_nobase :
  markbase_wf [5] [] [(7, (1, 1)%Z)] [] = true /\
  is_ok (M_gpos61_encode (S_cov_table [5]) (S_cov_table []) [(7, (1, 1)%Z)] []) = true.
Proof. vm_compute. split; reflexivity. Qed.

(* a value the repaired encoder refuses: the witness of the 6.1 finding *)
Example ex61_refused :
  M_gpos61_encode (S_cov_table w61_glm) (S_cov_table w61_glb) w61_marks w61_base = Panic.
Proof. vm_compute. reflexivity. Qed.

(* ---- GPOS 2.2 ---- *)
Definition ex_vr1 : option vrec :=
  Some {| v_xp := 0; v_yp := 0; v_xa := -30; v_ya := 0; v_xpd := 0; v_ypd := 0; v_xad := 0; v_yad := 0 |}.
Definition ex_vr2 : option vrec :=
  Some {| v_xp := 5; v_yp := 0; v_xa := 0; v_ya := 0; v_xpd := 0; v_ypd := 0; v_xad := 0; v_yad := 9 |}.
Definition ex_adj : list (list vr2) :=
  [[(None, None); (ex_vr1, None)]; [(ex_vr1, ex_vr2); (Some vr_zero, None)]].
Definition ex_cd1 : list (N * N) := [(3, 1); (4, 1); (9, 0)].
Definition ex_cd2 : list (N * N) := [(20, 1)].

Example ex22_wf : gpos22_wf [3; 4; 8] ex_cd1 ex_cd2 ex_adj = true.
Proof. vm_compute. reflexivity. Qed.

Example ex22_roundtrip :
  M_gpos22_read ([1] ++ outcome_bytes (M_gpos22_encode [3; 4; 8] ex_cd1 ex_cd2 ex_adj) ++ [2; 3]) 1
  = Ok ([3; 4; 8], [(3, 1); (4, 1)], ex_cd2, g22_norm ex_adj) /\
  g22_norm ex_adj = [[(Some vr_zero, Some vr_zero); (ex_vr1, Some vr_zero)]; [(ex_vr1, ex_vr2); (Some vr_zero, Some vr_zero)]] /\
  g22_vf1 ex_adj = 4 /\ g22_vf2 ex_adj = 129.
Proof. vm_compute. repeat split; reflexivity. Qed.

Example ex22_len :
  M_gpos22_len [3; 4; 8] ex_cd1 ex_cd2 ex_adj
  = Ok (lenN (outcome_bytes (M_gpos22_encode [3; 4; 8] ex_cd1 ex_cd2 ex_adj))) /\
  gpos22_fields [3; 4; 8] ex_cd1 ex_cd2 ex_adj (outcome_bytes (M_cov_encode (S_cov_table [3; 4; 8])))
  = [40; 50; 60; 2; 2].
Proof. vm_compute. split; reflexivity. Qed.

(* ---- GPOS 3.1 ---- *)
Definition ex_ee : list eerec :=
  [((1, 2)%Z, a_zero); (a_zero, (3, 4)%Z); (a_zero, a_zero); ((5, 6)%Z, (-7, -8)%Z)].

Example ex31_wf : gpos31_wf [4; 5; 6; 9] ex_ee = true.
Proof. vm_compute. reflexivity. Qed.

Example ex31_roundtrip :
  M_gpos31_read (outcome_bytes (M_gpos31_encode (S_cov_table [4; 5; 6; 9]) ex_ee)) 0
  = Ok (S_cov_pairs [4; 5; 6; 9], ex_ee) /\
  M_gpos31_len (S_cov_table [4; 5; 6; 9]) ex_ee = Ok 58 /\
  gpos31_fields ex_ee = [46; 4; 22; 28; 34; 40].
Proof. vm_compute. repeat split; reflexivity. Qed.

(* ---- GPOS 5.1 ---- *)
Definition ex_ligs : list (list (list anchor)) :=
  [[[(1, 2)%Z; a_zero]; [a_zero; (3, 4)%Z]]; []; [[(5, 6)%Z; (7, 8)%Z]]].

Example ex51_wf : gpos51_wf [5; 6] [40; 41; 42] 2 [(0, (1, 1)%Z); (1, (2, 2)%Z)] ex_ligs = true.
Proof. vm_compute. reflexivity. Qed.

Example ex51_read_spec :
  let mcb := outcome_bytes (M_cov_encode (S_cov_table [5; 6])) in
  let lcb := outcome_bytes (M_cov_encode (S_cov_table [40; 41; 42])) in
  S_gpos51_fits mcb lcb 2 [(0, (1, 1)%Z); (1, (2, 2)%Z)] ex_ligs = true /\
  M_gpos51_read ([0; 0] ++ S_gpos51_bytes mcb lcb 2 [(0, (1, 1)%Z); (1, (2, 2)%Z)] ex_ligs) 2
  = Ok (S_cov_pairs [5; 6], S_cov_pairs [40; 41; 42], [(0, (1, 1)%Z); (1, (2, 2)%Z)], ex_ligs).
Proof. vm_compute. split; reflexivity. Qed.

(* the reader as found decodes the same bytes to something else or fails *)
Example ex51_found_differs :
  let mcb := outcome_bytes (M_cov_encode (S_cov_table [5; 6])) in
  let lcb := outcome_bytes (M_cov_encode (S_cov_table [40; 41; 42])) in
  M_gpos51_read_found (S_gpos51_bytes mcb lcb 2 [(0, (1, 1)%Z); (1, (2, 2)%Z)] ex_ligs) 0
  <> Ok (S_cov_pairs [5; 6], S_cov_pairs [40; 41; 42], [(0, (1, 1)%Z); (1, (2, 2)%Z)], ex_ligs).
Proof. vm_compute. discriminate. Qed.

(* ---- anchors ---- *)
Example ex_anchor :
  M_anchor_read (anchor_bytes (-2, 300)%Z) 0 = Ok (-2, 300)%Z /\
  M_anchor_read [0; 4; 0; 1; 0; 2] 0 = Err /\ M_anchor_read [0; 3; 0; 1; 0; 2; 9; 9] 0 = Ok (1, 2)%Z /\
  M_anchor_read [0; 1; 0; 1; 0] 0 = Err.
Proof. vm_compute. repeat split; reflexivity. Qed.
