(* C08B/Proofs_g51.v — GPOS 5.1: the repaired reader decodes the
   MarkLigPosFormat1 layout of the OpenType text. *)
From Coq Require Import List NArith ZArith Bool Lia.
From Coq Require Import ZifyBool ZifyNat ZifyN.
From Common Require Import Bytes Outcome.
From C08 Require Import Model ModelCD ModelSub Proofs Proofs_sub.
From C08B Require Import Model Model2 Model3 Proofs_mark.
Import ListNotations.
Local Open Scope N_scope.
Ltac Zify.zify_post_hook ::= Z.div_mod_to_equations.

Lemma mark_rec_bytes_spec marks : forall offs,
  flat_map (fun p : markrec * N => be16 (fst (fst p)) ++ be16 (snd p))
           (combine marks (mark_off_vals marks offs))
  = mark_rec_bytes marks offs.
Proof.
  induction marks as [|[c a] r IH]; intros offs; cbn [mark_off_vals combine flat_map mark_rec_bytes fst snd];
    [reflexivity|].
  rewrite IH, <- app_assoc. reflexivity.
Qed.

Lemma S_ligattach_bytes_lenN mcc l : lenN (S_ligattach_bytes mcc l) = S_ligattach_size l.
Proof.
  unfold S_ligattach_bytes, S_ligattach_size. lens. rewrite amat_size_split.
  assert (E : lenN (amat_off_vals (concat l) (2 + 2 * lenN l * mcc)) = lenN (concat l))
    by (unfold lenN; now rewrite amat_off_vals_length).
  rewrite E. lia.
Qed.

Definition lig_wf (mcc : N) (l : list (list anchor)) : bool :=
  forallb (fun row => (lenN row =? mcc) && forallb anchor_ok row) l.
Definition lig_fits (mcc : N) (l : list (list anchor)) : bool :=
  (lenN l <? 65536) && (lenN l * mcc <=? 32764) &&
  forallb (fun o => o <? 65536) (amat_off_vals (concat l) (2 + 2 * lenN l * mcc)).

Lemma rd_ligattach_ok A tail mcc l p :
  lig_wf mcc l = true -> lig_fits mcc l = true -> lenN A = p ->
  rd_ligattach (A ++ S_ligattach_bytes mcc l ++ tail) p mcc = Ok l.
Proof.
  intros Hwf Hfit HA. unfold lig_wf in Hwf. unfold lig_fits in Hfit.
  rewrite !andb_true_iff in Hfit. destruct Hfit as [[F1 F2] F3].
  assert (Hrect : Forall (fun row => lenN row = mcc) l).
  { apply Forall_forall. intros row Hin. rewrite forallb_forall in Hwf. specialize (Hwf row Hin).
    apply andb_true_iff in Hwf. destruct Hwf as [Hw _]. apply N.eqb_eq. exact Hw. }
  assert (Haok : forallb anchor_ok (concat l) = true).
  { apply forallb_concat. apply forallb_forall. intros row Hin. rewrite forallb_forall in Hwf.
    specialize (Hwf row Hin). apply andb_true_iff in Hwf. tauto. }
  assert (Hb : Forall (fun o => o <= 65535) (amat_off_vals (concat l) (2 + 2 * lenN l * mcc))).
  { apply Forall_forall. intros o Hin. rewrite forallb_forall in F3. specialize (F3 o Hin). lia. }
  unfold rd_ligattach. rewrite <- HA, seek_lenN.
  unfold S_ligattach_bytes. rewrite <- !app_assoc. cbn [be16 app].
  rewrite w16_be16_eq by lia.
  destruct (32764 <? lenN l * mcc) eqn:G; [lia|].
  assert (HA2 : lenN (A ++ be16 (lenN l)) = lenN A + 2) by (rewrite lenN_app, lenN_be16; reflexivity).
  destruct (amat_read_ok (A ++ be16 (lenN l)) tail l mcc (lenN A) Hrect Haok Hb HA2) as [Hu Hr].
  rewrite Hu. cbn [obind fst].
  rewrite <- app_assoc in Hr. cbn [be16 app] in Hr. exact Hr.
Qed.

Lemma S_ligattach_head mcc l X : lenN l < 65536 ->
  exists hi lo rest, S_ligattach_bytes mcc l ++ X = hi :: lo :: rest /\ w16 hi lo = lenN l.
Proof.
  intros H. unfold S_ligattach_bytes. rewrite <- !app_assoc. cbn [be16 app].
  do 3 eexists. split; [reflexivity|]. apply w16_be16_eq. exact H.
Qed.

Lemma rd_ligs_ok lapos tail mcc ligs : forall A off work,
  forallb (lig_wf mcc) ligs = true -> forallb (lig_fits mcc) ligs = true ->
  work + ligs_work mcc ligs <= maxLigWork ->
  lenN A = lapos + off ->
  rd_ligs (A ++ flat_map (S_ligattach_bytes mcc) ligs ++ tail) lapos mcc (S_lig_offs ligs off) work = Ok ligs.
Proof.
  induction ligs as [|l r IH]; intros A off work Hwf Hfit Hwork HA; cbn [S_lig_offs rd_ligs flat_map]; [reflexivity|].
  cbn [forallb] in Hwf, Hfit. cbn [ligs_work] in Hwork.
  apply andb_true_iff in Hwf as [Hw Hwf]. apply andb_true_iff in Hfit as [Hf Hfit].
  rewrite <- app_assoc.
  assert (Hl : lenN l < 65536).
  { unfold lig_fits in Hf. rewrite !andb_true_iff in Hf. lia. }
  destruct (S_ligattach_head mcc l (flat_map (S_ligattach_bytes mcc) r ++ tail) Hl) as (hi & lo & rest & E & Hw16).
  assert (Hseek : seek (A ++ S_ligattach_bytes mcc l ++ flat_map (S_ligattach_bytes mcc) r ++ tail) (lapos + off)
                  = hi :: lo :: rest) by (rewrite <- HA, seek_lenN; exact E).
  rewrite Hseek, Hw16.
  destruct (maxLigWork <? work + (lenN l + lenN l * mcc)) eqn:G; [lia|].
  rewrite (rd_ligattach_ok A _ mcc l (lapos + off) Hw Hf HA). cbn [obind].
  specialize (IH (A ++ S_ligattach_bytes mcc l) (off + S_ligattach_size l)
                 (work + (lenN l + lenN l * mcc)) Hwf Hfit).
  rewrite <- app_assoc in IH. rewrite IH; [reflexivity|lia|].
  rewrite lenN_app, HA, S_ligattach_bytes_lenN. lia.
Qed.

Lemma S_lig_offs_length ligs : forall off, length (S_lig_offs ligs off) = length ligs.
Proof. induction ligs as [|l r IH]; intros off; cbn [S_lig_offs length]; [reflexivity|]. now rewrite IH. Qed.

Lemma gpos51_read_spec glm gll mcc marks ligs mcb lcb pre post :
  gpos51_wf glm gll mcc marks ligs = true ->
  M_cov_encode (S_cov_table glm) = Ok mcb -> M_cov_encode (S_cov_table gll) = Ok lcb ->
  S_gpos51_fits mcb lcb mcc marks ligs = true ->
  M_gpos51_read (pre ++ S_gpos51_bytes mcb lcb mcc marks ligs ++ post) (lenN pre)
  = Ok (S_cov_pairs glm, S_cov_pairs gll, marks, ligs).
Proof.
  intros Hwf Hc1 Hc2 Hfit.
  unfold gpos51_wf in Hwf. rewrite !andb_true_iff in Hwf.
  destruct Hwf as [[[[[[[Hs1 Hg1] Hs2] Hg2] Hlm] Hll] Hmok] Hlw].
  apply Nat.eqb_eq in Hlm. apply Nat.eqb_eq in Hll.
  unfold S_gpos51_fits in Hfit. rewrite !andb_true_iff in Hfit.
  destruct Hfit as [[[[[[F1 F2] F3] F4] F4w] F5] F6].
  assert (Hmb : Forall (fun o => o <= 65535) (mark_off_vals marks (2 + 4 * lenN marks))).
  { apply Forall_forall. intros o Hin. rewrite forallb_forall in F3. specialize (F3 o Hin). lia. }
  assert (Hlo : Forall (fun x => x < 65536) (S_lig_offs ligs (2 + 2 * lenN ligs))).
  { apply Forall_forall. intros o Hin. rewrite forallb_forall in F5. specialize (F5 o Hin). lia. }
  unfold S_gpos51_bytes. rewrite mark_rec_bytes_spec.
  set (bco := 12 + lenN mcb). set (mao := bco + lenN lcb).
  set (lao := mao + (2 + 10 * lenN marks)) in *.
  set (H12 := [0; 1] ++ be16 12 ++ be16 bco ++ be16 mcc ++ be16 mao ++ be16 lao).
  set (MA := be16 (lenN marks) ++ mark_rec_bytes marks (2 + 4 * lenN marks) ++ mark_anchor_bytes marks).
  set (loffs := S_lig_offs ligs (2 + 2 * lenN ligs)) in *.
  set (LT := flat_map (S_ligattach_bytes mcc) ligs).
  set (D := pre ++ ([0; 1] ++ be16 12 ++ be16 bco ++ be16 mcc ++ be16 mao ++ be16 lao ++
                    mcb ++ lcb ++ MA ++ be16 (lenN ligs) ++ flat_map be16 loffs ++ LT) ++ post).
  assert (HH : lenN H12 = 12) by reflexivity.
  assert (Hseek : seek D (lenN pre + 2) =
                  be16 12 ++ be16 bco ++ be16 mcc ++ be16 mao ++ be16 lao ++
                  mcb ++ lcb ++ MA ++ be16 (lenN ligs) ++ flat_map be16 loffs ++ LT ++ post).
  { unfold D. rewrite <- !app_assoc. apply (seek_at pre [0; 1]). }
  unfold M_gpos51_read. rewrite Hseek. cbn [be16 app].
  rewrite !w16_be16_eq by (unfold lao, mao, bco in *; lia).
  change (w16 ((12 / 256) mod 256) (12 mod 256)) with 12.
  assert (HD1 : D = pre ++ (H12 ++ mcb) ++ (lcb ++ MA ++ be16 (lenN ligs) ++ flat_map be16 loffs ++ LT ++ post))
    by (unfold D, H12; now rewrite <- !app_assoc).
  rewrite HD1 at 1.
  rewrite (cov_at glm H12 pre _ mcb 12 Hs1 Hg1 Hc1) by (symmetry; exact HH). cbn [obind].
  assert (HD2 : D = pre ++ ((H12 ++ mcb) ++ lcb) ++ (MA ++ be16 (lenN ligs) ++ flat_map be16 loffs ++ LT ++ post))
    by (unfold D, H12; now rewrite <- !app_assoc).
  rewrite HD2 at 1.
  rewrite (cov_at gll (H12 ++ mcb) pre _ lcb bco Hs2 Hg2 Hc2) by (rewrite lenN_app, HH; reflexivity).
  cbn [obind].
  assert (Hmn : lenN marks <= 65535) by (unfold lao, mao, bco in F1; lia).
  assert (HD3 : D = (pre ++ H12 ++ mcb ++ lcb) ++ MA ++ (be16 (lenN ligs) ++ flat_map be16 loffs ++ LT ++ post))
    by (unfold D, H12; now rewrite <- !app_assoc).
  rewrite HD3 at 1. unfold MA at 1.
  rewrite (markarray_read_ok (pre ++ H12 ++ mcb ++ lcb) _ marks (lenN pre + mao) _ Hmok Hmb Hmn).
  2:{ rewrite !lenN_app, HH. unfold mao, bco. lia. }
  2:{ rewrite cov_pairs_lenN. unfold lenN. now rewrite Hlm. }
  cbn [obind].
  rewrite prune_pair_same by (unfold S_cov_pairs; rewrite cov_pairs_length; exact Hlm).
  cbn [fst snd].
  assert (HD4 : D = (pre ++ H12 ++ mcb ++ lcb ++ MA) ++ be16 (lenN ligs) ++ flat_map be16 loffs ++ LT ++ post)
    by (unfold D, H12; now rewrite <- !app_assoc).
  assert (HMA : lenN MA = 2 + 10 * lenN marks).
  { unfold MA. lens. rewrite mark_rec_bytes_lenN, mark_anchor_bytes_lenN. lia. }
  assert (Hpos4 : lenN (pre ++ H12 ++ mcb ++ lcb ++ MA) = lenN pre + lao).
  { rewrite !lenN_app, HH, HMA. unfold lao, mao, bco. lia. }
  rewrite HD4 at 1. rewrite <- Hpos4 at 1. rewrite seek_lenN. cbn [be16 app].
  rewrite w16_be16_eq by lia.
  assert (Hclip : clip_count (S_cov_pairs gll) (lenN ligs) = (lenN ligs, S_cov_pairs gll)).
  { replace (lenN ligs) with (lenN gll) by (unfold lenN; now rewrite Hll). apply clip_count_same. }
  rewrite Hclip. cbn [fst snd].
  replace (N.to_nat (lenN ligs)) with (length loffs)
    by (unfold loffs; rewrite S_lig_offs_length; symmetry; apply lenN_nat).
  rewrite rd_u16s_flat by exact Hlo. cbn [obind fst].
  assert (HD5 : D = ((pre ++ H12 ++ mcb ++ lcb ++ MA) ++ be16 (lenN ligs) ++ flat_map be16 loffs) ++ LT ++ post)
    by (unfold D, H12; now rewrite <- !app_assoc).
  rewrite HD5. unfold LT, loffs.
  rewrite rd_ligs_ok; [reflexivity| | | |].
  - exact Hlw.
  - exact F6.
  - lia.
  - rewrite !lenN_app with (a := pre ++ H12 ++ mcb ++ lcb ++ MA), Hpos4. lens.
    assert (E : lenN (S_lig_offs ligs (2 + 2 * lenN ligs)) = lenN ligs)
      by (unfold lenN; now rewrite S_lig_offs_length).
    rewrite E. lia.
Qed.
