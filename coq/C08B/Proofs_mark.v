(* C08B/Proofs_mark.v — anchors, mark arrays, anchor matrices and the
   GPOS 4.1 / 6.1 subtables: declared size = emitted size, round trip,
   refusal-or-fit. *)
From Coq Require Import List NArith ZArith Bool Lia.
From Coq Require Import ZifyBool ZifyNat ZifyN.
From Common Require Import Bytes Outcome.
From C08 Require Import Model ModelCD ModelSub Proofs Proofs_sub.
From C08B Require Import Model.
Import ListNotations.
Local Open Scope N_scope.
Ltac Zify.zify_post_hook ::= Z.div_mod_to_equations.

(* ------------------------------------------------------------------ *)
(* small helpers                                                       *)

Lemma forallb_filter_id {A} (f : A -> bool) l : forallb f l = true -> filter f l = l.
Proof.
  induction l as [|x l IH]; cbn [forallb filter]; [reflexivity|].
  intros H. apply andb_true_iff in H as [Hx Hl]. rewrite Hx, IH by exact Hl. reflexivity.
Qed.

Lemma cov_pairs_idx_bound gl : forall i,
  forallb (fun p => snd p <? i + lenN gl) (S_cov_pairs_from gl i) = true.
Proof.
  induction gl as [|g r IH]; intros i; cbn [S_cov_pairs_from forallb snd]; [reflexivity|].
  apply andb_true_iff. split.
  - rewrite lenN_cons. apply N.ltb_lt. lia.
  - specialize (IH (i + 1)). rewrite lenN_cons.
    replace (i + (1 + lenN r)) with (i + 1 + lenN r) by lia. exact IH.
Qed.

Lemma cov_pairs_lenN gl : lenN (S_cov_pairs gl) = lenN gl.
Proof. unfold lenN, S_cov_pairs. now rewrite cov_pairs_length. Qed.

Lemma cov_prune_all gl : cov_prune (lenN gl) (S_cov_pairs gl) = S_cov_pairs gl.
Proof.
  unfold cov_prune. apply forallb_filter_id.
  pose proof (cov_pairs_idx_bound gl 0) as H. rewrite N.add_0_l in H. exact H.
Qed.

(* count == len(cov): the count is kept, Prune(count) removes nothing *)
Lemma clip_count_same gl : clip_count (S_cov_pairs gl) (lenN gl) = (lenN gl, S_cov_pairs gl).
Proof.
  unfold clip_count. rewrite cov_pairs_lenN, N.ltb_irrefl, cov_prune_all. reflexivity.
Qed.

Lemma seek_lenN pre l : seek (pre ++ l) (lenN pre) = l.
Proof. unfold lenN. apply seek_app. Qed.

Lemma lenN_nat {A} (l : list A) : N.to_nat (lenN l) = length l.
Proof. unfold lenN. apply Nnat.Nat2N.id. Qed.

Lemma a_empty_zero a : a_empty a = true -> a = a_zero.
Proof.
  destruct a as [x y]. unfold a_empty, a_zero. cbn [fst snd]. intros H.
  apply andb_true_iff in H as [Hx Hy]. f_equal; lia.
Qed.

Lemma anchor_bytes_lenN a : lenN (anchor_bytes a) = 6.
Proof. reflexivity. Qed.

(* ------------------------------------------------------------------ *)
(* anchor.Read (anchor.Append a) = a                                   *)

Lemma anchor_read_bytes A a tail p :
  anchor_ok a = true -> lenN A = p ->
  M_anchor_read (A ++ anchor_bytes a ++ tail) p = Ok a.
Proof.
  intros Hok <-. unfold M_anchor_read. rewrite seek_lenN.
  destruct a as [x y]. unfold anchor_ok, i16_ok in Hok. cbn [fst snd] in Hok.
  unfold anchor_bytes. cbn [fst snd app be16].
  change (w16 0 1) with 1. cbn [N.eqb N.ltb orb].
  change ((1 =? 0) || (3 <? 1)) with false. cbv iota.
  rewrite !w16_be16_eq by apply of_i16_bound.
  rewrite !to_i16_of_i16 by lia. reflexivity.
Qed.

(* ------------------------------------------------------------------ *)
(* mark arrays                                                         *)

Fixpoint mark_rec_bytes (marks : list markrec) (offs : N) : list N :=
  match marks with
  | [] => []
  | (c, _) :: r => be16 c ++ be16 offs ++ mark_rec_bytes r (offs + 6)
  end.

Lemma mark_recs_ok g marks : forall offs mr,
  mark_recs g marks offs = Ok mr ->
  mr = mark_rec_bytes marks offs /\
  (g = true -> Forall (fun o => o <= 65535) (mark_off_vals marks offs)).
Proof.
  induction marks as [|[c a] r IH]; intros offs mr; cbn [mark_recs mark_rec_bytes mark_off_vals].
  - intros H. apply ok_inj in H. subst mr. split; [reflexivity|constructor].
  - destruct (g && (65535 <? offs)) eqn:Hg; [discriminate|].
    destruct (mark_recs g r (offs + 6)) as [tl| | |] eqn:E; cbn [obind]; try discriminate.
    intros H. apply ok_inj in H. subst mr.
    destruct (IH _ _ E) as [-> Hb]. split; [reflexivity|].
    intros ->. constructor; [cbn [andb] in Hg; lia|apply Hb; reflexivity].
Qed.

(* without the guard the loop cannot fail *)
Lemma mark_recs_unguarded marks : forall offs,
  mark_recs false marks offs = Ok (mark_rec_bytes marks offs).
Proof.
  induction marks as [|[c a] r IH]; intros offs; cbn [mark_recs mark_rec_bytes andb]; [reflexivity|].
  rewrite IH. reflexivity.
Qed.

Lemma mark_rec_bytes_lenN marks : forall offs, lenN (mark_rec_bytes marks offs) = 4 * lenN marks.
Proof.
  induction marks as [|[c a] r IH]; intros offs; cbn [mark_rec_bytes]; [reflexivity|].
  lens. rewrite IH. lia.
Qed.

Lemma mark_anchor_bytes_lenN marks : lenN (mark_anchor_bytes marks) = 6 * lenN marks.
Proof.
  unfold mark_anchor_bytes.
  induction marks as [|m r IH]; cbn [flat_map]; [reflexivity|].
  rewrite lenN_app, IH, anchor_bytes_lenN, lenN_cons. lia.
Qed.

Lemma rd_markrecs_ok marks : forall offs rest,
  forallb mark_ok marks = true ->
  Forall (fun o => o <= 65535) (mark_off_vals marks offs) ->
  rd_markrecs (length marks) (mark_rec_bytes marks offs ++ rest)
  = Ok (combine (map fst marks) (mark_off_vals marks offs)).
Proof.
  induction marks as [|[c a] r IH]; intros offs rest Hok Hb;
    cbn [length rd_markrecs mark_rec_bytes mark_off_vals map combine fst app]; [reflexivity|].
  cbn [forallb] in Hok. apply andb_true_iff in Hok as [Hm Hok].
  unfold mark_ok in Hm. cbn [fst snd] in Hm. apply andb_true_iff in Hm as [Hc _].
  apply Forall_cons_iff in Hb. destruct Hb as [Ho Hb].
  rewrite <- !app_assoc. cbn [be16 app].
  rewrite (IH (offs + 6) rest Hok Hb). cbn [obind].
  rewrite !w16_be16_eq by lia. reflexivity.
Qed.

Lemma rd_mark_anchors_ok pos tail marks : forall A off,
  forallb mark_ok marks = true -> lenN A = pos + off ->
  rd_mark_anchors (A ++ mark_anchor_bytes marks ++ tail) pos
                  (combine (map fst marks) (mark_off_vals marks off)) = Ok marks.
Proof.
  unfold mark_anchor_bytes.
  induction marks as [|[c a] r IH]; intros A off Hok HA;
    cbn [map fst mark_off_vals combine rd_mark_anchors flat_map snd]; [reflexivity|].
  cbn [forallb] in Hok. apply andb_true_iff in Hok as [Hm Hok].
  unfold mark_ok in Hm. cbn [fst snd] in Hm. apply andb_true_iff in Hm as [_ Ha].
  rewrite <- app_assoc.
  rewrite (anchor_read_bytes A a _ (pos + off) Ha HA). cbn [obind].
  specialize (IH (A ++ anchor_bytes a) (off + 6) Hok).
  rewrite <- app_assoc in IH. rewrite IH; [reflexivity|].
  rewrite lenN_app, HA, anchor_bytes_lenN. lia.
Qed.

Lemma markarray_read_ok A tail marks p n :
  forallb mark_ok marks = true ->
  Forall (fun o => o <= 65535) (mark_off_vals marks (2 + 4 * lenN marks)) ->
  lenN marks <= 65535 -> lenN A = p -> n = lenN marks ->
  M_markarray_read
    (A ++ (be16 (lenN marks) ++ mark_rec_bytes marks (2 + 4 * lenN marks) ++ mark_anchor_bytes marks) ++ tail)
    p n = Ok marks.
Proof.
  intros Hok Hb Hn HA ->. unfold M_markarray_read.
  rewrite <- HA. rewrite seek_lenN. rewrite <- !app_assoc. cbn [be16 app].
  rewrite w16_be16_eq by lia. rewrite N.ltb_irrefl. rewrite lenN_nat.
  rewrite (rd_markrecs_ok marks _ _ Hok Hb). cbn [obind].
  change ((lenN marks / 256) mod 256 :: lenN marks mod 256 :: ?x) with (be16 (lenN marks) ++ x).
  set (R := mark_rec_bytes marks (2 + 4 * lenN marks)).
  replace (A ++ be16 (lenN marks) ++ R ++ mark_anchor_bytes marks ++ tail)
    with ((A ++ be16 (lenN marks) ++ R) ++ mark_anchor_bytes marks ++ tail)
    by (now rewrite <- !app_assoc).
  apply rd_mark_anchors_ok; [exact Hok|].
  unfold R. lens. rewrite mark_rec_bytes_lenN. lia.
Qed.

(* ------------------------------------------------------------------ *)
(* anchor matrices (base array, mark2 array, component records)        *)

Lemma amat_offs_ok g l : forall offs bo,
  amat_offs g l offs = Ok bo ->
  bo = flat_map be16 (amat_off_vals l offs) /\
  (g = true -> Forall (fun o => o <= 65535) (amat_off_vals l offs)).
Proof.
  induction l as [|a r IH]; intros offs bo; cbn [amat_offs amat_off_vals].
  - intros H. apply ok_inj in H. subst bo. split; [reflexivity|constructor].
  - destruct (a_empty a).
    + destruct (amat_offs g r offs) as [tl| | |] eqn:E; cbn [obind]; try discriminate.
      intros H. apply ok_inj in H. subst bo. destruct (IH _ _ E) as [-> Hb].
      split; [reflexivity|]. intros Hg. constructor; [lia|apply Hb; exact Hg].
    + destruct (g && (65535 <? offs)) eqn:Hg; [discriminate|].
      destruct (amat_offs g r (offs + 6)) as [tl| | |] eqn:E; cbn [obind]; try discriminate.
      intros H. apply ok_inj in H. subst bo. destruct (IH _ _ E) as [-> Hb].
      split; [reflexivity|]. intros ->. constructor; [cbn [andb] in Hg; lia|apply Hb; reflexivity].
Qed.

Lemma amat_offs_unguarded l : forall offs,
  amat_offs false l offs = Ok (flat_map be16 (amat_off_vals l offs)).
Proof.
  induction l as [|a r IH]; intros offs; cbn [amat_offs amat_off_vals andb]; [reflexivity|].
  destruct (a_empty a); rewrite IH; reflexivity.
Qed.

Lemma amat_off_vals_length l : forall offs, length (amat_off_vals l offs) = length l.
Proof.
  induction l as [|a r IH]; intros offs; cbn [amat_off_vals]; [reflexivity|].
  destruct (a_empty a); cbn [length]; now rewrite IH.
Qed.

Lemma amat_size_split l : amat_size l = 2 * lenN l + lenN (amat_anchors l).
Proof.
  unfold amat_anchors.
  induction l as [|a r IH]; cbn [amat_size flat_map]; [reflexivity|].
  rewrite lenN_app, lenN_cons, IH. destruct (a_empty a); [rewrite lenN_nil|rewrite anchor_bytes_lenN]; lia.
Qed.

(* reading a whole matrix, flattened: the offsets lead to the anchors *)
Lemma rd_anchor_row_ok apos tail l : forall A off,
  forallb anchor_ok l = true -> 0 < off -> lenN A = apos + off ->
  rd_anchor_row (A ++ amat_anchors l ++ tail) apos (amat_off_vals l off) = Ok l.
Proof.
  unfold amat_anchors.
  induction l as [|a r IH]; intros A off Hok Hoff HA; cbn [amat_off_vals flat_map]; [reflexivity|].
  cbn [forallb] in Hok. apply andb_true_iff in Hok as [Ha Hok].
  destruct (a_empty a) eqn:He; cbn [rd_anchor_row app].
  - change (0 =? 0) with true. cbv iota. cbn [obind].
    rewrite (IH A off Hok Hoff HA). cbn [obind]. now rewrite (a_empty_zero a He).
  - destruct (N.eqb_spec off 0) as [H0|_]; [lia|].
    rewrite <- app_assoc.
    rewrite (anchor_read_bytes A a _ (apos + off) Ha HA). cbn [obind].
    specialize (IH (A ++ anchor_bytes a) (off + 6) Hok).
    rewrite <- app_assoc in IH. rewrite IH; [reflexivity|lia|].
    rewrite lenN_app, HA, anchor_bytes_lenN. lia.
Qed.

Lemma rd_anchor_row_split data apos o1 : forall o2 l,
  rd_anchor_row data apos (o1 ++ o2) = Ok l ->
  rd_anchor_row data apos o1 = Ok (firstn (length o1) l) /\
  rd_anchor_row data apos o2 = Ok (skipn (length o1) l).
Proof.
  induction o1 as [|o r IH]; intros o2 l; cbn [app length firstn skipn rd_anchor_row].
  - intros H. split; [reflexivity|exact H].
  - destruct (if o =? 0 then Ok a_zero else M_anchor_read data (apos + o)) as [a| | |];
      cbn [obind]; try discriminate.
    destruct (rd_anchor_row data apos (r ++ o2)) as [tl| | |] eqn:E; cbn [obind]; try discriminate.
    intros H. apply ok_inj in H. subst l. destruct (IH _ _ E) as [H1 H2].
    cbn [firstn skipn]. rewrite H1, H2. cbn [obind]. split; reflexivity.
Qed.

Lemma rd_rows_ok data apos mcc (base : list (list anchor)) : forall offs,
  Forall (fun row => length row = mcc) base ->
  length offs = length (concat base) ->
  rd_anchor_row data apos offs = Ok (concat base) ->
  rd_rows data apos (length base) mcc offs = Ok base.
Proof.
  induction base as [|row rest IH]; intros offs Hrect Hlen Hrd; cbn [length rd_rows]; [reflexivity|].
  apply Forall_cons_iff in Hrect. destruct Hrect as [Hrow Hrect].
  cbn [concat] in Hlen, Hrd. rewrite app_length in Hlen.
  destruct (Nat.ltb_spec (length offs) mcc) as [Hlt|Hge]; [lia|].
  rewrite <- (firstn_skipn mcc offs) in Hrd.
  apply rd_anchor_row_split in Hrd. destruct Hrd as [H1 H2].
  rewrite firstn_length, Nat.min_l in H1, H2 by lia.
  assert (E1 : firstn mcc (row ++ concat rest) = row).
  { rewrite <- Hrow. rewrite firstn_app, Nat.sub_diag, firstn_all. cbn [firstn]. apply app_nil_r. }
  assert (E2 : skipn mcc (row ++ concat rest) = concat rest).
  { rewrite <- Hrow. rewrite skipn_app, Nat.sub_diag, skipn_all. reflexivity. }
  rewrite E1 in H1. rewrite E2 in H2.
  rewrite H1. cbn [obind]. rewrite (IH (skipn mcc offs) Hrect); [reflexivity| |exact H2].
  rewrite skipn_length. lia.
Qed.

Lemma concat_lenN_rect {A} (base : list (list A)) mcc :
  Forall (fun row => lenN row = mcc) base -> lenN (concat base) = lenN base * mcc.
Proof.
  induction base as [|row rest IH]; intros H; cbn [concat]; [reflexivity|].
  apply Forall_cons_iff in H. destruct H as [Hr H].
  rewrite lenN_app, lenN_cons, IH, Hr by exact H. lia.
Qed.

Lemma forallb_concat {A} (f : A -> bool) (ll : list (list A)) :
  forallb (forallb f) ll = true -> forallb f (concat ll) = true.
Proof.
  induction ll as [|l r IH]; cbn [forallb concat]; [reflexivity|].
  intros H. apply andb_true_iff in H as [H1 H2]. rewrite forallb_app, H1, IH by exact H2. reflexivity.
Qed.

(* the array that starts at [p] (count at p, offsets at p+2, then anchors) *)
Lemma amat_read_ok A tail (base : list (list anchor)) mcc p :
  Forall (fun row => lenN row = mcc) base ->
  forallb anchor_ok (concat base) = true ->
  Forall (fun o => o <= 65535) (amat_off_vals (concat base) (2 + 2 * lenN base * mcc)) ->
  lenN A = p + 2 ->
  let offs := amat_off_vals (concat base) (2 + 2 * lenN base * mcc) in
  let D := A ++ flat_map be16 offs ++ amat_anchors (concat base) ++ tail in
  rd_u16s (N.to_nat (lenN base * mcc)) (flat_map be16 offs ++ amat_anchors (concat base) ++ tail)
    = Ok (offs, amat_anchors (concat base) ++ tail) /\
  rd_rows D p (N.to_nat (lenN base)) (N.to_nat mcc) offs = Ok base.
Proof.
  intros Hrect Hok Hb HA offs D.
  assert (Hlen : length offs = length (concat base)) by apply amat_off_vals_length.
  assert (Hcl : lenN (concat base) = lenN base * mcc) by (apply concat_lenN_rect; exact Hrect).
  split.
  - replace (N.to_nat (lenN base * mcc)) with (length offs)
      by (rewrite Hlen, <- Hcl; symmetry; apply lenN_nat).
    apply rd_u16s_flat. eapply Forall_impl; [|exact Hb]. cbv beta. intros; lia.
  - rewrite lenN_nat. apply rd_rows_ok.
    + eapply Forall_impl; [|exact Hrect]. cbv beta. intros row Hr.
      rewrite <- Hr. symmetry. apply lenN_nat.
    + exact Hlen.
    + unfold D.
      replace (A ++ flat_map be16 offs ++ amat_anchors (concat base) ++ tail)
        with ((A ++ flat_map be16 offs) ++ amat_anchors (concat base) ++ tail)
        by (now rewrite <- app_assoc).
      apply rd_anchor_row_ok; [exact Hok|lia|].
      lens. unfold lenN at 2. rewrite Hlen. fold (lenN (concat base)). rewrite Hcl. lia.
Qed.

(* ------------------------------------------------------------------ *)
(* GPOS 4.1 / 6.1: encodeLen = |encode|                                *)

Lemma markbase_len_agrees g gc mcov bcov marks base b :
  keys_ok mcov = true -> keys_ok bcov = true ->
  M_markbase_encode g gc mcov bcov marks base = Ok b ->
  M_markbase_len mcov bcov marks base = Ok (lenN b).
Proof.
  intros Hk1 Hk2. unfold M_markbase_encode, M_markbase_len.
  destruct (M_cov_encode mcov) as [mcb| | |] eqn:Hc1; cbn [obind]; try discriminate.
  destruct (M_cov_encode bcov) as [bcb| | |] eqn:Hc2; cbn [obind]; try discriminate.
  destruct (_ || _); [discriminate|].
  destruct (mark_recs g marks _) as [mr| | |] eqn:Hm; cbn [obind]; try discriminate.
  destruct (amat_offs g (concat base) _) as [bo| | |] eqn:Hb; cbn [obind]; try discriminate.
  intros H. apply ok_inj in H. subst b.
  rewrite (cov_len_agrees _ _ Hk1 Hc1), (cov_len_agrees _ _ Hk2 Hc2). cbn [obind]. f_equal.
  apply mark_recs_ok in Hm. destruct Hm as [-> _].
  apply amat_offs_ok in Hb. destruct Hb as [-> _].
  lens. rewrite mark_rec_bytes_lenN, mark_anchor_bytes_lenN, amat_size_split.
  assert (E : lenN (amat_off_vals (concat base) (2 + 2 * lenN base * count_mark_classes marks base))
              = lenN (concat base)) by (unfold lenN; now rewrite amat_off_vals_length).
  rewrite E. fold (lenN mcb) (lenN bcb). lia.
Qed.

(* ------------------------------------------------------------------ *)
(* well-formedness, unpacked                                           *)

Lemma markbase_wf_facts glm glb marks base :
  markbase_wf glm glb marks base = true ->
  strictly_inc glm = true /\ glyphs_ok glm = true /\ strictly_inc glb = true /\ glyphs_ok glb = true /\
  length marks = length glm /\ length base = length glb /\
  forallb mark_ok marks = true /\
  Forall (fun row => lenN row = count_mark_classes marks base) base /\
  forallb anchor_ok (concat base) = true.
Proof.
  unfold markbase_wf. intros H. rewrite !andb_true_iff in H.
  destruct H as [[[[[[[H1 H2] H3] H4] H5] H6] H7] H8].
  rewrite forallb_forall in H8.
  repeat split; try assumption; try (apply Nat.eqb_eq; assumption).
  - apply Forall_forall. intros row Hin. specialize (H8 row Hin).
    apply andb_true_iff in H8. destruct H8 as [H8 _]. apply N.eqb_eq. exact H8.
  - apply forallb_concat. apply forallb_forall. intros row Hin. specialize (H8 row Hin).
    apply andb_true_iff in H8. destruct H8 as [_ H8]. exact H8.
Qed.

(* ------------------------------------------------------------------ *)
(* GPOS 4.1 / 6.1: round trip                                          *)

Lemma markbase_roundtrip glm glb marks base b pre post :
  markbase_wf glm glb marks base = true ->
  M_markbase_encode true true (S_cov_table glm) (S_cov_table glb) marks base = Ok b ->
  M_markbase_read (pre ++ b ++ post) (lenN pre)
  = Ok (S_cov_pairs glm, S_cov_pairs glb, marks, base).
Proof.
  intros Hwf. apply markbase_wf_facts in Hwf.
  destruct Hwf as (Hs1 & Hg1 & Hs2 & Hg2 & Hlm & Hlb & Hmok & Hrect & Haok).
  unfold M_markbase_encode.
  destruct (M_cov_encode (S_cov_table glm)) as [mcb| | |] eqn:Hc1; cbn [obind]; try discriminate.
  destruct (M_cov_encode (S_cov_table glb)) as [bcb| | |] eqn:Hc2; cbn [obind]; try discriminate.
  set (mcc := count_mark_classes marks base) in *.
  set (bco := 12 + lenN mcb). set (mao := bco + lenN bcb).
  set (bao := mao + (2 + 10 * lenN marks)).
  cbn [andb].
  destruct ((65535 <? bao) || (32764 <? lenN base * mcc) || ((65535 <? mcc) || (65535 <? lenN base))) eqn:Hguard; [discriminate|].
  apply orb_false_iff in Hguard. destruct Hguard as [Hguard Hmcc].
  apply orb_false_iff in Hmcc. destruct Hmcc as [Hmcc Hbn0].
  apply orb_false_iff in Hguard. destruct Hguard as [Hbao Hnum].
  destruct (mark_recs true marks _) as [mr| | |] eqn:Hm; cbn [obind]; try discriminate.
  destruct (amat_offs true (concat base) _) as [bo| | |] eqn:Hb; cbn [obind]; try discriminate.
  intros H. apply ok_inj in H. subst b.
  apply mark_recs_ok in Hm. destruct Hm as [-> Hmb]. specialize (Hmb eq_refl).
  apply amat_offs_ok in Hb. destruct Hb as [-> Hbb]. specialize (Hbb eq_refl).
  set (H12 := [0; 1] ++ be16 12 ++ be16 bco ++ be16 mcc ++ be16 mao ++ be16 bao).
  set (MA := be16 (lenN marks) ++ mark_rec_bytes marks (2 + 4 * lenN marks) ++ mark_anchor_bytes marks).
  set (offs := amat_off_vals (concat base) (2 + 2 * lenN base * mcc)).
  set (BAt := flat_map be16 offs ++ amat_anchors (concat base)).
  set (D := pre ++ ([0; 1] ++ be16 12 ++ be16 bco ++ be16 mcc ++ be16 mao ++ be16 bao ++
                    mcb ++ bcb ++ MA ++ be16 (lenN base) ++ BAt) ++ post).
  assert (HH : lenN H12 = 12) by reflexivity.
  (* the header *)
  assert (Hseek : seek D (lenN pre + 2) =
                  be16 12 ++ be16 bco ++ be16 mcc ++ be16 mao ++ be16 bao ++
                  mcb ++ bcb ++ MA ++ be16 (lenN base) ++ BAt ++ post).
  { unfold D. rewrite <- !app_assoc. apply (seek_at pre [0; 1]). }
  unfold M_markbase_read. rewrite Hseek. cbn [be16 app].
  rewrite !w16_be16_eq by lia.
  change (w16 ((12 / 256) mod 256) (12 mod 256)) with 12.
  (* mark coverage at 12 *)
  assert (HD1 : D = pre ++ (H12 ++ mcb) ++ (bcb ++ MA ++ be16 (lenN base) ++ BAt ++ post))
    by (unfold D, H12; now rewrite <- !app_assoc).
  rewrite HD1 at 1.
  rewrite (cov_at glm H12 pre _ mcb 12 Hs1 Hg1 Hc1) by (symmetry; exact HH). cbn [obind].
  (* base coverage at bco *)
  assert (HD2 : D = pre ++ ((H12 ++ mcb) ++ bcb) ++ (MA ++ be16 (lenN base) ++ BAt ++ post))
    by (unfold D, H12; now rewrite <- !app_assoc).
  rewrite HD2 at 1.
  rewrite (cov_at glb (H12 ++ mcb) pre _ bcb bco Hs2 Hg2 Hc2)
    by (rewrite lenN_app, HH; reflexivity).
  cbn [obind].
  (* mark array at mao *)
  assert (Hmn : lenN marks <= 65535) by (unfold bao, mao, bco in Hbao; lia).
  assert (HD3 : D = (pre ++ H12 ++ mcb ++ bcb) ++ MA ++ (be16 (lenN base) ++ BAt ++ post))
    by (unfold D, H12; now rewrite <- !app_assoc).
  rewrite HD3 at 1. unfold MA at 1.
  rewrite (markarray_read_ok (pre ++ H12 ++ mcb ++ bcb) _ marks (lenN pre + mao) _ Hmok Hmb Hmn).
  2:{ rewrite !lenN_app, HH. unfold mao, bco. lia. }
  2:{ rewrite cov_pairs_lenN. unfold lenN. now rewrite Hlm. }
  cbn [obind].
  rewrite prune_pair_same by (unfold S_cov_pairs; rewrite cov_pairs_length; exact Hlm).
  cbn [fst snd].
  (* base array at bao *)
  assert (HD4 : D = (pre ++ H12 ++ mcb ++ bcb ++ MA) ++ be16 (lenN base) ++ BAt ++ post)
    by (unfold D, H12; now rewrite <- !app_assoc).
  assert (HMA : lenN MA = 2 + 10 * lenN marks).
  { unfold MA. lens. rewrite mark_rec_bytes_lenN, mark_anchor_bytes_lenN. lia. }
  assert (Hpos4 : lenN (pre ++ H12 ++ mcb ++ bcb ++ MA) = lenN pre + bao).
  { rewrite !lenN_app, HH, HMA. unfold bao, mao, bco. lia. }
  rewrite HD4 at 1. rewrite <- Hpos4 at 1. rewrite seek_lenN.
  cbn [be16 app].
  assert (Hbn : lenN base <= 65535) by lia.
  rewrite w16_be16_eq by lia.
  assert (Hclip : clip_count (S_cov_pairs glb) (lenN base) = (lenN base, S_cov_pairs glb)).
  { replace (lenN base) with (lenN glb) by (unfold lenN; now rewrite Hlb). apply clip_count_same. }
  rewrite Hclip. cbn [fst snd].
  destruct (32764 <? lenN base * mcc) eqn:Hn2; [discriminate|].
  unfold BAt. rewrite <- app_assoc.
  assert (HA4 : lenN ((pre ++ H12 ++ mcb ++ bcb ++ MA) ++ be16 (lenN base)) = lenN pre + bao + 2)
    by (rewrite lenN_app, Hpos4, lenN_be16; reflexivity).
  destruct (amat_read_ok ((pre ++ H12 ++ mcb ++ bcb ++ MA) ++ be16 (lenN base)) post base mcc
                         (lenN pre + bao) Hrect Haok Hbb HA4) as [Hu Hr].
  fold offs in Hu, Hr. rewrite Hu. cbn [obind fst].
  assert (HD5 : D = ((pre ++ H12 ++ mcb ++ bcb ++ MA) ++ be16 (lenN base)) ++
                    flat_map be16 offs ++ amat_anchors (concat base) ++ post)
    by (unfold D, H12, BAt; now rewrite <- !app_assoc).
  rewrite HD5, Hr. reflexivity.
Qed.

(* ------------------------------------------------------------------ *)
(* GPOS 4.1 / 6.1: refuses loudly or every 16-bit field holds its value *)

Lemma mark_off_vals_mono marks : forall offs,
  Forall (fun o => o <= 65535) (mark_off_vals marks offs) -> marks <> [] -> offs <= 65535.
Proof.
  intros offs H Hne. destruct marks as [|m r]; [congruence|].
  cbn [mark_off_vals] in H. apply Forall_cons_iff in H. tauto.
Qed.

Lemma markbase_refuses_or_fits glm glb marks base :
  markbase_wf glm glb marks base = true ->
  M_markbase_encode true true (S_cov_table glm) (S_cov_table glb) marks base = Panic \/
  exists mcb bcb b,
    M_cov_encode (S_cov_table glm) = Ok mcb /\ M_cov_encode (S_cov_table glb) = Ok bcb /\
    M_markbase_encode true true (S_cov_table glm) (S_cov_table glb) marks base = Ok b /\
    Forall (fun v => v <= 65535) (markbase_fields mcb bcb marks base).
Proof.
  intros Hwf. apply markbase_wf_facts in Hwf.
  destruct Hwf as (Hs1 & Hg1 & Hs2 & Hg2 & Hlm & Hlb & Hmok & Hrect & Haok).
  destruct (cov_roundtrip glm [] [] Hs1 Hg1) as (mcb & Hc1 & _).
  destruct (cov_roundtrip glb [] [] Hs2 Hg2) as (bcb & Hc2 & _).
  unfold M_markbase_encode. rewrite Hc1, Hc2. cbn [obind andb].
  set (mcc := count_mark_classes marks base).
  set (bco := 12 + lenN mcb). set (mao := bco + lenN bcb).
  set (bao := mao + (2 + 10 * lenN marks)).
  destruct ((65535 <? bao) || (32764 <? lenN base * mcc) || ((65535 <? mcc) || (65535 <? lenN base))) eqn:Hguard; [left; reflexivity|].
  apply orb_false_iff in Hguard. destruct Hguard as [Hguard Hmcc].
  apply orb_false_iff in Hmcc. destruct Hmcc as [Hmcc Hbn0].
  apply orb_false_iff in Hguard. destruct Hguard as [Hbao Hnum].
  destruct (mark_recs true marks _) as [mr| | |] eqn:Hm; cbn [obind].
  2:{ exfalso. revert Hm. generalize (2 + 4 * lenN marks). clear.
      induction marks as [|[c a] r IH]; intros o; cbn [mark_recs]; [discriminate|].
      destruct (true && _); [discriminate|].
      destruct (mark_recs true r (o + 6)) eqn:E; cbn [obind]; try discriminate.
      intros _. exact (IH _ E). }
  2:{ left; reflexivity. }
  2:{ exfalso. revert Hm. generalize (2 + 4 * lenN marks). clear.
      induction marks as [|[c a] r IH]; intros o; cbn [mark_recs]; [discriminate|].
      destruct (true && _); [discriminate|].
      destruct (mark_recs true r (o + 6)) eqn:E; cbn [obind]; try discriminate.
      intros _. exact (IH _ E). }
  destruct (amat_offs true (concat base) _) as [bo| | |] eqn:Hb; cbn [obind].
  2:{ exfalso. revert Hb. generalize (2 + 2 * lenN base * mcc). generalize (concat base). clear.
      induction l as [|a r IH]; intros o; cbn [amat_offs]; [discriminate|].
      destruct (a_empty a).
      - destruct (amat_offs true r o) eqn:E; cbn [obind]; try discriminate. intros _. exact (IH _ E).
      - destruct (true && _); [discriminate|].
        destruct (amat_offs true r (o + 6)) eqn:E; cbn [obind]; try discriminate. intros _. exact (IH _ E). }
  2:{ left; reflexivity. }
  2:{ exfalso. revert Hb. generalize (2 + 2 * lenN base * mcc). generalize (concat base). clear.
      induction l as [|a r IH]; intros o; cbn [amat_offs]; [discriminate|].
      destruct (a_empty a).
      - destruct (amat_offs true r o) eqn:E; cbn [obind]; try discriminate. intros _. exact (IH _ E).
      - destruct (true && _); [discriminate|].
        destruct (amat_offs true r (o + 6)) eqn:E; cbn [obind]; try discriminate. intros _. exact (IH _ E). }
  right. exists mcb, bcb. eexists. repeat split; try reflexivity.
  apply mark_recs_ok in Hm. destruct Hm as [_ Hmb]. specialize (Hmb eq_refl).
  apply amat_offs_ok in Hb. destruct Hb as [_ Hbb]. specialize (Hbb eq_refl).
  unfold markbase_fields. fold mcc bco mao bao.
  assert (Hbn : lenN base <= 65535) by lia.
  repeat (apply Forall_cons; [unfold bao, mao, bco in *; lia|]).
  apply Forall_app. split; [exact Hmb|].
  apply Forall_cons; [exact Hbn|exact Hbb].
Qed.

(* the code as it was found: gpos6.go had no guard at all, gpos4.go none for
   the class count; then a field can be written truncated *)
Lemma markbase_unguarded_total mcov bcov marks base mcb bcb :
  M_cov_encode mcov = Ok mcb -> M_cov_encode bcov = Ok bcb ->
  exists b, M_markbase_encode false false mcov bcov marks base = Ok b.
Proof.
  intros H1 H2. unfold M_markbase_encode. rewrite H1, H2. cbn [obind andb orb].
  rewrite mark_recs_unguarded, amat_offs_unguarded. cbn [obind]. eexists. reflexivity.
Qed.
