(* C08B/Model2.v — executable models of GPOS 2.2 (class pair adjustment,
   gpos.go: Gpos2_2.encodeLen / encode, readGpos2_2) and GPOS 3.1 (cursive
   attachment, gpos.go: Gpos3_1.encodeLen / encode, readGpos3_1).

   Both encoders were found without any check of their 16-bit offsets; the
   switch [g] selects the code with the loud refusals of
   fixes/C08-gpos22-gpos31-offset-guards.diff (g = true: the code as it is
   now) or the code as it was found (g = false).

   A Gpos2_2 value: Cov (coverage.Set) = strictly increasing glyph list;
   Class1, Class2 (classdef.Table) = entries sorted by gid; Adjust
   ([][]*PairAdjust, entries non-nil) = rows of (First, Second) value records,
   nil = None. *)
From Coq Require Import List NArith ZArith Bool Lia.
From Common Require Import Bytes Outcome.
From C08 Require Import Model ModelCD ModelSub ModelSub2.
From C08B Require Import Model.
Import ListNotations.
Local Open Scope N_scope.

(* ------------------------------------------------------------------ *)
(* GPOS 2.2                                                            *)

(* valueFormat1 |= v.First.getFormat(); valueFormat2 |= v.Second.getFormat() over all rows *)
Definition g22_vf1 (adj : list (list vr2)) : N := vr_union (map fst (concat adj)).
Definition g22_vf2 (adj : list (list vr2)) : N := vr_union (map snd (concat adj)).

Definition g22_c1 (adj : list (list vr2)) : N := lenN adj.
(* if class1Count > 0 { class2Count = len(l.Adjust[0]) } *)
Definition g22_c2 (adj : list (list vr2)) : N :=
  match adj with row :: _ => lenN row | [] => 0 end.

Definition g22_reclen (adj : list (list vr2)) : N :=
  M_vr_encode_len (g22_vf1 adj) + M_vr_encode_len (g22_vf2 adj).

Definition M_gpos22_len (gl : list N) (cd1 cd2 : list (N * N)) (adj : list (list vr2)) : outcome N :=
  n <- M_cov_encode_len (S_cov_table gl) ;;
  Ok (16 + g22_c1 adj * g22_c2 adj * g22_reclen adj + n + M_cd_append_len cd1 + M_cd_append_len cd2).

Definition vr2_bytes (f1 f2 : N) (p : vr2) : list N :=
  M_vr_encode f1 (fst p) ++ M_vr_encode f2 (snd p).

Definition M_gpos22_encode_g (g : bool) (gl : list N) (cd1 cd2 : list (N * N))
           (adj : list (list vr2)) : outcome (list N) :=
  let f1 := g22_vf1 adj in
  let f2 := g22_vf2 adj in
  let c1 := g22_c1 adj in
  let c2 := g22_c2 adj in
  cb <- M_cov_encode (S_cov_table gl) ;;         (* total += l.Cov.ToTable().EncodeLen() *)
  let covOff := 16 + c1 * c2 * g22_reclen adj in
  let cd1Off := covOff + lenN cb in
  let cd2Off := cd1Off + M_cd_append_len cd1 in
  if g && ((65535 <? cd2Off) || (65535 <? c1) || (65535 <? c2) || (65535 <? c1 * c2)) then Panic
  else
    d1 <- M_cd_append cd1 ;;
    d2 <- M_cd_append cd2 ;;
    Ok ([0; 2] ++ be16 covOff ++ be16 f1 ++ be16 f2 ++ be16 cd1Off ++ be16 cd2Off ++
        be16 c1 ++ be16 c2 ++
        flat_map (vr2_bytes f1 f2) (concat adj) ++ cb ++ d1 ++ d2).

Definition M_gpos22_encode := M_gpos22_encode_g true.
Definition M_gpos22_encode_found := M_gpos22_encode_g false.

(* records[i] = &PairAdjust{First: readValueRecord(vf1), Second: readValueRecord(vf2)} *)
Fixpoint rd_vr2s (n : nat) (f1 f2 : N) (r : list N) : outcome (list vr2 * list N) :=
  match n with
  | O => Ok ([], r)
  | S n' =>
    x1 <- M_vr_read f1 r ;;
    x2 <- M_vr_read f2 (snd x1) ;;
    tl <- rd_vr2s n' f1 f2 (snd x2) ;;
    Ok ((fst x1, fst x2) :: fst tl, snd tl)
  end.

(* adjust[i] = records[i*class2Count : (i+1)*class2Count]; a slice bound beyond
   the records would panic *)
Fixpoint chunk_rows {A} (n : nat) (c2 : nat) (recs : list A) : outcome (list (list A)) :=
  match n with
  | O => Ok []
  | S n' =>
    if (length recs <? c2)%nat then Panic
    else tl <- chunk_rows n' c2 (skipn c2 recs) ;; Ok (firstn c2 recs :: tl)
  end.

Definition gpos22_val := (list N * list (N * N) * list (N * N) * list (list vr2))%type.

Definition M_gpos22_read (data : list N) (pos : N) : outcome gpos22_val :=
  match seek data (pos + 2) with
  | a :: b :: c :: d :: e :: f :: g :: h :: i :: j :: k :: l :: m :: n :: r =>
    let covOff := w16 a b in
    let f1 := w16 c d in
    let f2 := w16 e f in
    let cd1Off := w16 g h in
    let cd2Off := w16 i j in
    let c1 := w16 k l in
    let c2 := w16 m n in
    if 65535 <? c1 * c2 then Err                 (* numRecords >= 65536 *)
    else
      x <- rd_vr2s (N.to_nat (c1 * c2)) f1 f2 r ;;
      cov <- M_covset_read data (pos + covOff) ;;
      t1 <- M_cd_read data (pos + cd1Off) ;;
      t2 <- M_cd_read data (pos + cd2Off) ;;
      rows <- chunk_rows (N.to_nat c1) (N.to_nat c2) (fst x) ;;
      Ok (cov, t1, t2, rows)
  | _ => Err
  end.

(* ---- specification side ---- *)

Definition vr_okb (v : option vrec) : bool :=
  match v with
  | None => true
  | Some r =>
    i16_ok (v_xp r) && i16_ok (v_yp r) && i16_ok (v_xa r) && i16_ok (v_ya r) &&
    (v_xpd r <? 65536) && (v_ypd r <? 65536) && (v_xad r <? 65536) && (v_yad r <? 65536)
  end.
Definition vr2_okb (p : vr2) : bool := vr_okb (fst p) && vr_okb (snd p).

(* well-formed GPOS 2.2 value: valid coverage set and class tables, a
   rectangular matrix (every row as long as the first), 16-bit fields *)
Definition gpos22_wf (gl : list N) (cd1 cd2 : list (N * N)) (adj : list (list vr2)) : bool :=
  strictly_inc gl && glyphs_ok gl && cd_ok cd1 && cd_ok cd2 &&
  forallb (fun row => (lenN row =? g22_c2 adj) && forallb vr2_okb row) adj.

(* nil = all-zero record, per side, decided by the common value format; class
   0 entries of a class table mean "not listed" *)
Definition g22_norm (adj : list (list vr2)) : list (list vr2) :=
  map (map (fun p => (vr_norm (g22_vf1 adj) (fst p), vr_norm (g22_vf2 adj) (snd p)))) adj.

Definition gpos22_fields (gl : list N) (cd1 cd2 : list (N * N)) (adj : list (list vr2)) (cb : list N) : list N :=
  let covOff := 16 + g22_c1 adj * g22_c2 adj * g22_reclen adj in
  [covOff; covOff + lenN cb; covOff + lenN cb + M_cd_append_len cd1; g22_c1 adj; g22_c2 adj].

(* ------------------------------------------------------------------ *)
(* GPOS 3.1                                                            *)

Definition eerec := (anchor * anchor)%type.       (* Entry, Exit *)

Fixpoint ee_size (recs : list eerec) : N :=
  match recs with
  | [] => 0
  | (en, ex) :: r => (if a_empty en then 0 else 6) + (if a_empty ex then 0 else 6) + ee_size r
  end.

Definition M_gpos31_len (cov : list (N * Z)) (recs : list eerec) : outcome N :=
  n <- M_cov_encode_len cov ;;
  Ok (6 + 4 * lenN recs + ee_size recs + n).

(* the offset loop: entryOffs[i] = uint16(total); total += 6 (the same for
   Exit); with the guard, a total beyond 0xFFFF panics.  Returns the uint16
   values written and the final total. *)
Fixpoint ee_offs (g : bool) (recs : list eerec) (total : N) : outcome (list (N * N) * N) :=
  match recs with
  | [] => Ok ([], total)
  | (en, ex) :: r =>
    if g && negb (a_empty en) && (65535 <? total) then Panic
    else
      let eo := if a_empty en then 0 else total mod 65536 in
      let t1 := if a_empty en then total else total + 6 in
      if g && negb (a_empty ex) && (65535 <? t1) then Panic
      else
        let xo := if a_empty ex then 0 else t1 mod 65536 in
        let t2 := if a_empty ex then t1 else t1 + 6 in
        x <- ee_offs g r t2 ;;
        Ok ((eo, xo) :: fst x, snd x)
  end.

(* if entryOffs[i] != 0 { res = l.Records[i].Entry.Append(res) } ... : the
   decision is taken on the (possibly wrapped) offset *)
Fixpoint ee_anchors (recs : list eerec) (offs : list (N * N)) : list N :=
  match recs, offs with
  | (en, ex) :: r, (eo, xo) :: o =>
    (if eo =? 0 then [] else anchor_bytes en) ++ (if xo =? 0 then [] else anchor_bytes ex) ++
    ee_anchors r o
  | _, _ => []
  end.

Definition ee_off_bytes (offs : list (N * N)) : list N :=
  flat_map (fun p => be16 (fst p) ++ be16 (snd p)) offs.

Definition M_gpos31_encode_g (g : bool) (cov : list (N * Z)) (recs : list eerec) : outcome (list N) :=
  let cnt := lenN recs in
  x <- ee_offs g recs (6 + 4 * cnt) ;;
  cb <- M_cov_encode cov ;;                      (* total += l.Cov.EncodeLen() *)
  let covOff := snd x in
  if g && (65535 <? covOff) then Panic
  else Ok ([0; 1] ++ be16 covOff ++ be16 cnt ++ ee_off_bytes (fst x) ++ ee_anchors recs (fst x) ++ cb).

Definition M_gpos31_encode := M_gpos31_encode_g true.
Definition M_gpos31_encode_found := M_gpos31_encode_g false.

Definition rd_opt_anchor (data : list N) (pos o : N) : outcome anchor :=
  if o =? 0 then Ok a_zero else M_anchor_read data (pos + o).

(* records[i].Entry from offsets[2*i], records[i].Exit from offsets[2*i+1] *)
Fixpoint rd_ee (data : list N) (pos : N) (offs : list N) : outcome (list eerec) :=
  match offs with
  | [] => Ok []
  | eo :: xo :: r =>
    en <- rd_opt_anchor data pos eo ;;
    ex <- rd_opt_anchor data pos xo ;;
    tl <- rd_ee data pos r ;;
    Ok ((en, ex) :: tl)
  | [_] => Panic                                 (* offsets[2*i+1] out of range *)
  end.

Definition M_gpos31_read (data : list N) (pos : N) : outcome (list (N * N) * list eerec) :=
  match seek data (pos + 2) with
  | a :: b :: c :: d :: r =>
    x <- rd_u16s (2 * N.to_nat (w16 c d)) r ;;
    recs <- rd_ee data pos (fst x) ;;
    cov <- M_cov_read data (pos + w16 a b) ;;
    Ok (prune_pair cov recs)
  | _ => Err
  end.

(* ---- specification side ---- *)
Definition ee_ok (p : eerec) : bool := anchor_ok (fst p) && anchor_ok (snd p).

Definition gpos31_wf (gl : list N) (recs : list eerec) : bool :=
  strictly_inc gl && glyphs_ok gl && (length recs =? length gl)%nat && forallb ee_ok recs.

(* the Go int values of the offsets of the anchors that are present *)
Fixpoint ee_off_vals (recs : list eerec) (total : N) : list N :=
  match recs with
  | [] => []
  | (en, ex) :: r =>
    let t1 := if a_empty en then total else total + 6 in
    let t2 := if a_empty ex then t1 else t1 + 6 in
    (if a_empty en then [] else [total]) ++ (if a_empty ex then [] else [t1]) ++ ee_off_vals r t2
  end.

Definition gpos31_fields (recs : list eerec) : list N :=
  [6 + 4 * lenN recs + ee_size recs; lenN recs] ++ ee_off_vals recs (6 + 4 * lenN recs).
