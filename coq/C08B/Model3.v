(* C08B/Model3.v — executable models of GPOS 5.1 (mark-to-ligature, gpos5.go)
   and of the GPOS reader dispatch for the formats of this part.

   Gpos5_1.encode / encodeLen are `panic("not implemented")`: the encoder
   refuses every value (open finding gpos51-encode-not-implemented).

   readGpos5_1 as it was found indexes the LigatureArray offsets with the mark
   class and the LigatureAttach table with the ligature index
   ([M_gpos51_read_found]: index-out-of-range panics, component records never
   read).  fixes/C08-gpos51-reader.diff reads the component records of each
   LigatureAttach table the way readGpos4_1 reads the base array and bounds
   the total work; [M_gpos51_read] mirrors the repaired reader. *)
From Coq Require Import List NArith ZArith Bool Lia.
From Common Require Import Bytes Outcome.
From C08 Require Import Model ModelCD ModelSub ModelSub2.
From C08B Require Import Model Model2.
Import ListNotations.
Local Open Scope N_scope.

Definition gpos51_val :=
  (list (N * N) * list (N * N) * list markrec * list (list (list anchor)))%type.

(* encode / encodeLen: panic("not implemented") *)
Definition M_gpos51_encode (mcov lcov : list (N * Z)) (marks : list markrec)
           (ligs : list (list (list anchor))) : outcome (list N) := Panic.
Definition M_gpos51_len (mcov lcov : list (N * Z)) (marks : list markrec)
           (ligs : list (list (list anchor))) : outcome N := Panic.

(* ---- the repaired reader ---- *)

(* one LigatureAttach table: componentCount, componentCount*markClassCount
   offsets (from the start of the table), the anchors *)
Definition rd_ligattach (data : list N) (apos mcc : N) : outcome (list (list anchor)) :=
  match seek data apos with
  | x :: y :: r =>
    let cc := w16 x y in
    let numOffsets := cc * mcc in
    if 32764 <? numOffsets then Err             (* "GPOS5.1 table too large" *)
    else
      offs <- rd_u16s (N.to_nat numOffsets) r ;;
      rd_rows data apos (N.to_nat cc) (N.to_nat mcc) (fst offs)
  | _ => Err
  end.

(* const maxLigatureWork = 1 << 20: the total number of component records and
   anchor offsets over all ligatures (LigatureAttach tables may be shared or,
   in damaged fonts, aliased: 8 KB of input made the reader as found allocate
   375 MB, 131 KB about 100 GB) *)
Definition maxLigWork : N := 1048576.

(* totalWork += componentCount + numOffsets; beyond the budget: "GPOS5.1 table too large" *)
Fixpoint rd_ligs (data : list N) (lapos mcc : N) (offs : list N) (work : N)
  : outcome (list (list (list anchor))) :=
  match offs with
  | [] => Ok []
  | o :: r =>
    match seek data (lapos + o) with
    | x :: y :: _ =>
      let w := work + (w16 x y + w16 x y * mcc) in
      if maxLigWork <? w then Err
      else
        la <- rd_ligattach data (lapos + o) mcc ;;
        tl <- rd_ligs data lapos mcc r w ;;
        Ok (la :: tl)
    | _ => Err
    end
  end.

Definition M_gpos51_read (data : list N) (pos : N) : outcome gpos51_val :=
  match seek data (pos + 2) with
  | a :: b :: c :: d :: e :: f :: g :: h :: i :: j :: _ =>
    let mco := w16 a b in
    let lco := w16 c d in
    let mcc := w16 e f in
    let mao := w16 g h in
    let lao := w16 i j in
    markCov <- M_cov_read data (pos + mco) ;;
    ligCov <- M_cov_read data (pos + lco) ;;
    markArray <- M_markarray_read data (pos + mao) (lenN markCov) ;;
    let pr := prune_pair markCov markArray in
    match seek data (pos + lao) with
    | x :: y :: r =>
      let cc := clip_count ligCov (w16 x y) in
      offs <- rd_u16s (N.to_nat (fst cc)) r ;;
      ligs <- rd_ligs data (pos + lao) mcc (fst offs) 0 ;;
      Ok (fst pr, snd cc, snd pr, ligs)
    | _ => Err
    end
  | _ => Err
  end.

(* ---- the reader as it was found ---- *)

(* row := make([]anchor.Table, markClassCount);
   for j := range row { if offsets[j] == 0 { continue }; row[j] = anchor.Read(ligAttachPos+offsets[j]) }
   where offsets is the LigatureArray's offset array *)
Fixpoint rd_row_found (data : list N) (apos : N) (offsets : list N) (j n : nat) : outcome (list anchor) :=
  match n with
  | O => Ok []
  | S n' =>
    match nth_error offsets j with
    | None => Panic                              (* offsets[j]: index out of range *)
    | Some o =>
      a <- (if o =? 0 then Ok a_zero else M_anchor_read data (apos + o)) ;;
      tl <- rd_row_found data apos offsets (S j) n' ;;
      Ok (a :: tl)
    end
  end.

(* for j := 0; j < componentCount; j++ { row := ...; ligAttach[i] = row } *)
Definition rd_ligattach_found (data : list N) (apos : N) (offsets : list N) (i : nat) (mcc : N)
  : outcome (list (list anchor)) :=
  match seek data apos with
  | x :: y :: _ =>
    let cc := N.to_nat (w16 x y) in
    match cc with
    | O => Ok []
    | S _ =>
      row <- rd_row_found data apos offsets 0 (N.to_nat mcc) ;;
      if (cc <=? i)%nat then Panic               (* ligAttach[i]: index out of range *)
      else Ok (repeat [] i ++ [row] ++ repeat [] (cc - i - 1))
    end
  | _ => Err
  end.

Fixpoint rd_ligs_found (data : list N) (lapos mcc : N) (offsets : list N) (i : nat) (todo : list N)
  : outcome (list (list (list anchor))) :=
  match todo with
  | [] => Ok []
  | o :: r =>
    la <- rd_ligattach_found data (lapos + o) offsets i mcc ;;
    tl <- rd_ligs_found data lapos mcc offsets (S i) r ;;
    Ok (la :: tl)
  end.

Definition M_gpos51_read_found (data : list N) (pos : N) : outcome gpos51_val :=
  match seek data (pos + 2) with
  | a :: b :: c :: d :: e :: f :: g :: h :: i :: j :: _ =>
    let mco := w16 a b in
    let lco := w16 c d in
    let mcc := w16 e f in
    let mao := w16 g h in
    let lao := w16 i j in
    markCov <- M_cov_read data (pos + mco) ;;
    ligCov <- M_cov_read data (pos + lco) ;;
    markArray <- M_markarray_read data (pos + mao) (lenN markCov) ;;
    let pr := prune_pair markCov markArray in
    match seek data (pos + lao) with
    | x :: y :: r =>
      let cc := clip_count ligCov (w16 x y) in
      offs <- rd_u16s (N.to_nat (fst cc)) r ;;
      ligs <- rd_ligs_found data (pos + lao) mcc (fst offs) 0 (fst offs) ;;
      Ok (fst pr, snd cc, snd pr, ligs)
    | _ => Err
    end
  | _ => Err
  end.

(* ---- specification side: the GPOS 5.1 layout written from the OpenType
   text (MarkLigPosFormat1, LigatureArray, LigatureAttach, ComponentRecord),
   used to state what the repaired reader decodes ---- *)

(* one LigatureAttach table: count, component records (offsets from the start
   of this table, 0 = NULL), anchors *)
Definition S_ligattach_bytes (mcc : N) (comps : list (list anchor)) : list N :=
  be16 (lenN comps) ++
  flat_map be16 (amat_off_vals (concat comps) (2 + 2 * lenN comps * mcc)) ++
  amat_anchors (concat comps).

Definition S_ligattach_size (comps : list (list anchor)) : N := 2 + amat_size (concat comps).

Fixpoint S_lig_offs (ligs : list (list (list anchor))) (off : N) : list N :=
  match ligs with
  | [] => []
  | l :: r => off :: S_lig_offs r (off + S_ligattach_size l)
  end.

Definition S_gpos51_bytes (mcb lcb : list N) (mcc : N) (marks : list markrec)
           (ligs : list (list (list anchor))) : list N :=
  let bco := 12 + lenN mcb in
  let mao := bco + lenN lcb in
  let lao := mao + (2 + 10 * lenN marks) in
  [0; 1] ++ be16 12 ++ be16 bco ++ be16 mcc ++ be16 mao ++ be16 lao ++
  mcb ++ lcb ++
  (be16 (lenN marks) ++
   flat_map (fun p => be16 (fst (fst p)) ++ be16 (snd p))
            (combine marks (mark_off_vals marks (2 + 4 * lenN marks))) ++
   mark_anchor_bytes marks) ++
  (be16 (lenN ligs) ++ flat_map be16 (S_lig_offs ligs (2 + 2 * lenN ligs)) ++
   flat_map (S_ligattach_bytes mcc) ligs).

Fixpoint ligs_work (mcc : N) (ligs : list (list (list anchor))) : N :=
  match ligs with [] => 0 | l :: r => (lenN l + lenN l * mcc) + ligs_work mcc r end.

(* every 16-bit field of the layout holds its value, and the table is within
   the reader's limits *)
Definition S_gpos51_fits (mcb lcb : list N) (mcc : N) (marks : list markrec)
           (ligs : list (list (list anchor))) : bool :=
  (12 + lenN mcb + lenN lcb + (2 + 10 * lenN marks) <? 65536) && (mcc <? 65536) &&
  forallb (fun o => o <? 65536) (mark_off_vals marks (2 + 4 * lenN marks)) &&
  (lenN ligs <? 65536) && (ligs_work mcc ligs <=? maxLigWork) &&
  forallb (fun o => o <? 65536) (S_lig_offs ligs (2 + 2 * lenN ligs)) &&
  forallb (fun l => (lenN l <? 65536) && (lenN l * mcc <=? 32764) &&
                    forallb (fun o => o <? 65536) (amat_off_vals (concat l) (2 + 2 * lenN l * mcc))) ligs.

Definition gpos51_wf (glm gll : list N) (mcc : N) (marks : list markrec)
           (ligs : list (list (list anchor))) : bool :=
  strictly_inc glm && glyphs_ok glm && strictly_inc gll && glyphs_ok gll &&
  (length marks =? length glm)%nat && (length ligs =? length gll)%nat &&
  forallb mark_ok marks &&
  forallb (forallb (fun row => (lenN row =? mcc) && forallb anchor_ok row)) ligs.

(* ------------------------------------------------------------------ *)
(* readGposSubtable for the formats of this part; the other keys are C08's *)

Inductive subtableB :=
| SB_other (s : subtable2)
| SGpos22 (v : gpos22_val)
| SGpos31 (v : list (N * N) * list eerec)
| SGpos41 (v : markbase_val)
| SGpos51 (v : gpos51_val)
| SGpos61 (v : markbase_val).

Definition M_sub_readB (data : list N) (pos : N) (lookupType : N) : outcome subtableB :=
  match seek data pos with
  | a :: b :: _ =>
    let fmt := w16 a b in
    if (10 <=? lookupType) || (10 <=? fmt) then Err
    else
      let key := 10 * lookupType + fmt in
      if key =? 22 then v <- M_gpos22_read data pos ;; Ok (SGpos22 v)
      else if key =? 31 then v <- M_gpos31_read data pos ;; Ok (SGpos31 v)
      else if key =? 41 then v <- M_gpos41_read data pos ;; Ok (SGpos41 v)
      else if key =? 51 then v <- M_gpos51_read data pos ;; Ok (SGpos51 v)
      else if key =? 61 then v <- M_gpos61_read data pos ;; Ok (SGpos61 v)
      else s <- M_sub_read2 true data pos lookupType ;; Ok (SB_other s)
  | _ => Err
  end.
