(* C08B/Proofs_g31.v — GPOS 3.1 (cursive attachment): declared size =
   emitted size, round trip, refusal-or-fit. *)
From Coq Require Import List NArith ZArith Bool Lia.
From Coq Require Import ZifyBool ZifyNat ZifyN.
From Common Require Import Bytes Outcome.
From C08 Require Import Model ModelCD ModelSub Proofs Proofs_sub.
From C08B Require Import Model Model2 Proofs_mark.
Import ListNotations.
Local Open Scope N_scope.
Ltac Zify.zify_post_hook ::= Z.div_mod_to_equations.

(* the anchors of the records, in order *)
Fixpoint ee_anchor_bytes (recs : list eerec) : list N :=
  match recs with
  | [] => []
  | (en, ex) :: r =>
    (if a_empty en then [] else anchor_bytes en) ++ (if a_empty ex then [] else anchor_bytes ex) ++
    ee_anchor_bytes r
  end.

(* the offsets as exact values: 0 for an absent anchor *)
Fixpoint ee_pure_offs (recs : list eerec) (total : N) : list (N * N) :=
  match recs with
  | [] => []
  | (en, ex) :: r =>
    let t1 := if a_empty en then total else total + 6 in
    let t2 := if a_empty ex then t1 else t1 + 6 in
    ((if a_empty en then 0 else total), (if a_empty ex then 0 else t1)) :: ee_pure_offs r t2
  end.

Fixpoint flatten2 (l : list (N * N)) : list N :=
  match l with [] => [] | (a, b) :: r => a :: b :: flatten2 r end.

Lemma ee_off_bytes_flat offs : ee_off_bytes offs = flat_map be16 (flatten2 offs).
Proof.
  unfold ee_off_bytes.
  induction offs as [|[a b] r IH]; cbn [flat_map flatten2 fst snd]; [reflexivity|].
  rewrite IH, <- app_assoc. reflexivity.
Qed.

Lemma flatten2_length l : length (flatten2 l) = (2 * length l)%nat.
Proof. induction l as [|[a b] r IH]; cbn [flatten2 length]; lia. Qed.

Lemma ee_pure_offs_length recs : forall t, length (ee_pure_offs recs t) = length recs.
Proof. induction recs as [|[en ex] r IH]; intros t; cbn [ee_pure_offs length]; [reflexivity|]. now rewrite IH. Qed.

Lemma flatten2_lenN l : lenN (flatten2 l) = 2 * lenN l.
Proof. unfold lenN. rewrite flatten2_length. lia. Qed.
Lemma ee_pure_offs_lenN recs t : lenN (ee_pure_offs recs t) = lenN recs.
Proof. unfold lenN. now rewrite ee_pure_offs_length. Qed.

Lemma ee_anchor_bytes_lenN recs : lenN (ee_anchor_bytes recs) = ee_size recs.
Proof.
  induction recs as [|[en ex] r IH]; cbn [ee_anchor_bytes ee_size]; [reflexivity|].
  rewrite !lenN_app, IH.
  destruct (a_empty en), (a_empty ex); rewrite ?lenN_nil, ?anchor_bytes_lenN; lia.
Qed.

(* with the guards: the loop either panics or writes exact, non-zero offsets *)
Lemma ee_offs_ok recs : forall total x,
  0 < total -> ee_offs true recs total = Ok x ->
  fst x = ee_pure_offs recs total /\ snd x = total + ee_size recs /\
  ee_anchors recs (fst x) = ee_anchor_bytes recs /\
  Forall (fun o => o <= 65535) (ee_off_vals recs total).
Proof.
  induction recs as [|[en ex] r IH]; intros total x Hpos;
    cbn [ee_offs ee_pure_offs ee_size ee_anchors ee_anchor_bytes ee_off_vals].
  - intros H. apply ok_inj in H. subst x. cbn [fst snd]. refine (conj _ (conj _ (conj _ _))); [reflexivity|lia|reflexivity|constructor].
  - cbn [andb].
    destruct (a_empty en) eqn:E1; cbn [negb andb].
    + destruct (a_empty ex) eqn:E2; cbn [negb andb].
      * destruct (ee_offs true r total) as [y| | |] eqn:E; cbn [obind]; try discriminate.
        intros H. apply ok_inj in H. subst x. cbn [fst snd].
        destruct (IH _ _ Hpos E) as (H1 & H2 & H3 & H4).
        rewrite H1 in *. change (0 =? 0) with true. cbv iota. cbn [app].
        refine (conj _ (conj _ (conj _ _))); [reflexivity|lia|exact H3|exact H4].
      * destruct (65535 <? total) eqn:G; [discriminate|].
        destruct (ee_offs true r (total + 6)) as [y| | |] eqn:E; cbn [obind]; try discriminate.
        intros H. apply ok_inj in H. subst x. cbn [fst snd].
        destruct (IH (total + 6) y ltac:(lia) E) as (H1 & H2 & H3 & H4).
        rewrite H1 in *. change (0 =? 0) with true. cbv iota. cbn [app].
        replace (total mod 65536) with total by lia.
        destruct (N.eqb_spec total 0) as [Hz|_]; [lia|].
        refine (conj _ (conj _ (conj _ _))); [reflexivity|lia|now rewrite H3|constructor; [lia|exact H4]].
    + destruct (65535 <? total) eqn:G; [discriminate|].
      destruct (a_empty ex) eqn:E2; cbn [negb andb].
      * destruct (ee_offs true r (total + 6)) as [y| | |] eqn:E; cbn [obind]; try discriminate.
        intros H. apply ok_inj in H. subst x. cbn [fst snd].
        destruct (IH (total + 6) y ltac:(lia) E) as (H1 & H2 & H3 & H4).
        rewrite H1 in *. change (0 =? 0) with true. cbv iota. cbn [app].
        replace (total mod 65536) with total by lia.
        destruct (N.eqb_spec total 0) as [Hz|_]; [lia|].
        refine (conj _ (conj _ (conj _ _))); [reflexivity|lia|now rewrite H3|constructor; [lia|exact H4]].
      * destruct (65535 <? total + 6) eqn:G2; [discriminate|].
        destruct (ee_offs true r (total + 6 + 6)) as [y| | |] eqn:E; cbn [obind]; try discriminate.
        intros H. apply ok_inj in H. subst x. cbn [fst snd].
        destruct (IH (total + 6 + 6) y ltac:(lia) E) as (H1 & H2 & H3 & H4).
        rewrite H1 in *.
        replace (total mod 65536) with total by lia.
        replace ((total + 6) mod 65536) with (total + 6) by lia.
        destruct (N.eqb_spec total 0) as [Hz|_]; [lia|].
        destruct (N.eqb_spec (total + 6) 0) as [Hz|_]; [lia|].
        refine (conj _ (conj _ (conj _ _))); [reflexivity|lia|now rewrite H3|constructor; [lia|constructor; [lia|exact H4]]].
Qed.

Lemma ee_offs_ok_or_panic recs : forall total,
  (exists x, ee_offs true recs total = Ok x) \/ ee_offs true recs total = Panic.
Proof.
  induction recs as [|[en ex] r IH]; intros total; cbn [ee_offs]; [left; eexists; reflexivity|].
  destruct (true && negb (a_empty en) && (65535 <? total)); [right; reflexivity|].
  destruct (true && negb (a_empty ex) && _); [right; reflexivity|].
  match goal with |- context [ee_offs true r ?t] => destruct (IH t) as [[y Hy]|Hp] end.
  - rewrite Hy. cbn [obind]. left. eexists. reflexivity.
  - rewrite Hp. cbn [obind]. right. reflexivity.
Qed.

Lemma ee_pure_offs_bound recs : forall total,
  Forall (fun o => o <= 65535) (ee_off_vals recs total) ->
  Forall (fun x => x < 65536) (flatten2 (ee_pure_offs recs total)).
Proof.
  induction recs as [|[en ex] r IH]; intros total; cbn [ee_off_vals ee_pure_offs flatten2]; [constructor|].
  intros H. destruct (a_empty en), (a_empty ex); cbn [app] in H.
  - constructor; [lia|constructor; [lia|apply IH; exact H]].
  - apply Forall_cons_iff in H. destruct H as [H1 H].
    constructor; [lia|constructor; [lia|apply IH; exact H]].
  - apply Forall_cons_iff in H. destruct H as [H1 H].
    constructor; [lia|constructor; [lia|apply IH; exact H]].
  - apply Forall_cons_iff in H. destruct H as [H1 H]. apply Forall_cons_iff in H. destruct H as [H2 H].
    constructor; [lia|constructor; [lia|apply IH; exact H]].
Qed.

Lemma rd_opt_anchor_zero data pos : rd_opt_anchor data pos 0 = Ok a_zero.
Proof. reflexivity. Qed.

Lemma rd_ee_ok pos tail recs : forall A total,
  forallb ee_ok recs = true -> 0 < total -> lenN A = pos + total ->
  rd_ee (A ++ ee_anchor_bytes recs ++ tail) pos (flatten2 (ee_pure_offs recs total)) = Ok recs.
Proof.
  induction recs as [|[en ex] r IH]; intros A total Hok Hpos HA;
    cbn [ee_pure_offs flatten2 rd_ee ee_anchor_bytes]; [reflexivity|].
  cbn [forallb] in Hok. apply andb_true_iff in Hok as [Hee Hok].
  unfold ee_ok in Hee. cbn [fst snd] in Hee. apply andb_true_iff in Hee as [Hen Hex].
  destruct (a_empty en) eqn:E1; destruct (a_empty ex) eqn:E2; cbn [app].
  - rewrite !rd_opt_anchor_zero. cbn [obind]. rewrite (IH A total Hok Hpos HA). cbn [obind].
    now rewrite (a_empty_zero en E1), (a_empty_zero ex E2).
  - rewrite rd_opt_anchor_zero. cbn [obind]. unfold rd_opt_anchor.
    destruct (N.eqb_spec total 0) as [Hz|_]; [lia|].
    rewrite <- app_assoc. rewrite (anchor_read_bytes A ex _ (pos + total) Hex HA). cbn [obind].
    specialize (IH (A ++ anchor_bytes ex) (total + 6) Hok).
    rewrite <- app_assoc in IH. rewrite IH; [|lia|rewrite lenN_app, HA, anchor_bytes_lenN; lia].
    cbn [obind]. now rewrite (a_empty_zero en E1).
  - unfold rd_opt_anchor at 1.
    destruct (N.eqb_spec total 0) as [Hz|_]; [lia|].
    rewrite <- app_assoc. rewrite (anchor_read_bytes A en _ (pos + total) Hen HA). cbn [obind].
    rewrite rd_opt_anchor_zero. cbn [obind].
    specialize (IH (A ++ anchor_bytes en) (total + 6) Hok).
    rewrite <- app_assoc in IH. rewrite IH; [|lia|rewrite lenN_app, HA, anchor_bytes_lenN; lia].
    cbn [obind]. now rewrite (a_empty_zero ex E2).
  - unfold rd_opt_anchor.
    destruct (N.eqb_spec total 0) as [Hz|_]; [lia|].
    destruct (N.eqb_spec (total + 6) 0) as [Hz|_]; [lia|].
    rewrite <- !app_assoc. rewrite (anchor_read_bytes A en _ (pos + total) Hen HA). cbn [obind].
    replace (A ++ anchor_bytes en ++ anchor_bytes ex ++ ee_anchor_bytes r ++ tail)
      with ((A ++ anchor_bytes en) ++ anchor_bytes ex ++ ee_anchor_bytes r ++ tail)
      by (now rewrite <- app_assoc).
    rewrite (anchor_read_bytes (A ++ anchor_bytes en) ex _ (pos + (total + 6)) Hex)
      by (rewrite lenN_app, HA, anchor_bytes_lenN; lia).
    cbn [obind].
    specialize (IH ((A ++ anchor_bytes en) ++ anchor_bytes ex) (total + 6 + 6) Hok).
    rewrite <- !app_assoc in IH. rewrite <- !app_assoc. rewrite IH; [reflexivity|lia|].
    rewrite !lenN_app, HA, !anchor_bytes_lenN. lia.
Qed.

Lemma gpos31_wf_facts gl recs :
  gpos31_wf gl recs = true ->
  strictly_inc gl = true /\ glyphs_ok gl = true /\ length recs = length gl /\ forallb ee_ok recs = true.
Proof.
  unfold gpos31_wf. intros H. rewrite !andb_true_iff in H.
  destruct H as [[[H1 H2] H3] H4]. repeat split; try assumption. apply Nat.eqb_eq. exact H3.
Qed.

(* ---- encodeLen = |encode| (code with the guards) ---- *)
Lemma gpos31_len_agrees cov recs b :
  keys_ok cov = true -> M_gpos31_encode cov recs = Ok b ->
  M_gpos31_len cov recs = Ok (lenN b).
Proof.
  intros Hk. unfold M_gpos31_encode, M_gpos31_encode_g, M_gpos31_len.
  destruct (ee_offs true recs (6 + 4 * lenN recs)) as [x| | |] eqn:Ho; cbn [obind]; try discriminate.
  destruct (M_cov_encode cov) as [cb| | |] eqn:Hc; cbn [obind]; try discriminate.
  destruct (true && _); [discriminate|].
  intros H. apply ok_inj in H. subst b.
  rewrite (cov_len_agrees _ _ Hk Hc). cbn [obind]. f_equal.
  destruct (ee_offs_ok recs (6 + 4 * lenN recs) x ltac:(lia) Ho) as (H1 & H2 & H3 & H4).
  rewrite H3, ee_off_bytes_flat, H1. lens. rewrite ee_anchor_bytes_lenN.
  rewrite flatten2_lenN, ee_pure_offs_lenN. unfold lenN. lia.
Qed.

(* ---- round trip ---- *)
Lemma gpos31_roundtrip gl recs b pre post :
  gpos31_wf gl recs = true ->
  M_gpos31_encode (S_cov_table gl) recs = Ok b ->
  M_gpos31_read (pre ++ b ++ post) (lenN pre) = Ok (S_cov_pairs gl, recs).
Proof.
  intros Hwf. apply gpos31_wf_facts in Hwf. destruct Hwf as (Hs & Hg & Hlen & Hok).
  unfold M_gpos31_encode, M_gpos31_encode_g.
  set (cnt := lenN recs).
  destruct (ee_offs true recs (6 + 4 * cnt)) as [x| | |] eqn:Ho; cbn [obind]; try discriminate.
  destruct (M_cov_encode (S_cov_table gl)) as [cb| | |] eqn:Hc; cbn [obind]; try discriminate.
  cbn [andb]. destruct (65535 <? snd x) eqn:Hov; [discriminate|].
  intros H. apply ok_inj in H. subst b.
  destruct (ee_offs_ok recs (6 + 4 * cnt) x ltac:(lia) Ho) as (H1 & H2 & H3 & H4).
  rewrite H3, ee_off_bytes_flat, H1, H2 in *. clear H1 H3.
  set (offs := flatten2 (ee_pure_offs recs (6 + 4 * cnt))).
  set (covOff := 6 + 4 * cnt + ee_size recs) in *.
  assert (Hoffs_len : length offs = (2 * length recs)%nat)
    by (unfold offs; now rewrite flatten2_length, ee_pure_offs_length).
  assert (Hoffs_ok : Forall (fun v => v < 65536) offs) by (apply ee_pure_offs_bound; exact H4).
  set (D := pre ++ ([0; 1] ++ be16 covOff ++ be16 cnt ++ flat_map be16 offs ++ ee_anchor_bytes recs ++ cb) ++ post).
  assert (Hseek : seek D (lenN pre + 2) =
                  be16 covOff ++ be16 cnt ++ flat_map be16 offs ++ ee_anchor_bytes recs ++ cb ++ post).
  { unfold D. rewrite <- !app_assoc. apply (seek_at pre [0; 1]). }
  unfold M_gpos31_read. rewrite Hseek. cbn [be16 app].
  assert (Hcnt : cnt <= 65535) by (unfold covOff in Hov; lia).
  rewrite !w16_be16_eq by lia.
  replace (2 * N.to_nat cnt)%nat with (length offs) by (rewrite Hoffs_len; unfold cnt; rewrite lenN_nat; lia).
  rewrite rd_u16s_flat by exact Hoffs_ok. cbn [obind fst].
  assert (HD2 : D = (pre ++ [0; 1] ++ be16 covOff ++ be16 cnt ++ flat_map be16 offs) ++
                    ee_anchor_bytes recs ++ (cb ++ post))
    by (unfold D; now rewrite <- !app_assoc).
  rewrite HD2 at 1. unfold offs at 2.
  rewrite (rd_ee_ok (lenN pre) (cb ++ post) recs _ (6 + 4 * cnt) Hok ltac:(lia)).
  2:{ lens. unfold offs. rewrite flatten2_lenN, ee_pure_offs_lenN. unfold cnt. lia. }
  cbn [obind].
  set (hdr := [0; 1] ++ be16 covOff ++ be16 cnt ++ flat_map be16 offs ++ ee_anchor_bytes recs).
  assert (HD3 : D = pre ++ (hdr ++ cb) ++ post) by (unfold D, hdr; now rewrite <- !app_assoc).
  rewrite HD3, (cov_at gl hdr pre post cb covOff Hs Hg Hc).
  2:{ unfold hdr. lens. rewrite ee_anchor_bytes_lenN. unfold offs.
      rewrite flatten2_lenN, ee_pure_offs_lenN. unfold covOff, cnt. lia. }
  cbn [obind]. rewrite prune_pair_same; [reflexivity|].
  unfold S_cov_pairs. now rewrite cov_pairs_length.
Qed.

(* ---- refuses loudly or every 16-bit field holds its value ---- *)
Lemma gpos31_refuses_or_fits gl recs :
  gpos31_wf gl recs = true ->
  M_gpos31_encode (S_cov_table gl) recs = Panic \/
  exists b, M_gpos31_encode (S_cov_table gl) recs = Ok b /\
            Forall (fun v => v <= 65535) (gpos31_fields recs).
Proof.
  intros Hwf. apply gpos31_wf_facts in Hwf. destruct Hwf as (Hs & Hg & Hlen & Hok).
  destruct (cov_roundtrip gl [] [] Hs Hg) as (cb & Hc & _).
  unfold M_gpos31_encode, M_gpos31_encode_g.
  destruct (ee_offs_ok_or_panic recs (6 + 4 * lenN recs)) as [[x Hx]|Hp].
  2:{ rewrite Hp. left. reflexivity. }
  rewrite Hx, Hc. cbn [obind andb].
  destruct (65535 <? snd x) eqn:Hov; [left; reflexivity|].
  right. eexists. split; [reflexivity|].
  destruct (ee_offs_ok recs (6 + 4 * lenN recs) x ltac:(lia) Hx) as (H1 & H2 & H3 & H4).
  unfold gpos31_fields. rewrite H2 in Hov.
  constructor; [lia|]. constructor; [lia|]. exact H4.
Qed.
