From Coq Require Import Extraction ExtrOcamlBasic.
From Common Require Import Conv.
From C08 Require Import Model ModelCD ModelSub ModelSub2.
From C08B Require Import Model Model2 Model3.
Extraction "c08b_model.ml" conv_anchor as_table S_cov_table
  M_anchor_read M_markarray_read anchor_bytes
  M_gpos41_len M_gpos41_encode M_gpos61_len M_gpos61_encode
  M_gpos22_len M_gpos22_encode M_gpos31_len M_gpos31_encode
  M_gpos51_len M_gpos51_encode
  M_sub_readB S_gpos51_bytes S_gpos51_fits M_cov_encode.
