(* C08B/Proofs_refuted.v — the statements that the code AS IT WAS FOUND
   violates, each with a concrete witness evaluated on the faithful model
   (vm_compute).  The witnesses were replayed on the Go code; see
   findings/C08.json and corpus/C08B. *)
From Coq Require Import List NArith ZArith Bool Lia.
From Common Require Import Bytes Outcome.
From C08 Require Import Model ModelCD ModelSub ModelSub2.
From C08B Require Import Model Model2 Model3 Proofs_total.
Import ListNotations.
Local Open Scope N_scope.

Definition fits16 (l : list N) : bool := forallb (fun v => v <=? 65535) l.

Fixpoint iotaN (n : nat) (start : N) : list N :=
  match n with O => [] | S n' => start :: iotaN n' (start + 1) end.

Definition outcome_bytes (x : outcome (list N)) : list N :=
  match x with Ok b => b | _ => [] end.

(* ---- GPOS 6.1 as found (no guard at all): 6554 mark1 records; the last
   mark anchor offset is 2 + 4*6554 + 6*6553 = 65536, the mark2 array offset
   is beyond 65535 as well; the encoder returns bytes ---- *)
Definition w61_glm : list N := iotaN (N.to_nat 6554) 10.
Definition w61_marks : list markrec := map (fun g => (0, (Z.of_N g, 1%Z))) w61_glm.
Definition w61_glb : list N := [1].
Definition w61_base : list (list anchor) := [[(5%Z, 6%Z)]].

Lemma gpos61_found_refuted :
  markbase_wf w61_glm w61_glb w61_marks w61_base = true /\
  is_ok (M_gpos61_encode_found (S_cov_table w61_glm) (S_cov_table w61_glb) w61_marks w61_base) = true /\
  fits16 (markbase_fields (outcome_bytes (M_cov_encode (S_cov_table w61_glm)))
                          (outcome_bytes (M_cov_encode (S_cov_table w61_glb))) w61_marks w61_base) = false /\
  M_gpos61_encode (S_cov_table w61_glm) (S_cov_table w61_glb) w61_marks w61_base = Panic.
Proof. vm_compute. repeat split; reflexivity. Qed.

(* ---- GPOS 4.1 / 6.1 before the count guards: one mark of class 65535 and
   no base record: markClassCount = 65536 is written as 0 ---- *)
Lemma gpos41_found_markclasscount_refuted :
  markbase_wf [5] [] [(65535, (1%Z, 1%Z))] [] = true /\
  is_ok (M_gpos41_encode_found (S_cov_table [5]) (S_cov_table []) [(65535, (1%Z, 1%Z))] []) = true /\
  fits16 (markbase_fields (outcome_bytes (M_cov_encode (S_cov_table [5])))
                          (outcome_bytes (M_cov_encode (S_cov_table []))) [(65535, (1%Z, 1%Z))] []) = false /\
  M_gpos41_encode (S_cov_table [5]) (S_cov_table []) [(65535, (1%Z, 1%Z))] [] = Panic.
Proof. vm_compute. repeat split; reflexivity. Qed.

(* ---- GPOS 2.2 as found: 100 x 100 classes with 8-byte records: the
   coverage offset is 16 + 80000; the bytes do not read back ---- *)
Definition w22_vr : option vrec :=
  Some {| v_xp := 1; v_yp := 2; v_xa := 3; v_ya := 4; v_xpd := 0; v_ypd := 0; v_xad := 0; v_yad := 0 |}.
Definition w22_adj : list (list vr2) := repeat (repeat (w22_vr, None) 100) 100.

Lemma gpos22_found_refuted :
  gpos22_wf [3] [(3, 1)] [(4, 1)] w22_adj = true /\
  is_ok (M_gpos22_encode_found [3] [(3, 1)] [(4, 1)] w22_adj) = true /\
  fits16 (gpos22_fields [3] [(3, 1)] [(4, 1)] w22_adj (outcome_bytes (M_cov_encode (S_cov_table [3])))) = false /\
  is_ok (M_gpos22_read (outcome_bytes (M_gpos22_encode_found [3] [(3, 1)] [(4, 1)] w22_adj)) 0) = false /\
  M_gpos22_encode [3] [(3, 1)] [(4, 1)] w22_adj = Panic.
Proof. vm_compute. repeat split; reflexivity. Qed.

(* ---- GPOS 3.1 as found: 16381 records, only the last has anchors: the
   entry anchor sits at 65530, the exit anchor at 65536, written as offset 0 -
   and, because the encoder decides on the wrapped offset, NOT emitted:
   encodeLen and the emitted size differ by 6 ---- *)
Definition w31_gl : list N := iotaN (N.to_nat 16381) 10.
Definition w31_recs : list eerec :=
  repeat (a_zero, a_zero) (N.to_nat 16380) ++ [((1%Z, 2%Z), (3%Z, 4%Z))].

Lemma gpos31_found_refuted :
  gpos31_wf w31_gl w31_recs = true /\
  is_ok (M_gpos31_encode_found (S_cov_table w31_gl) w31_recs) = true /\
  fits16 (gpos31_fields w31_recs) = false /\
  M_gpos31_len (S_cov_table w31_gl) w31_recs =
    Ok (lenN (outcome_bytes (M_gpos31_encode_found (S_cov_table w31_gl) w31_recs)) + 6) /\
  M_gpos31_encode (S_cov_table w31_gl) w31_recs = Panic.
Proof. vm_compute. repeat split; reflexivity. Qed.

(* ---- GPOS 5.1 reader as found: 40 bytes on which it panics (offsets[j] with
   j = 1 on a one-element slice); the repaired reader returns an error ---- *)
Definition w51_bytes : list N :=
  [0; 1; 0; 12; 0; 18; 0; 2; 0; 24; 0; 36;
   0; 1; 0; 1; 0; 5;
   0; 1; 0; 1; 0; 6;
   0; 1; 0; 0; 0; 6; 0; 1; 0; 0; 0; 0;
   0; 1; 0; 0].

Lemma gpos51_read_found_refuted :
  M_gpos51_read_found w51_bytes 0 = Panic /\ M_gpos51_read w51_bytes 0 = Err.
Proof. vm_compute. split; reflexivity. Qed.
