(* C08B/Proofs_total.v — the readers never panic and never run out of fuel
   (there is no fuel: every loop is structural), on any byte string. *)
From Coq Require Import List NArith ZArith Bool Lia.
From Common Require Import Bytes Outcome.
From C08 Require Import Model ModelCD ModelSub ModelSub2.
From C08B Require Import Model Model2 Model3.
Import ListNotations.
Local Open Scope N_scope.

Definition safe {A} (x : outcome A) : Prop := x <> Panic /\ x <> OutOfFuel.

Lemma safe_ok {A} (a : A) : safe (Ok a).
Proof. split; discriminate. Qed.
Lemma safe_err {A} : safe (@Err A).
Proof. split; discriminate. Qed.
Lemma safe_bind {A B} (x : outcome A) (f : A -> outcome B) :
  safe x -> (forall a, x = Ok a -> safe (f a)) -> safe (obind x f).
Proof.
  intros [H1 H2] Hf. destruct x as [a| | |]; cbn [obind]; try congruence.
  - apply Hf. reflexivity.
  - apply safe_err.
Qed.

Ltac safe_step :=
  first [ apply safe_ok | apply safe_err
        | apply safe_bind; [|intros ? ?] ].

(* ---- C08's components ---- *)

Lemma cov_read1_safe cnt : forall r i prev, safe (cov_read1 cnt r i prev).
Proof.
  induction cnt as [|c IH]; intros r i prev; cbn [cov_read1]; [apply safe_ok|].
  destruct r as [|a [|b r']]; try apply safe_err.
  destruct (_ <=? _)%Z; [apply safe_err|].
  apply safe_bind; [apply IH|intros; apply safe_ok].
Qed.

Lemma cov_read2_safe cnt : forall r pos prev, safe (cov_read2 cnt r pos prev).
Proof.
  induction cnt as [|c IH]; intros r pos prev; cbn [cov_read2]; [apply safe_ok|].
  destruct r as [|a [|b [|c0 [|d [|e [|f r']]]]]]; try apply safe_err.
  destruct (_ || _); [apply safe_err|].
  apply safe_bind; [apply IH|intros; apply safe_ok].
Qed.

Lemma cov_read_safe data pos : safe (M_cov_read data pos).
Proof.
  unfold M_cov_read.
  destruct (seek data pos) as [|a [|b [|c [|d r]]]]; try apply safe_err.
  destruct (_ =? 1); [apply cov_read1_safe|].
  destruct (_ =? 2); [apply cov_read2_safe|apply safe_err].
Qed.

Lemma covset_read1_safe cnt : forall r acc, safe (covset_read1 cnt r acc).
Proof.
  induction cnt as [|c IH]; intros r acc; cbn [covset_read1]; [apply safe_ok|].
  destruct r as [|a [|b r']]; try apply safe_err. apply IH.
Qed.

Lemma covset_read2_safe cnt : forall r pos prev acc, safe (covset_read2 cnt r pos prev acc).
Proof.
  induction cnt as [|c IH]; intros r pos prev acc; cbn [covset_read2]; [apply safe_ok|].
  destruct r as [|a [|b [|c0 [|d [|e [|f r']]]]]]; try apply safe_err.
  destruct (_ || _); [apply safe_err|]. apply IH.
Qed.

Lemma covset_read_safe data pos : safe (M_covset_read data pos).
Proof.
  unfold M_covset_read.
  destruct (seek data pos) as [|a [|b [|c [|d r]]]]; try apply safe_err.
  destruct (_ =? 1); [apply covset_read1_safe|].
  destruct (_ =? 2); [apply covset_read2_safe|apply safe_err].
Qed.

Lemma cd_read1_safe cnt : forall r g, safe (cd_read1 cnt r g).
Proof.
  induction cnt as [|c IH]; intros r g; cbn [cd_read1]; [apply safe_ok|].
  destruct r as [|a [|b r']]; try apply safe_err.
  apply safe_bind; [apply IH|intros; apply safe_ok].
Qed.

Lemma cd_read2_safe cnt : forall r first prevEnd acc, safe (cd_read2 cnt r first prevEnd acc).
Proof.
  induction cnt as [|c IH]; intros r first prevEnd acc; cbn [cd_read2]; [apply safe_ok|].
  destruct r as [|a [|b [|c0 [|d [|e [|f r']]]]]]; try apply safe_err.
  destruct (_ && _); [apply safe_err|]. apply IH.
Qed.

Lemma cd_read_safe data pos : safe (M_cd_read data pos).
Proof.
  unfold M_cd_read.
  destruct (seek data pos) as [|a [|b r]]; try apply safe_err.
  destruct (_ =? 1).
  - destruct r as [|c [|d [|e [|f r']]]]; try apply safe_err.
    destruct (_ <? _); [apply safe_err|apply cd_read1_safe].
  - destruct (_ =? 2); [|apply safe_err].
    destruct r as [|c [|d r']]; try apply safe_err. apply cd_read2_safe.
Qed.

Lemma rd_opt_safe b r : safe (rd_opt b r).
Proof.
  unfold rd_opt. destruct b; [|apply safe_ok].
  destruct r as [|a [|c r']]; try apply safe_err. apply safe_ok.
Qed.

Lemma vr_read_safe fmt r : safe (M_vr_read fmt r).
Proof.
  unfold M_vr_read. destruct (fmt =? 0); [apply safe_ok|].
  repeat (apply safe_bind; [apply rd_opt_safe|intros ? _]). apply safe_ok.
Qed.

Lemma rd_u16s_safe n : forall r, safe (rd_u16s n r).
Proof.
  induction n as [|n IH]; intros r; cbn [rd_u16s]; [apply safe_ok|].
  destruct r as [|a [|b r']]; try apply safe_err.
  apply safe_bind; [apply IH|intros; apply safe_ok].
Qed.

Lemma rd_u16s_length n : forall r x, rd_u16s n r = Ok x -> length (fst x) = n.
Proof.
  induction n as [|n IH]; intros r x; cbn [rd_u16s].
  - intros H. injection H as <-. reflexivity.
  - destruct r as [|a [|b r']]; try discriminate.
    destruct (rd_u16s n r') as [y| | |] eqn:E; cbn [obind]; try discriminate.
    intros H. injection H as <-. cbn [fst length]. f_equal. eapply IH. exact E.
Qed.

(* ---- anchors and mark arrays ---- *)

Lemma anchor_read_safe data pos : safe (M_anchor_read data pos).
Proof.
  unfold M_anchor_read.
  destruct (seek data pos) as [|a [|b [|c [|d [|e [|f r]]]]]]; try apply safe_err.
  destruct (_ || _); [apply safe_err|apply safe_ok].
Qed.

Lemma rd_markrecs_safe n : forall r, safe (rd_markrecs n r).
Proof.
  induction n as [|n IH]; intros r; cbn [rd_markrecs]; [apply safe_ok|].
  destruct r as [|a [|b [|c [|d r']]]]; try apply safe_err.
  apply safe_bind; [apply IH|intros; apply safe_ok].
Qed.

Lemma rd_mark_anchors_safe data pos recs : safe (rd_mark_anchors data pos recs).
Proof.
  induction recs as [|[c o] r IH]; cbn [rd_mark_anchors]; [apply safe_ok|].
  apply safe_bind; [apply anchor_read_safe|intros ? _].
  apply safe_bind; [apply IH|intros; apply safe_ok].
Qed.

Lemma markarray_read_safe data pos n : safe (M_markarray_read data pos n).
Proof.
  unfold M_markarray_read.
  destruct (seek data pos) as [|a [|b r]]; try apply safe_err.
  apply safe_bind; [apply rd_markrecs_safe|intros ? _]. apply rd_mark_anchors_safe.
Qed.

Lemma rd_anchor_row_safe data apos offs : safe (rd_anchor_row data apos offs).
Proof.
  induction offs as [|o r IH]; cbn [rd_anchor_row]; [apply safe_ok|].
  apply safe_bind; [destruct (o =? 0); [apply safe_ok|apply anchor_read_safe]|intros ? _].
  apply safe_bind; [apply IH|intros; apply safe_ok].
Qed.

(* the offsets handed to the row loop are exactly count * markClassCount:
   offsets[j] never leaves the slice *)
Lemma rd_rows_safe data apos mcc n : forall offs,
  length offs = (n * mcc)%nat -> safe (rd_rows data apos n mcc offs).
Proof.
  induction n as [|n IH]; intros offs Hl; cbn [rd_rows]; [apply safe_ok|].
  destruct (Nat.ltb_spec (length offs) mcc) as [Hlt|Hge]; [lia|].
  apply safe_bind; [apply rd_anchor_row_safe|intros ? _].
  apply safe_bind; [|intros; apply safe_ok].
  apply IH. rewrite skipn_length. lia.
Qed.

(* ---- GPOS 4.1 / 6.1 ---- *)

Lemma markbase_read_safe data pos : safe (M_markbase_read data pos).
Proof.
  unfold M_markbase_read.
  destruct (seek data (pos + 2)) as [|a [|b [|c [|d [|e [|f [|g [|h [|i [|j r]]]]]]]]]];
    try apply safe_err.
  apply safe_bind; [apply cov_read_safe|intros markCov _].
  apply safe_bind; [apply cov_read_safe|intros baseCov _].
  apply safe_bind; [apply markarray_read_safe|intros markArray _].
  destruct (seek data (pos + w16 i j)) as [|x [|y r']]; try apply safe_err.
  destruct (32764 <? _); [apply safe_err|].
  apply safe_bind; [apply rd_u16s_safe|intros offs Hoffs].
  apply safe_bind; [|intros; apply safe_ok].
  apply rd_rows_safe. rewrite (rd_u16s_length _ _ _ Hoffs).
  apply Nnat.N2Nat.inj_mul.
Qed.

(* ---- GPOS 2.2 ---- *)

Lemma rd_vr2s_safe n f1 f2 : forall r, safe (rd_vr2s n f1 f2 r).
Proof.
  induction n as [|n IH]; intros r; cbn [rd_vr2s]; [apply safe_ok|].
  apply safe_bind; [apply vr_read_safe|intros ? _].
  apply safe_bind; [apply vr_read_safe|intros ? _].
  apply safe_bind; [apply IH|intros; apply safe_ok].
Qed.

Lemma rd_vr2s_length n f1 f2 : forall r x, rd_vr2s n f1 f2 r = Ok x -> length (fst x) = n.
Proof.
  induction n as [|n IH]; intros r x; cbn [rd_vr2s].
  - intros H. injection H as <-. reflexivity.
  - destruct (M_vr_read f1 r) as [x1| | |]; cbn [obind]; try discriminate.
    destruct (M_vr_read f2 (snd x1)) as [x2| | |]; cbn [obind]; try discriminate.
    destruct (rd_vr2s n f1 f2 (snd x2)) as [y| | |] eqn:E; cbn [obind]; try discriminate.
    intros H. injection H as <-. cbn [fst length]. f_equal. eapply IH. exact E.
Qed.

Lemma chunk_rows_safe {A} c2 n : forall (recs : list A),
  length recs = (n * c2)%nat -> safe (chunk_rows n c2 recs).
Proof.
  induction n as [|n IH]; intros recs Hl; cbn [chunk_rows]; [apply safe_ok|].
  destruct (Nat.ltb_spec (length recs) c2) as [Hlt|Hge]; [lia|].
  apply safe_bind; [|intros; apply safe_ok].
  apply IH. rewrite skipn_length. lia.
Qed.

Lemma gpos22_read_safe data pos : safe (M_gpos22_read data pos).
Proof.
  unfold M_gpos22_read.
  destruct (seek data (pos + 2))
    as [|a [|b [|c [|d [|e [|f [|g [|h [|i [|j [|k [|l [|m [|n r]]]]]]]]]]]]]];
    try apply safe_err.
  destruct (65535 <? _); [apply safe_err|].
  apply safe_bind; [apply rd_vr2s_safe|intros x Hx].
  apply safe_bind; [apply covset_read_safe|intros ? _].
  apply safe_bind; [apply cd_read_safe|intros ? _].
  apply safe_bind; [apply cd_read_safe|intros ? _].
  apply safe_bind; [|intros; apply safe_ok].
  apply chunk_rows_safe. rewrite (rd_vr2s_length _ _ _ _ _ Hx).
  apply Nnat.N2Nat.inj_mul.
Qed.

(* ---- GPOS 3.1 ---- *)

Lemma rd_opt_anchor_safe data pos o : safe (rd_opt_anchor data pos o).
Proof. unfold rd_opt_anchor. destruct (o =? 0); [apply safe_ok|apply anchor_read_safe]. Qed.

(* 2*entryExitCount offsets: offsets[2*i+1] exists *)
Lemma rd_ee_safe data pos k : forall offs,
  length offs = (2 * k)%nat -> safe (rd_ee data pos offs).
Proof.
  induction k as [|k IH]; intros offs Hl.
  - destruct offs; [apply safe_ok|cbn [length] in Hl; lia].
  - destruct offs as [|eo [|xo r]]; cbn [length] in Hl; try lia.
    cbn [rd_ee].
    apply safe_bind; [apply rd_opt_anchor_safe|intros ? _].
    apply safe_bind; [apply rd_opt_anchor_safe|intros ? _].
    apply safe_bind; [apply IH; lia|intros; apply safe_ok].
Qed.

Lemma gpos31_read_safe data pos : safe (M_gpos31_read data pos).
Proof.
  unfold M_gpos31_read.
  destruct (seek data (pos + 2)) as [|a [|b [|c [|d r]]]]; try apply safe_err.
  apply safe_bind; [apply rd_u16s_safe|intros x Hx].
  apply safe_bind; [|intros ? _].
  - apply (rd_ee_safe data pos (N.to_nat (w16 c d))). apply (rd_u16s_length _ _ _ Hx).
  - apply safe_bind; [apply cov_read_safe|intros; apply safe_ok].
Qed.

(* ---- GPOS 5.1 (repaired reader) ---- *)

Lemma rd_ligattach_safe data apos mcc : safe (rd_ligattach data apos mcc).
Proof.
  unfold rd_ligattach.
  destruct (seek data apos) as [|x [|y r]]; try apply safe_err.
  destruct (32764 <? _); [apply safe_err|].
  apply safe_bind; [apply rd_u16s_safe|intros offs Hoffs].
  apply rd_rows_safe. rewrite (rd_u16s_length _ _ _ Hoffs). apply Nnat.N2Nat.inj_mul.
Qed.

Lemma rd_ligs_safe data lapos mcc offs : forall work, safe (rd_ligs data lapos mcc offs work).
Proof.
  induction offs as [|o r IH]; intros work; cbn [rd_ligs]; [apply safe_ok|].
  destruct (seek data (lapos + o)) as [|x [|y r']]; try apply safe_err.
  destruct (maxLigWork <? _); [apply safe_err|].
  apply safe_bind; [apply rd_ligattach_safe|intros ? _].
  apply safe_bind; [apply IH|intros; apply safe_ok].
Qed.

Lemma gpos51_read_safe data pos : safe (M_gpos51_read data pos).
Proof.
  unfold M_gpos51_read.
  destruct (seek data (pos + 2)) as [|a [|b [|c [|d [|e [|f [|g [|h [|i [|j r]]]]]]]]]];
    try apply safe_err.
  apply safe_bind; [apply cov_read_safe|intros markCov _].
  apply safe_bind; [apply cov_read_safe|intros ligCov _].
  apply safe_bind; [apply markarray_read_safe|intros markArray _].
  destruct (seek data (pos + w16 i j)) as [|x [|y r']]; try apply safe_err.
  apply safe_bind; [apply rd_u16s_safe|intros offs _].
  apply safe_bind; [apply rd_ligs_safe|intros; apply safe_ok].
Qed.
