(* C08B/Proofs_tie.v — translator tie: the limits the models use as literals
   are the ones regenerated from the Go source on every run (coq/Gen/C08B.v).
   A changed constant in /repo breaks one of these lemmas. *)
From Coq Require Import List NArith ZArith Bool Lia.
From Common Require Import Bytes Outcome.
From Gen Require Import C08B.
From C08 Require Import Model ModelCD ModelSub ModelSub2.
From C08B Require Import Model Model2 Model3.
Import ListNotations.
Local Open Scope N_scope.

(* readGpos4_1 / readGpos6_1 / readGpos5_1: numOffsets > (65536-6-2)/2 is rejected;
   the encoders refuse the same products *)
Lemma tie_max_offsets :
  c08b_maxOffsets41 = 32764 /\ c08b_maxOffsets61 = 32764 /\ c08b_maxOffsets51 = 32764 /\
  c08b_encMaxOffsets41 = 32764 /\ c08b_encMaxOffsets61 = 32764.
Proof. repeat split; reflexivity. Qed.

(* readGpos2_2: numRecords >= 65536 is rejected; Gpos2_2.encode refuses class1Count*class2Count > 0xFFFF *)
Lemma tie_max_records : c08b_maxRecords22 = 65536 /\ c08b_encMaxRecords22 = 65535.
Proof. split; reflexivity. Qed.

(* the 16-bit offset guards of the encoders *)
Lemma tie_offset_guards :
  c08b_encMaxOffset41 = 65535 /\ c08b_encMaxOffset61 = 65535 /\
  c08b_encMaxOffset22 = 65535 /\ c08b_encMaxOffset31 = 65535.
Proof. repeat split; reflexivity. Qed.

(* readGpos5_1: the work budget *)
Lemma tie_lig_work : c08b_maxLigatureWork = maxLigWork.
Proof. reflexivity. Qed.

(* anchor.Read: format == 0 || format > 3 is rejected *)
Lemma tie_anchor_format : c08b_maxAnchorFormat = 3.
Proof. reflexivity. Qed.

(* the models do use these limits: the guards fire exactly beyond them *)
Lemma tie_reader_limit_41 data pos r a b c d e f g h i j x y :
  seek data (pos + 2) = a :: b :: c :: d :: e :: f :: g :: h :: i :: j :: r ->
  forall markCov baseCov markArray,
    M_cov_read data (pos + w16 a b) = Ok markCov ->
    M_cov_read data (pos + w16 c d) = Ok baseCov ->
    M_markarray_read data (pos + w16 g h) (lenN markCov) = Ok markArray ->
    forall r', seek data (pos + w16 i j) = x :: y :: r' ->
    c08b_maxOffsets41 < fst (clip_count baseCov (w16 x y)) * w16 e f ->
    M_gpos41_read data pos = Err.
Proof.
  intros Hs markCov baseCov markArray H1 H2 H3 r' Hs2 Hlim.
  unfold M_gpos41_read, M_markbase_read. rewrite Hs, H1. cbn [obind]. rewrite H2. cbn [obind].
  rewrite H3. cbn [obind]. rewrite Hs2.
  change c08b_maxOffsets41 with 32764 in Hlim.
  apply N.ltb_lt in Hlim. rewrite Hlim. reflexivity.
Qed.
