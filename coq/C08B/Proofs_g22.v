(* C08B/Proofs_g22.v — GPOS 2.2 (class pair adjustment): declared size =
   emitted size, round trip, refusal-or-fit. *)
From Coq Require Import List NArith ZArith Bool Lia.
From Coq Require Import ZifyBool ZifyNat ZifyN.
From Common Require Import Bytes Outcome.
From C08 Require Import Model ModelCD ModelSub ModelSub2 Proofs Proofs_cd Proofs_sub.
From C08B Require Import Model Model2 Proofs_mark.
Import ListNotations.
Local Open Scope N_scope.
Ltac Zify.zify_post_hook ::= Z.div_mod_to_equations.

Lemma vr_okb_ok v : vr_okb v = true -> vr_ok v.
Proof.
  destruct v as [r|]; cbn [vr_okb vr_ok]; [|trivial].
  unfold i16_ok. intros H. rewrite !andb_true_iff in H. lia.
Qed.

Lemma vr2_bytes_lenN f1 f2 p : f1 < 256 -> f2 < 256 ->
  lenN (vr2_bytes f1 f2 p) = M_vr_encode_len f1 + M_vr_encode_len f2.
Proof.
  intros H1 H2. unfold vr2_bytes. rewrite lenN_app, !vr_len_agrees by assumption. reflexivity.
Qed.

Lemma vr2s_lenN f1 f2 l : f1 < 256 -> f2 < 256 ->
  lenN (flat_map (vr2_bytes f1 f2) l) = (M_vr_encode_len f1 + M_vr_encode_len f2) * lenN l.
Proof.
  intros H1 H2. induction l as [|p l IH]; cbn [flat_map]; [unfold lenN; cbn [length]; lia|].
  rewrite lenN_app, IH, vr2_bytes_lenN, lenN_cons by assumption. lia.
Qed.

Definition vr2_norm (f1 f2 : N) (p : vr2) : vr2 := (vr_norm f1 (fst p), vr_norm f2 (snd p)).

Lemma rd_vr2s_flat f1 f2 l : forall rest,
  (forall p, In p l -> vr_ok (fst p) /\ vr_ok (snd p) /\ vr_covers f1 (fst p) /\ vr_covers f2 (snd p)) ->
  rd_vr2s (length l) f1 f2 (flat_map (vr2_bytes f1 f2) l ++ rest) = Ok (map (vr2_norm f1 f2) l, rest).
Proof.
  induction l as [|p l IH]; intros rest H; cbn [length rd_vr2s flat_map map app]; [reflexivity|].
  destruct (H p (or_introl eq_refl)) as (O1 & O2 & C1 & C2).
  unfold vr2_bytes at 1. rewrite <- !app_assoc.
  rewrite vr_read_encode by assumption. cbn [obind fst snd].
  rewrite vr_read_encode by assumption. cbn [obind fst snd].
  rewrite IH by (intros q Hq; apply H; right; exact Hq). cbn [obind fst snd]. reflexivity.
Qed.

Lemma chunk_rows_ok {A} (rows : list (list A)) c2 :
  Forall (fun r => length r = c2) rows -> chunk_rows (length rows) c2 (concat rows) = Ok rows.
Proof.
  induction rows as [|row rest IH]; intros H; cbn [length chunk_rows concat]; [reflexivity|].
  apply Forall_cons_iff in H. destruct H as [Hr H].
  destruct (Nat.ltb_spec (length (row ++ concat rest)) c2) as [Hlt|_];
    [rewrite app_length in Hlt; lia|].
  assert (E1 : firstn c2 (row ++ concat rest) = row).
  { rewrite <- Hr. rewrite firstn_app, Nat.sub_diag, firstn_all. cbn [firstn]. apply app_nil_r. }
  assert (E2 : skipn c2 (row ++ concat rest) = concat rest).
  { rewrite <- Hr. rewrite skipn_app, Nat.sub_diag, skipn_all. reflexivity. }
  rewrite E1, E2, IH by exact H. reflexivity.
Qed.

Lemma gpos22_wf_facts gl cd1 cd2 adj :
  gpos22_wf gl cd1 cd2 adj = true ->
  strictly_inc gl = true /\ glyphs_ok gl = true /\ cd_ok cd1 = true /\ cd_ok cd2 = true /\
  Forall (fun row => lenN row = g22_c2 adj) adj /\
  (forall p, In p (concat adj) -> vr_ok (fst p) /\ vr_ok (snd p)).
Proof.
  unfold gpos22_wf. intros H. rewrite !andb_true_iff in H.
  destruct H as [[[[H1 H2] H3] H4] H5]. rewrite forallb_forall in H5.
  repeat split; try assumption.
  - apply Forall_forall. intros row Hin. specialize (H5 row Hin).
    apply andb_true_iff in H5. destruct H5 as [H5 _]. apply N.eqb_eq. exact H5.
  - apply in_concat in H. destruct H as (row & Hin & Hp). specialize (H5 row Hin).
    apply andb_true_iff in H5. destruct H5 as [_ H5]. rewrite forallb_forall in H5.
    specialize (H5 p Hp). unfold vr2_okb in H5. apply andb_true_iff in H5. apply vr_okb_ok. tauto.
  - apply in_concat in H. destruct H as (row & Hin & Hp). specialize (H5 row Hin).
    apply andb_true_iff in H5. destruct H5 as [_ H5]. rewrite forallb_forall in H5.
    specialize (H5 p Hp). unfold vr2_okb in H5. apply andb_true_iff in H5. apply vr_okb_ok. tauto.
Qed.

Lemma g22_vf_lt adj : g22_vf1 adj < 256 /\ g22_vf2 adj < 256.
Proof. unfold g22_vf1, g22_vf2. split; apply vr_union_facts. Qed.

Lemma g22_covered adj p : In p (concat adj) ->
  vr_covers (g22_vf1 adj) (fst p) /\ vr_covers (g22_vf2 adj) (snd p).
Proof.
  intros Hin. unfold g22_vf1, g22_vf2. split.
  - apply (proj2 (vr_union_facts (map fst (concat adj)))). apply in_map. exact Hin.
  - apply (proj2 (vr_union_facts (map snd (concat adj)))). apply in_map. exact Hin.
Qed.

Lemma g22_values_lenN adj :
  Forall (fun row => lenN row = g22_c2 adj) adj ->
  lenN (flat_map (vr2_bytes (g22_vf1 adj) (g22_vf2 adj)) (concat adj))
  = g22_c1 adj * g22_c2 adj * g22_reclen adj.
Proof.
  intros Hrect. destruct (g22_vf_lt adj) as [F1 F2].
  rewrite vr2s_lenN by assumption. rewrite (concat_lenN_rect adj _ Hrect).
  unfold g22_reclen, g22_c1. lia.
Qed.

(* ---- encodeLen = |encode| ---- *)
Lemma gpos22_len_agrees g gl cd1 cd2 adj b :
  gpos22_wf gl cd1 cd2 adj = true ->
  M_gpos22_encode_g g gl cd1 cd2 adj = Ok b ->
  M_gpos22_len gl cd1 cd2 adj = Ok (lenN b).
Proof.
  intros Hwf. apply gpos22_wf_facts in Hwf. destruct Hwf as (Hs & Hg & Hd1 & Hd2 & Hrect & Hvr).
  unfold M_gpos22_encode_g, M_gpos22_len.
  destruct (M_cov_encode (S_cov_table gl)) as [cb| | |] eqn:Hc; cbn [obind]; try discriminate.
  destruct (g && _); [discriminate|].
  destruct (M_cd_append cd1) as [d1| | |] eqn:E1; cbn [obind]; try discriminate.
  destruct (M_cd_append cd2) as [d2| | |] eqn:E2; cbn [obind]; try discriminate.
  intros H. apply ok_inj in H. subst b.
  rewrite (cov_encode_len_ok gl cb Hg Hc). cbn [obind]. f_equal.
  rewrite (cd_len_agrees cd1 d1 Hd1 E1), (cd_len_agrees cd2 d2 Hd2 E2).
  lens. rewrite (g22_values_lenN adj Hrect). unfold lenN. lia.
Qed.

(* ---- round trip ---- *)
Lemma gpos22_roundtrip gl cd1 cd2 adj b pre post :
  gpos22_wf gl cd1 cd2 adj = true ->
  M_gpos22_encode gl cd1 cd2 adj = Ok b ->
  M_gpos22_read (pre ++ b ++ post) (lenN pre)
  = Ok (gl, S_cd_nonzero cd1, S_cd_nonzero cd2, g22_norm adj).
Proof.
  intros Hwf. apply gpos22_wf_facts in Hwf. destruct Hwf as (Hs & Hg & Hd1 & Hd2 & Hrect & Hvr).
  unfold M_gpos22_encode, M_gpos22_encode_g.
  destruct (g22_vf_lt adj) as [F1 F2].
  set (f1 := g22_vf1 adj) in *. set (f2 := g22_vf2 adj) in *.
  set (c1 := g22_c1 adj). set (c2 := g22_c2 adj) in *.
  destruct (M_cov_encode (S_cov_table gl)) as [cb| | |] eqn:Hc; cbn [obind]; try discriminate.
  set (covOff := 16 + c1 * c2 * g22_reclen adj).
  set (cd1Off := covOff + lenN cb). set (cd2Off := cd1Off + M_cd_append_len cd1).
  cbn [andb].
  destruct ((65535 <? cd2Off) || (65535 <? c1) || (65535 <? c2) || (65535 <? c1 * c2)) eqn:Hguard;
    [discriminate|].
  rewrite !orb_false_iff in Hguard. destruct Hguard as [[[G1 G2] G3] G4].
  destruct (M_cd_append cd1) as [d1| | |] eqn:E1; cbn [obind]; try discriminate.
  destruct (M_cd_append cd2) as [d2| | |] eqn:E2; cbn [obind]; try discriminate.
  intros H. apply ok_inj in H. subst b.
  pose proof (cd_len_agrees cd1 d1 Hd1 E1) as L1. fold (lenN d1) in L1.
  set (V := flat_map (vr2_bytes f1 f2) (concat adj)).
  assert (HV : lenN V = c1 * c2 * g22_reclen adj) by (apply g22_values_lenN; exact Hrect).
  set (H16 := [0; 2] ++ be16 covOff ++ be16 f1 ++ be16 f2 ++ be16 cd1Off ++ be16 cd2Off ++ be16 c1 ++ be16 c2).
  assert (HH : lenN H16 = 16) by reflexivity.
  set (D := pre ++ ([0; 2] ++ be16 covOff ++ be16 f1 ++ be16 f2 ++ be16 cd1Off ++ be16 cd2Off ++
                    be16 c1 ++ be16 c2 ++ V ++ cb ++ d1 ++ d2) ++ post).
  assert (Hseek : seek D (lenN pre + 2) =
                  be16 covOff ++ be16 f1 ++ be16 f2 ++ be16 cd1Off ++ be16 cd2Off ++
                  be16 c1 ++ be16 c2 ++ V ++ cb ++ d1 ++ d2 ++ post).
  { unfold D. rewrite <- !app_assoc. apply (seek_at pre [0; 2]). }
  unfold M_gpos22_read. rewrite Hseek. cbn [be16 app].
  rewrite !w16_be16_eq by (unfold cd2Off, cd1Off in *; lia).
  destruct (65535 <? c1 * c2) eqn:G4'; [discriminate|].
  (* the value records *)
  assert (Hcl : lenN (concat adj) = c1 * c2) by (apply concat_lenN_rect; exact Hrect).
  replace (N.to_nat (c1 * c2)) with (length (concat adj)) by (rewrite <- Hcl; symmetry; apply lenN_nat).
  unfold V at 1.
  rewrite rd_vr2s_flat.
  2:{ intros p Hp. destruct (Hvr p Hp). destruct (g22_covered adj p Hp). tauto. }
  cbn [obind fst].
  (* coverage *)
  assert (HD1 : D = pre ++ ((H16 ++ V) ++ cb) ++ (d1 ++ d2 ++ post))
    by (unfold D, H16; now rewrite <- !app_assoc).
  rewrite HD1 at 1.
  rewrite (covset_of_cov _ _ _ (cov_at gl (H16 ++ V) pre _ cb covOff Hs Hg Hc
                                  ltac:(rewrite lenN_app, HH, HV; reflexivity))).
  cbn [obind]. unfold S_cov_pairs. rewrite map_fst_cov_pairs.
  (* class tables *)
  assert (HD2 : D = (pre ++ H16 ++ V ++ cb) ++ d1 ++ (d2 ++ post))
    by (unfold D, H16; now rewrite <- !app_assoc).
  assert (P2 : lenN pre + cd1Off = N.of_nat (length (pre ++ H16 ++ V ++ cb))).
  { fold (lenN (pre ++ H16 ++ V ++ cb)). rewrite !lenN_app, HH, HV. unfold cd1Off, covOff. lia. }
  rewrite HD2 at 1. rewrite P2, (cd_roundtrip cd1 d1 _ _ Hd1 E1). cbn [obind].
  assert (HD3 : D = (pre ++ H16 ++ V ++ cb ++ d1) ++ d2 ++ post)
    by (unfold D, H16; now rewrite <- !app_assoc).
  assert (P3 : lenN pre + cd2Off = N.of_nat (length (pre ++ H16 ++ V ++ cb ++ d1))).
  { fold (lenN (pre ++ H16 ++ V ++ cb ++ d1)). rewrite !lenN_app, HH, HV, <- L1.
    unfold cd2Off, cd1Off, covOff. lia. }
  rewrite HD3 at 1. rewrite P3, (cd_roundtrip cd2 d2 _ _ Hd2 E2). cbn [obind].
  (* the rows *)
  assert (Hnorm : map (vr2_norm f1 f2) (concat adj) = concat (g22_norm adj)).
  { unfold g22_norm. fold f1 f2. rewrite concat_map. reflexivity. }
  rewrite Hnorm.
  replace (N.to_nat c1) with (length (g22_norm adj))
    by (unfold g22_norm, c1, g22_c1; rewrite map_length; symmetry; apply lenN_nat).
  rewrite chunk_rows_ok; [reflexivity|].
  unfold g22_norm. apply Forall_map. eapply Forall_impl; [|exact Hrect]. cbv beta.
  intros row Hr. rewrite map_length. rewrite <- Hr. symmetry. apply lenN_nat.
Qed.

(* ---- refuses loudly or every 16-bit field holds its value ---- *)
Lemma gpos22_refuses_or_fits gl cd1 cd2 adj :
  gpos22_wf gl cd1 cd2 adj = true ->
  M_gpos22_encode gl cd1 cd2 adj = Panic \/
  exists cb b, M_cov_encode (S_cov_table gl) = Ok cb /\
               M_gpos22_encode gl cd1 cd2 adj = Ok b /\
               Forall (fun v => v <= 65535) (gpos22_fields gl cd1 cd2 adj cb).
Proof.
  intros Hwf. apply gpos22_wf_facts in Hwf. destruct Hwf as (Hs & Hg & Hd1 & Hd2 & Hrect & Hvr).
  destruct (cov_roundtrip gl [] [] Hs Hg) as (cb & Hc & _).
  unfold M_gpos22_encode, M_gpos22_encode_g. rewrite Hc. cbn [obind andb].
  match goal with |- context [if ?c then Panic else _] => destruct c eqn:Hguard end; [left; reflexivity|].
  rewrite !orb_false_iff in Hguard. destruct Hguard as [[[G1 G2] G3] G4].
  destruct (cd_append_total cd1) as [A1 A2]. destruct (cd_append_total cd2) as [B1 B2].
  destruct (M_cd_append cd1) as [d1| | |]; cbn [obind]; try congruence; [|left; reflexivity].
  destruct (M_cd_append cd2) as [d2| | |]; cbn [obind]; try congruence; [|left; reflexivity].
  right. exists cb. eexists. repeat split.
  unfold gpos22_fields.
  repeat (apply Forall_cons; [lia|]). constructor.
Qed.
