(* C08B/Props.v — part C08B of property C08: the binary codecs of GPOS 2.2,
   3.1, 4.1, 5.1, 6.1 with opentype/anchor and opentype/markarray.
   The property theorems.  Nothing else.

   Conventions: a coverage table handed to an encoder is [S_cov_table gl] for
   its glyph list [gl] (index = rank); the readers are run on the emitted bytes
   [b] wherever they sit in a file ([pre ++ b ++ post], position [lenN pre]).
   [..._wf] are boolean well-formedness predicates (Model*.v); Examples.v shows
   non-trivial values that satisfy them.  The models mirror /repo with
   fixes/C08-gpos61-offset-guards.diff, C08-gpos41-markclasscount.diff,
   C08-gpos22-gpos31-offset-guards.diff and C08-gpos51-reader.diff applied; the
   [_refuted_found] theorems are about the code as it was found. *)
From Coq Require Import List NArith ZArith Bool Lia.
From Common Require Import Bytes Outcome.
From C08 Require Import Model ModelCD ModelSub ModelSub2 Proofs_sub.
From C08B Require Import Model Model2 Model3 Proofs_total Proofs_mark Proofs_g31 Proofs_g22 Proofs_g51 Proofs_refuted.
Import ListNotations.
Local Open Scope N_scope.

(* ---------------- GPOS 4.1 (mark-to-base, gpos4.go) ---------------- *)

(* encodeLen() = len(encode()) for every value the encoder does not refuse *)
Theorem gpos4_1_len_agrees :
  forall glm glb marks base b,
    glyphs_ok glm = true -> glyphs_ok glb = true ->
    M_gpos41_encode (S_cov_table glm) (S_cov_table glb) marks base = Ok b ->
    M_gpos41_len (S_cov_table glm) (S_cov_table glb) marks base = Ok (lenN b).
Proof.
  intros glm glb marks base b H1 H2.
  apply markbase_len_agrees; apply keys_ok_table; assumption.
Qed.
Print Assumptions gpos4_1_len_agrees.

(* every well-formed value the encoder accepts reads back unchanged *)
Theorem gpos4_1_roundtrip :
  forall glm glb marks base b pre post,
    markbase_wf glm glb marks base = true ->
    M_gpos41_encode (S_cov_table glm) (S_cov_table glb) marks base = Ok b ->
    M_gpos41_read (pre ++ b ++ post) (lenN pre) = Ok (S_cov_pairs glm, S_cov_pairs glb, marks, base).
Proof. exact markbase_roundtrip. Qed.
Print Assumptions gpos4_1_roundtrip.

(* for every well-formed value the encoder either refuses loudly (panic) or
   returns bytes, and then every Go int it wrote into a 16-bit offset or count
   field (markbase_fields: the header offsets, markClassCount, the counts, the
   anchor offsets of the mark array and of the base array) is at most 65535,
   i.e. was written without truncation *)
Theorem gpos4_1_refuses_or_fits :
  forall glm glb marks base,
    markbase_wf glm glb marks base = true ->
    M_gpos41_encode (S_cov_table glm) (S_cov_table glb) marks base = Panic \/
    exists mcb bcb b,
      M_cov_encode (S_cov_table glm) = Ok mcb /\ M_cov_encode (S_cov_table glb) = Ok bcb /\
      M_gpos41_encode (S_cov_table glm) (S_cov_table glb) marks base = Ok b /\
      Forall (fun v => v <= 65535) (markbase_fields mcb bcb marks base).
Proof. exact markbase_refuses_or_fits. Qed.
Print Assumptions gpos4_1_refuses_or_fits.

(* readGpos4_1 never panics (and the model has no fuel to run out of) on any bytes *)
Theorem gpos4_1_read_total :
  forall (data : list N) (pos : N),
    M_gpos41_read data pos <> Panic /\ M_gpos41_read data pos <> OutOfFuel.
Proof. exact markbase_read_safe. Qed.
Print Assumptions gpos4_1_read_total.

(* the code as found (offset guards present, count guards absent): a mark of
   class 65535 without base records is accepted and markClassCount = 65536 is
   written as 0; the code as it is now refuses it *)
Theorem gpos4_1_refuses_or_fits_refuted_found :
  markbase_wf [5] [] [(65535, (1%Z, 1%Z))] [] = true /\
  is_ok (M_gpos41_encode_found (S_cov_table [5]) (S_cov_table []) [(65535, (1%Z, 1%Z))] []) = true /\
  fits16 (markbase_fields (outcome_bytes (M_cov_encode (S_cov_table [5])))
                          (outcome_bytes (M_cov_encode (S_cov_table []))) [(65535, (1%Z, 1%Z))] []) = false /\
  M_gpos41_encode (S_cov_table [5]) (S_cov_table []) [(65535, (1%Z, 1%Z))] [] = Panic.
Proof. exact gpos41_found_markclasscount_refuted. Qed.
Print Assumptions gpos4_1_refuses_or_fits_refuted_found.

(* ---------------- GPOS 6.1 (mark-to-mark, gpos6.go) ---------------- *)
(* the same code as GPOS 4.1, now with the same guards *)

Theorem gpos6_1_len_agrees :
  forall glm glb marks base b,
    glyphs_ok glm = true -> glyphs_ok glb = true ->
    M_gpos61_encode (S_cov_table glm) (S_cov_table glb) marks base = Ok b ->
    M_gpos61_len (S_cov_table glm) (S_cov_table glb) marks base = Ok (lenN b).
Proof.
  intros glm glb marks base b H1 H2.
  apply markbase_len_agrees; apply keys_ok_table; assumption.
Qed.
Print Assumptions gpos6_1_len_agrees.

Theorem gpos6_1_roundtrip :
  forall glm glb marks base b pre post,
    markbase_wf glm glb marks base = true ->
    M_gpos61_encode (S_cov_table glm) (S_cov_table glb) marks base = Ok b ->
    M_gpos61_read (pre ++ b ++ post) (lenN pre) = Ok (S_cov_pairs glm, S_cov_pairs glb, marks, base).
Proof. exact markbase_roundtrip. Qed.
Print Assumptions gpos6_1_roundtrip.

Theorem gpos6_1_refuses_or_fits :
  forall glm glb marks base,
    markbase_wf glm glb marks base = true ->
    M_gpos61_encode (S_cov_table glm) (S_cov_table glb) marks base = Panic \/
    exists mcb bcb b,
      M_cov_encode (S_cov_table glm) = Ok mcb /\ M_cov_encode (S_cov_table glb) = Ok bcb /\
      M_gpos61_encode (S_cov_table glm) (S_cov_table glb) marks base = Ok b /\
      Forall (fun v => v <= 65535) (markbase_fields mcb bcb marks base).
Proof. exact markbase_refuses_or_fits. Qed.
Print Assumptions gpos6_1_refuses_or_fits.

Theorem gpos6_1_read_total :
  forall (data : list N) (pos : N),
    M_gpos61_read data pos <> Panic /\ M_gpos61_read data pos <> OutOfFuel.
Proof. exact markbase_read_safe. Qed.
Print Assumptions gpos6_1_read_total.

(* the size agreement also held for the unguarded code: the defect was the
   silent truncation, not the size *)
Theorem gpos6_1_len_agrees_found :
  forall glm glb marks base b,
    glyphs_ok glm = true -> glyphs_ok glb = true ->
    M_gpos61_encode_found (S_cov_table glm) (S_cov_table glb) marks base = Ok b ->
    M_gpos61_len (S_cov_table glm) (S_cov_table glb) marks base = Ok (lenN b).
Proof.
  intros glm glb marks base b H1 H2.
  apply markbase_len_agrees; apply keys_ok_table; assumption.
Qed.

(* the code as found: 6554 mark records (well-formed) are encoded without a
   refusal although the last mark anchor offset (65536) and the mark2 array
   offset do not fit 16 bits (gtab.Read rejects the bytes: findings/C08.json);
   the code as it is now refuses the value *)
Theorem gpos6_1_refuses_or_fits_refuted_found :
  markbase_wf w61_glm w61_glb w61_marks w61_base = true /\
  is_ok (M_gpos61_encode_found (S_cov_table w61_glm) (S_cov_table w61_glb) w61_marks w61_base) = true /\
  fits16 (markbase_fields (outcome_bytes (M_cov_encode (S_cov_table w61_glm)))
                          (outcome_bytes (M_cov_encode (S_cov_table w61_glb))) w61_marks w61_base) = false /\
  M_gpos61_encode (S_cov_table w61_glm) (S_cov_table w61_glb) w61_marks w61_base = Panic.
Proof. exact gpos61_found_refuted. Qed.
Print Assumptions gpos6_1_refuses_or_fits_refuted_found.

(* ---------------- GPOS 2.2 (class pair adjustment, gpos.go) ---------------- *)

Theorem gpos2_2_len_agrees :
  forall gl cd1 cd2 adj b,
    gpos22_wf gl cd1 cd2 adj = true ->
    M_gpos22_encode gl cd1 cd2 adj = Ok b ->
    M_gpos22_len gl cd1 cd2 adj = Ok (lenN b).
Proof. exact (gpos22_len_agrees true). Qed.
Print Assumptions gpos2_2_len_agrees.

(* normal form: class 0 entries of the class tables mean "not listed"
   (S_cd_nonzero); a nil value record and the all-zero record are the same
   adjustment, the common value format of each side decides which one the
   reader returns (g22_norm) *)
Theorem gpos2_2_roundtrip :
  forall gl cd1 cd2 adj b pre post,
    gpos22_wf gl cd1 cd2 adj = true ->
    M_gpos22_encode gl cd1 cd2 adj = Ok b ->
    M_gpos22_read (pre ++ b ++ post) (lenN pre)
    = Ok (gl, S_cd_nonzero cd1, S_cd_nonzero cd2, g22_norm adj).
Proof. exact gpos22_roundtrip. Qed.
Print Assumptions gpos2_2_roundtrip.

(* gpos22_fields: coverage offset, the two class table offsets, class1Count, class2Count *)
Theorem gpos2_2_refuses_or_fits :
  forall gl cd1 cd2 adj,
    gpos22_wf gl cd1 cd2 adj = true ->
    M_gpos22_encode gl cd1 cd2 adj = Panic \/
    exists cb b, M_cov_encode (S_cov_table gl) = Ok cb /\
                 M_gpos22_encode gl cd1 cd2 adj = Ok b /\
                 Forall (fun v => v <= 65535) (gpos22_fields gl cd1 cd2 adj cb).
Proof. exact gpos22_refuses_or_fits. Qed.
Print Assumptions gpos2_2_refuses_or_fits.

Theorem gpos2_2_read_total :
  forall (data : list N) (pos : N),
    M_gpos22_read data pos <> Panic /\ M_gpos22_read data pos <> OutOfFuel.
Proof. exact gpos22_read_safe. Qed.
Print Assumptions gpos2_2_read_total.

(* the size agreement held for the unguarded code as well *)
Theorem gpos2_2_len_agrees_found :
  forall gl cd1 cd2 adj b,
    gpos22_wf gl cd1 cd2 adj = true ->
    M_gpos22_encode_found gl cd1 cd2 adj = Ok b ->
    M_gpos22_len gl cd1 cd2 adj = Ok (lenN b).
Proof. exact (gpos22_len_agrees false). Qed.

(* the code as found: 100 x 100 classes with 8-byte records are written with
   the coverage offset 80016 truncated; the bytes do not read back *)
Theorem gpos2_2_refuses_or_fits_refuted_found :
  gpos22_wf [3] [(3, 1)] [(4, 1)] w22_adj = true /\
  is_ok (M_gpos22_encode_found [3] [(3, 1)] [(4, 1)] w22_adj) = true /\
  fits16 (gpos22_fields [3] [(3, 1)] [(4, 1)] w22_adj (outcome_bytes (M_cov_encode (S_cov_table [3])))) = false /\
  is_ok (M_gpos22_read (outcome_bytes (M_gpos22_encode_found [3] [(3, 1)] [(4, 1)] w22_adj)) 0) = false /\
  M_gpos22_encode [3] [(3, 1)] [(4, 1)] w22_adj = Panic.
Proof. exact gpos22_found_refuted. Qed.
Print Assumptions gpos2_2_refuses_or_fits_refuted_found.

(* ---------------- GPOS 3.1 (cursive attachment, gpos.go) ---------------- *)

Theorem gpos3_1_len_agrees :
  forall gl recs b,
    glyphs_ok gl = true ->
    M_gpos31_encode (S_cov_table gl) recs = Ok b ->
    M_gpos31_len (S_cov_table gl) recs = Ok (lenN b).
Proof. intros gl recs b H. apply gpos31_len_agrees. apply keys_ok_table. exact H. Qed.
Print Assumptions gpos3_1_len_agrees.

Theorem gpos3_1_roundtrip :
  forall gl recs b pre post,
    gpos31_wf gl recs = true ->
    M_gpos31_encode (S_cov_table gl) recs = Ok b ->
    M_gpos31_read (pre ++ b ++ post) (lenN pre) = Ok (S_cov_pairs gl, recs).
Proof. exact gpos31_roundtrip. Qed.
Print Assumptions gpos3_1_roundtrip.

(* gpos31_fields: the coverage offset, entryExitCount, the offset of every anchor present *)
Theorem gpos3_1_refuses_or_fits :
  forall gl recs,
    gpos31_wf gl recs = true ->
    M_gpos31_encode (S_cov_table gl) recs = Panic \/
    exists b, M_gpos31_encode (S_cov_table gl) recs = Ok b /\
              Forall (fun v => v <= 65535) (gpos31_fields recs).
Proof. exact gpos31_refuses_or_fits. Qed.
Print Assumptions gpos3_1_refuses_or_fits.

Theorem gpos3_1_read_total :
  forall (data : list N) (pos : N),
    M_gpos31_read data pos <> Panic /\ M_gpos31_read data pos <> OutOfFuel.
Proof. exact gpos31_read_safe. Qed.
Print Assumptions gpos3_1_read_total.

(* the code as found: 16381 records of which only the last has anchors: the
   exit anchor's offset 65536 is written as 0 and, the encoder deciding on the
   truncated offset, the anchor is not emitted: encodeLen() = len(encode()) + 6 *)
Theorem gpos3_1_len_agrees_refuted_found :
  gpos31_wf w31_gl w31_recs = true /\
  is_ok (M_gpos31_encode_found (S_cov_table w31_gl) w31_recs) = true /\
  fits16 (gpos31_fields w31_recs) = false /\
  M_gpos31_len (S_cov_table w31_gl) w31_recs =
    Ok (lenN (outcome_bytes (M_gpos31_encode_found (S_cov_table w31_gl) w31_recs)) + 6) /\
  M_gpos31_encode (S_cov_table w31_gl) w31_recs = Panic.
Proof. exact gpos31_found_refuted. Qed.
Print Assumptions gpos3_1_len_agrees_refuted_found.

(* ---------------- GPOS 5.1 (mark-to-ligature, gpos5.go) ---------------- *)

(* Gpos5_1.encode / encodeLen are not implemented: every value is refused
   loudly (open finding gpos51-encode-not-implemented); the len / round-trip
   clauses are therefore vacuous for the library's own encoder *)
Theorem gpos5_1_encode_refuses :
  forall mcov lcov marks ligs,
    M_gpos51_encode mcov lcov marks ligs = Panic /\ M_gpos51_len mcov lcov marks ligs = Panic.
Proof. intros. split; reflexivity. Qed.
Print Assumptions gpos5_1_encode_refuses.

(* the repaired reader never panics *)
Theorem gpos5_1_read_total :
  forall (data : list N) (pos : N),
    M_gpos51_read data pos <> Panic /\ M_gpos51_read data pos <> OutOfFuel.
Proof. exact gpos51_read_safe. Qed.
Print Assumptions gpos5_1_read_total.

(* the reader as found panics (index out of range) on 40 bytes *)
Theorem gpos5_1_read_total_refuted_found :
  M_gpos51_read_found w51_bytes 0 = Panic /\ M_gpos51_read w51_bytes 0 = Err.
Proof. exact gpos51_read_found_refuted. Qed.
Print Assumptions gpos5_1_read_total_refuted_found.

(* what the repaired reader decodes: the MarkLigPosFormat1 layout written from
   the OpenType text (S_gpos51_bytes: header, coverage tables, MarkArray,
   LigatureArray, LigatureAttach tables with their component records), for
   every well-formed value whose 16-bit fields hold their values *)
Theorem gpos5_1_read_spec :
  forall glm gll mcc marks ligs mcb lcb pre post,
    gpos51_wf glm gll mcc marks ligs = true ->
    M_cov_encode (S_cov_table glm) = Ok mcb -> M_cov_encode (S_cov_table gll) = Ok lcb ->
    S_gpos51_fits mcb lcb mcc marks ligs = true ->
    M_gpos51_read (pre ++ S_gpos51_bytes mcb lcb mcc marks ligs ++ post) (lenN pre)
    = Ok (S_cov_pairs glm, S_cov_pairs gll, marks, ligs).
Proof. exact gpos51_read_spec. Qed.
Print Assumptions gpos5_1_read_spec.

(* ---------------- anchors and mark arrays ---------------- *)

(* anchor.Read (anchor.Append a) = a, wherever the six bytes sit *)
Theorem anchor_roundtrip :
  forall (A : list N) (a : anchor) (tail : list N),
    anchor_ok a = true -> M_anchor_read (A ++ anchor_bytes a ++ tail) (lenN A) = Ok a.
Proof. intros. apply anchor_read_bytes; [assumption|reflexivity]. Qed.
Print Assumptions anchor_roundtrip.

Theorem anchor_read_total :
  forall data pos, M_anchor_read data pos <> Panic /\ M_anchor_read data pos <> OutOfFuel.
Proof. exact anchor_read_safe. Qed.

Theorem markarray_read_total :
  forall data pos n, M_markarray_read data pos n <> Panic /\ M_markarray_read data pos n <> OutOfFuel.
Proof. exact markarray_read_safe. Qed.
Print Assumptions markarray_read_total.
