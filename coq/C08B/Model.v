(* C08B/Model.v — part C08B of property C08: executable models of
   opentype/anchor (anchor.go), opentype/markarray (markarray.go) and of the
   mark attachment subtables GPOS 4.1 (gpos4.go, mark-to-base) and GPOS 6.1
   (gpos6.go, mark-to-mark): encodeLen, encode, and the readers.

   Gpos4_1.encode and Gpos6_1.encode are two copies of the same code, as are
   readGpos4_1 and readGpos6_1; the models are shared ("markbase").  The encoder
   model has two switches that select the code as it was found:
     g  = the 16-bit offset guards (panics) of fixes/C08-gpos41-offset-guards.diff
          (present in gpos4.go when this part was started, absent in gpos6.go:
          fixes/C08-gpos61-offset-guards.diff adds them);
     gc = the guards on markClassCount and baseCount (a mark class 65535
          without base records gives markClassCount = 65536, written as 0; a
          base coverage of all 65536 glyphs with empty rows gives baseCount =
          65536, written as 0: fixes/C08-gpos41-markclasscount.diff, and part
          of fixes/C08-gpos61-offset-guards.diff).
   The code as it is now (all repairs applied) is g = gc = true for both.

   Conventions as in C08/Model.v: bytes are [list N]; a parser positioned at
   [pos] is [seek data pos]; a coverage.Table is the list of its (gid, index)
   entries sorted by gid; funit.Int16 values are Z; an anchor.Table is the pair
   (X, Y), the "empty" anchor is (0, 0) (anchor.Table.IsEmpty). *)
From Coq Require Import List NArith ZArith Bool Lia.
From Common Require Import Bytes Outcome.
From C08 Require Import Model ModelCD ModelSub.
Import ListNotations.
Local Open Scope N_scope.

(* ------------------------------------------------------------------ *)
(* opentype/anchor                                                     *)

Definition anchor := (Z * Z)%type.
Definition a_zero : anchor := (0%Z, 0%Z).

(* IsEmpty: rec.X == 0 && rec.Y == 0 *)
Definition a_empty (a : anchor) : bool := (fst a =? 0)%Z && (snd a =? 0)%Z.

(* Append: 0, 1, byte(X>>8), byte(X), byte(Y>>8), byte(Y) *)
Definition anchor_bytes (a : anchor) : list N :=
  [0; 1] ++ be16 (of_i16 (fst a)) ++ be16 (of_i16 (snd a)).

(* anchor.Read: SeekPos(pos); ReadBytes(6); formats 1, 2, 3 accepted, the
   hinting information of formats 2 and 3 is ignored *)
Definition M_anchor_read (data : list N) (pos : N) : outcome anchor :=
  match seek data pos with
  | a :: b :: c :: d :: e :: f :: _ =>
    let format := w16 a b in
    if (format =? 0) || (3 <? format) then Err
    else Ok (to_i16 (w16 c d), to_i16 (w16 e f))
  | _ => Err
  end.

(* ------------------------------------------------------------------ *)
(* opentype/markarray                                                  *)

Definition markrec := (N * anchor)%type.          (* Class, anchor.Table *)

(* res[i].Class, offsets[i] = ReadUint16(), ReadUint16() *)
Fixpoint rd_markrecs (n : nat) (r : list N) : outcome (list (N * N)) :=
  match n with
  | O => Ok []
  | S n' =>
    match r with
    | a :: b :: c :: d :: r' => tl <- rd_markrecs n' r' ;; Ok ((w16 a b, w16 c d) :: tl)
    | _ => Err
    end
  end.

(* for i, offs := range offsets { res[i].Table, err = anchor.Read(p, pos+int64(offs)) } *)
Fixpoint rd_mark_anchors (data : list N) (pos : N) (recs : list (N * N)) : outcome (list markrec) :=
  match recs with
  | [] => Ok []
  | (c, o) :: r =>
    a <- M_anchor_read data (pos + o) ;;
    tl <- rd_mark_anchors data pos r ;;
    Ok ((c, a) :: tl)
  end.

(* markarray.Read(p, pos, numMarks): entries beyond numMarks are ignored *)
Definition M_markarray_read (data : list N) (pos : N) (numMarks : N) : outcome (list markrec) :=
  match seek data pos with
  | a :: b :: r =>
    let mc := if numMarks <? w16 a b then numMarks else w16 a b in
    recs <- rd_markrecs (N.to_nat mc) r ;;
    rd_mark_anchors data pos recs
  | _ => Err
  end.

(* ------------------------------------------------------------------ *)
(* the encoders of GPOS 4.1 / 6.1                                      *)

(* countMarkClasses: len(BaseArray[0]), or max class + 1 without base records *)
Fixpoint max_class (marks : list markrec) (m : N) : N :=
  match marks with
  | [] => m
  | (c, _) :: r => max_class r (if m <? c then c else m)
  end.

Definition count_mark_classes (marks : list markrec) (base : list (list anchor)) : N :=
  match base with
  | row :: _ => lenN row
  | [] => max_class marks 0 + 1
  end.

(* total += 2; if !rec.IsEmpty() { total += 6 } over all rows *)
Fixpoint amat_size (l : list anchor) : N :=
  match l with
  | [] => 0
  | a :: r => (if a_empty a then 2 else 8) + amat_size r
  end.

Definition M_markbase_len (mcov bcov : list (N * Z)) (marks : list markrec)
           (base : list (list anchor)) : outcome N :=
  n1 <- M_cov_encode_len mcov ;;
  n2 <- M_cov_encode_len bcov ;;
  Ok (12 + n1 + n2 + (2 + 10 * lenN marks) + 2 + amat_size (concat base)).

(* the mark record loop: class, offs; offs += 6 (panic beyond 0xFFFF when guarded) *)
Fixpoint mark_recs (g : bool) (marks : list markrec) (offs : N) : outcome (list N) :=
  match marks with
  | [] => Ok []
  | (c, _) :: r =>
    if g && (65535 <? offs) then Panic
    else tl <- mark_recs g r (offs + 6) ;; Ok (be16 c ++ be16 offs ++ tl)
  end.

(* the base record loop over all rows: 0 for an empty anchor, else offs; offs += 6 *)
Fixpoint amat_offs (g : bool) (l : list anchor) (offs : N) : outcome (list N) :=
  match l with
  | [] => Ok []
  | a :: r =>
    if a_empty a then tl <- amat_offs g r offs ;; Ok ([0; 0] ++ tl)
    else if g && (65535 <? offs) then Panic
    else tl <- amat_offs g r (offs + 6) ;; Ok (be16 offs ++ tl)
  end.

Definition amat_anchors (l : list anchor) : list N :=
  flat_map (fun a => if a_empty a then [] else anchor_bytes a) l.

Definition mark_anchor_bytes (marks : list markrec) : list N :=
  flat_map (fun m => anchor_bytes (snd m)) marks.

Definition M_markbase_encode (g gc : bool) (mcov bcov : list (N * Z)) (marks : list markrec)
           (base : list (list anchor)) : outcome (list N) :=
  let markCount := lenN marks in
  let mcc := count_mark_classes marks base in
  let baseCount := lenN base in
  mcb <- M_cov_encode mcov ;;                    (* total += l.MarkCov.EncodeLen() *)
  bcb <- M_cov_encode bcov ;;
  let bco := 12 + lenN mcb in
  let mao := bco + lenN bcb in
  let bao := mao + (2 + 10 * markCount) in
  if (g && ((65535 <? bao) || (32764 <? baseCount * mcc))) || (gc && ((65535 <? mcc) || (65535 <? baseCount))) then Panic
  else
    mr <- mark_recs g marks (2 + 4 * markCount) ;;
    bo <- amat_offs g (concat base) (2 + 2 * baseCount * mcc) ;;
    Ok ([0; 1] ++ be16 12 ++ be16 bco ++ be16 mcc ++ be16 mao ++ be16 bao ++
        mcb ++ bcb ++
        (be16 markCount ++ mr ++ mark_anchor_bytes marks) ++
        (be16 baseCount ++ bo ++ amat_anchors (concat base))).

(* the code as it is now *)
Definition M_gpos41_len := M_markbase_len.
Definition M_gpos41_encode := M_markbase_encode true true.
Definition M_gpos61_len := M_markbase_len.
Definition M_gpos61_encode := M_markbase_encode true true.
(* the code as it was found *)
Definition M_gpos41_encode_found := M_markbase_encode true false.
Definition M_gpos61_encode_found := M_markbase_encode false false.

(* ------------------------------------------------------------------ *)
(* the readers of GPOS 4.1 / 6.1                                       *)

(* for j := range row { if offsets[j] == 0 { continue }; row[j], err = anchor.Read(p, arrayPos+offsets[j]) } *)
Fixpoint rd_anchor_row (data : list N) (apos : N) (offs : list N) : outcome (list anchor) :=
  match offs with
  | [] => Ok []
  | o :: r =>
    a <- (if o =? 0 then Ok a_zero else M_anchor_read data (apos + o)) ;;
    tl <- rd_anchor_row data apos r ;;
    Ok (a :: tl)
  end.

(* for i := range baseArray { row over offsets[0..mcc-1]; offsets = offsets[markClassCount:] };
   offsets[j] beyond the slice would be an index-out-of-range panic *)
Fixpoint rd_rows (data : list N) (apos : N) (n : nat) (mcc : nat) (offs : list N)
  : outcome (list (list anchor)) :=
  match n with
  | O => Ok []
  | S n' =>
    if (length offs <? mcc)%nat then Panic
    else
      row <- rd_anchor_row data apos (firstn mcc offs) ;;
      tl <- rd_rows data apos n' mcc (skipn mcc offs) ;;
      Ok (row :: tl)
  end.

(* if int(baseCount) > len(baseCov) { baseCount = uint16(len(baseCov)) } else { baseCov.Prune(int(baseCount)) } *)
Definition clip_count (cov : list (N * N)) (cnt : N) : N * list (N * N) :=
  if lenN cov <? cnt then (lenN cov, cov) else (cnt, cov_prune cnt cov).

Definition markbase_val :=
  (list (N * N) * list (N * N) * list markrec * list (list anchor))%type.

(* readGpos4_1 / readGpos6_1, after the dispatcher has read the format word at [pos] *)
Definition M_markbase_read (data : list N) (pos : N) : outcome markbase_val :=
  match seek data (pos + 2) with
  | a :: b :: c :: d :: e :: f :: g :: h :: i :: j :: _ =>
    let mco := w16 a b in
    let bco := w16 c d in
    let mcc := w16 e f in
    let mao := w16 g h in
    let bao := w16 i j in
    markCov <- M_cov_read data (pos + mco) ;;
    baseCov <- M_cov_read data (pos + bco) ;;
    markArray <- M_markarray_read data (pos + mao) (lenN markCov) ;;
    let pr := prune_pair markCov markArray in
    match seek data (pos + bao) with
    | x :: y :: r =>
      let cc := clip_count baseCov (w16 x y) in
      let baseCount := fst cc in
      let numOffsets := baseCount * mcc in
      if 32764 <? numOffsets then Err           (* "GPOS4.1 table too large" *)
      else
        offs <- rd_u16s (N.to_nat numOffsets) r ;;
        rows <- rd_rows data (pos + bao) (N.to_nat baseCount) (N.to_nat mcc) (fst offs) ;;
        Ok (fst pr, snd cc, snd pr, rows)
    | _ => Err
    end
  | _ => Err
  end.

Definition M_gpos41_read := M_markbase_read.
Definition M_gpos61_read := M_markbase_read.

(* ------------------------------------------------------------------ *)
(* specification side                                                  *)

Definition i16_ok (z : Z) : bool := (-32768 <=? z)%Z && (z <? 32768)%Z.
Definition anchor_ok (a : anchor) : bool := i16_ok (fst a) && i16_ok (snd a).
Definition mark_ok (m : markrec) : bool := (fst m <? 65536) && anchor_ok (snd m).

(* well-formed GPOS 4.1 / 6.1 value: the two coverage tables are valid
   (strictly increasing 16-bit glyph lists, index = rank), one mark record per
   covered mark glyph, one row per covered base glyph, every row has one entry
   per mark class (markClassCount as the encoder computes it), field values
   are of their Go types *)
Definition markbase_wf (glm glb : list N) (marks : list markrec) (base : list (list anchor)) : bool :=
  strictly_inc glm && glyphs_ok glm && strictly_inc glb && glyphs_ok glb &&
  (length marks =? length glm)%nat && (length base =? length glb)%nat &&
  forallb mark_ok marks &&
  forallb (fun row => (lenN row =? count_mark_classes marks base) && forallb anchor_ok row) base.

(* the unbounded (Go int) values of every 16-bit offset / count field the
   encoder writes, in the order of emission *)
Fixpoint mark_off_vals (marks : list markrec) (offs : N) : list N :=
  match marks with [] => [] | _ :: r => offs :: mark_off_vals r (offs + 6) end.
Fixpoint amat_off_vals (l : list anchor) (offs : N) : list N :=
  match l with
  | [] => []
  | a :: r => if a_empty a then 0 :: amat_off_vals r offs else offs :: amat_off_vals r (offs + 6)
  end.

Definition markbase_fields (mcb bcb : list N) (marks : list markrec) (base : list (list anchor)) : list N :=
  let markCount := lenN marks in
  let mcc := count_mark_classes marks base in
  let baseCount := lenN base in
  let bco := 12 + lenN mcb in
  let mao := bco + lenN bcb in
  let bao := mao + (2 + 10 * markCount) in
  [12; bco; mcc; mao; bao; markCount] ++ mark_off_vals marks (2 + 4 * markCount) ++
  [baseCount] ++ amat_off_vals (concat base) (2 + 2 * baseCount * mcc).

(* [starts data p blob]: the bytes of [blob] sit at position [p] of [data] *)
Definition starts (data : list N) (p : N) (blob : list N) : Prop :=
  firstn (length blob) (seek data p) = blob.
