(* C03/Proofs_Layout.v — consequences of a consecutive layout; the offsets
   computed by header.Write form one; where each table lies in the output. *)
From Coq Require Import List NArith ZArith Bool Arith Lia Permutation Sorted.
From Coq Require Import ZifyBool ZifyNat ZifyN.
From Common Require Import Bytes Outcome.
From C03 Require Import Model Spec Util Proofs_Sort Proofs_Checksum.
Import ListNotations.
Ltac Zify.zify_post_hook ::= Z.div_mod_to_equations.
Local Open Scope N_scope.

(* ---------- arithmetic of padding ---------- *)

Lemma pad4N_ge len : len <= pad4N len.
Proof. unfold pad4N. lia. Qed.

Lemma pad4N_lt len : pad4N len < len + 4.
Proof. unfold pad4N. lia. Qed.

Lemma pad4N_mod len : pad4N len mod 4 = 0.
Proof. unfold pad4N. lia. Qed.

Lemma pad4N_of_nat n : pad4N (N.of_nat n) = N.of_nat (n + pad_len n).
Proof. unfold pad4N, pad_len. lia. Qed.

Lemma pad4N_sub_of_nat n : pad4N (N.of_nat n) - N.of_nat n = N.of_nat (pad_len n).
Proof. unfold pad4N, pad_len. lia. Qed.

Lemma padded32_small len : pad4N len < 4294967296 -> padded32 len = pad4N len.
Proof.
  intros H. unfold padded32, pad4N, wrap32 in *.
  rewrite (N.mod_small (len + 3)) by lia. apply N.mod_small. lia.
Qed.

(* ---------- a consecutive layout gives alignment, bounds, disjointness ---------- *)

Lemma disjoint_sym x y : disjoint x y -> disjoint y x.
Proof. unfold disjoint. tauto. Qed.

Lemma chain_facts : forall l s e, chain s l e -> s mod 4 = 0 ->
  Forall (fun r => r_off r mod 4 = 0) l /\
  Forall (fun r => s <= r_off r) l /\
  Forall (fun r => r_off r + r_len r <= e) l /\
  ForallOrdPairs disjoint l /\
  e = s + nsum (map (fun r => pad4N (r_len r)) l).
Proof.
  induction l as [|r l IH]; intros s e Hc Hs; cbn [chain] in Hc.
  - subst. repeat split; try constructor. cbn. lia.
  - destruct Hc as [Ho Hc].
    assert (Hs' : (s + pad4N (r_len r)) mod 4 = 0).
    { pose proof (pad4N_mod (r_len r)). lia. }
    destruct (IH _ _ Hc Hs') as (Ha & Hb & Hi & Hd & He).
    pose proof (pad4N_ge (r_len r)) as Hge.
    assert (Hle : s + pad4N (r_len r) <= e).
    { rewrite He. lia. }
    repeat split.
    + constructor; [lia|assumption].
    + constructor; [lia|]. eapply Forall_impl; [|exact Hb]. cbn beta. intros; lia.
    + constructor; [lia|assumption].
    + constructor; [|assumption].
      eapply Forall_impl; [|exact Hb]. cbn beta. intros y Hy. left. lia.
    + cbn [map nsum fold_right]. unfold nsum in He. lia.
Qed.

Lemma wf_core_full b : wf_core b -> S_wf b.
Proof.
  intros [Hc Hd Hf Hs (phys & Hp & Hch) Hpad Hsum].
  assert (H4 : (12 + 16 * num_tables b) mod 4 = 0) by lia.
  destruct (chain_facts _ _ _ Hch H4) as (Ha & Hb & Hi & Hdj & He).
  constructor; try assumption.
  - eapply Permutation_Forall; eassumption.
  - eapply Permutation_Forall; eassumption.
  - eapply Permutation_Forall; eassumption.
  - eapply ForallOrdPairs_perm; [exact disjoint_sym|exact Hp|exact Hdj].
  - exists phys. split; assumption.
  - rewrite He. f_equal. apply nsum_perm. now apply Permutation_map.
Qed.

(* ---------- slices of concatenations ---------- *)

Lemma sub_app_mid {A} (pre x rest : list A) :
  sub (pre ++ x ++ rest) (length pre) (length x) = x.
Proof.
  unfold sub. induction pre as [|a pre IH]; cbn [length app skipn].
  - induction x as [|c x IHx]; cbn [length app firstn]; [reflexivity|now f_equal].
  - exact IH.
Qed.

Lemma sub_app_skip {A} (pre rest : list A) off n :
  sub (pre ++ rest) (length pre + off) n = sub rest off n.
Proof.
  unfold sub. induction pre as [|a pre IH]; cbn [length app skipn plus]; [reflexivity|exact IH].
Qed.

Lemma sub_app_mid' {A} (pre x rest : list A) off n :
  off = length pre -> n = length x -> sub (pre ++ x ++ rest) off n = x.
Proof. intros -> ->. apply sub_app_mid. Qed.

(* ---------- the records computed by the layout loop ---------- *)

Definition lenN (tb : N * list N) : N := N.of_nat (length (snd tb)).
Definition total_padded (l : list (N * list N)) : N := nsum (map (fun tb => pad4N (lenN tb)) l).

Lemma total_padded_cons tb l : total_padded (tb :: l) = pad4N (lenN tb) + total_padded l.
Proof. reflexivity. Qed.

Lemma total_padded_nonneg_step tb l off :
  off + total_padded (tb :: l) < 4294967296 ->
  wrap32 (lenN tb) = lenN tb /\ padded32 (lenN tb) = pad4N (lenN tb) /\
  wrap32 (off + pad4N (lenN tb)) = off + pad4N (lenN tb) /\
  (off + pad4N (lenN tb)) + total_padded l < 4294967296.
Proof.
  rewrite total_padded_cons. intros H.
  pose proof (pad4N_ge (lenN tb)).
  assert (pad4N (lenN tb) < 4294967296) by lia.
  repeat split.
  - apply wrap32_small. lia.
  - now apply padded32_small.
  - apply wrap32_small. lia.
  - lia.
Qed.

Lemma layout_tags : forall l off, map r_tag (layout off l) = map fst l.
Proof. induction l as [|tb l IH]; intros off; cbn [layout map r_tag]; [reflexivity|now rewrite IH]. Qed.

Lemma layout_length : forall l off, length (layout off l) = length l.
Proof. induction l as [|tb l IH]; intros off; cbn [layout length]; [reflexivity|now rewrite IH]. Qed.

Lemma layout_chain : forall l off,
  off + total_padded l < 4294967296 -> chain off (layout off l) (off + total_padded l).
Proof.
  induction l as [|tb l IH]; intros off H; cbn [layout chain].
  - cbn. lia.
  - destruct (total_padded_nonneg_step _ _ _ H) as (E1 & E2 & E3 & H').
    cbn [r_off r_len]. fold (lenN tb). rewrite E1, E2, E3. split; [reflexivity|].
    rewrite total_padded_cons, N.add_assoc. now apply IH.
Qed.

(* what the record of a table says, and where the table's bytes are in any
   file  pre ++ (padded bodies, possibly patched by a length-preserving g) ++ post *)
Definition rec_matches (b : list N) (g : N * list N -> N * list N) (r : rec) (tb : N * list N) : Prop :=
  r_tag r = fst tb /\ r_sum r = M_checksum (snd tb) /\ r_len r = lenN tb /\
  r_off r < 4294967296 /\ r_len r < 4294967296 /\
  table_bytes b r = snd (g tb) /\ padding_zero b r.

Lemma layout_spec : forall l g pre post off,
  (forall tb, length (snd (g tb)) = length (snd tb)) ->
  off = N.of_nat (length pre) ->
  off + total_padded l < 4294967296 ->
  Forall2 (rec_matches (pre ++ concat (map (fun tb => pad4 (snd (g tb))) l) ++ post) g)
          (layout off l) l.
Proof.
  induction l as [|tb l IH]; intros g pre post off Hg Hoff H; cbn [layout]; [constructor|].
  destruct (total_padded_nonneg_step _ _ _ H) as (E1 & E2 & E3 & H').
  fold (lenN tb). rewrite E1, E2, E3.
  pose proof (pad4N_ge (lenN tb)) as Hge.
  constructor.
  - unfold rec_matches. cbn [r_tag r_sum r_len r_off map concat].
    repeat split; try reflexivity; try lia.
    + unfold table_bytes. cbn [r_off r_len]. unfold pad4. rewrite <- !app_assoc.
      apply sub_app_mid'.
      * subst off. lia.
      * unfold lenN. rewrite Hg. lia.
    + unfold padding_zero, padding_bytes. cbn [r_off r_len].
      unfold pad4. rewrite <- !app_assoc.
      rewrite (app_assoc pre (snd (g tb))).
      rewrite sub_app_mid'.
      * apply Forall_forall. intros x Hx. now apply repeat_spec in Hx.
      * subst off. unfold lenN. rewrite app_length, Hg. lia.
      * rewrite repeat_length, Hg. unfold lenN. rewrite pad4N_sub_of_nat. lia.
  - cbn [map concat].
    replace (pre ++ (pad4 (snd (g tb)) ++ concat (map (fun tb0 => pad4 (snd (g tb0))) l)) ++ post)
      with ((pre ++ pad4 (snd (g tb))) ++ concat (map (fun tb0 => pad4 (snd (g tb0))) l) ++ post)
      by (now rewrite <- !app_assoc).
    apply IH; [exact Hg| |exact H'].
    subst off. rewrite app_length, pad4_length, Hg. unfold lenN. rewrite pad4N_of_nat. lia.
Qed.
