(* C03/Proofs_Read.v — header.Read on a directory of the shape header.Write
   produces: generic lemmas (the instance is in Proofs_Write.v). *)
From Coq Require Import List NArith ZArith Bool Arith Lia Permutation Sorted.
From Coq Require Import ZifyBool ZifyNat ZifyN.
From Common Require Import Bytes Outcome.
From Gen Require Import Consts.
From C03 Require Import Model Spec Util Proofs_Sort Proofs_Checksum Proofs_Layout Proofs_Parse.
Import ListNotations.
Ltac Zify.zify_post_hook ::= Z.div_mod_to_equations.
Local Open Scope N_scope.

Definition toc_of (r : rec) : toc_entry := (r_tag r, r_off r, r_len r).
Definition tag_printable (t : N) : Prop := forallb printable (be32 t) = true.

Lemma read_at_mid pre x post off n :
  off = N.of_nat (length pre) -> n = N.of_nat (length x) ->
  read_at (pre ++ x ++ post) off n = Some x.
Proof.
  intros -> ->. unfold read_at. cbv zeta.
  rewrite !app_length.
  destruct (N.leb_spec (N.of_nat (length pre) + N.of_nat (length x))
                       (N.of_nat (length pre + (length x + length post)))) as [H|H]; [|lia].
  rewrite !Nat2N.id. now rewrite sub_app_mid.
Qed.

Lemma valid_scaler_lt s : valid_scaler s = true -> s < 4294967296.
Proof.
  unfold valid_scaler. intros H. apply orb_true_iff in H. destruct H as [H|H].
  - apply orb_true_iff in H. destruct H as [H|H]; apply N.eqb_eq in H; subst; reflexivity.
  - apply N.eqb_eq in H; subst; reflexivity.
Qed.

Lemma rec_bytes_fields r : rec_in_range r ->
  firstn 4 (rec_bytes r) = be32 (r_tag r) /\ rd32 (rec_bytes r) = r_tag r /\
  rd32 (skipn 8 (rec_bytes r)) = r_off r /\ rd32 (skipn 12 (rec_bytes r)) = r_len r.
Proof.
  destruct r as [t s o l]. unfold rec_in_range. cbn [r_tag r_sum r_off r_len].
  intros (Ht & Hs & Ho & Hl).
  unfold rec_bytes, be32. cbn [r_tag r_sum r_off r_len app firstn skipn rd32].
  repeat split; lia.
Qed.

Lemma rd_entries_written whole post : forall rest pre acc i,
  whole = pre ++ concat (map rec_bytes rest) ++ post ->
  N.of_nat (length pre) = 12 + i * 16 ->
  Forall rec_in_range rest -> Forall (fun r => tag_printable (r_tag r)) rest ->
  NoDup (map r_tag rest) ->
  (forall r, In r rest -> existsb (fun t : toc_entry => fst (fst t) =? r_tag r) acc = false) ->
  rd_entries (read_at whole) (length rest) i acc = Ok (acc ++ map toc_of rest).
Proof.
  induction rest as [|r rest IH]; intros pre acc i Hw Hpre Hr Hp Hn Hacc.
  - cbn [length rd_entries map]. now rewrite app_nil_r.
  - pose proof (Forall_inv Hr) as Hr1. pose proof (Forall_inv_tail Hr) as Hr2.
    pose proof (Forall_inv Hp) as Hp1. pose proof (Forall_inv_tail Hp) as Hp2. cbv beta in Hp1.
    cbn [map] in Hn. apply NoDup_cons_iff in Hn. destruct Hn as [Hnin Hn'].
    cbn [length rd_entries].
    assert (Hread : read_at whole (12 + i * 16) 16 = Some (rec_bytes r)).
    { rewrite Hw. cbn [map concat]. rewrite <- app_assoc.
      apply read_at_mid; [now rewrite Hpre|reflexivity]. }
    rewrite Hread.
    destruct (rec_bytes_fields r Hr1) as (E4 & Et & Eo & El).
    rewrite E4. unfold tag_printable in Hp1. rewrite Hp1. cbn [negb].
    rewrite Et, Eo, El.
    rewrite (Hacc r (or_introl eq_refl)).
    change (r_tag r, r_off r, r_len r) with (toc_of r).
    etransitivity; [apply (IH (pre ++ rec_bytes r) (acc ++ [toc_of r]) (i + 1))|].
    + rewrite Hw. cbn [map concat]. now rewrite <- !app_assoc.
    + rewrite app_length, rec_bytes_length. lia.
    + exact Hr2.
    + exact Hp2.
    + exact Hn'.
    + intros r' Hin'.
      etransitivity; [exact (existsb_app (fun t : toc_entry => fst (fst t) =? r_tag r') acc [toc_of r])|].
      apply orb_false_iff. split; [apply Hacc; now right|].
      cbn [existsb toc_of fst orb]. rewrite orb_false_r.
      apply N.eqb_neq. intros E. apply Hnin. rewrite E. now apply in_map.
    + cbn [map]. f_equal. symmetry. exact (app_assoc acc [toc_of r] (map toc_of rest)).
Qed.

(* ---- the sanity checks on the coverage list ---- *)

Definition pdisj (a c : N * N) : Prop := snd a <= fst c \/ snd c <= fst a.
Definition pwf (a : N * N) : Prop := fst a <= snd a.

Lemma pdisj_sym a c : pdisj a c -> pdisj c a.
Proof. unfold pdisj. tauto. Qed.

Lemma cov_before_asym x y : cov_before x y = true -> cov_before y x = false.
Proof.
  unfold cov_before. destruct (N.eqb_spec (fst x) (fst y)) as [E|E].
  - rewrite E, N.eqb_refl. intros H. apply N.ltb_lt in H. apply N.ltb_ge. lia.
  - destruct (N.eqb_spec (fst y) (fst x)) as [E'|E']; [congruence|].
    intros H. apply N.ltb_lt in H. apply N.ltb_ge. lia.
Qed.

Lemma sorted_disjoint_no_overlap l :
  Sorted (nafter cov_before) l -> ForallOrdPairs pdisj l -> Forall pwf l -> overlaps l = false.
Proof.
  induction l as [|a l IH]; intros Hs Hd Hw; [reflexivity|].
  destruct l as [|c r]; [reflexivity|].
  change (overlaps (a :: c :: r)) with ((fst c <? snd a) || overlaps (c :: r)).
  inversion Hs as [|? ? Hs' Hh]; subst. inversion Hh as [|? ? Hac]; subst.
  inversion Hd as [|? ? Hda Hd']; subst. inversion Hda as [|? ? Hdac _]; subst.
  inversion Hw as [|? ? Hwa Hw']; subst. inversion Hw' as [|? ? Hwc _]; subst.
  rewrite (IH Hs' Hd' Hw'). rewrite orb_false_r.
  apply N.ltb_ge.
  unfold nafter, cov_before in Hac. unfold pdisj in Hdac. unfold pwf in *.
  destruct (N.eqb_spec (fst c) (fst a)) as [E|E].
  - apply N.ltb_ge in Hac. lia.
  - apply N.ltb_ge in Hac. lia.
Qed.

Lemma ForallOrdPairs_map {A B} (f : A -> B) (R : B -> B -> Prop) l :
  ForallOrdPairs (fun x y => R (f x) (f y)) l -> ForallOrdPairs R (map f l).
Proof.
  induction 1 as [|x l Hx Hl IH]; cbn [map]; constructor; [|exact IH].
  apply Forall_forall. intros y Hy. apply in_map_iff in Hy. destruct Hy as (z & <- & Hz).
  rewrite Forall_forall in Hx. now apply Hx.
Qed.

Lemma last_in {A} (l : list A) d : l <> [] -> In (last l d) l.
Proof.
  induction l as [|x l IH]; [congruence|]. intros _.
  destruct l as [|y l']; [now left|]. right. apply IH. discriminate.
Qed.

Lemma slice_table_eq b off len :
  off + len <= N.of_nat (length b) -> slice_table b off len = sub b (N.to_nat off) (N.to_nat len).
Proof.
  intros H. unfold slice_table, sub.
  destruct (N.leb_spec (N.of_nat (length b)) off) as [H'|H'].
  - assert (len = 0) by lia. subst len. cbn [N.to_nat firstn]. reflexivity.
  - f_equal. lia.
Qed.

Lemma be32_rd32 l : length l = 4%nat -> Forall is_byte l -> be32 (rd32 l) = l.
Proof.
  destruct l as [|a [|c [|d [|e [|? ?]]]]]; cbn [length]; try discriminate.
  intros _ H.
  repeat match goal with
         | H : Forall _ (_ :: _) |- _ =>
           let h := fresh "Hb" in
           pose proof (Forall_inv H) as h; apply Forall_inv_tail in H; cbv beta in h
         end.
  unfold is_byte, be32, rd32 in *. repeat f_equal; lia.
Qed.

Lemma Forall2_In_r {A B} (P : A -> B -> Prop) l1 l2 b :
  Forall2 P l1 l2 -> In b l2 -> exists a, In a l1 /\ P a b.
Proof.
  intros H. induction H as [|x y l1 l2 Hxy H IH]; intros Hin; [contradiction|].
  destruct Hin as [->|Hin]; [exists x; split; [now left|exact Hxy]|].
  destruct (IH Hin) as (a & Ha & Hp). exists a. split; [now right|exact Hp].
Qed.
