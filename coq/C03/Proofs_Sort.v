(* C03/Proofs_Sort.v — insertion sort: permutation, sortedness; transport of
   pairwise properties along permutations. *)
From Coq Require Import List NArith ZArith Bool Arith Lia Permutation Sorted.
From Common Require Import Bytes.
From C03 Require Import Model.
Import ListNotations.

Section Isort.
  Context {A : Type} (lt : A -> A -> bool).

  Lemma insert_by_perm x l : Permutation (insert_by lt x l) (x :: l).
  Proof.
    induction l as [|y r IH]; cbn [insert_by]; [reflexivity|].
    destruct (lt y x); [|reflexivity].
    rewrite IH. apply perm_swap.
  Qed.

  Lemma isort_perm l : Permutation (isort lt l) l.
  Proof.
    induction l as [|x l IH]; cbn [isort fold_right]; [reflexivity|].
    fold (isort lt l). rewrite insert_by_perm. now constructor.
  Qed.

  Lemma isort_length l : length (isort lt l) = length l.
  Proof. apply Permutation_length, isort_perm. Qed.

  (* "not after": x may stand before y *)
  Definition nafter (x y : A) : Prop := lt y x = false.

  Hypothesis lt_asym : forall x y, lt x y = true -> lt y x = false.

  Lemma insert_by_hd x l z :
    HdRel nafter z l -> nafter z x -> HdRel nafter z (insert_by lt x l).
  Proof.
    intros Hl Hx. destruct l as [|y r]; cbn [insert_by]; [now constructor|].
    destruct (lt y x); constructor; [now inversion Hl|assumption].
  Qed.

  Lemma insert_by_sorted x l : Sorted nafter l -> Sorted nafter (insert_by lt x l).
  Proof.
    induction l as [|y r IH]; intros Hs; cbn [insert_by].
    - repeat constructor.
    - destruct (lt y x) eqn:E.
      + inversion Hs as [|? ? Hr Hh]; subst. constructor; [now apply IH|].
        apply insert_by_hd; [assumption|]. unfold nafter. now apply lt_asym.
      + constructor; [assumption|]. constructor. exact E.
  Qed.

  Lemma isort_sorted l : Sorted nafter (isort lt l).
  Proof.
    induction l as [|x l IH]; cbn [isort fold_right]; [constructor|].
    now apply insert_by_sorted.
  Qed.
End Isort.

(* pairwise (symmetric) relations survive permutations *)
Lemma ForallOrdPairs_perm {A} (R : A -> A -> Prop) :
  (forall x y, R x y -> R y x) ->
  forall l l', Permutation l l' -> ForallOrdPairs R l -> ForallOrdPairs R l'.
Proof.
  intros Hsym l l' Hp. induction Hp as [|x l l' Hp IH|x y l|l l' l'' H1 IH1 H2 IH2]; intros H.
  - constructor.
  - inversion H as [|? ? Hx Hl]; subst. constructor; [|now apply IH].
    eapply Permutation_Forall; eassumption.
  - inversion H as [|? ? Hy Hl]; subst. inversion Hl as [|? ? Hx Hl']; subst.
    inversion Hy as [|? ? Hyx Hyl]; subst.
    constructor; [constructor; [now apply Hsym|assumption]|].
    constructor; assumption.
  - auto.
Qed.

Lemma nsum_perm l l' : Permutation l l' -> nsum l = nsum l'.
Proof.
  intros Hp. induction Hp as [| x l l' Hp IH | x y l | l l' l'' H1 IH1 H2 IH2];
    cbn [nsum fold_right] in *; unfold nsum in *; lia.
Qed.

(* a list sorted by <= on a key without duplicate keys is strictly sorted *)
Lemma sorted_le_nodup_lt {A} (key : A -> N) (l : list A) :
  Sorted (fun x y => (key y <? key x)%N = false) l -> NoDup (map key l) ->
  StronglySorted (fun x y => (key x < key y)%N) l.
Proof.
  intros Hs Hn.
  assert (Hss : StronglySorted (fun x y => (key y <? key x)%N = false) l).
  { apply Sorted_StronglySorted; [|exact Hs].
    intros x y z Hxy Hyz. apply N.ltb_ge in Hxy, Hyz. apply N.ltb_ge. lia. }
  clear Hs. induction Hss as [|x l Hl IH Hx]; [constructor|].
  cbn [map] in Hn. inversion Hn as [|? ? Hnin Hn']; subst.
  constructor; [now apply IH|].
  rewrite Forall_forall in *. intros y Hy.
  specialize (Hx y Hy). apply N.ltb_ge in Hx.
  assert (key x <> key y).
  { intros E. apply Hnin. rewrite E. now apply in_map. }
  lia.
Qed.
