(* C03/Spec.v — what "well-formed sfnt container" means for a byte string,
   clause by clause, written from the property text and the OpenType
   specification (table directory, checksums).  Propositions only. *)
From Coq Require Import List NArith ZArith Bool Arith Permutation Sorted.
From Common Require Import Bytes Outcome.
From C03 Require Import Model.
Import ListNotations.
Local Open Scope N_scope.

(* searchRange = 16 * 2^floor(log2 n), entrySelector = floor(log2 n),
   rangeShift = 16 n - searchRange *)
Definition fields_ok (b : list N) : Prop :=
  let n := num_tables b in
  rd16 (sub b 6 2) = 16 * 2 ^ N.log2 n /\
  rd16 (sub b 8 2) = N.log2 n /\
  rd16 (sub b 10 2) = 16 * n - 16 * 2 ^ N.log2 n.

Definition disjoint (x y : rec) : Prop :=
  r_off x + r_len x <= r_off y \/ r_off y + r_len y <= r_off x.

(* tables laid end to end from [start], each padded to a multiple of 4,
   ending exactly at [stop] *)
Fixpoint chain (start : N) (l : list rec) (stop : N) : Prop :=
  match l with
  | [] => start = stop
  | r :: l' => r_off r = start /\ chain (start + pad4N (r_len r)) l' stop
  end.

Definition padding_zero (b : list N) (r : rec) : Prop :=
  Forall (fun x => x = 0) (padding_bytes b r).

Definition checksum_ok (b : list N) (r : rec) : Prop :=
  r_sum r = S_checksum (clear_adj (r_tag r) (table_bytes b r)).

(* the clauses from which all others follow *)
Record wf_core (b : list N) : Prop := mk_wf_core {
  wc_count : 1 <= num_tables b;
  wc_dir_inside : 12 + 16 * num_tables b <= N.of_nat (length b);
  wc_fields : fields_ok b;
  wc_sorted : StronglySorted (fun x y => r_tag x < r_tag y) (dir_of b);
  wc_consecutive : exists phys, Permutation phys (dir_of b) /\
                                chain (12 + 16 * num_tables b) phys (N.of_nat (length b));
  wc_padding : Forall (padding_zero b) (dir_of b);
  wc_checksums : Forall (checksum_ok b) (dir_of b)
}.

(* every clause of the property *)
Record S_wf (b : list N) : Prop := mk_S_wf {
  wf_count : 1 <= num_tables b;
  wf_dir_inside : 12 + 16 * num_tables b <= N.of_nat (length b);
  wf_fields : fields_ok b;
  wf_sorted : StronglySorted (fun x y => r_tag x < r_tag y) (dir_of b);
  wf_aligned : Forall (fun r => r_off r mod 4 = 0) (dir_of b);
  wf_after_dir : Forall (fun r => 12 + 16 * num_tables b <= r_off r) (dir_of b);
  wf_inside : Forall (fun r => r_off r + r_len r <= N.of_nat (length b)) (dir_of b);
  wf_disjoint : ForallOrdPairs disjoint (dir_of b);
  wf_consecutive : exists phys, Permutation phys (dir_of b) /\
                                chain (12 + 16 * num_tables b) phys (N.of_nat (length b));
  wf_length : N.of_nat (length b) =
              12 + 16 * num_tables b + nsum (map (fun r => pad4N (r_len r)) (dir_of b));
  wf_padding : Forall (padding_zero b) (dir_of b);
  wf_checksums : Forall (checksum_ok b) (dir_of b)
}.

(* head adjustment: with a head table of at least 12 bytes the big-endian
   32-bit word sum of the whole file is 0xB1B0AFBA *)
Definition S_whole (b : list N) : Prop :=
  has_head (dir_of b) = true -> file_sum b = checksum_magic.

(* ---- hypotheses on a table map ---- *)

Definition is_byte (x : N) : Prop := x < 256.
Definition map_ok (ts : list table) : Prop :=
  NoDup (map fst ts) /\ Forall (fun t : table => Forall is_byte (fst t)) ts.

(* 12 + 16 n + sum of padded lengths *)
Definition file_size (bodies : list (N * list N)) : N :=
  12 + 16 * N.of_nat (length bodies) +
  nsum (map (fun tb : N * list N => pad4N (N.of_nat (length (snd tb)))) bodies).
