(* C03/Proofs_Parse.v — reading back the offset table and the directory that
   header.Write emits. *)
From Coq Require Import List NArith ZArith Bool Arith Lia Permutation Sorted.
From Coq Require Import ZifyBool ZifyNat ZifyN.
From Common Require Import Bytes Outcome.
From C03 Require Import Model Spec Util Proofs_Sort Proofs_Checksum Proofs_Layout.
Import ListNotations.
Ltac Zify.zify_post_hook ::= Z.div_mod_to_equations.
Local Open Scope N_scope.

Definition rec_in_range (r : rec) : Prop :=
  r_tag r < 4294967296 /\ r_sum r < 4294967296 /\ r_off r < 4294967296 /\ r_len r < 4294967296.

Lemma offsets_bytes_length s n : length (offsets_bytes s n) = 12%nat.
Proof. reflexivity. Qed.

Lemma rec_bytes_length r : length (rec_bytes r) = 16%nat.
Proof. reflexivity. Qed.

Lemma concat_rec_bytes_length dir : length (concat (map rec_bytes dir)) = (16 * length dir)%nat.
Proof.
  induction dir as [|r dir IH]; cbn [map concat length]; [reflexivity|].
  rewrite app_length, IH, rec_bytes_length. lia.
Qed.

Lemma rd16_pair x : rd16 [(x / 256) mod 256; x mod 256] = x mod 65536.
Proof. unfold rd16. lia. Qed.

Lemma num_tables_written s n rest : n < 65536 -> num_tables (offsets_bytes s n ++ rest) = n.
Proof.
  intros H. unfold num_tables, offsets_bytes, be32, be16, sub. cbn [app skipn firstn].
  rewrite rd16_pair. apply N.mod_small. exact H.
Qed.

Lemma log2_facts n : 1 <= n -> n < 4096 ->
  2 ^ N.log2 n <= n /\ n < 2 * 2 ^ N.log2 n /\ N.log2 n < 12 /\ 2 ^ N.log2 n <= 2048.
Proof.
  intros H1 H2.
  destruct (N.log2_spec n ltac:(lia)) as [Ha Hb].
  rewrite N.pow_succ_r' in Hb.
  assert (Hl : N.log2 n < 12).
  { apply N.log2_lt_pow2; [lia|]. change (2 ^ 12) with 4096. exact H2. }
  repeat split; try assumption.
  assert (2 ^ N.log2 n <= 2 ^ 11) by (apply N.pow_le_mono_r; lia).
  change (2 ^ 11) with 2048 in *. assumption.
Qed.

Lemma fields_written s n rest : 1 <= n -> n < 4096 -> fields_ok (offsets_bytes s n ++ rest).
Proof.
  intros H1 H2. unfold fields_ok.
  rewrite num_tables_written by lia.
  destruct (log2_facts n H1 H2) as (Ha & Hb & Hc & Hd).
  unfold offsets_bytes, be32, be16, sub. cbn [app skipn firstn].
  rewrite !rd16_pair.
  unfold hdr_search_range, hdr_range_shift, hdr_entry_selector, wrap16.
  rewrite N.pow_add_r. change (2 ^ 4) with 16.
  set (p := 2 ^ N.log2 n) in *.
  repeat split.
  - rewrite N.mod_mod by lia. rewrite N.mod_small by lia. lia.
  - apply N.mod_small. lia.
  - rewrite N.mod_mod by lia. rewrite N.mod_small by lia. lia.
Qed.

Lemma parse_rec_bytes r rest : rec_in_range r -> parse_rec (firstn 16 (rec_bytes r ++ rest)) = r.
Proof.
  destruct r as [t s o l]. unfold rec_in_range. cbn [r_tag r_sum r_off r_len].
  intros (Ht & Hs & Ho & Hl).
  unfold rec_bytes, be32. cbn [r_tag r_sum r_off r_len app firstn].
  unfold parse_rec. cbn [skipn rd32].
  f_equal; lia.
Qed.

Lemma dir_parse : forall dir pre rest,
  Forall rec_in_range dir ->
  map (fun i => parse_rec (sub (pre ++ concat (map rec_bytes dir) ++ rest) (length pre + 16 * i) 16))
      (seq 0 (length dir)) = dir.
Proof.
  induction dir as [|r dir IH]; intros pre rest Hr; [reflexivity|].
  inversion Hr as [|? ? Hr1 Hr2]; subst.
  cbn [length seq map].
  f_equal.
  - rewrite sub_app_skip. cbn [map concat]. rewrite <- app_assoc.
    unfold sub. cbn [skipn Nat.mul]. now apply parse_rec_bytes.
  - rewrite <- seq_shift, map_map.
    rewrite <- (IH (pre ++ rec_bytes r) rest Hr2) at 2.
    apply map_ext. intros i.
    cbn [map concat]. rewrite app_length, rec_bytes_length.
    rewrite <- !app_assoc.
    replace (length pre + 16 * S i)%nat with (length pre + 16 + 16 * i)%nat by lia.
    reflexivity.
Qed.

Lemma dir_written s n dir rest :
  n = N.of_nat (length dir) -> n < 65536 -> Forall rec_in_range dir ->
  dir_of ((offsets_bytes s n ++ concat (map rec_bytes dir)) ++ rest) = dir.
Proof.
  intros Hn Hlt Hr. unfold dir_of.
  rewrite <- app_assoc. rewrite num_tables_written by exact Hlt.
  subst n. rewrite Nat2N.id.
  apply (dir_parse dir (offsets_bytes s (N.of_nat (length dir))) rest Hr).
Qed.
