(* C03/Proofs_Checker.v — the boolean container checker is sound: whatever
   byte string it accepts satisfies every clause of the property. *)
From Coq Require Import List NArith ZArith Bool Arith Lia Permutation Sorted.
From Coq Require Import ZifyBool ZifyNat ZifyN.
From Common Require Import Bytes Outcome.
From C03 Require Import Model Spec Util Proofs_Sort Proofs_Checksum Proofs_Layout.
Import ListNotations.
Ltac Zify.zify_post_hook ::= Z.div_mod_to_equations.
Local Open Scope N_scope.

Lemma chain_ok_chain : forall l s e, chain_ok s l e = true -> chain s l e.
Proof.
  induction l as [|r l IH]; intros s e H; cbn [chain_ok chain] in *.
  - now apply N.eqb_eq.
  - apply andb_true_iff in H. destruct H as [H1 H2]. split; [now apply N.eqb_eq|now apply IH].
Qed.

Lemma strictly_sorted_spec l :
  strictly_sorted l = true -> StronglySorted (fun x y => r_tag x < r_tag y) l.
Proof.
  intros H. apply Sorted_StronglySorted; [intros x y z; lia|].
  induction l as [|a l IH]; [constructor|].
  destruct l as [|c r]; [repeat constructor|].
  change (strictly_sorted (a :: c :: r)) with ((r_tag a <? r_tag c) && strictly_sorted (c :: r)) in H.
  apply andb_true_iff in H. destruct H as [H1 H2].
  constructor; [now apply IH|]. constructor. now apply N.ltb_lt.
Qed.

Lemma container_ok_core b : container_ok b = true -> wf_core b /\ S_whole b.
Proof.
  unfold container_ok. cbv zeta.
  destruct ((1 <=? num_tables b) && (12 + 16 * num_tables b <=? N.of_nat (length b))) eqn:G;
    [|discriminate].
  apply andb_true_iff in G. destruct G as [G1 G2]. apply N.leb_le in G1, G2.
  intros H.
  repeat (apply andb_true_iff in H; let H' := fresh "C" in destruct H as [H H']).
  apply N.eqb_eq in H, C5, C4.
  split.
  - constructor.
    + exact G1.
    + exact G2.
    + unfold fields_ok. auto.
    + now apply strictly_sorted_spec.
    + exists (isort phys_before (dir_of b)). split; [apply isort_perm|now apply chain_ok_chain].
    + rewrite forallb_forall in C0. apply Forall_forall. intros r Hr.
      unfold padding_zero. apply Forall_forall. intros x Hx.
      specialize (C0 r Hr). rewrite forallb_forall in C0. specialize (C0 x Hx).
      apply N.eqb_eq in C0. now symmetry.
    + rewrite forallb_forall in C1. apply Forall_forall. intros r Hr.
      unfold checksum_ok. apply N.eqb_eq. now apply C1.
  - unfold S_whole. intros Hh. rewrite Hh in C. now apply N.eqb_eq.
Qed.

Lemma container_ok_sound b : container_ok b = true -> S_wf b /\ S_whole b.
Proof.
  intros H. destruct (container_ok_core b H) as [Hc Hw]. split; [now apply wf_core_full|exact Hw].
Qed.
