(* C03/Props.v — the property theorems: files written by header.Write are
   well-formed sfnt containers.  Statements only; proofs are in Proofs_*.v.
   Constants come from the files the translator regenerated from /repo. *)
From Coq Require Import List NArith ZArith Bool Arith Lia Permutation Sorted.
From Common Require Import Bytes Outcome.
From Gen Require Import Consts C03.
From C03 Require Import Model Spec Proofs_Checksum Proofs_Layout Proofs_Write Proofs_Checker Proofs_Tie Proofs_Order.
Import ListNotations.
Local Open Scope N_scope.

(* re-checked against the regenerated constants: the magic number of
   patchChecksum, and the reader's table limit lies inside the range where the
   16-bit search fields do not wrap *)
Lemma magic_ok : checksum_magic = header_checksumMagic.
Proof. exact tie_magic. Qed.
Lemma max_tables_ok : header_maxTables < 4096.
Proof. vm_compute. reflexivity. Qed.

(* 1. The streaming checksum (check.Write fed in arbitrary pieces, then Sum)
   equals the block definition (sum of the big-endian words of the zero-padded
   data, mod 2^32) for EVERY way of cutting the data; zero padding does not
   change a checksum. *)
Theorem checksum_chunking :
  (forall cs : list (list N), M_checksum_chunks cs = S_checksum (concat cs)) /\
  (forall d : list N, M_checksum d = S_checksum d) /\
  (forall d : list N, S_checksum (pad4 d) = S_checksum d).
Proof.
  split; [exact M_checksum_chunks_spec|]. split; [exact M_checksum_spec|exact S_checksum_pad4].
Qed.
Print Assumptions checksum_chunking.

(* 2. header.Write never returns an error into a working writer; it produces a
   file exactly when at least one entry has non-nil data and a 4-byte name
   (otherwise the Go code panics on 1 << -1 and no file exists). *)
Theorem write_total : forall (s : N) (ts : list table),
  (M_filter ts = [] -> M_write s ts = Panic) /\
  (M_filter ts <> [] -> exists out, M_write s ts = Ok out).
Proof. exact write_total. Qed.
Print Assumptions write_total.

(* 3. Every file written is a well-formed container: for every scaler type and
   every table map (distinct names made of bytes; any data, any lengths,
   nil-valued and wrongly named entries allowed), with n = number of entries
   that have data and a 4-byte name, 1 <= n < 4096 and a file below 4 GiB:
   count and search fields follow the OpenType formulas, the directory is
   strictly sorted by tag, every table is 4-aligned, behind the directory,
   inside the file, tables are consecutive and pairwise disjoint, the file
   length is 12+16n+sum of padded lengths, padding bytes are zero and each
   directory checksum is the checksum of the table (head: with a zero
   adjustment field). *)
Theorem write_wf : forall (s : N) (ts : list table) (out : list N),
  map_ok ts -> M_write s ts = Ok out ->
  N.of_nat (length (M_filter ts)) < 4096 ->
  file_size (M_filter ts) < 4294967296 ->
  S_wf out.
Proof. intros. apply wf_core_full. eapply write_wf_core; eassumption. Qed.
Print Assumptions write_wf.

(* 4. The directory describes exactly the tables given: nil-valued and wrongly
   named entries are not counted (the pre-fix code counted them, see
   Examples.write_nil_refuted), the scaler type is stored, and the (tag,
   length) pairs of the directory are those of the written tables. *)
Theorem write_directory : forall (s : N) (ts : list table) (out : list N),
  map_ok ts -> M_write s ts = Ok out ->
  N.of_nat (length (M_filter ts)) < 4096 ->
  file_size (M_filter ts) < 4294967296 ->
  num_tables out = N.of_nat (length (M_filter ts)) /\
  rd32 (sub out 0 4) = s mod 4294967296 /\
  Permutation (map (fun r => (r_tag r, r_len r)) (dir_of out))
              (map (fun tb : N * list N => (fst tb, N.of_nat (length (snd tb)))) (M_filter ts)).
Proof. exact write_directory. Qed.
Print Assumptions write_directory.

(* 5. With a head table of at least 12 bytes the 32-bit big-endian word sum of
   the whole output is 0xB1B0AFBA. *)
Theorem whole_file_checksum : forall (s : N) (ts : list table) (out : list N),
  map_ok ts -> M_write s ts = Ok out ->
  N.of_nat (length (M_filter ts)) < 4096 ->
  file_size (M_filter ts) < 4294967296 ->
  has_head (dir_of out) = true -> file_sum out = header_checksumMagic.
Proof. intros s ts out H1 H2 H3 H4. rewrite <- magic_ok. exact (write_whole s ts out H1 H2 H3 H4). Qed.
Print Assumptions whole_file_checksum.

(* 6. Reading back: for a scaler type header.Read knows, printable names and at
   most 280 tables, header.Read accepts the output, reports the scaler type
   and exactly the directory's tags, and ReadTableBytes returns every table
   written, byte for byte - for head up to the adjustment field (bytes 8..11),
   which Write patches. *)
Theorem read_write_roundtrip : forall (s : N) (ts : list table) (out : list N),
  map_ok ts -> M_write s ts = Ok out ->
  valid_scaler s = true ->
  Forall (fun t : table => forallb printable (fst t) = true) ts ->
  N.of_nat (length (M_filter ts)) <= header_maxTables ->
  file_size (M_filter ts) < 4294967296 ->
  exists toc,
    M_read_dir out = Ok (s, toc) /\
    map (fun t : toc_entry => fst (fst t)) toc = map r_tag (dir_of out) /\
    forall tg d, In (tg, d) (M_filter ts) ->
      exists off len, In (tg, off, len) toc /\
                      length (slice_table out off len) = length d /\
                      clear_adj tg (slice_table out off len) = clear_adj tg d.
Proof.
  intros s ts out H1 H2 H3 H4 H5 H6.
  apply read_write_roundtrip_lemma; try assumption.
  pose proof max_tables_ok. lia.
Qed.
Print Assumptions read_write_roundtrip.

(* ... and clear_adj is the identity except on a head table of >= 12 bytes *)
Theorem clear_adj_only_head : forall tg d,
  is_head (tg, d) = false -> clear_adj tg d = d.
Proof. intros tg d H. unfold clear_adj, clear_head. now rewrite H. Qed.

(* 7. The boolean checker run on the bytes the implementation produced is
   sound: for ANY byte string, acceptance implies every clause of 3 and 5. *)
Theorem container_checker_sound : forall b : list N,
  container_ok b = true -> S_wf b /\ (has_head (dir_of b) = true -> file_sum b = header_checksumMagic).
Proof. intros b H. rewrite <- magic_ok. exact (container_ok_sound b H). Qed.
Print Assumptions container_checker_sound.

(* 8. The output is a function of the table MAP, not of the order in which a
   Go map happens to be iterated: listing the entries in any other order gives
   the same bytes (this is what justifies modelling a Go map by a list). *)
Theorem write_order_independent : forall (s : N) (ts ts' : list table),
  map_ok ts -> Permutation ts ts' -> M_write s ts = M_write s ts'.
Proof. exact write_order_independent. Qed.
Print Assumptions write_order_independent.

(* 9. The arithmetic of the model is the arithmetic of header/write.go: each
   expression the translator extracted from the source on this run
   (coq/Gen/C03.v) equals the model's definition. *)
Theorem model_matches_source_expressions :
  (forall n, 1 <= n -> Z.of_N (hdr_entry_selector n) = header_expr_entrySelector (Z.of_N n)) /\
  (forall n, Z.of_N (wrap16 n) = header_expr_NumTables (Z.of_N n)) /\
  (forall es, Z.of_N (hdr_search_range es) = header_expr_SearchRange (Z.of_N es)) /\
  (forall es, Z.of_N (wrap16 es) = header_expr_EntrySelector (Z.of_N es)) /\
  (forall n, 1 <= n -> Z.of_N (hdr_range_shift n (N.log2 n)) =
                       header_expr_RangeShift (Z.of_N n) (Z.of_N (N.log2 n))) /\
  (forall n, Z.of_N (wrap32 (12 + 16 * n)) = header_expr_firstOffset (Z.of_N n)) /\
  (forall len, Z.of_N (padded32 len) = header_expr_advance (Z.of_N len)) /\
  (forall k : nat, Z.of_N (wrap32 (N.of_nat k)) = header_expr_length (Z.of_nat k)).
Proof.
  repeat split.
  - exact tie_entry_selector.
  - exact tie_num_tables.
  - exact tie_search_range.
  - exact tie_entry_selector_field.
  - exact tie_range_shift.
  - exact tie_first_offset.
  - exact tie_advance.
  - exact tie_length.
Qed.
Print Assumptions model_matches_source_expressions.
