(* C03/Proofs_Tie.v — the arithmetic of the model equals the expressions the
   translator extracted from header/write.go on this run (coq/Gen/C03.v).  A
   change of one of those Go expressions breaks a lemma here. *)
From Coq Require Import List NArith ZArith Bool Arith Lia.
From Coq Require Import ZifyBool ZifyNat ZifyN.
From Common Require Import Bytes Outcome.
From Gen Require Import Consts C03.
From C03 Require Import Model.
Import ListNotations.
Ltac Zify.zify_post_hook ::= Z.div_mod_to_equations.
Local Open Scope N_scope.

Lemma tie_magic : checksum_magic = header_checksumMagic.
Proof. reflexivity. Qed.

Lemma Z_log2_of_N n : Z.log2 (Z.of_N n) = Z.of_N (N.log2 n).
Proof. destruct n as [|[p|p|]]; reflexivity. Qed.

Lemma tie_entry_selector n : 1 <= n ->
  Z.of_N (hdr_entry_selector n) = header_expr_entrySelector (Z.of_N n).
Proof.
  intros H. unfold hdr_entry_selector, header_expr_entrySelector.
  destruct (Z.eqb_spec (Z.of_N n) 0) as [E|E]; [lia|].
  rewrite Z_log2_of_N. lia.
Qed.

Lemma tie_num_tables n : Z.of_N (wrap16 n) = header_expr_NumTables (Z.of_N n).
Proof. unfold wrap16, header_expr_NumTables. lia. Qed.

Lemma tie_search_range es :
  Z.of_N (hdr_search_range es) = header_expr_SearchRange (Z.of_N es).
Proof.
  unfold hdr_search_range, header_expr_SearchRange, wrap16.
  rewrite Z.shiftl_mul_pow2 by lia. rewrite Z.mul_1_l.
  rewrite N2Z.inj_mod, N2Z.inj_pow, N2Z.inj_add. reflexivity.
Qed.

Lemma tie_entry_selector_field es : Z.of_N (wrap16 es) = header_expr_EntrySelector (Z.of_N es).
Proof. unfold wrap16, header_expr_EntrySelector. lia. Qed.

Lemma tie_range_shift n : 1 <= n ->
  Z.of_N (hdr_range_shift n (N.log2 n)) = header_expr_RangeShift (Z.of_N n) (Z.of_N (N.log2 n)).
Proof.
  intros H. unfold hdr_range_shift, header_expr_RangeShift, wrap16.
  rewrite Z.shiftl_mul_pow2 by lia. rewrite Z.mul_1_l.
  destruct (N.log2_spec n ltac:(lia)) as [Ha _].
  rewrite N2Z.inj_mod, N2Z.inj_mul, N2Z.inj_sub by exact Ha.
  rewrite N2Z.inj_pow. reflexivity.
Qed.

Lemma tie_first_offset n : Z.of_N (wrap32 (12 + 16 * n)) = header_expr_firstOffset (Z.of_N n).
Proof. unfold wrap32, header_expr_firstOffset. lia. Qed.

Lemma tie_advance len : Z.of_N (padded32 len) = header_expr_advance (Z.of_N len).
Proof.
  unfold padded32, header_expr_advance, wrap32.
  rewrite Z.quot_div_nonneg by lia. lia.
Qed.

Lemma tie_length k : Z.of_N (wrap32 (N.of_nat k)) = header_expr_length (Z.of_nat k).
Proof. unfold wrap32, header_expr_length. lia. Qed.
