(* C03/Proofs_Order.v — header.Write is a function of the table MAP: listing
   the entries of the map in another order gives the same bytes (Go's map
   iteration order cannot influence the output). *)
From Coq Require Import List NArith ZArith Bool Arith Lia Permutation Sorted.
From Coq Require Import ZifyBool ZifyNat ZifyN.
From Common Require Import Bytes Outcome.
From Gen Require Import Consts.
From C03 Require Import Model Spec Util Proofs_Sort Proofs_Write.
Import ListNotations.
Local Open Scope N_scope.

(* two strictly sorted lists with the same elements are equal *)
Lemma sorted_perm_unique {A} (R : A -> A -> Prop) :
  (forall x y, R x y -> R y x -> False) ->
  forall l l', StronglySorted R l -> StronglySorted R l' -> Permutation l l' -> l = l'.
Proof.
  intros Hasym. induction l as [|x l IH]; intros l' Hs Hs' Hp.
  - apply Permutation_nil in Hp. now subst.
  - destruct l' as [|y l'']; [symmetry in Hp; apply Permutation_nil in Hp; discriminate|].
    inversion Hs as [|? ? Hsl Hx]; subst. inversion Hs' as [|? ? Hsl' Hy]; subst.
    assert (x = y).
    { assert (Hxin : In x (y :: l'')) by (eapply Permutation_in; [exact Hp|now left]).
      assert (Hyin : In y (x :: l)) by (eapply Permutation_in; [symmetry; exact Hp|now left]).
      destruct Hxin as [->|Hxin]; [reflexivity|].
      destruct Hyin as [->|Hyin]; [reflexivity|].
      rewrite Forall_forall in Hx, Hy. exfalso. apply (Hasym x y); auto. }
    subst y. f_equal. apply IH; try assumption. eapply Permutation_cons_inv; exact Hp.
Qed.

Definition before_tb (a b : N * list N) : bool := prio_before (fst a) (fst b).
Definition Rtb (a b : N * list N) : Prop := before_tb a b = true.

Lemma prio_before_asym t u : prio_before t u = true -> prio_before u t = true -> False.
Proof.
  unfold prio_before.
  destruct (Z.eqb_spec (prio t) (prio u)), (Z.eqb_spec (prio u) (prio t)); lia.
Qed.

Lemma prio_before_total t u : t <> u -> prio_before t u = false -> prio_before u t = true.
Proof.
  unfold prio_before. intros Hne.
  destruct (Z.eqb_spec (prio t) (prio u)), (Z.eqb_spec (prio u) (prio t)); lia.
Qed.

Lemma prio_before_trans t u v : prio_before t u = true -> prio_before u v = true -> prio_before t v = true.
Proof.
  unfold prio_before.
  destruct (Z.eqb_spec (prio t) (prio u)), (Z.eqb_spec (prio u) (prio v)), (Z.eqb_spec (prio t) (prio v)); lia.
Qed.

Lemma before_tb_asym x y : before_tb x y = true -> before_tb y x = false.
Proof.
  unfold before_tb. intros H. destruct (prio_before (fst y) (fst x)) eqn:E; [|reflexivity].
  exfalso. eapply prio_before_asym; eassumption.
Qed.

Lemma sorted_nafter_strict l :
  Sorted (nafter before_tb) l -> NoDup (map fst l) -> StronglySorted Rtb l.
Proof.
  intros Hs Hn. apply Sorted_StronglySorted.
  { intros x y z. unfold Rtb, before_tb. apply prio_before_trans. }
  induction Hs as [|a l Hs IH Hh]; [constructor|].
  cbn [map] in Hn. apply NoDup_cons_iff in Hn. destruct Hn as [Hnin Hn].
  constructor; [now apply IH|].
  destruct Hh as [|b l' Hab]; constructor.
  unfold Rtb, before_tb. unfold nafter, before_tb in Hab.
  apply prio_before_total; [|exact Hab].
  intros E. apply Hnin. cbn [map]. left. now symmetry.
Qed.

Lemma isort_perm_unique l l' :
  Permutation l l' -> NoDup (map fst l) -> isort before_tb l = isort before_tb l'.
Proof.
  intros Hp Hn.
  apply (sorted_perm_unique Rtb).
  - intros x y. unfold Rtb, before_tb. apply prio_before_asym.
  - apply sorted_nafter_strict; [apply isort_sorted; exact before_tb_asym|].
    eapply Permutation_NoDup; [apply Permutation_map; symmetry; apply isort_perm|exact Hn].
  - apply sorted_nafter_strict; [apply isort_sorted; exact before_tb_asym|].
    eapply Permutation_NoDup; [apply Permutation_map; symmetry; apply isort_perm|].
    eapply Permutation_NoDup; [apply Permutation_map; exact Hp|exact Hn].
  - rewrite isort_perm, isort_perm. exact Hp.
Qed.

Lemma filter_perm ts ts' : Permutation ts ts' -> Permutation (M_filter ts) (M_filter ts').
Proof. intros H. unfold M_filter. now apply Permutation_flat_map. Qed.

Lemma write_order_independent s ts ts' :
  map_ok ts -> Permutation ts ts' -> M_write s ts = M_write s ts'.
Proof.
  intros Hmap Hp. unfold M_write, M_plan.
  pose proof (filter_perm _ _ Hp) as Hf.
  rewrite <- (Permutation_length Hf).
  fold before_tb.
  rewrite <- (isort_perm_unique _ _ Hf (filter_nodup ts Hmap)).
  reflexivity.
Qed.
