(* C03/Examples.v — non-vacuity: a concrete table map meeting every hypothesis
   of every theorem, the values the theorems speak about, and the witnesses of
   the two repaired defects evaluated on the model of the original code. *)
From Coq Require Import List NArith ZArith Bool Arith Lia.
From Common Require Import Bytes Outcome.
From Gen Require Import Consts C03.
From C03 Require Import Model Spec.
Import ListNotations.
Local Open Scope N_scope.

Definition nm (a b c d : N) : list N := [a; b; c; d].
Definition ex_head : list N := map N.of_nat (seq 1 54).
Definition ex_tables : list table :=
  [ (nm 103 108 121 102, Some [1; 2; 3; 4; 5]);            (* glyf, 5 bytes *)
    (nm 104 101 97 100, Some ex_head);                      (* head, 54 bytes *)
    (nm 108 111 99 97, None);                               (* loca = nil *)
    ([97; 98; 99], Some [9]);                               (* "abc": not a 4-byte name *)
    (nm 99 109 97 112, Some []);                            (* cmap, empty *)
    (nm 90 90 90 90, Some [255; 255; 255; 255; 255; 255; 255]) ].  (* ZZZZ *)

Definition ex_out : list N :=
  match M_write header_scalerTrueType ex_tables with Ok b => b | _ => [] end.

Example ex_map_ok : map_ok ex_tables.
Proof.
  split.
  - cbn [map fst ex_tables]. repeat constructor; cbn; intuition discriminate.
  - unfold ex_tables. repeat constructor; unfold is_byte; lia.
Qed.

Example ex_write_ok : M_write header_scalerTrueType ex_tables = Ok ex_out.
Proof. vm_compute. reflexivity. Qed.

Example ex_hyps :
  N.of_nat (length (M_filter ex_tables)) = 4 /\
  file_size (M_filter ex_tables) = 148 /\
  valid_scaler header_scalerTrueType = true /\
  N.of_nat (length ex_out) = 148.
Proof. vm_compute. repeat split; reflexivity. Qed.

Example ex_printable : Forall (fun t : table => forallb printable (fst t) = true) ex_tables.
Proof. unfold ex_tables. repeat constructor. Qed.

(* the output passes the verified checker, has a head table, sums to the magic
   constant, and header.Read accepts it *)
Example ex_checked :
  container_ok ex_out = true /\ has_head (dir_of ex_out) = true /\
  file_sum ex_out = header_checksumMagic /\
  num_tables ex_out = 4 /\
  map r_tag (dir_of ex_out) = [1515870810; 1668112752; 1735162214; 1751474532].
Proof. vm_compute. repeat split; reflexivity. Qed.

Example ex_read :
  omap (fun r => (fst r, toc_sorted (snd r))) (M_read_dir ex_out) =
  Ok (65536, [(1515870810, 140, 7); (1668112752, 132, 0); (1735162214, 132, 5); (1751474532, 76, 54)]).
Proof. vm_compute. reflexivity. Qed.

(* checksum: streaming in odd pieces = block; a value that wraps 2^32 *)
Example ex_checksum :
  M_checksum_chunks [[255]; []; [255; 255]; [255; 255; 1]; [2; 3; 4; 5; 6]] =
  S_checksum [255; 255; 255; 255; 255; 1; 2; 3; 4; 5; 6] /\
  S_checksum [255; 255; 255; 255; 255; 1; 2; 3; 4; 5; 6] = 50726914.
Proof. vm_compute. split; reflexivity. Qed.

(* a mutated container is rejected by checker and reader (offset of one table
   shifted by 2) *)
Definition ex_bad : list N := firstn 39 ex_out ++ [134] ++ skipn 40 ex_out.
Example ex_bad_rejected : container_ok ex_bad = false /\ M_read_dir ex_bad = Err.
Proof. vm_compute. split; reflexivity. Qed.

(* no table to write: the Go code panics (1 << -1), the model says Panic *)
Example ex_empty_panics :
  M_write 65536 [] = Panic /\ M_write 65536 [(nm 103 108 121 102, None)] = Panic.
Proof. vm_compute. split; reflexivity. Qed.

(* Defect 5.A-3 on the model of the ORIGINAL code: a nil-valued entry is
   counted in numTables; the output is not a well-formed container and
   header.Read rejects it.  The repaired model writes a good file. *)
Definition nil_witness : list table :=
  [ (nm 103 108 121 102, Some [1; 2; 3; 4; 5]); (nm 108 111 99 97, None) ].
Example write_nil_refuted :
  exists b, M_write_original 65536 nil_witness = Ok b /\
            num_tables b = 2 /\ container_ok b = false /\ M_read_dir b = Err.
Proof. eexists. vm_compute. repeat split; reflexivity. Qed.
Example write_nil_fixed :
  exists b, M_write 65536 nil_witness = Ok b /\
            num_tables b = 1 /\ container_ok b = true /\ is_ok (M_read_dir b) = true.
Proof. eexists. vm_compute. repeat split; reflexivity. Qed.

(* Second repaired defect: a head entry shorter than 12 bytes (or nil) made the
   original code panic in clearChecksum; the repaired code writes the table
   unchanged. *)
Definition short_head_witness : list table :=
  [ (nm 104 101 97 100, Some [1; 2; 3]); (nm 103 108 121 102, Some [1]) ].
Example write_short_head_refuted : M_write_original 65536 short_head_witness = Panic.
Proof. vm_compute. reflexivity. Qed.
Example write_short_head_fixed :
  exists b, M_write 65536 short_head_witness = Ok b /\ container_ok b = true /\
            has_head (dir_of b) = false.
Proof. eexists. vm_compute. repeat split; reflexivity. Qed.
