(* C03/Util.v — small list / arithmetic lemmas used by the C03 proofs. *)
From Coq Require Import List NArith ZArith Bool Arith Lia Permutation Sorted.
From Coq Require Import ZifyBool ZifyNat ZifyN.
From Common Require Import Bytes.
Import ListNotations.
Ltac Zify.zify_post_hook ::= Z.div_mod_to_equations.

(* induction four elements at a time *)
Lemma list_ind4 {A} (P : list A -> Prop) :
  P [] -> (forall a, P [a]) -> (forall a b, P [a; b]) -> (forall a b c, P [a; b; c]) ->
  (forall a b c d r, P r -> P (a :: b :: c :: d :: r)) -> forall l, P l.
Proof.
  intros H0 H1 H2 H3 H4.
  fix IH 1. intros [|a [|b [|c [|d r]]]]; [exact H0|apply H1|apply H2|apply H3|apply H4; apply IH].
Qed.

Lemma pad_len_add4 n : pad_len (4 + n) = pad_len n.
Proof. unfold pad_len. lia. Qed.

Lemma pad4_cons4 a b c d (r : list N) : pad4 (a :: b :: c :: d :: r) = a :: b :: c :: d :: pad4 r.
Proof.
  unfold pad4. cbn [length]. change (S (S (S (S (length r))))) with (4 + length r)%nat.
  rewrite pad_len_add4. reflexivity.
Qed.

Lemma pad_len_0 n : (n mod 4 = 0)%nat -> pad_len n = 0%nat.
Proof. unfold pad_len. lia. Qed.

Lemma pad4_idem (l : list N) : pad4 (pad4 l) = pad4 l.
Proof.
  unfold pad4 at 1. rewrite pad_len_0 by apply pad4_length_mod. cbn [repeat]. apply app_nil_r.
Qed.

Lemma pad4_length (l : list N) : length (pad4 l) = (length l + pad_len (length l))%nat.
Proof. unfold pad4. now rewrite app_length, repeat_length. Qed.

Lemma firstn_length_firstn {A} : forall k (l : list A), firstn (length (firstn k l)) l = firstn k l.
Proof.
  induction k as [|k IH]; intros [|x l]; cbn [firstn length]; try reflexivity.
  f_equal. apply IH.
Qed.

Lemma skipn_app_exact {A} (a c : list A) n : n = length a -> skipn n (a ++ c) = c.
Proof. intros ->. induction a as [|x a IH]; cbn [length app skipn]; auto. Qed.

Lemma firstn_app_exact {A} (a c : list A) n : n = length a -> firstn n (a ++ c) = a.
Proof. intros ->. induction a as [|x a IH]; cbn [length app firstn]; [now destruct c|now f_equal]. Qed.
