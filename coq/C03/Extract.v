From Coq Require Import Extraction ExtrOcamlBasic.
From Common Require Import Conv.
From Gen Require Import Consts.
From C03 Require Import Model.
Extraction "c03_model.ml" conv_anchor M_checksum_chunks S_checksum M_write M_write_original
  container_ok M_read_dir M_read_tables toc_sorted file_sum.
