(* C03/Proofs_Checksum.v — the streaming checksum equals the block definition
   for every way of cutting the data into pieces. *)
From Coq Require Import List NArith ZArith Bool Arith Lia.
From Coq Require Import ZifyBool ZifyNat ZifyN.
From Common Require Import Bytes Outcome.
From C03 Require Import Model Util.
Import ListNotations.
Ltac Zify.zify_post_hook ::= Z.div_mod_to_equations.
Local Open Scope N_scope.

(* feeding one byte *)
Definition ck_byte (st : ck) (x : N) : ck := ck_flush (ck_sum st) (ck_pend st ++ [x]).

Definition ck_wf (st : ck) : Prop := (length (ck_pend st) < 4)%nat.

Lemma ck_flush_wf s pend : (length pend <= 4)%nat -> ck_wf (ck_flush s pend).
Proof.
  intros H. unfold ck_flush, ck_wf.
  destruct (Nat.eqb_spec (length pend) 4) as [E|E]; cbn [ck_pend length]; lia.
Qed.

Lemma ck_byte_wf st x : ck_wf st -> ck_wf (ck_byte st x).
Proof.
  intros H. unfold ck_byte. apply ck_flush_wf. unfold ck_wf in H.
  rewrite app_length. cbn [length]. lia.
Qed.

Lemma fold_ck_byte_wf l : forall st, ck_wf st -> ck_wf (fold_left ck_byte l st).
Proof.
  induction l as [|x l IH]; intros st H; cbn [fold_left]; auto using ck_byte_wf.
Qed.

(* one copy(...) step = feeding its bytes one by one *)
Lemma fold_chunk : forall chunk s pend,
  chunk <> [] -> (length pend + length chunk <= 4)%nat ->
  fold_left ck_byte chunk (mk_ck s pend) = ck_flush s (pend ++ chunk).
Proof.
  induction chunk as [|x c IH]; intros s pend Hne Hlen; [congruence|].
  cbn [fold_left].
  assert (E1 : ck_byte (mk_ck s pend) x = ck_flush s (pend ++ [x])) by reflexivity.
  rewrite E1.
  destruct c as [|y c'].
  - reflexivity.
  - cbn [length] in Hlen.
    assert (E2 : ck_flush s (pend ++ [x]) = mk_ck s (pend ++ [x])).
    { unfold ck_flush.
      destruct (Nat.eqb_spec (length (pend ++ [x])) 4) as [E|E]; [|reflexivity].
      rewrite app_length in E. cbn [length] in E. lia. }
    rewrite E2, IH; [|discriminate|rewrite app_length; cbn [length]; lia].
    now rewrite <- app_assoc.
Qed.

Lemma ck_write_loop_fold : forall fuel st p,
  ck_wf st -> (length p <= fuel)%nat ->
  ck_write_loop fuel st p = fold_left ck_byte p st.
Proof.
  induction fuel as [|f IH]; intros st p Hwf Hf.
  - destruct p; [reflexivity|cbn [length] in Hf; lia].
  - destruct p as [|x p]; [reflexivity|].
    cbn [ck_write_loop].
    set (chunk := firstn (4 - length (ck_pend st)) (x :: p)).
    assert (Hsplit : x :: p = chunk ++ skipn (length chunk) (x :: p)).
    { rewrite <- (firstn_skipn (length chunk) (x :: p)) at 1. f_equal.
      unfold chunk. apply firstn_length_firstn. }
    assert (Hc : chunk <> []).
    { unfold chunk. unfold ck_wf in Hwf.
      destruct (4 - length (ck_pend st))%nat eqn:E; [lia|]. cbn [firstn]. discriminate. }
    assert (Hcl : (length (ck_pend st) + length chunk <= 4)%nat).
    { unfold chunk. rewrite firstn_length. unfold ck_wf in Hwf. lia. }
    rewrite IH.
    + rewrite Hsplit at 2. rewrite fold_left_app. f_equal.
      destruct st as [s pend]. cbn [ck_sum ck_pend] in *.
      symmetry. apply fold_chunk; assumption.
    + apply ck_flush_wf. rewrite app_length. exact Hcl.
    + assert (length (x :: p) = (length chunk + length (skipn (length chunk) (x :: p)))%nat).
      { rewrite Hsplit at 1. apply app_length. }
      assert (0 < length chunk)%nat by (destruct chunk; [congruence|cbn [length]; lia]).
      cbn [length] in *. lia.
Qed.

Lemma ck_write_fold st p : ck_wf st -> ck_write st p = fold_left ck_byte p st.
Proof. intros H. unfold ck_write. apply ck_write_loop_fold; [exact H|lia]. Qed.

Lemma ck_write_wf st p : ck_wf st -> ck_wf (ck_write st p).
Proof. intros H. rewrite ck_write_fold by exact H. now apply fold_ck_byte_wf. Qed.

Lemma ck_init_wf : ck_wf ck_init.
Proof. unfold ck_wf. cbn. lia. Qed.

(* arbitrary chunking = one pass over the concatenation *)
Lemma fold_ck_write_concat : forall cs st,
  ck_wf st -> fold_left ck_write cs st = fold_left ck_byte (concat cs) st.
Proof.
  induction cs as [|c cs IH]; intros st H; cbn [fold_left concat]; [reflexivity|].
  rewrite fold_left_app, IH by (now apply ck_write_wf).
  now rewrite ck_write_fold.
Qed.

Lemma wrap32_add_l a b : wrap32 (wrap32 a + b) = wrap32 (a + b).
Proof. unfold wrap32. now rewrite N.add_mod_idemp_l by lia. Qed.

Lemma wrap32_idem a : wrap32 (wrap32 a) = wrap32 a.
Proof. unfold wrap32. now rewrite N.mod_mod by lia. Qed.

(* the state machine started with an empty buffer computes the word sum of the
   zero-padded data *)
Lemma wrap32_small a : a < 4294967296 -> wrap32 a = a.
Proof. intros H. unfold wrap32. now apply N.mod_small. Qed.

Lemma wrap32_lt a : wrap32 a < 4294967296.
Proof. unfold wrap32. apply N.mod_lt. lia. Qed.

Lemma ck_final_fold : forall l s, s < 4294967296 ->
  ck_final (fold_left ck_byte l (mk_ck s [])) = wrap32 (s + nsum (words32 (pad4 l))).
Proof.
  induction l as [| a | a b | a b c | a b c d r IH] using list_ind4; intros s Hs.
  - cbn. rewrite N.add_0_r. now rewrite wrap32_small.
  - unfold ck_final. cbn [fold_left ck_byte ck_flush ck_sum ck_pend app length Nat.eqb Nat.sub firstn].
    rewrite ck_write_fold by (unfold ck_wf; cbn; lia).
    cbn [fold_left ck_byte ck_flush ck_sum ck_pend app length Nat.eqb].
    unfold pad4. change (pad_len (length [a])) with 3%nat. cbn [repeat app words32 nsum fold_right].
    now rewrite N.add_0_r.
  - unfold ck_final. cbn [fold_left ck_byte ck_flush ck_sum ck_pend app length Nat.eqb Nat.sub firstn].
    rewrite ck_write_fold by (unfold ck_wf; cbn; lia).
    cbn [fold_left ck_byte ck_flush ck_sum ck_pend app length Nat.eqb].
    unfold pad4. change (pad_len (length [a; b])) with 2%nat. cbn [repeat app words32 nsum fold_right].
    now rewrite N.add_0_r.
  - unfold ck_final. cbn [fold_left ck_byte ck_flush ck_sum ck_pend app length Nat.eqb Nat.sub firstn].
    rewrite ck_write_fold by (unfold ck_wf; cbn; lia).
    cbn [fold_left ck_byte ck_flush ck_sum ck_pend app length Nat.eqb].
    unfold pad4. change (pad_len (length [a; b; c])) with 1%nat. cbn [repeat app words32 nsum fold_right].
    now rewrite N.add_0_r.
  - cbn [fold_left ck_byte ck_flush ck_sum ck_pend app length Nat.eqb].
    rewrite IH by apply wrap32_lt. rewrite pad4_cons4. cbn [words32 nsum fold_right].
    rewrite wrap32_add_l. apply (f_equal wrap32). unfold nsum. lia.
Qed.

Lemma M_checksum_chunks_spec cs : M_checksum_chunks cs = S_checksum (concat cs).
Proof.
  unfold M_checksum_chunks, S_checksum.
  rewrite fold_ck_write_concat by apply ck_init_wf.
  unfold ck_init. rewrite ck_final_fold by lia. now rewrite N.add_0_l.
Qed.

Lemma M_checksum_spec d : M_checksum d = S_checksum d.
Proof.
  unfold M_checksum, S_checksum.
  rewrite ck_write_fold by apply ck_init_wf.
  unfold ck_init. rewrite ck_final_fold by lia. now rewrite N.add_0_l.
Qed.

Lemma S_checksum_pad4 d : S_checksum (pad4 d) = S_checksum d.
Proof. unfold S_checksum. now rewrite pad4_idem. Qed.

Lemma S_checksum_bound d : S_checksum d < 4294967296.
Proof. unfold S_checksum, wrap32. apply N.mod_lt. lia. Qed.
