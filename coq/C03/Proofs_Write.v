(* C03/Proofs_Write.v — the output of header.Write is a well-formed container. *)
From Coq Require Import List NArith ZArith Bool Arith Lia Permutation Sorted.
From Coq Require Import ZifyBool ZifyNat ZifyN.
From Common Require Import Bytes Outcome.
From Gen Require Import Consts.
From C03 Require Import Model Spec Util Proofs_Sort Proofs_Checksum Proofs_Layout Proofs_Parse Proofs_Read.
Import ListNotations.
Ltac Zify.zify_post_hook ::= Z.div_mod_to_equations.
Local Open Scope N_scope.

(* ---------- put32 ---------- *)

Lemma put32_length d o v : (o + 4 <= length d)%nat -> length (put32 d o v) = length d.
Proof.
  intros H. unfold put32. rewrite !app_length, firstn_length, skipn_length, be32_length. lia.
Qed.

Lemma put32_put32 d o v w : (o + 4 <= length d)%nat -> put32 (put32 d o v) o w = put32 d o w.
Proof.
  intros H. unfold put32 at 1 3. f_equal; [|f_equal].
  - unfold put32. apply firstn_app_exact. rewrite firstn_length. lia.
  - unfold put32. rewrite app_assoc. apply skipn_app_exact.
    rewrite app_length, firstn_length, be32_length. lia.
Qed.

(* ---------- clearChecksum / patchChecksum ---------- *)

Lemma clear_head_fst x : fst (clear_head x) = fst x.
Proof. unfold clear_head. now destruct (is_head x). Qed.

Lemma patch_head_fst t x : fst (patch_head t x) = fst x.
Proof. unfold patch_head. now destruct (is_head x). Qed.

Lemma is_head_len x : is_head x = true -> (8 + 4 <= length (snd x))%nat.
Proof. unfold is_head. intros H. apply andb_true_iff in H. destruct H as [_ H]. apply Nat.leb_le in H. lia. Qed.

Lemma clear_head_len x : length (snd (clear_head x)) = length (snd x).
Proof.
  unfold clear_head. destruct (is_head x) eqn:E; [|reflexivity].
  cbn [snd]. apply put32_length. now apply is_head_len.
Qed.

Lemma patch_head_len t x : length (snd (patch_head t x)) = length (snd x).
Proof.
  unfold patch_head. destruct (is_head x) eqn:E; [|reflexivity].
  cbn [snd]. apply put32_length. now apply is_head_len.
Qed.

Lemma is_head_congr x y : fst x = fst y -> length (snd x) = length (snd y) -> is_head x = is_head y.
Proof. unfold is_head. now intros -> ->. Qed.

Lemma is_head_clear x : is_head (clear_head x) = is_head x.
Proof. apply is_head_congr; [apply clear_head_fst|apply clear_head_len]. Qed.

Lemma is_head_patch t x : is_head (patch_head t x) = is_head x.
Proof. apply is_head_congr; [apply patch_head_fst|apply patch_head_len]. Qed.

Lemma clear_patch_clear t x : clear_head (patch_head t (clear_head x)) = clear_head x.
Proof.
  unfold clear_head at 1. rewrite is_head_patch, is_head_clear.
  destruct (is_head x) eqn:E.
  - unfold patch_head. rewrite is_head_clear, E. cbn [fst snd].
    unfold clear_head. rewrite E. cbn [fst snd].
    pose proof (is_head_len _ E).
    rewrite !put32_put32; [reflexivity|assumption|].
    rewrite put32_length; assumption.
  - unfold patch_head. rewrite is_head_clear, E. reflexivity.
Qed.

(* ---------- the filter ---------- *)

Ltac inv_forall :=
  repeat match goal with
         | H : Forall _ (_ :: _) |- _ =>
           let h := fresh "Hb" in
           pose proof (Forall_inv H) as h; apply Forall_inv_tail in H; cbv beta in h
         end.

Lemma rd32_bytes_lt l : length l = 4%nat -> Forall is_byte l -> rd32 l < 4294967296.
Proof.
  destruct l as [|a [|b [|c [|d [|? ?]]]]]; cbn [length]; try discriminate.
  intros _ H. inv_forall.
  unfold is_byte, rd32 in *. lia.
Qed.

Lemma rd32_inj l l' :
  length l = 4%nat -> length l' = 4%nat -> Forall is_byte l -> Forall is_byte l' ->
  rd32 l = rd32 l' -> l = l'.
Proof.
  destruct l as [|a [|b [|c [|d [|? ?]]]]]; cbn [length]; try discriminate.
  destruct l' as [|a' [|b' [|c' [|d' [|? ?]]]]]; cbn [length]; try discriminate.
  intros _ _ H H' E.
  inv_forall.
  unfold is_byte, rd32 in *.
  assert (a = a') by lia. subst a'.
  assert (b = b') by lia. subst b'.
  assert (c = c') by lia. subst c'.
  assert (d = d') by lia. subst d'.
  reflexivity.
Qed.

Lemma filter_in ts tg d :
  In (tg, d) (M_filter ts) ->
  exists nm, In (nm, Some d) ts /\ length nm = 4%nat /\ tg = rd32 nm.
Proof.
  unfold M_filter. intros H. apply in_flat_map in H. destruct H as ([nm od] & Hin & H).
  cbn [fst snd] in H. destruct od as [d'|]; [|contradiction].
  destruct (Nat.eqb_spec (length nm) 4) as [E|E]; [|contradiction].
  destruct H as [H|[]]. inversion H; subst. exists nm. auto.
Qed.

Lemma filter_tags_lt ts : map_ok ts -> Forall (fun tb => fst tb < 4294967296) (M_filter ts).
Proof.
  intros [_ Hb]. apply Forall_forall. intros [tg d] Hin.
  destruct (filter_in _ _ _ Hin) as (nm & Hnm & Hl & ->). cbn [fst].
  apply rd32_bytes_lt; [exact Hl|].
  rewrite Forall_forall in Hb. apply (Hb _ Hnm).
Qed.

Lemma filter_nodup ts : map_ok ts -> NoDup (map fst (M_filter ts)).
Proof.
  intros [Hn Hb]. induction ts as [|[nm od] ts IH]; [constructor|].
  cbn [map fst] in Hn. inversion Hn as [|? ? Hnin Hn']; subst.
  inversion Hb as [|? ? Hb1 Hb2]; subst. cbn [fst] in Hb1.
  specialize (IH Hn' Hb2).
  unfold M_filter. cbn [flat_map fst snd]. fold (M_filter ts).
  destruct od as [d|]; [|exact IH].
  destruct (Nat.eqb_spec (length nm) 4) as [E|E]; [|exact IH].
  cbn [app map fst]. constructor; [|exact IH].
  intros Hin. apply in_map_iff in Hin. destruct Hin as ([tg d'] & Htg & Hin). cbn [fst] in Htg. subst tg.
  destruct (filter_in _ _ _ Hin) as (nm' & Hnm' & Hl' & Heq).
  assert (nm' = nm).
  { apply rd32_inj; auto. rewrite Forall_forall in Hb2. apply (Hb2 _ Hnm'). }
  subst nm'. apply Hnin. apply in_map_iff. exists (nm, Some d'). auto.
Qed.

(* ---------- sizes ---------- *)

Lemma total_padded_perm l l' : Permutation l l' -> total_padded l = total_padded l'.
Proof. intros H. unfold total_padded. apply nsum_perm. now apply Permutation_map. Qed.

Lemma total_padded_map_len (g : N * list N -> N * list N) l :
  (forall tb, length (snd (g tb)) = length (snd tb)) -> total_padded (map g l) = total_padded l.
Proof.
  intros Hg. unfold total_padded. rewrite map_map. f_equal. apply map_ext. intros tb.
  unfold lenN. now rewrite Hg.
Qed.

Lemma file_size_eq l : file_size l = 12 + 16 * N.of_nat (length l) + total_padded l.
Proof. reflexivity. Qed.

Lemma concat_pad4_length (g : N * list N -> N * list N) l :
  (forall tb, length (snd (g tb)) = length (snd tb)) ->
  N.of_nat (length (concat (map (fun tb => pad4 (snd (g tb))) l))) = total_padded l.
Proof.
  intros Hg. induction l as [|tb l IH]; [reflexivity|].
  cbn [map concat]. rewrite app_length, total_padded_cons, <- IH, pad4_length, Hg.
  unfold lenN. rewrite pad4N_of_nat. lia.
Qed.

Lemma Forall2_Forall_l {A B} (P : A -> B -> Prop) (Q : A -> Prop) l1 l2 :
  Forall2 P l1 l2 -> (forall a b, In b l2 -> P a b -> Q a) -> Forall Q l1.
Proof.
  intros H. induction H as [|a b l1 l2 Hab H IH]; intros HQ; constructor.
  - apply (HQ a b); [now left|exact Hab].
  - apply IH. intros a' b' Hin. apply HQ. now right.
Qed.


(* ---------- word sums of concatenations ---------- *)

Lemma words32_app x y : (length x mod 4 = 0)%nat -> words32 (x ++ y) = words32 x ++ words32 y.
Proof.
  induction x as [| a | a c | a c d | a c d e r IH] using list_ind4; cbn [length]; intros H;
    try (exfalso; cbn in H; lia).
  - reflexivity.
  - cbn [app words32]. rewrite IH; [reflexivity|].
    change (S (S (S (S (length r))))) with (4 + length r)%nat in H. lia.
Qed.

Lemma nsum_app a c : nsum (a ++ c) = nsum a + nsum c.
Proof. unfold nsum. induction a as [|x a IH]; cbn [app fold_right]; lia. Qed.

Lemma file_sum_app x y : (length x mod 4 = 0)%nat -> file_sum (x ++ y) = wrap32 (file_sum x + file_sum y).
Proof.
  intros H. unfold file_sum. rewrite words32_app, nsum_app by exact H. unfold wrap32. lia.
Qed.

Lemma file_sum_pad4 d : file_sum (pad4 d) = S_checksum d.
Proof. reflexivity. Qed.

Lemma file_sum_aligned d : (length d mod 4 = 0)%nat -> file_sum d = S_checksum d.
Proof.
  intros H. unfold S_checksum, file_sum, pad4. rewrite pad_len_0 by exact H. now rewrite app_nil_r.
Qed.

Lemma file_sum_concat_pad4 (f : N * list N -> list N) l :
  file_sum (concat (map (fun tb => pad4 (f tb)) l)) = wrap32 (nsum (map (fun tb => S_checksum (f tb)) l)).
Proof.
  induction l as [|tb l IH]; [reflexivity|].
  cbn [map concat nsum fold_right]. rewrite file_sum_app by apply pad4_length_mod.
  rewrite IH, file_sum_pad4. unfold nsum, wrap32. lia.
Qed.

Lemma fold_wrap_sum {A} (f : A -> N) l : forall a, a < 4294967296 ->
  fold_left (fun acc r => wrap32 (acc + f r)) l a = wrap32 (a + nsum (map f l)).
Proof.
  induction l as [|x l IH]; intros a Ha; cbn [fold_left map nsum fold_right].
  - rewrite N.add_0_r. symmetry. now apply wrap32_small.
  - rewrite IH by apply wrap32_lt. unfold nsum, wrap32. lia.
Qed.

Lemma layout_sums : forall l off, map r_sum (layout off l) = map (fun tb => M_checksum (snd tb)) l.
Proof. induction l as [|tb l IH]; intros off; cbn [layout map r_sum]; [reflexivity|now rewrite IH]. Qed.

(* writing the adjustment into a cleared head adds it to the checksum *)
Lemma S_checksum_put32 d v : (12 <= length d)%nat -> v < 4294967296 ->
  S_checksum (put32 d 8 v) = wrap32 (S_checksum (put32 d 8 0) + v).
Proof.
  intros Hl Hv.
  destruct d as [|d0 [|d1 [|d2 [|d3 [|d4 [|d5 [|d6 [|d7 [|d8 [|d9 [|d10 [|d11 r]]]]]]]]]]]];
    cbn [length] in Hl; try lia.
  unfold put32. cbn [firstn skipn plus app].
  assert (E : forall w, S_checksum (d0 :: d1 :: d2 :: d3 :: d4 :: d5 :: d6 :: d7 :: be32 w ++ r) =
                        wrap32 (rd32 [d0; d1; d2; d3] + (rd32 [d4; d5; d6; d7] + (rd32 (be32 w) + nsum (words32 (pad4 r)))))).
  { intros w. unfold S_checksum, be32. cbn [app]. rewrite !pad4_cons4. reflexivity. }
  rewrite !E, !rd32_be32 by lia. unfold wrap32. lia.
Qed.

Lemma Forall2_In_l {A B} (P : A -> B -> Prop) l1 l2 a :
  Forall2 P l1 l2 -> In a l1 -> exists b, In b l2 /\ P a b.
Proof.
  intros H. induction H as [|x y l1 l2 Hxy H IH]; intros Hin; [contradiction|].
  destruct Hin as [->|Hin]; [exists y; split; [now left|exact Hxy]|].
  destruct (IH Hin) as (b & Hb & Hp). exists b. split; [now right|exact Hp].
Qed.

Lemma no_head_patch t l : existsb is_head l = false ->
  map (fun tb => S_checksum (snd (patch_head t tb))) l = map (fun tb => S_checksum (snd tb)) l.
Proof.
  intros H. apply map_ext_in. intros tb Hin. unfold patch_head.
  destruct (is_head tb) eqn:E; [|reflexivity].
  exfalso. assert (existsb is_head l = true) by (apply existsb_exists; eauto). congruence.
Qed.

Lemma patched_sum t l :
  NoDup (map fst l) -> (forall tb, In tb l -> exists tb0, tb = clear_head tb0) ->
  wrap32 (nsum (map (fun tb => S_checksum (snd (patch_head t tb))) l)) =
  wrap32 (nsum (map (fun tb => S_checksum (snd tb)) l) +
          (if existsb is_head l then wrap32 (checksum_magic + 4294967296 - t) else 0)).
Proof.
  induction l as [|tb l IH]; intros Hn Hc; [reflexivity|].
  cbn [map fst] in Hn. inversion Hn as [|? ? Hnin Hn']; subst.
  cbn [map nsum fold_right existsb].
  destruct (is_head tb) eqn:E; cbn [orb].
  - assert (Hno : existsb is_head l = false).
    { destruct (existsb is_head l) eqn:Ex; [|reflexivity]. exfalso.
      apply existsb_exists in Ex. destruct Ex as (tb' & Hin' & E').
      apply Hnin. apply in_map_iff. exists tb'. split; [|exact Hin'].
      unfold is_head in E, E'. apply andb_true_iff in E, E'.
      destruct E as [E _], E' as [E' _]. apply N.eqb_eq in E, E'. congruence. }
    rewrite (no_head_patch t l Hno).
    destruct (Hc tb (or_introl eq_refl)) as (tb0 & Htb).
    assert (E0 : is_head tb0 = true) by (rewrite <- is_head_clear, <- Htb; exact E).
    pose proof (is_head_len _ E0) as Hlen.
    assert (Ep : snd (patch_head t tb) = put32 (snd tb0) 8 (wrap32 (checksum_magic + 4294967296 - t))).
    { unfold patch_head. rewrite E. cbn [snd]. rewrite Htb. unfold clear_head. rewrite E0. cbn [snd].
      apply put32_put32. exact Hlen. }
    assert (Ec : snd tb = put32 (snd tb0) 8 0).
    { rewrite Htb. unfold clear_head. now rewrite E0. }
    rewrite Ep, Ec, S_checksum_put32 by (try apply wrap32_lt; lia).
    unfold nsum, wrap32. lia.
  - assert (Ep : patch_head t tb = tb) by (unfold patch_head; now rewrite E).
    rewrite Ep.
    specialize (IH Hn' (fun tb' Hin' => Hc tb' (or_intror Hin'))).
    unfold nsum, wrap32 in *. lia.
Qed.

(* ---------- the plan, opened up ---------- *)

Section Written.
  Variables (s : N) (ts : list table).
  Let names := M_filter ts.
  Let n := N.of_nat (length names).
  Let ordered := isort (fun a b : N * list N => prio_before (fst a) (fst b)) names.
  Let cleared := map clear_head ordered.
  Let recs := layout (wrap32 (12 + 16 * n)) cleared.
  Let tsum := fold_left (fun acc r => wrap32 (acc + r_sum r)) recs 0.
  Let dir := isort rec_before recs.
  Let hdr := offsets_bytes s n ++ concat (map rec_bytes dir).
  Let total := wrap32 (tsum + M_checksum hdr).
  Let g := patch_head total.
  Let b := hdr ++ concat (map (fun tb => pad4 (snd (g tb))) cleared).

  Lemma M_write_unfold out : M_write s ts = Ok out -> 1 <= n /\ out = b.
  Proof.
    unfold M_write, M_plan. fold names. fold n.
    destruct (N.eqb_spec n 0) as [E|E]; cbn [omap obind]; [discriminate|].
    intros H. inversion H. split; [lia|].
    unfold plan_bytes. cbn [p_header p_bodies]. rewrite map_map. reflexivity.
  Qed.

  Hypothesis Hmap : map_ok ts.
  Hypothesis Hn1 : 1 <= n.
  Hypothesis Hn : n < 4096.
  Hypothesis Hsize : file_size names < 4294967296.

  Lemma g_len tb : length (snd (g tb)) = length (snd tb).
  Proof. apply patch_head_len. Qed.

  Lemma ordered_perm : Permutation ordered names.
  Proof. apply isort_perm. Qed.

  Lemma cleared_length : length cleared = length names.
  Proof. unfold cleared. rewrite map_length. apply Permutation_length, ordered_perm. Qed.

  Lemma cleared_total : total_padded cleared = total_padded names.
  Proof.
    unfold cleared. rewrite total_padded_map_len by apply clear_head_len.
    apply total_padded_perm, ordered_perm.
  Qed.

  Lemma cleared_tags : Permutation (map fst cleared) (map fst names).
  Proof.
    unfold cleared. rewrite map_map.
    rewrite (map_ext _ fst) by apply clear_head_fst.
    apply Permutation_map, ordered_perm.
  Qed.

  Lemma dir_perm : Permutation dir recs.
  Proof. apply isort_perm. Qed.

  Lemma dir_length : length dir = length names.
  Proof.
    rewrite (Permutation_length dir_perm). unfold recs. rewrite layout_length. apply cleared_length.
  Qed.

  Lemma hdr_length : N.of_nat (length hdr) = 12 + 16 * n.
  Proof.
    unfold hdr. rewrite app_length, offsets_bytes_length, concat_rec_bytes_length, dir_length.
    unfold n. lia.
  Qed.

  Lemma start_small : wrap32 (12 + 16 * n) = 12 + 16 * n.
  Proof. apply wrap32_small. lia. Qed.

  Lemma no_overflow : (12 + 16 * n) + total_padded cleared < 4294967296.
  Proof.
    rewrite cleared_total. rewrite file_size_eq in Hsize. fold n in Hsize. exact Hsize.
  Qed.

  Lemma recs_spec : Forall2 (rec_matches b g) recs cleared.
  Proof.
    unfold recs. rewrite start_small.
    pose proof (layout_spec cleared g hdr [] (12 + 16 * n) g_len (eq_sym hdr_length) no_overflow) as H.
    rewrite app_nil_r in H. exact H.
  Qed.

  Lemma cleared_tag_lt tb : In tb cleared -> fst tb < 4294967296.
  Proof.
    intros Hin.
    assert (Hi : In (fst tb) (map fst cleared)) by now apply in_map.
    apply (Permutation_in _ cleared_tags) in Hi.
    apply in_map_iff in Hi. destruct Hi as (tb' & <- & Hin').
    pose proof (filter_tags_lt ts Hmap) as Hf. rewrite Forall_forall in Hf. now apply Hf.
  Qed.

  Lemma recs_in_range : Forall rec_in_range recs.
  Proof.
    eapply Forall2_Forall_l; [exact recs_spec|].
    intros r tb Hin (Ht & Hs & Hl & Ho & Hl' & _). unfold rec_in_range.
    repeat split; try assumption.
    - rewrite Ht. now apply cleared_tag_lt.
    - rewrite Hs, M_checksum_spec. apply S_checksum_bound.
  Qed.

  Lemma dir_in_range : Forall rec_in_range dir.
  Proof. eapply Permutation_Forall; [symmetry; exact dir_perm|exact recs_in_range]. Qed.

  Lemma b_dir : dir_of b = dir.
  Proof.
    unfold b, hdr. apply dir_written; [|lia|exact dir_in_range].
    rewrite dir_length. reflexivity.
  Qed.

  Lemma b_num : num_tables b = n.
  Proof. unfold b, hdr. rewrite <- !app_assoc. apply num_tables_written. lia. Qed.

  Lemma b_length : N.of_nat (length b) = 12 + 16 * n + total_padded cleared.
  Proof.
    unfold b. rewrite app_length, Nat2N.inj_add, hdr_length.
    now rewrite (concat_pad4_length g cleared g_len).
  Qed.

  Lemma dir_tags_nodup : NoDup (map r_tag dir).
  Proof.
    eapply Permutation_NoDup; [apply Permutation_map; symmetry; exact dir_perm|].
    unfold recs. rewrite layout_tags.
    eapply Permutation_NoDup; [symmetry; exact cleared_tags|].
    now apply filter_nodup.
  Qed.

  Lemma dir_sorted : StronglySorted (fun x y => r_tag x < r_tag y) dir.
  Proof.
    apply sorted_le_nodup_lt; [|exact dir_tags_nodup].
    apply (isort_sorted rec_before).
    intros x y H. unfold rec_before in *. apply N.ltb_lt in H. apply N.ltb_ge. lia.
  Qed.

  Lemma recs_checksums : Forall (checksum_ok b) recs.
  Proof.
    eapply Forall2_Forall_l; [exact recs_spec|].
    intros r tb Hin (Ht & Hs & _ & _ & _ & Hb & _). unfold checksum_ok.
    rewrite Hs, Hb, Ht, M_checksum_spec. f_equal.
    unfold cleared in Hin. apply in_map_iff in Hin. destruct Hin as (tb0 & <- & _).
    unfold clear_adj, g.
    replace (fst (clear_head tb0), snd (patch_head total (clear_head tb0)))
      with (patch_head total (clear_head tb0)).
    - now rewrite clear_patch_clear.
    - rewrite <- (patch_head_fst total). now destruct (patch_head total (clear_head tb0)).
  Qed.

  Lemma recs_padding : Forall (padding_zero b) recs.
  Proof.
    eapply Forall2_Forall_l; [exact recs_spec|].
    intros r tb Hin (_ & _ & _ & _ & _ & _ & Hp). exact Hp.
  Qed.

  Lemma written_wf_core : wf_core b.
  Proof.
    constructor.
    - rewrite b_num. exact Hn1.
    - rewrite b_num, b_length. lia.
    - unfold b, hdr. rewrite <- !app_assoc. apply fields_written; assumption.
    - rewrite b_dir. exact dir_sorted.
    - rewrite b_dir, b_num. exists recs. split; [symmetry; exact dir_perm|].
      rewrite b_length. unfold recs. rewrite start_small.
      apply layout_chain. exact no_overflow.
    - rewrite b_dir. eapply Permutation_Forall; [symmetry; exact dir_perm|exact recs_padding].
    - rewrite b_dir. eapply Permutation_Forall; [symmetry; exact dir_perm|exact recs_checksums].
  Qed.


  (* ---- the directory lists exactly the tables given ---- *)

  Lemma recs_tag_len :
    map (fun r => (r_tag r, r_len r)) recs = map (fun tb => (fst tb, lenN tb)) cleared.
  Proof.
    pose proof recs_spec as H. induction H as [|r tb l1 l2 Hm H IH]; [reflexivity|].
    cbn [map]. destruct Hm as (Et & _ & El & _). now rewrite Et, El, IH.
  Qed.

  Lemma dir_tag_len :
    Permutation (map (fun r => (r_tag r, r_len r)) dir) (map (fun tb => (fst tb, lenN tb)) names).
  Proof.
    rewrite (Permutation_map _ dir_perm), recs_tag_len.
    unfold cleared. rewrite map_map.
    rewrite (map_ext (fun x => (fst (clear_head x), lenN (clear_head x))) (fun tb => (fst tb, lenN tb))).
    - apply Permutation_map, ordered_perm.
    - intros tb. unfold lenN. now rewrite clear_head_fst, clear_head_len.
  Qed.

  (* ---- the head adjustment ---- *)

  Lemma hdr_aligned : (length hdr mod 4 = 0)%nat.
  Proof.
    pose proof hdr_length as H. unfold hdr in *.
    rewrite app_length, offsets_bytes_length, concat_rec_bytes_length. lia.
  Qed.

  Lemma tsum_eq : tsum = wrap32 (nsum (map (fun tb => S_checksum (snd tb)) cleared)).
  Proof.
    unfold tsum. rewrite fold_wrap_sum by lia. rewrite N.add_0_l.
    unfold recs. rewrite layout_sums. f_equal. f_equal. apply map_ext. intros tb. apply M_checksum_spec.
  Qed.

  Lemma cleared_nodup : NoDup (map fst cleared).
  Proof. eapply Permutation_NoDup; [symmetry; exact cleared_tags|]. now apply filter_nodup. Qed.

  Lemma has_head_cleared : has_head dir = true -> existsb is_head cleared = true.
  Proof.
    unfold has_head. intros H. apply existsb_exists in H. destruct H as (r & Hin & H).
    apply andb_true_iff in H. destruct H as [Ht Hl]. apply N.eqb_eq in Ht. apply N.leb_le in Hl.
    apply (Permutation_in _ dir_perm) in Hin.
    destruct (Forall2_In_l _ _ _ _ recs_spec Hin) as (tb & Htb & (Etag & _ & Elen & _)).
    apply existsb_exists. exists tb. split; [exact Htb|].
    unfold is_head. apply andb_true_iff. split.
    - apply N.eqb_eq. congruence.
    - apply Nat.leb_le. unfold lenN in Elen. lia.
  Qed.

  Lemma written_whole : S_whole b.
  Proof.
    unfold S_whole. rewrite b_dir. intros Hh. apply has_head_cleared in Hh.
    unfold b. rewrite file_sum_app by exact hdr_aligned.
    rewrite (file_sum_concat_pad4 (fun tb => snd (g tb))).
    rewrite file_sum_aligned by exact hdr_aligned.
    unfold g. rewrite patched_sum.
    - rewrite Hh. unfold total. rewrite tsum_eq, M_checksum_spec.
      unfold checksum_magic, wrap32, nsum. lia.
    - exact cleared_nodup.
    - intros tb Hin. unfold cleared in Hin. apply in_map_iff in Hin.
      destruct Hin as (tb0 & <- & _). now exists tb0.
  Qed.

  (* ---- reading the container back ---- *)

  Hypothesis Hscaler : valid_scaler s = true.
  Hypothesis Hn280 : n <= header_maxTables.
  Hypothesis Hprint : Forall (fun t : table => forallb printable (fst t) = true) ts.

  Lemma b_wf : S_wf b.
  Proof. apply wf_core_full, written_wf_core. Qed.

  Lemma dir_printable : Forall (fun r => tag_printable (r_tag r)) dir.
  Proof.
    apply Forall_forall. intros r Hin.
    apply (Permutation_in _ dir_perm) in Hin.
    assert (Hi : In (r_tag r) (map r_tag recs)) by now apply in_map.
    unfold recs in Hi. rewrite layout_tags in Hi.
    apply (Permutation_in _ cleared_tags) in Hi.
    apply in_map_iff in Hi. destruct Hi as ([tg d] & Etg & Hin'). cbn [fst] in Etg.
    destruct (filter_in _ _ _ Hin') as (nm & Hnm & Hl & Htg).
    destruct Hmap as [_ Hb]. rewrite Forall_forall in Hb, Hprint.
    unfold tag_printable. rewrite <- Etg, Htg.
    rewrite be32_rd32; [|exact Hl|apply (Hb _ Hnm)].
    apply (Hprint _ Hnm).
  Qed.

  Definition covl := map (fun r => (r_off r, r_off r + r_len r)) dir.

  Lemma covl_in c : In c covl ->
    12 + 16 * n <= fst c /\ fst c <= snd c /\ snd c <= N.of_nat (length b).
  Proof.
    unfold covl. intros H. apply in_map_iff in H. destruct H as (r & <- & Hr).
    pose proof b_wf as W.
    pose proof (wf_after_dir _ W) as Ha. pose proof (wf_inside _ W) as Hi.
    rewrite b_dir, b_num in *. rewrite Forall_forall in Ha, Hi.
    specialize (Ha r Hr). specialize (Hi r Hr). cbn [fst snd]. lia.
  Qed.

  Lemma b_length_lt : N.of_nat (length b) < 4294967296.
  Proof. rewrite b_length. exact no_overflow. Qed.

  Lemma written_read : M_read_dir b = Ok (s, map toc_of dir).
  Proof.
    unfold M_read_dir, M_read_dir_r.
    assert (Hb6 : exists post, b = [] ++ (be32 s ++ be16 n) ++ post).
    { unfold b, hdr, offsets_bytes. rewrite <- !app_assoc. eexists. reflexivity. }
    destruct Hb6 as (post6 & Hb6).
    assert (H6 : read_at b 0 6 = Some (be32 s ++ be16 n)).
    { rewrite Hb6. apply read_at_mid; reflexivity. }
    rewrite H6. cbv beta iota.
    rewrite rd32_be32_app, (N.mod_small s) by (now apply valid_scaler_lt).
    rewrite (skipn_app_exact (be32 s) (be16 n) 4 eq_refl), rd16_be16 by lia.
    rewrite Hscaler. cbn [negb].
    destruct (N.ltb_spec header_maxTables n) as [Hbad|_]; [lia|].
    assert (Hent : rd_entries (read_at b) (N.to_nat n) 0 [] = Ok (map toc_of dir)).
    { replace (N.to_nat n) with (length dir) by (rewrite dir_length; unfold n; lia).
      apply (rd_entries_written b (concat (map (fun tb => pad4 (snd (g tb))) cleared)) dir (offsets_bytes s n) [] 0).
      - unfold b, hdr. now rewrite <- !app_assoc.
      - reflexivity.
      - exact dir_in_range.
      - exact dir_printable.
      - exact dir_tags_nodup.
      - reflexivity. }
    rewrite Hent. cbn [obind].
    assert (Hcov : map (fun t : toc_entry => (snd (fst t), wrap32 (snd (fst t) + snd t))) (map toc_of dir) = covl).
    { unfold covl. rewrite map_map. apply map_ext_in. intros r Hr. cbn [toc_of fst snd].
      f_equal. apply wrap32_small.
      assert (Hc : In (r_off r, r_off r + r_len r) covl) by (unfold covl; apply in_map_iff; eauto).
      apply covl_in in Hc. cbn [fst snd] in Hc. pose proof b_length_lt. lia. }
    rewrite Hcov.
    pose proof (isort_perm cov_before covl) as Hperm.
    destruct (isort cov_before covl) as [|c0 cs] eqn:Es.
    { exfalso. apply Permutation_length in Hperm. unfold covl in Hperm.
      rewrite map_length, dir_length in Hperm. cbn [length] in Hperm. unfold n in Hn1. lia. }
    assert (Hin_all : forall c, In c (c0 :: cs) -> In c covl).
    { intros c Hc. eapply Permutation_in; [exact Hperm|exact Hc]. }
    pose proof (covl_in c0 (Hin_all c0 (or_introl eq_refl))) as (Hc0 & _ & _).
    destruct (N.ltb_spec (fst c0) 12) as [Hbad|_]; [lia|].
    assert (Hov : overlaps (c0 :: cs) = false).
    { apply sorted_disjoint_no_overlap.
      - rewrite <- Es. apply isort_sorted. exact cov_before_asym.
      - eapply ForallOrdPairs_perm; [exact pdisj_sym|symmetry; exact Hperm|].
        unfold covl. apply ForallOrdPairs_map.
        pose proof (wf_disjoint _ b_wf) as Hd. rewrite b_dir in Hd. exact Hd.
      - apply Forall_forall. intros c Hc. apply Hin_all, covl_in in Hc. unfold pwf. lia. }
    rewrite Hov.
    assert (Hl : In (last (c0 :: cs) c0) (c0 :: cs)) by (apply last_in; discriminate).
    apply Hin_all, covl_in in Hl. destruct Hl as (Hl1 & Hl2 & Hl3).
    set (e := snd (last (c0 :: cs) c0)) in *.
    destruct (N.eqb_spec e 0) as [Hbad|_]; [lia|].
    unfold read_at. cbv zeta.
    destruct (N.leb_spec (e - 1 + 1) (N.of_nat (length b))) as [_|Hbad]; [reflexivity|lia].
  Qed.

  Lemma written_tables tg d : In (tg, d) names ->
    exists off len, In (tg, off, len) (map toc_of dir) /\
                    length (slice_table b off len) = length d /\
                    clear_adj tg (slice_table b off len) = clear_adj tg d.
  Proof.
    intros Hin.
    assert (Hc : In (clear_head (tg, d)) cleared).
    { unfold cleared. apply in_map. eapply Permutation_in; [symmetry; exact ordered_perm|exact Hin]. }
    destruct (Forall2_In_r _ _ _ _ recs_spec Hc) as (r & Hr & (Etag & _ & Elen & _ & _ & Eb & _)).
    assert (Hrd : In r dir) by (eapply Permutation_in; [symmetry; exact dir_perm|exact Hr]).
    exists (r_off r), (r_len r).
    assert (Hslice : slice_table b (r_off r) (r_len r) = snd (g (clear_head (tg, d)))).
    { rewrite slice_table_eq; [exact Eb|].
      assert (Hcv : In (r_off r, r_off r + r_len r) covl) by (unfold covl; apply in_map_iff; eauto).
      apply covl_in in Hcv. cbn [fst snd] in Hcv. lia. }
    rewrite clear_head_fst in Etag. cbn [fst] in Etag.
    repeat split.
    - apply in_map_iff. exists r. split; [|exact Hrd]. unfold toc_of. now rewrite Etag.
    - rewrite Hslice. unfold g. now rewrite patch_head_len, clear_head_len.
    - rewrite Hslice. unfold clear_adj, g.
      replace (tg, snd (patch_head total (clear_head (tg, d))))
        with (patch_head total (clear_head (tg, d))).
      + now rewrite clear_patch_clear.
      + pose proof (patch_head_fst total (clear_head (tg, d))) as Hf.
        rewrite clear_head_fst in Hf. cbn [fst] in Hf.
        destruct (patch_head total (clear_head (tg, d))) as [x y]. cbn [fst snd] in *. now subst x.
  Qed.
End Written.

Lemma write_wf_core s ts out :
  map_ok ts -> M_write s ts = Ok out ->
  N.of_nat (length (M_filter ts)) < 4096 ->
  file_size (M_filter ts) < 4294967296 ->
  wf_core out.
Proof.
  intros Hmap Hw Hn Hsize.
  destruct (M_write_unfold s ts out Hw) as [Hn1 ->].
  apply written_wf_core; assumption.
Qed.

Lemma write_whole s ts out :
  map_ok ts -> M_write s ts = Ok out ->
  N.of_nat (length (M_filter ts)) < 4096 ->
  file_size (M_filter ts) < 4294967296 ->
  S_whole out.
Proof.
  intros Hmap Hw Hn Hsize.
  destruct (M_write_unfold s ts out Hw) as [Hn1 ->].
  apply written_whole; assumption.
Qed.

Lemma read_write_roundtrip_lemma s ts out :
  map_ok ts -> M_write s ts = Ok out ->
  valid_scaler s = true ->
  Forall (fun t : table => forallb printable (fst t) = true) ts ->
  N.of_nat (length (M_filter ts)) <= header_maxTables ->
  N.of_nat (length (M_filter ts)) < 4096 ->
  file_size (M_filter ts) < 4294967296 ->
  exists toc,
    M_read_dir out = Ok (s, toc) /\
    map (fun t : toc_entry => fst (fst t)) toc = map r_tag (dir_of out) /\
    forall tg d, In (tg, d) (M_filter ts) ->
      exists off len, In (tg, off, len) toc /\
                      length (slice_table out off len) = length d /\
                      clear_adj tg (slice_table out off len) = clear_adj tg d.
Proof.
  intros Hmap Hw Hs Hp Hn280 Hn Hsize.
  destruct (M_write_unfold s ts out Hw) as [Hn1 ->].
  eexists. split; [apply written_read; assumption|]. split.
  - rewrite b_dir by assumption. rewrite map_map. apply map_ext. reflexivity.
  - intros tg d Hin. apply written_tables; assumption.
Qed.

Lemma write_directory s ts out :
  map_ok ts -> M_write s ts = Ok out ->
  N.of_nat (length (M_filter ts)) < 4096 ->
  file_size (M_filter ts) < 4294967296 ->
  num_tables out = N.of_nat (length (M_filter ts)) /\
  rd32 (sub out 0 4) = s mod 4294967296 /\
  Permutation (map (fun r => (r_tag r, r_len r)) (dir_of out))
              (map (fun tb : N * list N => (fst tb, N.of_nat (length (snd tb)))) (M_filter ts)).
Proof.
  intros Hmap Hw Hn Hsize.
  destruct (M_write_unfold s ts out Hw) as [Hn1 ->].
  repeat split.
  - apply b_num; assumption.
  - unfold offsets_bytes. rewrite <- !app_assoc. unfold be32 at 1, sub. cbn [app skipn firstn].
    fold (be32 s). apply rd32_be32_wrap.
  - rewrite b_dir by assumption. apply dir_tag_len; assumption.
Qed.

Lemma write_total s ts :
  (M_filter ts = [] -> M_write s ts = Panic) /\
  (M_filter ts <> [] -> exists out, M_write s ts = Ok out).
Proof.
  unfold M_write, M_plan. split; intros H.
  - rewrite H. reflexivity.
  - destruct (N.eqb_spec (N.of_nat (length (M_filter ts))) 0) as [E|E].
    + destruct (M_filter ts); [congruence|cbn [length] in E; lia].
    + cbn [omap obind]. eexists. reflexivity.
Qed.

Lemma write_read_exact s ts out :
  map_ok ts -> M_write s ts = Ok out ->
  valid_scaler s = true ->
  Forall (fun t : table => forallb printable (fst t) = true) ts ->
  N.of_nat (length (M_filter ts)) <= header_maxTables ->
  N.of_nat (length (M_filter ts)) < 4096 ->
  file_size (M_filter ts) < 4294967296 ->
  M_read_dir out = Ok (s, map toc_of (dir_of out)).
Proof.
  intros Hmap Hw Hs Hp Hn280 Hn Hsize.
  destruct (M_write_unfold s ts out Hw) as [Hn1 ->].
  rewrite b_dir by assumption. apply written_read; assumption.
Qed.

Lemma write_length s ts out :
  map_ok ts -> M_write s ts = Ok out ->
  N.of_nat (length (M_filter ts)) < 4096 ->
  file_size (M_filter ts) < 4294967296 ->
  N.of_nat (length out) = file_size (M_filter ts).
Proof.
  intros Hmap Hw Hn Hsize. destruct (M_write_unfold s ts out Hw) as [Hn1 ->].
  rewrite b_length, cleared_total, file_size_eq; try assumption. reflexivity.
Qed.
