(* C03/Model.v — executable model of the sfnt container writer and directory
   reader of /repo/header (write.go, checksum.go, tables.go).

   M_*  mirror the Go code (as repaired by fixes/C03-*.diff): same order of
        steps, explicit mod 2^16 / 2^32 where Go truncates, Panic where Go
        panics.
   S_*  are written from the OpenType specification ("Calculating checksums",
        "Table directory"), not from the code.

   Executable definitions only; the proofs are in Proofs_*.v. *)
From Coq Require Import List NArith ZArith Bool Arith.
From Common Require Import Bytes Outcome.
From Gen Require Import Consts.
Import ListNotations.
Local Open Scope N_scope.

(* ------------------------------------------------------------------ *)
(* 1. The checksum                                                     *)
(* ------------------------------------------------------------------ *)

(* header/checksum.go: type check struct{ sum uint32; buf [4]byte; used int }.
   ck_pend is buf[:used]. *)
Record ck : Type := mk_ck { ck_sum : N; ck_pend : list N }.

Definition ck_init : ck := mk_ck 0 [].

(* "if s.used == 4 { s.sum += BigEndian.Uint32(s.buf[:]); s.used = 0 }" *)
Definition ck_flush (s : N) (pend : list N) : ck :=
  if Nat.eqb (length pend) 4 then mk_ck (wrap32 (s + rd32 pend)) [] else mk_ck s pend.

(* check.Write: "for len(p) > 0 { k := copy(s.buf[s.used:], p); p = p[k:]; ... }" *)
Fixpoint ck_write_loop (fuel : nat) (st : ck) (p : list N) : ck :=
  match p with
  | [] => st
  | _ :: _ =>
    match fuel with
    | O => st
    | S f =>
      let chunk := firstn (4 - length (ck_pend st)) p in   (* copy(...) *)
      let k := length chunk in
      ck_write_loop f (ck_flush (ck_sum st) (ck_pend st ++ chunk)) (skipn k p)
    end
  end.

Definition ck_write (st : ck) (p : list N) : ck := ck_write_loop (length p) st p.

(* check.Sum: pads with 4-used zero bytes when used != 0 *)
Definition ck_final (st : ck) : N :=
  match ck_pend st with
  | [] => ck_sum st
  | _ :: _ => ck_sum (ck_write st (firstn (4 - length (ck_pend st)) [0; 0; 0]))
  end.

(* func checksum(data []byte) uint32 *)
Definition M_checksum (d : list N) : N := ck_final (ck_write ck_init d).

(* the same state machine fed in arbitrary pieces *)
Definition M_checksum_chunks (cs : list (list N)) : N :=
  ck_final (fold_left ck_write cs ck_init).

(* Specification: sum of the big-endian 32-bit words of the zero-padded data,
   modulo 2^32. *)
Fixpoint words32 (l : list N) : list N :=
  match l with
  | a :: b :: c :: d :: r => rd32 [a; b; c; d] :: words32 r
  | _ => []
  end.

Definition nsum (l : list N) : N := fold_right N.add 0 l.

Definition S_checksum (d : list N) : N := wrap32 (nsum (words32 (pad4 d))).

(* ------------------------------------------------------------------ *)
(* 2. Table maps, ordering                                             *)
(* ------------------------------------------------------------------ *)

(* One entry of the Go map[string][]byte: the name's bytes and the data
   (None = nil slice, Some [] = empty non-nil slice).  A map is a list of
   entries with pairwise different names. *)
Definition table : Type := (list N * option (list N))%type.

(* "if data != nil && len(name) == 4 { tableNames = append(tableNames, name) }";
   a 4-byte name is represented by its big-endian value. *)
Definition M_filter (ts : list table) : list (N * list N) :=
  flat_map (fun t : table =>
              match snd t with
              | Some d => if Nat.eqb (length (fst t)) 4 then [(rd32 (fst t), d)] else []
              | None => []
              end) ts.

Definition tag_head : N := rd32 [104; 101; 97; 100].   (* "head" *)

(* ttTableOrder[name]; a missing key gives 0 *)
Definition prio (t : N) : Z :=
  match find (fun p : N * Z => fst p =? t) header_ttTableOrder with
  | Some p => snd p
  | None => 0%Z
  end.

(* the less-function of the first sort.Slice: higher priority first, then by
   name (string comparison of 4-byte names = comparison of the values) *)
Definition prio_before (a b : N) : bool :=
  if (prio a =? prio b)%Z then a <? b else (prio b <? prio a)%Z.

Section Sort.
  Context {A : Type} (lt : A -> A -> bool).
  Fixpoint insert_by (x : A) (l : list A) : list A :=
    match l with
    | [] => [x]
    | y :: r => if lt y x then y :: insert_by x r else x :: l
    end.
  Definition isort (l : list A) : list A := fold_right insert_by [] l.
End Sort.

(* ------------------------------------------------------------------ *)
(* 3. header.Write                                                     *)
(* ------------------------------------------------------------------ *)

Record rec : Type := mk_rec { r_tag : N; r_sum : N; r_off : N; r_len : N }.

Definition checksum_magic : N := 2981146554.   (* 0xB1B0AFBA; re-checked against Gen in Props.v *)

(* binary.BigEndian.PutUint32(head[8:12], v) *)
Definition put32 (b : list N) (off : nat) (v : N) : list N :=
  firstn off b ++ be32 v ++ skipn (off + 4) b.

Definition is_head (tb : N * list N) : bool :=
  (fst tb =? tag_head) && (12 <=? length (snd tb))%nat.

(* clearChecksum / patchChecksum on the head entry (guarded by len >= 12) *)
Definition clear_head (tb : N * list N) : N * list N :=
  if is_head tb then (fst tb, put32 (snd tb) 8 0) else tb.
Definition patch_head (total : N) (tb : N * list N) : N * list N :=
  if is_head tb then (fst tb, put32 (snd tb) 8 (wrap32 (checksum_magic + 4294967296 - total))) else tb.

(* uint32: 4 * ((length + 3) / 4) *)
Definition padded32 (len : N) : N := wrap32 (4 * (wrap32 (len + 3) / 4)).

(* the loop that fills records[i]; offset is a uint32 *)
Fixpoint layout (off : N) (l : list (N * list N)) : list rec :=
  match l with
  | [] => []
  | tb :: r =>
    let len := wrap32 (N.of_nat (length (snd tb))) in
    mk_rec (fst tb) (M_checksum (snd tb)) off len :: layout (wrap32 (off + padded32 len)) r
  end.

Definition rec_bytes (r : rec) : list N :=
  be32 (r_tag r) ++ be32 (r_sum r) ++ be32 (r_off r) ++ be32 (r_len r).

Definition hdr_entry_selector (n : N) : N := N.log2 n.          (* bits.Len(uint(n)) - 1, n >= 1 *)
Definition hdr_search_range (es : N) : N := wrap16 (2 ^ (es + 4)). (* uint16: 1 << (es + 4) *)
Definition hdr_range_shift (n es : N) : N := wrap16 (16 * (n - 2 ^ es)).

Definition offsets_bytes (scaler n : N) : list N :=
  let es := hdr_entry_selector n in
  be32 scaler ++ be16 n ++ be16 (hdr_search_range es) ++ be16 es ++ be16 (hdr_range_shift n es).

Definition rec_before (a b : rec) : bool := r_tag a <? r_tag b.

(* what Write hands to the io.Writer: the header block and the table bodies in
   file order (each followed by its padding) *)
Record plan : Type := mk_plan { p_header : list N; p_bodies : list (N * list N) }.

Definition M_plan (scaler : N) (ts : list table) : outcome plan :=
  let names := M_filter ts in
  let n := N.of_nat (length names) in
  if n =? 0 then Panic   (* 1 << entrySelector with entrySelector = -1 *)
  else
    let ordered := isort (fun a b => prio_before (fst a) (fst b)) names in
    let cleared := map clear_head ordered in
    let recs := layout (wrap32 (12 + 16 * n)) cleared in
    let tsum := fold_left (fun acc r => wrap32 (acc + r_sum r)) recs 0 in
    let dir := isort rec_before recs in
    let hdr := offsets_bytes scaler n ++ concat (map rec_bytes dir) in
    let total := wrap32 (tsum + M_checksum hdr) in
    Ok (mk_plan hdr (map (patch_head total) cleared)).

Definition plan_bytes (p : plan) : list N :=
  p_header p ++ concat (map (fun tb => pad4 (snd tb)) (p_bodies p)).

(* header.Write against a writer that accepts everything *)
Definition M_write (scaler : N) (ts : list table) : outcome (list N) :=
  omap plan_bytes (M_plan scaler ts).

(* The code before fixes/C03-nil-table-count.diff: numTables := len(tables)
   counted nil-valued and wrongly named entries; records beyond the written
   tables stayed zero.  Kept for the refutation example only. *)
Definition M_write_original (scaler : N) (ts : list table) : outcome (list N) :=
  let names := M_filter ts in
  let n := N.of_nat (length ts) in
  if n =? 0 then Panic
  else if existsb (fun t : table => match t with
                                    | (nm, d) => (rd32 nm =? tag_head) && Nat.eqb (length nm) 4 &&
                                                 match d with Some x => (length x <? 12)%nat | None => true end
                                    end) ts
  then Panic
  else
    let ordered := isort (fun a b => prio_before (fst a) (fst b)) names in
    let cleared := map clear_head ordered in
    let recs := layout (wrap32 (12 + 16 * n)) cleared
                ++ repeat (mk_rec 0 0 0 0) (length ts - length names) in
    let tsum := fold_left (fun acc r => wrap32 (acc + r_sum r)) recs 0 in
    let dir := isort rec_before recs in
    let hdr := offsets_bytes scaler n ++ concat (map rec_bytes dir) in
    let total := wrap32 (tsum + M_checksum hdr) in
    Ok (hdr ++ concat (map (fun tb => pad4 (snd tb)) (map (patch_head total) cleared))).

(* ------------------------------------------------------------------ *)
(* 4. header.Read                                                      *)
(* ------------------------------------------------------------------ *)

(* io.ReaderAt restricted to what Read observes: ReadAt(buf[:n], off) gives n
   bytes or an error *)
Definition reader : Type := N -> N -> option (list N).

(* a byte slice as a ReaderAt (bytes.Reader): error unless all n bytes exist *)
Definition read_at (b : list N) : reader :=
  let L := N.of_nat (length b) in                      (* Size(), computed once *)
  fun off n => if off + n <=? L then Some (sub b (N.to_nat off) (N.to_nat n)) else None.

(* a ReaderAt over b that fails on every access touching an offset >= k *)
Definition read_at_fault (k : N) (b : list N) : reader :=
  let r := read_at b in
  fun off n => if off + n <=? k then r off n else None.

Definition printable (c : N) : bool := (32 <=? c) && (c <=? 126).

Definition toc_entry : Type := (N * N * N)%type.        (* tag, offset, length *)

Definition valid_scaler (s : N) : bool :=
  (s =? header_scalerTrueType) || (s =? header_scalerCFF) || (s =? header_scalerApple).

(* the loop "for i := 0; i < numTables; i++" *)
Fixpoint rd_entries (rd : reader) (cnt : nat) (i : N) (toc : list toc_entry)
  : outcome (list toc_entry) :=
  match cnt with
  | O => Ok toc
  | S c =>
    match rd (12 + i * 16) 16 with
    | None => Err
    | Some e =>
      if negb (forallb printable (firstn 4 e)) then Err
      else
        let tag := rd32 e in
        let off := rd32 (skipn 8 e) in
        let len := rd32 (skipn 12 e) in
        if existsb (fun t : toc_entry => fst (fst t) =? tag) toc then Err
        else rd_entries rd c (i + 1) (toc ++ [(tag, off, len)])
    end
  end.

(* coverage entries (Start, End) with End = offset + length in uint32 *)
Definition cov_before (a b : N * N) : bool :=
  if fst a =? fst b then snd a <? snd b else fst a <? fst b.

Fixpoint overlaps (l : list (N * N)) : bool :=
  match l with
  | a :: ((b :: _) as r) => (fst b <? snd a) || overlaps r
  | _ => false
  end.

Definition M_read_dir_r (rd : reader) : outcome (N * list toc_entry) :=
  match rd 0 6 with
  | None => Err
  | Some h =>
    let scaler := rd32 h in
    let n := rd16 (skipn 4 h) in
    if negb (valid_scaler scaler) then Err
    else if header_maxTables <? n then Err
    else
      toc <- rd_entries rd (N.to_nat n) 0 [] ;;
      match isort cov_before (map (fun t : toc_entry => (snd (fst t), wrap32 (snd (fst t) + snd t))) toc) with
      | [] => Err                                   (* len(h.Toc) == 0 *)
      | (c0 :: _) as cov =>
        if fst c0 <? 12 then Err
        else if overlaps cov then Err
        else
          let e := snd (last cov c0) in
          if e =? 0 then Err                        (* ReadAt(.., -1): negative offset *)
          else match rd (e - 1) 1 with
               | None => Err
               | Some _ => Ok (scaler, toc)
               end
      end
  end.

Definition M_read_dir (b : list N) : outcome (N * list toc_entry) := M_read_dir_r (read_at b).

(* Info.ReadTableBytes: io.ReadAll(io.NewSectionReader(r, offset, length)) *)
Definition slice_table (b : list N) (off len : N) : list N :=
  let L := N.of_nat (length b) in
  if L <=? off then [] else firstn (N.to_nat (N.min len (L - off))) (skipn (N.to_nat off) b).

(* the Toc map, as a list sorted by tag *)
Definition toc_sorted (toc : list toc_entry) : list toc_entry :=
  isort (fun a b : toc_entry => fst (fst a) <? fst (fst b)) toc.

Definition M_read_tables (b : list N) : outcome (N * list (toc_entry * list N)) :=
  r <- M_read_dir b ;;
  Ok (fst r, map (fun t : toc_entry => (t, slice_table b (snd (fst t)) (snd t))) (toc_sorted (snd r))).

(* ------------------------------------------------------------------ *)
(* 5. The container checker (specification side, run on real output)   *)
(* ------------------------------------------------------------------ *)

Definition parse_rec (e : list N) : rec :=
  mk_rec (rd32 e) (rd32 (skipn 4 e)) (rd32 (skipn 8 e)) (rd32 (skipn 12 e)).

Definition num_tables (b : list N) : N := rd16 (sub b 4 2).

Definition dir_of (b : list N) : list rec :=
  map (fun i => parse_rec (sub b (12 + 16 * i) 16)) (seq 0 (N.to_nat (num_tables b))).

Definition pad4N (len : N) : N := 4 * ((len + 3) / 4).

(* tables laid end to end from [start], every one padded to a multiple of 4,
   ending exactly at [stop] *)
Fixpoint chain_ok (start : N) (l : list rec) (stop : N) : bool :=
  match l with
  | [] => start =? stop
  | r :: l' => (r_off r =? start) && chain_ok (start + pad4N (r_len r)) l' stop
  end.

Fixpoint strictly_sorted (l : list rec) : bool :=
  match l with
  | a :: ((b :: _) as r) => (r_tag a <? r_tag b) && strictly_sorted r
  | _ => true
  end.

Definition phys_before (a b : rec) : bool :=
  if r_off a =? r_off b then r_len a <? r_len b else r_off a <? r_off b.

(* the table's bytes with the head adjustment field cleared *)
Definition table_bytes (b : list N) (r : rec) : list N :=
  sub b (N.to_nat (r_off r)) (N.to_nat (r_len r)).
Definition clear_adj (tag : N) (d : list N) : list N := snd (clear_head (tag, d)).
(* the bytes between the end of the table and the next 4-byte boundary *)
Definition padding_bytes (b : list N) (r : rec) : list N :=
  sub b (N.to_nat (r_off r + r_len r)) (N.to_nat (pad4N (r_len r) - r_len r)).

Definition file_sum (b : list N) : N := wrap32 (nsum (words32 b)).

Definition has_head (dir : list rec) : bool :=
  existsb (fun r => (r_tag r =? tag_head) && (12 <=? r_len r)) dir.

Definition container_ok (b : list N) : bool :=
  let L := N.of_nat (length b) in
  let n := num_tables b in
  if (1 <=? n) && (12 + 16 * n <=? L) then
    (* only now is the directory looked at (it lies inside the file) *)
    let es := N.log2 n in
    let dir := dir_of b in
    (rd16 (sub b 6 2) =? 16 * 2 ^ es) &&
    (rd16 (sub b 8 2) =? es) &&
    (rd16 (sub b 10 2) =? 16 * n - 16 * 2 ^ es) &&
    strictly_sorted dir &&
    chain_ok (12 + 16 * n) (isort phys_before dir) L &&
    forallb (fun r => r_sum r =? S_checksum (clear_adj (r_tag r) (table_bytes b r))) dir &&
    forallb (fun r => forallb (N.eqb 0) (padding_bytes b r)) dir &&
    (if has_head dir then file_sum b =? checksum_magic else true)
  else false.
