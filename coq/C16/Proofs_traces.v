(* C16/Proofs_traces.v — the executable conflict check is sound: trace
   programs that pass it satisfy the hypotheses of schedule_independent (with
   the ownership map "first thread that writes the cell"), so the extracted
   checker's answer "conflict-free" carries the theorem to the recorded traces. *)
From Coq Require Import List NArith Bool Arith Lia.
From C16 Require Import Model Proofs.
Import ListNotations.

Lemma memN_In : forall c l, memN c l = true <-> In c l.
Proof.
  intros c l. unfold memN. rewrite existsb_exists. split.
  - intros [x [Hin Heq]]. apply N.eqb_eq in Heq. subst. exact Hin.
  - intro Hin. exists c. split; [exact Hin | apply N.eqb_refl].
Qed.

Lemma written_cells_app : forall p q, written_cells (p ++ q) = written_cells p ++ written_cells q.
Proof. induction p as [|[c|c v|] p IH]; intro q; simpl; rewrite ?IH; reflexivity. Qed.

Lemma read_cells_app : forall p q, read_cells (p ++ q) = read_cells p ++ read_cells q.
Proof. induction p as [|[c|c v|] p IH]; intro q; simpl; rewrite ?IH; reflexivity. Qed.

Definition tr_owner (progs : list (list instr)) (c : cell) : option tid :=
  find (fun t => memN c (written_cells (nth t progs []))) (seq 0 (length progs)).

Lemma conflict_false_spec : forall progs, conflict progs = false ->
  forall i j c, i < length progs -> j < length progs -> i <> j ->
    In c (written_cells (nth i progs [])) -> ~ In c (accesses (nth j progs [])).
Proof.
  intros progs Hc i j c Hi Hj Hne Hw Ha.
  assert (Ht : conflict progs = true); [|rewrite Ht in Hc; discriminate].
  unfold conflict. apply existsb_exists. exists i. split; [apply in_seq; lia|].
  apply existsb_exists. exists j. split; [apply in_seq; lia|].
  apply andb_true_iff. split.
  - apply negb_true_iff. apply Nat.eqb_neq. exact Hne.
  - apply existsb_exists. exists c. split; [exact Hw | apply memN_In; exact Ha].
Qed.

Section Traces.
  Variable progs : list (list instr).
  Hypothesis Hfree : conflict progs = false.

  Let init := tr_init progs.

  (* the remaining program of a reachable state is a suffix of the thread's program *)
  Lemma reach_suffix : forall t l, Reach tl_state tr_step init t l ->
    exists pre, nth t progs [] = pre ++ fst (fst l).
  Proof.
    intros t l H. induction H as [|l c k v H IH E|l c v k H IH E|l k H IH E].
    - exists []. reflexivity.
    - destruct IH as [pre Hp]. destruct l as [[p cur] outs]. simpl in *.
      destruct p as [|[c0|c0 v0|] p']; try discriminate. inversion E; subst.
      exists (pre ++ [IRd c]). simpl. rewrite Hp, <- app_assoc. reflexivity.
    - destruct IH as [pre Hp]. destruct l as [[p cur] outs]. simpl in *.
      destruct p as [|[c0|c0 v0|] p']; try discriminate. inversion E; subst.
      exists (pre ++ [IWr c v]). simpl. rewrite Hp, <- app_assoc. reflexivity.
    - destruct IH as [pre Hp]. destruct l as [[p cur] outs]. simpl in *.
      destruct p as [|[c0|c0 v0|] p']; try discriminate. inversion E; subst.
      exists (pre ++ [IEnd]). simpl. rewrite Hp, <- app_assoc. reflexivity.
  Qed.

  Lemma nonempty_prog_lt : forall t x, In x (nth t progs []) -> t < length progs.
  Proof.
    intros t x Hin. destruct (Nat.lt_ge_cases t (length progs)) as [|Hge]; [assumption|].
    rewrite nth_overflow in Hin by exact Hge. destruct Hin.
  Qed.

  (* whoever the ownership map names for a cell that t writes is t *)
  Lemma owner_of_written : forall t c, In c (written_cells (nth t progs [])) -> t < length progs ->
    tr_owner progs c = Some t.
  Proof.
    intros t c Hw Hlt. unfold tr_owner.
    destruct (find _ _) as [t'|] eqn:F.
    - apply find_some in F. destruct F as [Hin Hm]. apply in_seq in Hin. apply memN_In in Hm.
      destruct (Nat.eq_dec t' t) as [->|Hne]; [reflexivity|].
      exfalso. apply (conflict_false_spec progs Hfree t' t c); try lia; try assumption.
      unfold accesses. apply in_or_app. right. exact Hw.
    - exfalso. assert (Hf := find_none _ _ F t). simpl in Hf.
      rewrite (proj2 (memN_In c _) Hw) in Hf. discriminate Hf. apply in_seq; lia.
  Qed.

  Lemma tr_writes_own : writes_own_only tl_state (tr_owner progs) tr_step init.
  Proof.
    intros t l c v k Hr E. destruct (reach_suffix t l Hr) as [pre Hp].
    destruct l as [[p cur] outs]. simpl in *.
    destruct p as [|[c0|c0 v0|] p']; try discriminate. inversion E; subst.
    assert (Hin : In (IWr c v) (nth t progs [])) by (rewrite Hp; apply in_or_app; right; left; reflexivity).
    apply owner_of_written; [|eapply nonempty_prog_lt; exact Hin].
    rewrite Hp, written_cells_app. apply in_or_app. right. left. reflexivity.
  Qed.

  Lemma tr_reads_ok : reads_shared_or_own tl_state (tr_owner progs) tr_step init.
  Proof.
    intros t l c k Hr E. destruct (reach_suffix t l Hr) as [pre Hp].
    destruct l as [[p cur] outs]. simpl in *.
    destruct p as [|[c0|c0 v0|] p']; try discriminate. inversion E; subst.
    assert (Hin : In (IRd c) (nth t progs [])) by (rewrite Hp; apply in_or_app; right; left; reflexivity).
    assert (Hlt : t < length progs) by (eapply nonempty_prog_lt; exact Hin).
    assert (Hrd : In c (read_cells (nth t progs []))).
    { rewrite Hp, read_cells_app. apply in_or_app. right. left. reflexivity. }
    unfold tr_owner. destruct (find _ _) as [t'|] eqn:F; [right | left; reflexivity].
    apply find_some in F. destruct F as [Hin' Hm]. apply in_seq in Hin'. apply memN_In in Hm.
    destruct (Nat.eq_dec t' t) as [->|Hne]; [reflexivity|].
    exfalso. apply (conflict_false_spec progs Hfree t' t c); try lia; try assumption.
    unfold accesses. apply in_or_app. left. exact Hrd.
  Qed.

  (* the theorem, carried to recorded traces *)
  Theorem traces_independent : forall h0 sched t,
    ths (run_traces h0 progs sched) t
    = snd (alone tl_state tr_step t (cnt sched t) (heap_of h0, (tr_init progs t, []))).
  Proof.
    intros. unfold run_traces.
    apply (schedule_independent tl_state (tr_owner progs) tr_step init (heap_of h0) tr_writes_own tr_reads_ok).
  Qed.

  Theorem traces_unwritten_cells_unchanged : forall h0 sched c,
    (forall t, t < length progs -> ~ In c (written_cells (nth t progs []))) ->
    hp (run_traces h0 progs sched) c = heap_of h0 c.
  Proof.
    intros h0 sched c Hnw. unfold run_traces.
    apply (shared_heap_unchanged tl_state (tr_owner progs) tr_step init (heap_of h0) tr_writes_own tr_reads_ok).
    unfold tr_owner. destruct (find _ _) as [t'|] eqn:F; [|reflexivity].
    apply find_some in F. destruct F as [Hin Hm]. apply in_seq in Hin. apply memN_In in Hm.
    exfalso. apply (Hnw t'); [lia | exact Hm].
  Qed.
End Traces.

(* ---- the thread running alone consumes one instruction per step *)

Lemma skipn_S_tl : forall (A : Type) n (l : list A), skipn (S n) l = tl (skipn n l).
Proof. induction n as [|n IH]; intros [|x l]; simpl; try reflexivity. rewrite <- IH. reflexivity. Qed.

Lemma tr_alone_remaining : forall progs h t n,
  fst (fst (fst (snd (alone tl_state tr_step t n (h, (tr_init progs t, []))))))
  = skipn n (nth t progs []).
Proof.
  intros progs h t n. induction n as [|n IH].
  - reflexivity.
  - rewrite skipn_S_tl, <- IH. simpl.
    destruct (alone tl_state tr_step t n (h, (tr_init progs t, []))) as [h' [[[p cur] outs] lg]].
    unfold tstep. simpl. destruct p as [|[c|c v|] p']; reflexivity.
Qed.

Lemma tr_alone_finishes : forall progs h t n, length (nth t progs []) <= n ->
  exists r, result tl_state tr_step t (snd (alone tl_state tr_step t n (h, (tr_init progs t, [])))) = Some r.
Proof.
  intros progs h t n Hle. pose proof (tr_alone_remaining progs h t n) as Hrem.
  rewrite skipn_all2 in Hrem by exact Hle. unfold result.
  destruct (snd (alone tl_state tr_step t n (h, (tr_init progs t, [])))) as [[[p cur] outs] lg].
  simpl in *. subst p. eexists. reflexivity.
Qed.

Lemma eq_vals_refl : forall a, eq_vals a a = true.
Proof. induction a as [|x a IH]; simpl; [reflexivity | rewrite N.eqb_refl, IH; reflexivity]. Qed.

Lemma same_flags_refl : forall a, forallb (fun b => b) (same_flags a a) = true.
Proof. induction a as [|x a IH]; simpl; [reflexivity | rewrite eq_vals_refl, IH; reflexivity]. Qed.

(* What the extracted checker prints for conflict-free traces under a complete
   schedule: every thread is finished and every operation read exactly the
   values it reads alone. *)
Theorem run_case_conflict_free : forall h0 ops sched,
  conflict (map prog_of ops) = false ->
  (forall t, t < length ops -> S (length (prog_of (nth t ops []))) <= cnt sched t) ->
  let ob := run_case h0 ops sched in
  ob_conflict ob = false /\
  forallb (fun b => b) (ob_fin ob) = true /\
  forallb (forallb (fun b => b)) (ob_flags ob) = true.
Proof.
  intros h0 ops sched Hfree Hcomplete ob. subst ob. unfold run_case. cbn [ob_conflict ob_fin ob_flags].
  set (progs := map prog_of ops) in *.
  assert (Hlen : length progs = length ops) by (unfold progs; apply map_length).
  assert (Hnth : forall t, nth t progs [] = prog_of (nth t ops [])).
  { intro t. unfold progs. change (@nil instr) with (prog_of []). apply map_nth. }
  assert (Hsame : forall t, t < length progs ->
            ths (run_traces h0 progs sched) t = alone_traces h0 progs t).
  { intros t Hlt. rewrite (traces_independent progs Hfree). unfold alone_traces.
    destruct (tr_alone_finishes progs (heap_of h0) t (S (length (nth t progs [])))) as [r Hr]; [lia|].
    f_equal.
    apply (al_finished_stable tl_state tr_step (tr_init progs) (heap_of h0) t _ _ r Hr).
    rewrite Hnth. apply Hcomplete. lia. }
  split; [exact Hfree|]. split.
  - apply forallb_forall. intros b Hin. apply in_map_iff in Hin. destruct Hin as [t [Hb Ht]].
    apply in_seq in Ht. subst b. rewrite Hsame by lia. unfold alone_traces.
    pose proof (tr_alone_remaining progs (heap_of h0) t (S (length (nth t progs [])))) as Hrem.
    rewrite skipn_all2 in Hrem by lia. unfold finished.
    destruct (snd (alone tl_state tr_step t (S (length (nth t progs []))) (heap_of h0, (tr_init progs t, [])))) as [[[p cur] outs] lg].
    simpl in *. subst p. reflexivity.
  - apply forallb_forall. intros fl Hin. apply in_map_iff in Hin. destruct Hin as [t [Hb Ht]].
    apply in_seq in Ht. subst fl. rewrite Hsame by lia. apply same_flags_refl.
Qed.
