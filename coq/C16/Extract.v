From Coq Require Import Extraction ExtrOcamlBasic.
From Common Require Import Conv.
From C16 Require Import Model.
Extraction "c16_model.ml" conv_anchor run_case ob_flags ob_fin ob_heapdiff ob_conflict.
