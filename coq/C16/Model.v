(* C16/Model.v — a small interleaving semantics for "a font that nobody
   modifies is safe for concurrent use".

   One address space of cells; an ownership map says which cells are shared
   (owner c = None) and which belong to one thread (owner c = Some t: memory
   that thread allocated itself).  A thread is a deterministic step function
   over its local control state: read a cell, write a cell, compute locally,
   or be finished with a result.  A schedule is any list of thread ids (any
   length, any ids: the number of threads is not bounded); scheduling a
   finished thread is a no-op.

   Executable definitions only.  The second half instantiates the semantics
   with straight-line trace programs (the traces the Go harness records per
   operation: cells read, cells written) and is what gets extracted. *)
From Coq Require Import List NArith Bool Arith.
Import ListNotations.

Definition tid := nat.
Definition cell := N.
Definition val := N.
Definition heap := cell -> val.

Definition upd (h : heap) (c : cell) (v : val) : heap :=
  fun c' => if N.eqb c' c then v else h c'.

Section Sem.
  Variable L : Type.                       (* thread-local control state *)

  Inductive action : Type :=
  | ARead  (c : cell) (k : val -> L)       (* read c, continue with the value *)
  | AWrite (c : cell) (v : val) (k : L)    (* write v to c *)
  | ATau   (k : L)                         (* local computation *)
  | ARet   (r : val).                      (* finished, result r *)

  (* the code of every thread *)
  Definition code := tid -> L -> action.

  (* a thread's state: control state and the log of the values it has read
     (most recent first) *)
  Definition tstate := (L * list val)%type.

  Definition tstep (step : code) (t : tid) (h : heap) (s : tstate) : heap * tstate :=
    match step t (fst s) with
    | ARead c k    => (h, (k (h c), h c :: snd s))
    | AWrite c v k => (upd h c v, (k, snd s))
    | ATau k       => (h, (k, snd s))
    | ARet _       => (h, s)
    end.

  Definition result (step : code) (t : tid) (s : tstate) : option val :=
    match step t (fst s) with ARet r => Some r | _ => None end.

  Record config := mkConfig { hp : heap; ths : tid -> tstate }.

  Definition cstep (step : code) (cfg : config) (t : tid) : config :=
    let hs := tstep step t (hp cfg) (ths cfg t) in
    mkConfig (fst hs) (fun u => if Nat.eqb u t then snd hs else ths cfg u).

  Definition init_cfg (h0 : heap) (init : tid -> L) : config :=
    mkConfig h0 (fun t => (init t, [])).

  (* the whole system under a schedule *)
  Definition run (step : code) (sched : list tid) (cfg : config) : config :=
    fold_left (cstep step) sched cfg.

  (* thread t alone, n steps, on its own copy of the initial heap *)
  Fixpoint alone (step : code) (t : tid) (n : nat) (hs : heap * tstate) : heap * tstate :=
    match n with
    | O => hs
    | S m => let hs' := alone step t m hs in tstep step t (fst hs') (snd hs')
    end.

  (* control states thread t can reach, whatever values it reads *)
  Inductive Reach (step : code) (init : tid -> L) (t : tid) : L -> Prop :=
  | R_init : Reach step init t (init t)
  | R_read : forall l c k v, Reach step init t l -> step t l = ARead c k -> Reach step init t (k v)
  | R_write : forall l c v k, Reach step init t l -> step t l = AWrite c v k -> Reach step init t k
  | R_tau : forall l k, Reach step init t l -> step t l = ATau k -> Reach step init t k.

  (* the hypothesis of the property: no step of any thread writes a shared
     cell or another thread's cell ... *)
  Definition writes_own_only (owner : cell -> option tid) (step : code) (init : tid -> L) : Prop :=
    forall t l c v k, Reach step init t l -> step t l = AWrite c v k -> owner c = Some t.

  (* ... and per-thread cells are private: a thread reads shared cells and its
     own cells only *)
  Definition reads_shared_or_own (owner : cell -> option tid) (step : code) (init : tid -> L) : Prop :=
    forall t l c k, Reach step init t l -> step t l = ARead c k -> owner c = None \/ owner c = Some t.
End Sem.

Arguments ARead {L}. Arguments AWrite {L}. Arguments ATau {L}. Arguments ARet {L}.
Arguments mkConfig {L}. Arguments hp {L}. Arguments ths {L}.

(* ------------------------------------------------------------------------
   Trace programs: what the harness records for one operation is the list of
   cells it reads and the list of (cell, value) it writes; a thread is a
   sequence of operations.  The thread's observable is, per finished
   operation, the list of values it read (a deterministic operation's result
   is a function of these). *)

Inductive instr : Type :=
| IRd (c : cell)
| IWr (c : cell) (v : val)
| IEnd.                                    (* end of one operation *)

Definition oper := (list cell * list (cell * val))%type.

Definition flatten_op (o : oper) : list instr :=
  map IRd (fst o) ++ map (fun cv => IWr (fst cv) (snd cv)) (snd o) ++ [IEnd].

Definition prog_of (ops : list oper) : list instr := flat_map flatten_op ops.

(* local state: remaining program, values read in the current operation (most
   recent first), logs of the finished operations (most recent first) *)
Definition tl_state := (list instr * list val * list (list val))%type.

Definition tr_step (_ : tid) (l : tl_state) : action tl_state :=
  match l with
  | (p, cur, outs) =>
    match p with
    | [] => ARet (N.of_nat (length outs))
    | IRd c :: p' => ARead c (fun v => (p', v :: cur, outs))
    | IWr c v :: p' => AWrite c v (p', cur, outs)
    | IEnd :: p' => ATau (p', [], rev cur :: outs)
    end
  end.

Definition tr_init (progs : list (list instr)) (t : tid) : tl_state :=
  (nth t progs [], [], []).

Definition heap_of (l : list (cell * val)) : heap :=
  fun c => match find (fun cv => N.eqb (fst cv) c) l with Some cv => snd cv | None => 0%N end.

(* per-operation logs of thread t, oldest first *)
Definition outs_of (s : tstate tl_state) : list (list val) :=
  match fst s with (_, _, outs) => rev outs end.

Definition finished (s : tstate tl_state) : bool :=
  match fst s with ([], _, _) => true | _ => false end.

Fixpoint eq_vals (a b : list val) : bool :=
  match a, b with
  | [], [] => true
  | x :: a', y :: b' => N.eqb x y && eq_vals a' b'
  | _, _ => false
  end.

(* flags: does the i-th finished operation under the schedule read exactly the
   values it reads when the thread runs alone? *)
Fixpoint same_flags (sch alo : list (list val)) : list bool :=
  match sch, alo with
  | s :: sch', a :: alo' => eq_vals s a :: same_flags sch' alo'
  | s :: sch', [] => false :: same_flags sch' []
  | [], _ => []
  end.

Definition run_traces (h0 : list (cell * val)) (progs : list (list instr)) (sched : list tid)
  : config tl_state :=
  run tl_state tr_step sched (init_cfg tl_state (heap_of h0) (tr_init progs)).

Definition alone_traces (h0 : list (cell * val)) (progs : list (list instr)) (t : tid)
  : tstate tl_state :=
  snd (alone tl_state tr_step t (S (length (nth t progs [])))
             (heap_of h0, (tr_init progs t, []))).

(* cells of interest for the final heap: the listed initial cells and every
   written cell, shared ones only (ids below the private base) *)
Definition priv_base : N := 1000%N.

Fixpoint written_cells (p : list instr) : list cell :=
  match p with
  | [] => []
  | IWr c _ :: p' => c :: written_cells p'
  | _ :: p' => written_cells p'
  end.

Fixpoint read_cells (p : list instr) : list cell :=
  match p with
  | [] => []
  | IRd c :: p' => c :: read_cells p'
  | _ :: p' => read_cells p'
  end.

Definition memN (c : cell) (l : list cell) : bool := existsb (N.eqb c) l.

Fixpoint dedup (l : list cell) : list cell :=
  match l with
  | [] => []
  | c :: l' => if memN c l' then dedup l' else c :: dedup l'
  end.

Definition accesses (p : list instr) : list cell := read_cells p ++ written_cells p.

(* static conflict check: two different threads access the same cell and at
   least one of them writes it *)
Definition conflict (progs : list (list instr)) : bool :=
  let ts := seq 0 (length progs) in
  existsb (fun i =>
    existsb (fun j =>
      negb (Nat.eqb i j) &&
      existsb (fun c => memN c (accesses (nth j progs []))) (written_cells (nth i progs [])))
    ts) ts.

Record observation := mkObs {
  ob_flags : list (list bool);             (* per thread, per finished operation *)
  ob_fin : list bool;                      (* per thread: program finished *)
  ob_heapdiff : list (cell * val);         (* shared cells whose final value differs *)
  ob_conflict : bool
}.

Definition run_case (h0 : list (cell * val)) (ops : list (list oper)) (sched : list tid) : observation :=
  let progs := map prog_of ops in
  let cfg := run_traces h0 progs sched in
  let ts := seq 0 (length progs) in
  let cells := map fst h0 ++
               dedup (filter (fun c => negb (memN c (map fst h0))) (flat_map written_cells progs)) in
  let shared := filter (fun c => N.ltb c priv_base) cells in
  mkObs
    (map (fun t => same_flags (outs_of (ths cfg t)) (outs_of (alone_traces h0 progs t))) ts)
    (map (fun t => finished (ths cfg t)) ts)
    (flat_map (fun c => if N.eqb (hp cfg c) (heap_of h0 c) then [] else [(c, hp cfg c)]) shared)
    (conflict progs).
