(* C16/Witness.v — executable witnesses: the smallest system in which one
   thread writes a cell another thread reads. *)
From Coq Require Import List NArith Bool Arith.
From C16 Require Import Model.
Import ListNotations.

(* control state = program counter (and, for the reader, the value it read).
   thread 0: read cell 0, return the value.
   thread 1: write 7 to cell 0, return 0.
   every other thread: finished. *)
Definition w_step (t : tid) (l : nat) : action nat :=
  match t, l with
  | 0, 0 => ARead 0%N (fun v => S (N.to_nat v))
  | 0, S v => ARet (N.of_nat v)
  | 1, 0 => AWrite 0%N 7%N 1
  | _, _ => ARet 0%N
  end.

Definition w_init (_ : tid) : nat := 0.
Definition w_heap : heap := fun _ => 0%N.
Definition w_sched1 : list tid := [0; 1].
Definition w_sched2 : list tid := [1; 0].

Definition w_result (sched : list tid) (t : tid) : option val :=
  result nat w_step t (ths (run nat w_step sched (init_cfg nat w_heap w_init)) t).

(* cell 0 regarded as shared / as thread 1's own *)
Definition w_owner_shared : cell -> option tid := fun _ => None.
Definition w_owner_private : cell -> option tid := fun c => if N.eqb c 0 then Some 1 else None.

(* three trace threads that satisfy the hypotheses non-trivially: all read the
   shared cells 0 and 1, each writes and re-reads a cell of its own *)
Definition ex_heap : list (cell * val) := [(0, 11); (1, 22); (2, 33)]%N.
Definition ex_ops : list (list oper) :=
  [ [([0; 1], [(1000, 5)]); ([1000; 1], [])];
    [([1; 0; 2], [(2000, 6)]); ([2000], [(2000, 7)]); ([2000; 0], [])];
    [([0], [(3000, 1)])] ]%N.
Definition ex_sched : list tid :=
  [2; 0; 1; 1; 0; 2; 0; 1; 1; 0; 1; 2; 0; 1; 1; 0; 1; 1; 0; 2; 1; 1; 0; 1; 2; 0; 1; 0; 1].

(* the same with a write to the shared cell 1 by thread 2 *)
Definition bad_ops : list (list oper) :=
  [ [([0; 1], [(1000, 5)]); ([1000; 1], [])];
    [([1; 0; 2], [(2000, 6)])];
    [([0], [(1, 99)])] ]%N.
Definition bad_sched : list tid := [2; 2; 2; 0; 0; 0; 0; 0; 0; 0; 1; 1; 1; 1; 1; 1; 1; 1].
