(* C16/Examples.v — non-vacuity: concrete systems that meet every hypothesis
   of every theorem, with non-trivial content, and the refuting witnesses
   evaluated. *)
From Coq Require Import List NArith Bool Arith.
From C16 Require Import Model Proofs Proofs_traces Witness.
Import ListNotations.

(* three threads, shared reads, writes to own cells, an interleaved schedule *)
Example ex_conflict_free : conflict (map prog_of ex_ops) = false.
Proof. vm_compute. reflexivity. Qed.

Example ex_schedule_complete :
  forallb (fun t => Nat.leb (S (length (prog_of (nth t ex_ops [])))) (cnt ex_sched t)) (seq 0 (length ex_ops)) = true.
Proof. vm_compute. reflexivity. Qed.

Example ex_observation :
  let ob := run_case ex_heap ex_ops ex_sched in
  ob_flags ob = [[true; true]; [true; true; true]; [true]] /\
  ob_fin ob = [true; true; true] /\ ob_heapdiff ob = [] /\ ob_conflict ob = false.
Proof. vm_compute. repeat split; reflexivity. Qed.

(* the hypotheses of readonly_schedule_independent hold for it, with threads
   that do write (their own cells) and do read shared cells *)
Example ex_hypotheses :
  writes_own_only tl_state (tr_owner (map prog_of ex_ops)) tr_step (tr_init (map prog_of ex_ops)) /\
  reads_shared_or_own tl_state (tr_owner (map prog_of ex_ops)) tr_step (tr_init (map prog_of ex_ops)).
Proof. split; [apply tr_writes_own | apply tr_reads_ok]; exact ex_conflict_free. Qed.

Example ex_owner_map :
  map (tr_owner (map prog_of ex_ops)) [0; 1; 2; 1000; 2000; 3000]%N = [None; None; None; Some 0; Some 1; Some 2].
Proof. vm_compute. reflexivity. Qed.

(* values actually read by thread 1 under the schedule: shared values and its own writes *)
Example ex_thread1_reads :
  outs_of (ths (run_traces ex_heap (map prog_of ex_ops) ex_sched) 1) = [[22; 11; 33]; [6]; [7; 11]]%N.
Proof. vm_compute. reflexivity. Qed.

(* one write to a shared cell: conflict reported, and under this schedule
   threads 0 and 1 read a value they do not read alone *)
Example bad_observation :
  let ob := run_case ex_heap bad_ops bad_sched in
  ob_conflict ob = true /\ ob_flags ob = [[false; false]; [false]; [true]] /\ ob_heapdiff ob = [(1, 99)]%N.
Proof. vm_compute. repeat split; reflexivity. Qed.

(* the same threads scheduled the other way round read what they read alone *)
Example bad_other_schedule :
  ob_flags (run_case ex_heap bad_ops (rev bad_sched)) = [[true; true]; [true]; [true]].
Proof. vm_compute. reflexivity. Qed.

(* the general-code witness of one_shared_write_refuted *)
Example witness_results : w_result w_sched1 0 = Some 0%N /\ w_result w_sched2 0 = Some 7%N.
Proof. split; vm_compute; reflexivity. Qed.
