(* C16/Props.v — the property theorems.  Nothing else.

   Reading: cells with owner c = None are the shared font (and shared lookup
   lists); cells with owner c = Some t are memory goroutine t allocated itself
   (its Layouter, its gtab.Context, its output buffers, its clone of the
   top-level struct).  The theorems are about the interleaving semantics of
   C16/Model.v; they do not mention the Go memory model (see props/C16.py). *)
From Coq Require Import List NArith Bool Arith.
From C16 Require Import Model Proofs Proofs_traces Proofs_refuted.
Import ListNotations.

(* P1.  If no step of any thread writes a shared cell or another thread's cell
   (and per-thread cells are private), then under EVERY schedule - any length,
   any number of threads, any interleaving - each thread is in exactly the
   control state, and has read exactly the values, it would have after the same
   number of its own steps when run alone. *)
Theorem readonly_schedule_independent :
  forall (L : Type) (owner : cell -> option tid) (step : code L) (init : tid -> L) (h0 : heap),
    writes_own_only L owner step init ->
    reads_shared_or_own L owner step init ->
    forall (sched : list tid) (t : tid),
      ths (run L step sched (init_cfg L h0 init)) t
      = snd (alone L step t (cnt sched t) (h0, (init t, []))).
Proof. exact schedule_independent. Qed.
Print Assumptions readonly_schedule_independent.

(* ... and returns the same result: once the thread has finished alone within n
   steps, every schedule that gives it at least n steps leaves it finished with
   that result, having read the same values. *)
Theorem readonly_result_same :
  forall (L : Type) (owner : cell -> option tid) (step : code L) (init : tid -> L) (h0 : heap),
    writes_own_only L owner step init ->
    reads_shared_or_own L owner step init ->
    forall (sched : list tid) (t : tid) (n : nat) (r : val),
      result L step t (snd (alone L step t n (h0, (init t, [])))) = Some r ->
      n <= cnt sched t ->
      ths (run L step sched (init_cfg L h0 init)) t = snd (alone L step t n (h0, (init t, []))) /\
      result L step t (ths (run L step sched (init_cfg L h0 init)) t) = Some r.
Proof. exact finished_result_same. Qed.
Print Assumptions readonly_result_same.

(* Any two schedules that give a thread equally many steps are
   indistinguishable to it. *)
Theorem readonly_any_two_schedules :
  forall (L : Type) (owner : cell -> option tid) (step : code L) (init : tid -> L) (h0 : heap),
    writes_own_only L owner step init ->
    reads_shared_or_own L owner step init ->
    forall (s1 s2 : list tid) (t : tid),
      cnt s1 t = cnt s2 t ->
      ths (run L step s1 (init_cfg L h0 init)) t = ths (run L step s2 (init_cfg L h0 init)) t.
Proof. exact any_two_schedules. Qed.
Print Assumptions readonly_any_two_schedules.

(* The shared state is the same after every schedule as before. *)
Theorem readonly_shared_state_unchanged :
  forall (L : Type) (owner : cell -> option tid) (step : code L) (init : tid -> L) (h0 : heap),
    writes_own_only L owner step init ->
    reads_shared_or_own L owner step init ->
    forall (sched : list tid) (c : cell),
      owner c = None -> hp (run L step sched (init_cfg L h0 init)) c = h0 c.
Proof. exact shared_heap_unchanged. Qed.
Print Assumptions readonly_shared_state_unchanged.

(* P1, non-vacuity of the hypothesis.  A single write step in the whole system,
   to a shared cell that another thread reads (all reads are of shared cells):
   two schedules that give every thread the same number of steps produce
   different results. *)
Theorem one_shared_write_refuted :
  exists (L : Type) (step : code L) (init : tid -> L) (h0 : heap) (s1 s2 : list tid) (t : tid),
    (forall u, cnt s1 u = cnt s2 u) /\
    reads_shared_or_own L (fun _ => None) step init /\
    (exists t1 l1 c1 v1, forall t' l c v k, step t' l = AWrite c v k -> t' = t1 /\ l = l1 /\ c = c1 /\ v = v1) /\
    result L step t (ths (run L step s1 (init_cfg L h0 init)) t)
    <> result L step t (ths (run L step s2 (init_cfg L h0 init)) t).
Proof. exact one_shared_write_refuted_lemma. Qed.
Print Assumptions one_shared_write_refuted.

(* Writing only one's own memory is not enough when another thread reads it. *)
Theorem foreign_read_refuted :
  exists (L : Type) (owner : cell -> option tid) (step : code L) (init : tid -> L) (h0 : heap)
         (s1 s2 : list tid) (t : tid),
    (forall u, cnt s1 u = cnt s2 u) /\
    writes_own_only L owner step init /\
    result L step t (ths (run L step s1 (init_cfg L h0 init)) t)
    <> result L step t (ths (run L step s2 (init_cfg L h0 init)) t).
Proof. exact foreign_read_refuted_lemma. Qed.
Print Assumptions foreign_read_refuted.

(* P2.  The executable conflict check of the extracted model is sound: recorded
   traces that pass it (no cell written by one thread is read or written by
   another - this covers threads that write only memory they allocated
   themselves) behave, under every schedule, as each thread alone. *)
Theorem conflict_free_traces_independent :
  forall (progs : list (list instr)),
    conflict progs = false ->
    forall (h0 : list (cell * val)) (sched : list tid) (t : tid),
      ths (run_traces h0 progs sched) t
      = snd (alone tl_state tr_step t (cnt sched t) (heap_of h0, (tr_init progs t, []))).
Proof. exact traces_independent. Qed.
Print Assumptions conflict_free_traces_independent.

Theorem conflict_free_traces_heap :
  forall (progs : list (list instr)),
    conflict progs = false ->
    forall (h0 : list (cell * val)) (sched : list tid) (c : cell),
      (forall t, t < length progs -> ~ In c (written_cells (nth t progs []))) ->
      hp (run_traces h0 progs sched) c = heap_of h0 c.
Proof. exact traces_unwritten_cells_unchanged. Qed.
Print Assumptions conflict_free_traces_heap.

(* What the extracted checker prints for conflict-free traces under any
   complete schedule: no conflict, every thread finished, every operation read
   exactly the values it reads when its thread runs alone. *)
Theorem checker_verdict_on_conflict_free_traces :
  forall (h0 : list (cell * val)) (ops : list (list oper)) (sched : list tid),
    conflict (map prog_of ops) = false ->
    (forall t, t < length ops -> S (length (prog_of (nth t ops []))) <= cnt sched t) ->
    let ob := run_case h0 ops sched in
    ob_conflict ob = false /\
    forallb (fun b => b) (ob_fin ob) = true /\
    forallb (forallb (fun b => b)) (ob_flags ob) = true.
Proof. exact run_case_conflict_free. Qed.
Print Assumptions checker_verdict_on_conflict_free_traces.
