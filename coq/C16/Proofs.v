(* C16/Proofs.v — schedule independence of threads that write only memory of
   their own.  Induction over the schedule; the step case is the commuting
   argument: a step of thread t sees, in every cell it may read, the value it
   would see when running alone, and changes no cell another thread may read. *)
From Coq Require Import List NArith Bool Arith Lia.
From C16 Require Import Model.
Import ListNotations.

Lemma upd_same : forall h c v, upd h c v c = v.
Proof. intros. unfold upd. rewrite N.eqb_refl. reflexivity. Qed.

Lemma upd_other : forall h c v c', c' <> c -> upd h c v c' = h c'.
Proof. intros h c v c' Hne. unfold upd. destruct (N.eqb c' c) eqn:E; [apply N.eqb_eq in E; contradiction | reflexivity]. Qed.

Definition cnt (s : list tid) (t : tid) : nat := count_occ Nat.eq_dec s t.

Lemma cnt_snoc_same : forall s t, cnt (s ++ [t]) t = S (cnt s t).
Proof.
  intros. unfold cnt. rewrite count_occ_app. cbn [count_occ].
  destruct (Nat.eq_dec t t) as [_|Hn]; [apply Nat.add_1_r | contradiction].
Qed.

Lemma cnt_snoc_other : forall s t u, u <> t -> cnt (s ++ [t]) u = cnt s u.
Proof.
  intros s t u Hne. unfold cnt. rewrite count_occ_app. cbn [count_occ].
  destruct (Nat.eq_dec t u) as [He|_]; [subst; contradiction | apply Nat.add_0_r].
Qed.

Section Independence.
  Variable L : Type.
  Variable owner : cell -> option tid.
  Variable step : code L.
  Variable init : tid -> L.
  Variable h0 : heap.
  Hypothesis HW : writes_own_only L owner step init.
  Hypothesis HR : reads_shared_or_own L owner step init.

  Definition start (t : tid) : heap * tstate L := (h0, (init t, [])).
  Definition al (t : tid) (n : nat) : heap * tstate L := alone L step t n (start t).

  Lemma al_S : forall t n, al t (S n) = tstep L step t (fst (al t n)) (snd (al t n)).
  Proof. reflexivity. Qed.

  Lemma al_reach : forall t n, Reach L step init t (fst (snd (al t n))).
  Proof.
    intros t n. induction n as [|n IH].
    - simpl. constructor.
    - rewrite al_S. unfold tstep.
      destruct (step t (fst (snd (al t n)))) as [c k|c v k|k|r] eqn:E; simpl.
      + eapply R_read; eauto.
      + eapply R_write; eauto.
      + eapply R_tau; eauto.
      + exact IH.
  Qed.

  (* a thread running alone leaves every cell that is not its own untouched *)
  Lemma al_heap_foreign : forall t n c, owner c <> Some t -> fst (al t n) c = h0 c.
  Proof.
    intros t n c Hown. induction n as [|n IH].
    - reflexivity.
    - rewrite al_S. unfold tstep.
      destruct (step t (fst (snd (al t n)))) as [c' k|c' v k|k|r] eqn:E; simpl; try exact IH.
      assert (Ho : owner c' = Some t) by (eapply HW; [apply al_reach | exact E]).
      rewrite upd_other; [exact IH|]. intro Heq. subst c'. contradiction.
  Qed.

  Definition Inv (sched : list tid) (cfg : config L) : Prop :=
    (forall t, ths cfg t = snd (al t (cnt sched t))) /\
    (forall c, owner c = None -> hp cfg c = h0 c) /\
    (forall c t, owner c = Some t -> hp cfg c = fst (al t (cnt sched t)) c).

  Lemma inv_init : Inv [] (init_cfg L h0 init).
  Proof. repeat split; intros; reflexivity. Qed.

  (* the commuting step *)
  Lemma inv_step : forall sched cfg t, Inv sched cfg -> Inv (sched ++ [t]) (cstep L step cfg t).
  Proof.
    intros sched cfg t [Ha [Hb Hc]].
    set (n := cnt sched t).
    assert (Hst : ths cfg t = snd (al t n)) by apply Ha.
    assert (Hreach : Reach L step init t (fst (snd (al t n)))) by apply al_reach.
    (* the global step and the alone step of t *)
    assert (Hkey :
      snd (tstep L step t (hp cfg) (ths cfg t)) = snd (al t (S n)) /\
      (forall c, owner c = None -> fst (tstep L step t (hp cfg) (ths cfg t)) c = h0 c) /\
      (forall c, owner c = Some t ->
         fst (tstep L step t (hp cfg) (ths cfg t)) c = fst (al t (S n)) c) /\
      (forall c u, owner c = Some u -> u <> t ->
         fst (tstep L step t (hp cfg) (ths cfg t)) c = hp cfg c)).
    { rewrite al_S, Hst. unfold tstep.
      destruct (step t (fst (snd (al t n)))) as [c k|c v k|k|r] eqn:E; simpl.
      - (* read *)
        assert (Hv : hp cfg c = fst (al t n) c).
        { destruct (HR t _ c k Hreach E) as [Hs|Ho].
          - rewrite (Hb c Hs). symmetry. apply al_heap_foreign. rewrite Hs. discriminate.
          - apply (Hc c t Ho). }
        rewrite Hv. repeat split; intros; auto. apply (Hc c0 t); assumption.
      - (* write: the cell is t's own *)
        assert (Ho : owner c = Some t) by (eapply HW; eauto).
        repeat split; intros.
        + rewrite upd_other; [auto|]. intro; subst c0. rewrite Ho in H. discriminate.
        + unfold upd. destruct (N.eqb c0 c); [reflexivity | apply (Hc c0 t); assumption].
        + apply upd_other. intro; subst c0. rewrite Ho in H. inversion H. subst u. contradiction.
      - repeat split; intros; auto. apply (Hc c t); assumption.
      - repeat split; intros; auto. apply (Hc c t); assumption. }
    destruct Hkey as [K1 [K2 [K3 K4]]].
    unfold Inv, cstep; simpl. repeat split.
    - intro u. destruct (Nat.eqb u t) eqn:Eu.
      + apply Nat.eqb_eq in Eu. subst u. rewrite cnt_snoc_same. exact K1.
      + apply Nat.eqb_neq in Eu. rewrite cnt_snoc_other by exact Eu. apply Ha.
    - exact K2.
    - intros c u Ho. destruct (Nat.eq_dec u t) as [->|Hne].
      + rewrite cnt_snoc_same. apply K3. exact Ho.
      + rewrite cnt_snoc_other by exact Hne. rewrite (K4 c u Ho Hne). apply Hc. exact Ho.
  Qed.

  Lemma inv_run : forall sched, Inv sched (run L step sched (init_cfg L h0 init)).
  Proof.
    intro sched. induction sched as [|t sched IH] using rev_ind.
    - apply inv_init.
    - unfold run. rewrite fold_left_app. simpl. apply inv_step. exact IH.
  Qed.

  (* under every schedule every thread is exactly where it would be after the
     same number of its own steps alone: same control state, same values read *)
  Theorem schedule_independent : forall sched t,
    ths (run L step sched (init_cfg L h0 init)) t = snd (al t (cnt sched t)).
  Proof. intros. apply (inv_run sched). Qed.

  Theorem shared_heap_unchanged : forall sched c,
    owner c = None -> hp (run L step sched (init_cfg L h0 init)) c = h0 c.
  Proof. intros. apply (inv_run sched). assumption. Qed.

  Theorem result_independent : forall sched t,
    result L step t (ths (run L step sched (init_cfg L h0 init)) t)
    = result L step t (snd (al t (cnt sched t))).
  Proof. intros. rewrite schedule_independent. reflexivity. Qed.

  (* two schedules that give a thread the same number of steps cannot be told
     apart by that thread *)
  Corollary any_two_schedules : forall s1 s2 t,
    cnt s1 t = cnt s2 t ->
    ths (run L step s1 (init_cfg L h0 init)) t = ths (run L step s2 (init_cfg L h0 init)) t.
  Proof. intros s1 s2 t H. rewrite !schedule_independent, H. reflexivity. Qed.

  (* a finished thread stays where it is *)
  Lemma al_finished_stable : forall t n m r,
    result L step t (snd (al t n)) = Some r -> n <= m -> al t m = al t n.
  Proof.
    intros t n m r Hres Hle. induction Hle as [|m Hle IH]; [reflexivity|].
    rewrite al_S, IH. unfold tstep. unfold result in Hres.
    destruct (step t (fst (snd (al t n)))); try discriminate.
    destruct (al t n) as [h s]; reflexivity.
  Qed.

  (* if the thread finishes alone within n steps, then under every schedule
     that gives it at least n steps it returns the same result, having read
     the same values *)
  Theorem finished_result_same : forall sched t n r,
    result L step t (snd (al t n)) = Some r -> n <= cnt sched t ->
    ths (run L step sched (init_cfg L h0 init)) t = snd (al t n) /\
    result L step t (ths (run L step sched (init_cfg L h0 init)) t) = Some r.
  Proof.
    intros sched t n r Hres Hle.
    rewrite schedule_independent, (al_finished_stable t n _ r Hres Hle). auto.
  Qed.
End Independence.
