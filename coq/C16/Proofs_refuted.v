(* C16/Proofs_refuted.v — the hypotheses cannot be dropped: one write to a cell
   that another thread reads makes the result depend on the schedule. *)
From Coq Require Import List NArith Bool Arith Lia.
From C16 Require Import Model Proofs Witness.
Import ListNotations.

Lemma w_same_counts : forall t, cnt w_sched1 t = cnt w_sched2 t.
Proof. intros [|[|t]]; reflexivity. Qed.

Lemma w_results_differ : w_result w_sched1 0 = Some 0%N /\ w_result w_sched2 0 = Some 7%N.
Proof. split; vm_compute; reflexivity. Qed.

Lemma w_single_write : forall t l c v k, w_step t l = AWrite c v k -> t = 1 /\ l = 0 /\ c = 0%N /\ v = 7%N.
Proof.
  intros t l c v k H. destruct t as [|[|t]]; destruct l as [|l]; simpl in H; try discriminate.
  inversion H. auto.
Qed.

Lemma w_reach0 : forall l, Reach nat w_step w_init 0 l -> forall c k, w_step 0 l = ARead c k -> c = 0%N.
Proof. intros l _ c k H. destruct l; simpl in H; [inversion H; reflexivity | discriminate]. Qed.

(* reading it as "cell 0 is shared": reads are fine, the write is not *)
Lemma w_shared_reads_ok : reads_shared_or_own nat w_owner_shared w_step w_init.
Proof. intros t l c k _ _. left. reflexivity. Qed.

Lemma w_shared_write_bad : ~ writes_own_only nat w_owner_shared w_step w_init.
Proof.
  intro H. specialize (H 1 0 0%N 7%N 1 (R_init nat w_step w_init 1) eq_refl). discriminate.
Qed.

(* reading it as "cell 0 belongs to thread 1": the write is fine, thread 0's read is not *)
Lemma w_private_writes_ok : writes_own_only nat w_owner_private w_step w_init.
Proof.
  intros t l c v k _ H. apply w_single_write in H. destruct H as [-> [_ [-> _]]]. reflexivity.
Qed.

Lemma w_private_read_bad : ~ reads_shared_or_own nat w_owner_private w_step w_init.
Proof.
  intro H. destruct (H 0 0 0%N (fun v => S (N.to_nat v)) (R_init nat w_step w_init 0) eq_refl) as [E|E];
    vm_compute in E; discriminate.
Qed.

Lemma one_shared_write_refuted_lemma :
  exists (L : Type) (step : code L) (init : tid -> L) (h0 : heap) (s1 s2 : list tid) (t : tid),
    (forall u, cnt s1 u = cnt s2 u) /\
    reads_shared_or_own L (fun _ => None) step init /\
    (exists t1 l1 c1 v1, forall t' l c v k, step t' l = AWrite c v k -> t' = t1 /\ l = l1 /\ c = c1 /\ v = v1) /\
    result L step t (ths (run L step s1 (init_cfg L h0 init)) t)
    <> result L step t (ths (run L step s2 (init_cfg L h0 init)) t).
Proof.
  exists nat, w_step, w_init, w_heap, w_sched1, w_sched2, 0.
  split; [exact w_same_counts|]. split; [exact w_shared_reads_ok|]. split.
  - exists 1, 0, 0%N, 7%N. exact w_single_write.
  - destruct w_results_differ as [E1 E2]. unfold w_result in E1, E2. rewrite E1, E2. discriminate.
Qed.

Lemma foreign_read_refuted_lemma :
  exists (L : Type) (owner : cell -> option tid) (step : code L) (init : tid -> L) (h0 : heap)
         (s1 s2 : list tid) (t : tid),
    (forall u, cnt s1 u = cnt s2 u) /\
    writes_own_only L owner step init /\
    result L step t (ths (run L step s1 (init_cfg L h0 init)) t)
    <> result L step t (ths (run L step s2 (init_cfg L h0 init)) t).
Proof.
  exists nat, w_owner_private, w_step, w_init, w_heap, w_sched1, w_sched2, 0.
  split; [exact w_same_counts|]. split; [exact w_private_writes_ok|].
  destruct w_results_differ as [E1 E2]. unfold w_result in E1, E2. rewrite E1, E2. discriminate.
Qed.
