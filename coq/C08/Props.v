(* C08/Props.v — the property theorems.  Nothing else. *)
From Coq Require Import List NArith ZArith Bool Lia.
From Common Require Import Bytes Outcome.
From Gen Require Import C08.
From C08 Require Import Model ModelCD ModelLL ModelSub ModelSub2 ModelFL ModelGDEF ModelSL Proofs Proofs_cd Proofs_ll Proofs_ll3 Proofs_ll4 Proofs_sub Proofs_sub2 Proofs_sub3 Proofs_fl Proofs_gdef Proofs_sl.
Import ListNotations.
Local Open Scope N_scope.

(* ---------------- coverage tables (opentype/coverage) ---------------- *)

(* Every coverage table over the 16-bit glyph range (= every strictly
   increasing glyph list, index = rank) is accepted by Encode, and reading the
   emitted bytes - wherever they sit in a file - returns exactly the table. *)
Theorem coverage_roundtrip :
  forall (gl pre post : list N),
    strictly_inc gl = true -> glyphs_ok gl = true ->
    exists b, M_cov_encode (S_cov_table gl) = Ok b /\
              M_cov_read (pre ++ b ++ post) (N.of_nat (length pre)) = Ok (S_cov_pairs gl).
Proof. exact cov_roundtrip. Qed.
Print Assumptions coverage_roundtrip.

(* EncodeLen = |Encode| for every table the encoder does not refuse (also
   tables that violate the documented invariant but slip through encInfo). *)
Theorem coverage_len :
  forall (t : list (N * Z)) (b : list N),
    keys_ok t = true -> M_cov_encode t = Ok b ->
    M_cov_encode_len t = Ok (N.of_nat (length b)).
Proof. exact cov_len_agrees. Qed.
Print Assumptions coverage_len.

(* Loud refusal: for a table given with its keys in increasing order, Encode
   returns only if the table satisfies the Table invariant (index = rank in
   glyph order); every other table - index out of range, not monotone, an index
   used twice (fixes/C08-coverage-duplicate-index.diff) - makes it panic. *)
Theorem coverage_encode_refuses_invalid :
  forall (t : list (N * Z)) (b : list N),
    inc_from (-1) (map fst t) = true -> M_cov_encode t = Ok b ->
    t = S_cov_table (map fst t).
Proof. exact cov_encode_ok_valid. Qed.
Print Assumptions coverage_encode_refuses_invalid.

(* The emitted table has the size of the smaller of the two formats of the
   OpenType text (4+2n vs 4+6*runs), format 1 on a tie, and the format word
   says which one was used. *)
Theorem coverage_min_format :
  forall (gl b : list N),
    strictly_inc gl = true -> glyphs_ok gl = true ->
    M_cov_encode (S_cov_table gl) = Ok b ->
    N.of_nat (length b) = S_cov_size gl /\
    (nth 1 b 0 = 1 <-> 4 + 2 * N.of_nat (length gl) <= 4 + 6 * S_runs gl) /\
    (nth 1 b 0 = 2 <-> 4 + 6 * S_runs gl < 4 + 2 * N.of_nat (length gl)).
Proof. exact cov_size. Qed.
Print Assumptions coverage_min_format.

(* Whatever bytes Read accepts, the decoded table has indices 0..n-1 in
   strictly increasing glyph order, all glyphs 16-bit. *)
Theorem coverage_indices :
  forall (data : list N) (pos : N) (l : list (N * N)),
    bytes_lt data -> M_cov_read data pos = Ok l ->
    l = S_cov_pairs (map fst l) /\ strictly_inc (map fst l) = true /\
    glyphs_ok (map fst l) = true.
Proof. exact cov_read_shape. Qed.
Print Assumptions coverage_indices.

(* coverage.Read never panics, whatever the bytes and the position. *)
Theorem coverage_read_total :
  forall (data : list N) (pos : N), M_cov_read data pos <> Panic.
Proof. exact cov_read_total. Qed.
Print Assumptions coverage_read_total.

(* ---------------- class definition tables (opentype/classdef) ---------------- *)
(* The model mirrors the code with fixes/C08-classdef-fullrange.diff applied
   (DESIGN 5.A-13: before the repair a table spanning all 65536 glyph ids with
   >= 21846 ranges was written as 6 bytes while AppendLen said 131078). *)

(* Whatever class table Append accepts - over the full 16-bit glyph range, in
   either format, wherever the bytes sit in a file - Read returns the same
   classification (entries with class 0 mean "not listed" and are dropped). *)
Theorem classdef_roundtrip :
  forall (t : list (N * N)) (b pre post : list N),
    cd_ok t = true -> M_cd_append t = Ok b ->
    M_cd_read (pre ++ b ++ post) (N.of_nat (length pre)) = Ok (S_cd_nonzero t).
Proof. intros. apply cd_roundtrip; assumption. Qed.
Print Assumptions classdef_roundtrip.

(* Append never returns an error; it refuses loudly (panic) only tables that
   no class definition table can hold: key span of all 65536 glyph ids
   (format 1 has a 16-bit count) and more than 65535 ranges (format 2 has a
   16-bit count).  In particular every table with span < 65536 is encoded. *)
Theorem classdef_refuses_only_unrepresentable :
  forall (t : list (N * N)),
    cd_ok t = true -> M_cd_append t = Panic ->
    let ei := M_cd_encinfo t in
    65535 < cd_max ei + 1 - cd_min ei /\ 65535 < S_cd_segs (cd_dense ei) 0.
Proof. exact cd_panic_only_unrepresentable. Qed.
Print Assumptions classdef_refuses_only_unrepresentable.

Theorem classdef_append_total :
  forall (t : list (N * N)), M_cd_append t <> Err /\ M_cd_append t <> OutOfFuel.
Proof. exact cd_append_total. Qed.

(* AppendLen = |Append| *)
Theorem classdef_len :
  forall (t : list (N * N)) (b : list N),
    cd_ok t = true -> M_cd_append t = Ok b ->
    M_cd_append_len t = N.of_nat (length b).
Proof. exact cd_len_agrees. Qed.
Print Assumptions classdef_len.

(* The smaller of the two formats is emitted (format 1 on a tie; format 1 is
   not available when the key span is all 65536 glyph ids).  [cd_dense] is the
   class of every glyph from the smallest to the largest key (first two
   conjuncts), [S_cd_segs] counts the maximal runs of one non-zero class. *)
Theorem classdef_min_format :
  forall (t : list (N * N)) (b : list N),
    cd_ok t = true -> t <> [] -> M_cd_append t = Ok b ->
    let ei := M_cd_encinfo t in
    let span := cd_max ei + 1 - cd_min ei in
    let segs := S_cd_segs (cd_dense ei) 0 in
    N.of_nat (length (cd_dense ei)) = span /\
    sparse (cd_dense ei) (cd_min ei) = S_cd_nonzero t /\
    N.of_nat (length b) =
      (if 65535 <? span then 4 + 6 * segs else N.min (6 + 2 * span) (4 + 6 * segs)) /\
    (nth 1 b 0 = 1 <-> span <= 65535 /\ 6 + 2 * span <= 4 + 6 * segs) /\
    (nth 1 b 0 = 2 <-> 65535 < span \/ 4 + 6 * segs < 6 + 2 * span).
Proof. exact cd_min_format. Qed.
Print Assumptions classdef_min_format.

(* classdef.Read never panics. *)
Theorem classdef_read_total :
  forall (data : list N) (pos : N), M_cd_read data pos <> Panic.
Proof. exact cd_read_total. Qed.
Print Assumptions classdef_read_total.

(* ---------------- lookup list layout (gtab.LookupList.encode) ---------------- *)
(* Abstract subtables: opaque blobs, encodeLen = length.  The model mirrors the
   code with fixes/C08-lookuplist-guards.diff applied (DESIGN 5.A-14 and two
   further defects: lists the reader rejects, unknown extension type). *)

(* lookuplist_offsets: whenever encode returns (it may refuse loudly: Panic;
   OutOfFuel = 4 GiB of data, outside the model), every lookup offset, every
   subtable offset relative to its lookup table and every extension offset is
   the true distance between the emitted pieces and fits its field.
   [find_pos .. L 0] is the byte position of a piece in the emitted string:
   the last conjunct of each case says that the subtable's bytes are there. *)
Theorem lookuplist_offsets :
  forall (ll : list lookup) (extT : N) (L : list chunk) (b pre post : list N),
    M_ll_layout ll = Ok L -> emit ll extT L L = Ok b ->
    forall k l, nth_error ll k = Some l ->
    exists T,
      find_pos KTable (N.of_nat k) 0 L 0 = Some T /\ T <= 65535 /\
      forall j blob, nth_error (lk_subs l) j = Some blob ->
        (find_pos KExt (N.of_nat k) (N.of_nat j) L 0 = None /\
         exists Sp, find_pos KSub (N.of_nat k) (N.of_nat j) L 0 = Some Sp /\
                    T <= Sp /\ Sp - T <= 65535 /\
                    starts (pre ++ b ++ post) (N.of_nat (length pre) + Sp) blob)
        \/
        (exists Ep Sp,
           find_pos KExt (N.of_nat k) (N.of_nat j) L 0 = Some Ep /\
           find_pos KSub (N.of_nat k) (N.of_nat j) L 0 = Some Sp /\
           T <= Ep /\ Ep - T <= 65535 /\ Ep <= Sp /\ Sp - Ep < 4294967296 /\
           starts (pre ++ b ++ post) (N.of_nat (length pre) + Sp) blob).
Proof. intros ll extT L b pre post HL He k l Hk. exact (ll_offsets ll extT L b pre post HL He k l Hk). Qed.
Print Assumptions lookuplist_offsets.

(* lookuplist_roundtrip_abstract: decoding the emitted list, wherever it sits
   in a file, following extension records, returns every lookup in order with
   its type, flags and mark filtering set, and for every subtable a position
   at which exactly that subtable's bytes start. *)
Theorem lookuplist_roundtrip_abstract :
  forall (ll : list lookup) (extT : N) (b pre post : list N),
    extT < 65536 -> Forall (lookup_ok extT) ll ->
    M_ll_encode ll extT = Ok b ->
    exists obs,
      M_ll_read (pre ++ b ++ post) (N.of_nat (length pre)) extT = Ok obs /\
      Forall2 (lookup_matches (pre ++ b ++ post)) ll obs.
Proof.
  intros ll extT b pre post Hext Hll. unfold M_ll_encode.
  destruct (M_ll_layout ll) as [L| | |] eqn:HL; cbn [obind]; try discriminate.
  intros He. exact (ll_read_back ll extT L b pre post HL He Hext Hll).
Qed.
Print Assumptions lookuplist_roundtrip_abstract.

(* the lookup offsets written into the list header are never truncated *)
Theorem lookuplist_lookup_offsets_fit :
  forall (ll : list lookup) (L : list chunk) (t q : N),
    M_ll_layout ll = Ok L -> find_pos KTable t 0 L 0 = Some q -> q <= 65535.
Proof. intros ll L t q HL. apply (tables_fit ll L t q). apply layout_shape_of. exact HL. Qed.
Print Assumptions lookuplist_lookup_offsets_fit.

(* ---------------- value records (gtab/valuerecord.go) ---------------- *)

(* encodeLen(format) = |encode(format)| for every format getFormat can produce
   (bits 0..7) *)
Theorem valuerecord_len_agrees :
  forall (fmt : N) (v : option vrec), fmt < 256 ->
    lenN (M_vr_encode fmt v) = M_vr_encode_len fmt.
Proof. exact vr_len_agrees. Qed.
Print Assumptions valuerecord_len_agrees.

(* a record (nil included) comes back unchanged through its own format *)
Theorem valuerecord_roundtrip :
  forall (v : option vrec) (rest : list N), vr_ok v ->
    M_vr_read (M_vr_format v) (M_vr_encode (M_vr_format v) v ++ rest) = Ok (v, rest).
Proof. exact vr_roundtrip_own. Qed.
Print Assumptions valuerecord_roundtrip.

(* through any format that has a bit for every non-zero field (the union
   format of GPOS 1.2 / 2.1) the record comes back up to nil = all-zero: nil
   exactly when the format is 0 *)
Theorem valuerecord_roundtrip_common_format :
  forall (fmt : N) (v : option vrec) (rest : list N), vr_ok v -> vr_covers fmt v ->
    M_vr_read fmt (M_vr_encode fmt v ++ rest) = Ok (vr_norm fmt v, rest).
Proof. exact vr_read_encode. Qed.
Print Assumptions valuerecord_roundtrip_common_format.

(* ---------------- subtables ---------------- *)
(* Well-formed = valid coverage (strictly increasing 16-bit glyph list, index
   = rank) and one array entry per covered glyph.  The models mirror the code
   with fixes/C08-subtable-offset-guards.diff applied: a coverage offset (or
   value count) that does not fit 16 bits makes encode panic; before the
   repair it was truncated silently (GSUB 1.2 with more than 32764 glyphs was
   unreadable).  "= Ok b" below therefore excludes exactly the refused inputs. *)

Theorem gsub1_1_len_agrees :
  forall gl delta b, glyphs_ok gl = true ->
    M_gsub11_encode gl delta = Ok b -> M_gsub11_len gl = Ok (lenN b).
Proof. exact gsub11_len_agrees. Qed.

Theorem gsub1_1_roundtrip :
  forall gl delta b pre post,
    strictly_inc gl = true -> glyphs_ok gl = true -> delta < 65536 ->
    M_gsub11_encode gl delta = Ok b ->
    M_gsub11_read (pre ++ b ++ post) (lenN pre) = Ok (gl, delta).
Proof. exact gsub11_roundtrip. Qed.
Print Assumptions gsub1_1_roundtrip.

Theorem gsub1_2_len_agrees :
  forall gl subst b, glyphs_ok gl = true ->
    M_gsub12_encode (S_cov_table gl) subst = Ok b -> M_gsub12_len (S_cov_table gl) subst = Ok (lenN b).
Proof. exact gsub12_len_agrees. Qed.

Theorem gsub1_2_roundtrip :
  forall gl subst b pre post,
    strictly_inc gl = true -> glyphs_ok gl = true -> gids_ok subst -> length subst = length gl ->
    M_gsub12_encode (S_cov_table gl) subst = Ok b ->
    M_gsub12_read (pre ++ b ++ post) (lenN pre) = Ok (S_cov_pairs gl, subst).
Proof. exact gsub12_roundtrip. Qed.
Print Assumptions gsub1_2_roundtrip.

(* GSUB 2.1 (Repl) and GSUB 3.1 (Alternates) share layout, writer and reader *)
Theorem gsub2_1_3_1_len_agrees :
  forall gl seqs b, glyphs_ok gl = true ->
    M_gsubseq_encode (S_cov_table gl) seqs = Ok b -> M_gsubseq_len (S_cov_table gl) seqs = Ok (lenN b).
Proof. exact gsubseq_len_agrees. Qed.

Theorem gsub2_1_3_1_roundtrip :
  forall gl seqs b pre post,
    strictly_inc gl = true -> glyphs_ok gl = true -> Forall seq_ok seqs -> length seqs = length gl ->
    M_gsubseq_encode (S_cov_table gl) seqs = Ok b ->
    M_gsubseq_read (pre ++ b ++ post) (lenN pre) = Ok (S_cov_pairs gl, seqs).
Proof. exact gsubseq_roundtrip. Qed.
Print Assumptions gsub2_1_3_1_roundtrip.

(* GSUB 4.1: ligature sets, one per covered glyph; Gsub4_1.encode panics when
   the coverage offset passes 65535 (original guard), the reader rejects the
   same tables ("GSUB 4.1 too large") *)
Theorem gsub4_1_len_agrees :
  forall gl sets b, glyphs_ok gl = true ->
    M_gsub41_encode (S_cov_table gl) sets = Ok b -> M_gsub41_len (S_cov_table gl) sets = Ok (lenN b).
Proof. exact gsub41_len_agrees. Qed.

Theorem gsub4_1_roundtrip :
  forall gl sets b pre post,
    strictly_inc gl = true -> glyphs_ok gl = true -> Forall (Forall lig_ok) sets ->
    length sets = length gl ->
    M_gsub41_encode (S_cov_table gl) sets = Ok b ->
    M_gsub41_read (pre ++ b ++ post) (lenN pre) = Ok (S_cov_pairs gl, sets).
Proof. exact gsub41_roundtrip. Qed.
Print Assumptions gsub4_1_roundtrip.

Theorem gpos1_1_len_agrees :
  forall gl adj b, glyphs_ok gl = true ->
    M_gpos11_encode (S_cov_table gl) adj = Ok b -> M_gpos11_len (S_cov_table gl) adj = Ok (lenN b).
Proof. exact gpos11_len_agrees. Qed.

Theorem gpos1_1_roundtrip :
  forall gl adj b pre post,
    strictly_inc gl = true -> glyphs_ok gl = true -> vr_ok adj ->
    M_gpos11_encode (S_cov_table gl) adj = Ok b ->
    M_gpos11_read (pre ++ b ++ post) (lenN pre) = Ok (S_cov_pairs gl, adj).
Proof. exact gpos11_roundtrip. Qed.
Print Assumptions gpos1_1_roundtrip.

Theorem gpos1_2_len_agrees :
  forall gl adj b, glyphs_ok gl = true ->
    M_gpos12_encode (S_cov_table gl) adj = Ok b -> M_gpos12_len (S_cov_table gl) adj = Ok (lenN b).
Proof. exact gpos12_len_agrees. Qed.

(* the records come back up to nil = all-zero (vr_norm): the common value
   format decides whether nil can be told from a zero record *)
Theorem gpos1_2_roundtrip :
  forall gl adj b pre post,
    strictly_inc gl = true -> glyphs_ok gl = true -> Forall vr_ok adj -> length adj = length gl ->
    M_gpos12_encode (S_cov_table gl) adj = Ok b ->
    M_gpos12_read (pre ++ b ++ post) (lenN pre) =
      Ok (S_cov_pairs gl, map (vr_norm (vr_union adj)) adj).
Proof. exact gpos12_roundtrip. Qed.
Print Assumptions gpos1_2_roundtrip.

(* GPOS 2.1: the map (left, right) -> PairAdjust grouped by the left glyph
   (groups_ok: lefts and, per group, rights strictly increasing 16-bit glyphs,
   no empty group).  Pair set offsets or pair counts beyond 16 bits panic
   (fixes/C08-subtable-offset-guards.diff, C08-gpos21-pair-count.diff). *)
Theorem gpos2_1_len_agrees :
  forall gs b, glyphs_ok (map fst gs) = true ->
    M_gpos21_encode gs = Ok b -> M_gpos21_len gs = Ok (lenN b).
Proof. exact gpos21_len_agrees. Qed.

Theorem gpos2_1_roundtrip :
  forall gs b pre post, groups_ok gs -> M_gpos21_encode gs = Ok b ->
    M_gpos21_read (pre ++ b ++ post) (lenN pre) = Ok (norm_groups gs).
Proof. exact gpos21_roundtrip. Qed.
Print Assumptions gpos2_1_roundtrip.

(* coverage.ReadSet accepts whatever coverage.Read accepts and returns the
   same glyphs *)
Theorem coverage_set_of_table :
  forall data pos l, M_cov_read data pos = Ok l -> M_covset_read data pos = Ok (map fst l).
Proof. exact covset_of_cov. Qed.
Print Assumptions coverage_set_of_table.

(* ---------------- feature list (gtab/featurelist.go) ---------------- *)
(* The writer refuses (panics) when a feature record offset or a lookup count
   does not fit 16 bits (the count guard is part of
   fixes/C08-list-offset-guards.diff); whatever it writes reads back. *)
Theorem featurelist_roundtrip :
  forall (fl : list feature) (b pre post : list N),
    Forall feature_ok fl -> M_fl_encode fl = Ok b ->
    M_fl_read (pre ++ b ++ post) (lenN pre) = Ok fl.
Proof. exact fl_roundtrip. Qed.
Print Assumptions featurelist_roundtrip.

Theorem featurelist_read_total :
  forall (data : list N) (pos : N), M_fl_read data pos <> Panic.
Proof. exact fl_read_total. Qed.
Print Assumptions featurelist_read_total.

(* ---------------- GDEF (opentype/gdef) ---------------- *)
(* Glyph class definition, mark attachment classes, mark glyph sets (the
   attachment list, ligature carets and the item variation store are not
   implemented by the library: offset 0).  Encode panics when an offset or the
   number of mark glyph sets does not fit 16 bits
   (fixes/C08-gdef-offset-guards.diff) or when a class table is unrepresentable;
   whatever it writes (tables below 4 GiB: the mark glyph set offsets are
   32-bit) reads back, class 0 entries dropped. *)
Theorem gdef_roundtrip :
  forall (t : gdef) (b post : list N),
    gdef_ok t -> lenN b < 4294967296 -> M_gdef_encode t = Ok b ->
    M_gdef_read (b ++ post) = Ok (gdef_norm t).
Proof. exact gdef_roundtrip_aux. Qed.
Print Assumptions gdef_roundtrip.

Theorem gdef_read_total : forall (data : list N), M_gdef_read data <> Panic.
Proof. exact gdef_read_total_aux. Qed.
Print Assumptions gdef_read_total.

(* ---------------- script list (gtab/scriptlist.go), byte level ---------------- *)
(* The BCP 47 <-> OpenType tag conversion (x/text, property C14) is abstracted:
   the encoder's input are the already converted entries grouped by script,
   [conv_ok script lang] says that otfToBCP47 accepts a pair.  For entries
   with 4-byte tags, valid feature indices (< 0xFFFF), 16-bit counts and
   convertible pairs, within the reader's work budget (one unit per LangSys
   and per feature index, 2^18 in total): whatever the encoder writes - it
   panics when an offset or count does not fit 16 bits
   (fixes/C08-list-offset-guards.diff) - the reader turns back into exactly
   the assignments info[(script, lang)] = LangSys, in order, the default
   LangSys (language "") of a script first. *)
Theorem scriptlist_roundtrip :
  forall (conv_ok : list N -> list N -> bool) (es : list script_entry) (b pre post : list N),
    Forall (entry_rd_ok conv_ok) es -> total_work es <= maxWork ->
    M_sl_encode es = Ok b ->
    M_sl_read conv_ok (pre ++ b ++ post) (lenN pre) = Ok (flat_map entry_assignments es).
Proof. exact sl_roundtrip. Qed.
Print Assumptions scriptlist_roundtrip.

Theorem scriptlist_read_total :
  forall conv_ok (data : list N) (pos : N), M_sl_read conv_ok data pos <> Panic.
Proof. exact sl_read_total. Qed.
Print Assumptions scriptlist_read_total.
