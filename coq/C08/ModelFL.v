(* C08/ModelFL.v — executable model of gtab.FeatureListInfo.encode and
   readFeatureList (featurelist.go), with fixes/C08-list-offset-guards.diff
   applied (a feature with more than 65535 lookup indices is refused).
   A feature is (tag bytes, lookup indices). *)
From Coq Require Import List NArith ZArith Bool Lia.
From Common Require Import Bytes Outcome.
From C08 Require Import Model ModelSub.
Import ListNotations.
Local Open Scope N_scope.

Definition feature := (list N * list N)%type.

(* offs[i] = uint16(totalSize); totalSize += 4 + 2*len(f.Lookups) *)
Fixpoint fl_offs (fl : list feature) (off : N) : list N :=
  match fl with [] => [] | f :: r => off :: fl_offs r (off + 4 + 2 * lenN (snd f)) end.

(* tag[0], tag[1], tag[2], tag[3] of []byte(f.Tag): index out of range when shorter *)
Definition tag4 (t : list N) : outcome (list N) :=
  match t with a :: b :: c :: d :: _ => Ok [a; b; c; d] | _ => Panic end.

Fixpoint fl_records (fl : list feature) (offs : list N) : outcome (list N) :=
  match fl, offs with
  | f :: r, o :: ro =>
    t <- tag4 (fst f) ;; tl <- fl_records r ro ;; Ok (t ++ be16 o ++ tl)
  | _, _ => Ok []
  end.

Definition fl_body (f : feature) : list N :=
  [0; 0] ++ be16 (lenN (snd f)) ++ flat_map be16 (snd f).      (* featureParamsOffset = 0 *)

Definition M_fl_encode (fl : list feature) : outcome (list N) :=
  let n := lenN fl in
  let offs := fl_offs fl (2 + 6 * n) in
  if existsb (fun f => 65535 <? lenN (snd f)) fl then Panic       (* "too many lookups in feature" *)
  else if 65535 <? last offs 0 then Panic                          (* "featureListInfo too large" *)
  else
    recs <- fl_records fl offs ;;
    Ok (be16 n ++ recs ++ flat_map fl_body fl).

(* the record array: featureCount x (tag, offset) *)
Fixpoint fl_read_records (n : nat) (r : list N) : outcome (list (list N * N)) :=
  match n with
  | O => Ok []
  | S n' =>
    match r with
    | a :: b :: c :: d :: e :: f :: r' =>
      tl <- fl_read_records n' r' ;; Ok (([a; b; c; d], w16 e f) :: tl)
    | _ => Err
    end
  end.

Fixpoint fl_read_bodies (data : list N) (pos : N) (recs : list (list N * N)) (totalSize : N)
  : outcome (list feature) :=
  match recs with
  | [] => Ok []
  | (tag, offs) :: r =>
    match seek data (pos + offs) with
    | _ :: _ :: c :: d :: rest =>
      let cnt := w16 c d in
      if 65535 <? totalSize then Err                      (* "feature list overflow" *)
      else
        x <- rd_u16s (N.to_nat cnt) rest ;;
        tl <- fl_read_bodies data pos r (totalSize + 4 + 2 * cnt) ;;
        Ok ((tag, fst x) :: tl)
    | _ => Err
    end
  end.

Definition M_fl_read (data : list N) (pos : N) : outcome (list feature) :=
  match seek data pos with
  | a :: b :: r =>
    recs <- fl_read_records (N.to_nat (w16 a b)) r ;;
    fl_read_bodies data pos recs (2 + 6 * lenN recs)
  | _ => Err
  end.

(* specification side: a Feature has a 4-byte tag and 16-bit lookup indices *)
Definition feature_ok (f : feature) : Prop :=
  length (fst f) = 4%nat /\ Forall (fun b => b < 256) (fst f) /\ gids_ok (snd f).
