(* C08/Proofs_gdef.v — the GDEF round trip. *)
From Coq Require Import List NArith ZArith Bool Lia.
From Coq Require Import ZifyBool ZifyNat ZifyN.
From Common Require Import Bytes Outcome.
From C08 Require Import Model ModelCD ModelSub ModelGDEF Proofs Proofs_cd Proofs_sub.
Import ListNotations.
Local Open Scope N_scope.
Ltac Zify.zify_post_hook ::= Z.div_mod_to_equations.

Lemma lenN_be32 x : lenN (be32 x) = 4.
Proof. reflexivity. Qed.

(* ---- optional class definition tables ---- *)
Lemma opt_len_bytes t bts : opt_cd_ok t -> opt_bytes t = Ok bts -> opt_len t = lenN bts.
Proof.
  destruct t as [x|]; cbn [opt_cd_ok opt_bytes opt_len]; intros Hok H.
  - apply cd_len_agrees; assumption.
  - apply ok_inj in H. now subst bts.
Qed.

Lemma rd_opt_ok t pre bts post off :
  opt_cd_ok t -> opt_bytes t = Ok bts ->
  off = (match t with Some _ => lenN pre | None => 0 end) -> lenN pre <> 0 ->
  rd_opt_cd (pre ++ bts ++ post) off = Ok (option_map S_cd_nonzero t).
Proof.
  intros Hok Hb -> Hne. unfold rd_opt_cd. destruct t as [x|]; cbn [opt_cd_ok opt_bytes option_map] in *.
  - replace (lenN pre =? 0) with false by lia.
    unfold lenN. rewrite (cd_roundtrip x bts pre post Hok Hb). reflexivity.
  - reflexivity.
Qed.

(* ---- the mark glyph sets ---- *)
Lemma set_covs_length sets : forall covs, set_covs sets = Ok covs -> length covs = length sets.
Proof.
  induction sets as [|s r IH]; intros covs; cbn [set_covs].
  - intros H. apply ok_inj in H. now subst.
  - destruct (M_cov_encode (S_cov_table s)) as [c| | |]; cbn [obind]; try discriminate.
    destruct (set_covs r) as [tl| | |] eqn:E; cbn [obind]; try discriminate.
    intros H. apply ok_inj in H. subst covs. cbn [length]. now rewrite (IH tl eq_refl).
Qed.

Lemma mgs_offs_length covs : forall off, length (mgs_offs covs off) = length covs.
Proof. induction covs as [|c r IH]; intros off; cbn [mgs_offs length]; [reflexivity|]. now rewrite IH. Qed.

Lemma lenN_concat_cons (c : list N) r : lenN (concat (c :: r)) = lenN c + lenN (concat r).
Proof. cbn [concat]. apply lenN_app. Qed.

Lemma mgs_offs_bound covs : forall off,
  Forall (fun o => o <= off + lenN (concat covs)) (mgs_offs covs off).
Proof.
  induction covs as [|c r IH]; intros off; cbn [mgs_offs]; constructor.
  - lia.
  - rewrite lenN_concat_cons. eapply Forall_impl; [|apply IH]. cbv beta. intros; lia.
Qed.

Lemma rd_u32s_flat l : forall rest,
  Forall (fun x => x < 4294967296) l ->
  rd_u32s (length l) (flat_map be32 l ++ rest) = Ok l.
Proof.
  induction l as [|x l IH]; intros rest H; cbn [length rd_u32s flat_map app]; [reflexivity|].
  apply Forall_cons_iff in H. destruct H as [Hx H].
  rewrite <- app_assoc. unfold be32 at 1. cbn [app]. rewrite (IH rest H). cbn [obind].
  do 2 f_equal. lia.
Qed.

Lemma rd_sets_at_ok P tail sets : forall covs A off,
  set_covs sets = Ok covs -> Forall set_ok sets -> lenN A = P + off ->
  rd_sets_at (A ++ concat covs ++ tail) P (mgs_offs covs off) = Ok sets.
Proof.
  induction sets as [|s r IH]; intros covs A off Hc Hok HA; cbn [set_covs] in Hc.
  - apply ok_inj in Hc. subst covs. reflexivity.
  - destruct (M_cov_encode (S_cov_table s)) as [c| | |] eqn:Ec; cbn [obind] in Hc; try discriminate.
    destruct (set_covs r) as [tl| | |] eqn:Et; cbn [obind] in Hc; try discriminate.
    apply ok_inj in Hc. subst covs.
    apply Forall_cons_iff in Hok. destruct Hok as [[Hs Hg] Hok].
    cbn [mgs_offs rd_sets_at concat].
    destruct (cov_roundtrip s A (concat tl ++ tail) Hs Hg) as (c' & Ec' & Hr).
    rewrite Ec in Ec'. apply ok_inj in Ec'. subst c'.
    rewrite <- app_assoc.
    rewrite <- HA. unfold lenN at 1.
    rewrite (covset_of_cov _ _ _ Hr). cbn [obind].
    unfold S_cov_pairs. rewrite map_fst_cov_pairs.
    specialize (IH tl (A ++ c) (off + lenN c) eq_refl Hok).
    rewrite <- app_assoc in IH. rewrite IH; [reflexivity|].
    rewrite lenN_app, HA. lia.
Qed.

Lemma seek_blen_local ba x : seek (ba ++ x) (lenN ba) = x.
Proof. unfold lenN. apply seek_app. Qed.

Lemma lenN_flat_be32 l : lenN (flat_map be32 l) = 4 * lenN l.
Proof.
  induction l as [|x l IH]; cbn [flat_map]; [reflexivity|].
  rewrite lenN_app, IH, lenN_be32, lenN_cons. lia.
Qed.

(* ---- the table ---- *)
Lemma gdef_roundtrip_aux t b post :
  gdef_ok t -> lenN b < 4294967296 -> M_gdef_encode t = Ok b ->
  M_gdef_read (b ++ post) = Ok (gdef_norm t).
Proof.
  intros (Hgc & Hmac & Hsets) Hsize. unfold M_gdef_encode.
  destruct t as [gc mac sets]. cbn [g_gc g_mac g_sets] in *.
  set (hdr := match sets with Some _ => 14 | None => 12 end).
  set (version := match sets with Some _ => 65538 | None => 65536 end).
  set (gcOff := match gc with Some _ => hdr | None => 0 end).
  set (t1 := hdr + opt_len gc).
  set (macOff := match mac with Some _ => t1 | None => 0 end).
  set (t2 := t1 + opt_len mac).
  set (mgsOff := match sets with Some _ => t2 | None => 0 end).
  destruct (match sets with Some ss => set_covs ss | None => Ok [] end) as [covs| | |] eqn:Ecovs;
    cbn [obind]; try discriminate.
  destruct ((65535 <? macOff) || (65535 <? mgsOff) || (65535 <? lenN covs)) eqn:Hguard; [discriminate|].
  destruct (opt_bytes gc) as [gcb| | |] eqn:Egc; cbn [obind]; try discriminate.
  destruct (opt_bytes mac) as [macb| | |] eqn:Emac; cbn [obind]; try discriminate.
  intros H. apply ok_inj in H.
  pose proof (opt_len_bytes gc gcb Hgc Egc) as Lgc.
  pose proof (opt_len_bytes mac macb Hmac Emac) as Lmac.
  assert (Hhdr : hdr = 12 \/ hdr = 14) by (unfold hdr; destruct sets; auto).
  assert (HgcOff : gcOff < 65536) by (unfold gcOff; destruct gc; lia).
  set (mgsfield := match sets with Some _ => be16 mgsOff | None => [] end) in *.
  set (mgsb := match sets with
               | Some _ => [0; 1] ++ be16 (lenN covs) ++ flat_map be32 (mgs_offs covs (4 + 4 * lenN covs)) ++ concat covs
               | None => [] end) in *.
  set (H12 := be32 version ++ be16 gcOff ++ [0; 0; 0; 0] ++ be16 macOff) in *.
  assert (Hb : b = (H12 ++ mgsfield) ++ gcb ++ macb ++ mgsb)
    by (rewrite <- H; unfold H12; now rewrite <- !app_assoc).
  assert (LH : lenN (H12 ++ mgsfield) = hdr).
  { unfold H12, mgsfield, hdr. destruct sets; lens; rewrite ?lenN_be32; lia. }
  clear H. subst b.
  (* the twelve header bytes *)
  unfold M_gdef_read.
  assert (Hver : be32 version = [0; 1; 0; match sets with Some _ => 2 | None => 0 end])
    by (unfold version; destruct sets; reflexivity).
  unfold H12 at 1. rewrite Hver. rewrite <- !app_assoc. cbn [be16 app].
  change (w16 0 1 =? 1) with true. cbn [negb orb].
  rewrite !w16_be16_eq by lia.
  set (minor := match sets with Some _ => 2 | None => 0 end).
  replace (negb ((w16 0 minor =? 0) || (w16 0 minor =? 2) || (w16 0 minor =? 3))) with false
    by (unfold minor; destruct sets; reflexivity).
  replace (3 <=? w16 0 minor) with false by (unfold minor; destruct sets; reflexivity).
  (* fold the data back *)
  set (D := (H12 ++ mgsfield) ++ gcb ++ macb ++ mgsb ++ post).
  assert (HD : H12 ++ mgsfield ++ gcb ++ macb ++ mgsb ++ post = D)
    by (unfold D; now rewrite <- !app_assoc).
  (* the mark glyph sets offset *)
  assert (Hx : (if 2 <=? w16 0 minor
                then match mgsfield ++ gcb ++ macb ++ mgsb ++ post with
                     | m :: n :: r' => Ok (w16 m n, r') | _ => Err end
                else Ok (0, mgsfield ++ gcb ++ macb ++ mgsb ++ post)) =
               Ok (mgsOff, gcb ++ macb ++ mgsb ++ post)).
  { unfold minor, mgsfield, mgsOff. destruct sets; [|reflexivity].
    change (2 <=? w16 0 2) with true. cbv iota. cbn [be16 app]. now rewrite w16_be16_eq by lia. }
  rewrite Hx. cbn [obind fst snd]. rewrite HD.
  (* glyph class *)
  assert (Egc' : rd_opt_cd D gcOff = Ok (option_map S_cd_nonzero gc)).
  { unfold D.
    apply rd_opt_ok; try assumption; [unfold gcOff; now rewrite LH|lia]. }
  rewrite Egc'. cbn [obind].
  assert (Emac' : rd_opt_cd D macOff = Ok (option_map S_cd_nonzero mac)).
  { unfold D. replace ((H12 ++ mgsfield) ++ gcb ++ macb ++ mgsb ++ post)
      with (((H12 ++ mgsfield) ++ gcb) ++ macb ++ (mgsb ++ post)) by (now rewrite <- !app_assoc).
    apply rd_opt_ok; try assumption; [|rewrite lenN_app; lia].
    unfold macOff, t1. rewrite lenN_app, LH, Lgc. reflexivity. }
  rewrite Emac'. cbn [obind].
  unfold gdef_norm. cbn [g_gc g_mac g_sets].
  destruct sets as [ss|].
  - (* version 1.2 *)
    assert (Hoff : mgsOff = lenN (((H12 ++ mgsfield) ++ gcb) ++ macb)).
    { unfold mgsOff, t2, t1. rewrite !lenN_app in *. rewrite LH. lia. }
    replace (mgsOff =? 0) with false by lia.
    assert (Hseek : seek D mgsOff = mgsb ++ post).
    { unfold D. rewrite Hoff.
      replace ((H12 ++ mgsfield) ++ gcb ++ macb ++ mgsb ++ post)
        with ((((H12 ++ mgsfield) ++ gcb) ++ macb) ++ mgsb ++ post) by (now rewrite <- !app_assoc).
      apply seek_blen_local. }
    rewrite Hseek. unfold mgsb. rewrite <- !app_assoc. cbn [be16 app].
    change (w16 0 1 =? 1) with true. cbn [negb].
    rewrite w16_be16_eq by lia.
    pose proof (set_covs_length ss covs Ecovs) as Hlen.
    set (offs := mgs_offs covs (4 + 4 * lenN covs)).
    assert (Hol : length offs = length covs) by apply mgs_offs_length.
    replace (N.to_nat (lenN covs)) with (length offs) by (unfold lenN; lia).
    rewrite rd_u32s_flat.
    2:{ eapply Forall_impl; [|apply mgs_offs_bound]. cbv beta. intros a Ha.
        rewrite !lenN_app in Hsize. unfold mgsb in Hsize. rewrite !lenN_app in Hsize.
        fold offs in Hsize. rewrite lenN_flat_be32, ?lenN_be16, ?lenN_cons, ?lenN_nil in Hsize.
        assert (lenN offs = lenN covs) by (unfold lenN; now rewrite Hol). lia. }
    cbn [obind].
    assert (HD2 : D = ((((H12 ++ mgsfield) ++ gcb) ++ macb) ++ [0; 1] ++ be16 (lenN covs) ++ flat_map be32 offs)
                      ++ concat covs ++ post).
    { unfold D, mgsb. now rewrite <- !app_assoc. }
    rewrite HD2. unfold offs.
    rewrite (rd_sets_at_ok mgsOff post ss covs _ (4 + 4 * lenN covs) Ecovs Hsets).
    + reflexivity.
    + rewrite lenN_app, <- Hoff. lens. rewrite lenN_flat_be32. fold offs.
      assert (lenN offs = lenN covs) by (unfold lenN; now rewrite Hol). lia.
  - replace (mgsOff =? 0) with true by reflexivity. reflexivity.
Qed.

(* ---- the reader never panics ---- *)
Lemma covset_read1_np cnt : forall r acc, covset_read1 cnt r acc <> Panic.
Proof.
  induction cnt as [|c IH]; intros r acc; cbn [covset_read1]; [discriminate|].
  destruct r as [|a [|b r']]; try discriminate. apply IH.
Qed.

Lemma covset_read2_np cnt : forall r pos prev acc, covset_read2 cnt r pos prev acc <> Panic.
Proof.
  induction cnt as [|c IH]; intros r pos prev acc; cbn [covset_read2]; [discriminate|].
  destruct r as [|a [|b [|c0 [|d [|e [|f r']]]]]]; try discriminate.
  destruct (_ || _); [discriminate|]. apply IH.
Qed.

Lemma covset_read_total data pos : M_covset_read data pos <> Panic.
Proof.
  unfold M_covset_read. destruct (seek data pos) as [|a [|b [|c [|d r]]]]; try discriminate.
  destruct (w16 a b =? 1); [apply covset_read1_np|].
  destruct (w16 a b =? 2); [apply covset_read2_np|discriminate].
Qed.

Lemma rd_u32s_np n : forall r, rd_u32s n r <> Panic.
Proof.
  induction n as [|n IH]; intros r; cbn [rd_u32s]; [discriminate|].
  destruct r as [|a [|b [|c [|d r']]]]; try discriminate.
  specialize (IH r'). destruct (rd_u32s n r'); cbn [obind]; congruence.
Qed.

Lemma rd_sets_at_np data pos offs : rd_sets_at data pos offs <> Panic.
Proof.
  induction offs as [|o r IH]; cbn [rd_sets_at]; [discriminate|].
  pose proof (covset_read_total data (pos + o)).
  destruct (M_covset_read data (pos + o)); cbn [obind]; try congruence.
  destruct (rd_sets_at data pos r); cbn [obind]; congruence.
Qed.

Lemma rd_opt_cd_np data off : rd_opt_cd data off <> Panic.
Proof.
  unfold rd_opt_cd. destruct (off =? 0); [discriminate|].
  pose proof (cd_read_total data off). destruct (M_cd_read data off); cbn [obind]; congruence.
Qed.

Lemma gdef_read_total_aux data : M_gdef_read data <> Panic.
Proof.
  unfold M_gdef_read.
  destruct data as [|a [|b [|c [|d [|e [|f [|g0 [|h [|i [|j [|k [|l r]]]]]]]]]]]]; try discriminate.
  destruct (_ || _); [discriminate|].
  destruct (2 <=? w16 c d).
  - destruct r as [|m [|n r']]; cbn [obind]; try discriminate. cbn [fst snd].
    assert (Hrest : forall X : outcome unit, X <> Panic ->
      (_ <- X ;; gc <- rd_opt_cd (a :: b :: c :: d :: e :: f :: g0 :: h :: i :: j :: k :: l :: m :: n :: r') (w16 e f) ;;
       mac <- rd_opt_cd (a :: b :: c :: d :: e :: f :: g0 :: h :: i :: j :: k :: l :: m :: n :: r') (w16 k l) ;;
       sets <- (if w16 m n =? 0 then Ok None
                else match seek (a :: b :: c :: d :: e :: f :: g0 :: h :: i :: j :: k :: l :: m :: n :: r') (w16 m n) with
                     | p :: q :: u :: v :: r2 =>
                       if negb (w16 p q =? 1) then Err
                       else offs <- rd_u32s (N.to_nat (w16 u v)) r2 ;;
                            ss <- rd_sets_at (a :: b :: c :: d :: e :: f :: g0 :: h :: i :: j :: k :: l :: m :: n :: r') (w16 m n) offs ;;
                            Ok (Some ss)
                     | _ => Err end) ;;
       Ok {| g_gc := gc; g_mac := mac; g_sets := sets |}) <> Panic).
    { intros X HX. destruct X; cbn [obind]; try congruence.
      set (D := a :: b :: c :: d :: e :: f :: g0 :: h :: i :: j :: k :: l :: m :: n :: r').
      pose proof (rd_opt_cd_np D (w16 e f)). destruct (rd_opt_cd D (w16 e f)); cbn [obind]; try congruence.
      pose proof (rd_opt_cd_np D (w16 k l)). destruct (rd_opt_cd D (w16 k l)); cbn [obind]; try congruence.
      destruct (w16 m n =? 0); cbn [obind]; [discriminate|].
      destruct (seek D (w16 m n)) as [|p [|q [|u [|v r2]]]]; cbn [obind]; try discriminate.
      destruct (negb (w16 p q =? 1)); cbn [obind]; [discriminate|].
      pose proof (rd_u32s_np (N.to_nat (w16 u v)) r2). destruct (rd_u32s _ r2) as [offs| | |]; cbn [obind]; try congruence.
      pose proof (rd_sets_at_np D (w16 m n) offs). destruct (rd_sets_at D (w16 m n) offs); cbn [obind]; congruence. }
    apply Hrest. destruct (3 <=? w16 c d); [|discriminate]. destruct r' as [|? [|? [|? [|? ?]]]]; discriminate.
  - cbn [obind fst snd].
    destruct (3 <=? w16 c d); cbn [obind].
    + destruct r as [|? [|? [|? [|? ?]]]]; cbn [obind]; try discriminate.
      all: set (D := a :: b :: c :: d :: e :: f :: g0 :: h :: i :: j :: k :: l :: _);
        pose proof (rd_opt_cd_np D (w16 e f)); destruct (rd_opt_cd D (w16 e f)); cbn [obind]; try congruence;
        pose proof (rd_opt_cd_np D (w16 k l)); destruct (rd_opt_cd D (w16 k l)); cbn [obind]; try congruence;
        discriminate.
    + set (D := a :: b :: c :: d :: e :: f :: g0 :: h :: i :: j :: k :: l :: r).
      pose proof (rd_opt_cd_np D (w16 e f)). destruct (rd_opt_cd D (w16 e f)); cbn [obind]; try congruence.
      pose proof (rd_opt_cd_np D (w16 k l)). destruct (rd_opt_cd D (w16 k l)); cbn [obind]; try congruence.
      discriminate.
Qed.
