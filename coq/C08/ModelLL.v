(* C08/ModelLL.v — executable model of gtab.LookupList.encode (chunk list,
   isTooLarge, tryReorder, positions, header/offset emission, extension
   records) and of readLookupList, over ABSTRACT subtables: a subtable is an
   opaque blob (its bytes), encodeLen = its length.

   The model mirrors opentype/gtab/lookup.go with
   fixes/C08-lookuplist-guards.diff applied:
     * encode panics when lookups + subtables > 6000 (readLookupList rejects
       such lists),
     * encode panics when a subtable offset relative to its lookup table does
       not fit 16 bits (DESIGN 5.A-14: it used to be truncated silently),
     * encode panics when extension records are needed but the extension
       lookup type is unknown (0); the type is now also inferred from
       contextual subtables (GSUB 5/6 -> 7, GPOS 7/8 -> 9) - that inference
       happens outside this model, whose input [extT] is its result.

   Chunk codes (kind | lookup << 14 | subtable) are modelled as triples; the
   two "< 1<<14" panics of the code make the bit-field encoding injective.
   Go lays the chunks out in uint32 arithmetic; the model answers OutOfFuel
   ("outside the model") when the data could reach 2^32 bytes. *)
From Coq Require Import List NArith ZArith Bool Lia.
From Common Require Import Bytes Outcome.
From Gen Require Import C08.
From C08 Require Import Model.
Import ListNotations.
Local Open Scope N_scope.

Record lookup := { lk_type : N; lk_flags : N; lk_mfs : N; lk_subs : list (list N) }.

Definition use_mfs (l : lookup) : bool := negb (N.land (lk_flags l) c08_UseMarkFilteringSet =? 0).
Definition nsubs (l : lookup) : N := N.of_nat (length (lk_subs l)).
Definition blen (b : list N) : N := N.of_nat (length b).
(* lookupHeaderLen *)
Definition hdr_len (l : lookup) : N := 6 + 2 * nsubs l + (if use_mfs l then 2 else 0).

Inductive ckind := KHeader | KTable | KSub | KExt.
Definition ckind_eqb (a b : ckind) : bool :=
  match a, b with
  | KHeader, KHeader | KTable, KTable | KSub, KSub | KExt, KExt => true
  | _, _ => false
  end.

Record chunk := { c_kind : ckind; c_t : N; c_s : N; c_size : N }.
Definition code_eqb (k : ckind) (t s : N) (c : chunk) : bool :=
  ckind_eqb k (c_kind c) && (t =? c_t c) && (s =? c_s c).

(* ------------------------------------------------------------------ *)
(* the chunk list                                                      *)

Fixpoint sub_chunks (i j : N) (subs : list (list N)) : list chunk :=
  match subs with
  | [] => []
  | b :: r => {| c_kind := KSub; c_t := i; c_s := j; c_size := blen b |} :: sub_chunks i (j + 1) r
  end.

Fixpoint lookup_chunks (i : N) (ll : list lookup) : list chunk :=
  match ll with
  | [] => []
  | l :: r =>
    {| c_kind := KTable; c_t := i; c_s := 0; c_size := hdr_len l |}
      :: sub_chunks i 0 (lk_subs l) ++ lookup_chunks (i + 1) r
  end.

Definition header_chunk (n : N) : chunk :=
  {| c_kind := KHeader; c_t := 0; c_s := 0; c_size := 2 + 2 * n |}.

Definition is_table (c : chunk) : bool := ckind_eqb (c_kind c) KTable.
Definition is_header (c : chunk) : bool := ckind_eqb (c_kind c) KHeader.

(* isTooLarge: some lookup table would start beyond 0xFFFF *)
Fixpoint too_large (cs : list chunk) (total : N) : bool :=
  match cs with
  | [] => false
  | c :: r => if is_table c && (65535 <? total) then true else too_large r (total + c_size c)
  end.

Fixpoint sum_sizes (cs : list chunk) : N :=
  match cs with [] => 0 | c :: r => c_size c + sum_sizes r end.

(* ------------------------------------------------------------------ *)
(* tryReorder                                                          *)

(* lookupSize[tCode]: all non-header chunks of lookup t *)
Fixpoint lookup_size (cs : list chunk) (t : N) : N :=
  match cs with
  | [] => 0
  | c :: r => (if negb (is_header c) && (c_t c =? t) then c_size c else 0) + lookup_size r t
  end.

(* the lookups in the order of their table chunks *)
Fixpoint table_codes (cs : list chunk) : list N :=
  match cs with
  | [] => []
  | c :: r => if is_table c then c_t c :: table_codes r else table_codes r
  end.

(* sort.SliceStable(lookups, size[i] < size[j]): stable insertion sort *)
Fixpoint ins_sorted (x : N * N) (l : list (N * N)) : list (N * N) :=
  match l with
  | [] => [x]
  | y :: r => if snd x <=? snd y then x :: l else y :: ins_sorted x r
  end.
Definition stable_sort (l : list (N * N)) : list (N * N) := fold_right ins_sorted [] l.

(* for lastPos > 0xFFFF && idx >= 0 { ... idx-- }, over lookups[len-2], ..., lookups[0] *)
Fixpoint replace_loop (cands : list (N * N)) (ll : list lookup) (lastPos : N) (repl : list N)
  : N * list N :=
  match cands with
  | [] => (lastPos, repl)
  | (t, oldSize) :: r =>
    if 65535 <? lastPos then
      match nth_error ll (N.to_nat t) with
      | Some l =>
        let newSize := hdr_len l + 8 * nsubs l in
        if newSize <? oldSize
        then replace_loop r ll (lastPos - (oldSize - newSize)) (t :: repl)
        else replace_loop r ll lastPos repl
      | None => (lastPos, repl)            (* ll[tCode>>14] is always in range *)
      end
    else (lastPos, repl)
  end.

Definition mem (t : N) (l : list N) : bool := existsb (N.eqb t) l.

(* the three output lists of the rebuilding loop *)
Fixpoint rebuild (cs : list chunk) (big : N) (repl : list N)
  : list chunk * list chunk * list chunk :=
  match cs with
  | [] => ([], [], [])
  | c :: r =>
    let '(res, moved, ext) := rebuild r big repl in
    if is_header c then (c :: res, moved, ext)
    else if c_t c =? big then (res, c :: moved, ext)
    else if mem (c_t c) repl then
      match c_kind c with
      | KSub => ({| c_kind := KExt; c_t := c_t c; c_s := c_s c; c_size := 8 |} :: res, moved, c :: ext)
      | _ => (c :: res, moved, ext)
      end
    else (c :: res, moved, ext)
  end.

Definition try_reorder (ll : list lookup) (cs : list chunk) : outcome (list chunk) :=
  let total := sum_sizes cs in
  let sizes := map (fun t => (t, lookup_size cs t)) (table_codes cs) in
  let sorted := stable_sort sizes in
  match rev sorted with
  | [] => Panic                                   (* lookups[len(lookups)-1] *)
  | (big, bigSize) :: cands =>
    let '(lastPos, repl) := replace_loop cands ll (total - bigSize) [] in
    if 65535 <? lastPos then Panic                (* "too much data for lookup list table" *)
    else
      let '(res, moved, ext) := rebuild cs big repl in
      Ok (res ++ moved ++ ext)
  end.

(* ------------------------------------------------------------------ *)
(* positions and emission                                              *)

(* chunkPos[code] *)
Fixpoint find_pos (k : ckind) (t s : N) (cs : list chunk) (pos : N) : option N :=
  match cs with
  | [] => None
  | c :: r => if code_eqb k t s c then Some pos else find_pos k t s r (pos + c_size c)
  end.

Definition pos_or0 (o : option N) : N := match o with Some p => p | None => 0 end.

Fixpoint table_offsets (n : nat) (i : N) (layout : list chunk) : list N :=
  match n with
  | O => []
  | S n' => be16 (pos_or0 (find_pos KTable i 0 layout 0)) ++ table_offsets n' (i + 1) layout
  end.

(* the subtable offsets of one lookup table *)
Fixpoint sub_offsets (n : nat) (i j base : N) (layout : list chunk) : outcome (list N) :=
  match n with
  | O => Ok []
  | S n' =>
    let subtablePos :=
      match find_pos KExt i j layout 0 with
      | Some p => p
      | None => pos_or0 (find_pos KSub i j layout 0)
      end in
    let off := (subtablePos + 4294967296 - base) mod 4294967296 in     (* uint32 subtraction *)
    if c08_maxSubtableOffset <? off then Panic
    else tl <- sub_offsets n' i (j + 1) base layout ;; Ok (be16 off ++ tl)
  end.

Definition chunk_bytes (ll : list lookup) (extT : N) (layout : list chunk) (c : chunk)
  : outcome (list N) :=
  match c_kind c with
  | KHeader =>
    Ok (be16 (N.of_nat (length ll)) ++ table_offsets (length ll) 0 layout)
  | KTable =>
    match nth_error ll (N.to_nat (c_t c)) with
    | None => Panic
    | Some li =>
      let replaced := match find_pos KExt (c_t c) 0 layout 0 with Some _ => true | None => false end in
      if replaced && (extT =? 0) then Panic
      else
        let lookupType := if replaced then extT else lk_type li in
        let base := pos_or0 (find_pos KTable (c_t c) 0 layout 0) in
        offs <- sub_offsets (length (lk_subs li)) (c_t c) 0 base layout ;;
        Ok (be16 lookupType ++ be16 (lk_flags li) ++ be16 (nsubs li) ++ offs ++
            (if use_mfs li then be16 (lk_mfs li) else []))
    end
  | KExt =>
    match nth_error ll (N.to_nat (c_t c)) with
    | None => Panic
    | Some li =>
      let pos := pos_or0 (find_pos KExt (c_t c) (c_s c) layout 0) in
      let extPos := pos_or0 (find_pos KSub (c_t c) (c_s c) layout 0) in
      Ok ([0; 1] ++ be16 (lk_type li) ++ be32 ((extPos + 4294967296 - pos) mod 4294967296))
    end
  | KSub =>
    match nth_error ll (N.to_nat (c_t c)) with
    | None => Panic
    | Some li =>
      match nth_error (lk_subs li) (N.to_nat (c_s c)) with
      | None => Panic
      | Some b => Ok b
      end
    end
  end.

Fixpoint emit (ll : list lookup) (extT : N) (layout cs : list chunk) : outcome (list N) :=
  match cs with
  | [] => Ok []
  | c :: r =>
    b <- chunk_bytes ll extT layout c ;;
    tl <- emit ll extT layout r ;;
    Ok (b ++ tl)
  end.

Fixpoint total_subs (ll : list lookup) : N :=
  match ll with [] => 0 | l :: r => nsubs l + total_subs r end.

(* the layout: chunk list, reordered when needed *)
Definition M_ll_layout (ll : list lookup) : outcome (list chunk) :=
  let n := N.of_nat (length ll) in
  if c08_maxLookups <=? n then Panic                               (* "too many lookup tables" *)
  else if c08_maxObjectsWrite <? n + total_subs ll then Panic      (* "too many lookup (sub-)tables" *)
  else if existsb (fun l => c08_maxSubtables <=? nsubs l) ll then Panic   (* "too many subtables" *)
  else
    let cs := header_chunk n :: lookup_chunks 0 ll in
    if 4294967296 <=? sum_sizes cs + 8 * total_subs ll then OutOfFuel    (* uint32 layout arithmetic *)
    else if too_large cs 0 then try_reorder ll cs else Ok cs.

Definition M_ll_encode (ll : list lookup) (extT : N) : outcome (list N) :=
  layout <- M_ll_layout ll ;; emit ll extT layout layout.

(* ------------------------------------------------------------------ *)
(* readLookupList with the abstract subtable reader                    *)

Record lookup_obs := { lo_type : N; lo_flags : N; lo_mfs : N; lo_subpos : list N }.

Fixpoint read_u16s (n : nat) (r : list N) : outcome (list N * list N) :=
  match n with
  | O => Ok ([], r)
  | S n' =>
    match r with
    | a :: b :: r' => x <- read_u16s n' r' ;; Ok (w16 a b :: fst x, snd x)
    | _ => Err
    end
  end.

(* the extension record at [p]: format word 1, type, 32-bit offset *)
Definition read_ext (data : list N) (p : N) : outcome (N * N) :=
  match seek data p with
  | a :: b :: c :: d :: e :: f :: g :: h :: _ =>
    if w16 a b =? 1 then Ok (w16 c d, e * 16777216 + f * 65536 + g * 256 + h) else Err
  | _ => Err
  end.

Fixpoint read_exts (data : list N) (tablePos : N) (offs : list N) : outcome (list (N * N)) :=
  match offs with
  | [] => Ok []
  | o :: r =>
    x <- read_ext data (tablePos + o) ;;
    tl <- read_exts data tablePos r ;;
    Ok (x :: tl)
  end.

Fixpoint resolve_exts (tablePos tp : N) (offs : list N) (exts : list (N * N)) : outcome (list N) :=
  match offs, exts with
  | o :: ro, (t, eo) :: re =>
    if t =? tp then tl <- resolve_exts tablePos tp ro re ;; Ok (tablePos + o + eo :: tl) else Err
  | _, _ => Ok []
  end.

Definition read_lookup (data : list N) (tablePos extT : N) (objs : N) : outcome (lookup_obs * N) :=
  match seek data tablePos with
  | a :: b :: c :: d :: e :: f :: r =>
    let lookupType := w16 a b in
    let flags := w16 c d in
    let cnt := w16 e f in
    let objs' := objs + 1 + cnt in
    if c08_maxObjectsRead <? objs' then Err
    else
      x <- read_u16s (N.to_nat cnt) r ;;
      let offs := fst x in
      m <- (if negb (N.land flags c08_UseMarkFilteringSet =? 0)
            then match snd x with a' :: b' :: _ => Ok (w16 a' b') | _ => Err end
            else Ok 0) ;;
      if (lookupType =? extT) && negb (cnt =? 0) then
        exts <- read_exts data tablePos offs ;;
        match exts with
        | [] => Err
        | (tp, _) :: _ =>
          if tp =? lookupType then Err
          else
            ps <- resolve_exts tablePos tp offs exts ;;
            Ok ({| lo_type := tp; lo_flags := flags; lo_mfs := m; lo_subpos := ps |}, objs')
        end
      else
        Ok ({| lo_type := lookupType; lo_flags := flags; lo_mfs := m;
               lo_subpos := map (fun o => tablePos + o) offs |}, objs')
  | _ => Err
  end.

Fixpoint read_lookups (data : list N) (pos extT : N) (offs : list N) (objs : N)
  : outcome (list lookup_obs) :=
  match offs with
  | [] => Ok []
  | o :: r =>
    x <- read_lookup data (pos + o) extT objs ;;
    tl <- read_lookups data pos extT r (snd x) ;;
    Ok (fst x :: tl)
  end.

Definition M_ll_read (data : list N) (pos extT : N) : outcome (list lookup_obs) :=
  match seek data pos with
  | a :: b :: r =>
    x <- read_u16s (N.to_nat (w16 a b)) r ;;
    read_lookups data pos extT (fst x) 0
  | _ => Err
  end.

(* ------------------------------------------------------------------ *)
(* findTypeLoop: the extension lookup type, from the kinds of the subtables
   (1 = GSUB-only type, 2 = GPOS-only type, 3 = contextual (shared), other =
   unknown) in list order *)

Fixpoint find_ext_subs (tp : N) (ks : list N) : option N :=
  match ks with
  | [] => None
  | k :: r =>
    if k =? 1 then Some c08_gsubExt
    else if k =? 2 then Some c08_gposExt
    else if k =? 3 then
      if (tp =? 5) || (tp =? 6) then Some c08_gsubExt
      else if (tp =? 7) || (tp =? 8) then Some c08_gposExt
      else find_ext_subs tp r
    else find_ext_subs tp r
  end.

Fixpoint M_find_ext (ll : list (N * list N)) : N :=
  match ll with
  | [] => 0
  | (tp, ks) :: r =>
    match find_ext_subs tp ks with
    | Some e => e
    | None => M_find_ext r
    end
  end.

(* ------------------------------------------------------------------ *)
(* specification side                                                  *)

(* the bytes [x] sit at position [p] of [data] *)
Definition starts (data : list N) (p : N) (x : list N) : Prop := exists rest, seek data p = x ++ rest.

(* type invariants of a LookupTable (uint16 fields); a real lookup never has
   the extension lookup type as its own type *)
Definition lookup_ok (extT : N) (l : lookup) : Prop :=
  lk_type l < 65536 /\ lk_flags l < 65536 /\ lk_mfs l < 65536 /\ lk_type l <> extT.

(* what the reader must return for a lookup: type, flags, mark filtering set
   (written only when the flag is set) and, for every subtable, a position at
   which exactly that subtable's bytes start *)
Definition lookup_matches (data : list N) (l : lookup) (o : lookup_obs) : Prop :=
  lo_type o = lk_type l /\ lo_flags o = lk_flags l /\
  lo_mfs o = (if use_mfs l then lk_mfs l else 0) /\
  Forall2 (fun b p => starts data p b) (lk_subs l) (lo_subpos o).
