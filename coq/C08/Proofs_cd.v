(* C08/Proofs_cd.v — lemmas about the classdef model. *)
From Coq Require Import List NArith ZArith Bool Lia.
From Coq Require Import ZifyBool ZifyNat ZifyN.
From Common Require Import Bytes Outcome.
From C08 Require Import Model ModelCD Proofs.
Import ListNotations.
Local Open Scope N_scope.
Ltac Zify.zify_post_hook ::= Z.div_mod_to_equations.

(* ------------------------------------------------------------------ *)
(* auxiliary functions used only in statements and proofs              *)

Fixpoint rng (n : nat) (g c : N) : list (N * N) :=
  match n with O => [] | S n' => (g, c) :: rng n' (g + 1) c end.

(* number of records the emitting loop writes from a given state *)
Fixpoint seg_n (cl : list N) (inSeg : bool) (segClass : N) : N :=
  match cl with
  | [] => if inSeg then 1 else 0
  | c :: r =>
    let closing := inSeg && negb (c =? segClass) in
    (if closing then 1 else 0) +
    (let ins := if closing then false else inSeg in
     if ins then seg_n r true segClass
     else if c =? 0 then seg_n r false segClass
     else seg_n r true c)
  end.

Definition b2n (b : bool) : N := if b then 1 else 0.

Definition classes_ok (cl : list N) : bool := forallb (fun c => c <? 65536) cl.

(* ------------------------------------------------------------------ *)
(* seg_n, seg_loop, seg_emit                                           *)

Lemma seg_n_ge cl : forall ins cls, b2n ins <= seg_n cl ins cls.
Proof.
  induction cl as [|c r IH]; intros ins cls; cbn [seg_n]; [destruct ins; cbn; lia|].
  destruct ins; cbn [andb b2n]; [|lia].
  destruct (c =? cls); cbn [negb].
  - specialize (IH true cls). cbn [b2n] in IH. lia.
  - lia.
Qed.

Lemma seg_loop_spec cl : forall f1 sc ins cls sc2 ins2,
  seg_loop cl f1 sc ins cls = (sc2, ins2) ->
  sc2 + b2n ins2 = sc + seg_n cl ins cls \/
  (f1 <= 4 + 6 * (sc2 + b2n ins2) /\ sc2 + b2n ins2 <= sc + seg_n cl ins cls).
Proof.
  induction cl as [|c r IH]; intros f1 sc ins cls sc2 ins2 H; cbn [seg_loop] in H.
  - injection H as <- <-. left. cbn [seg_n]. destruct ins; reflexivity.
  - destruct (4 + 6 * sc <? f1) eqn:Hc.
    + cbn [seg_n].
      destruct (ins && negb (c =? cls)) eqn:Hcl.
      * destruct (c =? 0); apply IH in H; lia.
      * destruct ins.
        -- apply IH in H; lia.
        -- destruct (c =? 0); apply IH in H; lia.
    + injection H as <- <-. right.
      pose proof (seg_n_ge (c :: r) ins cls). destruct ins; cbn [b2n] in *; lia.
Qed.

Lemma seg_rec_length s e c : length (seg_rec s e c) = 6%nat.
Proof. reflexivity. Qed.

Lemma seg_emit_length cl : forall i ins ss sc mx,
  N.of_nat (length (seg_emit cl i ins ss sc mx)) = 6 * seg_n cl ins sc.
Proof.
  induction cl as [|c r IH]; intros i ins ss sc mx; cbn [seg_emit seg_n].
  - destruct ins; reflexivity.
  - rewrite app_length, Nnat.Nat2N.inj_add.
    destruct (ins && negb (c =? sc)) eqn:Hcl.
    + rewrite seg_rec_length. destruct (c =? 0); rewrite IH; lia.
    + cbn [length]. destruct ins; [rewrite IH; lia|].
      destruct (c =? 0); rewrite IH; lia.
Qed.

Lemma seg_n_segs cl : forall ins cls,
  (ins = true -> cls <> 0) ->
  seg_n cl ins cls = S_cd_segs cl (if ins then cls else 0) + b2n ins.
Proof.
  induction cl as [|c r IH]; intros ins cls Hne; cbn [seg_n S_cd_segs].
  - destruct ins; reflexivity.
  - destruct ins; cbn [andb b2n].
    + specialize (Hne eq_refl).
      destruct (c =? cls) eqn:E1; cbn [negb].
      * rewrite (IH true cls) by auto. cbn [b2n].
        apply N.eqb_eq in E1. subst c.
        replace (cls =? 0) with false by lia. cbn [orb]. lia.
      * destruct (c =? 0) eqn:E0; cbn [orb].
        -- rewrite (IH false cls) by discriminate. cbn [b2n].
           apply N.eqb_eq in E0. subst c. lia.
        -- rewrite (IH true c) by (intros _; lia). cbn [b2n]. lia.
    + destruct (c =? 0) eqn:E0; cbn [orb].
      * rewrite (IH false cls) by discriminate. cbn [b2n].
        apply N.eqb_eq in E0. subst c. lia.
      * rewrite (IH true c) by (intros _; lia). cbn [b2n].
        replace (c =? 0) with false by lia. lia.
Qed.

(* ------------------------------------------------------------------ *)
(* the reader's result store                                           *)

Definition head_lt (g : N) (acc : list (N * N)) : bool :=
  match acc with [] => true | (k, _) :: _ => k <? g end.

Lemma ins_desc_fresh g c acc : head_lt g acc = true -> ins_desc g c acc = (g, c) :: acc.
Proof.
  destruct acc as [|[k v] tl]; [reflexivity|]. cbn [head_lt ins_desc]. intros ->. reflexivity.
Qed.

Lemma ins_range_fresh n : forall g c acc,
  head_lt g acc = true -> ins_range n g c acc = rev (rng n g c) ++ acc.
Proof.
  induction n as [|n IH]; intros g c acc H; cbn [ins_range rng rev]; [reflexivity|].
  rewrite ins_desc_fresh by exact H.
  rewrite IH by (cbn [head_lt]; lia).
  rewrite <- app_assoc. reflexivity.
Qed.

Lemma rng_snoc n : forall g c, rng (S n) g c = rng n g c ++ [(g + N.of_nat n, c)].
Proof.
  induction n as [|n IH]; intros g c.
  - cbn [rng app]. change (N.of_nat 0) with 0. now rewrite N.add_0_r.
  - change (rng (S (S n)) g c) with ((g, c) :: rng (S n) (g + 1) c).
    rewrite IH. cbn [rng app].
    replace (g + N.of_nat (S n)) with (g + 1 + N.of_nat n) by lia. reflexivity.
Qed.

Lemma head_lt_rng n : forall g c acc b,
  head_lt g acc = true -> g + N.of_nat n <= b -> head_lt b (rev (rng n g c) ++ acc) = true.
Proof.
  intros g c acc b Hh Hb. destruct n as [|n].
  - cbn [rng rev app]. destruct acc as [|[k v] tl]; [reflexivity|]. cbn [head_lt] in *. lia.
  - rewrite rng_snoc, rev_app_distr. cbn [rev app head_lt]. lia.
Qed.

Lemma head_lt_weaken a b acc : a <= b -> head_lt a acc = true -> head_lt b acc = true.
Proof. destruct acc as [|[k v] tl]; [reflexivity|]. cbn [head_lt]. lia. Qed.

Lemma cd_read2_O r first prevEnd acc : cd_read2 0 r first prevEnd acc = Ok (rev acc).
Proof. cbn [cd_read2]. now rewrite rev_append_rev, app_nil_r. Qed.

Lemma cd_read2_S c a b c0 d e f r' first prevEnd acc :
  cd_read2 (S c) (a :: b :: c0 :: d :: e :: f :: r') first prevEnd acc =
  if negb first && (w16 a b <=? prevEnd) then Err
  else cd_read2 c r' false (w16 c0 d)
         (if w16 e f =? 0 then acc
          else ins_range (N.to_nat (w16 c0 d + 1 - w16 a b)) (w16 a b) (w16 e f) acc).
Proof. reflexivity. Qed.

(* reading one emitted record *)
Lemma read_seg_rec cnt s e c rest first prevEnd acc :
  s <= e -> e < 65536 -> c < 65536 -> c <> 0 ->
  (first = false -> prevEnd < s) -> head_lt s acc = true ->
  cd_read2 (S cnt) (seg_rec s e c ++ rest) first prevEnd acc =
  cd_read2 cnt rest false e (rev (rng (N.to_nat (e + 1 - s)) s c) ++ acc).
Proof.
  intros Hse He Hc Hc0 Hp Hh. unfold seg_rec. rewrite <- !app_assoc. cbn [be16 app].
  rewrite cd_read2_S, !w16_be16_eq by lia.
  replace (negb first && (s <=? prevEnd)) with false
    by (destruct first; cbn [negb andb]; [reflexivity|specialize (Hp eq_refl); lia]).
  replace (c =? 0) with false by lia.
  rewrite ins_range_fresh by exact Hh. reflexivity.
Qed.

(* the emitting loop read back: [i] current glyph, pending range
   segStart..i-1 when inSeg *)
Ltac side :=
  cbv beta iota;
  first
    [ assumption
    | lia
    | discriminate
    | (intros _; repeat split; lia)
    | (apply head_lt_rng; [assumption|lia])
    | (eapply head_lt_weaken; [|eassumption]; lia)
    | (let Hf := fresh in intros Hf;
       match goal with Hp : _ = false -> _ |- _ => specialize (Hp Hf) end; lia) ].

Lemma seg_emit_read cl : forall post i ins ss sc mx first prevEnd acc,
  classes_ok cl = true -> i + N.of_nat (length cl) = mx + 1 -> mx < 65536 ->
  (ins = true -> ss < i /\ sc <> 0 /\ sc < 65536) ->
  head_lt (if ins then ss else i) acc = true ->
  (first = false -> prevEnd < (if ins then ss else i)) ->
  cd_read2 (N.to_nat (seg_n cl ins sc)) (seg_emit cl i ins ss sc mx ++ post) first prevEnd acc =
  Ok (rev acc ++ (if ins then rng (N.to_nat (i - ss)) ss sc else []) ++ sparse cl i).
Proof.
  induction cl as [|c r IH]; intros post i ins ss sc mx first prevEnd acc Hcl Hlen Hmx Hins Hh Hp.
  - cbn [seg_emit seg_n sparse length] in *. destruct ins; cbv beta iota in Hh, Hp.
    + destruct (Hins eq_refl) as (H1 & H2 & H3).
      change (N.to_nat 1) with 1%nat.
      rewrite read_seg_rec by side.
      rewrite cd_read2_O. rewrite rev_app_distr, rev_involutive, app_nil_r.
      do 3 f_equal. lia.
    + cbn [app]. change (N.to_nat 0) with 0%nat. rewrite cd_read2_O. now rewrite app_nil_r.
  - cbn [classes_ok forallb] in Hcl. apply andb_true_iff in Hcl as [Hc Hcl].
    fold (classes_ok r) in Hcl.
    cbn [length] in Hlen. cbn [seg_emit seg_n sparse].
    destruct ins; cbn [andb]; cbv beta iota in Hh, Hp.
    + destruct (Hins eq_refl) as (H1 & H2 & H3).
      destruct (c =? sc) eqn:E1; cbn [negb app].
      * (* the range continues *)
        rewrite N.add_0_l.
        rewrite (IH post (i + 1) true ss sc mx first prevEnd acc) by side.
        apply N.eqb_eq in E1. subst c. replace (sc =? 0) with false by lia.
        replace (N.to_nat (i + 1 - ss)) with (S (N.to_nat (i - ss))) by lia.
        rewrite rng_snoc, <- !app_assoc. cbn [app].
        replace (ss + N.of_nat (N.to_nat (i - ss))) with i by lia. reflexivity.
      * (* the range closes at i-1 *)
        rewrite <- app_assoc.
        destruct (c =? 0) eqn:E0.
        -- replace (N.to_nat (1 + seg_n r false sc)) with (S (N.to_nat (seg_n r false sc))) by lia.
           rewrite read_seg_rec by side.
           rewrite (IH post (i + 1) false ss sc mx false (i - 1)) by side.
           rewrite rev_app_distr, rev_involutive, <- app_assoc.
           replace (i - 1 + 1 - ss) with (i - ss) by lia. reflexivity.
        -- replace (N.to_nat (1 + seg_n r true c)) with (S (N.to_nat (seg_n r true c))) by lia.
           rewrite read_seg_rec by side.
           rewrite (IH post (i + 1) true i c mx false (i - 1)) by side.
           rewrite rev_app_distr, rev_involutive, <- !app_assoc.
           replace (i - 1 + 1 - ss) with (i - ss) by lia.
           replace (N.to_nat (i + 1 - i)) with 1%nat by lia. reflexivity.
    + cbn [app]. rewrite N.add_0_l.
      destruct (c =? 0) eqn:E0.
      * rewrite (IH post (i + 1) false ss sc mx first prevEnd acc) by side.
        reflexivity.
      * rewrite (IH post (i + 1) true i c mx first prevEnd acc) by side.
        replace (N.to_nat (i + 1 - i)) with 1%nat by lia. reflexivity.
Qed.

(* ------------------------------------------------------------------ *)
(* format 1 read back                                                  *)

Lemma cd_read1_dense cl : forall post g,
  classes_ok cl = true ->
  cd_read1 (length cl) (flat_map be16 cl ++ post) g = Ok (sparse cl g).
Proof.
  induction cl as [|c r IH]; intros post g Hcl; cbn [length cd_read1 flat_map sparse]; [reflexivity|].
  cbn [classes_ok forallb] in Hcl. apply andb_true_iff in Hcl as [Hc Hcl].
  rewrite <- app_assoc. cbn [be16 app]. rewrite w16_be16_eq by lia.
  rewrite IH by exact Hcl. cbn [obind]. reflexivity.
Qed.

(* ------------------------------------------------------------------ *)
(* dense / sparse on sorted tables                                     *)

Definition keys_below (b : N) (t : list (N * N)) : bool := forallb (fun p => fst p <? b) t.

Lemma dense_length n : forall i t, length (dense n i t) = n.
Proof.
  induction n as [|n IH]; intros i t; cbn [dense]; [reflexivity|].
  destruct (drop_lt i t) as [|[g c] t']; [cbn [length]; now rewrite IH|].
  destruct (g =? i); cbn [length]; now rewrite IH.
Qed.

Lemma drop_lt_sorted i t : cd_sorted (Z.of_N i - 1) t = true -> drop_lt i t = t.
Proof.
  destruct t as [|[g c] t']; [reflexivity|]. cbn [cd_sorted drop_lt]. intros H.
  replace (g <? i) with false by lia. reflexivity.
Qed.

Lemma cd_sorted_weaken p q t : (q <= p)%Z -> cd_sorted p t = true -> cd_sorted q t = true.
Proof.
  destruct t as [|[g c] t']; [reflexivity|]. cbn [cd_sorted]. intros Hq H.
  rewrite !andb_true_iff in *. repeat split; try tauto. lia.
Qed.

Lemma dense_sparse n : forall i t,
  cd_sorted (Z.of_N i - 1) t = true -> keys_below (i + N.of_nat n) t = true ->
  sparse (dense n i t) i = S_cd_nonzero t /\ classes_ok (dense n i t) = true.
Proof.
  induction n as [|n IH]; intros i t Hs Hk.
  - destruct t as [|[g c] t']; [split; reflexivity|].
    cbn [cd_sorted keys_below forallb fst] in *. lia.
  - cbn [dense]. rewrite drop_lt_sorted by exact Hs.
    destruct t as [|[g c] t'].
    + cbn [sparse classes_ok forallb]. replace (0 =? 0) with true by reflexivity.
      destruct (IH (i + 1) [] eq_refl eq_refl) as [E1 E2].
      rewrite E1. split; [reflexivity|exact E2].
    + cbn [cd_sorted] in Hs. cbn [keys_below forallb fst] in Hk.
      rewrite !andb_true_iff in Hs. destruct Hs as (((Hg1 & Hg2) & Hc) & Hs).
      apply andb_true_iff in Hk as [Hk1 Hk].
      destruct (g =? i) eqn:E.
      * apply N.eqb_eq in E. subst g.
        destruct (IH (i + 1) t') as [E1 E2].
        { eapply cd_sorted_weaken; [|exact Hs]. lia. }
        { replace (i + 1 + N.of_nat n) with (i + N.of_nat (S n)) by lia. exact Hk. }
        cbn [sparse classes_ok forallb S_cd_nonzero filter snd].
        fold (classes_ok (dense n (i + 1) t')). rewrite E2, Hc.
        fold (S_cd_nonzero t'). rewrite E1.
        destruct (c =? 0); split; reflexivity.
      * destruct (IH (i + 1) ((g, c) :: t')) as [E1 E2].
        { cbn [cd_sorted]. rewrite !andb_true_iff. repeat split; try assumption; lia. }
        { cbn [keys_below forallb fst]. apply andb_true_iff. split; [lia|].
          replace (i + 1 + N.of_nat n) with (i + N.of_nat (S n)) by lia. exact Hk. }
        cbn [sparse classes_ok forallb].
        fold (classes_ok (dense n (i + 1) ((g, c) :: t'))). rewrite E2, E1.
        split; reflexivity.
Qed.

(* min and max of the keys of a sorted table *)
Lemma min_key_ge t : forall m, (forall p, In p t -> m <= fst p) -> min_key t m = m.
Proof.
  induction t as [|[g c] t IH]; intros m H; cbn [min_key]; [reflexivity|].
  pose proof (H (g, c) (or_introl eq_refl)) as Hg. cbn [fst] in Hg.
  replace (g <? m) with false by lia. apply IH. intros p Hp. apply H. right. exact Hp.
Qed.

Lemma cd_sorted_In p0 t : cd_sorted p0 t = true ->
  forall p, In p t -> (p0 < Z.of_N (fst p))%Z /\ fst p < 65536 /\ snd p < 65536.
Proof.
  revert p0; induction t as [|[g c] t IH]; intros p0 H p Hp; [destruct Hp|].
  cbn [cd_sorted] in H. rewrite !andb_true_iff in H. destruct H as (((H1 & H2) & H3) & H4).
  destruct Hp as [<-|Hp]; cbn [fst snd]; [lia|].
  destruct (IH _ H4 p Hp) as (A & B & C). lia.
Qed.

Fixpoint last_key (t : list (N * N)) (d : N) : N :=
  match t with [] => d | (g, _) :: t' => last_key t' g end.

Lemma max_key_sorted t : forall m, cd_sorted (Z.of_N m - 1) t = true -> max_key t m = last_key t m.
Proof.
  induction t as [|[g c] t IH]; intros m H; cbn [max_key last_key]; [reflexivity|].
  cbn [cd_sorted] in H. rewrite !andb_true_iff in H. destruct H as (((H1 & H2) & H3) & H4).
  destruct (m <? g) eqn:E.
  - apply IH. eapply cd_sorted_weaken; [|exact H4]. lia.
  - assert (g = m) by lia. subst g. apply IH. eapply cd_sorted_weaken; [|exact H4]. lia.
Qed.

Lemma last_key_bounds t : forall g,
  g < 65536 -> cd_sorted (Z.of_N g) t = true ->
  g <= last_key t g /\ last_key t g < 65536 /\
  keys_below (last_key t g + 1) t = true.
Proof.
  induction t as [|[h c] t IH]; intros g Hg H; cbn [last_key keys_below forallb].
  - repeat split; lia.
  - cbn [cd_sorted] in H. rewrite !andb_true_iff in H. destruct H as (((H1 & H2) & H3) & H4).
    destruct (IH h ltac:(lia) H4) as (A & B & C). cbn [fst].
    repeat split; try lia.
    apply andb_true_iff. split; [lia|exact C].
Qed.

(* ------------------------------------------------------------------ *)
(* encInfo on a well-formed table                                      *)

Record cd_facts (t : list (N * N)) (ei : cd_encinfo) : Prop := {
  cf_min_le : cd_min ei <= cd_max ei;
  cf_max : cd_max ei < 65536;
  cf_len : N.of_nat (length (cd_dense ei)) = cd_max ei + 1 - cd_min ei;
  cf_sparse : sparse (cd_dense ei) (cd_min ei) = S_cd_nonzero t;
  cf_classes : classes_ok (cd_dense ei) = true;
}.

Lemma cd_encinfo_eq t :
  M_cd_encinfo t =
  let mn := min_key t 65535 in
  let mx := max_key t 0 in
  let span := mx + 1 - mn in
  let f1 := if 65535 <? span then maxInt else 6 + 2 * span in
  let cl := dense (N.to_nat span) mn t in
  let sc' := fst (seg_loop cl f1 0 false 0) + b2n (snd (seg_loop cl f1 0 false 0)) in
  {| cd_min := mn; cd_max := mx; cd_f1 := f1; cd_f2 := 4 + 6 * sc'; cd_dense := cl |}.
Proof.
  unfold M_cd_encinfo. cbv zeta.
  destruct (seg_loop _ _ 0 false 0) as [sc ins]. cbn [fst snd].
  destruct ins; cbn [b2n]; repeat f_equal; lia.
Qed.

Lemma cd_encinfo_facts g c t' :
  cd_ok ((g, c) :: t') = true -> cd_facts ((g, c) :: t') (M_cd_encinfo ((g, c) :: t')).
Proof.
  intros Hok. set (t := (g, c) :: t') in *.
  assert (Hs := Hok). unfold cd_ok, t in Hs. cbn [cd_sorted] in Hs.
  rewrite !andb_true_iff in Hs. destruct Hs as (((H1 & H2) & H3) & H4).
  assert (Emin : min_key t 65535 = g).
  { unfold t. cbn [min_key].
    destruct (g <? 65535) eqn:E.
    - apply min_key_ge. intros p Hp. pose proof (cd_sorted_In _ _ H4 p Hp). lia.
    - assert (g = 65535) by lia. subst g.
      apply min_key_ge. intros p Hp. pose proof (cd_sorted_In _ _ H4 p Hp). lia. }
  assert (Emax : max_key t 0 = last_key t' g).
  { rewrite max_key_sorted by (unfold t; eapply cd_sorted_weaken; [|exact Hok]; lia).
    reflexivity. }
  destruct (last_key_bounds t' g ltac:(lia) H4) as (A & B & C).
  rewrite cd_encinfo_eq. cbv zeta. rewrite Emin, Emax.
  set (mx := last_key t' g) in *.
  assert (Hd : sparse (dense (N.to_nat (mx + 1 - g)) g t) g = S_cd_nonzero t /\
               classes_ok (dense (N.to_nat (mx + 1 - g)) g t) = true).
  { apply dense_sparse.
    - unfold t. cbn [cd_sorted]. rewrite !andb_true_iff. repeat split; try assumption; lia.
    - replace (g + N.of_nat (N.to_nat (mx + 1 - g))) with (mx + 1) by lia.
      unfold t. cbn [keys_below forallb fst]. apply andb_true_iff. split; [lia|exact C]. }
  destruct Hd as [Hd1 Hd2].
  constructor; cbn [cd_min cd_max cd_dense]; try assumption; try lia.
  rewrite dense_length. lia.
Qed.

(* ------------------------------------------------------------------ *)
(* declared length = emitted length                                    *)

Lemma firstn_all2' {A} (l : list A) n : (length l <= n)%nat -> firstn n l = l.
Proof. apply firstn_all2. Qed.

Lemma cd_len_agrees t b :
  cd_ok t = true -> M_cd_append t = Ok b -> M_cd_append_len t = N.of_nat (length b).
Proof.
  intros Hok. destruct t as [|[g c] t']; [intros [= <-]; reflexivity|].
  pose proof (cd_encinfo_facts g c t' Hok) as F.
  unfold M_cd_append, M_cd_append_len.
  set (ei := M_cd_encinfo ((g, c) :: t')) in *.
  destruct F as [F1 F2 F3 F4 F5].
  assert (Hf1 : cd_f1 ei = if 65535 <? cd_max ei + 1 - cd_min ei then maxInt
                           else 6 + 2 * (cd_max ei + 1 - cd_min ei)).
  { unfold ei. rewrite cd_encinfo_eq. reflexivity. }
  assert (Hf2 : exists sc2 ins2,
             seg_loop (cd_dense ei) (cd_f1 ei) 0 false 0 = (sc2, ins2) /\
             cd_f2 ei = 4 + 6 * (sc2 + b2n ins2)).
  { unfold ei. rewrite cd_encinfo_eq. cbv zeta. cbn [cd_dense cd_f1 cd_f2].
    destruct (seg_loop _ _ 0 false 0) as [sc2 ins2]. exists sc2, ins2. split; reflexivity. }
  destruct Hf2 as (sc2 & ins2 & Hl & Hf2).
  pose proof (seg_loop_spec _ _ _ _ _ _ _ Hl) as Hspec. rewrite N.add_0_l in Hspec.
  pose proof (seg_n_ge (cd_dense ei) false 0) as Hge.
  assert (Hsn : seg_n (cd_dense ei) false 0 <= N.of_nat (length (cd_dense ei)) + 1).
  { clear. generalize false at 1. generalize 0 at 1.
    induction (cd_dense ei) as [|x r IH]; intros cls ins; cbn [seg_n length].
    - destruct ins; lia.
    - destruct (ins && negb (x =? cls)).
      + destruct (x =? 0); [specialize (IH cls false)|specialize (IH x true)]; lia.
      + destruct ins; [specialize (IH cls true); lia|].
        destruct (x =? 0); [specialize (IH cls false)|specialize (IH x true)]; lia. }
  destruct (cd_f1 ei <=? cd_f2 ei) eqn:Hc.
  - (* format 1 *)
    assert (Hspan : cd_max ei + 1 - cd_min ei <= 65535).
    { destruct (65535 <? cd_max ei + 1 - cd_min ei) eqn:E; [|lia].
      unfold maxInt in Hf1. lia. }
    replace (65535 <? cd_max ei + 1 - cd_min ei) with false in Hf1 by lia.
    replace ((cd_max ei + 65536 - cd_min ei + 1) mod 65536) with (cd_max ei + 1 - cd_min ei) by lia.
    intros E. apply ok_inj in E. subst b.
    rewrite firstn_all2' by lia.
    rewrite !app_length, flat_map_be16_length. cbn [length be16].
    destruct (cd_f1 ei <? cd_f2 ei) eqn:Hc2; lia.
  - destruct (65535 <? (cd_f2 ei - 4) / 6); [discriminate|].
    intros E. apply ok_inj in E. subst b.
    rewrite !app_length, Nnat.Nat2N.inj_add, Nnat.Nat2N.inj_add, seg_emit_length.
    cbn [length be16].
    replace (cd_f1 ei <? cd_f2 ei) with false by lia.
    destruct Hspec as [Hex|[Hno _]]; [|lia]. lia.
Qed.

(* ------------------------------------------------------------------ *)
(* sizes computed by getEncInfo                                        *)

Lemma cd_encinfo_sizes t :
  let ei := M_cd_encinfo t in
  let span := cd_max ei + 1 - cd_min ei in
  let segn := seg_n (cd_dense ei) false 0 in
  cd_f1 ei = (if 65535 <? span then maxInt else 6 + 2 * span) /\
  (cd_f2 ei = 4 + 6 * segn \/ (cd_f1 ei <= cd_f2 ei /\ cd_f2 ei <= 4 + 6 * segn)) /\
  segn <= N.of_nat (length (cd_dense ei)) + 1.
Proof.
  cbv zeta. rewrite cd_encinfo_eq. cbv zeta. cbn [cd_dense cd_f1 cd_f2 cd_min cd_max].
  set (cl := dense _ _ t). set (f1 := if _ <? _ then maxInt else _).
  destruct (seg_loop cl f1 0 false 0) as [sc2 ins2] eqn:Hl. cbn [fst snd].
  pose proof (seg_loop_spec _ _ _ _ _ _ _ Hl) as Hspec. rewrite N.add_0_l in Hspec.
  split; [reflexivity|]. split; [lia|].
  clear. generalize false at 1. generalize 0 at 1.
  induction cl as [|x r IH]; intros cls ins; cbn [seg_n length].
  - destruct ins; lia.
  - destruct (ins && negb (x =? cls)).
    + destruct (x =? 0); [specialize (IH cls false)|specialize (IH x true)]; lia.
    + destruct ins; [specialize (IH cls true); lia|].
      destruct (x =? 0); [specialize (IH cls false)|specialize (IH x true)]; lia.
Qed.

(* ------------------------------------------------------------------ *)
(* the round trip                                                      *)

Lemma cd_roundtrip t b pre post :
  cd_ok t = true -> M_cd_append t = Ok b ->
  M_cd_read (pre ++ b ++ post) (N.of_nat (length pre)) = Ok (S_cd_nonzero t).
Proof.
  intros Hok. destruct t as [|[g c] t'].
  - intros E. apply ok_inj in E. subst b. unfold M_cd_read. rewrite seek_app. reflexivity.
  - pose proof (cd_encinfo_facts g c t' Hok) as F.
    pose proof (cd_encinfo_sizes ((g, c) :: t')) as S. cbv zeta in S.
    unfold M_cd_append.
    set (ei := M_cd_encinfo ((g, c) :: t')) in *.
    destruct F as [F1 F2 F3 F4 F5]. destruct S as (Hf1 & Hf2 & Hsn).
    destruct (cd_f1 ei <=? cd_f2 ei) eqn:Hc.
    + assert (Hspan : cd_max ei + 1 - cd_min ei <= 65535).
      { destruct (65535 <? cd_max ei + 1 - cd_min ei) eqn:E; [|lia].
        unfold maxInt in Hf1. lia. }
      replace ((cd_max ei + 65536 - cd_min ei + 1) mod 65536) with (cd_max ei + 1 - cd_min ei) by lia.
      intros E. apply ok_inj in E. subst b.
      rewrite firstn_all2' by lia.
      unfold M_cd_read. rewrite seek_app. rewrite <- !app_assoc. cbn [app be16].
      change (w16 0 1 =? 1) with true. cbv iota.
      rewrite !w16_be16_eq by lia.
      replace (65536 <? cd_min ei + (cd_max ei + 1 - cd_min ei)) with false by lia.
      replace (N.to_nat (cd_max ei + 1 - cd_min ei)) with (length (cd_dense ei)) by lia.
      rewrite cd_read1_dense by exact F5. now rewrite F4.
    + destruct (65535 <? (cd_f2 ei - 4) / 6) eqn:Hseg; [discriminate|].
      intros E. apply ok_inj in E. subst b.
      assert (Hex : cd_f2 ei = 4 + 6 * seg_n (cd_dense ei) false 0) by lia.
      unfold M_cd_read. rewrite seek_app. rewrite <- !app_assoc. cbn [app be16].
      change (w16 0 2 =? 1) with false. change (w16 0 2 =? 2) with true. cbv iota.
      rewrite w16_be16_eq by lia.
      replace ((cd_f2 ei - 4) / 6) with (seg_n (cd_dense ei) false 0) by lia.
      rewrite (seg_emit_read (cd_dense ei) post (cd_min ei) false 0 0 (cd_max ei) true 0 [])
        by (try assumption; try lia; try discriminate; reflexivity).
      cbn [rev app]. now rewrite F4.
Qed.

(* Append refuses (panics) only tables that no class definition table can
   hold: all 65536 glyph ids in the key span and more than 65535 ranges *)
Lemma cd_panic_only_unrepresentable t :
  cd_ok t = true -> M_cd_append t = Panic ->
  let ei := M_cd_encinfo t in
  65535 < cd_max ei + 1 - cd_min ei /\ 65535 < S_cd_segs (cd_dense ei) 0.
Proof.
  intros Hok. destruct t as [|[g c] t']; [discriminate|].
  pose proof (cd_encinfo_facts g c t' Hok) as F.
  pose proof (cd_encinfo_sizes ((g, c) :: t')) as S. cbv zeta in S.
  unfold M_cd_append. cbv zeta.
  set (ei := M_cd_encinfo ((g, c) :: t')) in *.
  destruct F as [F1 F2 F3 F4 F5]. destruct S as (Hf1 & Hf2 & Hsn).
  destruct (cd_f1 ei <=? cd_f2 ei) eqn:Hc; [discriminate|].
  destruct (65535 <? (cd_f2 ei - 4) / 6) eqn:Hseg; [|discriminate]. intros _.
  assert (Hex : cd_f2 ei = 4 + 6 * seg_n (cd_dense ei) false 0) by lia.
  rewrite (seg_n_segs (cd_dense ei) false 0) in Hex by discriminate. cbn [b2n] in Hex.
  rewrite (seg_n_segs (cd_dense ei) false 0) in Hsn by discriminate. cbn [b2n] in Hsn.
  destruct (65535 <? cd_max ei + 1 - cd_min ei) eqn:E; lia.
Qed.

Lemma cd_append_total t : M_cd_append t <> Err /\ M_cd_append t <> OutOfFuel.
Proof.
  unfold M_cd_append. destruct t; [split; discriminate|].
  destruct (_ <=? _); [split; discriminate|]. destruct (_ <? _); split; discriminate.
Qed.

(* the smaller format is chosen *)
Lemma cd_min_format t b :
  cd_ok t = true -> t <> [] -> M_cd_append t = Ok b ->
  let ei := M_cd_encinfo t in
  let span := cd_max ei + 1 - cd_min ei in
  let segs := S_cd_segs (cd_dense ei) 0 in
  N.of_nat (length (cd_dense ei)) = span /\
  sparse (cd_dense ei) (cd_min ei) = S_cd_nonzero t /\
  N.of_nat (length b) =
    (if 65535 <? span then 4 + 6 * segs else N.min (6 + 2 * span) (4 + 6 * segs)) /\
  (nth 1 b 0 = 1 <-> span <= 65535 /\ 6 + 2 * span <= 4 + 6 * segs) /\
  (nth 1 b 0 = 2 <-> 65535 < span \/ 4 + 6 * segs < 6 + 2 * span).
Proof.
  intros Hok Hne. destruct t as [|[g c] t']; [congruence|]. clear Hne.
  pose proof (cd_encinfo_facts g c t' Hok) as F.
  pose proof (cd_encinfo_sizes ((g, c) :: t')) as S. cbv zeta in S.
  unfold M_cd_append. cbv zeta.
  set (ei := M_cd_encinfo ((g, c) :: t')) in *.
  destruct F as [F1 F2 F3 F4 F5]. destruct S as (Hf1 & Hf2 & Hsn).
  rewrite (seg_n_segs (cd_dense ei) false 0) in Hf2, Hsn by discriminate. cbn [b2n] in Hf2, Hsn.
  intros Happ.
  split; [exact F3|]. split; [exact F4|].
  revert Happ.
  destruct (cd_f1 ei <=? cd_f2 ei) eqn:Hc.
  - assert (Hspan : cd_max ei + 1 - cd_min ei <= 65535).
    { destruct (65535 <? cd_max ei + 1 - cd_min ei) eqn:E; [|lia].
      unfold maxInt in Hf1. lia. }
    replace (65535 <? cd_max ei + 1 - cd_min ei) with false in * by lia.
    replace ((cd_max ei + 65536 - cd_min ei + 1) mod 65536) with (cd_max ei + 1 - cd_min ei) by lia.
    intros E. apply ok_inj in E. subst b.
    rewrite firstn_all2' by lia.
    cbn [app nth length]. rewrite !app_length, flat_map_be16_length. cbn [length be16].
    repeat split; intros; lia.
  - destruct (65535 <? (cd_f2 ei - 4) / 6) eqn:Hseg; [discriminate|].
    intros E. apply ok_inj in E. subst b.
    cbn [app nth length]. rewrite !app_length, !Nnat.Nat2N.inj_succ, Nnat.Nat2N.inj_add, seg_emit_length.
    rewrite (seg_n_segs (cd_dense ei) false 0) by discriminate. cbn [b2n length be16].
    destruct (65535 <? cd_max ei + 1 - cd_min ei) eqn:E; unfold maxInt in *;
      repeat split; intros; lia.
Qed.

(* ------------------------------------------------------------------ *)
(* the reader never panics                                             *)

Lemma cd_read1_not_panic cnt : forall r g, cd_read1 cnt r g <> Panic.
Proof.
  induction cnt as [|c IH]; intros r g; cbn [cd_read1]; [discriminate|].
  destruct r as [|a [|b r']]; try discriminate.
  specialize (IH r' (g + 1)). destruct (cd_read1 c r' (g + 1)); cbn [obind]; congruence.
Qed.

Lemma cd_read2_not_panic cnt : forall r first prevEnd acc, cd_read2 cnt r first prevEnd acc <> Panic.
Proof.
  induction cnt as [|c IH]; intros r first prevEnd acc; cbn [cd_read2]; [discriminate|].
  destruct r as [|a [|b [|c0 [|d [|e [|f r']]]]]]; try discriminate.
  destruct (negb first && (w16 a b <=? prevEnd)); [discriminate|]. apply IH.
Qed.

Lemma cd_read_total data pos : M_cd_read data pos <> Panic.
Proof.
  unfold M_cd_read.
  destruct (seek data pos) as [|a [|b r]]; try discriminate.
  destruct (w16 a b =? 1).
  - destruct r as [|c [|d [|e [|f r']]]]; try discriminate.
    destruct (65536 <? w16 c d + w16 e f); [discriminate|apply cd_read1_not_panic].
  - destruct (w16 a b =? 2); [|discriminate].
    destruct r as [|c [|d r']]; try discriminate. apply cd_read2_not_panic.
Qed.
