(* C08/ModelSL.v — executable model of gtab.ScriptListInfo.encode and
   readScriptList / readScriptTable / readLangSysTable (scriptlist.go) at the
   byte level, with fixes/C08-list-offset-guards.diff applied.

   The conversion between BCP 47 tags and OpenType (script, language) tags
   (x/text; property C14) is abstracted: the encoder's input is the list of
   already-converted entries grouped by script,
       (script tag, default LangSys (language ""), [(language tag, LangSys); ...])
   with scripts and, per script, languages in increasing tag order (the code
   sorts them); a LangSys is (Required, Optional).  The reader returns the
   assignments info[tag] = LangSys in the order it makes them, as
   ((script, language), LangSys) with language [] for the default; tags that
   otfToBCP47 rejects are skipped: parameter [conv_ok]. *)
From Coq Require Import List NArith ZArith Bool Lia.
From Common Require Import Bytes Outcome.
From C08 Require Import Model ModelSub.
Import ListNotations.
Local Open Scope N_scope.

Definition langsys := (N * list N)%type.                       (* Required, Optional *)
Definition script_entry := (list N * option langsys * list (list N * langsys))%type.

Definition e_tag (e : script_entry) := fst (fst e).
Definition e_def (e : script_entry) := snd (fst e).
Definition e_langs (e : script_entry) := snd e.

Definition ls_size (f : langsys) : N := 6 + 2 * lenN (snd f).
Fixpoint lss_size (l : list (list N * langsys)) : N :=
  match l with [] => 0 | x :: r => ls_size (snd x) + lss_size r end.
Definition def_size (d : option langsys) : N := match d with Some f => ls_size f | None => 0 end.
Definition script_size (e : script_entry) : N :=
  4 + 6 * lenN (e_langs e) + def_size (e_def e) + lss_size (e_langs e).

(* lookupOrderOffset = 0, requiredFeatureIndex, featureIndexCount, indices *)
Definition ls_bytes (f : langsys) : list N :=
  [0; 0] ++ be16 (fst f) ++ be16 (lenN (snd f)) ++ flat_map be16 (snd f).

Definition first4 (t : list N) : list N := firstn 4 t.

(* lRec.offs = uint16(pos), refused beyond 0xFFFF; pos += 6 + 2*len(Optional) *)
Fixpoint lang_records (l : list (list N * langsys)) (pos : N) : outcome (list N) :=
  match l with
  | [] => Ok []
  | (tag, f) :: r =>
    if 65535 <? pos then Panic                     (* "script table too large" *)
    else if negb (lenN tag =? 4) then Panic         (* "invalid language" *)
    else tl <- lang_records r (pos + ls_size f) ;; Ok (tag ++ be16 pos ++ tl)
  end.

Definition script_table (e : script_entry) : outcome (list N) :=
  let nl := lenN (e_langs e) in
  let pos0 := 4 + 6 * nl in
  recs <- lang_records (e_langs e) (pos0 + def_size (e_def e)) ;;
  Ok (be16 (match e_def e with Some _ => pos0 | None => 0 end) ++ be16 nl ++ recs ++
      (match e_def e with Some f => ls_bytes f | None => [] end) ++
      flat_map (fun x => ls_bytes (snd x)) (e_langs e)).

Definition too_many (e : script_entry) : bool :=
  (match e_def e with Some f => 65535 <? lenN (snd f) | None => false end) ||
  existsb (fun x => 65535 <? lenN (snd (snd x))) (e_langs e).

(* sRec.offset = uint16(totalSize), refused beyond 0xFFFF *)
Fixpoint script_records (es : list script_entry) (off : N) : outcome (list N) :=
  match es with
  | [] => Ok []
  | e :: r =>
    if 65535 <? off then Panic                      (* "script list too large" *)
    else if too_many e then Panic                   (* "too many features in language system" *)
    else tl <- script_records r (off + script_size e) ;; Ok (first4 (e_tag e) ++ be16 off ++ tl)
  end.

Fixpoint script_tables (es : list script_entry) : outcome (list N) :=
  match es with
  | [] => Ok []
  | e :: r => t <- script_table e ;; tl <- script_tables r ;; Ok (t ++ tl)
  end.

Definition M_sl_encode (es : list script_entry) : outcome (list N) :=
  let n := lenN es in
  recs <- script_records es (2 + 6 * n) ;;
  tabs <- script_tables es ;;
  Ok (be16 n ++ recs ++ tabs).

(* ------------------------------------------------------------------ *)
(* reader                                                              *)

Section Reader.
  Variable conv_ok : list N -> list N -> bool.     (* otfToBCP47(script, lang) succeeds *)

  (* sort.Slice(records, offset <): insertion sort (what sort.Slice does for
     fewer than 12 elements), stable *)
  Fixpoint ins_off {A} (x : A * N) (l : list (A * N)) : list (A * N) :=
    match l with
    | [] => [x]
    | y :: r => if snd x <? snd y then x :: l else y :: ins_off x r
    end.
  Definition sort_off {A} (l : list (A * N)) : list (A * N) := fold_right ins_off [] l.

  Fixpoint rd_tagged (n : nat) (r : list N) : outcome (list (list N * N) * list N) :=
    match n with
    | O => Ok ([], r)
    | S n' =>
      match r with
      | a :: b :: c :: d :: e :: f :: r' =>
        x <- rd_tagged n' r' ;; Ok (([a; b; c; d], w16 e f) :: fst x, snd x)
      | _ => Err
      end
    end.

  Definition maxWork : N := 262144.

  (* readLangSysTable; returns the LangSys and the remaining budget *)
  Definition rd_langsys (data : list N) (p : N) (budget : N) : outcome (langsys * N) :=
    match seek data p with
    | a :: b :: c :: d :: e :: f :: r =>
      if negb (w16 a b =? 0) then Err                       (* reordering tables: not supported *)
      else
        let cnt := w16 e f in
        if budget <? 1 + cnt then Err                        (* "script list too complex" *)
        else
          x <- rd_u16s (N.to_nat cnt) r ;;
          (* idx == 0xFFFF: the entry is left 0 *)
          Ok ((w16 c d, map (fun i => if i =? 65535 then 0 else i) (fst x)), budget - (1 + cnt))
    | _ => Err
    end.

  Fixpoint rd_langsyss (data : list N) (pos : N) (script : list N) (recs : list (list N * N)) (budget : N)
    : outcome (list ((list N * list N) * langsys) * N) :=
    match recs with
    | [] => Ok ([], budget)
    | (lang, off) :: r =>
      x <- rd_langsys data (pos + off) budget ;;
      tl <- rd_langsyss data pos script r (snd x) ;;
      Ok ((if conv_ok script lang then [((script, lang), fst x)] else []) ++ fst tl, snd tl)
    end.

  Definition rd_script_table (data : list N) (script : list N) (pos : N) (budget : N)
    : outcome (list ((list N * list N) * langsys) * N) :=
    match seek data pos with
    | a :: b :: c :: d :: r =>
      let defOff := w16 a b in
      let cnt := w16 c d in
      if (0 <? defOff) && (defOff <? (4 + 6 * cnt) mod 65536) then Err     (* uint16 arithmetic *)
      else if lenN data <? 8 + cnt * 12 then Err                           (* > p.Size() *)
      else
        x <- rd_tagged (N.to_nat cnt) r ;;
        let recs := (if defOff =? 0 then [] else [([], defOff)]) ++ fst x in
        rd_langsyss data pos script (sort_off recs) budget
    | _ => Err
    end.

  Fixpoint rd_script_tables (data : list N) (pos : N) (recs : list (list N * N)) (budget : N)
    : outcome (list ((list N * list N) * langsys)) :=
    match recs with
    | [] => Ok []
    | (script, off) :: r =>
      x <- rd_script_table data script (pos + off) budget ;;
      tl <- rd_script_tables data pos r (snd x) ;;
      Ok (fst x ++ tl)
    end.

  Definition M_sl_read (data : list N) (pos : N) : outcome (list ((list N * list N) * langsys)) :=
    match seek data pos with
    | a :: b :: r =>
      let cnt := w16 a b in
      if lenN data <? 6 * cnt then Err                                     (* > p.Size() *)
      else
        x <- rd_tagged (N.to_nat cnt) r ;;
        let recs := sort_off (fst x) in
        if existsb (fun e => snd e <? 2 + 6 * lenN recs) recs then Err      (* invalid script table offset *)
        else rd_script_tables data pos recs maxWork
    | _ => Err
    end.
End Reader.

(* ------------------------------------------------------------------ *)
(* specification side                                                  *)

(* lexicographic order on tags *)
Fixpoint tag_lt (a b : list N) : bool :=
  match a, b with
  | [], [] => false
  | [], _ :: _ => true
  | _ :: _, [] => false
  | x :: a', y :: b' => (x <? y) || ((x =? y) && tag_lt a' b')
  end.

Definition tag_ok (t : list N) : Prop := length t = 4%nat /\ Forall (fun b => b < 256) t.
(* FeatureIndex: 0 .. 0xFFFE; Required may be 0xFFFF (none) *)
Definition ls_ok (f : langsys) : Prop := fst f < 65536 /\ Forall (fun i => i < 65535) (snd f).

(* the LangSys tables of a script: the default (language "") first *)
Definition item := (list N * langsys)%type.
Definition items_of (e : script_entry) : list item :=
  (match e_def e with Some f => [([], f)] | None => [] end) ++ e_langs e.

Fixpoint work (l : list item) : N :=
  match l with [] => 0 | x :: r => 1 + lenN (snd (snd x)) + work r end.

Fixpoint total_work (es : list script_entry) : N :=
  match es with [] => 0 | e :: r => work (items_of e) + total_work r end.


(* hypotheses of the round trip: tags are 4 bytes, feature indices valid,
   counts 16-bit, and the tag conversion accepts the pair *)
Definition item_ok (script : list N) (conv_ok : list N -> list N -> bool) (x : item) : Prop :=
  ls_ok (snd x) /\ lenN (snd (snd x)) < 65536 /\ conv_ok script (fst x) = true.

Definition entry_rd_ok (conv_ok : list N -> list N -> bool) (e : script_entry) : Prop :=
  tag_ok (e_tag e) /\ Forall (fun x : item => tag_ok (fst x)) (e_langs e) /\
  Forall (item_ok (e_tag e) conv_ok) (items_of e).


(* the assignments the reader must make, in order *)
Definition entry_assignments (e : script_entry) : list ((list N * list N) * langsys) :=
  (match e_def e with Some f => [((e_tag e, []), f)] | None => [] end) ++
  map (fun x => ((e_tag e, fst x), snd x)) (e_langs e).
