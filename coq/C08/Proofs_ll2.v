(* C08/Proofs_ll2.v — lookup list layout, part 2: which chunks a layout
   contains, sizes of the emitted chunks, content at the computed positions. *)
From Coq Require Import List NArith ZArith Bool Lia Permutation.
From Coq Require Import ZifyBool ZifyNat ZifyN.
From Common Require Import Bytes Outcome.
From Gen Require Import C08.
From C08 Require Import Model ModelLL Proofs Proofs_ll.
Import ListNotations.
Local Open Scope N_scope.
Ltac Zify.zify_post_hook ::= Z.div_mod_to_equations.

(* ------------------------------------------------------------------ *)
(* membership of a code                                                *)

Definition has (k : ckind) (t s : N) (cs : list chunk) : bool := existsb (code_eqb k t s) cs.

Lemma has_app k t s a b : has k t s (a ++ b) = has k t s a || has k t s b.
Proof. apply existsb_app. Qed.

Lemma find_pos_has k t s cs : forall p,
  has k t s cs = true -> exists q, find_pos k t s cs p = Some q.
Proof.
  induction cs as [|c r IH]; intros p; cbn [has existsb find_pos]; [discriminate|].
  destruct (code_eqb k t s c); [eauto|]. cbn [orb]. apply IH.
Qed.

Lemma find_pos_hasnt k t s cs p : has k t s cs = false -> find_pos k t s cs p = None.
Proof.
  revert p; induction cs as [|c r IH]; intros p; cbn [has existsb find_pos]; [reflexivity|].
  destruct (code_eqb k t s c); [discriminate|]. cbn [orb]. apply IH.
Qed.

Lemma has_false k t s cs :
  (forall c, In c cs -> code_eqb k t s c = false) -> has k t s cs = false.
Proof.
  induction cs as [|c r IH]; intros H; cbn [has existsb]; [reflexivity|].
  rewrite (H c (or_introl eq_refl)). apply IH. intros c' Hc. apply H. right. exact Hc.
Qed.

Lemma has_sub_chunks i subs : forall j0 k b,
  nth_error subs k = Some b -> has KSub i (j0 + N.of_nat k) (sub_chunks i j0 subs) = true.
Proof.
  induction subs as [|b0 r IH]; intros j0 k b Hk; [destruct k; discriminate|].
  cbn [sub_chunks has existsb]. destruct k as [|k].
  - unfold code_eqb. cbn [c_kind c_t c_s ckind_eqb].
    replace (j0 + N.of_nat 0) with j0 by lia. now rewrite !N.eqb_refl.
  - cbn [nth_error] in Hk. replace (j0 + N.of_nat (S k)) with (j0 + 1 + N.of_nat k) by lia.
    fold (has KSub i (j0 + 1 + N.of_nat k) (sub_chunks i (j0 + 1) r)).
    rewrite (IH (j0 + 1) k b Hk). apply orb_true_r.
Qed.

Lemma ext_chunks_t i j subs c : In c (ext_chunks i j subs) -> c_t c = i /\ c_kind c = KExt /\ j <= c_s c.
Proof.
  revert j; induction subs as [|b r IH]; intros j; cbn [ext_chunks In]; [tauto|].
  intros [<-|H]; [cbn; repeat split; lia|]. apply IH in H. intuition lia.
Qed.

Lemma has_ext_chunks i subs : forall j0 k b,
  nth_error subs k = Some b -> has KExt i (j0 + N.of_nat k) (ext_chunks i j0 subs) = true.
Proof.
  induction subs as [|b0 r IH]; intros j0 k b Hk; [destruct k; discriminate|].
  cbn [ext_chunks has existsb]. destruct k as [|k].
  - unfold code_eqb. cbn [c_kind c_t c_s ckind_eqb].
    replace (j0 + N.of_nat 0) with j0 by lia. now rewrite !N.eqb_refl.
  - cbn [nth_error] in Hk. replace (j0 + N.of_nat (S k)) with (j0 + 1 + N.of_nat k) by lia.
    fold (has KExt i (j0 + 1 + N.of_nat k) (ext_chunks i (j0 + 1) r)).
    rewrite (IH (j0 + 1) k b Hk). apply orb_true_r.
Qed.

(* ---- the plain list ---- *)

Lemma has_table_chunks ll : forall i k l,
  nth_error ll k = Some l -> has KTable (i + N.of_nat k) 0 (lookup_chunks i ll) = true.
Proof.
  induction ll as [|l0 r IH]; intros i k l Hk; [destruct k; discriminate|].
  cbn [lookup_chunks has existsb]. destruct k as [|k].
  - unfold code_eqb. cbn [c_kind c_t c_s ckind_eqb].
    replace (i + N.of_nat 0) with i by lia. now rewrite !N.eqb_refl.
  - cbn [nth_error] in Hk. replace (i + N.of_nat (S k)) with (i + 1 + N.of_nat k) by lia.
    fold (has KTable (i + 1 + N.of_nat k) 0 (sub_chunks i 0 (lk_subs l0) ++ lookup_chunks (i + 1) r)).
    rewrite has_app, (IH (i + 1) k l Hk). rewrite !orb_true_r. reflexivity.
Qed.

Lemma has_sub_lookup_chunks ll : forall i k l j b,
  nth_error ll k = Some l -> nth_error (lk_subs l) j = Some b ->
  has KSub (i + N.of_nat k) (N.of_nat j) (lookup_chunks i ll) = true.
Proof.
  induction ll as [|l0 r IH]; intros i k l j b Hk Hj; [destruct k; discriminate|].
  cbn [lookup_chunks has existsb]. destruct k as [|k].
  - injection Hk as <-. replace (i + N.of_nat 0) with i by lia.
    fold (has KSub i (N.of_nat j) (sub_chunks i 0 (lk_subs l0) ++ lookup_chunks (i + 1) r)).
    rewrite has_app. pose proof (has_sub_chunks i (lk_subs l0) 0 j b Hj) as E.
    rewrite N.add_0_l in E. rewrite E. apply orb_true_r.
  - cbn [nth_error] in Hk. replace (i + N.of_nat (S k)) with (i + 1 + N.of_nat k) by lia.
    fold (has KSub (i + 1 + N.of_nat k) (N.of_nat j) (sub_chunks i 0 (lk_subs l0) ++ lookup_chunks (i + 1) r)).
    rewrite has_app, (IH (i + 1) k l j b Hk Hj). rewrite !orb_true_r. reflexivity.
Qed.

Lemma hasnt_ext_lookup_chunks ll i t s : has KExt t s (lookup_chunks i ll) = false.
Proof.
  apply has_false. intros c Hc. apply lookup_chunks_t in Hc. apply code_eqb_kind. tauto.
Qed.

(* ---- the three parts ---- *)

Lemma parts_R_table ll : forall i big repl k l,
  nth_error ll k = Some l -> i + N.of_nat k <> big ->
  has KTable (i + N.of_nat k) 0 (fst (fst (parts i ll big repl))) = true.
Proof.
  induction ll as [|l0 r IH]; intros i big repl k l Hk Hb; [destruct k; discriminate|].
  cbn [parts]. specialize (IH (i + 1) big repl).
  destruct (parts (i + 1) r big repl) as [[R M] E]. cbn [fst] in IH.
  destruct k as [|k].
  - replace (i + N.of_nat 0) with i in * by lia.
    replace (i =? big) with false by lia.
    destruct (mem i repl); cbn [fst has existsb]; unfold code_eqb; cbn [table_chunk c_kind c_t c_s ckind_eqb];
      now rewrite !N.eqb_refl.
  - cbn [nth_error] in Hk.
    replace (i + N.of_nat (S k)) with (i + 1 + N.of_nat k) in * by lia.
    specialize (IH k l Hk Hb).
    destruct (i =? big); cbn [fst]; [exact IH|].
    destruct (mem i repl); cbn [fst];
      change (?c :: ?a ++ ?b) with ((c :: a) ++ b); rewrite has_app, IH; apply orb_true_r.
Qed.

Lemma parts_R_sub ll : forall i big repl k l j b,
  nth_error ll k = Some l -> nth_error (lk_subs l) j = Some b ->
  i + N.of_nat k <> big -> mem (i + N.of_nat k) repl = false ->
  has KSub (i + N.of_nat k) (N.of_nat j) (fst (fst (parts i ll big repl))) = true.
Proof.
  induction ll as [|l0 r IH]; intros i big repl k l j b Hk Hj Hb Hm; [destruct k; discriminate|].
  cbn [parts]. specialize (IH (i + 1) big repl).
  destruct (parts (i + 1) r big repl) as [[R M] E]. cbn [fst] in IH.
  destruct k as [|k].
  - injection Hk as <-. replace (i + N.of_nat 0) with i in * by lia.
    replace (i =? big) with false by lia. rewrite Hm. cbn [fst].
    change (?c :: ?a ++ ?b) with ((c :: a) ++ b). rewrite has_app.
    cbn [has existsb]. fold (has KSub i (N.of_nat j) (sub_chunks i 0 (lk_subs l0))).
    pose proof (has_sub_chunks i (lk_subs l0) 0 j b Hj) as E0. rewrite N.add_0_l in E0.
    rewrite E0. rewrite orb_true_r. reflexivity.
  - cbn [nth_error] in Hk.
    replace (i + N.of_nat (S k)) with (i + 1 + N.of_nat k) in * by lia.
    specialize (IH k l j b Hk Hj Hb Hm).
    destruct (i =? big); cbn [fst]; [exact IH|].
    destruct (mem i repl); cbn [fst];
      change (?c :: ?a ++ ?b) with ((c :: a) ++ b); rewrite has_app, IH; apply orb_true_r.
Qed.

Lemma parts_R_ext ll : forall i big repl k l j b,
  nth_error ll k = Some l -> nth_error (lk_subs l) j = Some b ->
  i + N.of_nat k <> big -> mem (i + N.of_nat k) repl = true ->
  has KExt (i + N.of_nat k) (N.of_nat j) (fst (fst (parts i ll big repl))) = true.
Proof.
  induction ll as [|l0 r IH]; intros i big repl k l j b Hk Hj Hb Hm; [destruct k; discriminate|].
  cbn [parts]. specialize (IH (i + 1) big repl).
  destruct (parts (i + 1) r big repl) as [[R M] E]. cbn [fst] in IH.
  destruct k as [|k].
  - injection Hk as <-. replace (i + N.of_nat 0) with i in * by lia.
    replace (i =? big) with false by lia. rewrite Hm. cbn [fst].
    change (?c :: ?a ++ ?b) with ((c :: a) ++ b). rewrite has_app.
    cbn [has existsb]. fold (has KExt i (N.of_nat j) (ext_chunks i 0 (lk_subs l0))).
    pose proof (has_ext_chunks i (lk_subs l0) 0 j b Hj) as E0. rewrite N.add_0_l in E0.
    rewrite E0. rewrite orb_true_r. reflexivity.
  - cbn [nth_error] in Hk.
    replace (i + N.of_nat (S k)) with (i + 1 + N.of_nat k) in * by lia.
    specialize (IH k l j b Hk Hj Hb Hm).
    destruct (i =? big); cbn [fst]; [exact IH|].
    destruct (mem i repl); cbn [fst];
      change (?c :: ?a ++ ?b) with ((c :: a) ++ b); rewrite has_app, IH; apply orb_true_r.
Qed.

Lemma parts_E_sub ll : forall i big repl k l j b,
  nth_error ll k = Some l -> nth_error (lk_subs l) j = Some b ->
  i + N.of_nat k <> big -> mem (i + N.of_nat k) repl = true ->
  has KSub (i + N.of_nat k) (N.of_nat j) (snd (parts i ll big repl)) = true.
Proof.
  induction ll as [|l0 r IH]; intros i big repl k l j b Hk Hj Hb Hm; [destruct k; discriminate|].
  cbn [parts]. specialize (IH (i + 1) big repl).
  destruct (parts (i + 1) r big repl) as [[R M] E]. cbn [snd] in IH.
  destruct k as [|k].
  - injection Hk as <-. replace (i + N.of_nat 0) with i in * by lia.
    replace (i =? big) with false by lia. rewrite Hm. cbn [snd].
    rewrite has_app.
    pose proof (has_sub_chunks i (lk_subs l0) 0 j b Hj) as E0. rewrite N.add_0_l in E0.
    rewrite E0. reflexivity.
  - cbn [nth_error] in Hk.
    replace (i + N.of_nat (S k)) with (i + 1 + N.of_nat k) in * by lia.
    specialize (IH k l j b Hk Hj Hb Hm).
    destruct (i =? big); cbn [snd]; [exact IH|].
    destruct (mem i repl); cbn [snd]; [|exact IH].
    rewrite has_app, IH. apply orb_true_r.
Qed.

(* chunks of R: what a KSub / KExt chunk in R says about its lookup *)
Lemma parts_R_In ll : forall i big repl c,
  In c (fst (fst (parts i ll big repl))) ->
  c_t c <> big /\ c_kind c <> KHeader /\
  (c_kind c = KSub -> mem (c_t c) repl = false) /\
  (c_kind c = KExt -> mem (c_t c) repl = true).
Proof.
  induction ll as [|l0 r IH]; intros i big repl c; cbn [parts]; [intros []|].
  specialize (IH (i + 1) big repl c).
  destruct (parts (i + 1) r big repl) as [[R M] E]. cbn [fst] in IH.
  destruct (i =? big) eqn:Eb; cbn [fst]; [exact IH|].
  destruct (mem i repl) eqn:Em; cbn [fst]; intros [<-|H].
  - cbn [table_chunk c_t c_kind]. repeat split; try discriminate. lia.
  - apply in_app_or in H. destruct H as [H|H]; [|auto].
    apply ext_chunks_t in H. destruct H as (-> & -> & _).
    repeat split; try discriminate; try lia. intros _. exact Em.
  - cbn [table_chunk c_t c_kind]. repeat split; try discriminate. lia.
  - apply in_app_or in H. destruct H as [H|H]; [|auto].
    apply sub_chunks_t in H. destruct H as (-> & -> & _).
    repeat split; try discriminate; try lia. intros _. exact Em.
Qed.

Lemma parts_M_In ll i big repl c :
  In c (snd (fst (parts i ll big repl))) -> c_t c = big /\ c_kind c <> KExt /\ c_kind c <> KHeader.
Proof.
  rewrite parts_M. destruct (nth_error ll (N.to_nat (big - i))) as [l|]; [|intros []].
  destruct (i <=? big); [|intros []].
  intros [<-|H]; [cbn; repeat split; discriminate|].
  apply sub_chunks_t in H. destruct H as (-> & -> & _). repeat split; discriminate.
Qed.

(* ------------------------------------------------------------------ *)
(* well-formed chunks: the declared size is the size of the content    *)

Definition chunk_wf (ll : list lookup) (c : chunk) : Prop :=
  match c_kind c with
  | KHeader => c_size c = hsize ll
  | KTable => exists l, nth_error ll (N.to_nat (c_t c)) = Some l /\ c_size c = hdr_len l
  | KSub => exists l b, nth_error ll (N.to_nat (c_t c)) = Some l /\
                        nth_error (lk_subs l) (N.to_nat (c_s c)) = Some b /\ c_size c = blen b
  | KExt => c_size c = 8 /\ exists l, nth_error ll (N.to_nat (c_t c)) = Some l
  end.

Lemma sub_chunks_wf ll i l subs : forall j0,
  nth_error ll (N.to_nat i) = Some l ->
  (forall k b, nth_error subs k = Some b -> nth_error (lk_subs l) (N.to_nat j0 + k) = Some b) ->
  Forall (chunk_wf ll) (sub_chunks i j0 subs).
Proof.
  induction subs as [|b0 r IH]; intros j0 Hl Hs; cbn [sub_chunks]; constructor.
  - unfold chunk_wf. cbn [c_kind c_t c_s c_size]. exists l, b0. repeat split; [exact Hl|].
    specialize (Hs 0%nat b0 eq_refl). now rewrite Nat.add_0_r in Hs.
  - apply IH; [exact Hl|]. intros k b Hk. specialize (Hs (S k) b Hk).
    replace (N.to_nat (j0 + 1) + k)%nat with (N.to_nat j0 + S k)%nat by lia. exact Hs.
Qed.

Lemma ext_chunks_wf ll i l subs : forall j0,
  nth_error ll (N.to_nat i) = Some l -> Forall (chunk_wf ll) (ext_chunks i j0 subs).
Proof.
  induction subs as [|b0 r IH]; intros j0 Hl; cbn [ext_chunks]; constructor.
  - unfold chunk_wf. cbn [c_kind c_t c_size]. split; [reflexivity|eauto].
  - apply IH. exact Hl.
Qed.

Lemma lookup_chunks_wf ll lst : forall i,
  (forall k l, nth_error lst k = Some l -> nth_error ll (N.to_nat i + k) = Some l) ->
  Forall (chunk_wf ll) (lookup_chunks i lst).
Proof.
  induction lst as [|l0 r IH]; intros i H; cbn [lookup_chunks]; [constructor|].
  assert (Hl : nth_error ll (N.to_nat i) = Some l0).
  { specialize (H 0%nat l0 eq_refl). now rewrite Nat.add_0_r in H. }
  constructor.
  - unfold chunk_wf. cbn [c_kind c_t c_size]. eauto.
  - apply Forall_app. split.
    + eapply sub_chunks_wf; [exact Hl|]. intros k b Hk. exact Hk.
    + apply IH. intros k l Hk. specialize (H (S k) l Hk).
      replace (N.to_nat (i + 1) + k)%nat with (N.to_nat i + S k)%nat by lia. exact H.
Qed.

Lemma parts_wf ll lst : forall i big repl,
  (forall k l, nth_error lst k = Some l -> nth_error ll (N.to_nat i + k) = Some l) ->
  let '(R, M, E) := parts i lst big repl in
  Forall (chunk_wf ll) R /\ Forall (chunk_wf ll) M /\ Forall (chunk_wf ll) E.
Proof.
  induction lst as [|l0 r IH]; intros i big repl H; cbn [parts]; [repeat split; constructor|].
  assert (Hl : nth_error ll (N.to_nat i) = Some l0).
  { specialize (H 0%nat l0 eq_refl). now rewrite Nat.add_0_r in H. }
  assert (Hr : forall k l, nth_error r k = Some l -> nth_error ll (N.to_nat (i + 1) + k) = Some l).
  { intros k l Hk. specialize (H (S k) l Hk).
    replace (N.to_nat (i + 1) + k)%nat with (N.to_nat i + S k)%nat by lia. exact H. }
  specialize (IH (i + 1) big repl Hr).
  destruct (parts (i + 1) r big repl) as [[R M] E]. destruct IH as (WR & WM & WE).
  assert (Wt : chunk_wf ll (table_chunk i l0)).
  { unfold chunk_wf. cbn [table_chunk c_kind c_t c_size]. eauto. }
  assert (Ws : Forall (chunk_wf ll) (sub_chunks i 0 (lk_subs l0))).
  { eapply sub_chunks_wf; [exact Hl|]. intros k b Hk. exact Hk. }
  assert (We : Forall (chunk_wf ll) (ext_chunks i 0 (lk_subs l0))).
  { eapply ext_chunks_wf. exact Hl. }
  destruct (i =? big).
  - repeat split; try assumption. constructor; [exact Wt|]. apply Forall_app. split; assumption.
  - destruct (mem i repl).
    + repeat split; try assumption.
      * constructor; [exact Wt|]. apply Forall_app. split; assumption.
      * apply Forall_app. split; assumption.
    + repeat split; try assumption. constructor; [exact Wt|]. apply Forall_app. split; assumption.
Qed.

Lemma layout_wf ll L : layout_shape ll L -> Forall (chunk_wf ll) L.
Proof.
  assert (Hh : chunk_wf ll (header_chunk (N.of_nat (length ll)))) by reflexivity.
  intros [-> _ | big repl R M E Hparts -> _ _ _].
  - constructor; [exact Hh|]. apply lookup_chunks_wf. intros k l Hk. exact Hk.
  - pose proof (parts_wf ll ll 0 big repl ltac:(intros k l Hk; exact Hk)) as W.
    rewrite Hparts in W. destruct W as (WR & WM & WE).
    apply Forall_app. split; [constructor; assumption|]. apply Forall_app. split; assumption.
Qed.

(* ------------------------------------------------------------------ *)
(* sizes of emitted chunks                                             *)

Lemma table_offsets_length n : forall i L, length (table_offsets n i L) = (2 * n)%nat.
Proof.
  induction n as [|n IH]; intros i L; cbn [table_offsets]; [reflexivity|].
  rewrite app_length, IH. cbn [be16 length]. lia.
Qed.

Lemma sub_offsets_length n : forall i j base L bs,
  sub_offsets n i j base L = Ok bs -> length bs = (2 * n)%nat.
Proof.
  induction n as [|n IH]; intros i j base L bs; cbn [sub_offsets].
  - intros H. apply ok_inj in H. subst bs. reflexivity.
  - destruct (c08_maxSubtableOffset <? _); [discriminate|].
    destruct (sub_offsets n i (j + 1) base L) as [tl| | |] eqn:E; cbn [obind]; try discriminate.
    intros H. apply ok_inj in H. subst bs. rewrite app_length, (IH _ _ _ _ _ E).
    cbn [be16 length]. lia.
Qed.

Lemma chunk_bytes_size ll extT L c b :
  chunk_wf ll c -> chunk_bytes ll extT L c = Ok b -> blen b = c_size c.
Proof.
  unfold chunk_wf, chunk_bytes, blen. destruct (c_kind c).
  - intros -> H. apply ok_inj in H. subst b.
    rewrite app_length, table_offsets_length. cbn [be16 length]. unfold hsize. lia.
  - intros (l & Hl & ->). rewrite Hl.
    destruct (_ && _); [discriminate|].
    destruct (sub_offsets _ _ _ _ _) as [offs| | |] eqn:E; cbn [obind]; try discriminate.
    intros H. apply ok_inj in H. subst b.
    rewrite !app_length, (sub_offsets_length _ _ _ _ _ _ E). cbn [be16 length].
    unfold hdr_len, nsubs. destruct (use_mfs l); cbn [be16 length]; lia.
  - intros (l & b0 & Hl & Hb & ->). rewrite Hl, Hb. intros H. apply ok_inj in H. now subst b.
  - intros (-> & l & Hl). rewrite Hl. intros H. apply ok_inj in H. subst b. reflexivity.
Qed.

(* ------------------------------------------------------------------ *)
(* content at a position                                               *)

Lemma emit_split ll extT L a : forall c r bytes,
  emit ll extT L (a ++ c :: r) = Ok bytes -> Forall (chunk_wf ll) (a ++ c :: r) ->
  exists ba bc br, bytes = ba ++ bc ++ br /\ blen ba = sum_sizes a /\
                   chunk_bytes ll extT L c = Ok bc.
Proof.
  induction a as [|c0 a IH]; intros c r bytes; cbn [app emit].
  - destruct (chunk_bytes ll extT L c) as [bc| | |]; cbn [obind]; try discriminate.
    destruct (emit ll extT L r) as [br| | |]; cbn [obind]; try discriminate.
    intros H _. apply ok_inj in H. subst bytes. exists [], bc, br. repeat split.
  - destruct (chunk_bytes ll extT L c0) as [b0| | |] eqn:E0; cbn [obind]; try discriminate.
    destruct (emit ll extT L (a ++ c :: r)) as [tl| | |] eqn:Et; cbn [obind]; try discriminate.
    intros H W. apply ok_inj in H. subst bytes.
    apply Forall_cons_iff in W. destruct W as [W0 W].
    destruct (IH c r tl Et W) as (ba & bc & br & -> & Hlen & Hc).
    exists (b0 ++ ba), bc, br. rewrite <- app_assoc. repeat split; [|exact Hc].
    unfold blen in *. rewrite app_length, Nnat.Nat2N.inj_add, Hlen.
    pose proof (chunk_bytes_size ll extT L c0 b0 W0 E0) as Hs. unfold blen in Hs.
    cbn [sum_sizes]. lia.
Qed.

Lemma seek_skip pre x q : seek (pre ++ x) (N.of_nat (length pre) + q) = seek x q.
Proof.
  rewrite !seek_unfold. replace (N.to_nat (N.of_nat (length pre) + q)) with (length pre + N.to_nat q)%nat by lia.
  rewrite <- skipn_skipn', skipn_app, skipn_all, Nat.sub_diag. reflexivity.
Qed.

Lemma seek_blen ba x : seek (ba ++ x) (blen ba) = x.
Proof. unfold blen. apply seek_app. Qed.

(* the bytes of the first chunk with a given code sit at its position *)
Lemma content_at ll extT L bytes k t s q :
  emit ll extT L L = Ok bytes -> Forall (chunk_wf ll) L ->
  find_pos k t s L 0 = Some q ->
  exists c bc br, code_eqb k t s c = true /\ chunk_bytes ll extT L c = Ok bc /\
                  seek bytes q = bc ++ br.
Proof.
  intros He W Hf.
  destruct (find_pos_split _ _ _ _ _ _ Hf) as (a & c & r & HL & Hc & Hq).
  rewrite HL in He at 2. rewrite HL in W.
  destruct (emit_split ll extT L a c r bytes He W) as (ba & bc & br & -> & Hlen & Hb).
  exists c, bc, br. repeat split; [exact Hc|exact Hb|].
  rewrite Hq, N.add_0_l, <- Hlen. apply seek_blen.
Qed.
