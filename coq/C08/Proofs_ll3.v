(* C08/Proofs_ll3.v — lookup list layout, part 3: readLookupList on the
   emitted bytes. *)
From Coq Require Import List NArith ZArith Bool Lia Permutation.
From Coq Require Import ZifyBool ZifyNat ZifyN.
From Common Require Import Bytes Outcome.
From Gen Require Import C08.
From C08 Require Import Model ModelLL Proofs Proofs_ll Proofs_ll2.
Import ListNotations.
Local Open Scope N_scope.
Ltac Zify.zify_post_hook ::= Z.div_mod_to_equations.

(* regenerated constants the argument depends on *)
Lemma c08_maxSubtableOffset_val : c08_maxSubtableOffset = 65535.
Proof. vm_compute. reflexivity. Qed.
Lemma c08_objects_le : c08_maxObjectsWrite <= c08_maxObjectsRead.
Proof. vm_compute. discriminate. Qed.
Lemma c08_maxSubtables_le : c08_maxSubtables <= 65536.
Proof. vm_compute. discriminate. Qed.
Lemma c08_maxLookups_le : c08_maxLookups <= 65536.
Proof. vm_compute. discriminate. Qed.


(* ------------------------------------------------------------------ *)
(* total size                                                          *)

Lemma parts_total ll : forall i big repl,
  let '(R, M, E) := parts i ll big repl in
  sum_sizes R + sum_sizes M + sum_sizes E <= sum_lsize ll + 8 * total_subs ll.
Proof.
  induction ll as [|l r IH]; intros i big repl; cbn [parts sum_lsize total_subs]; [cbn; lia|].
  specialize (IH (i + 1) big repl).
  destruct (parts (i + 1) r big repl) as [[R M] E].
  assert (Hs : sum_sizes (sub_chunks i 0 (lk_subs l)) = lsize l - hdr_len l).
  { unfold lsize. rewrite (sub_chunks_sum i 0 _ 0 0). lia. }
  assert (Hl : hdr_len l <= lsize l) by (unfold lsize; lia).
  destruct (i =? big).
  - cbn [sum_sizes table_chunk c_size]. rewrite sum_sizes_app, Hs. lia.
  - destruct (mem i repl); cbn [sum_sizes table_chunk c_size]; rewrite !sum_sizes_app.
    + rewrite ext_chunks_sum, Hs. unfold nsubs. lia.
    + rewrite Hs. lia.
Qed.

Lemma layout_total ll L : M_ll_layout ll = Ok L -> sum_sizes L < 4294967296.
Proof.
  intros H. pose proof (layout_shape_of ll L H) as Hs. revert H. unfold M_ll_layout.
  destruct (c08_maxLookups <=? _); [discriminate|].
  destruct (c08_maxObjectsWrite <? _); [discriminate|].
  destruct (existsb _ ll); [discriminate|].
  destruct (4294967296 <=? _) eqn:Hg; [discriminate|]. intros _.
  rewrite sum_header, lookup_chunks_sum in Hg.
  destruct Hs as [-> _ | big repl R M E Hparts -> _ _ _].
  - rewrite sum_header, lookup_chunks_sum. lia.
  - pose proof (parts_total ll 0 big repl) as Ht. rewrite Hparts in Ht.
    rewrite sum_sizes_app, sum_header, sum_sizes_app. lia.
Qed.

Lemma layout_guards ll L : M_ll_layout ll = Ok L ->
  N.of_nat (length ll) < c08_maxLookups /\
  N.of_nat (length ll) + total_subs ll <= c08_maxObjectsWrite /\
  Forall (fun l => nsubs l < c08_maxSubtables) ll.
Proof.
  unfold M_ll_layout.
  destruct (c08_maxLookups <=? _) eqn:E1; [discriminate|].
  destruct (c08_maxObjectsWrite <? _) eqn:E2; [discriminate|].
  destruct (existsb _ ll) eqn:E3; [discriminate|]. intros _.
  repeat split; try lia.
  apply Forall_forall. intros l Hl.
  destruct (c08_maxSubtables <=? nsubs l) eqn:E; [|lia].
  assert (existsb (fun l => c08_maxSubtables <=? nsubs l) ll = true)
    by (apply existsb_exists; exists l; split; assumption).
  congruence.
Qed.

(* ------------------------------------------------------------------ *)
(* where ext chunks can be                                             *)

Lemma ext_chunks_s i subs : forall j c, In c (ext_chunks i j subs) -> c_s c < j + N.of_nat (length subs).
Proof.
  induction subs as [|b r IH]; intros j c; cbn [ext_chunks In length]; [tauto|].
  intros [<-|H]; [cbn; lia|]. apply IH in H. lia.
Qed.

Lemma parts_R_ext_inv ll : forall i big repl c,
  In c (fst (fst (parts i ll big repl))) -> c_kind c = KExt ->
  exists l, nth_error ll (N.to_nat (c_t c - i)) = Some l /\ i <= c_t c /\ c_s c < nsubs l.
Proof.
  induction ll as [|l0 r IH]; intros i big repl c; cbn [parts]; [intros []|].
  specialize (IH (i + 1) big repl c).
  destruct (parts (i + 1) r big repl) as [[R M] E]. cbn [fst] in IH.
  assert (Hrec : In c R -> c_kind c = KExt ->
            exists l, nth_error (l0 :: r) (N.to_nat (c_t c - i)) = Some l /\ i <= c_t c /\ c_s c < nsubs l).
  { intros Hc Hk. destruct (IH Hc Hk) as (l & Hl & Hi & Hs). exists l.
    replace (N.to_nat (c_t c - i)) with (S (N.to_nat (c_t c - (i + 1)))) by lia.
    cbn [nth_error]. repeat split; try assumption. lia. }
  destruct (i =? big); cbn [fst]; [exact Hrec|].
  destruct (mem i repl); cbn [fst]; intros [<-|H] Hk; try (cbn in Hk; discriminate).
  - apply in_app_or in H. destruct H as [H|H]; [|auto].
    pose proof (ext_chunks_s _ _ _ _ H) as Hs. apply ext_chunks_t in H. destruct H as (Ht & _ & _).
    exists l0. rewrite Ht. replace (N.to_nat (i - i)) with 0%nat by lia. cbn [nth_error].
    repeat split; try lia. unfold nsubs. lia.
  - apply in_app_or in H. destruct H as [H|H]; [|auto].
    apply sub_chunks_t in H. destruct H as (_ & Hk' & _). congruence.
Qed.

(* ------------------------------------------------------------------ *)
(* per-lookup facts about a layout                                     *)

Definition lookup_facts (L : list chunk) (i : N) (l : lookup) (T : N) : Prop :=
  find_pos KTable i 0 L 0 = Some T /\
  T <= 65535 /\
  ( (* not replaced: no extension record, every subtable present *)
    ((forall j, find_pos KExt i j L 0 = None) /\
     (forall j b, nth_error (lk_subs l) j = Some b ->
        exists S, find_pos KSub i (N.of_nat j) L 0 = Some S))
    \/
    (* replaced: extension record before the subtable *)
    (lk_subs l <> [] /\
     forall j b, nth_error (lk_subs l) j = Some b ->
        exists E S, find_pos KExt i (N.of_nat j) L 0 = Some E /\
                    find_pos KSub i (N.of_nat j) L 0 = Some S /\ E <= S) ).

Lemma header_code_false k t s n : k <> KHeader -> code_eqb k t s (header_chunk n) = false.
Proof. intros H. apply code_eqb_kind. cbn. congruence. Qed.

Lemma layout_lookup_facts ll L k l :
  layout_shape ll L -> nth_error ll k = Some l -> exists T, lookup_facts L (N.of_nat k) l T.
Proof.
  intros Hshape Hk. set (i := N.of_nat k).
  assert (Hex : has KTable i 0 L = true ->
                exists T, find_pos KTable i 0 L 0 = Some T /\ T <= 65535).
  { intros Hh. destruct (find_pos_has _ _ _ _ 0 Hh) as [T HT]. exists T. split; [exact HT|].
    eapply tables_fit; eassumption. }
  destruct Hshape as [HL Htl | big repl R M E Hparts HL Hsum Hbig Hrepl].
  - (* plain *)
    assert (Ht : has KTable i 0 L = true).
    { subst L. cbn [has existsb]. rewrite header_code_false by discriminate. cbn [orb].
      pose proof (has_table_chunks ll 0 k l Hk) as H. rewrite N.add_0_l in H. exact H. }
    destruct (Hex Ht) as (T & HT & HTf).
    exists T. split; [exact HT|]. split; [exact HTf|].
    left. split.
    + intros j. apply find_pos_hasnt. subst L. cbn [has existsb].
      rewrite header_code_false by discriminate. apply hasnt_ext_lookup_chunks.
    + intros j b Hj. apply find_pos_has. subst L. cbn [has existsb].
      rewrite header_code_false by discriminate. cbn [orb].
      pose proof (has_sub_lookup_chunks ll 0 k l j b Hk Hj) as H. rewrite N.add_0_l in H. exact H.
  - (* reordered *)
    pose proof (parts_M ll 0 big repl) as HM. rewrite Hparts in HM. cbn [fst snd] in HM.
    replace (big - 0) with big in HM by lia. replace (0 <=? big) with true in HM by lia.
    pose proof (parts_R_In ll 0 big repl) as HRin. rewrite Hparts in HRin. cbn [fst] in HRin.
    pose proof (parts_M_In ll 0 big repl) as HMin. rewrite Hparts in HMin. cbn [fst snd] in HMin.
    pose proof (parts_E_kind ll 0 big repl) as HEk. rewrite Hparts in HEk. cbn [snd] in HEk.
    assert (HhasL : forall kk t s, has kk t s L =
              has kk t s (header_chunk (N.of_nat (length ll)) :: R) || has kk t s M || has kk t s E).
    { intros. subst L. rewrite !has_app. now rewrite orb_assoc. }
    assert (HhR : forall kk t s, kk <> KHeader ->
              has kk t s (header_chunk (N.of_nat (length ll)) :: R) = has kk t s R).
    { intros kk t s Hkk. cbn [has existsb]. now rewrite header_code_false. }
    assert (HnoExtME : forall t s, has KExt t s M = false /\ has KExt t s E = false).
    { intros t s. split; apply has_false; intros c Hc; apply code_eqb_kind.
      - destruct (HMin c Hc) as (_ & A & _). exact A.
      - rewrite (HEk c Hc). discriminate. }
    destruct (N.eq_dec i big) as [Eb|Eb].
    + (* the biggest lookup: moved, never replaced *)
      assert (Hkb : nth_error ll (N.to_nat big) = Some l)
        by (rewrite <- Eb; unfold i; rewrite Nnat.Nat2N.id; exact Hk).
      rewrite Hkb in HM.
      assert (Ht : has KTable i 0 L = true).
      { assert (Hc : code_eqb KTable i 0 (table_chunk big l) = true)
          by (apply code_eqb_true; cbn [table_chunk c_kind c_t c_s]; repeat split; congruence).
        rewrite HhasL. subst M. cbn [has existsb]. rewrite Hc. cbn [orb].
        rewrite orb_true_r. reflexivity. }
      destruct (Hex Ht) as (T & HT & HTf).
      exists T. split; [exact HT|]. split; [exact HTf|].
      left. split.
      * intros j. apply find_pos_hasnt. rewrite HhasL, HhR by discriminate.
        destruct (HnoExtME i j) as [-> ->]. rewrite !orb_false_r.
        apply has_false. intros c Hc. destruct (HRin c Hc) as (A & _). apply code_eqb_t. congruence.
      * intros j b Hj. apply find_pos_has. rewrite HhasL.
        assert (has KSub i (N.of_nat j) M = true).
        { subst M. cbn [has existsb]. fold (has KSub i (N.of_nat j) (sub_chunks big 0 (lk_subs l))).
          rewrite Eb. pose proof (has_sub_chunks big (lk_subs l) 0 j b Hj) as H0.
          rewrite N.add_0_l in H0. rewrite H0. apply orb_true_r. }
        rewrite H. rewrite orb_true_r. reflexivity.
    + assert (Ht : has KTable i 0 L = true).
      { rewrite HhasL, HhR by discriminate.
        pose proof (parts_R_table ll 0 big repl k l Hk) as H. rewrite Hparts, N.add_0_l in H. cbn [fst] in H. fold i in H.
        rewrite (H Eb). reflexivity. }
      destruct (Hex Ht) as (T & HT & HTf).
      exists T. split; [exact HT|]. split; [exact HTf|].
      destruct (mem i repl) eqn:Em.
      * destruct (lk_subs l) as [|b0 subs'] eqn:Esubs.
        -- (* in the replaced set, but nothing to replace *)
           left. split; [|intros j b Hj; destruct j; discriminate].
           intros j. apply find_pos_hasnt. rewrite HhasL, HhR by discriminate.
           destruct (HnoExtME i j) as [-> ->]. rewrite !orb_false_r.
           apply has_false. intros c Hc.
           destruct (code_eqb KExt i j c) eqn:Ec; [|reflexivity].
           apply code_eqb_true in Ec. destruct Ec as (Ek & Et & Es).
           pose proof (parts_R_ext_inv ll 0 big repl c) as Hinv. rewrite Hparts in Hinv. cbn [fst] in Hinv.
           destruct (Hinv Hc Ek) as (l' & Hl' & _ & Hs').
           rewrite Et in Hl'. replace (N.to_nat (i - 0)) with k in Hl' by (unfold i; lia).
           rewrite Hk in Hl'. injection Hl' as <-. unfold nsubs in Hs'. rewrite Esubs in Hs'. cbn in Hs'. lia.
        -- right. rewrite <- Esubs. split; [rewrite Esubs; discriminate|].
           intros j b Hj.
           pose proof (parts_R_ext ll 0 big repl k l j b Hk Hj) as HRe.
           rewrite Hparts, N.add_0_l in HRe. cbn [fst] in HRe. fold i in HRe. specialize (HRe Eb Em).
           pose proof (parts_E_sub ll 0 big repl k l j b Hk Hj) as HEs.
           rewrite Hparts, N.add_0_l in HEs. cbn [snd] in HEs. fold i in HEs. specialize (HEs Eb Em).
           assert (HnoR : has KSub i (N.of_nat j) (header_chunk (N.of_nat (length ll)) :: R) = false).
           { rewrite HhR by discriminate. apply has_false. intros c Hc.
             destruct (code_eqb KSub i (N.of_nat j) c) eqn:Ec; [|reflexivity].
             apply code_eqb_true in Ec. destruct Ec as (Ek & Et & _).
             destruct (HRin c Hc) as (_ & _ & A & _). specialize (A Ek). rewrite Et in A. congruence. }
           assert (HnoM : has KSub i (N.of_nat j) M = false).
           { apply has_false. intros c Hc. destruct (HMin c Hc) as (A & _). apply code_eqb_t. congruence. }
           subst L.
           assert (HReH : has KExt i (N.of_nat j) (header_chunk (N.of_nat (length ll)) :: R) = true)
             by (rewrite HhR by discriminate; exact HRe).
           destruct (find_pos_has _ _ _ _ 0 HReH) as [Ep HEp].
           exists Ep. rewrite !find_pos_app, HEp.
           rewrite (find_pos_hasnt _ _ _ _ _ HnoR), (find_pos_hasnt _ _ _ _ _ HnoM).
           destruct (find_pos_has _ _ _ E (0 + sum_sizes (header_chunk (N.of_nat (length ll)) :: R) + sum_sizes M) HEs) as [Sp HSp].
           exists Sp. repeat split; [exact HSp|].
           apply find_pos_range in HEp. apply find_pos_range in HSp. lia.
      * left. split.
        -- intros j. apply find_pos_hasnt. rewrite HhasL, HhR by discriminate.
           destruct (HnoExtME i j) as [-> ->]. rewrite !orb_false_r.
           apply has_false. intros c Hc.
           destruct (code_eqb KExt i j c) eqn:Ec; [|reflexivity].
           apply code_eqb_true in Ec. destruct Ec as (Ek & Et & _).
           destruct (HRin c Hc) as (_ & _ & _ & A). specialize (A Ek). rewrite Et in A. congruence.
        -- intros j b Hj. apply find_pos_has. rewrite HhasL, HhR by discriminate.
           pose proof (parts_R_sub ll 0 big repl k l j b Hk Hj) as H.
           rewrite Hparts, N.add_0_l in H. cbn [fst] in H. fold i in H. rewrite (H Eb Em). reflexivity.
Qed.
