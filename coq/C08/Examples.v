(* C08/Examples.v — non-vacuity: concrete values through the models. *)
From Coq Require Import List NArith ZArith Bool Lia.
From Common Require Import Bytes Outcome.
From C08 Require Import Model ModelCD ModelLL ModelSub ModelSub2 ModelFL ModelGDEF ModelSL.
Import ListNotations.
Local Open Scope N_scope.

Example cov_enc_f1 :
  M_cov_encode (S_cov_table [3; 9]) = Ok [0;1; 0;2; 0;3; 0;9].
Proof. vm_compute. reflexivity. Qed.

Example cov_enc_f2 :
  M_cov_encode (S_cov_table [3; 4; 5; 6; 7; 8; 20]) = Ok [0;2; 0;2; 0;3; 0;8; 0;0; 0;20; 0;20; 0;6].
Proof. vm_compute. reflexivity. Qed.

Example cov_read_f2 :
  M_cov_read [0;2; 0;2; 0;3; 0;8; 0;0; 0;20; 0;20; 0;6] 0 = Ok (S_cov_pairs [3; 4; 5; 6; 7; 8; 20]).
Proof. vm_compute. reflexivity. Qed.

Example cov_enc_refuses : M_cov_encode [(3, 1%Z); (9, 0%Z)] = Panic.
Proof. vm_compute. reflexivity. Qed.

(* an index used twice: written as coverage {0, 5} or {0, 7} (depending on the
   map iteration order) before fixes/C08-coverage-duplicate-index.diff *)
Example cov_enc_refuses_duplicate : M_cov_encode [(5, 1%Z); (7, 1%Z)] = Panic.
Proof. vm_compute. reflexivity. Qed.

(* ---- classdef ---- *)
Example cd_enc_f1 :
  M_cd_append [(3, 1); (4, 1); (5, 2); (9, 1)] =
  Ok [0;1; 0;3; 0;7; 0;1; 0;1; 0;2; 0;0; 0;0; 0;0; 0;1] /\
  cd_ok [(3, 1); (4, 1); (5, 2); (9, 1)] = true.
Proof. vm_compute. split; reflexivity. Qed.

Example cd_enc_f2 :
  M_cd_append [(3, 1); (900, 1)] = Ok [0;2; 0;2; 0;3; 0;3; 0;1; 3;132; 3;132; 0;1].
Proof. vm_compute. reflexivity. Qed.

Example cd_read_f2 :
  M_cd_read [0;2; 0;2; 0;3; 0;3; 0;1; 3;132; 3;132; 0;1] 0 = Ok [(3, 1); (900, 1)].
Proof. vm_compute. reflexivity. Qed.

(* the witness of DESIGN 5.A-13: every glyph id 0..65535 classified, classes
   alternating 1,2,1,2,...: 65536 ranges, not representable; refused loudly by
   the repaired code (before the repair: 6 bytes written, 131078 declared) *)
Fixpoint alternating (n : nat) (g : N) : list (N * N) :=
  match n with O => [] | S n' => (g, g mod 2 + 1) :: alternating n' (g + 1) end.
Definition fullrange_witness : list (N * N) := alternating (N.to_nat 65536) 0.

Example classdef_fullrange_refused :
  cd_ok fullrange_witness = true /\ M_cd_append fullrange_witness = Panic.
Proof. vm_compute. split; reflexivity. Qed.

(* a full-range table that is representable is still encoded *)
Example classdef_fullrange_ok :
  exists b, M_cd_append ((0, 1) :: (65535, 2) :: nil) = Ok b /\ length b = 16%nat.
Proof. eexists. vm_compute. split; reflexivity. Qed.

(* ---- lookup lists ---- *)
Definition blob (n : N) (x : N) : list N := repeat x (N.to_nat n).
Definition lk (tp : N) (subs : list (list N)) : lookup :=
  {| lk_type := tp; lk_flags := 0; lk_mfs := 0; lk_subs := subs |}.

(* small list: header, two lookup tables, subtables in place *)
Example ll_small :
  M_ll_encode [lk 1 [[7; 7; 7]; [8; 8]]; {| lk_type := 2; lk_flags := 16; lk_mfs := 5; lk_subs := [[9]] |}] 7 =
  Ok [0;2; 0;6; 0;21;  0;1; 0;0; 0;2; 0;10; 0;13; 7;7;7; 8;8;  0;2; 0;16; 0;1; 0;10; 0;5; 9].
Proof. vm_compute. reflexivity. Qed.

(* four lookups of 30000 bytes each: too large for 16-bit lookup offsets;
   the biggest moves to the end, one lookup gets an extension record; the
   hypotheses of the theorems hold and the list reads back *)
Definition ll_big : list lookup :=
  [lk 1 [blob 30000 1]; lk 2 [blob 30000 2]; lk 3 [blob 30000 3]; lk 4 [blob 30000 4]].
Example ll_big_ok :
  Forall (lookup_ok 7) ll_big /\
  match M_ll_encode ll_big 7 with
  | Ok b => N.of_nat (length b) = 120050 /\
            match M_ll_read b 0 7 with
            | Ok obs => map (fun o => (lo_type o, lo_subpos o)) obs =
                        [(1, [18]); (2, [30026]); (3, [90050]); (4, [60050])]
            | _ => False
            end
  | _ => False
  end.
Proof.
  split.
  - repeat constructor; cbn; try lia; discriminate.
  - vm_compute. split; reflexivity.
Qed.

(* the witness of DESIGN 5.A-14: one lookup with three subtables of 40000
   bytes: refused loudly by the repaired code (before: truncated offsets) *)
Example ll_A14_refused :
  M_ll_encode [lk 1 [blob 40000 1; blob 40000 2; blob 40000 3]] 7 = Panic.
Proof. vm_compute. reflexivity. Qed.

(* extension records needed but the table kind unknown: refused *)
Example ll_ext_unknown_refused : M_ll_encode ll_big 0 = Panic.
Proof. vm_compute. reflexivity. Qed.

(* ---- value records and subtables ---- *)
Definition vr1 : option vrec :=
  Some {| v_xp := 0; v_yp := (-5); v_xa := 7; v_ya := 0; v_xpd := 0; v_ypd := 0; v_xad := 9; v_yad := 0 |}.
Example vr_own : M_vr_format vr1 = 70 /\ M_vr_encode 70 vr1 = [255;251; 0;7; 0;9] /\ M_vr_encode_len 70 = 6.
Proof. vm_compute. repeat split. Qed.
Example vr_hyps : vr_ok vr1 /\ vr_covers 70 vr1 /\ vr_covers 255 None.
Proof. cbn. repeat split; try lia; intros; try reflexivity; congruence. Qed.

Example gsub12_example :
  M_gsub12_encode (S_cov_table [3; 4; 5]) [7; 8; 9] =
    Ok [0;2; 0;12; 0;3; 0;7; 0;8; 0;9;  0;1; 0;3; 0;3; 0;4; 0;5] /\
  M_gsub12_read [0;2; 0;12; 0;3; 0;7; 0;8; 0;9;  0;1; 0;3; 0;3; 0;4; 0;5] 0 =
    Ok (S_cov_pairs [3; 4; 5], [7; 8; 9]).
Proof. vm_compute. split; reflexivity. Qed.

(* reader pruning: two substitutes for three covered glyphs *)
Example gsub12_pruned :
  M_gsub12_read [0;2; 0;10; 0;2; 0;7; 0;8;  0;1; 0;3; 0;3; 0;4; 0;5] 0 =
    Ok (S_cov_pairs [3; 4], [7; 8]).
Proof. vm_compute. reflexivity. Qed.

Example gsub21_example :
  match M_gsubseq_encode (S_cov_table [3; 4]) [[1; 2]; [5]] with
  | Ok b => M_gsubseq_read b 0 = Ok (S_cov_pairs [3; 4], [[1; 2]; [5]]) /\
            M_gsubseq_len (S_cov_table [3; 4]) [[1; 2]; [5]] = Ok (lenN b)
  | _ => False
  end.
Proof. vm_compute. split; reflexivity. Qed.

(* GPOS 1.2: nil next to a non-zero record comes back as the zero record *)
Example gpos12_example :
  match M_gpos12_encode (S_cov_table [3; 4]) [None; vr1] with
  | Ok b => M_gpos12_read b 0 = Ok (S_cov_pairs [3; 4], [Some vr_zero; vr1])
  | _ => False
  end.
Proof. vm_compute. reflexivity. Qed.

(* the repaired defect: 32765 substitutes put the coverage table beyond 65535 *)
Example gsub12_overflow_refused :
  M_gsub12_encode (S_cov_table [1]) (repeat 1 (N.to_nat 32765)) = Panic.
Proof. vm_compute. reflexivity. Qed.

(* ---- feature list ---- *)
Example fl_example :
  match M_fl_encode [([108; 105; 103; 97], [0; 2]); ([107; 101; 114; 110], [])] with
  | Ok b => b = [0;2;  108;105;103;97; 0;14;  107;101;114;110; 0;22;  0;0; 0;2; 0;0; 0;2;  0;0; 0;0] /\
            M_fl_read b 0 = Ok [([108; 105; 103; 97], [0; 2]); ([107; 101; 114; 110], [])]
  | _ => False
  end.
Proof. vm_compute. split; reflexivity. Qed.

(* GSUB 4.1: f -> {f i -> fi, f f i -> ffi}; the set of glyph 4 is empty *)
Example gsub41_example :
  match M_gsub41_encode (S_cov_table [3; 4]) [[(90, [8]); (91, [3; 8])]; []] with
  | Ok b => M_gsub41_read b 0 = Ok (S_cov_pairs [3; 4], [[(90, [8]); (91, [3; 8])]; []]) /\
            M_gsub41_len (S_cov_table [3; 4]) [[(90, [8]); (91, [3; 8])]; []] = Ok (lenN b)
  | _ => False
  end.
Proof. vm_compute. split; reflexivity. Qed.

(* GPOS 2.1: two left glyphs; Second is nil everywhere (format 0: stays nil),
   First nil next to a real record comes back as the zero record *)
Definition gp21 : list pgroup := [(3, [(7, (vr1, None)); (9, (None, None))]); (5, [(7, (vr1, None))])].
Example gpos21_example :
  match M_gpos21_encode gp21 with
  | Ok b => M_gpos21_read b 0 = Ok [(3, [(7, (vr1, None)); (9, (Some vr_zero, None))]); (5, [(7, (vr1, None))])] /\
            M_gpos21_len gp21 = Ok (lenN b)
  | _ => False
  end.
Proof. vm_compute. split; reflexivity. Qed.

(* ---- GDEF ---- *)
Definition gd : gdef := {| g_gc := Some [(3, 1); (4, 3)]; g_mac := None; g_sets := Some [[4; 5]; []] |}.
Example gdef_example :
  match M_gdef_encode gd with
  | Ok b => M_gdef_read b = Ok gd /\ lenN b = 14 + 10 + 12 + 8 + 4
  | _ => False
  end.
Proof. vm_compute. split; reflexivity. Qed.

(* ---- script list ---- *)
Definition latn := [108; 97; 116; 110].
Definition eng := [69; 78; 71; 32].
Definition sl1 : list script_entry := [((latn, Some (65535, [0; 2])), [(eng, (1, [3]))])].
Example scriptlist_example :
  match M_sl_encode sl1 with
  | Ok b => M_sl_read (fun _ _ => true) b 0 =
              Ok [((latn, []), (65535, [0; 2])); ((latn, eng), (1, [3]))] /\ lenN b = 2 + 6 + 4 + 6 + 10 + 8
  | _ => False
  end.
Proof. vm_compute. split; reflexivity. Qed.
Example scriptlist_hyps : Forall (entry_rd_ok (fun _ _ => true)) sl1 /\ total_work sl1 <= maxWork.
Proof.
  split; [|vm_compute; discriminate].
  repeat constructor; cbn; try lia; repeat constructor; cbn; lia.
Qed.
