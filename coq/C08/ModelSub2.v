(* C08/ModelSub2.v — executable model of GPOS 2.1 (pair adjustment, format 1):
   Gpos2_1.encodeLen / encode (with CovAndAdjust) and readGpos2_1, with
   fixes/C08-subtable-offset-guards.diff and fixes/C08-gpos21-pair-count.diff
   applied (a pair set offset or pair count beyond 16 bits panics).

   The Go value is a map (left, right) -> PairAdjust{First, Second}; its
   canonical form groups the pairs by the left glyph:
     [(left, [(right, (first, second)); ...]); ...]
   with lefts and, inside a group, rights strictly increasing and no empty
   group (a left glyph is a key only if it has a pair). *)
From Coq Require Import List NArith ZArith Bool Lia.
From Common Require Import Bytes Outcome.
From C08 Require Import Model ModelCD ModelSub.
Import ListNotations.
Local Open Scope N_scope.

Definition vr2 := (option vrec * option vrec)%type.
Definition pitem := (N * vr2)%type.
Definition pgroup := (N * list pitem)%type.

Definition all_items (gs : list pgroup) : list pitem := flat_map snd gs.
(* valueFormat1 |= v.First.getFormat(); valueFormat2 |= v.Second.getFormat() *)
Definition vf1_of (gs : list pgroup) : N := vr_union (map (fun it => fst (snd it)) (all_items gs)).
Definition vf2_of (gs : list pgroup) : N := vr_union (map (fun it => snd (snd it)) (all_items gs)).

Definition item_size (f1 f2 : N) : N := 2 + M_vr_encode_len f1 + M_vr_encode_len f2.
Definition pset_size (f1 f2 : N) (items : list pitem) : N := 2 + item_size f1 f2 * lenN items.

Fixpoint psets_size (f1 f2 : N) (gs : list pgroup) : N :=
  match gs with [] => 0 | g :: r => pset_size f1 f2 (snd g) + psets_size f1 f2 r end.

Definition M_gpos21_len (gs : list pgroup) : outcome N :=
  n <- M_cov_encode_len (S_cov_table (map fst gs)) ;;
  Ok (10 + 2 * lenN gs + n + psets_size (vf1_of gs) (vf2_of gs) gs).

(* pairSetOffsets[i] = uint16(total), refused when total or the pair count
   does not fit *)
Fixpoint pset_offs (f1 f2 : N) (gs : list pgroup) (off : N) : outcome (list N) :=
  match gs with
  | [] => Ok []
  | g :: r =>
    if (65535 <? off) || (65535 <? lenN (snd g)) then Panic
    else tl <- pset_offs f1 f2 r (off + pset_size f1 f2 (snd g)) ;; Ok (off :: tl)
  end.

Definition item_bytes (f1 f2 : N) (it : pitem) : list N :=
  be16 (fst it) ++ M_vr_encode f1 (fst (snd it)) ++ M_vr_encode f2 (snd (snd it)).
Definition pset_bytes (f1 f2 : N) (g : pgroup) : list N :=
  be16 (lenN (snd g)) ++ flat_map (item_bytes f1 f2) (snd g).

Definition M_gpos21_encode (gs : list pgroup) : outcome (list N) :=
  let cnt := lenN gs in
  let f1 := vf1_of gs in
  let f2 := vf2_of gs in
  cb <- M_cov_encode (S_cov_table (map fst gs)) ;;
  offs <- pset_offs f1 f2 gs (10 + 2 * cnt + lenN cb) ;;
  Ok ([0; 1] ++ be16 (10 + 2 * cnt) ++ be16 f1 ++ be16 f2 ++ be16 cnt ++ flat_map be16 offs ++
      cb ++ flat_map (pset_bytes f1 f2) gs).

(* ---- reader ---- *)

(* adj[secondGlyph] = ...: a map, later records overwrite; kept sorted
   decreasingly by the second glyph *)
Fixpoint ins_item (k : N) (v : vr2) (acc : list pitem) : list pitem :=
  match acc with
  | [] => [(k, v)]
  | (k', v') :: tl =>
    if k' <? k then (k, v) :: acc
    else if k' =? k then (k, v) :: tl
    else (k', v') :: ins_item k v tl
  end.

Fixpoint rd_pairs (n : nat) (f1 f2 : N) (r : list N) (acc : list pitem) : outcome (list pitem) :=
  match n with
  | O => Ok (rev_append acc [])
  | S n' =>
    match r with
    | a :: b :: r1 =>
      x1 <- M_vr_read f1 r1 ;;
      x2 <- M_vr_read f2 (snd x1) ;;
      rd_pairs n' f1 f2 (snd x2) (ins_item (w16 a b) (fst x1, fst x2) acc)
    | _ => Err
    end
  end.

Definition rd_pairset (data : list N) (p f1 f2 : N) : outcome (list pitem) :=
  match seek data p with
  | a :: b :: r => rd_pairs (N.to_nat (w16 a b)) f1 f2 r []
  | _ => Err
  end.

Fixpoint rd_pairsets (data : list N) (pos f1 f2 : N) (offs : list N) : outcome (list (list pitem)) :=
  match offs with
  | [] => Ok []
  | o :: r =>
    s <- rd_pairset data (pos + o) f1 f2 ;;
    tl <- rd_pairsets data pos f1 f2 r ;;
    Ok (s :: tl)
  end.

(* for first, i := range cov { for second, a := range adjust[i] { res[{first, second}] = a } } *)
Fixpoint regroup (cov : list (N * N)) (sets : list (list pitem)) : list pgroup :=
  match cov with
  | [] => []
  | (g, i) :: r =>
    match nth (N.to_nat i) sets [] with
    | [] => regroup r sets                       (* no pair: the glyph is not a key of the map *)
    | items => (g, items) :: regroup r sets
    end
  end.

Definition M_gpos21_read (data : list N) (pos : N) : outcome (list pgroup) :=
  match seek data (pos + 2) with
  | a :: b :: c :: d :: e :: f :: g :: h :: r =>
    let f1 := w16 c d in
    let f2 := w16 e f in
    x <- rd_u16s (N.to_nat (w16 g h)) r ;;
    cov <- M_cov_read data (pos + w16 a b) ;;
    let pr := prune_pair cov (fst x) in
    sets <- rd_pairsets data pos f1 f2 (snd pr) ;;
    Ok (regroup (fst pr) sets)
  | _ => Err
  end.

(* ---- specification side ---- *)

Definition item_ok (it : pitem) : Prop := vr_ok (fst (snd it)) /\ vr_ok (snd (snd it)).
Definition group_ok (g : pgroup) : Prop :=
  snd g <> [] /\ inc_from (-1) (map fst (snd g)) = true /\ glyphs_ok (map fst (snd g)) = true /\
  Forall item_ok (snd g).

(* nil = all-zero record, per side, decided by the common value format *)
Definition norm_item (f1 f2 : N) (it : pitem) : pitem :=
  (fst it, (vr_norm f1 (fst (snd it)), vr_norm f2 (snd (snd it)))).
Definition norm_groups (gs : list pgroup) : list pgroup :=
  map (fun g => (fst g, map (norm_item (vf1_of gs) (vf2_of gs)) (snd g))) gs.

(* ---- the dispatcher, extended by GPOS 2.1 ---- *)
Inductive subtable2 := S1 (s : subtable) | SGpos21 (gs : list pgroup).

Definition M_sub_read2 (gpos : bool) (data : list N) (pos : N) (lookupType : N) : outcome subtable2 :=
  match seek data pos with
  | a :: b :: _ =>
    if gpos && (lookupType =? 2) && (w16 a b =? 1)
    then gs <- M_gpos21_read data pos ;; Ok (SGpos21 gs)
    else s <- M_sub_read gpos data pos lookupType ;; Ok (S1 s)
  | _ => Err
  end.
