(* C08/Proofs_sub2.v — GSUB 4.1 (ligature substitution). *)
From Coq Require Import List NArith ZArith Bool Lia.
From Coq Require Import ZifyBool ZifyNat ZifyN.
From Common Require Import Bytes Outcome.
From C08 Require Import Model ModelCD ModelSub Proofs Proofs_sub.
Import ListNotations.
Local Open Scope N_scope.
Ltac Zify.zify_post_hook ::= Z.div_mod_to_equations.

Lemma lig_bytes_lenN l : lenN (lig_bytes l) = lig_size l.
Proof. unfold lig_bytes, lig_size. lens. lia. Qed.

Lemma ligs_lenN ls : lenN (flat_map lig_bytes ls) = ligs_size ls.
Proof.
  induction ls as [|l r IH]; cbn [flat_map ligs_size]; [reflexivity|].
  now rewrite lenN_app, IH, lig_bytes_lenN.
Qed.

Lemma lig_offs_length ls : forall p, length (lig_offs ls p) = length ls.
Proof. induction ls as [|l r IH]; intros p; cbn [lig_offs length]; [reflexivity|]. now rewrite IH. Qed.

Lemma set_offs_length ss : forall p, length (set_offs ss p) = length ss.
Proof. induction ss as [|s r IH]; intros p; cbn [set_offs length]; [reflexivity|]. now rewrite IH. Qed.

Lemma set_bytes_lenN s : lenN (set_bytes s) = set_size s.
Proof.
  unfold set_bytes, set_size. lens. rewrite ligs_lenN.
  unfold lenN at 1. rewrite lig_offs_length. fold (lenN s). lia.
Qed.

Lemma sets_lenN ss : lenN (flat_map set_bytes ss) = sets_size ss.
Proof.
  induction ss as [|s r IH]; cbn [flat_map sets_size]; [reflexivity|].
  now rewrite lenN_app, IH, set_bytes_lenN.
Qed.

Lemma lig_offs_bound ls : forall p, Forall (fun o => o < p + ligs_size ls) (lig_offs ls p).
Proof.
  induction ls as [|l r IH]; intros p; cbn [lig_offs ligs_size]; constructor.
  - unfold lig_size. lia.
  - eapply Forall_impl; [|apply IH]. cbv beta. intros; lia.
Qed.

Lemma set_offs_bound ss : forall p, Forall (fun o => o < p + sets_size ss) (set_offs ss p).
Proof.
  induction ss as [|s r IH]; intros p; cbn [set_offs sets_size]; constructor.
  - unfold set_size. lia.
  - eapply Forall_impl; [|apply IH]. cbv beta. intros; lia.
Qed.

(* ---- encodeLen = |encode| ---- *)
Lemma gsub41_len_agrees gl sets b :
  glyphs_ok gl = true -> M_gsub41_encode (S_cov_table gl) sets = Ok b ->
  M_gsub41_len (S_cov_table gl) sets = Ok (lenN b).
Proof.
  unfold M_gsub41_encode, M_gsub41_len. intros Hg.
  destruct (M_cov_encode (S_cov_table gl)) as [cb| | |] eqn:Hc; cbn [obind]; try discriminate.
  destruct (65535 <? _); [discriminate|].
  intros H. apply ok_inj in H. subst b.
  rewrite (cov_encode_len_ok gl cb Hg Hc). cbn [obind]. f_equal.
  lens. rewrite sets_lenN. unfold lenN at 3. rewrite set_offs_length. fold (lenN sets). lia.
Qed.

(* ---- reading the ligatures of one set ---- *)
Lemma rd_ligs_ok setPos tail ls : forall A off,
  Forall lig_ok ls -> lenN A = setPos + off -> off + ligs_size ls <= 65536 ->
  rd_ligs (A ++ flat_map lig_bytes ls ++ tail) setPos (lig_offs ls off) = Ok ls.
Proof.
  induction ls as [|l r IH]; intros A off Hok HA Hb; cbn [lig_offs rd_ligs flat_map]; [reflexivity|].
  apply Forall_cons_iff in Hok. destruct Hok as [[Ho Hg] Hok].
  cbn [ligs_size] in Hb. unfold lig_size in Hb.
  rewrite <- HA. unfold lenN at 1. rewrite <- app_assoc, seek_app.
  unfold lig_bytes at 1. rewrite <- !app_assoc. cbn [be16 app rd_lig].
  rewrite !w16_be16_eq by lia.
  replace ((lenN (snd l) + 1 + 65535) mod 65536) with (lenN (snd l)) by lia.
  unfold lenN at 1. rewrite Nnat.Nat2N.id, rd_u16s_flat by exact Hg. cbn [obind fst].
  specialize (IH (A ++ lig_bytes l) (off + lig_size l) Hok).
  rewrite <- app_assoc in IH. rewrite IH; [destruct l; reflexivity| |unfold lig_size; lia].
  rewrite lenN_app, HA, lig_bytes_lenN. lia.
Qed.

(* ---- reading the sets ---- *)
Lemma rd_sets_ok pos tail ss : forall A off,
  Forall (Forall lig_ok) ss -> lenN A = pos + off -> off + sets_size ss <= 65536 ->
  rd_sets (A ++ flat_map set_bytes ss ++ tail) pos (set_offs ss off) = Ok ss.
Proof.
  induction ss as [|s r IH]; intros A off Hok HA Hb; cbn [set_offs rd_sets flat_map]; [reflexivity|].
  apply Forall_cons_iff in Hok. destruct Hok as [Hs Hok].
  cbn [sets_size] in Hb. unfold set_size in Hb.
  rewrite <- HA. unfold lenN at 1. rewrite <- app_assoc, seek_app.
  unfold set_bytes at 1. rewrite <- !app_assoc.
  assert (Hlo : lenN s = lenN (lig_offs s (2 + 2 * lenN s))) by (unfold lenN; now rewrite lig_offs_length).
  rewrite Hlo at 1.
  rewrite rd_slice_flat.
  2:{ eapply Forall_impl; [|apply lig_offs_bound]. cbv beta. intros; lia. }
  2:{ rewrite <- Hlo. lia. }
  cbn [obind fst].
  (* the ligatures of this set *)
  pose proof (rd_ligs_ok (lenN A) (flat_map set_bytes r ++ tail) s
                (A ++ be16 (lenN s) ++ flat_map be16 (lig_offs s (2 + 2 * lenN s))) (2 + 2 * lenN s) Hs) as Hl.
  rewrite <- !app_assoc in Hl.
  unfold set_bytes at 1. rewrite <- !app_assoc.
  rewrite Hl; [| lens; rewrite <- Hlo; lia | lia].
  cbn [obind].
  specialize (IH (A ++ set_bytes s) (off + set_size s) Hok).
  rewrite <- app_assoc in IH.
  rewrite IH; [reflexivity| |unfold set_size; lia].
  rewrite lenN_app, set_bytes_lenN. lia.
Qed.

Lemma gsub41_roundtrip gl sets b pre post :
  strictly_inc gl = true -> glyphs_ok gl = true -> Forall (Forall lig_ok) sets ->
  length sets = length gl ->
  M_gsub41_encode (S_cov_table gl) sets = Ok b ->
  M_gsub41_read (pre ++ b ++ post) (lenN pre) = Ok (S_cov_pairs gl, sets).
Proof.
  intros Hs Hg Hq Hlen. unfold M_gsub41_encode.
  set (cnt := lenN sets). set (off := 6 + 2 * cnt + sets_size sets).
  destruct (M_cov_encode (S_cov_table gl)) as [cb| | |] eqn:Hc; cbn [obind]; try discriminate.
  destruct (65535 <? off) eqn:Hov; [discriminate|].
  intros H. apply ok_inj in H. subst b.
  set (offs := set_offs sets (6 + 2 * cnt)).
  assert (Hoffs_len : length offs = length sets) by apply set_offs_length.
  assert (Hoffs_ok : Forall (fun x => x < 65536) offs).
  { eapply Forall_impl; [|apply set_offs_bound]. cbv beta. intros; unfold off in Hov; lia. }
  set (hdr := [0; 1] ++ be16 off ++ be16 cnt ++ flat_map be16 offs ++ flat_map set_bytes sets).
  set (D := pre ++ ([0; 1] ++ be16 off ++ be16 cnt ++ flat_map be16 offs ++ flat_map set_bytes sets ++ cb) ++ post).
  assert (HD : D = pre ++ (hdr ++ cb) ++ post) by (unfold D, hdr; now rewrite <- !app_assoc).
  assert (Hseek : seek D (lenN pre + 2)
                  = be16 off ++ be16 cnt ++ flat_map be16 offs ++ flat_map set_bytes sets ++ cb ++ post).
  { unfold D. rewrite <- !app_assoc. apply (seek_at pre [0; 1]). }
  unfold M_gsub41_read. rewrite Hseek. cbn [be16 app]. rewrite w16_be16_eq by lia.
  change ((cnt / 256) mod 256 :: cnt mod 256 :: ?x) with (be16 cnt ++ x).
  assert (Hcnt : cnt = lenN offs) by (unfold cnt, lenN; now rewrite Hoffs_len).
  rewrite Hcnt at 1.
  rewrite rd_slice_flat by (try exact Hoffs_ok; rewrite <- Hcnt; unfold off in Hov; lia).
  cbn [obind fst].
  rewrite HD at 1. rewrite (cov_at gl hdr pre post cb off Hs Hg Hc).
  2:{ unfold hdr. lens. rewrite sets_lenN, <- Hcnt. unfold off. lia. }
  cbn [obind].
  rewrite prune_pair_same by (unfold S_cov_pairs; rewrite cov_pairs_length; lia).
  cbn [fst snd].
  assert (HD2 : D = (pre ++ [0; 1] ++ be16 off ++ be16 cnt ++ flat_map be16 offs) ++
                    flat_map set_bytes sets ++ (cb ++ post))
    by (unfold D; now rewrite <- !app_assoc).
  rewrite HD2. unfold offs.
  rewrite rd_sets_ok; [|exact Hq| |unfold off in Hov; lia].
  - cbn [obind]. fold cnt. fold off. rewrite Hov. reflexivity.
  - lens. fold offs. rewrite <- Hcnt. lia.
Qed.
