(* C08/ModelSub.v — executable models of value records (valuerecord.go), of
   coverage.ReadSet (set.go) and of the subtables GSUB 1.1, 1.2, 2.1, 3.1 and
   GPOS 1.1, 1.2 (gsub.go, gpos.go): encodeLen, encode and the readers with
   their pruning rules.  The encoders mirror the code with
   fixes/C08-subtable-offset-guards.diff applied (a coverage offset beyond
   65535 panics, as Gsub4_1.encode already did, instead of being truncated).

   Canonical forms: a coverage.Set is its strictly increasing glyph list; a
   coverage.Table is the list of its (gid, index) entries sorted by gid. *)
From Coq Require Import List NArith ZArith Bool Lia.
From Common Require Import Bytes Outcome.
From C08 Require Import Model ModelCD.
Import ListNotations.
Local Open Scope N_scope.

(* ------------------------------------------------------------------ *)
(* GposValueRecord                                                     *)

Record vrec := {
  v_xp : Z; v_yp : Z; v_xa : Z; v_ya : Z;        (* funit.Int16 *)
  v_xpd : N; v_ypd : N; v_xad : N; v_yad : N     (* uint16 device offsets *)
}.
Definition vr_zero : vrec := {| v_xp := 0; v_yp := 0; v_xa := 0; v_ya := 0;
                                v_xpd := 0; v_ypd := 0; v_xad := 0; v_yad := 0 |}.

Definition nzZ (z : Z) : bool := negb (z =? 0)%Z.
Definition nzN (n : N) : bool := negb (n =? 0).
Definition bit (b : bool) (m : N) : N := if b then m else 0.

(* getFormat: nil -> 0; all fields zero -> 0x0004 (marks a non-nil record) *)
Definition M_vr_format (v : option vrec) : N :=
  match v with
  | None => 0
  | Some r =>
    let f := bit (nzZ (v_xp r)) 1 + bit (nzZ (v_yp r)) 2 + bit (nzZ (v_xa r)) 4 + bit (nzZ (v_ya r)) 8 +
             bit (nzN (v_xpd r)) 16 + bit (nzN (v_ypd r)) 32 + bit (nzN (v_xad r)) 64 + bit (nzN (v_yad r)) 128 in
    if f =? 0 then 4 else f
  end.

(* format & (1 << k) != 0 *)
Definition fbit (fmt : N) (k : N) : bool := N.testbit fmt k.

(* encodeLen: 2 * bits.OnesCount16(format) *)
Fixpoint popcount (n : nat) (k : N) (fmt : N) : N :=
  match n with O => 0 | S n' => (if fbit fmt k then 1 else 0) + popcount n' (k + 1) fmt end.
Definition M_vr_encode_len (fmt : N) : N := 2 * popcount 16 0 fmt.

Definition piece (b : bool) (x : N) : list N := if b then be16 x else [].

Definition M_vr_encode (fmt : N) (v : option vrec) : list N :=
  let r := match v with Some r => r | None => vr_zero end in   (* nil && format != 0 -> &GposValueRecord{} *)
  piece (fbit fmt 0) (of_i16 (v_xp r)) ++ piece (fbit fmt 1) (of_i16 (v_yp r)) ++
  piece (fbit fmt 2) (of_i16 (v_xa r)) ++ piece (fbit fmt 3) (of_i16 (v_ya r)) ++
  piece (fbit fmt 4) (v_xpd r) ++ piece (fbit fmt 5) (v_ypd r) ++
  piece (fbit fmt 6) (v_xad r) ++ piece (fbit fmt 7) (v_yad r).

(* one optional 16-bit field *)
Definition rd_opt (b : bool) (r : list N) : outcome (N * list N) :=
  if b then match r with a :: c :: r' => Ok (w16 a c, r') | _ => Err end
  else Ok (0, r).

Definition M_vr_read (fmt : N) (r : list N) : outcome (option vrec * list N) :=
  if fmt =? 0 then Ok (None, r)
  else
    x0 <- rd_opt (fbit fmt 0) r ;; x1 <- rd_opt (fbit fmt 1) (snd x0) ;;
    x2 <- rd_opt (fbit fmt 2) (snd x1) ;; x3 <- rd_opt (fbit fmt 3) (snd x2) ;;
    x4 <- rd_opt (fbit fmt 4) (snd x3) ;; x5 <- rd_opt (fbit fmt 5) (snd x4) ;;
    x6 <- rd_opt (fbit fmt 6) (snd x5) ;; x7 <- rd_opt (fbit fmt 7) (snd x6) ;;
    Ok (Some {| v_xp := to_i16 (fst x0); v_yp := to_i16 (fst x1);
                v_xa := to_i16 (fst x2); v_ya := to_i16 (fst x3);
                v_xpd := fst x4; v_ypd := fst x5; v_xad := fst x6; v_yad := fst x7 |},
        snd x7).

Definition vr_ok (v : option vrec) : Prop :=
  match v with
  | None => True
  | Some r =>
    (-32768 <= v_xp r < 32768)%Z /\ (-32768 <= v_yp r < 32768)%Z /\
    (-32768 <= v_xa r < 32768)%Z /\ (-32768 <= v_ya r < 32768)%Z /\
    v_xpd r < 65536 /\ v_ypd r < 65536 /\ v_xad r < 65536 /\ v_yad r < 65536
  end.

(* nil and the all-zero record are the same adjustment; the reader returns
   nil exactly when the value format is 0 *)
Definition vr_norm (fmt : N) (v : option vrec) : option vrec :=
  if fmt =? 0 then None else Some (match v with Some r => r | None => vr_zero end).

(* ------------------------------------------------------------------ *)
(* coverage.ReadSet: duplicates tolerated, result = set of glyphs       *)

Fixpoint insk (k : N) (acc : list N) : list N :=      (* acc sorted decreasingly *)
  match acc with
  | [] => [k]
  | k' :: tl => if k' <? k then k :: acc else if k' =? k then acc else k' :: insk k tl
  end.

Fixpoint insk_range (n : nat) (g : N) (acc : list N) : list N :=
  match n with O => acc | S n' => insk_range n' (g + 1) (insk g acc) end.

Fixpoint covset_read1 (cnt : nat) (r : list N) (acc : list N) : outcome (list N) :=
  match cnt with
  | O => Ok (rev_append acc [])
  | S c => match r with a :: b :: r' => covset_read1 c r' (insk (w16 a b) acc) | _ => Err end
  end.

Fixpoint covset_read2 (cnt : nat) (r : list N) (pos : N) (prev : Z) (acc : list N) : outcome (list N) :=
  match cnt with
  | O => Ok (rev_append acc [])
  | S c =>
    match r with
    | a :: b :: c0 :: d :: e :: f :: r' =>
      let s := w16 a b in
      let en := w16 c0 d in
      let sci := w16 e f in
      if negb (sci =? pos) || (Z.of_N s <? prev)%Z || (en <? s) then Err
      else covset_read2 c r' (pos + (en - s + 1)) (Z.of_N en) (insk_range (N.to_nat (en - s + 1)) s acc)
    | _ => Err
    end
  end.

Definition M_covset_read (data : list N) (pos : N) : outcome (list N) :=
  match seek data pos with
  | a :: b :: c :: d :: r =>
    let format := w16 a b in
    let cnt := N.to_nat (w16 c d) in
    if format =? 1 then covset_read1 cnt r []
    else if format =? 2 then covset_read2 cnt r 0 (-1) []
    else Err
  | _ => Err
  end.

(* ------------------------------------------------------------------ *)
(* helpers shared by the subtable readers                              *)

Fixpoint rd_u16s (n : nat) (r : list N) : outcome (list N * list N) :=
  match n with
  | O => Ok ([], r)
  | S n' =>
    match r with
    | a :: b :: r' => x <- rd_u16s n' r' ;; Ok (w16 a b :: fst x, snd x)
    | _ => Err
    end
  end.

(* readGIDSlice / ReadUint16Slice: count, then count values *)
Definition rd_slice (r : list N) : outcome (list N * list N) :=
  match r with
  | a :: b :: r' => rd_u16s (N.to_nat (w16 a b)) r'
  | _ => Err
  end.

(* Table.Prune(size): drop the glyphs whose index is >= size *)
Definition cov_prune (size : N) (t : list (N * N)) : list (N * N) :=
  filter (fun p => snd p <? size) t.

Definition lenN {A} (l : list A) : N := N.of_nat (length l).

(* if len(cov) > len(arr) { cov.Prune(len(arr)) } else { arr = arr[:len(cov)] } *)
Definition prune_pair {A} (cov : list (N * N)) (arr : list A) : list (N * N) * list A :=
  if lenN arr <? lenN cov then (cov_prune (lenN arr) cov, arr)
  else (cov, firstn (length cov) arr).

(* ------------------------------------------------------------------ *)
(* GSUB 1.1  {Cov coverage.Set; Delta glyph.ID}                        *)

Definition M_gsub11_len (gl : list N) : outcome N :=
  n <- M_cov_encode_len (S_cov_table gl) ;; Ok (6 + n).

Definition M_gsub11_encode (gl : list N) (delta : N) : outcome (list N) :=
  cov <- M_cov_encode (S_cov_table gl) ;;
  Ok ([0; 1; 0; 6] ++ be16 delta ++ cov).

(* readGsub1_1, after the dispatcher has read the format word at [pos] *)
Definition M_gsub11_read (data : list N) (pos : N) : outcome (list N * N) :=
  match seek data (pos + 2) with
  | a :: b :: c :: d :: _ =>
    gl <- M_covset_read data (pos + w16 a b) ;; Ok (gl, w16 c d)
  | _ => Err
  end.

(* ------------------------------------------------------------------ *)
(* GSUB 1.2  {Cov coverage.Table; SubstituteGlyphIDs []glyph.ID}        *)

Definition M_gsub12_len (cov : list (N * Z)) (subst : list N) : outcome N :=
  n <- M_cov_encode_len cov ;; Ok (6 + 2 * lenN subst + n).

Definition M_gsub12_encode (cov : list (N * Z)) (subst : list N) : outcome (list N) :=
  let n := lenN subst in
  let covOffs := 6 + 2 * n in
  if 65535 <? covOffs then Panic
  else
    cb <- M_cov_encode cov ;;
    Ok ([0; 2] ++ be16 covOffs ++ be16 n ++ flat_map be16 subst ++ cb).

Definition M_gsub12_read (data : list N) (pos : N) : outcome (list (N * N) * list N) :=
  match seek data (pos + 2) with
  | a :: b :: r =>
    x <- rd_slice r ;;
    cov <- M_cov_read data (pos + w16 a b) ;;
    Ok (prune_pair cov (fst x))
  | _ => Err
  end.

(* ------------------------------------------------------------------ *)
(* GSUB 2.1 {Cov; Repl [][]glyph.ID} and GSUB 3.1 {Cov; Alternates}:
   the same binary layout, written by two copies of the same code        *)

Fixpoint seq_sizes (seqs : list (list N)) : N :=
  match seqs with [] => 0 | s :: r => 2 + 2 * lenN s + seq_sizes r end.

Definition M_gsubseq_len (cov : list (N * Z)) (seqs : list (list N)) : outcome N :=
  n <- M_cov_encode_len cov ;; Ok (6 + 2 * lenN seqs + seq_sizes seqs + n).

(* sequenceOffsets[i] = uint16(covOffs); covOffs += 2 + 2*len(repl) *)
Fixpoint seq_offsets (seqs : list (list N)) (off : N) : list N :=
  match seqs with [] => [] | s :: r => be16 off ++ seq_offsets r (off + 2 + 2 * lenN s) end.

Definition seq_bytes (s : list N) : list N := be16 (lenN s) ++ flat_map be16 s.

Definition M_gsubseq_encode (cov : list (N * Z)) (seqs : list (list N)) : outcome (list N) :=
  let cnt := lenN seqs in
  let covOffs := 6 + 2 * cnt + seq_sizes seqs in
  if 65535 <? covOffs then Panic
  else
    cb <- M_cov_encode cov ;;
    Ok ([0; 1] ++ be16 covOffs ++ be16 cnt ++ seq_offsets seqs (6 + 2 * cnt) ++
        flat_map seq_bytes seqs ++ cb).

Fixpoint rd_seqs (data : list N) (pos : N) (offs : list N) : outcome (list (list N)) :=
  match offs with
  | [] => Ok []
  | o :: r =>
    x <- rd_slice (seek data (pos + o)) ;;
    tl <- rd_seqs data pos r ;;
    Ok (fst x :: tl)
  end.

Definition M_gsubseq_read (data : list N) (pos : N) : outcome (list (N * N) * list (list N)) :=
  match seek data (pos + 2) with
  | a :: b :: r =>
    x <- rd_slice r ;;
    cov <- M_cov_read data (pos + w16 a b) ;;
    let pr := prune_pair cov (fst x) in
    seqs <- rd_seqs data pos (snd pr) ;;
    Ok (fst pr, seqs)
  | _ => Err
  end.

(* ------------------------------------------------------------------ *)
(* GSUB 4.1  {Cov coverage.Table; Repl [][]Ligature{In []glyph.ID; Out}}  *)

Definition lig := (N * list N)%type.                 (* (Out, In) *)
Definition lig_size (l : lig) : N := 4 + 2 * lenN (snd l).
Fixpoint ligs_size (ls : list lig) : N :=
  match ls with [] => 0 | l :: r => lig_size l + ligs_size r end.
Definition set_size (s : list lig) : N := 2 + 2 * lenN s + ligs_size s.
Fixpoint sets_size (ss : list (list lig)) : N :=
  match ss with [] => 0 | s :: r => set_size s + sets_size r end.

Definition M_gsub41_len (cov : list (N * Z)) (sets : list (list lig)) : outcome N :=
  n <- M_cov_encode_len cov ;; Ok (6 + 2 * lenN sets + sets_size sets + n).

(* ligatureSetOffsets[i] = uint16(total); total += size of the set *)
Fixpoint set_offs (ss : list (list lig)) (off : N) : list N :=
  match ss with [] => [] | s :: r => off :: set_offs r (off + set_size s) end.
(* pos := 2 + 2*ligatureCount; for each ligature: write pos; pos += 4 + 2*len(In) *)
Fixpoint lig_offs (ls : list lig) (pos : N) : list N :=
  match ls with [] => [] | l :: r => pos :: lig_offs r (pos + lig_size l) end.

Definition lig_bytes (l : lig) : list N :=
  be16 (fst l) ++ be16 (lenN (snd l) + 1) ++ flat_map be16 (snd l).
Definition set_bytes (s : list lig) : list N :=
  be16 (lenN s) ++ flat_map be16 (lig_offs s (2 + 2 * lenN s)) ++ flat_map lig_bytes s.

Definition M_gsub41_encode (cov : list (N * Z)) (sets : list (list lig)) : outcome (list N) :=
  let cnt := lenN sets in
  let covOffs := 6 + 2 * cnt + sets_size sets in
  cb <- M_cov_encode cov ;;                      (* total += l.Cov.EncodeLen() comes first *)
  if 65535 <? covOffs then Panic                 (* "coverage offset overflow" *)
  else Ok ([0; 1] ++ be16 covOffs ++ be16 cnt ++ flat_map be16 (set_offs sets (6 + 2 * cnt)) ++
           flat_map set_bytes sets ++ cb).

(* ligatureGlyph, componentCount, then componentCount-1 (uint16!) components *)
Definition rd_lig (r : list N) : outcome lig :=
  match r with
  | a :: b :: c :: d :: r' =>
    x <- rd_u16s (N.to_nat ((w16 c d + 65535) mod 65536)) r' ;; Ok (w16 a b, fst x)
  | _ => Err
  end.

Fixpoint rd_ligs (data : list N) (setPos : N) (offs : list N) : outcome (list lig) :=
  match offs with
  | [] => Ok []
  | o :: r =>
    l <- rd_lig (seek data (setPos + o)) ;;
    tl <- rd_ligs data setPos r ;;
    Ok (l :: tl)
  end.

Fixpoint rd_sets (data : list N) (pos : N) (offs : list N) : outcome (list (list lig)) :=
  match offs with
  | [] => Ok []
  | o :: r =>
    x <- rd_slice (seek data (pos + o)) ;;
    s <- rd_ligs data (pos + o) (fst x) ;;
    tl <- rd_sets data pos r ;;
    Ok (s :: tl)
  end.

Definition M_gsub41_read (data : list N) (pos : N) : outcome (list (N * N) * list (list lig)) :=
  match seek data (pos + 2) with
  | a :: b :: r =>
    x <- rd_slice r ;;
    cov <- M_cov_read data (pos + w16 a b) ;;
    let pr := prune_pair cov (fst x) in
    sets <- rd_sets data pos (snd pr) ;;
    if 65535 <? 6 + 2 * lenN sets + sets_size sets then Err     (* "GSUB 4.1 too large" *)
    else Ok (fst pr, sets)
  | _ => Err
  end.

(* ------------------------------------------------------------------ *)
(* GPOS 1.1  {Cov coverage.Table; Adjust *GposValueRecord}              *)

Definition M_gpos11_len (cov : list (N * Z)) (adj : option vrec) : outcome N :=
  n <- M_cov_encode_len cov ;; Ok (6 + M_vr_encode_len (M_vr_format adj) + n).

Definition M_gpos11_encode (cov : list (N * Z)) (adj : option vrec) : outcome (list N) :=
  let fmt := M_vr_format adj in
  let covOffs := 6 + M_vr_encode_len fmt in
  cb <- M_cov_encode cov ;;
  Ok ([0; 1] ++ be16 covOffs ++ be16 fmt ++ M_vr_encode fmt adj ++ cb).

Definition M_gpos11_read (data : list N) (pos : N) : outcome (list (N * N) * option vrec) :=
  match seek data (pos + 2) with
  | a :: b :: c :: d :: r =>
    x <- M_vr_read (w16 c d) r ;;
    cov <- M_cov_read data (pos + w16 a b) ;;
    Ok (cov, fst x)
  | _ => Err
  end.

(* ------------------------------------------------------------------ *)
(* GPOS 1.2  {Cov coverage.Table; Adjust []*GposValueRecord}            *)

Definition vr_union (adj : list (option vrec)) : N :=
  fold_left (fun f v => N.lor f (M_vr_format v)) adj 0.

Definition M_gpos12_len (cov : list (N * Z)) (adj : list (option vrec)) : outcome N :=
  n <- M_cov_encode_len cov ;;
  Ok (8 + (match adj with [] => 0 | _ => M_vr_encode_len (vr_union adj) * lenN adj end) + n).

Definition M_gpos12_encode (cov : list (N * Z)) (adj : list (option vrec)) : outcome (list N) :=
  let fmt := vr_union adj in
  let cnt := lenN adj in
  let covOffs := 8 + (match adj with [] => 0 | _ => M_vr_encode_len fmt * cnt end) in
  cb <- M_cov_encode cov ;;                    (* total += l.Cov.EncodeLen() comes first *)
  if (65535 <? covOffs) || (65535 <? cnt) then Panic
  else Ok ([0; 2] ++ be16 covOffs ++ be16 fmt ++ be16 cnt ++ flat_map (M_vr_encode fmt) adj ++ cb).

Fixpoint rd_vrs (n : nat) (fmt : N) (r : list N) : outcome (list (option vrec) * list N) :=
  match n with
  | O => Ok ([], r)
  | S n' =>
    x <- M_vr_read fmt r ;;
    tl <- rd_vrs n' fmt (snd x) ;;
    Ok (fst x :: fst tl, snd tl)
  end.

(* if len(vr) > len(cov) { vr = vr[:len(cov)] } else if len(vr) < len(cov) { cov.Prune(len(vr)) } *)
Definition M_gpos12_read (data : list N) (pos : N)
  : outcome (list (N * N) * list (option vrec)) :=
  match seek data (pos + 2) with
  | a :: b :: c :: d :: e :: f :: r =>
    x <- rd_vrs (N.to_nat (w16 e f)) (w16 c d) r ;;
    cov <- M_cov_read data (pos + w16 a b) ;;
    Ok (prune_pair cov (fst x))
  | _ => Err
  end.

(* ------------------------------------------------------------------ *)
(* the dispatchers readGsubSubtable / readGposSubtable (modelled keys)  *)

Inductive subtable :=
| SGsub11 (gl : list N) (delta : N)
| SGsub12 (cov : list (N * N)) (subst : list N)
| SGsub21 (cov : list (N * N)) (seqs : list (list N))
| SGsub31 (cov : list (N * N)) (seqs : list (list N))
| SGsub41 (cov : list (N * N)) (sets : list (list lig))
| SGpos11 (cov : list (N * N)) (adj : option vrec)
| SGpos12 (cov : list (N * N)) (adj : list (option vrec)).

(* the keys of gsubReaders / gposReaders *)
Definition gsub_keys : list N := [11; 12; 21; 31; 41; 51; 52; 53; 61; 62; 63; 71; 81].
Definition gpos_keys : list N := [11; 12; 21; 22; 31; 41; 51; 61; 71; 72; 73; 81; 82; 83; 91].
Definition memN (x : N) (l : list N) : bool := existsb (N.eqb x) l.

(* reader, ok := gsubReaders[10*meta.LookupType+format]  (uint16 arithmetic);
   keys whose readers are not modelled here answer OutOfFuel *)
Definition M_sub_read (gpos : bool) (data : list N) (pos : N) (lookupType : N) : outcome subtable :=
  match seek data pos with
  | a :: b :: _ =>
    let key := (10 * lookupType + w16 a b) mod 65536 in
    if (10 <=? lookupType) || (10 <=? w16 a b) then Err    (* the key is uint16 arithmetic *)
    else if gpos then
      if negb (memN key gpos_keys) then Err
      else if key =? 11 then x <- M_gpos11_read data pos ;; Ok (SGpos11 (fst x) (snd x))
      else if key =? 12 then x <- M_gpos12_read data pos ;; Ok (SGpos12 (fst x) (snd x))
      else OutOfFuel
    else
      if negb (memN key gsub_keys) then Err
      else if key =? 11 then x <- M_gsub11_read data pos ;; Ok (SGsub11 (fst x) (snd x))
      else if key =? 12 then x <- M_gsub12_read data pos ;; Ok (SGsub12 (fst x) (snd x))
      else if key =? 21 then x <- M_gsubseq_read data pos ;; Ok (SGsub21 (fst x) (snd x))
      else if key =? 31 then x <- M_gsubseq_read data pos ;; Ok (SGsub31 (fst x) (snd x))
      else if key =? 41 then x <- M_gsub41_read data pos ;; Ok (SGsub41 (fst x) (snd x))
      else OutOfFuel
  | _ => Err
  end.

(* index part of a table handed to the encoder *)
Definition as_table (t : list (N * N)) : list (N * Z) := map (fun p => (fst p, Z.of_N (snd p))) t.

(* ------------------------------------------------------------------ *)
(* specification side: type invariants of the Go values                *)

(* every non-zero field has its bit in the format *)
Definition vr_covers (fmt : N) (v : option vrec) : Prop :=
  match v with
  | None => True
  | Some r =>
    (v_xp r <> 0%Z -> fbit fmt 0 = true) /\ (v_yp r <> 0%Z -> fbit fmt 1 = true) /\
    (v_xa r <> 0%Z -> fbit fmt 2 = true) /\ (v_ya r <> 0%Z -> fbit fmt 3 = true) /\
    (v_xpd r <> 0 -> fbit fmt 4 = true) /\ (v_ypd r <> 0 -> fbit fmt 5 = true) /\
    (v_xad r <> 0 -> fbit fmt 6 = true) /\ (v_yad r <> 0 -> fbit fmt 7 = true)
  end.

Definition gids_ok (l : list N) : Prop := Forall (fun x => x < 65536) l.

Definition seq_ok (s : list N) : Prop := gids_ok s /\ lenN s < 65536.


Definition lig_ok (l : lig) : Prop := fst l < 65536 /\ gids_ok (snd l).
