(* C08/Proofs_sl.v — the script list round trip (byte level, tag conversion
   abstracted). *)
From Coq Require Import List NArith ZArith Bool Lia.
From Coq Require Import ZifyBool ZifyNat ZifyN.
From Common Require Import Bytes Outcome.
From C08 Require Import Model ModelSub ModelSL Proofs Proofs_sub.
Import ListNotations.
Local Open Scope N_scope.
Ltac Zify.zify_post_hook ::= Z.div_mod_to_equations.

(* ---- sorting an already sorted list ---- *)
Fixpoint offs_inc (prev : N) (l : list N) : Prop :=
  match l with [] => True | o :: r => prev < o /\ offs_inc o r end.

Lemma sort_off_sorted {A} (l : list (A * N)) : forall prev,
  offs_inc prev (map snd l) -> sort_off l = l.
Proof.
  induction l as [|x r IH]; intros prev H; [reflexivity|].
  cbn [map offs_inc] in H. destruct H as [_ H].
  unfold sort_off in *. cbn [fold_right]. rewrite (IH (snd x) H).
  destruct r as [|y r']; [reflexivity|].
  cbn [map offs_inc] in H. destruct H as [Hlt _]. cbn [ins_off].
  replace (snd x <? snd y) with true by lia. reflexivity.
Qed.

(* ---- LangSys tables ---- *)
Definition item := (list N * langsys)%type.
Definition items_of (e : script_entry) : list item :=
  (match e_def e with Some f => [([], f)] | None => [] end) ++ e_langs e.

Fixpoint loffs (l : list item) (pos : N) : list N :=
  match l with [] => [] | x :: r => pos :: loffs r (pos + ls_size (snd x)) end.

Fixpoint work (l : list item) : N :=
  match l with [] => 0 | x :: r => 1 + lenN (snd (snd x)) + work r end.

Lemma ls_bytes_lenN f : lenN (ls_bytes f) = ls_size f.
Proof. unfold ls_bytes, ls_size. lens. lia. Qed.

Lemma map_not_ffff l : Forall (fun i => i < 65535) l -> map (fun i => if i =? 65535 then 0 else i) l = l.
Proof.
  induction l as [|x l IH]; intros H; [reflexivity|].
  apply Forall_cons_iff in H. destruct H as [Hx H]. cbn [map]. rewrite IH by exact H.
  replace (x =? 65535) with false by lia. reflexivity.
Qed.

Section R.
  Variable conv_ok : list N -> list N -> bool.

  Lemma rd_langsys_ok f A tail budget p :
    ls_ok f -> lenN (snd f) < 65536 -> lenN A = p -> 1 + lenN (snd f) <= budget ->
    rd_langsys (A ++ ls_bytes f ++ tail) p budget = Ok (f, budget - (1 + lenN (snd f))).
  Proof.
    intros [Hr Ho] Hl HA Hb. unfold rd_langsys. rewrite <- HA. unfold lenN at 1. rewrite seek_app.
    unfold ls_bytes. rewrite <- !app_assoc. cbn [be16 app].
    change (w16 0 0 =? 0) with true. cbn [negb].
    rewrite !w16_be16_eq by lia.
    replace (budget <? 1 + lenN (snd f)) with false by lia.
    unfold lenN at 1. rewrite Nnat.Nat2N.id.
    rewrite rd_u16s_flat by (eapply Forall_impl; [|exact Ho]; cbv beta; intros; lia).
    cbn [obind fst]. rewrite map_not_ffff by exact Ho. destruct f; reflexivity.
  Qed.

  Lemma rd_langsyss_ok script tail S items : forall A off budget,
    Forall (fun x : item => ls_ok (snd x) /\ lenN (snd (snd x)) < 65536 /\ conv_ok script (fst x) = true) items ->
    lenN A = S + off -> work items <= budget ->
    rd_langsyss conv_ok (A ++ flat_map (fun x : item => ls_bytes (snd x)) items ++ tail) S script
      (combine (map fst items) (loffs items off)) budget =
    Ok (map (fun x : item => ((script, fst x), snd x)) items, budget - work items).
  Proof.
    induction items as [|[lang f] r IH]; intros A off budget Hok HA Hb;
      cbn [map loffs combine rd_langsyss flat_map work].
    - now rewrite N.sub_0_r.
    - apply Forall_cons_iff in Hok. destruct Hok as [(H1 & H2 & H3) Hok]. cbn [work] in Hb. cbn [fst snd] in *.
      rewrite <- app_assoc.
      rewrite (rd_langsys_ok f A _ budget (S + off)) by (try assumption; lia).
      cbn [obind fst snd].
      specialize (IH (A ++ ls_bytes f) (off + ls_size f) (budget - (1 + lenN (snd f))) Hok).
      rewrite <- app_assoc in IH.
      rewrite IH; [|rewrite lenN_app, HA, ls_bytes_lenN; lia|lia].
      cbn [obind fst snd]. rewrite H3. cbn [app]. do 2 f_equal. lia.
  Qed.
End R.

(* ---- the records ---- *)
Lemma rd_tagged_ok tags : forall offs rest,
  length offs = length tags -> Forall tag_ok tags -> Forall (fun o => o < 65536) offs ->
  rd_tagged (length tags) (concat (map (fun p => fst p ++ be16 (snd p)) (combine tags offs)) ++ rest) =
  Ok (combine tags offs, rest).
Proof.
  induction tags as [|t r IH]; intros offs rest Hlen Ht Ho; [reflexivity|].
  destruct offs as [|o ro]; [discriminate|].
  apply Forall_cons_iff in Ht. destruct Ht as [[Hl Hb] Ht].
  apply Forall_cons_iff in Ho. destruct Ho as [Ho1 Ho].
  destruct t as [|a [|b [|c [|d [|e t']]]]]; try discriminate.
  cbn [length rd_tagged combine map concat fst snd]. rewrite <- !app_assoc. cbn [app be16].
  rewrite IH by (try assumption; cbn [length] in Hlen; lia). cbn [obind fst snd].
  now rewrite w16_be16_eq by exact Ho1.
Qed.

Lemma lang_records_ok l : forall pos recs,
  lang_records l pos = Ok recs ->
  recs = concat (map (fun p => fst p ++ be16 (snd p)) (combine (map fst l) (loffs l pos))) /\
  Forall (fun o => o <= 65535) (loffs l pos) /\ Forall (fun x : item => length (fst x) = 4%nat) l.
Proof.
  induction l as [|[tag f] r IH]; intros pos recs; cbn [lang_records].
  - intros H. apply ok_inj in H. subst recs. repeat split; constructor.
  - destruct (65535 <? pos) eqn:E1; [discriminate|].
    destruct (negb (lenN tag =? 4)) eqn:E2; [discriminate|].
    destruct (lang_records r (pos + ls_size f)) as [tl| | |] eqn:Et; cbn [obind]; try discriminate.
    intros H. apply ok_inj in H. subst recs.
    destruct (IH _ _ Et) as (-> & A & B). cbn [map fst snd loffs combine concat].
    repeat split.
    + now rewrite <- app_assoc.
    + constructor; [lia|exact A].
    + constructor; [cbn [fst]; unfold lenN in E2; lia|exact B].
Qed.

Lemma loffs_length l : forall pos, length (loffs l pos) = length l.
Proof. induction l as [|x r IH]; intros pos; cbn [loffs length]; [reflexivity|]. now rewrite IH. Qed.

Lemma loffs_inc l : forall pos prev, prev < pos -> offs_inc prev (loffs l pos).
Proof.
  induction l as [|x r IH]; intros pos prev H; cbn [loffs offs_inc]; [exact I|].
  split; [exact H|]. apply IH. unfold ls_size. lia.
Qed.

Lemma concat_recs_lenN (tags : list (list N)) : forall offs,
  length offs = length tags -> Forall (fun t => length t = 4%nat) tags ->
  lenN (concat (map (fun p => fst p ++ be16 (snd p)) (combine tags offs))) = 6 * lenN tags.
Proof.
  induction tags as [|t r IH]; intros offs Hl Ht; [reflexivity|].
  destruct offs as [|o ro]; [discriminate|].
  apply Forall_cons_iff in Ht. destruct Ht as [H4 Ht].
  cbn [combine map concat fst snd]. rewrite !lenN_app, IH by (try assumption; cbn [length] in Hl; lia).
  rewrite lenN_be16, lenN_cons. unfold lenN at 1. rewrite H4. lia.
Qed.

Lemma map_length_lenN {A B} (f : A -> B) l : lenN (map f l) = lenN l.
Proof. unfold lenN. now rewrite map_length. Qed.

(* the script table of an entry, in terms of its items *)
Lemma script_table_shape e tab :
  script_table e = Ok tab ->
  let nl := lenN (e_langs e) in
  let pos0 := 4 + 6 * nl in
  let its := items_of e in
  exists lrecs,
    tab = be16 (match e_def e with Some _ => pos0 | None => 0 end) ++ be16 nl ++ lrecs ++
          flat_map (fun x : item => ls_bytes (snd x)) its /\
    lrecs = concat (map (fun p => fst p ++ be16 (snd p))
              (combine (map fst (e_langs e)) (loffs (e_langs e) (pos0 + def_size (e_def e))))) /\
    Forall (fun o => o <= 65535) (loffs (e_langs e) (pos0 + def_size (e_def e))) /\
    Forall (fun x : item => length (fst x) = 4%nat) (e_langs e).
Proof.
  unfold script_table. cbv zeta.
  destruct (lang_records _ _) as [recs| | |] eqn:E; cbn [obind]; try discriminate.
  intros H. apply ok_inj in H. subst tab.
  destruct (lang_records_ok _ _ _ E) as (Hr & Ho & Ht).
  exists recs. repeat split; try assumption.
  unfold items_of. destruct (e_def e); cbn [flat_map app]; rewrite ?app_nil_r; reflexivity.
Qed.

Lemma lss_size_flat l : lss_size l = lenN (flat_map (fun x : item => ls_bytes (snd x)) l).
Proof.
  induction l as [|x r IH]; cbn [lss_size flat_map]; [reflexivity|].
  now rewrite lenN_app, ls_bytes_lenN, IH.
Qed.

Lemma script_table_lenN e tab : script_table e = Ok tab -> lenN tab = script_size e.
Proof.
  intros H. destruct (script_table_shape e tab H) as (lrecs & -> & -> & _ & Ht).
  lens. rewrite concat_recs_lenN.
  - unfold script_size, items_of. rewrite lss_size_flat, !map_length_lenN.
    destruct (e_def e); cbn [flat_map def_size]; lens; rewrite ?ls_bytes_lenN; lia.
  - now rewrite loffs_length, map_length.
  - apply Forall_map. exact Ht.
Qed.
