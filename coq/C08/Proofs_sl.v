(* C08/Proofs_sl.v — the script list round trip (byte level, tag conversion
   abstracted). *)
From Coq Require Import List NArith ZArith Bool Lia.
From Coq Require Import ZifyBool ZifyNat ZifyN.
From Common Require Import Bytes Outcome.
From C08 Require Import Model ModelSub ModelSL Proofs Proofs_sub.
Import ListNotations.
Local Open Scope N_scope.
Ltac Zify.zify_post_hook ::= Z.div_mod_to_equations.

(* ---- sorting an already sorted list ---- *)
Fixpoint offs_inc (prev : N) (l : list N) : Prop :=
  match l with [] => True | o :: r => prev < o /\ offs_inc o r end.

Lemma sort_off_sorted {A} (l : list (A * N)) : forall prev,
  offs_inc prev (map snd l) -> sort_off l = l.
Proof.
  induction l as [|x r IH]; intros prev H; [reflexivity|].
  cbn [map offs_inc] in H. destruct H as [_ H].
  unfold sort_off in *. cbn [fold_right]. rewrite (IH (snd x) H).
  destruct r as [|y r']; [reflexivity|].
  cbn [map offs_inc] in H. destruct H as [Hlt _]. cbn [ins_off].
  replace (snd x <? snd y) with true by lia. reflexivity.
Qed.

(* ---- LangSys tables ---- *)
Fixpoint loffs (l : list item) (pos : N) : list N :=
  match l with [] => [] | x :: r => pos :: loffs r (pos + ls_size (snd x)) end.

Lemma ls_bytes_lenN f : lenN (ls_bytes f) = ls_size f.
Proof. unfold ls_bytes, ls_size. lens. lia. Qed.

Lemma map_not_ffff l : Forall (fun i => i < 65535) l -> map (fun i => if i =? 65535 then 0 else i) l = l.
Proof.
  induction l as [|x l IH]; intros H; [reflexivity|].
  apply Forall_cons_iff in H. destruct H as [Hx H]. cbn [map]. rewrite IH by exact H.
  replace (x =? 65535) with false by lia. reflexivity.
Qed.

Section R.
  Variable conv_ok : list N -> list N -> bool.

  Lemma rd_langsys_ok f A tail budget p :
    ls_ok f -> lenN (snd f) < 65536 -> lenN A = p -> 1 + lenN (snd f) <= budget ->
    rd_langsys (A ++ ls_bytes f ++ tail) p budget = Ok (f, budget - (1 + lenN (snd f))).
  Proof.
    intros [Hr Ho] Hl HA Hb. unfold rd_langsys. rewrite <- HA. unfold lenN at 1. rewrite seek_app.
    unfold ls_bytes. rewrite <- !app_assoc. cbn [be16 app].
    change (w16 0 0 =? 0) with true. cbn [negb].
    rewrite !w16_be16_eq by lia.
    replace (budget <? 1 + lenN (snd f)) with false by lia.
    unfold lenN at 1. rewrite Nnat.Nat2N.id.
    rewrite rd_u16s_flat by (eapply Forall_impl; [|exact Ho]; cbv beta; intros; lia).
    cbn [obind fst]. rewrite map_not_ffff by exact Ho. destruct f; reflexivity.
  Qed.

  Lemma rd_langsyss_ok script tail S items : forall A off budget,
    Forall (fun x : item => ls_ok (snd x) /\ lenN (snd (snd x)) < 65536 /\ conv_ok script (fst x) = true) items ->
    lenN A = S + off -> work items <= budget ->
    rd_langsyss conv_ok (A ++ flat_map (fun x : item => ls_bytes (snd x)) items ++ tail) S script
      (combine (map fst items) (loffs items off)) budget =
    Ok (map (fun x : item => ((script, fst x), snd x)) items, budget - work items).
  Proof.
    induction items as [|[lang f] r IH]; intros A off budget Hok HA Hb;
      cbn [map loffs combine rd_langsyss flat_map work].
    - now rewrite N.sub_0_r.
    - apply Forall_cons_iff in Hok. destruct Hok as [(H1 & H2 & H3) Hok]. cbn [work] in Hb. cbn [fst snd] in *.
      rewrite <- app_assoc.
      rewrite (rd_langsys_ok f A _ budget (S + off)) by (try assumption; lia).
      cbn [obind fst snd].
      specialize (IH (A ++ ls_bytes f) (off + ls_size f) (budget - (1 + lenN (snd f))) Hok).
      rewrite <- app_assoc in IH.
      rewrite IH; [|rewrite lenN_app, HA, ls_bytes_lenN; lia|lia].
      cbn [obind fst snd]. rewrite H3. cbn [app]. do 2 f_equal. lia.
  Qed.
End R.

(* ---- the records ---- *)
Lemma rd_tagged_ok tags : forall offs rest,
  length offs = length tags -> Forall tag_ok tags -> Forall (fun o => o < 65536) offs ->
  rd_tagged (length tags) (concat (map (fun p => fst p ++ be16 (snd p)) (combine tags offs)) ++ rest) =
  Ok (combine tags offs, rest).
Proof.
  induction tags as [|t r IH]; intros offs rest Hlen Ht Ho; [reflexivity|].
  destruct offs as [|o ro]; [discriminate|].
  apply Forall_cons_iff in Ht. destruct Ht as [[Hl Hb] Ht].
  apply Forall_cons_iff in Ho. destruct Ho as [Ho1 Ho].
  destruct t as [|a [|b [|c [|d [|e t']]]]]; try discriminate.
  cbn [length rd_tagged combine map concat fst snd]. rewrite <- !app_assoc. cbn [app be16].
  rewrite IH by (try assumption; cbn [length] in Hlen; lia). cbn [obind fst snd].
  now rewrite w16_be16_eq by exact Ho1.
Qed.

Lemma lang_records_ok l : forall pos recs,
  lang_records l pos = Ok recs ->
  recs = concat (map (fun p => fst p ++ be16 (snd p)) (combine (map fst l) (loffs l pos))) /\
  Forall (fun o => o <= 65535) (loffs l pos) /\ Forall (fun x : item => length (fst x) = 4%nat) l.
Proof.
  induction l as [|[tag f] r IH]; intros pos recs; cbn [lang_records].
  - intros H. apply ok_inj in H. subst recs. repeat split; constructor.
  - destruct (65535 <? pos) eqn:E1; [discriminate|].
    destruct (negb (lenN tag =? 4)) eqn:E2; [discriminate|].
    destruct (lang_records r (pos + ls_size f)) as [tl| | |] eqn:Et; cbn [obind]; try discriminate.
    intros H. apply ok_inj in H. subst recs.
    destruct (IH _ _ Et) as (-> & A & B). cbn [map fst snd loffs combine concat].
    repeat split.
    + now rewrite <- app_assoc.
    + constructor; [lia|exact A].
    + constructor; [cbn [fst]; unfold lenN in E2; lia|exact B].
Qed.

Lemma loffs_length l : forall pos, length (loffs l pos) = length l.
Proof. induction l as [|x r IH]; intros pos; cbn [loffs length]; [reflexivity|]. now rewrite IH. Qed.

Lemma loffs_inc l : forall pos prev, prev < pos -> offs_inc prev (loffs l pos).
Proof.
  induction l as [|x r IH]; intros pos prev H; cbn [loffs offs_inc]; [exact I|].
  split; [exact H|]. apply IH. unfold ls_size. lia.
Qed.

Lemma concat_recs_lenN (tags : list (list N)) : forall offs,
  length offs = length tags -> Forall (fun t => length t = 4%nat) tags ->
  lenN (concat (map (fun p => fst p ++ be16 (snd p)) (combine tags offs))) = 6 * lenN tags.
Proof.
  induction tags as [|t r IH]; intros offs Hl Ht; [reflexivity|].
  destruct offs as [|o ro]; [discriminate|].
  apply Forall_cons_iff in Ht. destruct Ht as [H4 Ht].
  cbn [combine map concat fst snd]. rewrite !lenN_app, IH by (try assumption; cbn [length] in Hl; lia).
  rewrite lenN_be16, lenN_cons. unfold lenN at 1. rewrite H4. lia.
Qed.

Lemma map_length_lenN {A B} (f : A -> B) l : lenN (map f l) = lenN l.
Proof. unfold lenN. now rewrite map_length. Qed.

(* the script table of an entry, in terms of its items *)
Lemma script_table_shape e tab :
  script_table e = Ok tab ->
  let nl := lenN (e_langs e) in
  let pos0 := 4 + 6 * nl in
  let its := items_of e in
  exists lrecs,
    tab = be16 (match e_def e with Some _ => pos0 | None => 0 end) ++ be16 nl ++ lrecs ++
          flat_map (fun x : item => ls_bytes (snd x)) its /\
    lrecs = concat (map (fun p => fst p ++ be16 (snd p))
              (combine (map fst (e_langs e)) (loffs (e_langs e) (pos0 + def_size (e_def e))))) /\
    Forall (fun o => o <= 65535) (loffs (e_langs e) (pos0 + def_size (e_def e))) /\
    Forall (fun x : item => length (fst x) = 4%nat) (e_langs e).
Proof.
  unfold script_table. cbv zeta.
  destruct (lang_records _ _) as [recs| | |] eqn:E; cbn [obind]; try discriminate.
  intros H. apply ok_inj in H. subst tab.
  destruct (lang_records_ok _ _ _ E) as (Hr & Ho & Ht).
  exists recs. repeat split; try assumption.
  unfold items_of. destruct (e_def e); cbn [flat_map app]; rewrite ?app_nil_r; reflexivity.
Qed.

Lemma lss_size_flat l : lss_size l = lenN (flat_map (fun x : item => ls_bytes (snd x)) l).
Proof.
  induction l as [|x r IH]; cbn [lss_size flat_map]; [reflexivity|].
  now rewrite lenN_app, ls_bytes_lenN, IH.
Qed.

Lemma script_table_lenN e tab : script_table e = Ok tab -> lenN tab = script_size e.
Proof.
  intros H. destruct (script_table_shape e tab H) as (lrecs & -> & -> & _ & Ht).
  lens. rewrite concat_recs_lenN.
  - unfold script_size, items_of. rewrite lss_size_flat, !map_length_lenN.
    destruct (e_def e); cbn [app flat_map def_size snd]; lens; rewrite ?ls_bytes_lenN; lia.
  - now rewrite loffs_length, map_length.
  - apply Forall_map. exact Ht.
Qed.

(* ---- one script table ---- *)
Lemma lss_size_ge l : 6 * lenN l <= lss_size l.
Proof.
  induction l as [|x r IH]; cbn [lss_size]; [cbn; lia|]. rewrite lenN_cons. unfold ls_size. lia.
Qed.

Lemma map_snd_combine {A B} (a : list A) (b : list B) : length b = length a -> map snd (combine a b) = b.
Proof.
  revert b; induction a as [|x a IH]; intros b H; destruct b as [|y b]; try discriminate; [reflexivity|].
  cbn [combine map snd]. rewrite IH by (cbn [length] in H; lia). reflexivity.
Qed.

Lemma rd_script_table_ok conv_ok e tab A tail P budget :
  script_table e = Ok tab ->
  Forall (fun x : item => tag_ok (fst x)) (e_langs e) ->
  Forall (item_ok (e_tag e) conv_ok) (items_of e) ->
  lenN A = P -> 8 <= lenN A -> work (items_of e) <= budget ->
  rd_script_table conv_ok (A ++ tab ++ tail) (e_tag e) P budget =
  Ok (entry_assignments e, budget - work (items_of e)).
Proof.
  intros Htab Htags Hitems HA HA8 Hb.
  pose proof (script_table_lenN e tab Htab) as Hlen.
  destruct (script_table_shape e tab Htab) as (lrecs & -> & Hlrecs & Hoffs & Hl4).
  set (nl := lenN (e_langs e)) in *. set (pos0 := 4 + 6 * nl) in *.
  set (body := flat_map (fun x : item => ls_bytes (snd x)) (items_of e)) in *.
  set (defOff := match e_def e with Some _ => pos0 | None => 0 end) in *.
  assert (Hpos0 : pos0 <= 65535).
  { unfold pos0, nl. destruct (e_langs e) as [|x r] eqn:El; [cbn; lia|].
    cbn [loffs] in Hoffs. apply Forall_cons_iff in Hoffs. destruct Hoffs as [H0 _].
    fold nl. fold pos0. lia. }
  unfold rd_script_table. rewrite <- HA. unfold lenN at 1. rewrite seek_app.
  rewrite <- !app_assoc. cbn [be16 app]. rewrite !w16_be16_eq by (unfold defOff; destruct (e_def e); lia).
  replace ((4 + 6 * nl) mod 65536) with pos0 by (unfold pos0 in *; lia).
  replace ((0 <? defOff) && (defOff <? pos0)) with false by (unfold defOff; destruct (e_def e); lia).
  (* the size check *)
  assert (Hsize : 8 + nl * 12 <= lenN (A ++ (defOff / 256) mod 256 :: defOff mod 256 :: (nl / 256) mod 256 :: nl mod 256 :: lrecs ++ body ++ tail)).
  { rewrite lenN_app, !lenN_cons, !lenN_app. rewrite !lenN_app, !lenN_be16 in Hlen.
    pose proof (lss_size_ge (e_langs e)). unfold script_size in Hlen. fold nl in Hlen, H. lia. }
  match goal with |- context [lenN ?d <? 8 + nl * 12] => replace (lenN d <? 8 + nl * 12) with false by lia end.
  (* the language records *)
  rewrite Hlrecs. unfold nl at 1, lenN at 1. rewrite Nnat.Nat2N.id.
  rewrite <- (map_length fst (e_langs e)).
  rewrite rd_tagged_ok.
  2:{ now rewrite loffs_length, !map_length. }
  2:{ apply Forall_map. exact Htags. }
  2:{ eapply Forall_impl; [|exact Hoffs]. cbv beta. intros; lia. }
  cbn [obind fst].
  (* default + languages = the items *)
  assert (Hrecs : (if defOff =? 0 then [] else [([], defOff)]) ++
                  combine (map fst (e_langs e)) (loffs (e_langs e) (pos0 + def_size (e_def e))) =
                  combine (map fst (items_of e)) (loffs (items_of e) pos0)).
  { unfold defOff, items_of. destruct (e_def e) as [f|]; cbn [def_size app map loffs combine fst snd].
    - replace (pos0 =? 0) with false by (unfold pos0; lia). reflexivity.
    - now rewrite N.add_0_r. }
  rewrite Hrecs.
  rewrite (sort_off_sorted _ 0).
  2:{ rewrite map_snd_combine by (now rewrite loffs_length, map_length). apply loffs_inc. unfold pos0. lia. }

  set (A' := A ++ be16 defOff ++ be16 nl ++ lrecs).
  assert (HD : A ++ (defOff / 256) mod 256 :: defOff mod 256 :: (nl / 256) mod 256 :: nl mod 256 ::
               concat (map (fun p => fst p ++ be16 (snd p))
                 (combine (map fst (e_langs e)) (loffs (e_langs e) (pos0 + def_size (e_def e))))) ++ body ++ tail
               = A' ++ body ++ tail).
  { unfold A'. rewrite Hlrecs, <- !app_assoc. reflexivity. }
  rewrite HD. unfold body.
  rewrite (rd_langsyss_ok conv_ok (e_tag e) tail (lenN A) (items_of e) A' pos0 budget); try assumption.
  - unfold entry_assignments, items_of. destruct (e_def e); cbn [map app fst snd]; reflexivity.
  - unfold A'. lens. rewrite Hlrecs, concat_recs_lenN.
    + rewrite map_length_lenN. fold nl. unfold pos0. lia.
    + now rewrite loffs_length, map_length.
    + apply Forall_map. exact Hl4.
Qed.

(* ---- the list of script tables ---- *)
Fixpoint soffs (es : list script_entry) (off : N) : list N :=
  match es with [] => [] | e :: r => off :: soffs r (off + script_size e) end.

Lemma script_records_ok es : forall off recs,
  script_records es off = Ok recs ->
  recs = concat (map (fun p => fst p ++ be16 (snd p)) (combine (map (fun e => first4 (e_tag e)) es) (soffs es off))) /\
  Forall (fun o => o <= 65535) (soffs es off) /\ Forall (fun e => too_many e = false) es.
Proof.
  induction es as [|e r IH]; intros off recs; cbn [script_records].
  - intros H. apply ok_inj in H. subst recs. repeat split; constructor.
  - destruct (65535 <? off) eqn:E1; [discriminate|].
    destruct (too_many e) eqn:E2; [discriminate|].
    destruct (script_records r (off + script_size e)) as [tl| | |] eqn:Et; cbn [obind]; try discriminate.
    intros H. apply ok_inj in H. subst recs.
    destruct (IH _ _ Et) as (-> & A & B). cbn [map soffs combine concat fst snd].
    repeat split; [now rewrite <- app_assoc|constructor; [lia|exact A]|constructor; assumption].
Qed.

Lemma soffs_length es : forall off, length (soffs es off) = length es.
Proof. induction es as [|e r IH]; intros off; cbn [soffs length]; [reflexivity|]. now rewrite IH. Qed.

Lemma soffs_inc es : forall off prev, prev < off -> offs_inc prev (soffs es off).
Proof.
  induction es as [|e r IH]; intros off prev H; cbn [soffs offs_inc]; [exact I|].
  split; [exact H|]. apply IH. unfold script_size. lia.
Qed.

Lemma soffs_ge es : forall off, Forall (fun o => off <= o) (soffs es off).
Proof.
  induction es as [|e r IH]; intros off; cbn [soffs]; constructor; [lia|].
  eapply Forall_impl; [|apply IH]. cbv beta. intros; lia.
Qed.

Lemma rd_script_tables_ok conv_ok pos tail es : forall tabs A off budget,
  script_tables es = Ok tabs -> Forall (entry_rd_ok conv_ok) es ->
  lenN A = pos + off -> 8 <= lenN A -> total_work es <= budget ->
  rd_script_tables conv_ok (A ++ tabs ++ tail) pos (combine (map e_tag es) (soffs es off)) budget =
  Ok (flat_map entry_assignments es).
Proof.
  induction es as [|e r IH]; intros tabs A off budget Ht Hok HA HA8 Hb; cbn [script_tables] in Ht.
  - reflexivity.
  - destruct (script_table e) as [tab| | |] eqn:Et; cbn [obind] in Ht; try discriminate.
    destruct (script_tables r) as [tl| | |] eqn:Er; cbn [obind] in Ht; try discriminate.
    apply ok_inj in Ht. subst tabs.
    apply Forall_cons_iff in Hok. destruct Hok as [(H1 & H2 & H3) Hok].
    cbn [total_work] in Hb.
    cbn [map soffs combine rd_script_tables flat_map]. rewrite <- app_assoc.
    rewrite (rd_script_table_ok conv_ok e tab A (tl ++ tail) (pos + off) budget Et H2 H3 HA HA8 ltac:(lia)).
    cbn [obind fst snd].
    specialize (IH tl (A ++ tab) (off + script_size e) (budget - work (items_of e)) eq_refl Hok).
    rewrite <- app_assoc in IH. rewrite IH; [reflexivity| | |lia].
    + rewrite lenN_app, HA, (script_table_lenN e tab Et). lia.
    + rewrite lenN_app. lia.
Qed.

Lemma first4_ok t : tag_ok t -> first4 t = t.
Proof. intros [H _]. unfold first4. rewrite <- H. apply firstn_all. Qed.

Lemma sl_roundtrip conv_ok es b pre post :
  Forall (entry_rd_ok conv_ok) es -> total_work es <= maxWork ->
  M_sl_encode es = Ok b ->
  M_sl_read conv_ok (pre ++ b ++ post) (lenN pre) = Ok (flat_map entry_assignments es).
Proof.
  intros Hok Hwork.
  destruct es as [|e0 r0].
  { unfold M_sl_encode. cbn [script_records script_tables obind lenN length].
    intros H. apply ok_inj in H. subst b. unfold M_sl_read. unfold lenN at 1. rewrite seek_app.
    unfold lenN. cbn [length]. change (N.of_nat 0) with 0. change (be16 0) with [0; 0]. cbn [app].
    change (w16 0 0) with 0. rewrite N.mul_0_r.
    rewrite (proj2 (N.ltb_ge _ 0)) by lia. reflexivity. }
  assert (Hn1 : 1 <= lenN (e0 :: r0)) by (rewrite lenN_cons; lia).
  set (es := e0 :: r0) in *.
  unfold M_sl_encode.
  set (n := lenN es) in *.
  destruct (script_records es (2 + 6 * n)) as [recs| | |] eqn:Er; cbn [obind]; try discriminate.
  destruct (script_tables es) as [tabs| | |] eqn:Et; cbn [obind]; try discriminate.
  intros H. apply ok_inj in H. subst b.
  destruct (script_records_ok _ _ _ Er) as (Hrecs & Hoffs & _).
  assert (Htags : map (fun e => first4 (e_tag e)) es = map e_tag es).
  { apply map_ext_in. intros e He. apply first4_ok. apply (proj1 (Forall_forall _ _) Hok e He). }
  rewrite Htags in Hrecs.
  assert (Hn : 2 + 6 * n <= 65535 \/ es = []).
  { destruct es as [|e r]; [right; reflexivity|left]. cbn [soffs] in Hoffs.
    apply Forall_cons_iff in Hoffs. destruct Hoffs as [H0 _]. exact H0. }
  assert (Hn' : n < 65536) by (destruct Hn as [Hn|Hn]; [lia|unfold n; rewrite Hn; cbn; lia]).
  assert (Hrl : lenN recs = 6 * n).
  { rewrite Hrecs, concat_recs_lenN.
    - now rewrite map_length_lenN.
    - now rewrite soffs_length, map_length.
    - apply Forall_map. apply Forall_forall. intros e He.
      apply (proj1 (Forall_forall _ _) Hok e He). }
  unfold M_sl_read. unfold lenN at 1. rewrite seek_app. rewrite <- !app_assoc. cbn [be16 app].
  rewrite w16_be16_eq by exact Hn'.
  match goal with |- context [lenN ?d <? 6 * n] =>
    replace (lenN d <? 6 * n) with false
      by (rewrite lenN_app, !lenN_cons, !lenN_app, Hrl; lia) end.
  rewrite Hrecs. unfold n at 1, lenN at 1. rewrite Nnat.Nat2N.id.
  rewrite <- (map_length e_tag es).
  rewrite rd_tagged_ok.
  2:{ now rewrite soffs_length, map_length. }
  2:{ apply Forall_map. apply Forall_forall. intros e He. apply (proj1 (Forall_forall _ _) Hok e He). }
  2:{ eapply Forall_impl; [|exact Hoffs]. cbv beta. intros; lia. }
  cbn [obind fst].
  rewrite (sort_off_sorted _ 0).
  2:{ rewrite map_snd_combine by (now rewrite soffs_length, map_length). apply soffs_inc. lia. }
  assert (Hcl : lenN (combine (map e_tag es) (soffs es (2 + 6 * n))) = n).
  { unfold lenN, n. now rewrite combine_length, map_length, soffs_length, Nat.min_id. }
  rewrite Hcl.
  assert (Hex : existsb (fun e : list N * N => snd e <? 2 + 6 * n) (combine (map e_tag es) (soffs es (2 + 6 * n))) = false).
  { destruct (existsb _ _) eqn:E; [|reflexivity]. apply existsb_exists in E. destruct E as (x & Hx & Hlt).
    assert (Hin : In (snd x) (soffs es (2 + 6 * n))).
    { rewrite <- (map_snd_combine (map e_tag es) (soffs es (2 + 6 * n))) by (now rewrite soffs_length, map_length).
      apply in_map. exact Hx. }
    pose proof (proj1 (Forall_forall _ _) (soffs_ge es (2 + 6 * n)) _ Hin) as Hge. cbv beta in Hlt, Hge. lia. }
  rewrite Hex.
  assert (HD : pre ++ (n / 256) mod 256 :: n mod 256 ::
               concat (map (fun p => fst p ++ be16 (snd p)) (combine (map e_tag es) (soffs es (2 + 6 * n)))) ++ tabs ++ post
               = (pre ++ be16 n ++ recs) ++ tabs ++ post)
    by (rewrite Hrecs, <- !app_assoc; reflexivity).
  rewrite HD.
  apply rd_script_tables_ok; try assumption.
  - lens. rewrite Hrl. lia.
  - lens. rewrite Hrl. lia.
Qed.

(* ---- the reader never panics ---- *)
Lemma rd_tagged_np n : forall r, rd_tagged n r <> Panic.
Proof.
  induction n as [|n IH]; intros r; cbn [rd_tagged]; [discriminate|].
  destruct r as [|a [|b [|c [|d [|e [|f r']]]]]]; try discriminate.
  specialize (IH r'). destruct (rd_tagged n r'); cbn [obind]; congruence.
Qed.

Lemma rd_u16s_np n : forall r, rd_u16s n r <> Panic.
Proof.
  induction n as [|n IH]; intros r; cbn [rd_u16s]; [discriminate|].
  destruct r as [|a [|b r']]; try discriminate.
  specialize (IH r'). destruct (rd_u16s n r'); cbn [obind]; congruence.
Qed.

Lemma rd_langsys_np data p b : rd_langsys data p b <> Panic.
Proof.
  unfold rd_langsys. destruct (seek data p) as [|a [|b0 [|c [|d [|e [|f r]]]]]]; try discriminate.
  destruct (negb _); [discriminate|]. destruct (_ <? _); [discriminate|].
  pose proof (rd_u16s_np (N.to_nat (w16 e f)) r). destruct (rd_u16s _ r); cbn [obind]; congruence.
Qed.

Lemma rd_langsyss_np conv_ok data pos script recs : forall b, rd_langsyss conv_ok data pos script recs b <> Panic.
Proof.
  induction recs as [|[lang off] r IH]; intros b; cbn [rd_langsyss]; [discriminate|].
  pose proof (rd_langsys_np data (pos + off) b). destruct (rd_langsys data (pos + off) b) as [x| | |]; cbn [obind]; try congruence.
  specialize (IH (snd x)). destruct (rd_langsyss conv_ok data pos script r (snd x)); cbn [obind]; congruence.
Qed.

Lemma rd_script_table_np conv_ok data script pos b : rd_script_table conv_ok data script pos b <> Panic.
Proof.
  unfold rd_script_table. destruct (seek data pos) as [|a [|b0 [|c [|d r]]]]; try discriminate.
  destruct (_ && _); [discriminate|]. destruct (_ <? _); [discriminate|].
  pose proof (rd_tagged_np (N.to_nat (w16 c d)) r). destruct (rd_tagged _ r); cbn [obind]; try congruence.
  apply rd_langsyss_np.
Qed.

Lemma rd_script_tables_np conv_ok data pos recs : forall b, rd_script_tables conv_ok data pos recs b <> Panic.
Proof.
  induction recs as [|[s off] r IH]; intros b; cbn [rd_script_tables]; [discriminate|].
  pose proof (rd_script_table_np conv_ok data s (pos + off) b).
  destruct (rd_script_table conv_ok data s (pos + off) b) as [x| | |]; cbn [obind]; try congruence.
  specialize (IH (snd x)). destruct (rd_script_tables conv_ok data pos r (snd x)); cbn [obind]; congruence.
Qed.

Lemma sl_read_total conv_ok data pos : M_sl_read conv_ok data pos <> Panic.
Proof.
  unfold M_sl_read. destruct (seek data pos) as [|a [|b r]]; try discriminate.
  destruct (_ <? _); [discriminate|].
  pose proof (rd_tagged_np (N.to_nat (w16 a b)) r). destruct (rd_tagged _ r); cbn [obind]; try congruence.
  destruct (existsb _ _); [discriminate|]. apply rd_script_tables_np.
Qed.
