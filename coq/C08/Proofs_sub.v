(* C08/Proofs_sub.v — lemmas about value records, coverage.ReadSet and the
   subtable models. *)
From Coq Require Import List NArith ZArith Bool Lia.
From Coq Require Import ZifyBool ZifyNat ZifyN.
From Common Require Import Bytes Outcome.
From C08 Require Import Model ModelCD ModelSub Proofs.
Import ListNotations.
Local Open Scope N_scope.
Ltac Zify.zify_post_hook ::= Z.div_mod_to_equations.

(* ------------------------------------------------------------------ *)
(* value records                                                       *)

Lemma piece_length b x : lenN (piece b x) = if b then 2 else 0.
Proof. destruct b; reflexivity. Qed.

Lemma lenN_app {A} (a b : list A) : lenN (a ++ b) = lenN a + lenN b.
Proof. unfold lenN. rewrite app_length. lia. Qed.

Lemma fbit_high fmt k : fmt < 256 -> 8 <= k -> fbit fmt k = false.
Proof.
  intros H Hk. unfold fbit. replace fmt with (fmt mod 2 ^ 8) by (change (2 ^ 8) with 256; lia).
  apply N.mod_pow2_bits_high. exact Hk.
Qed.

Lemma vr_len_agrees fmt v : fmt < 256 -> lenN (M_vr_encode fmt v) = M_vr_encode_len fmt.
Proof.
  intros H. unfold M_vr_encode, M_vr_encode_len. rewrite !lenN_app, !piece_length.
  cbn [popcount]. change (0 + 1) with 1.
  repeat match goal with |- context [fbit fmt (?a + 1)] =>
    let v := eval vm_compute in (a + 1) in change (a + 1) with v end.
  rewrite (fbit_high fmt 8), (fbit_high fmt 9), (fbit_high fmt 10), (fbit_high fmt 11),
    (fbit_high fmt 12), (fbit_high fmt 13), (fbit_high fmt 14), (fbit_high fmt 15) by (try exact H; lia).
  repeat match goal with |- context [fbit fmt ?k] => destruct (fbit fmt k) end; reflexivity.
Qed.

Lemma rd_opt_piece b x rest : x < 65536 ->
  rd_opt b (piece b x ++ rest) = Ok ((if b then x else 0), rest).
Proof.
  intros H. destruct b; cbn [rd_opt piece app be16]; [|reflexivity].
  now rewrite w16_be16_eq.
Qed.

Lemma of_i16_lt z : of_i16 z < 65536.
Proof. unfold of_i16. lia. Qed.

Lemma sel_Z (b : bool) z : (-32768 <= z < 32768)%Z -> (z <> 0%Z -> b = true) ->
  to_i16 (if b then of_i16 z else 0) = z.
Proof.
  intros Hr Hc. destruct b; [apply to_i16_of_i16; exact Hr|].
  destruct (Z.eq_dec z 0) as [->|Hne]; [reflexivity|]. specialize (Hc Hne). discriminate.
Qed.

Lemma sel_N (b : bool) x : (x <> 0 -> b = true) -> (if b then x else 0) = x.
Proof.
  intros Hc. destruct b; [reflexivity|].
  destruct (N.eq_dec x 0) as [->|Hne]; [reflexivity|]. specialize (Hc Hne). discriminate.
Qed.

Lemma vr_read_encode fmt v rest :
  vr_ok v -> vr_covers fmt v ->
  M_vr_read fmt (M_vr_encode fmt v ++ rest) = Ok (vr_norm fmt v, rest).
Proof.
  intros Hok Hcov. unfold M_vr_read, vr_norm.
  destruct (fmt =? 0) eqn:Ef.
  - apply N.eqb_eq in Ef. subst fmt. reflexivity.
  - set (r := match v with Some r => r | None => vr_zero end).
    assert (Hr : vr_ok (Some r) /\ vr_covers fmt (Some r)).
    { unfold r. destruct v; [split; assumption|]. split; cbn; repeat split; try lia; intros; congruence. }
    destruct Hr as [(R0 & R1 & R2 & R3 & R4 & R5 & R6 & R7) (C0 & C1 & C2 & C3 & C4 & C5 & C6 & C7)].
    unfold M_vr_encode. fold r. rewrite <- !app_assoc.
    pose proof (of_i16_lt (v_xp r)). pose proof (of_i16_lt (v_yp r)).
    pose proof (of_i16_lt (v_xa r)). pose proof (of_i16_lt (v_ya r)).
    repeat (rewrite rd_opt_piece by assumption; cbn [obind fst snd]).
    rewrite !sel_Z, !sel_N by assumption.
    destruct r; reflexivity.
Qed.

Lemma bit_cases (b0 b1 b2 b3 b4 b5 b6 b7 : bool) :
  let f := bit b0 1 + bit b1 2 + bit b2 4 + bit b3 8 + bit b4 16 + bit b5 32 + bit b6 64 + bit b7 128 in
  let g := if f =? 0 then 4 else f in
  g < 256 /\ g <> 0 /\
  (b0 = true -> fbit g 0 = true) /\ (b1 = true -> fbit g 1 = true) /\
  (b2 = true -> fbit g 2 = true) /\ (b3 = true -> fbit g 3 = true) /\
  (b4 = true -> fbit g 4 = true) /\ (b5 = true -> fbit g 5 = true) /\
  (b6 = true -> fbit g 6 = true) /\ (b7 = true -> fbit g 7 = true).
Proof.
  destruct b0, b1, b2, b3, b4, b5, b6, b7; vm_compute;
    repeat split; intros; try reflexivity; try discriminate.
Qed.

Lemma vr_format_facts v :
  M_vr_format v < 256 /\ (M_vr_format v = 0 <-> v = None) /\ vr_covers (M_vr_format v) v.
Proof.
  destruct v as [r|]; [|cbn; repeat split; intros; try lia; auto].
  unfold M_vr_format, vr_covers.
  pose proof (bit_cases (nzZ (v_xp r)) (nzZ (v_yp r)) (nzZ (v_xa r)) (nzZ (v_ya r))
                        (nzN (v_xpd r)) (nzN (v_ypd r)) (nzN (v_xad r)) (nzN (v_yad r))) as H.
  cbv zeta in H. destruct H as (Hlt & Hne & H0 & H1 & H2 & H3 & H4 & H5 & H6 & H7).
  split; [exact Hlt|]. split; [split; [intros E; contradiction|discriminate]|].
  unfold nzZ, nzN in *.
  repeat split; intros Hn;
    [apply H0|apply H1|apply H2|apply H3|apply H4|apply H5|apply H6|apply H7]; lia.
Qed.

(* a record round-trips exactly through its own format *)
Lemma vr_roundtrip_own v rest :
  vr_ok v ->
  M_vr_read (M_vr_format v) (M_vr_encode (M_vr_format v) v ++ rest) = Ok (v, rest).
Proof.
  intros Hok. destruct (vr_format_facts v) as (_ & Hz & Hc).
  rewrite vr_read_encode by assumption. unfold vr_norm.
  destruct (M_vr_format v =? 0) eqn:E.
  - apply N.eqb_eq in E. apply Hz in E. now subst v.
  - destruct v as [r|]; [reflexivity|]. cbn in E. discriminate.
Qed.

(* ---- the common format of a list of records ---- *)

Lemma lor_lt_256 a b : a < 256 -> b < 256 -> N.lor a b < 256.
Proof.
  intros Ha Hb.
  assert (Ea : a = N.land a (N.ones 8)) by (rewrite N.land_ones; change (2 ^ 8) with 256; lia).
  assert (Eb : b = N.land b (N.ones 8)) by (rewrite N.land_ones; change (2 ^ 8) with 256; lia).
  rewrite Ea, Eb, <- N.land_lor_distr_l, N.land_ones. change (2 ^ 8) with 256. lia.
Qed.

Lemma vr_union_acc adj : forall f0,
  f0 < 256 ->
  let f := fold_left (fun f v => N.lor f (M_vr_format v)) adj f0 in
  f < 256 /\ (forall k, fbit f0 k = true -> fbit f k = true) /\
  (forall v, In v adj -> vr_covers f v).
Proof.
  induction adj as [|v adj IH]; intros f0 H0; cbn [fold_left].
  - repeat split; auto. intros v [].
  - destruct (vr_format_facts v) as (Hv & _ & Hc).
    specialize (IH (N.lor f0 (M_vr_format v)) (lor_lt_256 _ _ H0 Hv)). cbv zeta in IH.
    destruct IH as (A & B & C). cbv zeta. split; [exact A|]. split.
    + intros k Hk. apply B. unfold fbit in *. rewrite N.lor_spec, Hk. reflexivity.
    + intros w [<-|Hw]; [|apply C; exact Hw].
      assert (Hmono : forall k, fbit (M_vr_format v) k = true ->
                fbit (fold_left (fun f v0 => N.lor f (M_vr_format v0)) adj (N.lor f0 (M_vr_format v))) k = true).
      { intros k Hk. apply B. unfold fbit in *. rewrite N.lor_spec, Hk. apply orb_true_r. }
      destruct v as [r|]; [|exact I]. cbn [vr_covers] in *.
      destruct Hc as (C0 & C1 & C2 & C3 & C4 & C5 & C6 & C7).
      repeat split; intros Hn; apply Hmono; auto.
Qed.

Lemma vr_union_facts adj :
  vr_union adj < 256 /\ forall v, In v adj -> vr_covers (vr_union adj) v.
Proof.
  unfold vr_union. destruct (vr_union_acc adj 0 ltac:(lia)) as (A & _ & C). split; assumption.
Qed.

(* ------------------------------------------------------------------ *)
(* coverage.ReadSet accepts whatever coverage.Read accepts, same glyphs *)

Definition headZ (acc : list N) : Z := match acc with [] => (-1)%Z | k :: _ => Z.of_N k end.

Lemma insk_fresh g acc : (headZ acc < Z.of_N g)%Z -> insk g acc = g :: acc.
Proof.
  destruct acc as [|k tl]; [reflexivity|]. cbn [headZ insk]. intros H.
  replace (k <? g) with true by lia. reflexivity.
Qed.

Lemma rev_append_eq {A} (a : list A) : rev_append a [] = rev a.
Proof. now rewrite rev_append_rev, app_nil_r. Qed.

Lemma covset1_of_cov cnt : forall r i prev l acc,
  cov_read1 cnt r i prev = Ok l -> (headZ acc <= prev)%Z ->
  covset_read1 cnt r acc = Ok (rev acc ++ map fst l).
Proof.
  induction cnt as [|c IH]; intros r i prev l acc H Hacc; cbn [cov_read1 covset_read1] in *.
  - apply ok_inj in H. subst l. now rewrite rev_append_eq, app_nil_r.
  - destruct r as [|a [|b r']]; try discriminate.
    destruct (Z.of_N (w16 a b) <=? prev)%Z eqn:E; [discriminate|].
    destruct (cov_read1 c r' (i + 1) (Z.of_N (w16 a b))) as [tl| | |] eqn:Et; cbn [obind] in H; try discriminate.
    apply ok_inj in H. subst l.
    rewrite insk_fresh by lia.
    rewrite (IH _ _ _ _ (w16 a b :: acc) Et) by (cbn [headZ]; lia).
    cbn [rev map fst]. now rewrite <- app_assoc.
Qed.

Lemma map_fst_range_pairs n : forall g p q,
  map fst (range_pairs n g p) = map fst (range_pairs n g q).
Proof.
  induction n as [|n IH]; intros g p q; cbn [range_pairs map fst]; [reflexivity|].
  f_equal. apply IH.
Qed.

Lemma insk_range_fresh n : forall g acc,
  (headZ acc < Z.of_N g)%Z ->
  insk_range n g acc = rev (map fst (range_pairs n g 0)) ++ acc /\
  (n <> 0%nat -> headZ (insk_range n g acc) = Z.of_N g + Z.of_nat n - 1)%Z.
Proof.
  induction n as [|n IH]; intros g acc H; cbn [insk_range range_pairs map rev].
  - split; [reflexivity|congruence].
  - rewrite insk_fresh by exact H.
    destruct (IH (g + 1) (g :: acc) ltac:(cbn [headZ]; lia)) as [E1 E2].
    rewrite E1. split.
    + cbn [fst]. rewrite <- app_assoc. cbn [app].
      rewrite (map_fst_range_pairs n (g + 1) (0 + 1) 0). reflexivity.
    + intros _. destruct n as [|n']; [cbn [range_pairs map rev app headZ]; lia|].
      rewrite <- E1. rewrite E2 by discriminate. lia.
Qed.

Lemma covset2_of_cov cnt : forall r pos prev l acc,
  cov_read2 cnt r pos prev = Ok l -> (headZ acc <= prev)%Z ->
  covset_read2 cnt r pos prev acc = Ok (rev acc ++ map fst l).
Proof.
  induction cnt as [|c IH]; intros r pos prev l acc H Hacc; cbn [cov_read2 covset_read2] in *.
  - apply ok_inj in H. subst l. now rewrite rev_append_eq, app_nil_r.
  - destruct r as [|a [|b [|c0 [|d [|e [|f r']]]]]]; try discriminate.
    set (s := w16 a b) in *. set (en := w16 c0 d) in *.
    destruct (negb (w16 e f =? pos) || (Z.of_N s <=? prev)%Z || (en <? s)) eqn:E; [discriminate|].
    replace (negb (w16 e f =? pos) || (Z.of_N s <? prev)%Z || (en <? s)) with false by lia.
    destruct (cov_read2 c r' (pos + (en - s + 1)) (Z.of_N en)) as [tl| | |] eqn:Et; cbn [obind] in H; try discriminate.
    apply ok_inj in H. subst l.
    destruct (insk_range_fresh (N.to_nat (en - s + 1)) s acc ltac:(lia)) as [E1 E2].
    rewrite (IH _ _ _ _ _ Et) by (rewrite E2 by lia; lia).
    rewrite E1, rev_app_distr, rev_involutive, map_app, <- app_assoc.
    rewrite (map_fst_range_pairs _ s pos 0). reflexivity.
Qed.

Lemma covset_of_cov data pos l :
  M_cov_read data pos = Ok l -> M_covset_read data pos = Ok (map fst l).
Proof.
  unfold M_cov_read, M_covset_read.
  destruct (seek data pos) as [|a [|b [|c [|d r]]]]; try discriminate.
  destruct (w16 a b =? 1).
  - intros H. now rewrite (covset1_of_cov _ _ _ _ _ [] H ltac:(cbn; lia)).
  - destruct (w16 a b =? 2); [|discriminate].
    intros H. now rewrite (covset2_of_cov _ _ _ _ _ [] H ltac:(cbn; lia)).
Qed.

Lemma map_fst_cov_pairs gl : forall i, map fst (S_cov_pairs_from gl i) = gl.
Proof. induction gl as [|g r IH]; intros i; cbn [S_cov_pairs_from map fst]; [reflexivity|]. now rewrite IH. Qed.

Lemma cov_pairs_length gl : forall i, length (S_cov_pairs_from gl i) = length gl.
Proof. induction gl as [|g r IH]; intros i; cbn [S_cov_pairs_from length]; [reflexivity|]. now rewrite IH. Qed.

(* ------------------------------------------------------------------ *)
(* helpers for the subtables                                           *)

Lemma flat_map_be16_lenN l : lenN (flat_map be16 l) = 2 * lenN l.
Proof. unfold lenN. rewrite flat_map_be16_length. lia. Qed.
Lemma lenN_be16 x : lenN (be16 x) = 2.
Proof. reflexivity. Qed.
Lemma lenN_cons {A} (x : A) l : lenN (x :: l) = 1 + lenN l.
Proof. unfold lenN. cbn [length]. lia. Qed.
Lemma lenN_nil {A} : lenN (@nil A) = 0.
Proof. reflexivity. Qed.
Ltac lens := rewrite ?lenN_app, ?flat_map_be16_lenN, ?lenN_be16, ?lenN_cons, ?lenN_nil.

Lemma seek_at pre a x : seek (pre ++ a ++ x) (lenN pre + lenN a) = x.
Proof.
  unfold lenN. rewrite app_assoc.
  replace (N.of_nat (length pre) + N.of_nat (length a)) with (N.of_nat (length (pre ++ a)))
    by (rewrite app_length; lia).
  apply seek_app.
Qed.

Lemma keys_ok_table gl : forall i, glyphs_ok gl = true -> keys_ok (S_cov_table_from gl i) = true.
Proof.
  induction gl as [|g r IH]; intros i H; cbn [S_cov_table_from keys_ok forallb fst]; [reflexivity|].
  cbn [glyphs_ok forallb] in H. apply andb_true_iff in H as [Hg Hr].
  rewrite Hg. apply IH. exact Hr.
Qed.

Lemma rd_u16s_flat l : forall rest,
  Forall (fun x => x < 65536) l ->
  rd_u16s (length l) (flat_map be16 l ++ rest) = Ok (l, rest).
Proof.
  induction l as [|x l IH]; intros rest H; cbn [length rd_u16s flat_map app]; [reflexivity|].
  apply Forall_cons_iff in H. destruct H as [Hx H].
  rewrite <- app_assoc. cbn [be16 app]. rewrite (IH rest H). cbn [obind fst snd].
  rewrite w16_be16_eq by exact Hx. reflexivity.
Qed.

Lemma rd_slice_flat l rest :
  Forall (fun x => x < 65536) l -> lenN l < 65536 ->
  rd_slice (be16 (lenN l) ++ flat_map be16 l ++ rest) = Ok (l, rest).
Proof.
  intros H Hl. unfold rd_slice. cbn [be16 app]. rewrite w16_be16_eq by exact Hl.
  unfold lenN. rewrite Nnat.Nat2N.id. apply rd_u16s_flat. exact H.
Qed.

Lemma prune_pair_same {A} (cov : list (N * N)) (arr : list A) :
  length arr = length cov -> prune_pair cov arr = (cov, arr).
Proof.
  intros H. unfold prune_pair, lenN. rewrite H, N.ltb_irrefl, <- H, firstn_all. reflexivity.
Qed.

(* the coverage table of a subtable, read at its offset *)
Lemma cov_at gl hdr pre post cb off :
  strictly_inc gl = true -> glyphs_ok gl = true ->
  M_cov_encode (S_cov_table gl) = Ok cb -> off = lenN hdr ->
  M_cov_read (pre ++ (hdr ++ cb) ++ post) (lenN pre + off) = Ok (S_cov_pairs gl).
Proof.
  intros Hs Hg Hc ->.
  destruct (cov_roundtrip gl (pre ++ hdr) post Hs Hg) as (cb' & Hc' & Hr).
  rewrite Hc in Hc'. apply ok_inj in Hc'. subst cb'.
  rewrite app_length, Nnat.Nat2N.inj_add in Hr.
  rewrite <- !app_assoc in *. exact Hr.
Qed.

Lemma cov_encode_len_ok gl cb :
  glyphs_ok gl = true -> M_cov_encode (S_cov_table gl) = Ok cb ->
  M_cov_encode_len (S_cov_table gl) = Ok (lenN cb).
Proof. intros Hg Hc. apply cov_len_agrees; [apply keys_ok_table; exact Hg|exact Hc]. Qed.

(* ------------------------------------------------------------------ *)
(* GSUB 1.1                                                            *)

Lemma gsub11_len_agrees gl delta b :
  glyphs_ok gl = true -> M_gsub11_encode gl delta = Ok b -> M_gsub11_len gl = Ok (lenN b).
Proof.
  unfold M_gsub11_encode, M_gsub11_len. intros Hg.
  destruct (M_cov_encode (S_cov_table gl)) as [cb| | |] eqn:Hc; cbn [obind]; try discriminate.
  intros H. apply ok_inj in H. subst b.
  rewrite (cov_encode_len_ok gl cb Hg Hc). cbn [obind]. f_equal.
  lens. lia.
Qed.

Lemma gsub11_roundtrip gl delta b pre post :
  strictly_inc gl = true -> glyphs_ok gl = true -> delta < 65536 ->
  M_gsub11_encode gl delta = Ok b ->
  M_gsub11_read (pre ++ b ++ post) (lenN pre) = Ok (gl, delta).
Proof.
  intros Hs Hg Hd. unfold M_gsub11_encode.
  destruct (M_cov_encode (S_cov_table gl)) as [cb| | |] eqn:Hc; cbn [obind]; try discriminate.
  intros H. apply ok_inj in H. subst b.
  unfold M_gsub11_read.
  assert (Hseek : seek (pre ++ ([0; 1; 0; 6] ++ be16 delta ++ cb) ++ post) (lenN pre + 2)
                  = [0; 6] ++ be16 delta ++ cb ++ post).
  { change [0; 1; 0; 6] with ([0; 1] ++ [0; 6]). rewrite <- !app_assoc.
    apply (seek_at pre [0; 1]). }
  rewrite Hseek. cbn [app be16]. rewrite w16_be16_eq by exact Hd.
  change (w16 0 6) with 6.
  pose proof (cov_at gl ([0; 1; 0; 6] ++ be16 delta) pre post cb 6 Hs Hg Hc eq_refl) as Hr.
  rewrite <- !app_assoc in *. cbn [app be16] in *.
  rewrite (covset_of_cov _ _ _ Hr). cbn [obind].
  unfold S_cov_pairs. now rewrite map_fst_cov_pairs.
Qed.

(* ------------------------------------------------------------------ *)
(* GSUB 1.2                                                            *)

Lemma gsub12_len_agrees gl subst b :
  glyphs_ok gl = true -> M_gsub12_encode (S_cov_table gl) subst = Ok b ->
  M_gsub12_len (S_cov_table gl) subst = Ok (lenN b).
Proof.
  unfold M_gsub12_encode, M_gsub12_len. intros Hg.
  destruct (65535 <? 6 + 2 * lenN subst); [discriminate|].
  destruct (M_cov_encode (S_cov_table gl)) as [cb| | |] eqn:Hc; cbn [obind]; try discriminate.
  intros H. apply ok_inj in H. subst b.
  rewrite (cov_encode_len_ok gl cb Hg Hc). cbn [obind]. f_equal.
  lens. lia.
Qed.

Lemma gsub12_roundtrip gl subst b pre post :
  strictly_inc gl = true -> glyphs_ok gl = true -> gids_ok subst -> length subst = length gl ->
  M_gsub12_encode (S_cov_table gl) subst = Ok b ->
  M_gsub12_read (pre ++ b ++ post) (lenN pre) = Ok (S_cov_pairs gl, subst).
Proof.
  intros Hs Hg Hsub Hlen. unfold M_gsub12_encode.
  destruct (65535 <? 6 + 2 * lenN subst) eqn:Hov; [discriminate|].
  destruct (M_cov_encode (S_cov_table gl)) as [cb| | |] eqn:Hc; cbn [obind]; try discriminate.
  intros H. apply ok_inj in H. subst b.
  set (off := 6 + 2 * lenN subst) in *.
  set (hdr := [0; 2] ++ be16 off ++ be16 (lenN subst) ++ flat_map be16 subst).
  set (D := pre ++ ([0; 2] ++ be16 off ++ be16 (lenN subst) ++ flat_map be16 subst ++ cb) ++ post).
  assert (HD : D = pre ++ (hdr ++ cb) ++ post) by (unfold D, hdr; now rewrite <- !app_assoc).
  assert (Hseek : seek D (lenN pre + 2)
                  = be16 off ++ be16 (lenN subst) ++ flat_map be16 subst ++ cb ++ post).
  { unfold D. rewrite <- !app_assoc. apply (seek_at pre [0; 2]). }
  unfold M_gsub12_read. rewrite Hseek. cbn [be16 app]. rewrite w16_be16_eq by lia.
  change ((lenN subst / 256) mod 256 :: lenN subst mod 256 :: flat_map be16 subst ++ cb ++ post)
    with (be16 (lenN subst) ++ flat_map be16 subst ++ cb ++ post).
  rewrite rd_slice_flat by (try exact Hsub; lia). cbn [obind fst].
  rewrite HD, (cov_at gl hdr pre post cb off Hs Hg Hc) by (unfold hdr; lens; unfold off; lia).
  cbn [obind]. rewrite prune_pair_same; [reflexivity|].
  unfold S_cov_pairs. now rewrite cov_pairs_length.
Qed.

(* ------------------------------------------------------------------ *)
(* GPOS 1.1                                                            *)

Lemma gpos11_len_agrees gl adj b :
  glyphs_ok gl = true -> M_gpos11_encode (S_cov_table gl) adj = Ok b ->
  M_gpos11_len (S_cov_table gl) adj = Ok (lenN b).
Proof.
  unfold M_gpos11_encode, M_gpos11_len. intros Hg.
  destruct (M_cov_encode (S_cov_table gl)) as [cb| | |] eqn:Hc; cbn [obind]; try discriminate.
  intros H. apply ok_inj in H. subst b.
  rewrite (cov_encode_len_ok gl cb Hg Hc). cbn [obind]. f_equal.
  destruct (vr_format_facts adj) as (Hlt & _ & _).
  lens. rewrite (vr_len_agrees _ adj Hlt). lia.
Qed.

Lemma gpos11_roundtrip gl adj b pre post :
  strictly_inc gl = true -> glyphs_ok gl = true -> vr_ok adj ->
  M_gpos11_encode (S_cov_table gl) adj = Ok b ->
  M_gpos11_read (pre ++ b ++ post) (lenN pre) = Ok (S_cov_pairs gl, adj).
Proof.
  intros Hs Hg Hv. unfold M_gpos11_encode.
  destruct (M_cov_encode (S_cov_table gl)) as [cb| | |] eqn:Hc; cbn [obind]; try discriminate.
  intros H. apply ok_inj in H. subst b.
  destruct (vr_format_facts adj) as (Hlt & _ & _).
  set (fmt := M_vr_format adj) in *. set (off := 6 + M_vr_encode_len fmt).
  set (hdr := [0; 1] ++ be16 off ++ be16 fmt ++ M_vr_encode fmt adj).
  set (D := pre ++ ([0; 1] ++ be16 off ++ be16 fmt ++ M_vr_encode fmt adj ++ cb) ++ post).
  assert (HD : D = pre ++ (hdr ++ cb) ++ post) by (unfold D, hdr; now rewrite <- !app_assoc).
  assert (Hseek : seek D (lenN pre + 2)
                  = be16 off ++ be16 fmt ++ M_vr_encode fmt adj ++ cb ++ post).
  { unfold D. rewrite <- !app_assoc. apply (seek_at pre [0; 1]). }
  unfold M_gpos11_read. rewrite Hseek. cbn [be16 app].
  assert (Hoff : off < 65536).
  { unfold off. rewrite <- (vr_len_agrees fmt adj Hlt). unfold M_vr_encode.
    rewrite !lenN_app, !piece_length.
    repeat match goal with |- context [fbit fmt ?k] => destruct (fbit fmt k) end; lia. }
  rewrite !w16_be16_eq by lia.
  unfold fmt at 1 2. rewrite vr_roundtrip_own by exact Hv. cbn [obind fst].
  rewrite HD, (cov_at gl hdr pre post cb off Hs Hg Hc); [reflexivity|].
  unfold hdr. lens. rewrite (vr_len_agrees fmt adj Hlt). unfold off. lia.
Qed.

(* ------------------------------------------------------------------ *)
(* GPOS 1.2                                                            *)

Lemma vrs_lenN fmt adj : fmt < 256 ->
  lenN (flat_map (M_vr_encode fmt) adj) = M_vr_encode_len fmt * lenN adj.
Proof.
  intros H. induction adj as [|v adj IH]; cbn [flat_map]; [rewrite !lenN_nil; now rewrite N.mul_0_r|].
  rewrite lenN_app, IH, (vr_len_agrees fmt v H), lenN_cons. lia.
Qed.

Lemma rd_vrs_flat fmt adj : forall rest,
  Forall vr_ok adj -> (forall v, In v adj -> vr_covers fmt v) ->
  rd_vrs (length adj) fmt (flat_map (M_vr_encode fmt) adj ++ rest) = Ok (map (vr_norm fmt) adj, rest).
Proof.
  induction adj as [|v adj IH]; intros rest Hok Hcov; cbn [length rd_vrs flat_map map app]; [reflexivity|].
  apply Forall_cons_iff in Hok. destruct Hok as [Hv Hok].
  rewrite <- app_assoc, vr_read_encode by (try exact Hv; apply Hcov; left; reflexivity).
  cbn [obind fst snd]. rewrite IH by (try exact Hok; intros w Hw; apply Hcov; right; exact Hw).
  reflexivity.
Qed.

Lemma gpos12_covoffs adj :
  8 + (match adj with [] => 0 | _ => M_vr_encode_len (vr_union adj) * lenN adj end) =
  8 + lenN (flat_map (M_vr_encode (vr_union adj)) adj).
Proof.
  destruct (vr_union_facts adj) as [Hlt _]. rewrite vrs_lenN by exact Hlt.
  destruct adj; [unfold lenN; cbn [length]; change (N.of_nat 0) with 0; now rewrite N.mul_0_r|reflexivity].
Qed.

Lemma gpos12_len_agrees gl adj b :
  glyphs_ok gl = true -> M_gpos12_encode (S_cov_table gl) adj = Ok b ->
  M_gpos12_len (S_cov_table gl) adj = Ok (lenN b).
Proof.
  unfold M_gpos12_encode, M_gpos12_len. intros Hg.
  destruct (M_cov_encode (S_cov_table gl)) as [cb| | |] eqn:Hc; cbn [obind]; try discriminate.
  destruct (_ || _); [discriminate|].
  intros H. apply ok_inj in H. subst b.
  rewrite (cov_encode_len_ok gl cb Hg Hc). cbn [obind]. f_equal.
  rewrite gpos12_covoffs. lens. lia.
Qed.

Lemma gpos12_roundtrip gl adj b pre post :
  strictly_inc gl = true -> glyphs_ok gl = true -> Forall vr_ok adj -> length adj = length gl ->
  M_gpos12_encode (S_cov_table gl) adj = Ok b ->
  M_gpos12_read (pre ++ b ++ post) (lenN pre) = Ok (S_cov_pairs gl, map (vr_norm (vr_union adj)) adj).
Proof.
  intros Hs Hg Hv Hlen. unfold M_gpos12_encode.
  destruct (M_cov_encode (S_cov_table gl)) as [cb| | |] eqn:Hc; cbn [obind]; try discriminate.
  rewrite gpos12_covoffs.
  destruct (vr_union_facts adj) as [Hlt Hcov].
  set (fmt := vr_union adj) in *.
  set (off := 8 + lenN (flat_map (M_vr_encode fmt) adj)).
  destruct ((65535 <? off) || (65535 <? lenN adj)) eqn:Hov; [discriminate|].
  intros H. apply ok_inj in H. subst b.
  set (hdr := [0; 2] ++ be16 off ++ be16 fmt ++ be16 (lenN adj) ++ flat_map (M_vr_encode fmt) adj).
  set (D := pre ++ ([0; 2] ++ be16 off ++ be16 fmt ++ be16 (lenN adj) ++ flat_map (M_vr_encode fmt) adj ++ cb) ++ post).
  assert (HD : D = pre ++ (hdr ++ cb) ++ post) by (unfold D, hdr; now rewrite <- !app_assoc).
  assert (Hseek : seek D (lenN pre + 2)
                  = be16 off ++ be16 fmt ++ be16 (lenN adj) ++ flat_map (M_vr_encode fmt) adj ++ cb ++ post).
  { unfold D. rewrite <- !app_assoc. apply (seek_at pre [0; 2]). }
  unfold M_gpos12_read. rewrite Hseek. cbn [be16 app]. rewrite !w16_be16_eq by lia.
  unfold lenN at 1. rewrite Nnat.Nat2N.id.
  rewrite rd_vrs_flat by assumption. cbn [obind fst].
  rewrite HD, (cov_at gl hdr pre post cb off Hs Hg Hc) by (unfold hdr; lens; unfold off; lia).
  cbn [obind]. rewrite prune_pair_same; [reflexivity|].
  unfold S_cov_pairs. now rewrite map_length, cov_pairs_length.
Qed.

(* ------------------------------------------------------------------ *)
(* GSUB 2.1 and 3.1                                                    *)

Fixpoint seq_offs (seqs : list (list N)) (off : N) : list N :=
  match seqs with [] => [] | s :: r => off :: seq_offs r (off + 2 + 2 * lenN s) end.

Lemma seq_offsets_flat seqs : forall off, seq_offsets seqs off = flat_map be16 (seq_offs seqs off).
Proof. induction seqs as [|s r IH]; intros off; cbn [seq_offsets seq_offs flat_map]; [reflexivity|]. now rewrite IH. Qed.

Lemma seq_offs_length seqs : forall off, length (seq_offs seqs off) = length seqs.
Proof. induction seqs as [|s r IH]; intros off; cbn [seq_offs length]; [reflexivity|]. now rewrite IH. Qed.

Lemma seq_offs_bound seqs : forall off,
  Forall (fun o => o <= off + seq_sizes seqs) (seq_offs seqs off).
Proof.
  induction seqs as [|s r IH]; intros off; cbn [seq_offs seq_sizes]; constructor; [lia|].
  eapply Forall_impl; [|apply IH]. cbv beta. intros; lia.
Qed.

Lemma seq_bytes_lenN s : lenN (seq_bytes s) = 2 + 2 * lenN s.
Proof. unfold seq_bytes. lens. lia. Qed.

Lemma seqs_lenN seqs : lenN (flat_map seq_bytes seqs) = seq_sizes seqs.
Proof.
  induction seqs as [|s r IH]; cbn [flat_map seq_sizes]; [reflexivity|].
  rewrite lenN_app, IH, seq_bytes_lenN. lia.
Qed.

Lemma rd_seqs_ok pos tail seqs : forall A off,
  Forall seq_ok seqs -> lenN A = pos + off ->
  rd_seqs (A ++ flat_map seq_bytes seqs ++ tail) pos (seq_offs seqs off) = Ok seqs.
Proof.
  induction seqs as [|s r IH]; intros A off Hok HA; cbn [seq_offs rd_seqs flat_map]; [reflexivity|].
  apply Forall_cons_iff in Hok. destruct Hok as [[Hg Hl] Hok].
  rewrite <- HA. unfold lenN at 1. rewrite <- app_assoc, seek_app.
  unfold seq_bytes at 1. rewrite <- !app_assoc, rd_slice_flat by assumption. cbn [obind fst].
  specialize (IH (A ++ seq_bytes s) (off + 2 + 2 * lenN s) Hok).
  rewrite <- app_assoc in IH.
  rewrite IH; [reflexivity|]. rewrite lenN_app, HA, seq_bytes_lenN. lia.
Qed.

Lemma gsubseq_len_agrees gl seqs b :
  glyphs_ok gl = true -> M_gsubseq_encode (S_cov_table gl) seqs = Ok b ->
  M_gsubseq_len (S_cov_table gl) seqs = Ok (lenN b).
Proof.
  unfold M_gsubseq_encode, M_gsubseq_len. intros Hg.
  destruct (65535 <? _); [discriminate|].
  destruct (M_cov_encode (S_cov_table gl)) as [cb| | |] eqn:Hc; cbn [obind]; try discriminate.
  intros H. apply ok_inj in H. subst b.
  rewrite (cov_encode_len_ok gl cb Hg Hc). cbn [obind]. f_equal.
  rewrite seq_offsets_flat. lens. rewrite seqs_lenN.
  unfold lenN at 3. rewrite seq_offs_length. fold (lenN seqs). lia.
Qed.

Lemma gsubseq_roundtrip gl seqs b pre post :
  strictly_inc gl = true -> glyphs_ok gl = true -> Forall seq_ok seqs -> length seqs = length gl ->
  M_gsubseq_encode (S_cov_table gl) seqs = Ok b ->
  M_gsubseq_read (pre ++ b ++ post) (lenN pre) = Ok (S_cov_pairs gl, seqs).
Proof.
  intros Hs Hg Hq Hlen. unfold M_gsubseq_encode.
  set (cnt := lenN seqs). set (off := 6 + 2 * cnt + seq_sizes seqs).
  destruct (65535 <? off) eqn:Hov; [discriminate|].
  destruct (M_cov_encode (S_cov_table gl)) as [cb| | |] eqn:Hc; cbn [obind]; try discriminate.
  intros H. apply ok_inj in H. subst b.
  rewrite seq_offsets_flat.
  set (offs := seq_offs seqs (6 + 2 * cnt)).
  assert (Hoffs_len : length offs = length seqs) by apply seq_offs_length.
  assert (Hoffs_ok : Forall (fun x => x < 65536) offs).
  { eapply Forall_impl; [|apply seq_offs_bound]. cbv beta. intros; unfold off in Hov; lia. }
  set (hdr := [0; 1] ++ be16 off ++ be16 cnt ++ flat_map be16 offs ++ flat_map seq_bytes seqs).
  set (D := pre ++ ([0; 1] ++ be16 off ++ be16 cnt ++ flat_map be16 offs ++ flat_map seq_bytes seqs ++ cb) ++ post).
  assert (HD : D = pre ++ (hdr ++ cb) ++ post) by (unfold D, hdr; now rewrite <- !app_assoc).
  assert (Hseek : seek D (lenN pre + 2)
                  = be16 off ++ be16 cnt ++ flat_map be16 offs ++ flat_map seq_bytes seqs ++ cb ++ post).
  { unfold D. rewrite <- !app_assoc. apply (seek_at pre [0; 1]). }
  unfold M_gsubseq_read. rewrite Hseek. cbn [be16 app]. rewrite w16_be16_eq by lia.
  change ((cnt / 256) mod 256 :: cnt mod 256 :: ?x) with (be16 cnt ++ x).
  assert (Hcnt : cnt = lenN offs) by (unfold cnt, lenN; now rewrite Hoffs_len).
  rewrite Hcnt at 1.
  rewrite rd_slice_flat by (try exact Hoffs_ok; rewrite <- Hcnt; unfold off in Hov; lia).
  cbn [obind fst].
  rewrite HD at 1. rewrite (cov_at gl hdr pre post cb off Hs Hg Hc).
  2:{ unfold hdr. lens. rewrite seqs_lenN, <- Hcnt. unfold off. lia. }
  cbn [obind].
  rewrite prune_pair_same by (unfold S_cov_pairs; rewrite cov_pairs_length; lia).
  cbn [fst snd].
  assert (HD2 : D = (pre ++ [0; 1] ++ be16 off ++ be16 cnt ++ flat_map be16 offs) ++
                    flat_map seq_bytes seqs ++ (cb ++ post))
    by (unfold D; now rewrite <- !app_assoc).
  rewrite HD2. unfold offs.
  rewrite rd_seqs_ok; [reflexivity|exact Hq|].
  lens. fold offs. rewrite <- Hcnt. lia.
Qed.
