(* C08/ModelGDEF.v — executable model of gdef.Table.Encode and gdef.Read
   (opentype/gdef/gdef.go), with fixes/C08-gdef-offset-guards.diff applied
   (offsets and the mark glyph set count must fit 16 bits, else panic).
   The attachment point list, ligature caret list and item variation store
   are not implemented by the library: their offsets are written as 0 and
   ignored when reading.

   GlyphClass, MarkAttachClass : option (class table), None = nil map;
   MarkGlyphSets : option (list of glyph sets), None = nil slice; a set is its
   strictly increasing glyph list. *)
From Coq Require Import List NArith ZArith Bool Lia.
From Common Require Import Bytes Outcome.
From C08 Require Import Model ModelCD ModelSub.
Import ListNotations.
Local Open Scope N_scope.

Record gdef := { g_gc : option (list (N * N)); g_mac : option (list (N * N));
                 g_sets : option (list (list N)) }.

Definition opt_len (t : option (list (N * N))) : N :=
  match t with Some x => M_cd_append_len x | None => 0 end.
Definition opt_bytes (t : option (list (N * N))) : outcome (list N) :=
  match t with Some x => M_cd_append x | None => Ok [] end.

(* offs := 4 + 4*count; for each set: write offs (32 bit); offs += cov.EncodeLen() *)
Fixpoint set_covs (sets : list (list N)) : outcome (list (list N)) :=
  match sets with
  | [] => Ok []
  | s :: r => c <- M_cov_encode (S_cov_table s) ;; tl <- set_covs r ;; Ok (c :: tl)
  end.
Fixpoint mgs_offs (covs : list (list N)) (off : N) : list N :=
  match covs with [] => [] | c :: r => off :: mgs_offs r (off + lenN c) end.

Definition M_gdef_encode (t : gdef) : outcome (list N) :=
  let hdr := match g_sets t with Some _ => 14 | None => 12 end in
  let version := match g_sets t with Some _ => 65538 | None => 65536 end in
  let gcOff := match g_gc t with Some _ => hdr | None => 0 end in
  let t1 := hdr + opt_len (g_gc t) in
  let macOff := match g_mac t with Some _ => t1 | None => 0 end in
  let t2 := t1 + opt_len (g_mac t) in
  let mgsOff := match g_sets t with Some _ => t2 | None => 0 end in
  covs <- (match g_sets t with Some sets => set_covs sets | None => Ok [] end) ;;
  let cnt := lenN covs in
  if (65535 <? macOff) || (65535 <? mgsOff) || (65535 <? cnt) then Panic
  else
    gcb <- opt_bytes (g_gc t) ;;
    macb <- opt_bytes (g_mac t) ;;
    Ok (be32 version ++ be16 gcOff ++ [0; 0; 0; 0] ++ be16 macOff ++
        (match g_sets t with Some _ => be16 mgsOff | None => [] end) ++
        gcb ++ macb ++
        (match g_sets t with
         | Some _ => [0; 1] ++ be16 cnt ++ flat_map be32 (mgs_offs covs (4 + 4 * cnt)) ++ concat covs
         | None => []
         end)).

(* ---- reader ---- *)
Fixpoint rd_u32s (n : nat) (r : list N) : outcome (list N) :=
  match n with
  | O => Ok []
  | S n' =>
    match r with
    | a :: b :: c :: d :: r' =>
      tl <- rd_u32s n' r' ;; Ok (a * 16777216 + b * 65536 + c * 256 + d :: tl)
    | _ => Err
    end
  end.

Fixpoint rd_sets_at (data : list N) (pos : N) (offs : list N) : outcome (list (list N)) :=
  match offs with
  | [] => Ok []
  | o :: r => s <- M_covset_read data (pos + o) ;; tl <- rd_sets_at data pos r ;; Ok (s :: tl)
  end.

Definition rd_opt_cd (data : list N) (off : N) : outcome (option (list (N * N))) :=
  if off =? 0 then Ok None else t <- M_cd_read data off ;; Ok (Some t).

Definition M_gdef_read (data : list N) : outcome gdef :=
  match data with
  | a :: b :: c :: d :: e :: f :: _ :: _ :: _ :: _ :: k :: l :: r =>
    let major := w16 a b in
    let minor := w16 c d in
    if negb (major =? 1) || negb ((minor =? 0) || (minor =? 2) || (minor =? 3)) then Err
    else
      x <- (if 2 <=? minor then match r with m :: n :: r' => Ok (w16 m n, r') | _ => Err end
            else Ok (0, r)) ;;
      _ <- (if 3 <=? minor then match snd x with _ :: _ :: _ :: _ :: _ => Ok tt | _ => Err end
            else Ok tt) ;;
      gc <- rd_opt_cd data (w16 e f) ;;
      mac <- rd_opt_cd data (w16 k l) ;;
      sets <- (let off := fst x in
               if off =? 0 then Ok None
               else
                 match seek data off with
                 | p :: q :: u :: v :: r2 =>
                   if negb (w16 p q =? 1) then Err
                   else
                     offs <- rd_u32s (N.to_nat (w16 u v)) r2 ;;
                     ss <- rd_sets_at data off offs ;;
                     Ok (Some ss)
                 | _ => Err
                 end) ;;
      Ok {| g_gc := gc; g_mac := mac; g_sets := sets |}
  | _ => Err
  end.

(* ---- specification side ---- *)
Definition opt_cd_ok (t : option (list (N * N))) : Prop :=
  match t with Some x => cd_ok x = true | None => True end.
Definition set_ok (s : list N) : Prop := strictly_inc s = true /\ glyphs_ok s = true.
Definition gdef_ok (t : gdef) : Prop :=
  opt_cd_ok (g_gc t) /\ opt_cd_ok (g_mac t) /\
  match g_sets t with Some ss => Forall set_ok ss | None => True end.
(* class 0 entries mean "not classified" and are not stored *)
Definition gdef_norm (t : gdef) : gdef :=
  {| g_gc := option_map S_cd_nonzero (g_gc t); g_mac := option_map S_cd_nonzero (g_mac t);
     g_sets := g_sets t |}.
