(* C08/Proofs.v — lemmas about the coverage model. *)
From Coq Require Import List NArith ZArith Bool Lia FMapPositive.
From Coq Require Import ZifyBool ZifyNat ZifyN.
From Common Require Import Bytes Outcome.
From C08 Require Import Model.
Import ListNotations.
Local Open Scope N_scope.
Ltac Zify.zify_post_hook ::= Z.div_mod_to_equations.

(* ------------------------------------------------------------------ *)
(* small arithmetic / list facts                                       *)

Lemma ok_inj {A} (a b : A) : Ok a = Ok b -> a = b.
Proof. intros H. injection H. auto. Qed.

Lemma w16_be16 x r : x < 65536 ->
  exists a b, be16 x ++ r = a :: b :: r /\ w16 a b = x.
Proof.
  intros H. exists ((x / 256) mod 256), (x mod 256). split; [reflexivity|].
  unfold w16. lia.
Qed.

Lemma w16_be16_eq x : x < 65536 -> w16 ((x / 256) mod 256) (x mod 256) = x.
Proof. unfold w16. lia. Qed.

Lemma pkey_inj a b : pkey a = pkey b -> a = b.
Proof.
  unfold pkey. intros H.
  assert (E : N.pos (N.succ_pos a) = N.pos (N.succ_pos b)) by now rewrite H.
  rewrite !N.succ_pos_spec in E. lia.
Qed.

Lemma seek_unfold data : forall pos, seek data pos = skipn (N.to_nat pos) data.
Proof.
  unfold seek. induction data as [|x r IH]; intros pos; cbn [drop].
  - now rewrite skipn_nil.
  - destruct (pos =? 0) eqn:E.
    + apply N.eqb_eq in E. subst pos. reflexivity.
    + rewrite IH. replace (N.to_nat pos) with (S (N.to_nat (pos - 1))) by lia. reflexivity.
Qed.

Lemma seek_app pre l : seek (pre ++ l) (N.of_nat (length pre)) = l.
Proof.
  rewrite seek_unfold. rewrite Nnat.Nat2N.id.
  rewrite skipn_app, skipn_all, Nat.sub_diag. reflexivity.
Qed.

(* ------------------------------------------------------------------ *)
(* the reader never panics                                             *)

Lemma cov_read1_not_panic cnt : forall r i prev, cov_read1 cnt r i prev <> Panic.
Proof.
  induction cnt as [|c IH]; intros r i prev; cbn [cov_read1]; [discriminate|].
  destruct r as [|a [|b r']]; try discriminate.
  destruct (Z.of_N (w16 a b) <=? prev)%Z; [discriminate|].
  specialize (IH r' (i + 1) (Z.of_N (w16 a b))).
  destruct (cov_read1 c r' (i + 1) (Z.of_N (w16 a b))); cbn; congruence.
Qed.

Lemma cov_read2_not_panic cnt : forall r pos prev, cov_read2 cnt r pos prev <> Panic.
Proof.
  induction cnt as [|c IH]; intros r pos prev; cbn [cov_read2]; [discriminate|].
  destruct r as [|a [|b [|c0 [|d [|e [|f r']]]]]]; try discriminate.
  destruct (negb (w16 e f =? pos) || (Z.of_N (w16 a b) <=? prev)%Z || (w16 c0 d <? w16 a b)); [discriminate|].
  match goal with |- context [cov_read2 c r' ?p ?q] => specialize (IH r' p q); destruct (cov_read2 c r' p q) end;
    cbn; congruence.
Qed.

Lemma cov_read_total data pos : M_cov_read data pos <> Panic.
Proof.
  unfold M_cov_read.
  destruct (seek data pos) as [|a [|b [|c [|d r]]]]; try discriminate.
  destruct (w16 a b =? 1); [apply cov_read1_not_panic|].
  destruct (w16 a b =? 2); [apply cov_read2_not_panic|discriminate].
Qed.

(* ------------------------------------------------------------------ *)
(* strictly increasing lists                                           *)


Lemma strictly_inc_cons a tl :
  strictly_inc (a :: tl) = inc_from (Z.of_N a) tl.
Proof.
  revert a; induction tl as [|b tl IH]; intros a; [reflexivity|].
  change (strictly_inc (a :: b :: tl)) with ((a <? b) && strictly_inc (b :: tl)).
  rewrite IH. cbn [inc_from]. f_equal. lia.
Qed.

Lemma strictly_inc_inc_from l : strictly_inc l = inc_from (-1) l.
Proof.
  destruct l as [|a tl]; [reflexivity|].
  rewrite strictly_inc_cons. cbn [inc_from].
  replace (-1 <? Z.of_N a)%Z with true by lia. reflexivity.
Qed.

Lemma inc_from_weaken p q l : (q <= p)%Z -> inc_from p l = true -> inc_from q l = true.
Proof.
  destruct l as [|a tl]; [reflexivity|]. cbn [inc_from]. intros Hq H.
  apply andb_true_iff in H as [H1 H2]. rewrite H2, andb_true_r. lia.
Qed.

(* ------------------------------------------------------------------ *)
(* encInfo on a valid table                                            *)

Fixpoint fill (gl : list N) (i : N) (m : PositiveMap.t N) : PositiveMap.t N :=
  match gl with
  | [] => m
  | g :: r => fill r (i + 1) (PositiveMap.add (pkey i) g m)
  end.

Lemma rev_fill_valid gl : forall i n m,
  i + N.of_nat (length gl) <= n ->
  rev_fill (S_cov_table_from gl (Z.of_N i)) n m = Ok (fill gl i m).
Proof.
  induction gl as [|g r IH]; intros i n m Hn; cbn [S_cov_table_from rev_fill fill]; [reflexivity|].
  cbn [length] in Hn.
  replace ((0 <=? Z.of_N i)%Z && (Z.of_N i <? Z.of_N n)%Z) with true by lia.
  rewrite N2Z.id.
  replace (Z.of_N i + 1)%Z with (Z.of_N (i + 1)) by lia.
  apply IH. lia.
Qed.

Lemma fill_other gl : forall i m j, j < i ->
  PositiveMap.find (pkey j) (fill gl i m) = PositiveMap.find (pkey j) m.
Proof.
  induction gl as [|g r IH]; intros i m j Hj; cbn [fill]; [reflexivity|].
  rewrite IH by lia. apply PositiveMap.gso.
  intros E. apply pkey_inj in E. lia.
Qed.

Lemma rev_list_fill gl : forall i m, rev_list (length gl) i (fill gl i m) = gl.
Proof.
  induction gl as [|g r IH]; intros i m; cbn [length rev_list fill]; [reflexivity|].
  rewrite fill_other by lia. rewrite PositiveMap.gss. f_equal. apply IH.
Qed.

Lemma S_cov_table_from_length gl : forall i, length (S_cov_table_from gl i) = length gl.
Proof. induction gl as [|g r IH]; intros i; cbn [S_cov_table_from length]; [reflexivity|]. now rewrite IH. Qed.

Lemma tab_fill_other t : forall m g,
  (forall p, In p t -> fst p <> g) ->
  PositiveMap.find (pkey g) (tab_fill t m) = PositiveMap.find (pkey g) m.
Proof.
  induction t as [|[h i] t IH]; intros m g H; cbn [tab_fill]; [reflexivity|].
  rewrite IH by (intros p Hp; apply H; right; exact Hp).
  apply PositiveMap.gso. intros E. apply pkey_inj in E.
  apply (H (h, i) (or_introl eq_refl)). cbn [fst]. congruence.
Qed.

Lemma S_cov_table_from_keys gl : forall i p g,
  inc_from (Z.of_N g) gl = true -> In p (S_cov_table_from gl i) -> fst p <> g.
Proof.
  induction gl as [|h r IH]; intros i p g Hi Hp; [destruct Hp|].
  cbn [inc_from] in Hi. apply andb_true_iff in Hi as [Hgh Hi].
  cbn [S_cov_table_from] in Hp. destruct Hp as [<-|Hp]; [cbn [fst]; lia|].
  apply (IH (i + 1)%Z p g); [|exact Hp]. eapply inc_from_weaken; [|exact Hi]. lia.
Qed.

Lemma rev_check_valid gl : forall i m prev,
  inc_from prev gl = true ->
  rev_check gl i (tab_fill (S_cov_table_from gl i) m) = true.
Proof.
  induction gl as [|g r IH]; intros i m prev Hi; cbn [rev_check S_cov_table_from tab_fill]; [reflexivity|].
  cbn [inc_from] in Hi. apply andb_true_iff in Hi as [_ Hi].
  rewrite tab_fill_other by (intros p Hp; eapply S_cov_table_from_keys; eassumption).
  rewrite PositiveMap.gss, Z.eqb_refl. cbn [andb].
  eapply IH. exact Hi.
Qed.

Lemma encinfo_valid gl :
  strictly_inc gl = true ->
  M_cov_encinfo (S_cov_table gl) =
  Ok {| ei_rev := gl; ei_f1 := 4 + 2 * N.of_nat (length gl);
        ei_f2 := 4 + 6 * range_count gl 65535 |}.
Proof.
  intros Hs. unfold M_cov_encinfo, S_cov_table.
  rewrite S_cov_table_from_length.
  change 0%Z with (Z.of_N 0).
  rewrite rev_fill_valid by lia. cbn [obind].
  rewrite rev_list_fill, Hs.
  rewrite strictly_inc_inc_from in Hs.
  change (Z.of_N 0) with 0%Z. rewrite (rev_check_valid gl 0 _ (-1) Hs). reflexivity.
Qed.

(* ------------------------------------------------------------------ *)
(* sizes                                                               *)

Lemma flat_map_be16_length l : length (flat_map be16 l) = (2 * length l)%nat.
Proof. induction l as [|a l IH]; [reflexivity|]. cbn [flat_map]. rewrite app_length, IH. cbn [be16 length]. lia. Qed.

Lemma range_rec_length s p i : length (range_rec s p i) = 6%nat.
Proof. reflexivity. Qed.

(* with a pending range (i > 0) the loop emits one record per counted range
   plus the final one *)
Lemma cov_ranges_length rev : forall i st sci prev, 0 < i ->
  N.of_nat (length (cov_ranges rev i st sci prev)) = 6 * range_count rev prev + 6.
Proof.
  induction rev as [|g r IH]; intros i st sci prev Hi; cbn [cov_ranges range_count].
  - rewrite range_rec_length. lia.
  - destruct (g =? prev + 1).
    + rewrite IH by lia. lia.
    + replace (0 <? i) with true by lia.
      rewrite app_length, range_rec_length, Nnat.Nat2N.inj_add, IH by lia. lia.
Qed.

Lemma cov_ranges_length0 g r :
  g < 65536 ->
  N.of_nat (length (cov_ranges (g :: r) 0 0 0 65535)) = 6 * range_count (g :: r) 65535.
Proof.
  intros Hg. cbn [cov_ranges range_count].
  replace (g =? 65535 + 1) with false by lia.
  replace (0 <? 0) with false by lia. cbn [app].
  rewrite cov_ranges_length by lia. lia.
Qed.

Lemma rev_list_length k : forall j m, length (rev_list k j m) = k.
Proof. induction k as [|k IH]; intros j m; cbn [rev_list length]; [reflexivity|]. now rewrite IH. Qed.

Lemma cov_bytes_eq rev f1 f2 :
  cov_bytes {| ei_rev := rev; ei_f1 := f1; ei_f2 := f2 |} =
  if f1 <=? f2 then [0; 1] ++ be16 (N.of_nat (length rev)) ++ flat_map be16 rev
  else [0; 2] ++ be16 ((f2 - 4) / 6) ++ cov_ranges rev 0 0 0 65535.
Proof. reflexivity. Qed.


Lemma rev_fill_vals t : forall n m m',
  keys_ok t = true ->
  rev_fill t n m = Ok m' ->
  (forall k v, PositiveMap.find k m = Some v -> v < 65536) ->
  (forall k v, PositiveMap.find k m' = Some v -> v < 65536).
Proof.
  induction t as [|[g i] t IH]; intros n m m' Hk Hf Hm; cbn [rev_fill] in Hf.
  - injection Hf as <-. exact Hm.
  - cbn [keys_ok forallb fst] in Hk. apply andb_true_iff in Hk as [Hg Hk].
    destruct ((0 <=? i)%Z && (i <? Z.of_N n)%Z); [|discriminate].
    eapply IH; [exact Hk|exact Hf|].
    intros k v. destruct (Pos.eq_dec k (pkey (Z.to_N i))) as [->|Hne].
    + rewrite PositiveMap.gss. intros [= <-]. lia.
    + rewrite PositiveMap.gso by exact Hne. apply Hm.
Qed.

Lemma rev_list_vals k : forall j m,
  (forall q v, PositiveMap.find q m = Some v -> v < 65536) ->
  Forall (fun g => g < 65536) (rev_list k j m).
Proof.
  induction k as [|k IH]; intros j m Hm; cbn [rev_list]; constructor.
  - destruct (PositiveMap.find (pkey j) m) eqn:E; [eapply Hm; exact E|lia].
  - apply IH; exact Hm.
Qed.

Lemma cov_len_agrees t b :
  keys_ok t = true ->
  M_cov_encode t = Ok b ->
  M_cov_encode_len t = Ok (N.of_nat (length b)).
Proof.
  unfold M_cov_encode, M_cov_encode_len, M_cov_encinfo. intros Hk.
  destruct (rev_fill t (N.of_nat (length t)) (PositiveMap.empty N)) as [m| | |] eqn:Ef;
    unfold obind; try discriminate.
  set (rev := rev_list (length t) 0 m).
  assert (Hlen : length rev = length t) by apply rev_list_length.
  rewrite <- Hlen.
  destruct (strictly_inc rev && rev_check rev 0 (tab_fill t (PositiveMap.empty Z))) eqn:Hs; [|discriminate].
  intros E. apply ok_inj in E. subst b. f_equal. rewrite cov_bytes_eq.
  cbv beta iota delta [ei_f1 ei_f2 ei_rev].
  destruct (4 + 2 * N.of_nat (length rev) <=? 4 + 6 * range_count rev 65535) eqn:Hc.
  - rewrite !app_length, flat_map_be16_length. cbn [length be16]. lia.
  - assert (Hv : Forall (fun g => g < 65536) rev).
    { apply rev_list_vals. eapply rev_fill_vals; [exact Hk|exact Ef|].
      intros k v. rewrite PositiveMap.gempty. discriminate. }
    destruct rev as [|g r] eqn:Er.
    + cbn [length range_count] in Hc. lia.
    + rewrite !app_length, Nnat.Nat2N.inj_add, Nnat.Nat2N.inj_add.
      rewrite cov_ranges_length0 by (inversion Hv; assumption).
      cbn [length be16]. lia.
Qed.

(* ------------------------------------------------------------------ *)
(* counting ranges                                                     *)

Lemma range_count_S_runs tl : forall a, range_count tl a + 1 = S_runs (a :: tl).
Proof.
  induction tl as [|b tl IH]; intros a; [reflexivity|].
  change (S_runs (a :: b :: tl)) with ((if b =? a + 1 then 0 else 1) + S_runs (b :: tl)).
  cbn [range_count]. rewrite <- IH. lia.
Qed.

Lemma range_count_runs gl : glyphs_ok gl = true -> range_count gl 65535 = S_runs gl.
Proof.
  destruct gl as [|a tl]; [reflexivity|]. intros Hg.
  cbn [glyphs_ok forallb] in Hg. apply andb_true_iff in Hg as [Ha _].
  rewrite <- range_count_S_runs. cbn [range_count].
  replace (a =? 65535 + 1) with false by lia. lia.
Qed.

(* every new range skips at least one glyph id *)
Lemma range_count_bound r : forall g B,
  inc_from (Z.of_N g) r = true -> g < B -> forallb (fun x => x <? B) r = true ->
  g + 1 + N.of_nat (length r) + range_count r g <= B.
Proof.
  induction r as [|h r IH]; intros g B Hi Hg Hb; cbn [length range_count].
  - lia.
  - cbn [inc_from] in Hi. apply andb_true_iff in Hi as [Hgh Hi].
    cbn [forallb] in Hb. apply andb_true_iff in Hb as [Hh Hb].
    specialize (IH h B Hi ltac:(lia) Hb).
    destruct (h =? g + 1) eqn:E; lia.
Qed.

Lemma count_bounds gl :
  strictly_inc gl = true -> glyphs_ok gl = true ->
  N.of_nat (length gl) + range_count gl 65535 <= 65537 /\
  range_count gl 65535 <= N.of_nat (length gl).
Proof.
  intros Hs Hg. destruct gl as [|g r]; [cbn; lia|].
  rewrite strictly_inc_cons in Hs.
  cbn [glyphs_ok forallb] in Hg. apply andb_true_iff in Hg as [Hg Hr].
  pose proof (range_count_bound r g 65536 Hs ltac:(lia) Hr) as Hb.
  cbn [range_count length]. replace (g =? 65535 + 1) with false by lia.
  split; [lia|].
  clear Hb Hs Hr Hg. generalize g. induction r as [|h r IH]; intros g0; cbn [range_count length]; [lia|].
  specialize (IH h). destruct (h =? g0 + 1); lia.
Qed.

(* ------------------------------------------------------------------ *)
(* reading back format 1                                               *)

Lemma cov_read1_roundtrip gl : forall post i prev,
  inc_from prev gl = true -> glyphs_ok gl = true ->
  cov_read1 (length gl) (flat_map be16 gl ++ post) i prev = Ok (S_cov_pairs_from gl i).
Proof.
  induction gl as [|g r IH]; intros post i prev Hi Hg; cbn [length cov_read1 flat_map S_cov_pairs_from]; [reflexivity|].
  cbn [inc_from] in Hi. apply andb_true_iff in Hi as [Hp Hi].
  cbn [glyphs_ok forallb] in Hg. apply andb_true_iff in Hg as [Hg Hr].
  rewrite <- app_assoc. cbn [be16 app].
  rewrite w16_be16_eq by lia.
  replace (Z.of_N g <=? prev)%Z with false by lia.
  rewrite IH by assumption. reflexivity.
Qed.

(* ------------------------------------------------------------------ *)
(* reading back format 2                                               *)

Lemma range_pairs_snoc n : forall s p,
  range_pairs (S n) s p = range_pairs n s p ++ [(s + N.of_nat n, p + N.of_nat n)].
Proof.
  induction n as [|n IH]; intros s p.
  - cbn [range_pairs app]. change (N.of_nat 0) with 0. now rewrite !N.add_0_r.
  - change (range_pairs (S (S n)) s p) with ((s, p) :: range_pairs (S n) (s + 1) (p + 1)).
    rewrite IH. cbn [range_pairs app].
    replace (s + N.of_nat (S n)) with (s + 1 + N.of_nat n) by lia.
    replace (p + N.of_nat (S n)) with (p + 1 + N.of_nat n) by lia.
    reflexivity.
Qed.

Lemma cov_read2_S c a b c0 d e f r' pos prev :
  cov_read2 (S c) (a :: b :: c0 :: d :: e :: f :: r') pos prev =
  if negb (w16 e f =? pos) || (Z.of_N (w16 a b) <=? prev)%Z || (w16 c0 d <? w16 a b) then Err
  else tl <- cov_read2 c r' (pos + (w16 c0 d - w16 a b + 1)) (Z.of_N (w16 c0 d)) ;;
       Ok (range_pairs (N.to_nat (w16 c0 d - w16 a b + 1)) (w16 a b) pos ++ tl).
Proof. reflexivity. Qed.

(* pending range start..prev holding glyph indices sci..i-1 *)
Lemma cov_read2_roundtrip gl : forall post i start sci prev prevEnd,
  0 < i -> sci < i -> start <= prev -> prev - start + 1 = i - sci ->
  (prevEnd < Z.of_N start)%Z ->
  inc_from (Z.of_N prev) gl = true -> glyphs_ok gl = true -> prev < 65536 ->
  i + N.of_nat (length gl) <= 65536 ->
  cov_read2 (S (N.to_nat (range_count gl prev))) (cov_ranges gl i start sci prev ++ post) sci prevEnd
  = Ok (range_pairs (N.to_nat (i - sci)) start sci ++ S_cov_pairs_from gl i).
Proof.
  induction gl as [|g r IH]; intros post i start sci prev prevEnd Hi Hsci Hsp Hn Hpe Hinc Hg Hprev Hlen.
  - cbn [cov_ranges range_count S_cov_pairs_from].
    change (N.to_nat 0) with 0%nat.
    unfold range_rec. rewrite <- !app_assoc. cbn [be16 app]. rewrite cov_read2_S. cbn [cov_read2].
    rewrite !w16_be16_eq by lia.
    replace (negb (sci =? sci) || (Z.of_N start <=? prevEnd)%Z || (prev <? start)) with false by lia.
    cbn [obind]. rewrite Hn. reflexivity.
  - cbn [inc_from] in Hinc. apply andb_true_iff in Hinc as [Hpg Hinc].
    cbn [glyphs_ok forallb] in Hg. apply andb_true_iff in Hg as [Hg Hr].
    cbn [length] in Hlen.
    cbn [cov_ranges range_count S_cov_pairs_from].
    destruct (g =? prev + 1) eqn:E.
    + rewrite N.add_0_l.
      rewrite (IH post (i + 1) start sci g prevEnd) by (try assumption; lia).
      replace (N.to_nat (i + 1 - sci)) with (S (N.to_nat (i - sci))) by lia.
      rewrite range_pairs_snoc, <- app_assoc. cbn [app].
      replace (start + N.of_nat (N.to_nat (i - sci))) with g by lia.
      replace (sci + N.of_nat (N.to_nat (i - sci))) with i by lia.
      reflexivity.
    + replace (0 <? i) with true by lia.
      replace (N.to_nat (1 + range_count r g)) with (S (N.to_nat (range_count r g))) by lia.
      unfold range_rec. rewrite <- !app_assoc.
      cbn [be16 app]. rewrite cov_read2_S.
      rewrite !w16_be16_eq by lia.
      replace (negb (sci =? sci) || (Z.of_N start <=? prevEnd)%Z || (prev <? start)) with false by lia.
      replace (sci + (prev - start + 1)) with i by lia.
      rewrite (IH post (i + 1) g i g (Z.of_N prev)) by (try assumption; lia).
      cbn [obind].
      replace (N.to_nat (i + 1 - i)) with 1%nat by lia.
      replace (prev - start + 1) with (i - sci) by lia.
      cbn [range_pairs app]. reflexivity.
Qed.

(* ------------------------------------------------------------------ *)
(* the round trip                                                      *)

Lemma cov_roundtrip gl pre post :
  strictly_inc gl = true -> glyphs_ok gl = true ->
  exists b, M_cov_encode (S_cov_table gl) = Ok b /\
            M_cov_read (pre ++ b ++ post) (N.of_nat (length pre)) = Ok (S_cov_pairs gl).
Proof.
  intros Hs Hg. unfold M_cov_encode. rewrite (encinfo_valid gl Hs). cbn [obind].
  eexists; split; [reflexivity|].
  unfold M_cov_read. rewrite seek_app.
  destruct (count_bounds gl Hs Hg) as [Hb1 Hb2].
  rewrite cov_bytes_eq.
  destruct (4 + 2 * N.of_nat (length gl) <=? 4 + 6 * range_count gl 65535) eqn:Hc.
  - rewrite <- !app_assoc. cbn [app be16].
    rewrite w16_be16_eq by lia.
    change (w16 0 1 =? 1) with true. cbv iota.
    rewrite Nnat.Nat2N.id.
    rewrite strictly_inc_inc_from in Hs.
    apply cov_read1_roundtrip; assumption.
  - rewrite <- !app_assoc. cbn [app be16].
    replace ((4 + 6 * range_count gl 65535 - 4) / 6) with (range_count gl 65535) by lia.
    rewrite w16_be16_eq by lia.
    change (w16 0 2 =? 1) with false. change (w16 0 2 =? 2) with true. cbv iota.
    destruct gl as [|g r]; [cbn [length range_count] in Hc; lia|].
    rewrite strictly_inc_cons in Hs.
    cbn [glyphs_ok forallb] in Hg. apply andb_true_iff in Hg as [Hg Hr].
    cbn [cov_ranges range_count].
    replace (g =? 65535 + 1) with false by lia.
    replace (0 <? 0) with false by lia. cbn [app].
    replace (N.to_nat (1 + range_count r g)) with (S (N.to_nat (range_count r g))) by lia.
    cbn [length range_count] in Hb1.
    replace (g =? 65535 + 1) with false in Hb1 by lia.
    rewrite (cov_read2_roundtrip r post (0 + 1) g 0 g (-1)) by (try assumption; lia).
    reflexivity.
Qed.

Lemma cov_size gl b :
  strictly_inc gl = true -> glyphs_ok gl = true ->
  M_cov_encode (S_cov_table gl) = Ok b ->
  N.of_nat (length b) = S_cov_size gl /\
  (nth 1 b 0 = 1 <-> 4 + 2 * N.of_nat (length gl) <= 4 + 6 * S_runs gl) /\
  (nth 1 b 0 = 2 <-> 4 + 6 * S_runs gl < 4 + 2 * N.of_nat (length gl)).
Proof.
  intros Hs Hg. unfold M_cov_encode. rewrite (encinfo_valid gl Hs). cbn [obind].
  intros E. apply ok_inj in E. subst b. rewrite cov_bytes_eq. unfold S_cov_size.
  rewrite <- (range_count_runs gl Hg).
  destruct (4 + 2 * N.of_nat (length gl) <=? 4 + 6 * range_count gl 65535) eqn:Hc.
  - cbn [app nth length]. rewrite !app_length, flat_map_be16_length. cbn [length be16].
    repeat split; intros; lia.
  - destruct gl as [|g r]; [cbn [length range_count] in Hc; lia|].
    cbn [glyphs_ok forallb] in Hg. apply andb_true_iff in Hg as [Hg Hr].
    cbn [app nth length]. rewrite !app_length, !Nnat.Nat2N.inj_succ, Nnat.Nat2N.inj_add.
    rewrite cov_ranges_length0 by lia. cbn [length be16].
    cbn [length] in Hc. rewrite Nnat.Nat2N.inj_succ in Hc.
    repeat split; intros; lia.
Qed.

(* ------------------------------------------------------------------ *)
(* what any successfully decoded table looks like                      *)

Lemma S_cov_pairs_from_app a : forall b i,
  S_cov_pairs_from (a ++ b) i = S_cov_pairs_from a i ++ S_cov_pairs_from b (i + N.of_nat (length a)).
Proof.
  induction a as [|x a IH]; intros b i; cbn [app S_cov_pairs_from length].
  - f_equal. lia.
  - rewrite IH. do 3 f_equal. lia.
Qed.

Lemma range_pairs_shape n : forall s p,
  range_pairs n s p = S_cov_pairs_from (map fst (range_pairs n s p)) p /\
  length (range_pairs n s p) = n.
Proof.
  induction n as [|n IH]; intros s p; cbn [range_pairs map fst S_cov_pairs_from length]; [split; reflexivity|].
  destruct (IH (s + 1) (p + 1)) as [E L]. rewrite <- E, L. split; reflexivity.
Qed.

Lemma range_pairs_inc n : forall s p q tl,
  (q < Z.of_N s)%Z ->
  inc_from (Z.of_N s + Z.of_nat n - 1) tl = true ->
  inc_from q (map fst (range_pairs n s p) ++ tl) = true.
Proof.
  induction n as [|n IH]; intros s p q tl Hq Ht; cbn [range_pairs map fst app].
  - eapply inc_from_weaken; [|exact Ht]. lia.
  - cbn [inc_from]. apply andb_true_iff. split; [lia|].
    apply IH; [lia|]. eapply inc_from_weaken; [|exact Ht]. lia.
Qed.

Lemma range_pairs_ok n : forall s p,
  s + N.of_nat n <= 65536 -> glyphs_ok (map fst (range_pairs n s p)) = true.
Proof.
  induction n as [|n IH]; intros s p H; cbn [range_pairs map fst glyphs_ok forallb]; [reflexivity|].
  apply andb_true_iff. split; [lia|]. apply IH. lia.
Qed.

Lemma glyphs_ok_app a b : glyphs_ok (a ++ b) = glyphs_ok a && glyphs_ok b.
Proof. apply forallb_app. Qed.


Lemma bytes_lt_cons a r : bytes_lt (a :: r) -> a < 256 /\ bytes_lt r.
Proof. intros H. inversion H; subst. split; assumption. Qed.

Ltac split_bytes :=
  repeat match goal with
  | Hx : bytes_lt (_ :: _) |- _ => apply bytes_lt_cons in Hx; destruct Hx as [? Hx]
  end.

Lemma w16_bound a b : a < 256 -> b < 256 -> w16 a b < 65536.
Proof. unfold w16. lia. Qed.

Lemma cov_read1_shape cnt : forall r i prev l,
  bytes_lt r ->
  cov_read1 cnt r i prev = Ok l ->
  l = S_cov_pairs_from (map fst l) i /\ inc_from prev (map fst l) = true /\
  glyphs_ok (map fst l) = true.
Proof.
  induction cnt as [|c IH]; intros r i prev l Hb H; cbn [cov_read1] in H.
  - injection H as <-. repeat split.
  - destruct r as [|a [|b r']]; try discriminate.
    split_bytes.
    destruct (Z.of_N (w16 a b) <=? prev)%Z eqn:E; [discriminate|].
    destruct (cov_read1 c r' (i + 1) (Z.of_N (w16 a b))) as [tl| | |] eqn:Et; cbn [obind] in H; try discriminate.
    injection H as <-.
    destruct (IH _ _ _ _ Hb Et) as (E1 & E2 & E3).
    cbn [map fst S_cov_pairs_from inc_from glyphs_ok forallb].
    rewrite <- E1. repeat split.
    + rewrite E2. lia.
    + fold (glyphs_ok (map fst tl)). rewrite E3.
      pose proof (w16_bound a b ltac:(assumption) ltac:(assumption)). lia.
Qed.

Lemma cov_read2_shape cnt : forall r pos prev l,
  bytes_lt r ->
  cov_read2 cnt r pos prev = Ok l ->
  l = S_cov_pairs_from (map fst l) pos /\ inc_from prev (map fst l) = true /\
  glyphs_ok (map fst l) = true.
Proof.
  induction cnt as [|c IH]; intros r pos prev l Hb H; cbn [cov_read2] in H.
  - injection H as <-. repeat split.
  - destruct r as [|a [|b [|c0 [|d [|e [|f r']]]]]]; try discriminate.
    split_bytes.
    destruct (negb (w16 e f =? pos) || (Z.of_N (w16 a b) <=? prev)%Z || (w16 c0 d <? w16 a b)) eqn:E; [discriminate|].
    match type of H with context [cov_read2 c r' ?p ?q] =>
      destruct (cov_read2 c r' p q) as [tl| | |] eqn:Et; cbn [obind] in H; try discriminate end.
    injection H as <-.
    destruct (IH _ _ _ _ Hb Et) as (E1 & E2 & E3).
    set (s := w16 a b) in *. set (en := w16 c0 d) in *.
    assert (Hen : en < 65536) by (apply w16_bound; assumption).
    set (n := N.to_nat (en - s + 1)).
    destruct (range_pairs_shape n s pos) as [P1 P2].
    rewrite map_app, S_cov_pairs_from_app, map_length, P2, <- P1.
    repeat split.
    + f_equal. replace (pos + N.of_nat n) with (pos + (en - s + 1)) by lia. exact E1.
    + apply range_pairs_inc; [lia|].
      replace (Z.of_N s + Z.of_nat n - 1)%Z with (Z.of_N en) by lia. exact E2.
    + rewrite glyphs_ok_app, E3, andb_true_r. apply range_pairs_ok. lia.
Qed.

Lemma seek_bytes_lt data pos : bytes_lt data -> bytes_lt (seek data pos).
Proof.
  rewrite seek_unfold. unfold bytes_lt. intros H. rewrite <- (firstn_skipn (N.to_nat pos) data) in H.
  apply Forall_app in H. tauto.
Qed.

Lemma cov_read_shape data pos l :
  bytes_lt data ->
  M_cov_read data pos = Ok l ->
  l = S_cov_pairs (map fst l) /\ strictly_inc (map fst l) = true /\
  glyphs_ok (map fst l) = true.
Proof.
  intros Hb. unfold M_cov_read.
  pose proof (seek_bytes_lt data pos Hb) as Hs.
  destruct (seek data pos) as [|a [|b [|c [|d r]]]]; try discriminate.
  assert (Hr : bytes_lt r) by (split_bytes; assumption).
  rewrite strictly_inc_inc_from. unfold S_cov_pairs.
  destruct (w16 a b =? 1); [apply cov_read1_shape; assumption|].
  destruct (w16 a b =? 2); [apply cov_read2_shape; assumption|discriminate].
Qed.

(* ------------------------------------------------------------------ *)
(* the encoder refuses every table that violates the Table invariant   *)

Lemma tab_fill_find t : forall m g i,
  PositiveMap.find (pkey g) (tab_fill t m) = Some i ->
  In (g, i) t \/ PositiveMap.find (pkey g) m = Some i.
Proof.
  induction t as [|[h j] t IH]; intros m g i H; cbn [tab_fill] in H; [right; exact H|].
  apply IH in H. destruct H as [H|H]; [left; right; exact H|].
  destruct (N.eq_dec h g) as [->|Hne].
  - rewrite PositiveMap.gss in H. injection H as ->. left. left. reflexivity.
  - rewrite PositiveMap.gso in H by (intros E; apply pkey_inj in E; congruence). right. exact H.
Qed.

Lemma rev_check_In rev : forall i t,
  rev_check rev i (tab_fill t (PositiveMap.empty Z)) = true ->
  incl (S_cov_table_from rev i) t.
Proof.
  induction rev as [|g r IH]; intros i t H; cbn [rev_check S_cov_table_from] in *; [intros p []|].
  apply andb_true_iff in H as [H1 H2].
  intros p [<-|Hp]; [|apply (IH _ _ H2); exact Hp].
  destruct (PositiveMap.find (pkey g) (tab_fill t (PositiveMap.empty Z))) as [j|] eqn:E; [|discriminate].
  apply Z.eqb_eq in H1. subst j.
  apply tab_fill_find in E. destruct E as [E|E]; [exact E|].
  rewrite PositiveMap.gempty in E. discriminate.
Qed.

Lemma inc_from_In p l x : inc_from p l = true -> In x l -> (p < Z.of_N x)%Z.
Proof.
  revert p; induction l as [|a l IH]; intros p H Hx; [destruct Hx|].
  cbn [inc_from] in H. apply andb_true_iff in H as [H1 H2].
  destruct Hx as [<-|Hx]; [lia|]. specialize (IH _ H2 Hx). lia.
Qed.

Lemma keys_NoDup (t : list (N * Z)) p : inc_from p (map fst t) = true -> NoDup t.
Proof.
  revert p; induction t as [|[g i] t IH]; intros p H; constructor.
  - cbn [map fst inc_from] in H. apply andb_true_iff in H as [_ H].
    intros Hin. pose proof (inc_from_In _ _ g H (in_map fst _ _ Hin)). lia.
  - cbn [map fst inc_from] in H. apply andb_true_iff in H as [_ H]. eapply IH. exact H.
Qed.

(* two key-sorted lists of the same length, one contained in the other *)
Lemma sorted_incl_eq (a : list (N * Z)) : forall b p q,
  inc_from p (map fst a) = true -> inc_from q (map fst b) = true ->
  length a = length b -> incl a b -> a = b.
Proof.
  induction a as [|[g i] a IH]; intros b p q Ha Hb Hlen Hinc.
  - destruct b; [reflexivity|discriminate].
  - destruct b as [|[h j] b]; [discriminate|].
    cbn [map fst inc_from] in Ha, Hb.
    apply andb_true_iff in Ha as [Hpg Ha]. apply andb_true_iff in Hb as [Hqh Hb].
    assert (Hgi : In (g, i) ((h, j) :: b)) by (apply Hinc; left; reflexivity).
    destruct Hgi as [E|Hgi].
    + injection E as -> ->. f_equal.
      apply (IH b (Z.of_N g) (Z.of_N g) Ha Hb ltac:(cbn [length] in Hlen; lia)).
      intros x Hx. destruct (Hinc x (or_intror Hx)) as [<-|Hx']; [|exact Hx'].
      pose proof (inc_from_In _ _ g Ha (in_map fst _ _ Hx)). cbn [fst] in *. lia.
    + (* (g, i) sits further down in b: then all of a ++ (g,i) fits into b *)
      exfalso.
      pose proof (inc_from_In _ _ g Hb (in_map fst _ _ Hgi)) as Hhg. cbn [fst] in Hhg.
      assert (Hincl : incl ((g, i) :: a) b).
      { intros x Hx. destruct (Hinc x Hx) as [<-|Hx']; [|exact Hx'].
        destruct Hx as [E|Hx]; [injection E as <- <-; lia|].
        pose proof (inc_from_In _ _ h Ha (in_map fst _ _ Hx)). cbn [fst] in *. lia. }
      assert (Hnd : NoDup ((g, i) :: a)).
      { apply (keys_NoDup _ p). cbn [map fst inc_from]. apply andb_true_iff. split; assumption. }
      pose proof (NoDup_incl_length Hnd Hincl) as Hl. cbn [length] in Hlen, Hl. lia.
Qed.

Lemma S_cov_table_from_fst gl : forall i, map fst (S_cov_table_from gl i) = gl.
Proof. induction gl as [|g r IH]; intros i; cbn [S_cov_table_from map fst]; [reflexivity|]. now rewrite IH. Qed.

(* for a key-sorted table: Encode returns only if the table is a valid
   coverage table (index = rank) *)
Lemma cov_encode_ok_valid t b :
  inc_from (-1) (map fst t) = true -> M_cov_encode t = Ok b ->
  t = S_cov_table (map fst t).
Proof.
  intros Hsorted. unfold M_cov_encode, M_cov_encinfo.
  destruct (rev_fill t (N.of_nat (length t)) (PositiveMap.empty N)) as [m| | |]; cbn [obind]; try discriminate.
  set (rev := rev_list (length t) 0 m).
  destruct (strictly_inc rev && rev_check rev 0 (tab_fill t (PositiveMap.empty Z))) eqn:Hc; [|discriminate].
  intros _. apply andb_true_iff in Hc as [Hs Hchk].
  assert (Hlen : length rev = length t) by apply rev_list_length.
  pose proof (rev_check_In rev 0 t Hchk) as Hincl.
  rewrite strictly_inc_inc_from in Hs.
  assert (E : S_cov_table_from rev 0 = t).
  { apply (sorted_incl_eq _ t (-1) (-1)); try assumption.
    - now rewrite S_cov_table_from_fst.
    - now rewrite S_cov_table_from_length. }
  rewrite <- E at 2. rewrite S_cov_table_from_fst. unfold S_cov_table. symmetry. exact E.
Qed.
