(* C08/Model.v — executable models of opentype/coverage (coverage.go, set.go).

   Conventions
   * bytes are [list N]; a parser positioned at [pos] in [data] is the list
     [seek data pos] of the bytes still ahead (C17 justifies the plain view);
     a read that would pass the end gives [Err] (io.ErrUnexpectedEOF);
   * a Go map [coverage.Table] (glyph.ID -> int) is the list of its entries
     [(gid, idx)], canonically sorted by gid; gid : N (< 65536, the type
     glyph.ID), idx : Z (Go int);
   * [Panic] marks an index-out-of-range or explicit panic of the Go code. *)
From Coq Require Import List NArith ZArith Bool Lia FMapPositive.
From Common Require Import Bytes Outcome.
Import ListNotations.
Local Open Scope N_scope.

(* ------------------------------------------------------------------ *)
(* parser view                                                         *)

(* = skipn (N.to_nat pos) data (lemma seek_unfold), without building a unary
   number for a position far beyond the end (32-bit offsets in damaged data) *)
Fixpoint drop (l : list N) (p : N) : list N :=
  match l with
  | [] => []
  | _ :: r => if p =? 0 then l else drop r (p - 1)
  end.
Definition seek (data : list N) (pos : N) : list N := drop data pos.

Definition w16 (a b : N) : N := a * 256 + b.

(* ------------------------------------------------------------------ *)
(* coverage.Read                                                       *)

(* format 1: glyphCount glyph ids, strictly increasing *)
Fixpoint cov_read1 (cnt : nat) (r : list N) (i : N) (prev : Z) : outcome (list (N * N)) :=
  match cnt with
  | O => Ok []
  | S c =>
    match r with
    | a :: b :: r' =>
      let gid := w16 a b in
      if (Z.of_N gid <=? prev)%Z then Err
      else tl <- cov_read1 c r' (i + 1) (Z.of_N gid) ;; Ok ((gid, i) :: tl)
    | _ => Err
    end
  end.

(* for gid := start; gid <= end; gid++ { table[gid] = pos; pos++ } *)
Fixpoint range_pairs (n : nat) (g p : N) : list (N * N) :=
  match n with
  | O => []
  | S n' => (g, p) :: range_pairs n' (g + 1) (p + 1)
  end.

(* format 2: rangeCount records (start, end, startCoverageIndex) *)
Fixpoint cov_read2 (cnt : nat) (r : list N) (pos : N) (prev : Z) : outcome (list (N * N)) :=
  match cnt with
  | O => Ok []
  | S c =>
    match r with
    | a :: b :: c0 :: d :: e :: f :: r' =>
      let s := w16 a b in
      let en := w16 c0 d in
      let sci := w16 e f in
      if negb (sci =? pos) || (Z.of_N s <=? prev)%Z || (en <? s) then Err
      else
        let n := en - s + 1 in
        tl <- cov_read2 c r' (pos + n) (Z.of_N en) ;;
        Ok (range_pairs (N.to_nat n) s pos ++ tl)
    | _ => Err
    end
  end.

Definition M_cov_read (data : list N) (pos : N) : outcome (list (N * N)) :=
  match seek data pos with
  | a :: b :: c :: d :: r =>
    let format := w16 a b in
    let cnt := N.to_nat (w16 c d) in
    if format =? 1 then cov_read1 cnt r 0 (-1)
    else if format =? 2 then cov_read2 cnt r 0 (-1)
    else Err
  | a :: b :: _ =>
    (* the format is read first; formats other than 1, 2 are NotSupported,
       a missing count is UnexpectedEOF: both [Err] *)
    Err
  | _ => Err
  end.

(* ------------------------------------------------------------------ *)
(* Table.encInfo / EncodeLen / Encode                                  *)

Definition pkey (j : N) : positive := N.succ_pos j.

(* rev := make([]glyph.ID, len(table)); for gid, i := range table { rev[i] = gid } *)
Fixpoint rev_fill (t : list (N * Z)) (n : N) (m : PositiveMap.t N) : outcome (PositiveMap.t N) :=
  match t with
  | [] => Ok m
  | (gid, i) :: t' =>
    if ((0 <=? i)%Z && (i <? Z.of_N n)%Z)%bool
    then rev_fill t' n (PositiveMap.add (pkey (Z.to_N i)) gid m)
    else Panic
  end.

Fixpoint rev_list (k : nat) (j : N) (m : PositiveMap.t N) : list N :=
  match k with
  | O => []
  | S k' =>
    (match PositiveMap.find (pkey j) m with Some g => g | None => 0 end)
      :: rev_list k' (j + 1) m
  end.

(* for i := 1; i < len(rev); i++ { if rev[i-1] >= rev[i] { panic } } *)
Fixpoint strictly_inc (l : list N) : bool :=
  match l with
  | a :: ((b :: _) as tl) => (a <? b) && strictly_inc tl
  | _ => true
  end.

(* rangeCount: prev := 0xFFFF; for gid in rev { if gid != prev+1 {rangeCount++}; prev = gid } *)
Fixpoint range_count (rev : list N) (prev : N) : N :=
  match rev with
  | [] => 0
  | g :: r => (if g =? prev + 1 then 0 else 1) + range_count r g
  end.

(* the map itself (for table[gid] below) *)
Fixpoint tab_fill (t : list (N * Z)) (m : PositiveMap.t Z) : PositiveMap.t Z :=
  match t with
  | [] => m
  | (gid, i) :: t' => tab_fill t' (PositiveMap.add (pkey gid) i m)
  end.

(* for i, gid := range rev { if j, ok := table[gid]; !ok || j != i { panic } }
   (fixes/C08-coverage-duplicate-index.diff: every index is used exactly once) *)
Fixpoint rev_check (rev : list N) (i : Z) (tm : PositiveMap.t Z) : bool :=
  match rev with
  | [] => true
  | g :: r =>
    (match PositiveMap.find (pkey g) tm with Some j => (j =? i)%Z | None => false end)
      && rev_check r (i + 1)%Z tm
  end.

Record encinfo := { ei_rev : list N; ei_f1 : N; ei_f2 : N }.

Definition M_cov_encinfo (t : list (N * Z)) : outcome encinfo :=
  let n := N.of_nat (length t) in
  m <- rev_fill t n (PositiveMap.empty N) ;;
  let rev := rev_list (length t) 0 m in
  if strictly_inc rev && rev_check rev 0 (tab_fill t (PositiveMap.empty Z)) then
    Ok {| ei_rev := rev; ei_f1 := 4 + 2 * n; ei_f2 := 4 + 6 * range_count rev 65535 |}
  else Panic.

Definition M_cov_encode_len (t : list (N * Z)) : outcome N :=
  ei <- M_cov_encinfo t ;;
  Ok (if ei_f1 ei <=? ei_f2 ei then ei_f1 ei else ei_f2 ei).

(* the format-2 record loop of Encode; [i] is the index of the current glyph *)
Definition range_rec (start prev sci : N) : list N := be16 start ++ be16 prev ++ be16 sci.

Fixpoint cov_ranges (rev : list N) (i : N) (start sci prev : N) : list N :=
  match rev with
  | [] => range_rec start prev sci
  | g :: r =>
    if g =? prev + 1 then cov_ranges r (i + 1) start sci g
    else (if 0 <? i then range_rec start prev sci else []) ++ cov_ranges r (i + 1) g i g
  end.

Definition cov_bytes (ei : encinfo) : list N :=
  if ei_f1 ei <=? ei_f2 ei then
    [0; 1] ++ be16 (N.of_nat (length (ei_rev ei))) ++ flat_map be16 (ei_rev ei)
  else
    let rangeCount := (ei_f2 ei - 4) / 6 in
    [0; 2] ++ be16 rangeCount ++ cov_ranges (ei_rev ei) 0 0 0 65535.

Definition M_cov_encode (t : list (N * Z)) : outcome (list N) :=
  ei <- M_cov_encinfo t ;; Ok (cov_bytes ei).

(* ------------------------------------------------------------------ *)
(* specification side (written from the OpenType coverage-table text)  *)

(* the table of a strictly increasing glyph list: index = rank *)
Fixpoint S_cov_table_from (gl : list N) (i : Z) : list (N * Z) :=
  match gl with
  | [] => []
  | g :: r => (g, i) :: S_cov_table_from r (i + 1)%Z
  end.
Definition S_cov_table (gl : list N) : list (N * Z) := S_cov_table_from gl 0%Z.

Fixpoint S_cov_pairs_from (gl : list N) (i : N) : list (N * N) :=
  match gl with
  | [] => []
  | g :: r => (g, i) :: S_cov_pairs_from r (i + 1)
  end.
Definition S_cov_pairs (gl : list N) : list (N * N) := S_cov_pairs_from gl 0.

(* number of maximal runs of consecutive glyph ids *)
Fixpoint S_runs (gl : list N) : N :=
  match gl with
  | [] => 0
  | a :: tl =>
    match tl with
    | [] => 1
    | b :: _ => (if b =? a + 1 then 0 else 1) + S_runs tl
    end
  end.

Definition S_cov_size (gl : list N) : N :=
  N.min (4 + 2 * N.of_nat (length gl)) (4 + 6 * S_runs gl).

Definition glyphs_ok (gl : list N) : bool := forallb (fun g => g <? 65536) gl.

(* type invariants of the Go values: glyph.ID is 16 bits, a byte is 8 bits *)
Definition keys_ok (t : list (N * Z)) : bool := forallb (fun p => fst p <? 65536) t.
Definition bytes_lt (l : list N) : Prop := Forall (fun b => b < 256) l.

(* strictly increasing, and above [prev] *)
Fixpoint inc_from (prev : Z) (l : list N) : bool :=
  match l with
  | [] => true
  | a :: tl => (prev <? Z.of_N a)%Z && inc_from (Z.of_N a) tl
  end.
