(* C08/ModelCD.v — executable model of opentype/classdef/classdef.go
   (getEncInfo, AppendLen, Append, Read), with the repair
   fixes/C08-classdef-fullrange.diff applied:
     * a table spanning all 65536 glyph ids never uses format 1 (whose
       glyphCount field is 16 bits wide),
     * Append panics when format 2 would need more than 65535 ranges.

   A Go map [classdef.Table] (glyph.ID -> uint16) is the list of its entries
   [(gid, class)], sorted by gid (strictly increasing), gid, class < 65536. *)
From Coq Require Import List NArith ZArith Bool Lia.
From Common Require Import Bytes Outcome.
From C08 Require Import Model.
Import ListNotations.
Local Open Scope N_scope.

(* ------------------------------------------------------------------ *)
(* the dense view: classes of glyphs i, i+1, ..., i+n-1 (info[glyph.ID(i)],
   0 for glyphs that are not keys), by a merge walk over the sorted entries *)

Fixpoint drop_lt (i : N) (t : list (N * N)) : list (N * N) :=
  match t with
  | (g, c) :: t' => if g <? i then drop_lt i t' else t
  | [] => []
  end.

Fixpoint dense (n : nat) (i : N) (t : list (N * N)) : list N :=
  match n with
  | O => []
  | S n' =>
    match drop_lt i t with         (* the identity on sorted input *)
    | (g, c) :: t' =>
      if g =? i then c :: dense n' (i + 1) t'
      else 0 :: dense n' (i + 1) ((g, c) :: t')
    | [] => 0 :: dense n' (i + 1) []
    end
  end.

(* minGid := 0xFFFF; maxGid := 0; for key := range info { ... } *)
Fixpoint min_key (t : list (N * N)) (m : N) : N :=
  match t with [] => m | (g, _) :: t' => min_key t' (if g <? m then g else m) end.
Fixpoint max_key (t : list (N * N)) (m : N) : N :=
  match t with [] => m | (g, _) :: t' => max_key t' (if m <? g then g else m) end.

Definition maxInt : N := 9223372036854775807.

(* the segment-counting loop of getEncInfo, with its early exit
   "4+6*segCount < format1Size" in the loop condition *)
Fixpoint seg_loop (cl : list N) (f1 : N) (segCount : N) (inSeg : bool) (segClass : N) : N * bool :=
  match cl with
  | [] => (segCount, inSeg)
  | c :: r =>
    if 4 + 6 * segCount <? f1 then
      let closing := inSeg && negb (c =? segClass) in
      let sc := if closing then segCount + 1 else segCount in
      let ins := if closing then false else inSeg in
      if ins then seg_loop r f1 sc true segClass
      else if c =? 0 then seg_loop r f1 sc false segClass
      else seg_loop r f1 sc true c
    else (segCount, inSeg)
  end.

Record cd_encinfo := { cd_min : N; cd_max : N; cd_f1 : N; cd_f2 : N; cd_dense : list N }.

Definition M_cd_encinfo (t : list (N * N)) : cd_encinfo :=
  let mn := min_key t 65535 in
  let mx := max_key t 0 in
  let span := mx + 1 - mn in                       (* int(maxGid)-int(minGid)+1 *)
  let f1 := if 65535 <? span then maxInt else 6 + 2 * span in
  let cl := dense (N.to_nat span) mn t in
  let '(sc, ins) := seg_loop cl f1 0 false 0 in
  let sc' := if ins then sc + 1 else sc in
  {| cd_min := mn; cd_max := mx; cd_f1 := f1; cd_f2 := 4 + 6 * sc'; cd_dense := cl |}.

Definition M_cd_append_len (t : list (N * N)) : N :=
  match t with
  | [] => 4
  | _ =>
    let ei := M_cd_encinfo t in
    if cd_f1 ei <? cd_f2 ei then cd_f1 ei else cd_f2 ei
  end.

Definition seg_rec (s e c : N) : list N := be16 s ++ be16 e ++ be16 c.

(* the emitting loop of Append (format 2); [i] is the current glyph id *)
Fixpoint seg_emit (cl : list N) (i : N) (inSeg : bool) (segStart segClass maxGid : N) : list N :=
  match cl with
  | [] => if inSeg then seg_rec segStart maxGid segClass else []
  | c :: r =>
    let closing := inSeg && negb (c =? segClass) in
    (if closing then seg_rec segStart (i - 1) segClass else []) ++
    (let ins := if closing then false else inSeg in
     if ins then seg_emit r (i + 1) true segStart segClass maxGid
     else if c =? 0 then seg_emit r (i + 1) false segStart segClass maxGid
     else seg_emit r (i + 1) true i c maxGid)
  end.

Definition M_cd_append (t : list (N * N)) : outcome (list N) :=
  match t with
  | [] => Ok [0; 2; 0; 0]
  | _ =>
    let ei := M_cd_encinfo t in
    if cd_f1 ei <=? cd_f2 ei then
      let count := (cd_max ei + 65536 - cd_min ei + 1) mod 65536 in   (* glyph.ID arithmetic *)
      Ok ([0; 1] ++ be16 (cd_min ei) ++ be16 count ++
          flat_map be16 (firstn (N.to_nat count) (cd_dense ei)))
    else
      let segCount := (cd_f2 ei - 4) / 6 in
      if 65535 <? segCount then Panic
      else Ok ([0; 2] ++ be16 segCount ++ seg_emit (cd_dense ei) (cd_min ei) false 0 0 (cd_max ei))
  end.

(* ------------------------------------------------------------------ *)
(* classdef.Read                                                       *)

(* format 1: classValueArray; zero classes are not stored *)
Fixpoint cd_read1 (cnt : nat) (r : list N) (g : N) : outcome (list (N * N)) :=
  match cnt with
  | O => Ok []
  | S c =>
    match r with
    | a :: b :: r' =>
      tl <- cd_read1 c r' (g + 1) ;;
      Ok (if w16 a b =? 0 then tl else (g, w16 a b) :: tl)
    | _ => Err
    end
  end.

(* the result map of format 2, kept as a list sorted by decreasing gid;
   res[k] = v overwrites *)
Fixpoint ins_desc (k v : N) (acc : list (N * N)) : list (N * N) :=
  match acc with
  | [] => [(k, v)]
  | (k', v') :: tl =>
    if k' <? k then (k, v) :: acc
    else if k' =? k then (k, v) :: tl
    else (k', v') :: ins_desc k v tl
  end.

Fixpoint ins_range (n : nat) (g c : N) (acc : list (N * N)) : list (N * N) :=
  match n with
  | O => acc
  | S n' => ins_range n' (g + 1) c (ins_desc g c acc)
  end.

Fixpoint cd_read2 (cnt : nat) (r : list N) (first : bool) (prevEnd : N) (acc : list (N * N))
  : outcome (list (N * N)) :=
  match cnt with
  | O => Ok (rev_append acc [])        (* = rev acc, linear *)
  | S c =>
    match r with
    | a :: b :: c0 :: d :: e :: f :: r' =>
      let s := w16 a b in
      let en := w16 c0 d in
      let cls := w16 e f in
      if negb first && (s <=? prevEnd) then Err
      else cd_read2 c r' false en
             (if cls =? 0 then acc else ins_range (N.to_nat (en + 1 - s)) s cls acc)
    | _ => Err
    end
  end.

Definition M_cd_read (data : list N) (pos : N) : outcome (list (N * N)) :=
  match seek data pos with
  | a :: b :: r =>
    let version := w16 a b in
    if version =? 1 then
      match r with
      | c :: d :: e :: f :: r' =>
        let start := w16 c d in
        let count := w16 e f in
        if 65536 <? start + count then Err           (* start+count-1 > 0xFFFF *)
        else cd_read1 (N.to_nat count) r' start
      | _ => Err
      end
    else if version =? 2 then
      match r with
      | c :: d :: r' => cd_read2 (N.to_nat (w16 c d)) r' true 0 []
      | _ => Err
      end
    else Err
  | _ => Err
  end.

(* ------------------------------------------------------------------ *)
(* specification side                                                  *)

(* the table as a function: entries with class 0 are the same as absent *)
Definition S_cd_nonzero (t : list (N * N)) : list (N * N) :=
  filter (fun p => negb (snd p =? 0)) t.

(* the non-zero entries of a dense class array starting at glyph i *)
Fixpoint sparse (cl : list N) (i : N) : list (N * N) :=
  match cl with
  | [] => []
  | c :: r => if c =? 0 then sparse r (i + 1) else (i, c) :: sparse r (i + 1)
  end.

(* number of maximal runs of equal non-zero class among consecutive glyphs *)
Fixpoint S_cd_segs (cl : list N) (prev : N) : N :=
  match cl with
  | [] => 0
  | c :: r => (if (c =? 0) || (c =? prev) then 0 else 1) + S_cd_segs r c
  end.

(* well-formed canonical table *)
Fixpoint cd_sorted (prev : Z) (t : list (N * N)) : bool :=
  match t with
  | [] => true
  | (g, c) :: t' => (prev <? Z.of_N g)%Z && (g <? 65536) && (c <? 65536) && cd_sorted (Z.of_N g) t'
  end.
Definition cd_ok (t : list (N * N)) : bool := cd_sorted (-1) t.
