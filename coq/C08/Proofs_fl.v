(* C08/Proofs_fl.v — the feature list round trip. *)
From Coq Require Import List NArith ZArith Bool Lia.
From Coq Require Import ZifyBool ZifyNat ZifyN.
From Common Require Import Bytes Outcome.
From C08 Require Import Model ModelSub ModelFL Proofs Proofs_sub.
Import ListNotations.
Local Open Scope N_scope.
Ltac Zify.zify_post_hook ::= Z.div_mod_to_equations.

Lemma fl_offs_length fl : forall off, length (fl_offs fl off) = length fl.
Proof. induction fl as [|f r IH]; intros off; cbn [fl_offs length]; [reflexivity|]. now rewrite IH. Qed.

(* offsets increase; the last one is the largest *)
Lemma fl_offs_le_last fl : forall off d,
  Forall (fun o => off <= o /\ o <= last (fl_offs fl off) d) (fl_offs fl off) \/ fl = [].
Proof.
  induction fl as [|f r IH]; intros off d; [right; reflexivity|]. left.
  cbn [fl_offs]. destruct r as [|g r'].
  - cbn [fl_offs last]. constructor; [lia|constructor].
  - destruct (IH (off + 4 + 2 * lenN (snd f)) d) as [H|H]; [|discriminate].
    change (last (off :: fl_offs (g :: r') (off + 4 + 2 * lenN (snd f))) d)
      with (last (fl_offs (g :: r') (off + 4 + 2 * lenN (snd f))) d).
    assert (Hl : off <= last (fl_offs (g :: r') (off + 4 + 2 * lenN (snd f))) d).
    { cbn [fl_offs] in H |- *. apply Forall_cons_iff in H. destruct H as [[H1 H2] _]. lia. }
    constructor; [lia|]. eapply Forall_impl; [|exact H]. cbv beta. intros; lia.
Qed.

Lemma fl_body_lenN f : lenN (fl_body f) = 4 + 2 * lenN (snd f).
Proof. unfold fl_body. lens. lia. Qed.

Lemma fl_records_ok fl : forall offs,
  Forall feature_ok fl -> length offs = length fl -> Forall (fun o => o < 65536) offs ->
  exists recs, fl_records fl offs = Ok recs /\ lenN recs = 6 * lenN fl /\
    forall rest, fl_read_records (length fl) (recs ++ rest) = Ok (combine (map fst fl) offs).
Proof.
  induction fl as [|f r IH]; intros offs Hok Hlen Ho.
  - exists []. destruct offs; [|discriminate]. repeat split.
  - destruct offs as [|o ro]; [discriminate|].
    apply Forall_cons_iff in Hok. destruct Hok as [(Ht & Hb & _) Hok].
    apply Forall_cons_iff in Ho. destruct Ho as [Ho1 Ho].
    destruct (IH ro Hok ltac:(cbn [length] in Hlen; lia) Ho) as (recs & Hr & Hl & Hrd).
    destruct (fst f) as [|a [|b [|c [|d [|e t]]]]] eqn:Ef; try discriminate.
    cbn [fl_records]. rewrite Ef. cbn [tag4 obind]. rewrite Hr. cbn [obind].
    eexists. split; [reflexivity|]. split.
    + lens. rewrite Hl. lens. lia.
    + intros rest. cbn [length fl_read_records app be16 map combine fst].
      rewrite Hrd. cbn [obind]. rewrite Ef, w16_be16_eq by exact Ho1. reflexivity.
Qed.

Lemma fl_read_bodies_ok pos tail fl : forall A off,
  Forall feature_ok fl -> lenN A = pos + off ->
  Forall (fun o => o <= 65535) (fl_offs fl off) ->
  Forall (fun f => lenN (snd f) < 65536) fl ->
  fl_read_bodies (A ++ flat_map fl_body fl ++ tail) pos (combine (map fst fl) (fl_offs fl off)) off = Ok fl.
Proof.
  induction fl as [|f r IH]; intros A off Hok HA Hoffs Hcnt; cbn [fl_offs map combine fl_read_bodies flat_map]; [reflexivity|].
  apply Forall_cons_iff in Hok. destruct Hok as [(_ & _ & Hg) Hok].
  apply Forall_cons_iff in Hoffs. destruct Hoffs as [Ho Hoffs].
  apply Forall_cons_iff in Hcnt. destruct Hcnt as [Hc Hcnt].
  rewrite <- HA. unfold lenN at 1. rewrite <- app_assoc, seek_app.
  unfold fl_body at 1. rewrite <- !app_assoc. cbn [app be16].
  rewrite w16_be16_eq by exact Hc.
  replace (65535 <? off) with false by lia.
  unfold lenN at 1. rewrite Nnat.Nat2N.id, rd_u16s_flat by exact Hg. cbn [obind fst].
  specialize (IH (A ++ fl_body f) (off + 4 + 2 * lenN (snd f)) Hok).
  rewrite <- app_assoc in IH. rewrite IH; [destruct f; reflexivity| |exact Hoffs|exact Hcnt].
  rewrite lenN_app, HA, fl_body_lenN. lia.
Qed.

Lemma fl_roundtrip fl b pre post :
  Forall feature_ok fl -> M_fl_encode fl = Ok b ->
  M_fl_read (pre ++ b ++ post) (lenN pre) = Ok fl.
Proof.
  intros Hok. unfold M_fl_encode.
  set (n := lenN fl). set (offs := fl_offs fl (2 + 6 * n)).
  destruct (existsb (fun f : list N * list N => 65535 <? lenN (snd f)) fl) eqn:Hex; [discriminate|].
  destruct (65535 <? last offs 0) eqn:Hlast; [discriminate|].
  assert (Hcnt : Forall (fun f => lenN (snd f) < 65536) fl).
  { apply Forall_forall. intros f Hf.
    destruct (65535 <? lenN (snd f)) eqn:E; [|lia].
    assert (existsb (fun f : list N * list N => 65535 <? lenN (snd f)) fl = true)
      by (apply existsb_exists; exists f; split; assumption). congruence. }
  assert (Hoffs : Forall (fun o => o <= 65535) offs).
  { destruct (fl_offs_le_last fl (2 + 6 * n) 0) as [H|H].
    - eapply Forall_impl; [|exact H]. cbv beta. fold offs. intros; lia.
    - unfold offs. rewrite H. constructor. }
  destruct (fl_records_ok fl offs Hok ltac:(unfold offs; apply fl_offs_length))
    as (recs & Hr & Hl & Hrd).
  { eapply Forall_impl; [|exact Hoffs]. cbv beta. intros; lia. }
  rewrite Hr. cbn [obind]. intros H. apply ok_inj in H. subst b.
  assert (Hn : n < 65536).
  { destruct fl as [|f r]; [cbn; lia|].
    cbn [fl_offs] in offs. apply Forall_cons_iff in Hoffs. destruct Hoffs as [H0 _]. lia. }
  unfold M_fl_read. unfold lenN at 1. rewrite seek_app. rewrite <- !app_assoc. cbn [be16 app].
  rewrite w16_be16_eq by exact Hn. unfold n at 1, lenN. rewrite Nnat.Nat2N.id.
  rewrite Hrd. cbn [obind].
  assert (Hcl : N.of_nat (length (combine (map fst fl) offs)) = n)
    by (unfold lenN, n, offs; now rewrite combine_length, map_length, fl_offs_length, Nat.min_id).
  unfold lenN in *. rewrite Hcl.
  assert (HD : pre ++ (n / 256) mod 256 :: n mod 256 :: recs ++ flat_map fl_body fl ++ post
               = (pre ++ be16 n ++ recs) ++ flat_map fl_body fl ++ post)
    by (rewrite <- !app_assoc; reflexivity).
  rewrite HD. unfold offs.
  apply fl_read_bodies_ok; try assumption.
  lens. unfold lenN. rewrite Hl. fold n. lia.
Qed.

Lemma fl_read_total_aux1 n : forall r, fl_read_records n r <> Panic.
Proof.
  induction n as [|n IH]; intros r; cbn [fl_read_records]; [discriminate|].
  destruct r as [|a [|b [|c [|d [|e [|f r']]]]]]; try discriminate.
  specialize (IH r'). destruct (fl_read_records n r'); cbn [obind]; congruence.
Qed.

Lemma rd_u16s_not_panic n : forall r, rd_u16s n r <> Panic.
Proof.
  induction n as [|n IH]; intros r; cbn [rd_u16s]; [discriminate|].
  destruct r as [|a [|b r']]; try discriminate.
  specialize (IH r'). destruct (rd_u16s n r'); cbn [obind]; congruence.
Qed.

Lemma fl_read_total_aux2 data pos recs : forall t, fl_read_bodies data pos recs t <> Panic.
Proof.
  induction recs as [|[tag o] r IH]; intros t; cbn [fl_read_bodies]; [discriminate|].
  destruct (seek data (pos + o)) as [|a [|b [|c [|d rest]]]]; try discriminate.
  destruct (65535 <? t); [discriminate|].
  pose proof (rd_u16s_not_panic (N.to_nat (w16 c d)) rest).
  destruct (rd_u16s _ rest); cbn [obind]; try congruence.
  specialize (IH (t + 4 + 2 * w16 c d)).
  destruct (fl_read_bodies data pos r _); cbn [obind]; congruence.
Qed.

Lemma fl_read_total data pos : M_fl_read data pos <> Panic.
Proof.
  unfold M_fl_read. destruct (seek data pos) as [|a [|b r]]; try discriminate.
  pose proof (fl_read_total_aux1 (N.to_nat (w16 a b)) r).
  destruct (fl_read_records _ r); cbn [obind]; try congruence. apply fl_read_total_aux2.
Qed.
