(* C08/Proofs_sub3.v — GPOS 2.1 (pair adjustment, format 1). *)
From Coq Require Import List NArith ZArith Bool Lia.
From Coq Require Import ZifyBool ZifyNat ZifyN.
From Common Require Import Bytes Outcome.
From C08 Require Import Model ModelCD ModelSub ModelSub2 Proofs Proofs_sub.
Import ListNotations.
Local Open Scope N_scope.
Ltac Zify.zify_post_hook ::= Z.div_mod_to_equations.

Section Formats.
  Variables f1 f2 : N.
  Hypothesis Hf1 : f1 < 256.
  Hypothesis Hf2 : f2 < 256.

  Definition covered (it : pitem) : Prop :=
    item_ok it /\ vr_covers f1 (fst (snd it)) /\ vr_covers f2 (snd (snd it)).

  Lemma item_bytes_lenN it : lenN (item_bytes f1 f2 it) = item_size f1 f2.
  Proof. unfold item_bytes, item_size. lens. rewrite !vr_len_agrees by assumption. lia. Qed.

  Lemma items_lenN items : lenN (flat_map (item_bytes f1 f2) items) = item_size f1 f2 * lenN items.
  Proof.
    induction items as [|it r IH]; cbn [flat_map]; [rewrite lenN_nil; now rewrite N.mul_0_r|].
    rewrite lenN_app, IH, item_bytes_lenN, lenN_cons. lia.
  Qed.

  Lemma pset_bytes_lenN g : lenN (pset_bytes f1 f2 g) = pset_size f1 f2 (snd g).
  Proof. unfold pset_bytes, pset_size. lens. rewrite items_lenN. lia. Qed.

  Lemma psets_lenN gs : lenN (flat_map (pset_bytes f1 f2) gs) = psets_size f1 f2 gs.
  Proof.
    induction gs as [|g r IH]; cbn [flat_map psets_size]; [reflexivity|].
    now rewrite lenN_app, IH, pset_bytes_lenN.
  Qed.

  (* the offsets without the guards *)
  Fixpoint poffs (gs : list pgroup) (off : N) : list N :=
    match gs with [] => [] | g :: r => off :: poffs r (off + pset_size f1 f2 (snd g)) end.

  Lemma pset_offs_ok gs : forall off offs,
    pset_offs f1 f2 gs off = Ok offs ->
    offs = poffs gs off /\ Forall (fun o => o <= 65535) offs /\
    Forall (fun g => lenN (snd g) <= 65535) gs.
  Proof.
    induction gs as [|g r IH]; intros off offs; cbn [pset_offs poffs].
    - intros H. apply ok_inj in H. subst offs. repeat split; constructor.
    - destruct ((65535 <? off) || (65535 <? lenN (snd g))) eqn:E; [discriminate|].
      destruct (pset_offs f1 f2 r (off + pset_size f1 f2 (snd g))) as [tl| | |] eqn:Et; cbn [obind]; try discriminate.
      intros H. apply ok_inj in H. subst offs.
      destruct (IH _ _ Et) as (-> & A & B).
      repeat split; constructor; try assumption; lia.
  Qed.

  Lemma poffs_length gs : forall off, length (poffs gs off) = length gs.
  Proof. induction gs as [|g r IH]; intros off; cbn [poffs length]; [reflexivity|]. now rewrite IH. Qed.

  (* ---- one pair set ---- *)
  Definition headI (acc : list pitem) : Z := match acc with [] => (-1)%Z | (k, _) :: _ => Z.of_N k end.

  Lemma ins_item_fresh k v acc : (headI acc < Z.of_N k)%Z -> ins_item k v acc = (k, v) :: acc.
  Proof.
    destruct acc as [|[k' v'] tl]; [reflexivity|]. cbn [headI ins_item]. intros H.
    assert (E : (k' <? k) = true) by (apply N.ltb_lt; lia). now rewrite E.
  Qed.

  Lemma rd_pairs_ok items : forall rest acc,
    Forall covered items ->
    inc_from (headI acc) (map fst items) = true -> glyphs_ok (map fst items) = true ->
    rd_pairs (length items) f1 f2 (flat_map (item_bytes f1 f2) items ++ rest) acc =
    Ok (rev acc ++ map (norm_item f1 f2) items).
  Proof.
    induction items as [|[k [v1 v2]] r IH]; intros rest acc Hc Hi Hg; cbn [length rd_pairs flat_map map].
    - now rewrite rev_append_rev, !app_nil_r.
    - apply Forall_cons_iff in Hc. destruct Hc as [((Ho1 & Ho2) & C1 & C2) Hc]. cbn [fst snd] in *.
      cbn [map fst inc_from] in Hi. apply andb_true_iff in Hi as [Hk Hi].
      cbn [map fst glyphs_ok forallb] in Hg. apply andb_true_iff in Hg as [Hk2 Hg].
      unfold item_bytes at 1. cbn [fst snd]. rewrite <- !app_assoc. cbn [be16 app].
      rewrite vr_read_encode by assumption. cbn [obind fst snd].
      rewrite vr_read_encode by assumption. cbn [obind fst snd].
      rewrite w16_be16_eq by lia.
      rewrite ins_item_fresh by lia.
      rewrite IH by (try assumption; cbn [headI]; exact Hi).
      cbn [rev]. rewrite <- app_assoc. reflexivity.
  Qed.

  Lemma rd_pairset_ok g A rest p :
    Forall covered (snd g) -> inc_from (-1) (map fst (snd g)) = true ->
    glyphs_ok (map fst (snd g)) = true -> lenN (snd g) <= 65535 -> lenN A = p ->
    rd_pairset (A ++ pset_bytes f1 f2 g ++ rest) p f1 f2 = Ok (map (norm_item f1 f2) (snd g)).
  Proof.
    intros Hc Hi Hg Hl HA. unfold rd_pairset. rewrite <- HA. unfold lenN at 1. rewrite seek_app.
    unfold pset_bytes. rewrite <- !app_assoc. cbn [be16 app]. rewrite w16_be16_eq by lia.
    unfold lenN. rewrite Nnat.Nat2N.id.
    rewrite rd_pairs_ok by (try assumption; exact Hi). reflexivity.
  Qed.

  Definition gcovered (g : pgroup) : Prop :=
    Forall covered (snd g) /\ inc_from (-1) (map fst (snd g)) = true /\
    glyphs_ok (map fst (snd g)) = true.

  Lemma rd_pairsets_ok pos tail gs : forall A off,
    Forall gcovered gs -> Forall (fun g => lenN (snd g) <= 65535) gs -> lenN A = pos + off ->
    rd_pairsets (A ++ flat_map (pset_bytes f1 f2) gs ++ tail) pos f1 f2 (poffs gs off) =
    Ok (map (fun g => map (norm_item f1 f2) (snd g)) gs).
  Proof.
    induction gs as [|g r IH]; intros A off Hc Hl HA; cbn [poffs rd_pairsets flat_map map]; [reflexivity|].
    apply Forall_cons_iff in Hc. destruct Hc as [(C1 & C2 & C3) Hc].
    apply Forall_cons_iff in Hl. destruct Hl as [L1 Hl].
    rewrite <- app_assoc.
    rewrite (rd_pairset_ok g A _ (pos + off)) by assumption. cbn [obind].
    specialize (IH (A ++ pset_bytes f1 f2 g) (off + pset_size f1 f2 (snd g)) Hc Hl).
    rewrite <- app_assoc in IH. rewrite IH; [reflexivity|].
    rewrite lenN_app, HA, pset_bytes_lenN. lia.
  Qed.
End Formats.

(* ---- regrouping by the coverage table ---- *)
Lemma regroup_ok ls : forall (sets0 sets : list (list pitem)) i,
  length sets0 = N.to_nat i -> length sets = length ls ->
  Forall (fun s => s <> []) sets ->
  regroup (S_cov_pairs_from ls i) (sets0 ++ sets) = combine ls sets.
Proof.
  induction ls as [|l r IH]; intros sets0 sets i H0 Hlen Hne; cbn [S_cov_pairs_from regroup]; [reflexivity|].
  destruct sets as [|s sets']; [discriminate|].
  apply Forall_cons_iff in Hne. destruct Hne as [Hs Hne].
  rewrite app_nth2 by lia. rewrite H0, Nat.sub_diag. cbn [nth combine].
  destruct s as [|it s']; [congruence|].
  f_equal.
  replace (sets0 ++ (it :: s') :: sets') with ((sets0 ++ [it :: s']) ++ sets') by (now rewrite <- app_assoc).
  apply IH; [rewrite app_length; cbn [length]; lia|cbn [length] in Hlen; lia|exact Hne].
Qed.

Lemma regroup_ok0 ls (sets : list (list pitem)) :
  length sets = length ls -> Forall (fun s => s <> []) sets ->
  regroup (S_cov_pairs_from ls 0) sets = combine ls sets.
Proof. intros H1 H2. exact (regroup_ok ls [] sets 0 eq_refl H1 H2). Qed.

Lemma combine_map_fst_snd_like {A B C} (f : B -> C) (l : list (A * B)) :
  combine (map fst l) (map (fun g => f (snd g)) l) = map (fun g => (fst g, f (snd g))) l.
Proof. induction l as [|[a b] l IH]; cbn [map combine fst snd]; [reflexivity|]. now rewrite IH. Qed.

(* ---- the subtable ---- *)
Definition groups_ok (gs : list pgroup) : Prop :=
  strictly_inc (map fst gs) = true /\ glyphs_ok (map fst gs) = true /\ Forall group_ok gs.

Lemma groups_covered gs :
  Forall group_ok gs -> Forall (gcovered (vf1_of gs) (vf2_of gs)) gs.
Proof.
  intros Hok.
  destruct (vr_union_facts (map (fun it : pitem => fst (snd it)) (all_items gs))) as [_ C1].
  destruct (vr_union_facts (map (fun it : pitem => snd (snd it)) (all_items gs))) as [_ C2].
  apply Forall_forall. intros g Hg.
  pose proof (proj1 (Forall_forall _ _) Hok g Hg) as (_ & Hi & Hgl & Hit).
  repeat split; try assumption.
  apply Forall_forall. intros it Hin.
  assert (Hall : In it (all_items gs)) by (unfold all_items; apply in_flat_map; exists g; split; assumption).
  repeat split.
  - apply (proj1 (Forall_forall _ _) Hit it Hin).
  - apply (proj1 (Forall_forall _ _) Hit it Hin).
  - apply C1. apply (in_map (fun it : pitem => fst (snd it))). exact Hall.
  - apply C2. apply (in_map (fun it : pitem => snd (snd it))). exact Hall.
Qed.

Lemma vf_lt gs : vf1_of gs < 256 /\ vf2_of gs < 256.
Proof. unfold vf1_of, vf2_of. split; apply vr_union_facts. Qed.

Lemma gpos21_len_agrees gs b :
  glyphs_ok (map fst gs) = true -> M_gpos21_encode gs = Ok b -> M_gpos21_len gs = Ok (lenN b).
Proof.
  unfold M_gpos21_encode, M_gpos21_len. intros Hg.
  destruct (vf_lt gs) as [F1 F2].
  set (f1 := vf1_of gs) in *. set (f2 := vf2_of gs) in *.
  destruct (M_cov_encode (S_cov_table (map fst gs))) as [cb| | |] eqn:Hc; cbn [obind]; try discriminate.
  destruct (pset_offs f1 f2 gs _) as [offs| | |] eqn:Ho; cbn [obind]; try discriminate.
  intros H. apply ok_inj in H. subst b.
  rewrite (cov_encode_len_ok _ cb Hg Hc). cbn [obind]. f_equal.
  destruct (pset_offs_ok _ _ F1 F2 _ _ _ Ho) as (-> & _ & _).
  lens. rewrite (psets_lenN _ _ F1 F2).
  match goal with |- context [lenN (poffs ?a ?b ?c ?d)] =>
    replace (lenN (poffs a b c d)) with (lenN c) by (unfold lenN; now rewrite poffs_length) end.
  unfold pgroup, pitem, vr2 in *. lia.
Qed.

Lemma gpos21_roundtrip gs b pre post :
  groups_ok gs -> M_gpos21_encode gs = Ok b ->
  M_gpos21_read (pre ++ b ++ post) (lenN pre) = Ok (norm_groups gs).
Proof.
  intros (Hs & Hg & Hok). unfold M_gpos21_encode.
  set (cnt := lenN gs). set (f1 := vf1_of gs). set (f2 := vf2_of gs).
  destruct (M_cov_encode (S_cov_table (map fst gs))) as [cb| | |] eqn:Hc; cbn [obind]; try discriminate.
  destruct (pset_offs f1 f2 gs (10 + 2 * cnt + lenN cb)) as [offs| | |] eqn:Ho; cbn [obind]; try discriminate.
  intros H. apply ok_inj in H. subst b.
  destruct (vf_lt gs) as [F1 F2]. fold f1 in F1. fold f2 in F2.
  destruct (pset_offs_ok _ _ F1 F2 _ _ _ Ho) as (Eoffs & Hoffs & Hsmall).
  assert (Hoffs_len : length offs = length gs) by (rewrite Eoffs; apply poffs_length).
  assert (Hcnt : cnt = lenN offs) by (unfold cnt, lenN; now rewrite Hoffs_len).
  assert (Hcnt_lt : 10 + 2 * cnt <= 65536).
  { destruct gs as [|g r]; [cbn; lia|]. rewrite Eoffs in Hoffs. cbn [poffs] in Hoffs.
    apply Forall_cons_iff in Hoffs. destruct Hoffs as [H0 _]. lia. }
  assert (Hcnt0 : cnt = 0 \/ 10 + 2 * cnt <= 65535).
  { destruct gs as [|g r]; [left; reflexivity|right]. rewrite Eoffs in Hoffs. cbn [poffs] in Hoffs.
    apply Forall_cons_iff in Hoffs. destruct Hoffs as [H0 _]. lia. }
  set (hdr := [0; 1] ++ be16 (10 + 2 * cnt) ++ be16 f1 ++ be16 f2 ++ be16 cnt ++ flat_map be16 offs).
  set (psets := flat_map (pset_bytes f1 f2) gs).
  set (D := pre ++ ([0; 1] ++ be16 (10 + 2 * cnt) ++ be16 f1 ++ be16 f2 ++ be16 cnt ++ flat_map be16 offs ++ cb ++ psets) ++ post).
  assert (HD : D = pre ++ (hdr ++ cb) ++ (psets ++ post)) by (unfold D, hdr; now rewrite <- !app_assoc).
  assert (Hseek : seek D (lenN pre + 2)
                  = be16 (10 + 2 * cnt) ++ be16 f1 ++ be16 f2 ++ be16 cnt ++ flat_map be16 offs ++ cb ++ psets ++ post).
  { unfold D. rewrite <- !app_assoc. apply (seek_at pre [0; 1]). }
  unfold M_gpos21_read. rewrite Hseek. cbn [be16 app].
  rewrite !w16_be16_eq by lia.
  rewrite Hcnt at 1. unfold lenN at 1. rewrite Nnat.Nat2N.id.
  rewrite rd_u16s_flat by (eapply Forall_impl; [|exact Hoffs]; cbv beta; intros; lia).
  cbn [obind fst].
  rewrite HD at 1.
  rewrite (cov_at (map fst gs) hdr pre (psets ++ post) cb (10 + 2 * cnt) Hs Hg Hc)
    by (unfold hdr; lens; rewrite <- Hcnt; lia).
  cbn [obind].
  rewrite prune_pair_same by (unfold S_cov_pairs; rewrite cov_pairs_length, map_length; exact Hoffs_len).
  cbn [fst snd].
  assert (HD2 : D = (pre ++ hdr ++ cb) ++ psets ++ post) by (rewrite HD; now rewrite <- !app_assoc).
  rewrite HD2, Eoffs. unfold psets.
  rewrite (rd_pairsets_ok f1 f2 F1 F2 (lenN pre) post gs (pre ++ hdr ++ cb) (10 + 2 * cnt + lenN cb)).
  - cbn [obind]. unfold S_cov_pairs.
    rewrite regroup_ok0.
    + unfold norm_groups. fold f1 f2. rewrite combine_map_fst_snd_like. reflexivity.
    + now rewrite !map_length.
    + apply Forall_forall. intros s Hs'. apply in_map_iff in Hs'. destruct Hs' as (g & <- & Hgin).
      pose proof (proj1 (Forall_forall _ _) Hok g Hgin) as (Hne & _).
      destruct (snd g); [congruence|discriminate].
  - apply groups_covered. exact Hok.
  - exact Hsmall.
  - unfold hdr. lens. rewrite <- Hcnt. lia.
Qed.
