(* C08/Proofs_ll4.v — lookup list layout, part 4: readLookupList evaluated on
   the emitted bytes returns every lookup with its type, flags, mark filtering
   set and the true positions of its subtables. *)
From Coq Require Import List NArith ZArith Bool Lia Permutation.
From Coq Require Import ZifyBool ZifyNat ZifyN.
From Common Require Import Bytes Outcome.
From Gen Require Import C08.
From C08 Require Import Model ModelLL Proofs Proofs_ll Proofs_ll2 Proofs_ll3.
Import ListNotations.
Local Open Scope N_scope.
Ltac Zify.zify_post_hook ::= Z.div_mod_to_equations.

Lemma read_u16s_flat l : forall rest,
  Forall (fun x => x < 65536) l ->
  read_u16s (length l) (flat_map be16 l ++ rest) = Ok (l, rest).
Proof.
  induction l as [|x l IH]; intros rest H; cbn [length read_u16s flat_map app]; [reflexivity|].
  apply Forall_cons_iff in H. destruct H as [Hx H].
  rewrite <- app_assoc. cbn [be16 app]. rewrite (IH rest H). cbn [obind fst snd].
  rewrite w16_be16_eq by exact Hx. reflexivity.
Qed.

Lemma starts_app x post q bc br : seek x q = bc ++ br -> starts (x ++ post) q bc.
Proof.
  unfold starts. rewrite !seek_unfold. intros H. rewrite skipn_app, H, <- app_assoc. eauto.
Qed.

Lemma iota_length n : forall i, length (iota n i) = n.
Proof. induction n as [|n IH]; intros i; cbn [iota length]; [reflexivity|]. now rewrite IH. Qed.

Section Reader.
  Variables (ll : list lookup) (extT : N) (L : list chunk) (bytes pre post : list N).
  Hypothesis HL : M_ll_layout ll = Ok L.
  Hypothesis Hemit : emit ll extT L L = Ok bytes.
  Hypothesis HextT : extT < 65536.
  Hypothesis Hll : Forall (lookup_ok extT) ll.

  Let data := pre ++ bytes ++ post.
  Let P := N.of_nat (length pre).

  Let Hshape : layout_shape ll L := layout_shape_of ll L HL.
  Let HW : Forall (chunk_wf ll) L := layout_wf ll L Hshape.
  Let Htot : sum_sizes L < 4294967296 := layout_total ll L HL.

  Lemma pos_lt k t s q : find_pos k t s L 0 = Some q -> q < 4294967296.
  Proof using -(HextT Hll).
    clear HextT Hll. intros H. apply find_pos_range in H. lia. Qed.

  Lemma at_pos k t s q :
    find_pos k t s L 0 = Some q ->
    exists c bc, code_eqb k t s c = true /\ chunk_bytes ll extT L c = Ok bc /\
                 starts data (P + q) bc.
  Proof using -(HextT Hll).
    clear HextT Hll.
    intros Hf.
    destruct (content_at ll extT L bytes k t s q Hemit HW Hf) as (c & bc & br & Hc & Hb & Hs).
    exists c, bc. repeat split; [exact Hc|exact Hb|].
    unfold starts, data, P. rewrite seek_skip. eapply starts_app. exact Hs.
  Qed.

  (* ---- contents of the chunks, by code ---- *)

  Lemma sub_content i l jj b c bc :
    nth_error ll (N.to_nat i) = Some l -> nth_error (lk_subs l) (N.to_nat jj) = Some b ->
    code_eqb KSub i jj c = true -> chunk_bytes ll extT L c = Ok bc -> bc = b.
  Proof using -(HextT Hll).
    clear HextT Hll.
    intros Hl Hb Hc. apply code_eqb_true in Hc. destruct Hc as (Hk & Ht & Hs).
    unfold chunk_bytes. rewrite Hk, Ht, Hs, Hl, Hb. intros H. apply ok_inj in H. now subst.
  Qed.

  Lemma ext_content i l jj c bc :
    nth_error ll (N.to_nat i) = Some l ->
    code_eqb KExt i jj c = true -> chunk_bytes ll extT L c = Ok bc ->
    bc = [0; 1] ++ be16 (lk_type l) ++
         be32 ((pos_or0 (find_pos KSub i jj L 0) + 4294967296 - pos_or0 (find_pos KExt i jj L 0)) mod 4294967296).
  Proof using -(HextT Hll).
    clear HextT Hll.
    intros Hl Hc. apply code_eqb_true in Hc. destruct Hc as (Hk & Ht & Hs).
    unfold chunk_bytes. rewrite Hk, Ht, Hs, Hl. intros H. apply ok_inj in H. now subst.
  Qed.

  Lemma table_content i l c bc :
    nth_error ll (N.to_nat i) = Some l ->
    code_eqb KTable i 0 c = true -> chunk_bytes ll extT L c = Ok bc ->
    let replaced := match find_pos KExt i 0 L 0 with Some _ => true | None => false end in
    (replaced && (extT =? 0)) = false /\
    exists offs,
      sub_offsets (length (lk_subs l)) i 0 (pos_or0 (find_pos KTable i 0 L 0)) L = Ok offs /\
      bc = be16 (if replaced then extT else lk_type l) ++ be16 (lk_flags l) ++ be16 (nsubs l) ++
           offs ++ (if use_mfs l then be16 (lk_mfs l) else []).
  Proof using -(HextT Hll).
    clear HextT Hll.
    intros Hl Hc. apply code_eqb_true in Hc. destruct Hc as (Hk & Ht & _).
    unfold chunk_bytes. rewrite Hk, Ht, Hl. cbv zeta.
    destruct (_ && _); [discriminate|].
    destruct (sub_offsets _ _ _ _ _) as [offs| | |]; cbn [obind]; try discriminate.
    intros H. apply ok_inj in H. subst bc. split; [reflexivity|]. exists offs. split; reflexivity.
  Qed.

  (* ---- the subtable offsets of one lookup table ---- *)

  Definition spos (i jj : N) : N :=
    match find_pos KExt i jj L 0 with
    | Some p => p
    | None => pos_or0 (find_pos KSub i jj L 0)
    end.

  Lemma spos_lt i jj : spos i jj < 4294967296.
  Proof using -(HextT Hll).
    clear HextT Hll.
    unfold spos. destruct (find_pos KExt i jj L 0) eqn:E; [eapply pos_lt; exact E|].
    destruct (find_pos KSub i jj L 0) eqn:E2; cbn [pos_or0]; [eapply pos_lt; exact E2|lia].
  Qed.

  Lemma sub_offsets_inv i T n : forall j bs,
    T <= 65535 ->
    sub_offsets n i j T L = Ok bs ->
    bs = flat_map be16 (map (fun jj => spos i jj - T) (iota n j)) /\
    Forall (fun jj => T <= spos i jj /\ spos i jj - T <= 65535) (iota n j).
  Proof using -(HextT Hll).
    clear HextT Hll.
    induction n as [|n IH]; intros j bs HT; cbn [sub_offsets iota map flat_map].
    - intros H. apply ok_inj in H. subst bs. split; [reflexivity|constructor].
    - fold (spos i j). rewrite c08_maxSubtableOffset_val.
      pose proof (spos_lt i j) as Hlt.
      destruct (65535 <? (spos i j + 4294967296 - T) mod 4294967296) eqn:Eg; [discriminate|].
      destruct (sub_offsets n i (j + 1) T L) as [tl| | |] eqn:Et; cbn [obind]; try discriminate.
      intros H. apply ok_inj in H. subst bs.
      destruct (IH (j + 1) tl HT Et) as [-> Hall].
      assert (Hge : T <= spos i j) by lia.
      replace ((spos i j + 4294967296 - T) mod 4294967296) with (spos i j - T) in * by lia.
      split; [reflexivity|]. constructor; [lia|exact Hall].
  Qed.

  (* ---- reading one lookup ---- *)

  Lemma be32_read x rest : x < 4294967296 ->
    exists e f g h, be32 x ++ rest = e :: f :: g :: h :: rest /\
                    e * 16777216 + f * 65536 + g * 256 + h = x.
  Proof.
    intros H. unfold be32. do 4 eexists. split; [reflexivity|]. lia.
  Qed.

  Lemma read_lookup_ok k l T objs :
    nth_error ll k = Some l -> lookup_facts L (N.of_nat k) l T ->
    objs + 1 + nsubs l <= c08_maxObjectsRead -> nsubs l < 65536 ->
    exists o, read_lookup data (P + T) extT objs = Ok (o, objs + 1 + nsubs l) /\
              lookup_matches data l o.
  Proof.
    intros Hk (HT & HTfit & Hsubs) Hobjs Hns. set (i := N.of_nat k) in *.
    assert (Hl : nth_error ll (N.to_nat i) = Some l) by (unfold i; rewrite Nnat.Nat2N.id; exact Hk).
    pose proof (proj1 (Forall_forall _ _) Hll l (nth_error_In _ _ Hk)) as (Hty & Hfl & Hmf & Hne).
    destruct (at_pos _ _ _ _ HT) as (c & bc & Hc & Hb & [rest Hst]).
    destruct (table_content i l c bc Hl Hc Hb) as (Hrepl & offs & Hoffs & ->).
    rewrite HT in Hoffs. cbn [pos_or0] in Hoffs.
    destruct (sub_offsets_inv i T _ _ _ HTfit Hoffs) as [-> Hrange].
    set (offl := map (fun jj => spos i jj - T) (iota (length (lk_subs l)) 0)) in *.
    assert (Hoffl_lt : Forall (fun x => x < 65536) offl).
    { unfold offl. apply Forall_map. eapply Forall_impl; [|exact Hrange]. cbv beta. intros; lia. }
    assert (Hoffl_len : length offl = length (lk_subs l)) by (unfold offl; now rewrite map_length, iota_length).
    (* evaluate the reader up to the branch *)
    unfold read_lookup. rewrite Hst. rewrite <- !app_assoc. cbn [be16 app].
    set (replaced := match find_pos KExt i 0 L 0 with Some _ => true | None => false end) in *.
    set (ty := if replaced then extT else lk_type l).
    assert (Hty' : ty < 65536) by (unfold ty; destruct replaced; assumption).
    rewrite !w16_be16_eq by assumption.
    replace (c08_maxObjectsRead <? objs + 1 + nsubs l) with false by lia.
    replace (N.to_nat (nsubs l)) with (length offl) by (unfold nsubs; lia).
    rewrite read_u16s_flat by exact Hoffl_lt. cbn [obind fst snd].
    fold (use_mfs l).
    assert (Hm : (if use_mfs l
                  then match (if use_mfs l then be16 (lk_mfs l) else []) ++ rest with
                       | a' :: b' :: _ => Ok (w16 a' b') | _ => Err end
                  else Ok 0) = Ok (if use_mfs l then lk_mfs l else 0)).
    { destruct (use_mfs l); [|reflexivity]. cbn [be16 app]. now rewrite w16_be16_eq. }
    rewrite Hm. cbn [obind].
    destruct Hsubs as [[Hnoext Hsub] | [Hne_subs Hext]].
    - (* not replaced *)
      assert (Hr : replaced = false) by (unfold replaced; now rewrite (Hnoext 0)).
      unfold ty. rewrite Hr.
      replace (lk_type l =? extT) with false by lia. cbn [andb].
      eexists. split; [reflexivity|].
      unfold lookup_matches. cbn [lo_type lo_flags lo_mfs lo_subpos]. repeat split.
      (* the positions *)
      unfold offl.
      assert (G : forall subs' j0,
                (forall m b, nth_error subs' m = Some b -> nth_error (lk_subs l) (j0 + m) = Some b) ->
                Forall (fun jj => T <= spos i jj /\ spos i jj - T <= 65535) (iota (length subs') (N.of_nat j0)) ->
                Forall2 (fun b p => starts data p b) subs'
                  (map (fun o => P + T + o) (map (fun jj => spos i jj - T) (iota (length subs') (N.of_nat j0))))).
      { induction subs' as [|b0 r IH]; intros j0 Hsuf Hrg; cbn [length iota map]; constructor.
        - apply Forall_cons_iff in Hrg. destruct Hrg as [[Hge _] _].
          assert (Hb0 : nth_error (lk_subs l) j0 = Some b0) by (specialize (Hsuf 0%nat b0 eq_refl); now rewrite Nat.add_0_r in Hsuf).
          destruct (Hsub j0 b0 Hb0) as [Sp HS].
          unfold spos in *. rewrite (Hnoext (N.of_nat j0)), HS in *. cbn [pos_or0] in *.
          destruct (at_pos _ _ _ _ HS) as (c' & bc' & Hc' & Hb' & Hst').
          rewrite (sub_content i l (N.of_nat j0) b0 c' bc' Hl ltac:(now rewrite Nnat.Nat2N.id) Hc' Hb') in Hst'.
          replace (P + T + (Sp - T)) with (P + Sp) by lia. exact Hst'.
        - apply Forall_cons_iff in Hrg. destruct Hrg as [_ Hrg].
          replace (N.of_nat j0 + 1) with (N.of_nat (S j0)) in * by lia.
          apply IH; [|exact Hrg]. intros m b Hm'. specialize (Hsuf (S m) b Hm').
          now replace (S j0 + m)%nat with (j0 + S m)%nat by lia. }
      apply (G (lk_subs l) 0%nat); [intros m b Hm'; exact Hm'|exact Hrange].
    - (* replaced: every subtable behind an extension record *)
      assert (Hb00 : exists b00, nth_error (lk_subs l) 0 = Some b00)
        by (destruct (lk_subs l); [congruence|cbn; eauto]).
      destruct Hb00 as [b00 Hb00].
      assert (Hns0 : nsubs l <> 0) by (unfold nsubs; destruct (lk_subs l); [congruence|cbn [length]; lia]).
      destruct (Hext 0%nat b00 Hb00) as (E0 & S0 & HE0 & _ & _).
      assert (Hr : replaced = true) by (unfold replaced; change (N.of_nat 0) with 0 in HE0; now rewrite HE0).
      rewrite Hr in Hrepl. cbn [andb] in Hrepl.
      unfold ty. rewrite Hr. rewrite N.eqb_refl.
      replace (nsubs l =? 0) with false by lia.
      cbn [negb andb].
      (* all extension records *)
      assert (G : forall subs' j0,
                (forall m b, nth_error subs' m = Some b -> nth_error (lk_subs l) (j0 + m) = Some b) ->
                Forall (fun jj => T <= spos i jj /\ spos i jj - T <= 65535) (iota (length subs') (N.of_nat j0)) ->
                exists exts ps,
                  read_exts data (P + T) (map (fun jj => spos i jj - T) (iota (length subs') (N.of_nat j0))) = Ok exts /\
                  length exts = length subs' /\
                  Forall (fun x => fst x = lk_type l) exts /\
                  resolve_exts (P + T) (lk_type l) (map (fun jj => spos i jj - T) (iota (length subs') (N.of_nat j0))) exts = Ok ps /\
                  Forall2 (fun b p => starts data p b) subs' ps).
      { induction subs' as [|b0 r IH]; intros j0 Hsuf Hrg; cbn [length iota map].
        - exists [], []. cbn [read_exts resolve_exts]. repeat split; constructor.
        - apply Forall_cons_iff in Hrg. destruct Hrg as [[Hge _] Hrg].
          assert (Hb0 : nth_error (lk_subs l) j0 = Some b0) by (specialize (Hsuf 0%nat b0 eq_refl); now rewrite Nat.add_0_r in Hsuf).
          destruct (Hext j0 b0 Hb0) as (Ep & Sp & HE & HS & HES).
          replace (N.of_nat j0 + 1) with (N.of_nat (S j0)) in * by lia.
          destruct (IH (S j0)) as (exts & ps & Hre & Hlen & Hty0 & Hres & Hps); [|exact Hrg|].
          { intros m b Hm'. specialize (Hsuf (S m) b Hm').
            now replace (S j0 + m)%nat with (j0 + S m)%nat by lia. }
          assert (Hsp : spos i (N.of_nat j0) = Ep) by (unfold spos; now rewrite HE).
          rewrite Hsp in *.
          (* the extension record at Ep *)
          destruct (at_pos _ _ _ _ HE) as (ce & bce & Hce & Hbe & [reste Hste]).
          rewrite (ext_content i l (N.of_nat j0) ce bce Hl Hce Hbe) in Hste.
          rewrite HE, HS in Hste. cbn [pos_or0] in Hste.
          pose proof (pos_lt _ _ _ _ HS) as HSlt.
          replace ((Sp + 4294967296 - Ep) mod 4294967296) with (Sp - Ep) in Hste by lia.
          destruct (be32_read (Sp - Ep) reste ltac:(lia)) as (e & f & g & h & Hbe32 & Hval).
          rewrite <- !app_assoc in Hste. rewrite Hbe32 in Hste. cbn [be16 app] in Hste.
          assert (Hrd : read_ext data (P + T + (Ep - T)) = Ok (lk_type l, Sp - Ep)).
          { unfold read_ext. replace (P + T + (Ep - T)) with (P + Ep) by lia. rewrite Hste.
            change (w16 0 1 =? 1) with true. cbv iota. rewrite w16_be16_eq by exact Hty.
            now rewrite Hval. }
          exists ((lk_type l, Sp - Ep) :: exts), (P + T + (Ep - T) + (Sp - Ep) :: ps).
          cbn [read_exts resolve_exts]. rewrite Hrd, Hre. cbn [obind].
          rewrite N.eqb_refl, Hres. cbn [obind length].
          repeat split; try (constructor; [reflexivity|exact Hty0]); try lia.
          constructor; [|exact Hps].
          destruct (at_pos _ _ _ _ HS) as (c' & bc' & Hc' & Hb' & Hst').
          rewrite (sub_content i l (N.of_nat j0) b0 c' bc' Hl ltac:(now rewrite Nnat.Nat2N.id) Hc' Hb') in Hst'.
          replace (P + T + (Ep - T) + (Sp - Ep)) with (P + Sp) by lia. exact Hst'. }
      destruct (G (lk_subs l) 0%nat ltac:(intros m b Hm'; exact Hm') Hrange)
        as (exts & ps & Hre & Hlen & Hty0 & Hres & Hps).
      change (N.of_nat 0) with 0 in Hre, Hres. fold offl in Hre, Hres. rewrite Hre. cbn [obind].
      destruct exts as [|[tp eo] exts']; [cbn [length] in Hlen; unfold nsubs in Hns0; lia|].
      apply Forall_cons_iff in Hty0. destruct Hty0 as [Htp _]. cbn [fst] in Htp. subst tp.
      replace (lk_type l =? extT) with false by lia.
      rewrite Hres. cbn [obind].
      eexists. split; [reflexivity|].
      unfold lookup_matches. cbn [lo_type lo_flags lo_mfs lo_subpos]. repeat split. exact Hps.
  Qed.

  (* ---- the list of lookups ---- *)

  Lemma read_lookups_ok : forall lst k0 objs,
    (forall m l, nth_error lst m = Some l -> nth_error ll (k0 + m) = Some l) ->
    objs + N.of_nat (length lst) + total_subs lst <= c08_maxObjectsRead ->
    exists obs,
      read_lookups data P extT
        (map (fun t => pos_or0 (find_pos KTable t 0 L 0)) (iota (length lst) (N.of_nat k0))) objs = Ok obs /\
      Forall2 (lookup_matches data) lst obs.
  Proof.
    induction lst as [|l r IH]; intros k0 objs Hsuf Hobjs; cbn [length iota map read_lookups].
    - exists []. split; [reflexivity|constructor].
    - assert (Hk : nth_error ll k0 = Some l) by (specialize (Hsuf 0%nat l eq_refl); now rewrite Nat.add_0_r in Hsuf).
      destruct (layout_lookup_facts ll L k0 l Hshape Hk) as [T HF].
      assert (HT := proj1 HF). rewrite HT. cbn [pos_or0].
      cbn [length total_subs] in Hobjs.
      destruct (layout_guards ll L HL) as (_ & _ & Hsubs).
      pose proof (proj1 (Forall_forall _ _) Hsubs l (nth_error_In _ _ Hk)) as Hns. cbv beta in Hns.
      pose proof c08_maxSubtables_le.
      destruct (read_lookup_ok k0 l T objs Hk HF ltac:(lia) ltac:(lia)) as (o & Hrd & Hmatch).
      rewrite Hrd. cbn [obind fst snd].
      replace (N.of_nat k0 + 1) with (N.of_nat (S k0)) by lia.
      destruct (IH (S k0) (objs + 1 + nsubs l)) as (obs & Hr & Hall).
      { intros m l' Hm. specialize (Hsuf (S m) l' Hm). now replace (S k0 + m)%nat with (k0 + S m)%nat by lia. }
      { lia. }
      rewrite Hr. cbn [obind]. exists (o :: obs). split; [reflexivity|]. constructor; assumption.
  Qed.

  Lemma table_offsets_map n : forall i,
    table_offsets n i L = flat_map be16 (map (fun t => pos_or0 (find_pos KTable t 0 L 0)) (iota n i)).
  Proof.
    induction n as [|n IH]; intros i; cbn [table_offsets iota map flat_map]; [reflexivity|].
    now rewrite IH.
  Qed.

  Theorem ll_read_back :
    exists obs, M_ll_read data P extT = Ok obs /\ Forall2 (lookup_matches data) ll obs.
  Proof.
    destruct (layout_guards ll L HL) as (Hn & Hobj & _).
    pose proof c08_maxLookups_le. pose proof c08_objects_le.
    (* the header chunk is the first chunk *)
    assert (Hhead : exists rest, L = header_chunk (N.of_nat (length ll)) :: rest).
    { pose proof Hshape as Hs. destruct Hs as [Hs _ | big repl R M E _ Hs _ _ _]; rewrite Hs; eexists; reflexivity. }
    destruct Hhead as [restL HLeq].
    assert (Hb : exists br, bytes = (be16 (N.of_nat (length ll)) ++ table_offsets (length ll) 0 L) ++ br).
    { pose proof Hemit as He. rewrite HLeq in He at 2. cbn [emit] in He.
      unfold chunk_bytes in He at 1. cbn [header_chunk c_kind] in He. cbn [obind] in He.
      destruct (emit ll extT L restL) as [tl| | |]; cbn [obind] in He; try discriminate.
      apply ok_inj in He. eauto. }
    destruct Hb as [br Hbytes].
    unfold M_ll_read.
    assert (Hseek : seek data P = bytes ++ post) by (unfold data, P; apply seek_app).
    rewrite Hseek, Hbytes, <- !app_assoc. cbn [be16 app].
    rewrite w16_be16_eq by lia. rewrite Nnat.Nat2N.id.
    rewrite table_offsets_map.
    set (offs := map (fun t => pos_or0 (find_pos KTable t 0 L 0)) (iota (length ll) 0)).
    assert (Hlen : length offs = length ll) by (unfold offs; now rewrite map_length, iota_length).
    assert (Hoffs : Forall (fun x => x < 65536) offs).
    { unfold offs. apply Forall_map. apply Forall_forall. intros t _.
      destruct (find_pos KTable t 0 L 0) as [q|] eqn:E; cbn [pos_or0]; [|lia].
      pose proof (tables_fit ll L t q Hshape E). lia. }
    destruct (read_lookups_ok ll 0%nat 0 ltac:(intros m l Hm; exact Hm) ltac:(lia)) as (obs & Hr & Hall).
    exists obs. split; [|exact Hall].
    rewrite <- Hlen at 1. rewrite read_u16s_flat by exact Hoffs. cbn [obind fst]. exact Hr.
  Qed.

  (* ---- the offsets themselves ---- *)

  Lemma ll_offsets k l :
    nth_error ll k = Some l ->
    exists T,
      find_pos KTable (N.of_nat k) 0 L 0 = Some T /\ T <= 65535 /\
      forall j b, nth_error (lk_subs l) j = Some b ->
        (find_pos KExt (N.of_nat k) (N.of_nat j) L 0 = None /\
         exists Sp, find_pos KSub (N.of_nat k) (N.of_nat j) L 0 = Some Sp /\
                    T <= Sp /\ Sp - T <= 65535 /\ starts data (P + Sp) b)
        \/
        (exists Ep Sp,
           find_pos KExt (N.of_nat k) (N.of_nat j) L 0 = Some Ep /\
           find_pos KSub (N.of_nat k) (N.of_nat j) L 0 = Some Sp /\
           T <= Ep /\ Ep - T <= 65535 /\ Ep <= Sp /\ Sp - Ep < 4294967296 /\
           starts data (P + Sp) b).
  Proof using -(HextT Hll).
    clear HextT Hll.
    intros Hk. destruct (layout_lookup_facts ll L k l Hshape Hk) as [T (HT & HTfit & Hsubs)].
    set (i := N.of_nat k) in *.
    assert (Hl : nth_error ll (N.to_nat i) = Some l) by (unfold i; rewrite Nnat.Nat2N.id; exact Hk).
    exists T. split; [exact HT|]. split; [exact HTfit|].
    destruct (at_pos _ _ _ _ HT) as (c & bc & Hc & Hb & _).
    destruct (table_content i l c bc Hl Hc Hb) as (_ & offs & Hoffs & _).
    rewrite HT in Hoffs. cbn [pos_or0] in Hoffs.
    destruct (sub_offsets_inv i T _ _ _ HTfit Hoffs) as [_ Hrange].
    intros j b Hj.
    assert (Hin : In (N.of_nat j) (iota (length (lk_subs l)) 0)).
    { apply iota_In. pose proof (proj1 (nth_error_Some (lk_subs l) j) ltac:(congruence)). lia. }
    pose proof (proj1 (Forall_forall _ _) Hrange _ Hin) as [Hge Hle]. cbv beta in Hge, Hle.
    assert (Hcontent : forall Sp, find_pos KSub i (N.of_nat j) L 0 = Some Sp -> starts data (P + Sp) b).
    { intros Sp HS. destruct (at_pos _ _ _ _ HS) as (c' & bc' & Hc' & Hb' & Hst').
      now rewrite (sub_content i l (N.of_nat j) b c' bc' Hl ltac:(now rewrite Nnat.Nat2N.id) Hc' Hb') in Hst'. }
    destruct Hsubs as [[Hnoext Hsub] | [_ Hext]].
    - left. split; [apply Hnoext|]. destruct (Hsub j b Hj) as [Sp HS]. exists Sp.
      unfold spos in Hge, Hle. rewrite (Hnoext (N.of_nat j)), HS in Hge, Hle. cbn [pos_or0] in Hge, Hle.
      repeat split; try assumption. apply Hcontent. exact HS.
    - right. destruct (Hext j b Hj) as (Ep & Sp & HE & HS & HES). exists Ep, Sp.
      unfold spos in Hge, Hle. rewrite HE in Hge, Hle.
      pose proof (pos_lt _ _ _ _ HS).
      repeat split; try assumption; try lia. apply Hcontent. exact HS.
  Qed.
End Reader.
