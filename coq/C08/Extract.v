From Coq Require Import Extraction ExtrOcamlBasic.
From Common Require Import Conv.
From C08 Require Import Model ModelCD ModelLL ModelSub ModelSub2 ModelFL ModelGDEF ModelSL.
Extraction "c08_model.ml" conv_anchor M_cov_read M_cov_encode M_cov_encode_len
  M_cd_append M_cd_append_len M_cd_read
  M_ll_encode M_ll_read M_find_ext
  M_vr_format M_vr_encode_len M_vr_encode M_vr_read
  M_gsub11_len M_gsub11_encode M_gsub12_len M_gsub12_encode
  M_gsubseq_len M_gsubseq_encode M_gsub41_len M_gsub41_encode M_gpos11_len M_gpos11_encode M_gpos12_len M_gpos12_encode
  M_sub_read as_table S_cov_table
  M_fl_encode M_fl_read
  M_gpos21_len M_gpos21_encode M_sub_read2
  M_gdef_encode M_gdef_read
  M_sl_encode M_sl_read.
