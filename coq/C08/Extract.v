From Coq Require Import Extraction ExtrOcamlBasic.
From Common Require Import Conv.
From C08 Require Import Model ModelCD ModelLL.
Extraction "c08_model.ml" conv_anchor M_cov_read M_cov_encode M_cov_encode_len
  M_cd_append M_cd_append_len M_cd_read
  M_ll_encode M_ll_read M_find_ext.
