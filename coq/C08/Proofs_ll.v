(* C08/Proofs_ll.v — lemmas about the lookup list layout model, part 1:
   positions, the structure of the reordered layout, lookup offsets fit. *)
From Coq Require Import List NArith ZArith Bool Lia Permutation.
From Coq Require Import ZifyBool ZifyNat ZifyN.
From Common Require Import Bytes Outcome.
From Gen Require Import C08.
From C08 Require Import Model ModelLL Proofs.
Import ListNotations.
Local Open Scope N_scope.
Ltac Zify.zify_post_hook ::= Z.div_mod_to_equations.

(* ------------------------------------------------------------------ *)
(* find_pos / sum_sizes                                                *)

Lemma sum_sizes_app a b : sum_sizes (a ++ b) = sum_sizes a + sum_sizes b.
Proof. induction a as [|c a IH]; cbn [app sum_sizes]; [lia|]. rewrite IH. lia. Qed.

Lemma find_pos_shift k t s cs : forall p q,
  find_pos k t s cs (p + q) =
  match find_pos k t s cs p with Some x => Some (x + q) | None => None end.
Proof.
  induction cs as [|c r IH]; intros p q; cbn [find_pos]; [reflexivity|].
  destruct (code_eqb k t s c); [reflexivity|].
  replace (p + q + c_size c) with (p + c_size c + q) by lia. apply IH.
Qed.

Lemma find_pos_app k t s a b p :
  find_pos k t s (a ++ b) p =
  match find_pos k t s a p with
  | Some x => Some x
  | None => find_pos k t s b (p + sum_sizes a)
  end.
Proof.
  revert p; induction a as [|c a IH]; intros p; cbn [app find_pos sum_sizes].
  - now rewrite N.add_0_r.
  - destruct (code_eqb k t s c); [reflexivity|].
    rewrite IH. destruct (find_pos k t s a (p + c_size c)); [reflexivity|].
    f_equal. lia.
Qed.

Lemma find_pos_range k t s cs : forall p q,
  find_pos k t s cs p = Some q -> p <= q /\ q <= p + sum_sizes cs.
Proof.
  induction cs as [|c r IH]; intros p q; cbn [find_pos sum_sizes]; [discriminate|].
  destruct (code_eqb k t s c).
  - intros [= <-]. lia.
  - intros H. apply IH in H. lia.
Qed.

Lemma find_pos_none k t s cs p :
  (forall c, In c cs -> code_eqb k t s c = false) -> find_pos k t s cs p = None.
Proof.
  revert p; induction cs as [|c r IH]; intros p H; cbn [find_pos]; [reflexivity|].
  rewrite (H c (or_introl eq_refl)). apply IH. intros c' Hc. apply H. right. exact Hc.
Qed.

(* split at the first chunk with a given code *)
Lemma find_pos_split k t s cs : forall p q,
  find_pos k t s cs p = Some q ->
  exists a c r, cs = a ++ c :: r /\ code_eqb k t s c = true /\ q = p + sum_sizes a.
Proof.
  induction cs as [|c r IH]; intros p q; cbn [find_pos]; [discriminate|].
  destruct (code_eqb k t s c) eqn:E.
  - intros [= <-]. exists [], c, r. cbn [app sum_sizes]. repeat split; [exact E|lia].
  - intros H. destruct (IH _ _ H) as (a & c' & r' & -> & Hc & ->).
    exists (c :: a), c', r'. cbn [app sum_sizes]. repeat split; [exact Hc|lia].
Qed.

Lemma code_eqb_true k t s c :
  code_eqb k t s c = true <-> c_kind c = k /\ c_t c = t /\ c_s c = s.
Proof.
  unfold code_eqb. rewrite !andb_true_iff, !N.eqb_eq.
  destruct k, (c_kind c); cbn [ckind_eqb]; intuition (try discriminate; auto).
Qed.

Lemma code_eqb_t k t s c : c_t c <> t -> code_eqb k t s c = false.
Proof.
  intros H. destruct (code_eqb k t s c) eqn:E; [|reflexivity].
  apply code_eqb_true in E. destruct E as (_ & E & _). congruence.
Qed.

Lemma code_eqb_kind k t s c : c_kind c <> k -> code_eqb k t s c = false.
Proof.
  intros H. destruct (code_eqb k t s c) eqn:E; [|reflexivity].
  apply code_eqb_true in E. destruct E as (E & _). congruence.
Qed.

(* ------------------------------------------------------------------ *)
(* the original chunk list                                             *)

Definition lsize (l : lookup) : N := hdr_len l + sum_sizes (sub_chunks 0 0 (lk_subs l)).
Definition nsize (l : lookup) : N := hdr_len l + 8 * nsubs l.

Lemma sub_chunks_sum i j subs : forall i' j',
  sum_sizes (sub_chunks i j subs) = sum_sizes (sub_chunks i' j' subs).
Proof.
  revert j; induction subs as [|b r IH]; intros j i' j'; cbn [sub_chunks sum_sizes]; [reflexivity|].
  cbn [c_size]. f_equal. apply IH.
Qed.

Lemma sub_chunks_t i j subs c : In c (sub_chunks i j subs) -> c_t c = i /\ c_kind c = KSub /\ j <= c_s c.
Proof.
  revert j; induction subs as [|b r IH]; intros j; cbn [sub_chunks In]; [tauto|].
  intros [<-|H]; [cbn; repeat split; lia|]. apply IH in H. intuition lia.
Qed.

Lemma lookup_chunks_t i ll c : In c (lookup_chunks i ll) -> i <= c_t c /\ c_kind c <> KHeader /\ c_kind c <> KExt.
Proof.
  revert i; induction ll as [|l r IH]; intros i; cbn [lookup_chunks In]; [tauto|].
  intros [<-|H]; [cbn; repeat split; try lia; discriminate|].
  apply in_app_or in H. destruct H as [H|H].
  - apply sub_chunks_t in H. destruct H as (-> & -> & _). repeat split; try lia; discriminate.
  - apply IH in H. intuition lia.
Qed.

Lemma lookup_size_app a b t : lookup_size (a ++ b) t = lookup_size a t + lookup_size b t.
Proof. induction a as [|c a IH]; cbn [app lookup_size]; [lia|]. rewrite IH. lia. Qed.

Lemma lookup_size_other cs t :
  (forall c, In c cs -> c_t c <> t) -> lookup_size cs t = 0.
Proof.
  induction cs as [|c r IH]; intros H; cbn [lookup_size]; [reflexivity|].
  rewrite IH by (intros c' Hc; apply H; right; exact Hc).
  pose proof (H c (or_introl eq_refl)).
  replace (c_t c =? t) with false by lia. rewrite andb_false_r. reflexivity.
Qed.

Lemma lookup_size_subs i j subs :
  lookup_size (sub_chunks i j subs) i = sum_sizes (sub_chunks i j subs).
Proof.
  revert j; induction subs as [|b r IH]; intros j; cbn [sub_chunks lookup_size sum_sizes]; [reflexivity|].
  cbn [is_header c_kind c_t c_size ckind_eqb negb andb]. rewrite N.eqb_refl, IH. reflexivity.
Qed.

Lemma lookup_size_chunks ll : forall i k l,
  nth_error ll k = Some l ->
  lookup_size (lookup_chunks i ll) (i + N.of_nat k) = lsize l.
Proof.
  induction ll as [|l0 r IH]; intros i k l Hk; [destruct k; discriminate|].
  cbn [lookup_chunks lookup_size]. cbn [is_header c_kind c_t c_size ckind_eqb negb andb].
  rewrite lookup_size_app.
  destruct k as [|k].
  - injection Hk as <-. replace (i + N.of_nat 0) with i by lia.
    rewrite N.eqb_refl, lookup_size_subs.
    rewrite lookup_size_other.
    + unfold lsize. rewrite (sub_chunks_sum i 0 _ 0 0). lia.
    + intros c Hc. apply lookup_chunks_t in Hc. lia.
  - cbn [nth_error] in Hk.
    replace (i =? i + N.of_nat (S k)) with false by lia.
    rewrite (lookup_size_other (sub_chunks i 0 (lk_subs l0))).
    + replace (i + N.of_nat (S k)) with (i + 1 + N.of_nat k) by lia.
      rewrite (IH (i + 1) k l Hk). lia.
    + intros c Hc. apply sub_chunks_t in Hc. lia.
Qed.

Fixpoint iota (n : nat) (i : N) : list N :=
  match n with O => [] | S n' => i :: iota n' (i + 1) end.

Lemma table_codes_subs i j subs : table_codes (sub_chunks i j subs) = [].
Proof. revert j; induction subs as [|b r IH]; intros j; cbn [sub_chunks table_codes]; [reflexivity|]. apply IH. Qed.

Lemma table_codes_app a b : table_codes (a ++ b) = table_codes a ++ table_codes b.
Proof.
  induction a as [|c a IH]; cbn [app table_codes]; [reflexivity|].
  destruct (is_table c); cbn [app]; now rewrite IH.
Qed.

Lemma table_codes_chunks ll : forall i, table_codes (lookup_chunks i ll) = iota (length ll) i.
Proof.
  induction ll as [|l r IH]; intros i; cbn [lookup_chunks table_codes length iota]; [reflexivity|].
  cbn [is_table c_kind ckind_eqb c_t]. rewrite table_codes_app, table_codes_subs. cbn [app].
  now rewrite IH.
Qed.

Lemma iota_In n : forall i x, In x (iota n i) <-> i <= x < i + N.of_nat n.
Proof.
  induction n as [|n IH]; intros i x; cbn [iota In]; [lia|].
  rewrite IH. lia.
Qed.

Lemma iota_NoDup n : forall i, NoDup (iota n i).
Proof.
  induction n as [|n IH]; intros i; cbn [iota]; constructor; [|apply IH].
  rewrite iota_In. lia.
Qed.

(* ------------------------------------------------------------------ *)
(* the stable sort is a permutation                                    *)

Lemma ins_sorted_perm x l : Permutation (x :: l) (ins_sorted x l).
Proof.
  induction l as [|y r IH]; cbn [ins_sorted]; [apply Permutation_refl|].
  destruct (snd x <=? snd y); [apply Permutation_refl|].
  eapply perm_trans; [apply perm_swap|]. apply perm_skip. exact IH.
Qed.

Lemma stable_sort_perm l : Permutation l (stable_sort l).
Proof.
  unfold stable_sort. induction l as [|x l IH]; cbn [fold_right]; [apply perm_nil|].
  eapply perm_trans; [apply perm_skip; exact IH|]. apply ins_sorted_perm.
Qed.

(* ------------------------------------------------------------------ *)
(* the structure of the rebuilt list                                   *)

Fixpoint ext_chunks (i j : N) (subs : list (list N)) : list chunk :=
  match subs with
  | [] => []
  | b :: r => {| c_kind := KExt; c_t := i; c_s := j; c_size := 8 |} :: ext_chunks i (j + 1) r
  end.

Definition table_chunk (i : N) (l : lookup) : chunk :=
  {| c_kind := KTable; c_t := i; c_s := 0; c_size := hdr_len l |}.

Fixpoint parts (i : N) (ll : list lookup) (big : N) (repl : list N)
  : list chunk * list chunk * list chunk :=
  match ll with
  | [] => ([], [], [])
  | l :: r =>
    let '(R, M, E) := parts (i + 1) r big repl in
    if i =? big then (R, table_chunk i l :: sub_chunks i 0 (lk_subs l) ++ M, E)
    else if mem i repl then
      (table_chunk i l :: ext_chunks i 0 (lk_subs l) ++ R, M, sub_chunks i 0 (lk_subs l) ++ E)
    else (table_chunk i l :: sub_chunks i 0 (lk_subs l) ++ R, M, E)
  end.

Lemma rebuild_app a b big repl :
  rebuild (a ++ b) big repl =
  let '(r1, m1, e1) := rebuild a big repl in
  let '(r2, m2, e2) := rebuild b big repl in
  (r1 ++ r2, m1 ++ m2, e1 ++ e2).
Proof.
  induction a as [|c a IH]; cbn [app rebuild].
  - destruct (rebuild b big repl) as [[r2 m2] e2]. reflexivity.
  - rewrite IH. destruct (rebuild a big repl) as [[r1 m1] e1].
    destruct (rebuild b big repl) as [[r2 m2] e2].
    destruct (is_header c); [reflexivity|].
    destruct (c_t c =? big); [reflexivity|].
    destruct (mem (c_t c) repl); [|reflexivity].
    destruct (c_kind c); reflexivity.
Qed.

Lemma rebuild_subs i j subs big repl :
  rebuild (sub_chunks i j subs) big repl =
  if i =? big then ([], sub_chunks i j subs, [])
  else if mem i repl then (ext_chunks i j subs, [], sub_chunks i j subs)
  else (sub_chunks i j subs, [], []).
Proof.
  revert j; induction subs as [|b r IH]; intros j; cbn [sub_chunks rebuild ext_chunks].
  - destruct (i =? big); [reflexivity|]. destruct (mem i repl); reflexivity.
  - rewrite IH. cbn [is_header c_kind c_t c_s ckind_eqb].
    destruct (i =? big); [reflexivity|]. destruct (mem i repl); reflexivity.
Qed.

Lemma rebuild_chunks ll : forall i big repl,
  rebuild (lookup_chunks i ll) big repl = parts i ll big repl.
Proof.
  induction ll as [|l r IH]; intros i big repl; cbn [lookup_chunks parts]; [reflexivity|].
  change (?c :: ?a ++ ?b) with ((c :: a) ++ b).
  rewrite rebuild_app, IH.
  destruct (parts (i + 1) r big repl) as [[R M] E].
  cbn [rebuild]. rewrite rebuild_subs.
  cbn [is_header c_kind c_t ckind_eqb]. unfold table_chunk.
  destruct (i =? big); [reflexivity|].
  destruct (mem i repl); cbn [app]; rewrite ?app_nil_r; reflexivity.
Qed.

(* ------------------------------------------------------------------ *)
(* accounting: the size of the first part                              *)

Fixpoint Gf (i : N) (ll : list lookup) (big : N) (repl : list N) : N :=
  match ll with
  | [] => 0
  | l :: r =>
    (if i =? big then 0 else if mem i repl then nsize l else lsize l) + Gf (i + 1) r big repl
  end.

Lemma ext_chunks_sum i j subs : sum_sizes (ext_chunks i j subs) = 8 * N.of_nat (length subs).
Proof.
  revert j; induction subs as [|b r IH]; intros j; cbn [ext_chunks sum_sizes length]; [reflexivity|].
  cbn [c_size]. rewrite IH. lia.
Qed.

Lemma parts_sum_R ll : forall i big repl,
  sum_sizes (fst (fst (parts i ll big repl))) = Gf i ll big repl.
Proof.
  induction ll as [|l r IH]; intros i big repl; cbn [parts Gf]; [reflexivity|].
  specialize (IH (i + 1) big repl).
  destruct (parts (i + 1) r big repl) as [[R M] E]. cbn [fst] in IH.
  destruct (i =? big); cbn [fst]; [lia|].
  destruct (mem i repl); cbn [fst sum_sizes table_chunk c_size]; rewrite sum_sizes_app.
  - rewrite ext_chunks_sum. unfold nsize, nsubs. lia.
  - unfold lsize. rewrite (sub_chunks_sum i 0 _ 0 0). lia.
Qed.

Fixpoint sum_lsize (ll : list lookup) : N :=
  match ll with [] => 0 | l :: r => lsize l + sum_lsize r end.

Lemma lookup_chunks_sum ll : forall i, sum_sizes (lookup_chunks i ll) = sum_lsize ll.
Proof.
  induction ll as [|l r IH]; intros i; cbn [lookup_chunks sum_sizes sum_lsize]; [reflexivity|].
  rewrite sum_sizes_app, IH. cbn [c_size]. unfold lsize.
  rewrite (sub_chunks_sum i 0 _ 0 0). lia.
Qed.

Lemma mem_cons t x l : mem t (x :: l) = (t =? x) || mem t l.
Proof. reflexivity. Qed.

(* no lookup replaced: everything but the biggest *)
Lemma Gf_nil ll : forall i big k l,
  nth_error ll k = Some l -> big = i + N.of_nat k ->
  Gf i ll big [] + lsize l = sum_lsize ll.
Proof.
  induction ll as [|l0 r IH]; intros i big k l Hk Hb; [destruct k; discriminate|].
  cbn [Gf sum_lsize mem existsb].
  destruct k as [|k].
  - injection Hk as <-. replace (i =? big) with true by lia.
    assert (E : forall r' j, big < j -> Gf j r' big [] = sum_lsize r').
    { clear. induction r' as [|l r' IH]; intros j Hj; cbn [Gf sum_lsize mem existsb]; [reflexivity|].
      replace (j =? big) with false by lia. rewrite IH by lia. reflexivity. }
    rewrite E by lia. lia.
  - cbn [nth_error] in Hk. replace (i =? big) with false by lia.
    specialize (IH (i + 1) big k l Hk ltac:(lia)). lia.
Qed.

Lemma Gf_out ll : forall i big repl t,
  t < i -> Gf i ll big (t :: repl) = Gf i ll big repl.
Proof.
  induction ll as [|l r IH]; intros i big repl t Ht; cbn [Gf]; [reflexivity|].
  rewrite mem_cons. replace (i =? t) with false by lia. cbn [orb].
  rewrite IH by lia. reflexivity.
Qed.

(* replacing one more lookup *)
Lemma Gf_add ll : forall i big repl k l t,
  nth_error ll k = Some l -> t = i + N.of_nat k -> t <> big -> mem t repl = false ->
  nsize l < lsize l ->
  Gf i ll big (t :: repl) + (lsize l - nsize l) = Gf i ll big repl.
Proof.
  induction ll as [|l0 r IH]; intros i big repl k l t Hk Ht Hb Hm Hlt; [destruct k; discriminate|].
  cbn [Gf]. rewrite mem_cons.
  destruct k as [|k].
  - injection Hk as <-. replace (i =? t) with true by lia. cbn [orb].
    replace (i =? big) with false by lia.
    replace (mem i repl) with false by (rewrite <- Hm; f_equal; lia).
    rewrite Gf_out by lia. lia.
  - cbn [nth_error] in Hk. replace (i =? t) with false by lia. cbn [orb].
    specialize (IH (i + 1) big repl k l t Hk ltac:(lia) Hb Hm Hlt). lia.
Qed.

(* the replacement loop keeps lastPos = header + Gf *)
Lemma replace_loop_inv cands : forall ll big H lastPos repl lastPos' repl',
  replace_loop cands ll lastPos repl = (lastPos', repl') ->
  NoDup (map fst cands) ->
  (forall t old, In (t, old) cands ->
     t <> big /\ mem t repl = false /\
     exists l, nth_error ll (N.to_nat t) = Some l /\ old = lsize l) ->
  lastPos = H + Gf 0 ll big repl ->
  lastPos' = H + Gf 0 ll big repl' /\
  (forall t, mem t repl' = true -> mem t repl = true \/ In t (map fst cands)).
Proof.
  induction cands as [|[t old] r IH]; intros ll big H lastPos repl lastPos' repl' Hl Hnd Hc Hinv;
    cbn [replace_loop] in Hl.
  - injection Hl as <- <-. split; [exact Hinv|]. auto.
  - destruct (65535 <? lastPos); [|injection Hl as <- <-; split; [exact Hinv|auto]].
    destruct (Hc t old (or_introl eq_refl)) as (Hb & Hm & l & Hn & Hold).
    rewrite Hn, Hold in Hl.
    cbn [map fst] in Hnd. apply NoDup_cons_iff in Hnd. destruct Hnd as [Hnot Hnd'].
    destruct (hdr_len l + 8 * nsubs l <? lsize l) eqn:Hlt.
    + apply IH with (big := big) (H := H) in Hl; [| exact Hnd' | |].
      * destruct Hl as [E1 E2]. split; [exact E1|].
        intros t' Ht'. apply E2 in Ht'. destruct Ht' as [Ht'|Ht'].
        -- rewrite mem_cons in Ht'. apply orb_true_iff in Ht'. destruct Ht' as [Ht'|Ht'].
           ++ right. left. cbn [fst]. lia.
           ++ left. exact Ht'.
        -- right. right. exact Ht'.
      * intros t' old' Hin. destruct (Hc t' old' (or_intror Hin)) as (A & B & C).
        repeat split; try assumption. rewrite mem_cons.
        assert (t' <> t). { intros ->. apply Hnot. apply in_map_iff. exists (t, old'). split; [reflexivity|exact Hin]. }
        replace (t' =? t) with false by lia. exact B.
      * pose proof (Gf_add ll 0 big repl (N.to_nat t) l t Hn ltac:(lia) Hb Hm) as HG.
        unfold nsize in HG. specialize (HG ltac:(lia)). lia.
    + apply IH with (big := big) (H := H) in Hl; [| exact Hnd' | | exact Hinv].
      * destruct Hl as [E1 E2]. split; [exact E1|].
        intros t' Ht'. apply E2 in Ht'. destruct Ht' as [Ht'|Ht']; [left; exact Ht'|right; right; exact Ht'].
      * intros t' old' Hin. apply (Hc t' old' (or_intror Hin)).
Qed.

(* ------------------------------------------------------------------ *)
(* shape of the parts                                                  *)

Lemma parts_M ll : forall i big repl,
  snd (fst (parts i ll big repl)) =
  match nth_error ll (N.to_nat (big - i)) with
  | Some l => if (i <=? big) then table_chunk big l :: sub_chunks big 0 (lk_subs l) else []
  | None => []
  end.
Proof.
  induction ll as [|l r IH]; intros i big repl; cbn [parts].
  - destruct (N.to_nat (big - i)); reflexivity.
  - specialize (IH (i + 1) big repl).
    destruct (parts (i + 1) r big repl) as [[R M] E]. cbn [fst snd] in IH.
    destruct (i =? big) eqn:Eb; cbn [fst snd].
    + apply N.eqb_eq in Eb. subst big.
      replace (N.to_nat (i - i)) with 0%nat by lia. cbn [nth_error].
      replace (i <=? i) with true by lia.
      rewrite IH. replace (i + 1 <=? i) with false by lia.
      destruct (nth_error r (N.to_nat (i - (i + 1)))); now rewrite app_nil_r.
    + destruct (i <=? big) eqn:Ele.
      * replace (N.to_nat (big - i)) with (S (N.to_nat (big - (i + 1)))) by lia.
        cbn [nth_error]. replace (i + 1 <=? big) with true in IH by lia.
        destruct (mem i repl); cbn [fst snd]; exact IH.
      * replace (i + 1 <=? big) with false in IH by lia.
        assert (IH' : M = []) by (destruct (nth_error r (N.to_nat (big - (i + 1)))); exact IH).
        replace (N.to_nat (big - i)) with 0%nat by lia. cbn [nth_error].
        destruct (mem i repl); cbn [fst snd]; exact IH'.
Qed.

Lemma parts_E_kind ll : forall i big repl c,
  In c (snd (parts i ll big repl)) -> c_kind c = KSub.
Proof.
  induction ll as [|l r IH]; intros i big repl c; cbn [parts]; [intros []|].
  specialize (IH (i + 1) big repl c).
  destruct (parts (i + 1) r big repl) as [[R M] E]. cbn [snd] in IH.
  destruct (i =? big); cbn [snd]; [exact IH|].
  destruct (mem i repl); cbn [snd]; [|exact IH].
  intros H. apply in_app_or in H. destruct H as [H|H]; [|auto].
  apply sub_chunks_t in H. tauto.
Qed.

(* ------------------------------------------------------------------ *)
(* what M_ll_layout returns                                            *)

Definition hsize (ll : list lookup) : N := 2 + 2 * N.of_nat (length ll).

Inductive layout_shape (ll : list lookup) (L : list chunk) : Prop :=
| shape_plain :
    L = header_chunk (N.of_nat (length ll)) :: lookup_chunks 0 ll ->
    too_large L 0 = false -> layout_shape ll L
| shape_reordered big repl R M E :
    parts 0 ll big repl = (R, M, E) ->
    L = (header_chunk (N.of_nat (length ll)) :: R) ++ M ++ E ->
    hsize ll + sum_sizes R <= 65535 ->
    big < N.of_nat (length ll) ->
    (forall t, mem t repl = true -> t <> big /\ t < N.of_nat (length ll)) ->
    layout_shape ll L.

Lemma In_sizes_iota (f : N -> N) n i t old :
  In (t, old) (map (fun t => (t, f t)) (iota n i)) -> i <= t < i + N.of_nat n /\ old = f t.
Proof.
  intros H. apply in_map_iff in H. destruct H as (x & [= <- <-] & Hx).
  apply iota_In in Hx. split; [exact Hx|reflexivity].
Qed.

Lemma map_fst_sizes (f : N -> N) l : map fst (map (fun t => (t, f t)) l) = l.
Proof. induction l as [|x l IH]; cbn [map fst]; [reflexivity|]. now rewrite IH. Qed.

Lemma nth_error_some_lt {A} (l : list A) k : (k < length l)%nat -> exists x, nth_error l k = Some x.
Proof.
  intros H. destruct (nth_error l k) eqn:E; [eauto|].
  apply nth_error_None in E. lia.
Qed.

Lemma try_reorder_shape ll L :
  try_reorder ll (header_chunk (N.of_nat (length ll)) :: lookup_chunks 0 ll) = Ok L ->
  layout_shape ll L.
Proof.
  unfold try_reorder. set (n := N.of_nat (length ll)).
  set (cs := header_chunk n :: lookup_chunks 0 ll).
  assert (Htc : table_codes cs = iota (length ll) 0).
  { unfold cs. cbn [table_codes header_chunk is_table c_kind ckind_eqb]. apply table_codes_chunks. }
  rewrite Htc.
  set (sizes := map (fun t => (t, lookup_size cs t)) (iota (length ll) 0)).
  pose proof (Permutation_trans (stable_sort_perm sizes) (Permutation_rev (stable_sort sizes))) as Hp.
  destruct (rev (stable_sort sizes)) as [|[big bigSize] cands]; [discriminate|].
  (* facts about the entries of sizes *)
  assert (Hsz : forall t old, In (t, old) sizes ->
            t < n /\ exists l, nth_error ll (N.to_nat t) = Some l /\ old = lsize l).
  { intros t old Hin. apply In_sizes_iota in Hin. destruct Hin as [Ht ->].
    split; [unfold n; lia|].
    destruct (nth_error_some_lt ll (N.to_nat t) ltac:(lia)) as [l Hl].
    exists l. split; [exact Hl|].
    unfold cs. cbn [lookup_size header_chunk is_header c_kind ckind_eqb negb andb].
    rewrite N.add_0_l.
    pose proof (lookup_size_chunks ll 0 (N.to_nat t) l Hl) as E.
    replace (0 + N.of_nat (N.to_nat t)) with t in E by lia. exact E. }
  assert (Hnd : NoDup (map fst ((big, bigSize) :: cands))).
  { eapply Permutation_NoDup; [apply Permutation_map; exact Hp|].
    unfold sizes. rewrite map_fst_sizes. apply iota_NoDup. }
  cbn [map fst] in Hnd. apply NoDup_cons_iff in Hnd. destruct Hnd as [Hbig_notin Hnd].
  assert (Hbig : In (big, bigSize) sizes) by (eapply Permutation_in; [apply Permutation_sym; exact Hp|left; reflexivity]).
  destruct (Hsz _ _ Hbig) as (Hbn & lb & Hlb & Hbs).
  assert (Hcands : forall t old, In (t, old) cands ->
            t <> big /\ mem t [] = false /\
            exists l, nth_error ll (N.to_nat t) = Some l /\ old = lsize l).
  { intros t old Hin.
    assert (Hin' : In (t, old) sizes) by (eapply Permutation_in; [apply Permutation_sym; exact Hp|right; exact Hin]).
    destruct (Hsz _ _ Hin') as (_ & l & Hl & Ho).
    split; [|split; [reflexivity|eauto]].
    intros ->. apply Hbig_notin. apply in_map_iff. exists (big, old). split; [reflexivity|exact Hin]. }
  assert (Htotal : sum_sizes cs = hsize ll + sum_lsize ll).
  { unfold cs. cbn [sum_sizes header_chunk c_size]. rewrite lookup_chunks_sum. unfold hsize, n. lia. }
  destruct (replace_loop cands ll (sum_sizes cs - bigSize) []) as [lastPos repl] eqn:Hloop.
  pose proof (Gf_nil ll 0 big (N.to_nat big) lb Hlb ltac:(lia)) as HG0.
  destruct (replace_loop_inv cands ll big (hsize ll) _ _ _ _ Hloop Hnd Hcands ltac:(lia)) as [Hlast Hrepl].
  destruct (65535 <? lastPos) eqn:Hfit; [discriminate|].
  unfold cs at 1. cbn [rebuild header_chunk is_header c_kind ckind_eqb].
  rewrite rebuild_chunks.
  destruct (parts 0 ll big repl) as [[R M] E] eqn:Hparts.
  intros HL. apply ok_inj in HL.
  pose proof (parts_sum_R ll 0 big repl) as HsumR. rewrite Hparts in HsumR. cbn [fst] in HsumR.
  eapply shape_reordered with (big := big) (repl := repl); [exact Hparts| | | exact Hbn |].
  - rewrite <- HL. reflexivity.
  - lia.
  - intros t Ht. apply Hrepl in Ht. destruct Ht as [Ht|Ht]; [discriminate|].
    apply in_map_iff in Ht. destruct Ht as ([t' old] & Ht1 & Ht2). cbn [fst] in Ht1. subst t'.
    destruct (Hcands _ _ Ht2) as (A & _).
    assert (Hin' : In (t, old) sizes) by (eapply Permutation_in; [apply Permutation_sym; exact Hp|right; exact Ht2]).
    destruct (Hsz _ _ Hin') as (B & _). split; assumption.
Qed.

Lemma layout_shape_of ll L : M_ll_layout ll = Ok L -> layout_shape ll L.
Proof.
  unfold M_ll_layout.
  destruct (c08_maxLookups <=? _); [discriminate|].
  destruct (c08_maxObjectsWrite <? _); [discriminate|].
  destruct (existsb _ ll); [discriminate|].
  destruct (4294967296 <=? _); [discriminate|].
  destruct (too_large _ 0) eqn:Htl.
  - apply try_reorder_shape.
  - intros H. apply ok_inj in H. subst L. apply shape_plain; [reflexivity|exact Htl].
Qed.

(* ------------------------------------------------------------------ *)
(* every lookup offset fits 16 bits                                    *)

Lemma too_large_false cs : forall p t s q,
  too_large cs p = false -> find_pos KTable t s cs p = Some q -> q <= 65535.
Proof.
  induction cs as [|c r IH]; intros p t s q; cbn [too_large find_pos]; [discriminate|].
  destruct (is_table c && (65535 <? p)) eqn:E; [discriminate|].
  destruct (code_eqb KTable t s c) eqn:Ec.
  - intros _ [= <-]. apply code_eqb_true in Ec. destruct Ec as (Ek & _).
    unfold is_table in E. rewrite Ek in E. cbn [ckind_eqb andb] in E. lia.
  - apply IH.
Qed.

Lemma some_inj {A} (a b : A) : Some a = Some b -> a = b.
Proof. intros H. injection H. auto. Qed.

Lemma sum_header n R : sum_sizes (header_chunk n :: R) = 2 + 2 * n + sum_sizes R.
Proof. reflexivity. Qed.

Lemma tables_fit ll L t q :
  layout_shape ll L -> find_pos KTable t 0 L 0 = Some q -> q <= 65535.
Proof.
  intros [-> Htl | big repl R M E Hparts -> Hsum Hbig Hrepl] Hf.
  - eapply too_large_false; eassumption.
  - rewrite find_pos_app in Hf.
    destruct (find_pos KTable t 0 (header_chunk _ :: R) 0) as [x|] eqn:E1.
    + apply some_inj in Hf. subst q. apply find_pos_range in E1.
      rewrite sum_header in E1. unfold hsize in Hsum. lia.
    + pose proof (parts_M ll 0 big repl) as HM. rewrite Hparts in HM. cbn [fst snd] in HM.
      rewrite find_pos_app in Hf.
      assert (HE : find_pos KTable t 0 E (0 + sum_sizes (header_chunk (N.of_nat (length ll)) :: R) + sum_sizes M) = None).
      { apply find_pos_none. intros c Hc. apply code_eqb_kind.
        pose proof (parts_E_kind ll 0 big repl c) as HK. rewrite Hparts in HK. cbn [snd] in HK.
        rewrite (HK Hc). discriminate. }
      rewrite HE in Hf.
      destruct (find_pos KTable t 0 M _) as [x|] eqn:E2; [|discriminate].
      apply some_inj in Hf. subst q.
      replace (big - 0) with big in HM by lia. cbn [N.leb] in HM.
      destruct (nth_error ll (N.to_nat big)) as [l|]; [|subst M; discriminate].
      replace (0 <=? big) with true in HM by lia. subst M.
      cbn [find_pos] in E2.
      destruct (code_eqb KTable t 0 (table_chunk big l)).
      * apply some_inj in E2. subst x. rewrite sum_header. unfold hsize in Hsum. lia.
      * rewrite find_pos_none in E2; [discriminate|].
        intros c Hc. apply sub_chunks_t in Hc. apply code_eqb_kind. destruct Hc as (_ & -> & _). discriminate.
Qed.
