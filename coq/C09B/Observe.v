(* C09B/Observe.v — executable comparisons used by the extracted driver only. *)
From Coq Require Import List NArith ZArith Bool.
From Common Require Import Bytes Outcome.
From C09 Require Import Model Model4 ModelT.
From C09B Require Import Model.
Import ListNotations.
Local Open Scope N_scope.

Fixpoint table_eqb (a b : table) : bool :=
  match a, b with
  | [], [] => true
  | (k1, d1) :: a', (k2, d2) :: b' => key_eqb k1 k2 && bytes_eqb d1 d2 && table_eqb a' b'
  | _, _ => false
  end.

(* a table given as a list of entries in any order (later entries overwrite) *)
Definition table_of_entries (l : list (key * list N)) : table :=
  fold_left (fun t kd => tput (fst kd) (snd kd) t) l [].
