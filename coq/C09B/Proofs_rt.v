(* C09B/Proofs_rt.v — Decode(Encode(s)).Lookup = s.Lookup on all integers:
   C09's byte-level round trips composed with the Lookup theorems. *)
From Coq Require Import String List NArith ZArith Lia Bool.
From Common Require Import Bytes Outcome.
From Gen Require Import C09 C09B.
From C09 Require Import Model Model4 ModelT Util Proofs_4edges Proofs_12 Proofs_06 Props.
From C09B Require Import Model Proofs_lookup Proofs_get.
Import ListNotations.
Local Open Scope N_scope.

Lemma lookup_value_bound m b c :
  0 < b -> Forall (fun p => snd p < b) m -> lookup m c < b.
Proof.
  intros Hb H. induction m as [|[k v] r IH]; cbn [lookup]; [assumption|].
  inversion H; subst. destruct (k =? c); [assumption|auto].
Qed.

Lemma forall_snd m a b :
  Forall (fun p : N * N => fst p < a /\ snd p < b) m -> Forall (fun p => snd p < b) m.
Proof. intros H. eapply Forall_impl; [|exact H]. cbv beta. tauto. Qed.

Section RT.
Variable pick : (N -> N) -> list seg4.

(* the written subtable is read back (under any non-Macintosh key) as a value
   with the same Lookup *)
Lemma encode_get_roundtrip s lang p e l :
  wf_sub s -> encodable pick s -> lang < 65536 -> p <> 1 ->
  exists b s',
    M_encode pick s lang = Ok b /\
    M_get_sub_v (p, e, l) b = Ok s' /\
    (forall r, M_lookup s' r = M_lookup s r) /\
    match s with
    | F0 _ => s' = s
    | F12 _ => s' = s
    | F4 _ => exists m', s' = F4 m' /\ sorted_keys m' = true
    end.
Proof.
  intros Hwf Henc Hl Hp. destruct s as [d|m|m]; cbn [wf_sub encodable M_encode] in *.
  - destruct Hwf as [Hlen _].
    exists (M_encode0 d lang), (F0 d). split; [reflexivity|]. split; [|split; [reflexivity|reflexivity]].
    rewrite (get_sub_v_unicode p e l _ 0 Hp) by reflexivity.
    unfold S_dispatch. cbn [N.eqb]. rewrite decode0_encode0 by lia. reflexivity.
  - destruct Hwf as [Hs Hb]. destruct Henc as [Hpath Hsize].
    set (f := lookup m) in *. set (segs := pick f) in *.
    assert (Hf : forall c, f c < 65536).
    { intros c. apply lookup_value_bound; [lia|]. eapply forall_snd; exact Hb. }
    assert (Hp' : path f 0 segs) by (apply path_ok_sound; exact Hpath).
    destruct (format4_roundtrip f Hf segs lang Hl Hp' Hsize) as (b & m' & H1 & H2 & H3 & H4).
    destruct (format4_any_path_correct f Hf segs lang Hl Hp' Hsize) as (b' & G1 & _ & _ & _ & G5 & _).
    rewrite H1 in G1. apply Ok_inj in G1. subst b'.
    exists b, (F4 m'). split; [exact H1|]. split; [|split].
    + rewrite (get_sub_v_unicode p e l _ 4 Hp) by (now apply word_at_get16).
      unfold S_dispatch. cbn [N.eqb Pos.eqb]. unfold unicode.
      change (fun c : N => c) with (fun c : N => c) in H2. rewrite H2. reflexivity.
    + intros r. rewrite !lookup4_spec. f_equal. unfold S_lookup.
      destruct ((0 <=? r) && (r <=? 65535))%Z eqn:E; [|reflexivity].
      apply H4. clear - E. lia.
    + exists m'. auto.
  - destruct Hwf as [Hs Hb]. destruct Henc as [Hk Hn].
    exists (M_encode12 m lang), (F12 m). split; [reflexivity|]. split; [|split; [reflexivity|reflexivity]].
    rewrite (get_sub_v_unicode p e l _ 12 Hp) by reflexivity.
    unfold S_dispatch. cbn [N.eqb Pos.eqb].
    rewrite format12_roundtrip; [reflexivity|assumption| |assumption].
    apply Forall_forall. intros x Hx.
    pose proof (proj1 (Forall_forall _ _) Hb x Hx). pose proof (proj1 (Forall_forall _ _) Hk x Hx).
    cbv beta in *. lia.
Qed.

End RT.
