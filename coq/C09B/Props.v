(* C09B/Props.v — the theorems of part C09B (the value level of the cmap
   package).  Statements only; proofs are in Proofs_*.v.  The method bodies
   (Lookup, CodeRange), the decoder table and the shape of InstallCMap come from
   Gen/C09B.v, regenerated from /repo on every run. *)
From Coq Require Import String List NArith ZArith Lia Bool Permutation Sorted.
From Common Require Import Bytes Outcome.
From Gen Require Import C09 C09B.
From C09 Require Import Model Model4 ModelT.
From C09B Require Import Model Proofs_lookup Proofs_range Proofs_get Proofs_rt Proofs_install
  Proofs_enum Proofs_mac Proofs_wit.
Import ListNotations.
Local Open Scope N_scope.

(* ================================================================== *)
(* (1) Lookup is the total function the property names                 *)

(* For every subtable value and EVERY rune (int32: negative, BMP,
   supplementary, beyond U+10FFFF) Lookup returns S_lookup: the glyph of the
   code point if it is a code of the subtable's code space (0..255, 0..0xFFFF,
   uint32 - a negative rune denoting the code with the same 32 bits), glyph 0
   otherwise.  The one exception of today's code is the hypothesis: a *Format0
   must not be asked for a negative rune (lookup0_negative_rune_refuted). *)
Theorem lookup_total_function :
  forall (s : sub) (r : Z),
    is_rune r -> (forall d, s = F0 d -> (0 <= r)%Z) ->
    M_lookup s r = Ok (S_lookup s r).
Proof. exact lookup_total. Qed.
Print Assumptions lookup_total_function.

(* the same in the words of the property: a mapped code gives its glyph ... *)
Theorem lookup_mapped_glyph :
  forall (s : sub) (c g : N),
    wf_sub s -> mapped s c g -> M_lookup s (rune_of_code s c) = Ok g.
Proof. exact lookup_mapped. Qed.
Print Assumptions lookup_mapped_glyph.

(* ... a non-zero answer is the glyph of the mapped code the rune denotes -
   never the glyph of another code (distinct codes are denoted by distinct
   runes: rune_of_code_injective) ... *)
Theorem lookup_never_another_code :
  forall (s : sub) (r : Z) (g : N),
    is_rune r -> M_lookup s r = Ok g -> g <> 0 ->
    exists c, mapped s c g /\ rune_of_code s c = r.
Proof. exact lookup_nonzero_mapped. Qed.
Print Assumptions lookup_never_another_code.

Theorem rune_of_code_injective :
  forall (s : sub) (c1 c2 : N),
    c1 < 4294967296 -> c2 < 4294967296 -> rune_of_code s c1 = rune_of_code s c2 -> c1 = c2.
Proof. exact rune_of_code_inj. Qed.
Print Assumptions rune_of_code_injective.

(* ... and everything else is glyph 0 *)
Theorem lookup_unmapped_is_notdef :
  forall (s : sub) (r : Z),
    is_rune r -> (forall d, s = F0 d -> (0 <= r)%Z) ->
    (forall c g, mapped s c g -> g <> 0 -> rune_of_code s c <> r) ->
    M_lookup s r = Ok 0.
Proof. exact lookup_unmapped. Qed.
Print Assumptions lookup_unmapped_is_notdef.

(* where the code panics today: Format0.Lookup indexes Data[r] after testing
   only r > 255.  Unreachable from the library's own callers (Layout ranges over
   a string, names.go / explain.go start at CodeRange's low = 0), reachable by a
   direct call.  Replayed on the Go code by the correspondence run. *)
Theorem lookup0_negative_rune_refuted :
  forall (d : list N) (r : Z), (r < 0)%Z -> M_lookup (F0 d) r = Panic.
Proof. exact lookup0_negative. Qed.
Print Assumptions lookup0_negative_rune_refuted.

Theorem lookup_total_on_code_points :
  forall (s : sub) (r : Z), (0 <= r)%Z -> is_rune r -> M_lookup s r <> Panic.
Proof. exact lookup_no_panic_nonneg. Qed.
Print Assumptions lookup_total_on_code_points.

(* ================================================================== *)
(* (2) CodeRange                                                       *)

(* low <= c <= high for every mapped code c (as the rune that denotes it);
   tight for the map types: low and high ARE mapped codes; the empty map gives
   (0, 0); *Format0 gives its code space (0, 255) whatever is mapped
   (coderange0_not_tight_refuted); both ends are runes. *)
Theorem coderange_covers :
  forall (s : sub) (lo hi : Z),
    wf_sub s -> M_coderange s = (lo, hi) ->
    (forall c g, mapped s c g -> (lo <= rune_of_code s c <= hi)%Z) /\
    (lo <= hi)%Z /\ is_rune lo /\ is_rune hi /\
    match s with
    | F0 _ => lo = 0%Z /\ hi = 255%Z
    | F4 m | F12 m =>
        (m = [] -> lo = 0%Z /\ hi = 0%Z) /\
        (m <> [] -> (exists c g, In (c, g) m /\ rune_of_code s c = lo) /\
                    (exists c g, In (c, g) m /\ rune_of_code s c = hi))
    end.
Proof. exact coderange_covers_lemma. Qed.
Print Assumptions coderange_covers.

(* Go ranges over the map in an unspecified order: the result is the same for
   every order. *)
Theorem coderange_any_iteration_order :
  forall (s : sub) (ks : list Z),
    wf_sub s -> Permutation ks (sub_keys s) -> M_coderange_order s ks = M_coderange s.
Proof. exact coderange_order_irrelevant. Qed.
Print Assumptions coderange_any_iteration_order.

Theorem coderange0_not_tight_refuted :
  exists d, wf_sub (F0 d) /\ M_coderange (F0 d) = (0%Z, 255%Z) /\ forall c g, mapped (F0 d) c g -> g = 0.
Proof. exact coderange0_not_tight. Qed.
Print Assumptions coderange0_not_tight_refuted.

(* ================================================================== *)
(* (3) the loop  for r := low; r <= high; r++ { Lookup(r) }             *)

(* The loop of names.go / explain.go (as repaired: an int64 loop variable,
   regenerated width names_loop_width) ends for EVERY value (fuel high-low+2
   suffices, more changes nothing), never panics, and what it sees with a
   non-zero glyph is EXACTLY the set of non-zero entries of the mapping, each
   once, by ascending rune. *)
Theorem enumerate_by_range :
  forall (s : sub) (lo hi : Z),
    wf_sub s -> M_coderange s = (lo, hi) ->
    (forall fuel, (Z.to_nat (hi - lo + 2) <= fuel)%nat ->
       M_enumerate fuel s = Ok (S_enumerate s lo hi)) /\
    (forall r g, In (r, g) (S_enumerate s lo hi) <->
                 is_rune r /\ g <> 0 /\ S_lookup s r = g) /\
    StronglySorted (fun a b : Z * N => (fst a < fst b)%Z) (S_enumerate s lo hi).
Proof. exact enumerate_lemma. Qed.
Print Assumptions enumerate_by_range.

Theorem enumerate_is_the_map :
  forall (s : sub) (lo hi : Z),
    wf_sub s -> M_coderange s = (lo, hi) ->
    forall r g, In (r, g) (S_enumerate s lo hi) <->
                g <> 0 /\ exists c, mapped s c g /\ rune_of_code s c = r.
Proof. exact Proofs_enum.enumerate_is_the_map. Qed.
Print Assumptions enumerate_is_the_map.

Theorem range_loops_are_wide : names_loop_width = 64 /\ explain_loop_width = 64.
Proof. exact loop_consts. Qed.
Print Assumptions range_loops_are_wide.

(* the code as found (the loop variable was the rune, r++ wraps): a Format12
   holding code 0x7FFFFFFF (a subtable a font file can carry: decodeFormat12
   only refuses 0xFFFFFFFF) has high = MaxInt32, r wraps to MinInt32 and
   r <= high stays true for ever - MakeGlyphNames never returned.  Genuine
   defect, repaired in /repo (findings/C09.json c09-coderange-loop-maxint32). *)
Theorem enumerate_as_found_maxint_refuted :
  wf_sub maxint_sub /\ M_coderange maxint_sub = (2147483647%Z, 2147483647%Z) /\
  forall fuel, M_enumerate_found fuel maxint_sub = OutOfFuel.
Proof. exact enumerate_maxint_never_ends. Qed.
Print Assumptions enumerate_as_found_maxint_refuted.

(* ================================================================== *)
(* (4) Decode(Encode(s)).Lookup = s.Lookup                             *)

(* For every value that C09's round trips cover (a *Format0; a Format4 whose
   shortest-path answer [pick] is a path of the segment graph that fits 65535
   bytes - C09 proves the rest for EVERY such path; a Format12 with at most
   65536 keys below 0xFFFFFFFF), every language and every non-Macintosh key:
   Encode does not panic, Table.Get decodes the bytes with the decoder of their
   format word, and the decoded value looks up every integer exactly like s. *)
Theorem lookup_after_roundtrip :
  forall (pick : (N -> N) -> list seg4) (s : sub) (lang p e l : N),
    wf_sub s -> encodable pick s -> lang < 65536 -> p <> 1 ->
    exists b s',
      M_encode pick s lang = Ok b /\
      M_get_sub_v (p, e, l) b = Ok s' /\
      (forall r, M_lookup s' r = M_lookup s r) /\
      match s with
      | F0 _ => s' = s
      | F12 _ => s' = s
      | F4 _ => exists m', s' = F4 m' /\ sorted_keys m' = true
      end.
Proof. intros pick s lang p e l. exact (encode_get_roundtrip pick s lang p e l). Qed.
Print Assumptions lookup_after_roundtrip.

(* ================================================================== *)
(* (5) InstallCMap replaces the table                                  *)

(* On ANY heap and ANY font value (R = everything else the Font holds): the new
   table has exactly the keys C09's installcmap_ids names for CodeRange's high,
   both holding Encode(s, 0); no other key answers (nothing of the previous
   table survives); the rest of the font is untouched; EVERY font value that
   existed before the call - in particular a copy `g := *f` sharing the old map
   - still sees the table it saw (the code allocates a fresh map); GetBest
   selects the new subtable (candidate 0 = (3,10) or 2 = (3,1)) and it looks up
   every integer like s. *)
Theorem installcmap_replaces :
  forall (pick : (N -> N) -> list seg4) (R : Type) (h : heap) (f : font R) (s : sub),
    wf_sub s -> encodable pick s ->
    let high := snd (M_coderange s) in
    let keys := M_installcmap_keys high in
    exists b h' f' i s',
      M_encode pick s 0 = Ok b /\
      M_installcmap pick h f s = Ok (h', f') /\
      view h' f' = map (fun k => (k, b)) keys /\
      (forall k, ~ In k keys -> tget k (view h' f') = None) /\
      f_rest f' = f_rest f /\
      (forall g : font R, live h g -> view h' g = view h g) /\
      M_getbest_v (view h' f') = Ok (i, s') /\
      i = (if (65535 <? high)%Z then 0 else 2) /\
      (forall r, M_lookup s' r = M_lookup s r) /\
      match s with
      | F0 _ => s' = s
      | F12 _ => s' = s
      | F4 _ => exists m', s' = F4 m' /\ sorted_keys m' = true
      end.
Proof. intros pick R h f s. exact (installcmap_replaces_lemma pick h f s). Qed.
Print Assumptions installcmap_replaces.

(* the variant that stores into the existing map (seed C09-j): a copy of the
   font taken before the call sees another table afterwards, a key of the
   previous table survives, and GetBest still answers with the OLD mapping *)
Theorem installcmap_inplace_refuted :
  exists (h : heap) (f : font unit) (s : sub) (h' : heap) (f' : font unit),
    wf_sub s /\ live h f /\
    M_installcmap_inplace (fun _ => []) h f s = Ok (h', f') /\
    view h' f <> view h f /\
    tget (3, 10, 0) (view h' f') <> None /\
    exists i s', M_getbest_v (view h' f') = Ok (i, s') /\ M_lookup s' 65 <> M_lookup s 65.
Proof. exact installcmap_inplace_witness. Qed.
Print Assumptions installcmap_inplace_refuted.

(* ================================================================== *)
(* (6) Table.Get dispatches on the format word                         *)

(* against the REGENERATED decoder table of subtable.go: format 0 / 4 / 6 / 12
   -> decodeFormat0 / 4 / 6 / 12 (with mac.DecodeOne as code2rune under a
   Macintosh key; decodeFormat0 then returns the translated Format4), formats 2, 8, 10, 13, 14 -> error (notImplemented), any other
   format word -> no entry (nil func: panic; unreachable after cmap.Decode by
   C09's decode_table_total); an unsupported Macintosh encoding -> error. *)
Theorem get_dispatch :
  forall (p e l : N) (data : list N),
    M_get_sub_v (p, e, l) data =
    if (p =? 1) && negb (e =? 0) then Err
    else fmt <- get16 data 0 ;; S_dispatch fmt (p =? 1) data.
Proof. exact get_sub_v_dispatch. Qed.
Print Assumptions get_dispatch.

Theorem decoders_all_known :
  forallb (fun p => match decoder_of_name (snd p) with Some _ => true | None => false end)
          cmap_decoders = true.
Proof. exact decoders_known. Qed.
Print Assumptions decoders_all_known.

(* the value-level Get / GetBest refine C09's M_get / M_getbest (whose theorems
   get_total, getbest_preference therefore speak about them), with C14's Mac
   Roman decoder as code2rune *)
Theorem get_agrees_with_C09 :
  forall (t : table) (k : key), omap forget (M_get_v t k) = M_get mac_rune t k.
Proof. exact get_v_agrees. Qed.
Print Assumptions get_agrees_with_C09.

Theorem getbest_agrees_with_C09 :
  forall (t : table), omap forget_best (M_getbest_v t) = M_getbest mac_rune t.
Proof. exact getbest_v_agrees. Qed.
Print Assumptions getbest_agrees_with_C09.

(* Macintosh keys: under key (1,0) a byte table (format 0) is handed out
   translated (decodeFormat0 as repaired: a Format4 keyed by mac.DecodeOne(c)):
   for every Mac Roman code c the glyph the subtable defines for c is found at
   the character of c. *)
Theorem get_mac_format0_translated :
  forall (data : list N) (s : sub),
    get16 data 0 = Ok 0 -> M_get_sub_v (1, 0, 0) data = Ok s ->
    exists m, s = F4 m /\ sorted_keys m = true /\
      forall c, c < 256 -> M_lookup s (Z.of_N (mac_rune c)) = Ok (S_lookup0 data c).
Proof. exact get_mac_format0_lemma. Qed.
Print Assumptions get_mac_format0_translated.

(* as found decodeFormat0 ignored code2rune and Table.Get handed out the
   *Format0 of the raw bytes, indexed by the rune as if runes were Mac Roman
   codes.  Witness: the glyph of Mac code 0x80 (A dieresis, U+00C4) was not
   found at U+00C4 (genuine defect, repaired in /repo:
   c09-format0-mac-codes-not-translated). *)
Theorem get_mac_format0_as_found_refuted :
  exists (data d : list N) (c : N) (s : sub),
    c < 256 /\ S_lookup0 data c = 5 /\
    M_decode0 data = Ok d /\ M_lookup (F0 d) (Z.of_N (mac_rune c)) = Ok 0 /\
    M_get_sub_v (1, 0, 0) data = Ok s /\ M_lookup s (Z.of_N (mac_rune c)) = Ok 5.
Proof. exact mac_format0_as_found_witness. Qed.
Print Assumptions get_mac_format0_as_found_refuted.
