(* C09B/Proofs_lookup.v — Lookup is the total function the property names. *)
From Coq Require Import String List NArith ZArith Lia Bool.
From Common Require Import Bytes Outcome.
From Gen Require Import C09 C09B.
From C09 Require Import Model Model4 ModelT Util.
From C09B Require Import Model.
Import ListNotations.
Local Open Scope N_scope.

Lemma to_rune_id r : is_rune r -> to_rune r = r.
Proof.
  unfold is_rune, to_rune. intros H.
  rewrite Z.mod_small by lia. lia.
Qed.

Lemma to_rune_is_rune z : is_rune (to_rune z).
Proof.
  unfold is_rune, to_rune.
  pose proof (Z.mod_pos_bound (z + 2147483648) 4294967296 ltac:(lia)). lia.
Qed.

Lemma to_rune_high c : (2147483648 <= c < 4294967296)%Z -> to_rune c = (c - 4294967296)%Z.
Proof.
  intros H. unfold to_rune.
  replace (c + 2147483648)%Z with ((c - 2147483648) + 1 * 4294967296)%Z by lia.
  rewrite Z.mod_add by lia. rewrite Z.mod_small by lia. lia.
Qed.

(* ---------- lookup in a sorted association list ---------- *)

Lemma lookup_sorted_from_In lo m c g :
  sorted_from lo m = true -> In (c, g) m -> lookup m c = g /\ lo < c.
Proof.
  revert lo. induction m as [|[k v] r IH]; intros lo Hs Hin; [destruct Hin|].
  cbn [sorted_from] in Hs. apply andb_true_iff in Hs. destruct Hs as [H1 H2].
  apply N.ltb_lt in H1. cbn [lookup]. destruct Hin as [E|Hin].
  - inversion E; subst. rewrite N.eqb_refl. split; [reflexivity|assumption].
  - destruct (IH k H2 Hin) as [H3 H4].
    destruct (k =? c) eqn:E; [apply N.eqb_eq in E; lia|]. split; [assumption|lia].
Qed.

Lemma lookup_sorted_In m c g : sorted_keys m = true -> In (c, g) m -> lookup m c = g.
Proof.
  destruct m as [|[k v] r]; intros Hs Hin; [destruct Hin|].
  cbn [sorted_keys] in Hs. cbn [lookup]. destruct Hin as [E|Hin].
  - inversion E; subst. now rewrite N.eqb_refl.
  - destruct (lookup_sorted_from_In k r c g Hs Hin) as [H1 H2].
    destruct (k =? c) eqn:E; [apply N.eqb_eq in E; lia|assumption].
Qed.

Lemma lookup_nonzero_In m c : lookup m c <> 0 -> In (c, lookup m c) m.
Proof.
  induction m as [|[k v] r IH]; cbn [lookup]; intros H; [congruence|].
  destruct (k =? c) eqn:E.
  - apply N.eqb_eq in E. subst. now left.
  - right. now apply IH.
Qed.

Lemma lookup_no_entry m c : (forall g, ~ In (c, g) m) -> lookup m c = 0.
Proof.
  induction m as [|[k v] r IH]; cbn [lookup]; intros H; [reflexivity|].
  destruct (k =? c) eqn:E.
  - apply N.eqb_eq in E. subst. exfalso. apply (H v). now left.
  - apply IH. intros g Hg. apply (H g). now right.
Qed.

(* ---------- the three regenerated bodies against the property text ---------- *)

Lemma lookup0_spec d r :
  (0 <= r)%Z -> M_lookup (F0 d) r = Ok (S_lookup (F0 d) r).
Proof.
  intros Hr. unfold M_lookup, S_lookup, lookup0_code, arr_get, ret_glyph.
  destruct (r >? 255)%Z eqn:E1.
  - replace ((0 <=? r) && (r <=? 255))%Z with false by lia. reflexivity.
  - replace ((r <? 0) || (256 <=? r))%Z with false by lia.
    replace ((0 <=? r) && (r <=? 255))%Z with true by lia. reflexivity.
Qed.

Lemma lookup0_negative d r : (r < 0)%Z -> M_lookup (F0 d) r = Panic.
Proof.
  intros Hr. unfold M_lookup, lookup0_code, arr_get.
  replace (r >? 255)%Z with false by lia.
  replace ((r <? 0) || (256 <=? r))%Z with true by lia. reflexivity.
Qed.

Lemma lookup4_spec m r : M_lookup (F4 m) r = Ok (S_lookup (F4 m) r).
Proof.
  unfold M_lookup, S_lookup, lookup4_code, map_get, ret_glyph.
  destruct ((r <? 0) || (r >? 65535))%Z eqn:E1.
  - replace ((0 <=? r) && (r <=? 65535))%Z with false by lia. reflexivity.
  - replace ((0 <=? r) && (r <=? 65535))%Z with true by lia.
    rewrite Z.mod_small by lia. reflexivity.
Qed.

Lemma lookup12_spec m r : is_rune r -> M_lookup (F12 m) r = Ok (S_lookup (F12 m) r).
Proof.
  unfold is_rune. intros Hr.
  unfold M_lookup, S_lookup, lookup12_code, map_get.
  destruct (0 <=? r)%Z eqn:E1.
  - rewrite Z.mod_small by lia. reflexivity.
  - replace r with ((r + 4294967296) + (-1) * 4294967296)%Z at 1 by lia.
    rewrite Z.mod_add by lia. rewrite Z.mod_small by lia. reflexivity.
Qed.

Lemma lookup_total s r :
  is_rune r -> (forall d, s = F0 d -> (0 <= r)%Z) ->
  M_lookup s r = Ok (S_lookup s r).
Proof.
  intros Hr H0. destruct s as [d|m|m].
  - apply lookup0_spec. now apply (H0 d).
  - apply lookup4_spec.
  - now apply lookup12_spec.
Qed.

(* a mapped code looks up as its glyph *)
Lemma lookup_mapped s c g :
  wf_sub s -> mapped s c g -> M_lookup s (rune_of_code s c) = Ok g.
Proof.
  intros Hwf Hm. destruct s as [d|m|m]; cbn [rune_of_code mapped wf_sub] in *.
  - destruct Hm as [Hc Hg]. rewrite lookup0_spec by lia. unfold S_lookup.
    replace ((0 <=? Z.of_N c) && (Z.of_N c <=? 255))%Z with true by lia.
    replace (Z.to_nat (Z.of_N c)) with (N.to_nat c) by lia. now rewrite Hg.
  - destruct Hwf as [Hs Hb]. rewrite lookup4_spec. unfold S_lookup.
    pose proof (proj1 (Forall_forall _ _) Hb _ Hm) as Hk. cbn [fst snd] in Hk.
    replace ((0 <=? Z.of_N c) && (Z.of_N c <=? 65535))%Z with true by lia.
    rewrite N2Z.id. f_equal. now apply lookup_sorted_In.
  - destruct Hwf as [Hs Hb].
    pose proof (proj1 (Forall_forall _ _) Hb _ Hm) as Hk. cbn [fst snd] in Hk.
    rewrite lookup12_spec by apply to_rune_is_rune. unfold S_lookup.
    destruct (Z.of_N c <? 2147483648)%Z eqn:E.
    + rewrite to_rune_id by (unfold is_rune; lia).
      replace (0 <=? Z.of_N c)%Z with true by lia.
      rewrite N2Z.id. f_equal. now apply lookup_sorted_In.
    + rewrite to_rune_high by lia.
      replace (0 <=? Z.of_N c - 4294967296)%Z with false by lia.
      replace (Z.of_N c - 4294967296 + 4294967296)%Z with (Z.of_N c) by lia.
      rewrite N2Z.id. f_equal. now apply lookup_sorted_In.
Qed.

(* a non-zero answer is the glyph of THE mapped code the rune denotes *)
Lemma lookup_nonzero_mapped s r g :
  is_rune r -> M_lookup s r = Ok g -> g <> 0 ->
  exists c, mapped s c g /\ rune_of_code s c = r.
Proof.
  intros Hr H Hg. destruct s as [d|m|m].
  - destruct (Z.ltb_spec r 0) as [Hn|Hn]; [rewrite lookup0_negative in H by lia; discriminate|].
    rewrite lookup0_spec in H by lia. apply Ok_inj in H. unfold S_lookup in H.
    destruct ((0 <=? r) && (r <=? 255))%Z eqn:E; [|congruence].
    exists (Z.to_N r). cbn [mapped rune_of_code]. split; [split; [lia|]|lia].
    replace (N.to_nat (Z.to_N r)) with (Z.to_nat r) by lia. exact H.
  - rewrite lookup4_spec in H. apply Ok_inj in H. unfold S_lookup in H.
    destruct ((0 <=? r) && (r <=? 65535))%Z eqn:E; [|congruence].
    exists (Z.to_N r). cbn [mapped rune_of_code]. split; [|lia].
    rewrite <- H. apply lookup_nonzero_In. congruence.
  - rewrite lookup12_spec in H by assumption. apply Ok_inj in H. unfold S_lookup in H.
    unfold is_rune in Hr.
    destruct (0 <=? r)%Z eqn:E.
    + exists (Z.to_N r). cbn [mapped rune_of_code]. split.
      * rewrite <- H. apply lookup_nonzero_In. congruence.
      * rewrite Z2N.id by lia. apply to_rune_id. unfold is_rune. lia.
    + exists (Z.to_N (r + 4294967296)). cbn [mapped rune_of_code]. split.
      * rewrite <- H. apply lookup_nonzero_In. congruence.
      * rewrite Z2N.id by lia. rewrite to_rune_high by lia. lia.
Qed.

(* a rune that denotes no mapped code looks up as glyph 0 *)
Lemma lookup_unmapped s r :
  is_rune r -> (forall d, s = F0 d -> (0 <= r)%Z) ->
  (forall c g, mapped s c g -> g <> 0 -> rune_of_code s c <> r) ->
  M_lookup s r = Ok 0.
Proof.
  intros Hr H0 Hno. rewrite (lookup_total s r Hr H0). f_equal.
  destruct (N.eq_dec (S_lookup s r) 0) as [E|E]; [assumption|exfalso].
  destruct (lookup_nonzero_mapped s r (S_lookup s r) Hr (lookup_total s r Hr H0) E) as (c & H1 & H2).
  exact (Hno c _ H1 E H2).
Qed.

(* Lookup never panics on a non-negative rune, whatever the value *)
Lemma lookup_no_panic_nonneg s r : (0 <= r)%Z -> is_rune r -> M_lookup s r <> Panic.
Proof.
  intros H0 Hr. rewrite (lookup_total s r Hr); [discriminate|]. intros; assumption.
Qed.

(* distinct codes of the code space are denoted by distinct runes *)
Lemma rune_of_code_inj s c1 c2 :
  c1 < 4294967296 -> c2 < 4294967296 -> rune_of_code s c1 = rune_of_code s c2 -> c1 = c2.
Proof.
  intros H1 H2. destruct s; cbn [rune_of_code]; try lia.
  intros H.
  destruct (Z.ltb_spec (Z.of_N c1) 2147483648), (Z.ltb_spec (Z.of_N c2) 2147483648);
    repeat (first [rewrite to_rune_id in H by (unfold is_rune; lia)
                  | rewrite to_rune_high in H by lia
                  | rewrite (to_rune_id (Z.of_N c2)) in H by (unfold is_rune; lia)
                  | rewrite (to_rune_high (Z.of_N c2)) in H by lia]); lia.
Qed.
