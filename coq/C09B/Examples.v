(* C09B/Examples.v — non-vacuity: concrete non-trivial values satisfy the
   hypotheses of every theorem of Props.v, and the model evaluated inside Coq
   gives what the Go code was seen to give (cross-check of the extraction). *)
From Coq Require Import List NArith ZArith Lia Bool Permutation.
From Common Require Import Bytes Outcome.
From Gen Require Import C09 C09B.
From C09 Require Import Model Model4 ModelT.
From C09B Require Import Model Observe Proofs_wit.
Import ListNotations.
Local Open Scope N_scope.

Definition ex_f0 : sub := F0 (repeat 0 65 ++ [7] ++ repeat 0 190).
Definition ex_f4 : sub := F4 [(65, 7); (66, 0); (300, 9); (65535, 4)].
Definition ex_f12 : sub := F12 [(3, 0); (65, 7); (2147483647, 6); (4294967294, 5)].

Example ex_wf : wf_sub ex_f0 /\ wf_sub ex_f4 /\ wf_sub ex_f12.
Proof.
  split; [|split]; cbn [wf_sub ex_f0 ex_f4 ex_f12].
  - split; [reflexivity|]. apply Forall_forall. intros x Hx.
    repeat (apply in_app_or in Hx; destruct Hx as [Hx|Hx]);
      try (apply repeat_spec in Hx; subst; lia).
    destruct Hx as [<-|[]]. lia.
  - split; [reflexivity|]. repeat constructor; cbn; lia.
  - split; [reflexivity|]. repeat constructor; cbn; lia.
Qed.

(* (1) Lookup over runes of every kind; these are the answers of the Go code
   (Format0.Lookup(-1) panics, Format12.Lookup(-2) reads code 0xFFFFFFFE) *)
Example ex_lookup0 :
  map (M_lookup ex_f0) [-2147483648; -1; 0; 65; 255; 256; 65601; 2147483647]%Z
  = [Panic; Panic; Ok 0; Ok 7; Ok 0; Ok 0; Ok 0; Ok 0].
Proof. vm_compute. reflexivity. Qed.

Example ex_lookup4 :
  map (M_lookup ex_f4) [-2147483648; -1; 0; 65; 66; 65535; 65536; 65601; 131071; 1114111; 1114112; 2147483647]%Z
  = [Ok 0; Ok 0; Ok 0; Ok 7; Ok 0; Ok 4; Ok 0; Ok 0; Ok 0; Ok 0; Ok 0; Ok 0].
Proof. vm_compute. reflexivity. Qed.

Example ex_lookup12 :
  map (M_lookup ex_f12) [-2147483648; -2; -1; 0; 3; 65; 65601; 2147483647]%Z
  = [Ok 0; Ok 5; Ok 0; Ok 0; Ok 0; Ok 7; Ok 0; Ok 6].
Proof. vm_compute. reflexivity. Qed.

Example ex_lookup_is_spec :
  forallb (fun r => match M_lookup ex_f12 r with Ok g => g =? S_lookup ex_f12 r | _ => false end)
          [-2147483648; -2; -1; 0; 3; 65; 65601; 2147483647]%Z = true.
Proof. vm_compute. reflexivity. Qed.

(* (2) CodeRange: Go printed (-2, 2147483647), (5, 5), (0, 0), (0, 255) *)
Example ex_coderange :
  M_coderange ex_f12 = (-2, 2147483647)%Z /\ M_coderange (F4 [(5, 0)]) = (5, 5)%Z /\
  M_coderange (F4 []) = (0, 0)%Z /\ M_coderange (F12 []) = (0, 0)%Z /\
  M_coderange ex_f0 = (0, 255)%Z /\ M_coderange ex_f4 = (65, 65535)%Z.
Proof. repeat split; vm_compute; reflexivity. Qed.

Example ex_coderange_order :
  Permutation [4294967294; 3; 2147483647; 65]%Z (sub_keys ex_f12) /\
  M_coderange_order ex_f12 [4294967294; 3; 2147483647; 65]%Z = M_coderange ex_f12.
Proof.
  split; [|vm_compute; reflexivity].
  change (sub_keys ex_f12) with [3; 65; 2147483647; 4294967294]%Z.
  apply Permutation_sym.
  apply perm_trans with ([65; 2147483647; 4294967294] ++ [3])%Z.
  - apply (Permutation_cons_append [65; 2147483647; 4294967294]%Z 3%Z).
  - cbn [app]. apply perm_trans with ([2147483647; 4294967294; 3] ++ [65])%Z.
    + apply (Permutation_cons_append [2147483647; 4294967294; 3]%Z 65%Z).
    + cbn [app]. apply perm_trans with ([4294967294; 3; 65] ++ [2147483647])%Z.
      * apply (Permutation_cons_append [4294967294; 3; 65]%Z 2147483647%Z).
      * cbn [app]. apply perm_skip. apply perm_skip. apply perm_swap.
Qed.

(* (3) the loop; a value whose range does not end at MaxInt32, and the as-found
   loop on one that does *)
Example ex_enumerate :
  M_enumerate 300 (F4 [(65, 7); (66, 0); (300, 9)]) = Ok [(65%Z, 7); (300%Z, 9)] /\
  M_enumerate 258 ex_f0 = Ok [(65%Z, 7)] /\
  M_enumerate 10 (F12 [(2147483645, 1); (2147483647, 2)]) = Ok [(2147483645%Z, 1); (2147483647%Z, 2)] /\
  M_enumerate_found 1000 (F12 [(2147483645, 1); (2147483647, 2)]) = OutOfFuel /\
  M_enumerate 2 ex_f0 = OutOfFuel.
Proof. repeat split; vm_compute; reflexivity. Qed.

(* (4) a path of the segment graph for ex_f4 (first proposal at every vertex) *)
Fixpoint greedy (fuel : nat) (m : N -> N) (v : N) : list seg4 :=
  match fuel with
  | O => []
  | S f => match M_edges m v with
           | s :: _ => s :: greedy f m (M_edge_to s)
           | [] => []
           end
  end.
Definition ex_pick (m : N -> N) : list seg4 := greedy 20 m 0.

Example ex_encodable :
  encodable ex_pick ex_f0 /\ encodable ex_pick ex_f4 /\ encodable ex_pick (F12 [(65, 7); (128512, 9)]).
Proof.
  split; [exact I|]. split.
  - cbn [encodable ex_f4]. split; [vm_compute; reflexivity|]. vm_compute. discriminate.
  - cbn [encodable]. split; [repeat constructor; cbn; lia|cbn; lia].
Qed.

Example ex_roundtrip :
  (match M_encode ex_pick ex_f4 0 with
   | Ok b => match M_get_sub_v (3, 1, 0) b with
             | Ok s' => forallb (fun r => match M_lookup s' r, M_lookup ex_f4 r with
                                          | Ok a, Ok b => a =? b | _, _ => false end)
                                [-1; 0; 65; 66; 300; 65535; 65536; 65601]%Z
             | _ => false
             end
   | _ => false
   end) = true.
Proof. vm_compute. reflexivity. Qed.

(* (5) InstallCMap on a font that already has a full-Unicode table: the new
   table has the two BMP keys only, the copy still sees the old table; the
   in-place variant keeps the stale key and the copy changes *)
Example ex_install :
  match M_installcmap ex_pick wit_heap wit_font wit_new with
  | Ok (h', f') =>
      map fst (view h' f') = [(0, 3, 0); (3, 1, 0)] /\
      table_eqb (view h' wit_font) (view wit_heap wit_font) = true /\
      match M_getbest_v (view h' f') with Ok (i, s) => i = 2 /\ M_lookup s 65 = Ok 7 | _ => False end
  | _ => False
  end /\
  match M_installcmap_inplace ex_pick wit_heap wit_font wit_new with
  | Ok (h', f') =>
      map fst (view h' f') = [(0, 3, 0); (3, 1, 0); (3, 10, 0)] /\
      table_eqb (view h' wit_font) (view wit_heap wit_font) = false /\
      match M_getbest_v (view h' f') with Ok (i, s) => i = 0 /\ M_lookup s 65 = Ok 4 | _ => False end
  | _ => False
  end.
Proof. vm_compute. repeat split; reflexivity. Qed.

Example ex_install_f4_full :
  match M_installcmap ex_pick [] (mkFont None tt) (F12 [(65, 7); (128512, 9)]) with
  | Ok (h', f') => map fst (view h' f') = [(0, 4, 0); (3, 10, 0)] /\
                   live [] (mkFont (R := unit) None tt)
  | _ => False
  end.
Proof. vm_compute. split; [reflexivity|exact I]. Qed.

(* (6) dispatch: formats with a decoder, refused formats, no entry, Macintosh *)
Example ex_dispatch :
  M_get_sub_v (3, 1, 0) [0; 14; 0; 0; 0; 16; 0; 0; 0; 0] = Err /\
  M_get_sub_v (3, 1, 0) [0; 5; 0; 0; 0; 16; 0; 0; 0; 0] = Panic /\
  M_get_sub_v (1, 2, 0) [0; 6; 0; 12; 0; 0; 0; 65; 0; 1; 0; 5] = Err /\
  M_get_sub_v (3, 1, 0) [0; 6; 0; 12; 0; 0; 0; 65; 0; 1; 0; 5] = Ok (F4 [(65, 5)]) /\
  M_get_sub_v (1, 0, 0) [0; 6; 0; 12; 0; 0; 0; 128; 0; 1; 0; 5] = Ok (F4 [(196, 5)]) /\
  M_get_sub_v (1, 0, 0) wit_mac0 = Ok (F4 [(196, 5)]) /\
  get16 wit_mac0 0 = Ok 0.
Proof. repeat split; vm_compute; reflexivity. Qed.
