(* C09B/Proofs_range.v — CodeRange (regenerated bodies) and the enumeration
   loop  for r := low; r <= high; r++ { Lookup(r) }. *)
From Coq Require Import String List NArith ZArith Lia Bool Permutation.
From Common Require Import Bytes Outcome.
From Gen Require Import C09 C09B.
From C09 Require Import Model Model4 ModelT Util.
From C09B Require Import Model Proofs_lookup.
Import ListNotations.
Local Open Scope Z_scope.

(* ---------- min / max folds ---------- *)

Definition mm_step (st : Z * Z) (k : Z) : Z * Z :=
  (Z.min (fst st) (to_rune k), Z.max (snd st) (to_rune k)).

Lemma fold_left_ext {A B} (f g : A -> B -> A) l : forall a,
  (forall a b, f a b = g a b) -> fold_left f l a = fold_left g l a.
Proof.
  induction l as [|x l IH]; intros a H; cbn [fold_left]; [reflexivity|].
  rewrite H. now apply IH.
Qed.

(* [lo'] [hi'] is what the fold over [rs] makes of [lo] [hi] *)
Lemma mm_fold_spec ks : forall lo hi,
  let r := fold_left mm_step ks (lo, hi) in
  (fst r <= lo /\ (forall k, In k ks -> fst r <= to_rune k) /\
   (fst r = lo \/ exists k, In k ks /\ fst r = to_rune k)) /\
  (hi <= snd r /\ (forall k, In k ks -> to_rune k <= snd r) /\
   (snd r = hi \/ exists k, In k ks /\ snd r = to_rune k)).
Proof.
  induction ks as [|k ks IH]; intros lo hi; cbv zeta; cbn [fold_left].
  - cbn [fst snd]. repeat split; try lia; try (intros ? []); now left.
  - specialize (IH (Z.min lo (to_rune k)) (Z.max hi (to_rune k))). cbv zeta in IH.
    change (mm_step (lo, hi) k) with (Z.min lo (to_rune k), Z.max hi (to_rune k)).
    destruct IH as [(A1 & A2 & A3) (B1 & B2 & B3)].
    split; (split; [lia|split]).
    + intros x [->|Hx]; [lia|auto].
    + destruct A3 as [A3|(x & Hx & A3)].
      * destruct (Z.min_spec lo (to_rune k)) as [[_ E]|[_ E]].
        -- left. lia.
        -- right. exists k. split; [now left|lia].
      * right. exists x. split; [now right|assumption].
    + intros x [->|Hx]; [lia|auto].
    + destruct B3 as [B3|(x & Hx & B3)].
      * destruct (Z.max_spec hi (to_rune k)) as [[_ E]|[_ E]].
        -- right. exists k. split; [now left|lia].
        -- left. lia.
      * right. exists x. split; [now right|assumption].
Qed.

(* ---------- the regenerated bodies in closed form ---------- *)

Lemma coderange0_closed ks : coderange0_code ks = (0, 255).
Proof. reflexivity. Qed.

Lemma coderange4_closed ks :
  coderange4_code ks =
  match ks with [] => (0, 0) | _ => fold_left mm_step ks (2147483647, 0) end.
Proof.
  unfold coderange4_code. destruct ks as [|k ks]; [reflexivity|].
  replace (Z.of_nat (List.length (k :: ks)) =? 0) with false by (cbn [List.length]; lia).
  match goal with |- (let '(a, b) := ?X in (a, b)) = _ => replace X with (fold_left mm_step (k :: ks) (2147483647, 0)) end.
  - now destruct (fold_left mm_step (k :: ks) (2147483647, 0)).
  - apply fold_left_ext. intros [lo hi] x. unfold mm_step, to_rune. cbn [fst snd].
    f_equal.
    + destruct (Z.ltb_spec ((x + 2147483648) mod 4294967296 - 2147483648) lo); lia.
    + destruct (Z.gtb_spec ((x + 2147483648) mod 4294967296 - 2147483648) hi); lia.
Qed.

Definition step12 (st : Z * Z * bool) (k : Z) : Z * Z * bool :=
  let '(lo, hi, first) := st in
  if first then (to_rune k, to_rune k, false)
  else (Z.min lo (to_rune k), Z.max hi (to_rune k), false).

Lemma step12_fold ks : forall lo hi,
  fold_left step12 ks (lo, hi, false) =
  (fst (fold_left mm_step ks (lo, hi)), snd (fold_left mm_step ks (lo, hi)), false).
Proof.
  induction ks as [|k ks IH]; intros lo hi; cbn [fold_left]; [reflexivity|].
  cbn [step12]. rewrite IH. reflexivity.
Qed.

Lemma coderange12_closed ks :
  coderange12_code ks =
  match ks with [] => (0, 0) | k :: r => fold_left mm_step r (to_rune k, to_rune k) end.
Proof.
  unfold coderange12_code. cbv zeta.
  rewrite (fold_left_ext _ step12).
  - destruct ks as [|k ks]; [reflexivity|]. cbn [fold_left step12]. rewrite step12_fold.
    now destruct (fold_left mm_step ks (to_rune k, to_rune k)).
  - intros [[lo hi] first] x. unfold step12, to_rune.
    destruct first; cbn [orb]; [reflexivity|].
    f_equal. f_equal.
    + destruct (Z.ltb_spec ((x + 2147483648) mod 4294967296 - 2147483648) lo); lia.
    + destruct (Z.gtb_spec ((x + 2147483648) mod 4294967296 - 2147483648) hi); lia.
Qed.

(* ---------- "the smallest and largest code point in the subtable" ---------- *)

(* [lo] and [hi] are the least and the greatest of the runes [rs]; (0, 0) for
   no rune at all *)
Definition is_range (rs : list Z) (lo hi : Z) : Prop :=
  (rs = [] /\ lo = 0 /\ hi = 0) \/
  (In lo rs /\ In hi rs /\ forall x, In x rs -> lo <= x <= hi).

Lemma is_range_unique rs lo hi lo' hi' :
  is_range rs lo hi -> is_range rs lo' hi' -> lo = lo' /\ hi = hi'.
Proof.
  intros [(E & -> & ->)|(A1 & A2 & A3)] [(E' & -> & ->)|(B1 & B2 & B3)]; try (split; reflexivity).
  - subst rs. destruct B1.
  - subst rs. destruct A1.
  - pose proof (A3 _ B1). pose proof (A3 _ B2). pose proof (B3 _ A1). pose proof (B3 _ A2). lia.
Qed.

Lemma is_range_perm rs rs' lo hi : Permutation rs rs' -> is_range rs lo hi -> is_range rs' lo hi.
Proof.
  intros P [(E & -> & ->)|(A1 & A2 & A3)].
  - subst rs. apply Permutation_nil in P. subst rs'. left. auto.
  - right. repeat split.
    + eapply Permutation_in; eauto.
    + eapply Permutation_in; eauto.
    + apply A3. eapply Permutation_in; [apply Permutation_sym|]; eauto.
    + apply A3. eapply Permutation_in; [apply Permutation_sym|]; eauto.
Qed.

Lemma coderange12_range ks :
  is_range (map to_rune ks) (fst (coderange12_code ks)) (snd (coderange12_code ks)).
Proof.
  rewrite coderange12_closed. destruct ks as [|k ks]; [left; auto|].
  right. pose proof (mm_fold_spec ks (to_rune k) (to_rune k)) as H. cbv zeta in H.
  destruct H as [(A1 & A2 & A3) (B1 & B2 & B3)]. cbn [map].
  repeat split.
  - destruct A3 as [->|(x & Hx & ->)]; [now left|right; now apply in_map].
  - destruct B3 as [->|(x & Hx & ->)]; [now left|right; now apply in_map].
  - destruct H as [<-|H]; [assumption|]. apply in_map_iff in H. destruct H as (y & <- & Hy). auto.
  - destruct H as [<-|H]; [assumption|]. apply in_map_iff in H. destruct H as (y & <- & Hy). auto.
Qed.

Lemma coderange4_range ks :
  Forall (fun k => 0 <= k <= 65535) ks ->
  is_range (map to_rune ks) (fst (coderange4_code ks)) (snd (coderange4_code ks)).
Proof.
  intros Hb. rewrite coderange4_closed. destruct ks as [|k ks]; [left; auto|].
  assert (Hr : forall x, In x (k :: ks) -> 0 <= to_rune x <= 65535).
  { intros x Hx. pose proof (proj1 (Forall_forall _ _) Hb _ Hx) as H. cbv beta in H.
    rewrite to_rune_id by (unfold is_rune; lia). lia. }
  right. pose proof (mm_fold_spec (k :: ks) 2147483647 0) as H. cbv zeta in H.
  destruct H as [(A1 & A2 & A3) (B1 & B2 & B3)].
  repeat split.
  - destruct A3 as [E|(x & Hx & ->)]; [|now apply in_map].
    exfalso. pose proof (A2 k (or_introl eq_refl)). pose proof (Hr k (or_introl eq_refl)). lia.
  - destruct B3 as [E|(x & Hx & ->)]; [|now apply in_map].
    (* every rune is between 0 and high = 0: the first key is 0 *)
    pose proof (B2 k (or_introl eq_refl)). pose proof (Hr k (or_introl eq_refl)).
    rewrite E. cbn [map]. left. lia.
  - apply in_map_iff in H. destruct H as (y & <- & Hy). auto.
  - apply in_map_iff in H. destruct H as (y & <- & Hy). auto.
Qed.

(* the runes denoting the keys of a value *)
Definition sub_runes (s : sub) : list Z := map to_rune (sub_keys s).

Lemma keysZ_bound m b :
  Forall (fun p => (fst p < b)%N /\ (snd p < 65536)%N) m ->
  Forall (fun k => 0 <= k < Z.of_N b) (keysZ m).
Proof.
  intros H. unfold keysZ. apply Forall_forall. intros k Hk.
  apply in_map_iff in Hk. destruct Hk as (p & <- & Hp).
  pose proof (proj1 (Forall_forall _ _) H _ Hp). cbv beta in *. lia.
Qed.

(* CodeRange for ANY iteration order of the Go map *)
Lemma coderange_order_range s ks :
  wf_sub s -> Permutation ks (sub_keys s) ->
  match s with
  | F0 _ => M_coderange_order s ks = (0, 255)
  | _ => is_range (sub_runes s) (fst (M_coderange_order s ks)) (snd (M_coderange_order s ks))
  end.
Proof.
  intros Hwf P. destruct s as [d|m|m]; cbn [M_coderange_order sub_runes sub_keys] in *.
  - reflexivity.
  - destruct Hwf as [_ Hb].
    apply is_range_perm with (map to_rune ks); [now apply Permutation_map|].
    apply coderange4_range. apply Forall_forall. intros k Hk.
    pose proof (keysZ_bound m 65536 Hb) as H.
    pose proof (proj1 (Forall_forall _ _) H k (Permutation_in _ P Hk)). cbv beta in *. lia.
  - apply is_range_perm with (map to_rune ks); [now apply Permutation_map|].
    apply coderange12_range.
Qed.

Lemma coderange_order_irrelevant s ks :
  wf_sub s -> Permutation ks (sub_keys s) -> M_coderange_order s ks = M_coderange s.
Proof.
  intros Hwf P. unfold M_coderange.
  pose proof (coderange_order_range s ks Hwf P) as H1.
  pose proof (coderange_order_range s (sub_keys s) Hwf (Permutation_refl _)) as H2.
  destruct s as [d|m|m].
  - now rewrite H1, H2.
  - destruct (is_range_unique _ _ _ _ _ H1 H2) as [E1 E2].
    destruct (M_coderange_order (F4 m) ks), (M_coderange_order (F4 m) (sub_keys (F4 m))).
    cbn [fst snd] in *. congruence.
  - destruct (is_range_unique _ _ _ _ _ H1 H2) as [E1 E2].
    destruct (M_coderange_order (F12 m) ks), (M_coderange_order (F12 m) (sub_keys (F12 m))).
    cbn [fst snd] in *. congruence.
Qed.

Lemma coderange_runes s lo hi :
  wf_sub s -> M_coderange s = (lo, hi) -> is_rune lo /\ is_rune hi.
Proof.
  intros Hwf E.
  pose proof (coderange_order_range s (sub_keys s) Hwf (Permutation_refl _)) as H.
  fold (M_coderange s) in H. rewrite E in H. cbn [fst snd] in H.
  destruct s as [d|m|m].
  - inversion H; subst. unfold is_rune. lia.
  - destruct H as [(_ & -> & ->)|(A1 & A2 & _)]; [unfold is_rune; lia|].
    unfold sub_runes in *. apply in_map_iff in A1, A2.
    destruct A1 as (x & <- & _), A2 as (y & <- & _). split; apply to_rune_is_rune.
  - destruct H as [(_ & -> & ->)|(A1 & A2 & _)]; [unfold is_rune; lia|].
    unfold sub_runes in *. apply in_map_iff in A1, A2.
    destruct A1 as (x & <- & _), A2 as (y & <- & _). split; apply to_rune_is_rune.
Qed.

Lemma rune_of_code_F4 m c : (c < 65536)%N -> rune_of_code (F4 m) c = to_rune (Z.of_N c).
Proof. intros H. cbn [rune_of_code]. rewrite to_rune_id; [reflexivity|unfold is_rune; lia]. Qed.

(* covers: every mapped code lies in the range *)
Lemma coderange_covers_mapped s lo hi c g :
  wf_sub s -> M_coderange s = (lo, hi) -> mapped s c g ->
  lo <= rune_of_code s c <= hi.
Proof.
  intros Hwf E Hm.
  pose proof (coderange_order_range s (sub_keys s) Hwf (Permutation_refl _)) as H.
  fold (M_coderange s) in H. rewrite E in H. cbn [fst snd] in H.
  destruct s as [d|m|m]; cbn [mapped] in Hm.
  - inversion H; subst. cbn [rune_of_code]. lia.
  - destruct Hwf as [_ Hb].
    pose proof (proj1 (Forall_forall _ _) Hb _ Hm) as Hk. cbn [fst snd] in Hk.
    destruct H as [(E0 & _)|(_ & _ & A3)].
    + unfold sub_runes, sub_keys, keysZ in E0. destruct m; [destruct Hm|discriminate].
    + rewrite rune_of_code_F4 by lia. apply A3. unfold sub_runes, sub_keys, keysZ.
      apply in_map. apply in_map_iff. exists (c, g). auto.
  - destruct H as [(E0 & _)|(_ & _ & A3)].
    + unfold sub_runes, sub_keys, keysZ in E0. destruct m; [destruct Hm|discriminate].
    + cbn [rune_of_code]. apply A3. unfold sub_runes, sub_keys, keysZ.
      apply in_map. apply in_map_iff. exists (c, g). auto.
Qed.

(* tight: both ends are mapped codes (map types); the empty map gives (0, 0) *)
Lemma coderange_tight s m lo hi :
  (s = F4 m \/ s = F12 m) -> wf_sub s -> M_coderange s = (lo, hi) ->
  (m = [] -> lo = 0 /\ hi = 0) /\
  (m <> [] -> (exists c g, In (c, g) m /\ rune_of_code s c = lo) /\
              (exists c g, In (c, g) m /\ rune_of_code s c = hi)).
Proof.
  intros Hs Hwf E.
  pose proof (coderange_order_range s (sub_keys s) Hwf (Permutation_refl _)) as H.
  fold (M_coderange s) in H. rewrite E in H. cbn [fst snd] in H.
  assert (Hin : forall x, In x (sub_runes s) -> exists c g, In (c, g) m /\ rune_of_code s c = x).
  { intros x Hx. unfold sub_runes in Hx. apply in_map_iff in Hx. destruct Hx as (k & <- & Hk).
    destruct Hs as [->| ->]; cbn [sub_keys] in Hk; unfold keysZ in Hk;
      apply in_map_iff in Hk; destruct Hk as ([c g] & <- & Hp); exists c, g; (split; [assumption|]).
    - cbn [fst]. destruct Hwf as [_ Hb].
      pose proof (proj1 (Forall_forall _ _) Hb _ Hp) as Hk. cbn [fst snd] in Hk.
      apply rune_of_code_F4. lia.
    - reflexivity. }
  assert (Hk : sub_keys s = keysZ m) by (destruct Hs as [->| ->]; reflexivity).
  assert (Hr : is_range (sub_runes s) lo hi) by (destruct Hs as [->| ->]; exact H).
  split.
  - intros ->. destruct Hr as [(_ & -> & ->)|(A1 & _)]; [auto|].
    unfold sub_runes in A1. rewrite Hk in A1. destruct A1.
  - intros Hne. destruct Hr as [(E0 & _)|(A1 & A2 & _)].
    + unfold sub_runes in E0. rewrite Hk in E0. unfold keysZ in E0. destruct m; [congruence|discriminate].
    + split; auto.
Qed.

(* ---------- the enumeration loop ---------- *)

Lemma zrange_S lo n : zrange lo (S n) = lo :: zrange (lo + 1) n.
Proof.
  unfold zrange. cbn [seq map]. f_equal; [lia|].
  rewrite <- seq_shift, map_map. apply map_ext. intros i. lia.
Qed.

Lemma in_zrange lo n x : In x (zrange lo n) <-> lo <= x < lo + Z.of_nat n.
Proof.
  unfold zrange. rewrite in_map_iff. split.
  - intros (i & <- & Hi). apply in_seq in Hi. lia.
  - intros H. exists (Z.to_nat (x - lo)). split; [lia|]. apply in_seq. lia.
Qed.

Definition nz (p : Z * N) : bool := negb (snd p =? 0)%N.

Lemma enum_loop_run s b : forall n fuel r acc,
  r + Z.of_nat n = b + 1 ->
  (forall x, r <= x <= b -> M_lookup s x = Ok (S_lookup s x)) ->
  (S n <= fuel)%nat ->
  enum_loop 64 fuel s r b acc =
  Ok (rev acc ++ filter nz (map (fun x => (x, S_lookup s x)) (zrange r n))).
Proof.
  induction n as [|n IH]; intros fuel r acc Hn Hl Hf;
    (destruct fuel as [|fuel]; [lia|]); cbn [enum_loop].
  - replace (r <=? b) with false by lia. cbn [zrange seq map filter]. now rewrite app_nil_r.
  - replace (r <=? b) with true by lia.
    rewrite Hl by lia.
    change (next_code 64 r) with (r + 1).
    rewrite (IH fuel (r + 1)) by (try lia; intros; apply Hl; lia).
    rewrite zrange_S. cbn [map filter]. unfold nz at 2. cbn [snd].
    destruct (S_lookup s r =? 0)%N; cbn [negb]; [reflexivity|].
    cbn [rev]. now rewrite <- app_assoc.
Qed.

(* as found (the loop variable was the rune): over a range whose upper end is
   the largest int32 the loop never ends *)
Lemma enum_loop_maxint m : forall fuel r acc,
  is_rune r -> enum_loop 32 fuel (F12 m) r 2147483647 acc = OutOfFuel.
Proof.
  induction fuel as [|fuel IH]; intros r acc Hr; cbn [enum_loop]; [reflexivity|].
  replace (r <=? 2147483647) with true by (unfold is_rune in Hr; lia).
  rewrite lookup12_spec by assumption. apply IH. apply to_rune_is_rune.
Qed.
