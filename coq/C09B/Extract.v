From Coq Require Import Extraction ExtrOcamlBasic.
From Common Require Import Conv.
From C09 Require Import Model Model4 ModelT.
From C09B Require Import Model Observe.
Extraction "c09b_model.ml" conv_anchor
  M_lookup S_lookup M_coderange M_coderange_order M_enumerate M_encode
  M_get_sub_v M_get_v M_getbest_v M_installcmap M_installcmap_inplace view
  table_eqb table_of_entries path_ok emit4_size mac_rune.
