(* C09B/Proofs_get.v — the decoder table of subtable.go, Table.Get and
   Table.GetBest over the regenerated table, and their agreement with the
   hard-wired dispatch of C09's model. *)
From Coq Require Import String List NArith ZArith Lia Bool.
From Common Require Import Bytes Outcome.
From Gen Require Import C09 C09B.
From C09 Require Import Model Model4 ModelT Util.
From C09B Require Import Model.
Import ListNotations.
Local Open Scope N_scope.

Lemma get_consts : get_macPlatform = 1 /\ get_macEncoding = 0 /\ decode0_translates = true.
Proof. repeat split; reflexivity. Qed.

(* every decoder named in subtable.go is one the model knows *)
Lemma decoders_known :
  forallb (fun p => match decoder_of_name (snd p) with Some _ => true | None => false end)
          cmap_decoders = true.
Proof. vm_compute. reflexivity. Qed.

(* the decoder the table holds for a format word *)
Definition S_decoder (fmt : N) : option decoder :=
  if fmt =? 0 then Some Dec0
  else if fmt =? 4 then Some Dec4
  else if fmt =? 6 then Some Dec6
  else if fmt =? 12 then Some Dec12
  else if (fmt =? 2) || (fmt =? 8) || (fmt =? 10) || (fmt =? 13) || (fmt =? 14)
  then Some DecNotImplemented
  else None.

Lemma decoder_lookup fmt :
  match assoc_dec fmt cmap_decoders with
  | None => S_decoder fmt = None
  | Some name => decoder_of_name name = S_decoder fmt /\ S_decoder fmt <> None
  end.
Proof.
  unfold S_decoder.
  destruct (fmt =? 0) eqn:E0; [apply N.eqb_eq in E0; subst; vm_compute; split; [reflexivity|discriminate]|].
  destruct (fmt =? 4) eqn:E4; [apply N.eqb_eq in E4; subst; vm_compute; split; [reflexivity|discriminate]|].
  destruct (fmt =? 6) eqn:E6; [apply N.eqb_eq in E6; subst; vm_compute; split; [reflexivity|discriminate]|].
  destruct (fmt =? 12) eqn:E12; [apply N.eqb_eq in E12; subst; vm_compute; split; [reflexivity|discriminate]|].
  destruct (fmt =? 2) eqn:E2; [apply N.eqb_eq in E2; subst; vm_compute; split; [reflexivity|discriminate]|].
  destruct (fmt =? 8) eqn:E8; [apply N.eqb_eq in E8; subst; vm_compute; split; [reflexivity|discriminate]|].
  destruct (fmt =? 10) eqn:E10; [apply N.eqb_eq in E10; subst; vm_compute; split; [reflexivity|discriminate]|].
  destruct (fmt =? 13) eqn:E13; [apply N.eqb_eq in E13; subst; vm_compute; split; [reflexivity|discriminate]|].
  destruct (fmt =? 14) eqn:E14; [apply N.eqb_eq in E14; subst; vm_compute; split; [reflexivity|discriminate]|].
  cbn [orb]. unfold cmap_decoders. cbn [assoc_dec].
  rewrite E0, E2, E4, E6, E8, E10, E12, E13, E14. reflexivity.
Qed.

Lemma run_decoder_dispatch fmt mac data :
  match S_decoder fmt with
  | Some d => run_decoder d mac data
  | None => Panic
  end = S_dispatch fmt mac data.
Proof.
  unfold S_decoder, S_dispatch.
  destruct (fmt =? 0); [cbn [run_decoder]; rewrite (proj2 (proj2 get_consts)), andb_true_r; reflexivity|].
  destruct (fmt =? 4); [reflexivity|].
  destruct (fmt =? 6); [reflexivity|]. destruct (fmt =? 12); [reflexivity|].
  destruct ((fmt =? 2) || (fmt =? 8) || (fmt =? 10) || (fmt =? 13) || (fmt =? 14)); reflexivity.
Qed.

(* Table.Get after the key was found = the dispatch the property names *)
Lemma get_sub_v_dispatch p e l data :
  M_get_sub_v (p, e, l) data =
  if (p =? 1) && negb (e =? 0) then Err
  else fmt <- get16 data 0 ;; S_dispatch fmt (p =? 1) data.
Proof.
  unfold M_get_sub_v. destruct get_consts as (-> & -> & _).
  destruct ((p =? 1) && negb (e =? 0)); [reflexivity|].
  destruct (get16 data 0) as [fmt| | |]; cbn [obind]; try reflexivity.
  rewrite <- run_decoder_dispatch.
  pose proof (decoder_lookup fmt) as H.
  destruct (assoc_dec fmt cmap_decoders) as [name|].
  - destruct H as [H1 H2]. rewrite H1. destruct (S_decoder fmt); [reflexivity|congruence].
  - now rewrite H.
Qed.

Lemma omap_omap {A B C} (f : A -> B) (g : B -> C) (x : outcome A) :
  omap g (omap f x) = omap (fun a => g (f a)) x.
Proof. destruct x; reflexivity. Qed.

(* ... and it is C09's model of Table.Get as repaired (M_get_sub2) with
   code2rune = C14's Mac Roman decoder *)
Lemma get_sub_v_agrees k data :
  omap forget (M_get_sub_v k data) = M_get_sub2 mac_rune k data.
Proof.
  destruct k as [[p e] l]. rewrite get_sub_v_dispatch. unfold M_get_sub2, M_get_sub.
  destruct (p =? 1) eqn:Ep; destruct (e =? 0) eqn:Ee; cbn [andb negb];
    destruct (get16 data 0) as [fmt| | |]; cbn [obind omap]; try reflexivity;
    unfold S_dispatch;
    (destruct (fmt =? 0); [now rewrite omap_omap|]);
    (destruct (fmt =? 4); [now rewrite omap_omap|]);
    (destruct (fmt =? 6); [now rewrite omap_omap|]);
    (destruct (fmt =? 12); [now rewrite omap_omap|]);
    destruct ((fmt =? 2) || (fmt =? 8) || (fmt =? 10) || (fmt =? 13) || (fmt =? 14)); reflexivity.
Qed.

Lemma get_v_agrees t k : omap forget (M_get_v t k) = M_get mac_rune t k.
Proof.
  unfold M_get_v, M_get. destruct (tget k t); [apply get_sub_v_agrees|reflexivity].
Qed.

Definition forget_best (x : N * sub) : N * subtable := (fst x, forget (snd x)).

Lemma getbest_from_v_agrees t cands : forall i,
  omap forget_best (getbest_from_v t cands i) = getbest_from mac_rune t cands i.
Proof.
  induction cands as [|[p e] r IH]; intros i; cbn [getbest_from_v getbest_from]; [reflexivity|].
  rewrite <- get_v_agrees.
  destruct (M_get_v t (p, e, 0)); cbn [omap obind]; try apply IH; reflexivity.
Qed.

Lemma getbest_v_agrees t : omap forget_best (M_getbest_v t) = M_getbest mac_rune t.
Proof. apply getbest_from_v_agrees. Qed.

(* ---------- small facts used by the round trips ---------- *)

Lemma get16_cons a b r : get16 (a :: b :: r) 0 = Ok (a * 256 + b).
Proof. reflexivity. Qed.

Lemma word_at_get16 b x : word_at b 0 = Some x -> get16 b 0 = Ok x.
Proof.
  unfold word_at. cbn [N.to_nat skipn].
  destruct b as [|a [|c r]]; try discriminate. intros H. inversion H. reflexivity.
Qed.

Lemma get_sub_v_unicode p e l data fmt :
  p <> 1 -> get16 data 0 = Ok fmt -> M_get_sub_v (p, e, l) data = S_dispatch fmt false data.
Proof.
  intros Hp H. rewrite get_sub_v_dispatch.
  replace (p =? 1) with false by lia. cbn [andb]. rewrite H. reflexivity.
Qed.
