(* C09B/Proofs_install.v — Font.InstallCMap REPLACES the table. *)
From Coq Require Import String List NArith ZArith Lia Bool.
From Common Require Import Bytes Outcome.
From Gen Require Import C09 C09B.
From C09 Require Import Model Model4 ModelT Util Props.
From C09B Require Import Model Proofs_lookup Proofs_get Proofs_rt.
Import ListNotations.
Local Open Scope N_scope.

(* ---------- the heap ---------- *)

Lemma heap_get_le h a t :
  heap_get h a = Some t -> a <= fold_right (fun p acc => N.max (fst p) acc) 0 h.
Proof.
  induction h as [|[b u] r IH]; cbn [heap_get fold_right fst]; [discriminate|].
  destruct (b =? a) eqn:E.
  - apply N.eqb_eq in E. subst. intros _. lia.
  - intros H. specialize (IH H). lia.
Qed.

Lemma fresh_not_live h a : heap_get h a <> None -> a <> fresh h.
Proof.
  intros H. destruct (heap_get h a) as [t|] eqn:E; [|congruence].
  pose proof (heap_get_le h a t E). unfold fresh. lia.
Qed.

(* allocating a new map object leaves every live reference as it was *)
Lemma view_alloc {R} h t (g : font R) : live h g -> view ((fresh h, t) :: h) g = view h g.
Proof.
  unfold live, view. destruct (f_cmap g) as [a|]; [|reflexivity].
  intros H. cbn [heap_get].
  destruct (fresh h =? a) eqn:E; [|reflexivity].
  apply N.eqb_eq in E. exfalso. apply (fresh_not_live h a H). congruence.
Qed.

(* ---------- the two tables InstallCMap can build ---------- *)

Lemma literal_bmp b :
  table_literal [(0, 3, 0); (3, 1, 0)] b = [((0, 3, 0), b); ((3, 1, 0), b)].
Proof. reflexivity. Qed.

Lemma literal_full b :
  table_literal [(0, 4, 0); (3, 10, 0)] b = [((0, 4, 0), b); ((3, 10, 0), b)].
Proof. reflexivity. Qed.

Lemma install_consts : installcmap_lang = 0 /\ installcmap_entries = 2%nat.
Proof. split; reflexivity. Qed.

Lemma getbest_bmp b s' :
  M_get_sub_v (3, 1, 0) b = Ok s' ->
  M_getbest_v [((0, 3, 0), b); ((3, 1, 0), b)] = Ok (2, s').
Proof.
  intros H. unfold M_getbest_v. rewrite getbest_order.
  cbn [getbest_from_v].
  change (M_get_v [((0, 3, 0), b); ((3, 1, 0), b)] (3, 10, 0)) with (@Err sub).
  change (M_get_v [((0, 3, 0), b); ((3, 1, 0), b)] (0, 4, 0)) with (@Err sub).
  change (M_get_v [((0, 3, 0), b); ((3, 1, 0), b)] (3, 1, 0)) with (M_get_sub_v (3, 1, 0) b).
  rewrite H. reflexivity.
Qed.

Lemma getbest_full b s' :
  M_get_sub_v (3, 10, 0) b = Ok s' ->
  M_getbest_v [((0, 4, 0), b); ((3, 10, 0), b)] = Ok (0, s').
Proof.
  intros H. unfold M_getbest_v. rewrite getbest_order.
  cbn [getbest_from_v].
  change (M_get_v [((0, 4, 0), b); ((3, 10, 0), b)] (3, 10, 0)) with (M_get_sub_v (3, 10, 0) b).
  rewrite H. reflexivity.
Qed.

Lemma tget_two (k1 k2 k : key) (b : list N) :
  k <> k1 -> k <> k2 -> tget k [(k1, b); (k2, b)] = None.
Proof.
  intros H1 H2. cbn [tget].
  assert (E : forall a c : key, c <> a -> key_eqb a c = false).
  { intros [[p1 e1] l1] [[p2 e2] l2] Hne. unfold key_eqb.
    destruct (p1 =? p2) eqn:Ep; [|reflexivity].
    destruct (e1 =? e2) eqn:Ee; [|reflexivity].
    destruct (l1 =? l2) eqn:El; [|reflexivity].
    apply N.eqb_eq in Ep, Ee, El. subst. congruence. }
  rewrite (E k1 k H1), (E k2 k H2). reflexivity.
Qed.

Section Install.
Variable pick : (N -> N) -> list seg4.
Context {R : Type}.

Theorem installcmap_replaces_lemma (h : heap) (f : font R) (s : sub) :
  wf_sub s -> encodable pick s ->
  let high := snd (M_coderange s) in
  let keys := M_installcmap_keys high in
  exists b h' f' i s',
    M_encode pick s 0 = Ok b /\
    M_installcmap pick h f s = Ok (h', f') /\
    (* exactly the two keys, both holding Encode(s) *)
    view h' f' = map (fun k => (k, b)) keys /\
    (forall k, ~ In k keys -> tget k (view h' f') = None) /\
    (* the rest of the font is untouched *)
    f_rest f' = f_rest f /\
    (* every font value that existed before - a copy of f in particular - still
       sees the table it saw *)
    (forall g : font R, live h g -> view h' g = view h g) /\
    (* the best subtable is the new one *)
    M_getbest_v (view h' f') = Ok (i, s') /\
    i = (if (65535 <? high)%Z then 0 else 2) /\
    (forall r, M_lookup s' r = M_lookup s r) /\
    match s with
    | F0 _ => s' = s
    | F12 _ => s' = s
    | F4 _ => exists m', s' = F4 m' /\ sorted_keys m' = true
    end.
Proof.
  intros Hwf Henc high keys.
  destruct install_consts as [Elang Eent].
  destruct (installcmap_ids high) as [Hlo Hhi].
  destruct (65535 <? high)%Z eqn:Eh.
  - (* full Unicode *)
    assert (Ek : keys = [(0, 4, 0); (3, 10, 0)]) by (apply Hhi; lia).
    destruct (encode_get_roundtrip pick s 0 3 10 0 Hwf Henc ltac:(lia) ltac:(lia))
      as (b & s' & H1 & H2 & H3 & H4).
    exists b, ((fresh h, table_literal keys b) :: h), (mkFont (Some (fresh h)) (f_rest f)), 0, s'.
    assert (Ev : view ((fresh h, table_literal keys b) :: h) (mkFont (Some (fresh h)) (f_rest f))
                 = [((0, 4, 0), b); ((3, 10, 0), b)]).
    { unfold view. cbn [f_cmap heap_get]. rewrite N.eqb_refl. rewrite Ek. apply literal_full. }
    split; [exact H1|]. split.
    { unfold M_installcmap. rewrite Elang, Eent, H1. cbn [obind].
      fold high. fold keys. rewrite Ek. reflexivity. }
    split; [rewrite Ev, Ek; reflexivity|].
    split. { intros k Hk. rewrite Ev. rewrite Ek in Hk. apply tget_two; intros ->; apply Hk; cbn; auto. }
    split; [reflexivity|].
    split. { intros g Hg. apply view_alloc. exact Hg. }
    split; [rewrite Ev; now apply getbest_full|].
    split; [reflexivity|]. split; assumption.
  - (* inside the BMP *)
    assert (Ek : keys = [(0, 3, 0); (3, 1, 0)]) by (apply Hlo; lia).
    destruct (encode_get_roundtrip pick s 0 3 1 0 Hwf Henc ltac:(lia) ltac:(lia))
      as (b & s' & H1 & H2 & H3 & H4).
    exists b, ((fresh h, table_literal keys b) :: h), (mkFont (Some (fresh h)) (f_rest f)), 2, s'.
    assert (Ev : view ((fresh h, table_literal keys b) :: h) (mkFont (Some (fresh h)) (f_rest f))
                 = [((0, 3, 0), b); ((3, 1, 0), b)]).
    { unfold view. cbn [f_cmap heap_get]. rewrite N.eqb_refl. rewrite Ek. apply literal_bmp. }
    split; [exact H1|]. split.
    { unfold M_installcmap. rewrite Elang, Eent, H1. cbn [obind].
      fold high. fold keys. rewrite Ek. reflexivity. }
    split; [rewrite Ev, Ek; reflexivity|].
    split. { intros k Hk. rewrite Ev. rewrite Ek in Hk. apply tget_two; intros ->; apply Hk; cbn; auto. }
    split; [reflexivity|].
    split. { intros g Hg. apply view_alloc. exact Hg. }
    split; [rewrite Ev; now apply getbest_bmp|].
    split; [reflexivity|]. split; assumption.
Qed.

End Install.
