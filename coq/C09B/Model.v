(* C09B/Model.v — the VALUE level of the cmap package: the Subtable interface as
   callers use it.

   A decoded subtable is a Go value of one of three types
       *cmap.Format0   (Data [256]byte)
       cmap.Format4    (map[uint16]glyph.ID; also what decodeFormat6 returns)
       cmap.Format12   (map[uint32]glyph.ID)
   modelled by [sub].  Go maps are C09's [amap]: association lists with
   strictly ascending keys; a key may be PRESENT WITH VALUE 0 (a Go map can hold
   that; CodeRange sees the key, Lookup cannot tell it from an absent one).

   What is mirrored, and from where it comes:
   * Lookup of the three types      - the method BODIES are regenerated from
     cmap/format0.go, format4.go, format12.go into Gen/C09B.v
     (lookup0_code, lookup4_code, lookup12_code); this file only supplies the
     meaning of "array element" (bounds check = Panic) and "map element";
   * CodeRange of the three types   - regenerated bodies (coderange*_code), a
     fold over the map keys in ITERATION ORDER;
   * Encode                         - by import of C09 (M_encode0, M_emit4 on
     the path the shortest-path search returns, M_encode12);
   * the decoder table of subtable.go (regenerated: cmap_decoders) and
     Table.Get / Table.GetBest over it; code2rune for Macintosh keys is C14's
     Mac Roman decoder over the regenerated table mac_dec;
   * Font.InstallCMap (write.go) over a heap of map objects: Table is a Go map,
     a struct copy of a Font shares it.

   Nothing of C09 is copied: byte codecs, the table codec, key order, tput/tget
   and the key choice of InstallCMap are imported. *)
From Coq Require Import List NArith ZArith Lia Bool.
From Common Require Import Bytes Outcome.
From Gen Require Import C09 C09B.
From C09 Require Import Model Model4 ModelT.
From C14 Require Model.
Import ListNotations.
Local Open Scope N_scope.

(* ------------------------------------------------------------------ *)
(* values                                                             *)

Inductive sub : Type :=
| F0 (d : list N)        (* *Format0: the 256 bytes of Data *)
| F4 (m : amap)          (* Format4:  keys uint16 *)
| F12 (m : amap).        (* Format12: keys uint32 *)

(* the invariants the Go types enforce *)
Definition wf_sub (s : sub) : Prop :=
  match s with
  | F0 d => List.length d = 256%nat /\ Forall (fun b => b < 256) d
  | F4 m => sorted_keys m = true /\ Forall (fun p => fst p < 65536 /\ snd p < 65536) m
  | F12 m => sorted_keys m = true /\ Forall (fun p => fst p < 4294967296 /\ snd p < 65536) m
  end.

(* C09's view of a decoded subtable (it does not distinguish the two map types) *)
Definition forget (s : sub) : subtable :=
  match s with F0 d => SubBytes d | F4 m => SubMap m | F12 m => SubMap m end.

(* a Go rune is an int32 *)
Definition is_rune (r : Z) : Prop := (-2147483648 <= r <= 2147483647)%Z.
(* rune(x) / r++ : two's complement wrap to 32 bits *)
Definition to_rune (z : Z) : Z := ((z + 2147483648) mod 4294967296 - 2147483648)%Z.

Definition keysZ (m : amap) : list Z := map (fun p => Z.of_N (fst p)) m.

(* ------------------------------------------------------------------ *)
(* Lookup                                                             *)

Definition ret_glyph (z : Z) : outcome N := Ok (Z.to_N z).
(* cmap.Data[i] on a [256]byte with Go's bounds check *)
Definition arr_get (d : list N) (i : Z) : outcome N :=
  if ((i <? 0) || (256 <=? i))%Z then Panic else Ok (nth (Z.to_nat i) d 0).
(* cmap[k] on a Go map: absent key = 0 *)
Definition map_get (m : amap) (i : Z) : outcome N := Ok (lookup m (Z.to_N i)).
(* the value has no such component (never used by the regenerated bodies) *)
Definition no_component (i : Z) : outcome N := Panic.

Definition M_lookup (s : sub) (r : Z) : outcome N :=
  match s with
  | F0 d => lookup0_code ret_glyph (arr_get d) no_component r
  | F4 m => lookup4_code ret_glyph no_component (map_get m) r
  | F12 m => lookup12_code ret_glyph no_component (map_get m) r
  end.

(* the property text: the glyph of the code point if it is a mapped code of the
   subtable's code space, glyph 0 otherwise.  Code spaces: 0..255, 0..0xFFFF,
   and for format 12 all of uint32, a rune denoting the code with the same 32
   bits (negative runes are the codes from 2^31 up). *)
Definition S_lookup (s : sub) (r : Z) : N :=
  match s with
  | F0 d => if ((0 <=? r) && (r <=? 255))%Z then nth (Z.to_nat r) d 0 else 0
  | F4 m => if ((0 <=? r) && (r <=? 65535))%Z then lookup m (Z.to_N r) else 0
  | F12 m => if (0 <=? r)%Z then lookup m (Z.to_N r) else lookup m (Z.to_N (r + 4294967296))
  end.

(* "c is a mapped code with glyph g" and the rune that denotes code c *)
Definition mapped (s : sub) (c g : N) : Prop :=
  match s with
  | F0 d => c < 256 /\ nth (N.to_nat c) d 0 = g
  | F4 m => In (c, g) m
  | F12 m => In (c, g) m
  end.
Definition rune_of_code (s : sub) (c : N) : Z :=
  match s with F12 _ => to_rune (Z.of_N c) | _ => Z.of_N c end.

(* ------------------------------------------------------------------ *)
(* CodeRange                                                          *)

(* with the map keys visited in the order [ks] *)
Definition M_coderange_order (s : sub) (ks : list Z) : Z * Z :=
  match s with
  | F0 _ => coderange0_code ks
  | F4 _ => coderange4_code ks
  | F12 _ => coderange12_code ks
  end.

Definition sub_keys (s : sub) : list Z :=
  match s with F0 _ => [] | F4 m => keysZ m | F12 m => keysZ m end.

Definition M_coderange (s : sub) : Z * Z := M_coderange_order s (sub_keys s).

(* ------------------------------------------------------------------ *)
(* the loop of names.go / explain.go / fontgen.go:
     a, b := cmap.CodeRange()
     for r := a; r <= b; r++ { gid := cmap.Lookup(r); if gid != 0 { ... } }
   The observation is the list of (r, gid) with gid != 0 in the order visited. *)
(* r++ / c++ on a loop variable of the given width *)
Definition next_code (width : N) (r : Z) : Z :=
  if width =? 64 then (r + 1)%Z else to_rune (r + 1).

Fixpoint enum_loop (width : N) (fuel : nat) (s : sub) (r b : Z) (acc : list (Z * N))
  : outcome (list (Z * N)) :=
  match fuel with
  | O => OutOfFuel
  | S f =>
      if (r <=? b)%Z then
        match M_lookup s r with
        | Ok g => enum_loop width f s (next_code width r) b (if g =? 0 then acc else (r, g) :: acc)
        | Err => Err | Panic => Panic | OutOfFuel => OutOfFuel
        end
      else Ok (rev acc)
  end.

(* the loop as it is in names.go (the width of its variable is regenerated:
   names_loop_width; as repaired it is an int64, the rune handed to Lookup being
   rune(c) = c inside the range) *)
Definition M_enumerate (fuel : nat) (s : sub) : outcome (list (Z * N)) :=
  let '(a, b) := M_coderange s in enum_loop names_loop_width fuel s a b [].

(* the loop as found: the variable was the rune itself, r++ wraps *)
Definition M_enumerate_found (fuel : nat) (s : sub) : outcome (list (Z * N)) :=
  let '(a, b) := M_coderange s in enum_loop 32 fuel s a b [].

Definition zrange (lo : Z) (n : nat) : list Z := map (fun i => (lo + Z.of_nat i)%Z) (seq 0 n).

(* what the loop has to produce: the non-zero entries of the mapping, by
   ascending rune *)
Definition S_enumerate (s : sub) (lo hi : Z) : list (Z * N) :=
  filter (fun p => negb (snd p =? 0))
         (map (fun r => (r, S_lookup s r)) (zrange lo (Z.to_nat (hi - lo + 1)))).

(* ------------------------------------------------------------------ *)
(* Encode                                                             *)

Section Encode.
(* what dijkstra.ShortestPath returns for the map (C09 proves the properties of
   the written subtable for EVERY path of the segment graph) *)
Variable pick : (N -> N) -> list seg4.

Definition M_encode (s : sub) (lang : N) : outcome (list N) :=
  match s with
  | F0 d => Ok (M_encode0 d lang)
  | F4 m => M_emit4 (lookup m) (pick (lookup m)) lang
  | F12 m => Ok (M_encode12 m lang)
  end.

(* the encodings C09's round-trip theorems cover *)
Definition encodable (s : sub) : Prop :=
  match s with
  | F0 _ => True
  | F4 m => path_ok (lookup m) 0 (pick (lookup m)) = true /\
            emit4_size (lookup m) (pick (lookup m)) <= 65535
  | F12 m => Forall (fun p => fst p < 4294967295) m /\ N.of_nat (List.length m) <= 65536
  end.
End Encode.

(* ------------------------------------------------------------------ *)
(* subtable.go: the decoder table; Table.Get; Table.GetBest            *)

(* mac.DecodeOne(byte(code)) *)
Definition mac_rune (c : N) : N :=
  match C14.Model.M_mac_dec1 (c mod 256) with Ok r => r | _ => 0 end.

Inductive decoder := Dec0 | Dec4 | Dec6 | Dec12 | DecNotImplemented.

(* the translator names the function decodeFormat<n> by n and notImplemented
   by 255 *)
Definition decoder_of_name (c : N) : option decoder :=
  if c =? 0 then Some Dec0
  else if c =? 4 then Some Dec4
  else if c =? 6 then Some Dec6
  else if c =? 12 then Some Dec12
  else if c =? 255 then Some DecNotImplemented
  else None.

(* decode(data, code2rune); [mac] = a code2rune function was supplied *)
Definition run_decoder (d : decoder) (mac : bool) (data : list N) : outcome sub :=
  let c2r := if mac then mac_rune else unicode in
  match d with
  | Dec0 => if mac && decode0_translates
            then omap F4 (M_decode0_mac mac_rune data)   (* Macintosh codes: translated, as a Format4 *)
            else omap F0 (M_decode0 data)
  | Dec4 => omap F4 (M_decode4 c2r data)
  | Dec6 => omap F4 (M_decode6 c2r data)
  | Dec12 => omap F12 (M_decode12 mac data)
  | DecNotImplemented => Err
  end.

Fixpoint assoc_dec (f : N) (l : list (N * N)) : option N :=
  match l with
  | [] => None
  | (k, v) :: r => if f =? k then Some v else assoc_dec f r
  end.

(* the part of Table.Get after the key was found:
     if key.PlatformID == 1 { if key.EncodingID != 0 { return error }; code2rune = macRoman }
     format := uint16(data[0])<<8 | uint16(data[1]);  decoders[format](data, code2rune)
   An entry missing from the Go map is a nil func: calling it panics.  A name
   this model does not know is reported as OutOfFuel (excluded by
   decoders_known). *)
Definition M_get_sub_v (k : key) (data : list N) : outcome sub :=
  let '(p, e, _) := k in
  let mac := p =? get_macPlatform in
  if mac && negb (e =? get_macEncoding) then Err else
  format <- get16 data 0 ;;
  match assoc_dec format cmap_decoders with
  | None => Panic
  | Some name =>
      match decoder_of_name name with
      | Some d => run_decoder d mac data
      | None => OutOfFuel
      end
  end.

(* the dispatch as the property states it: the decoder of the format word;
   formats 2, 8, 10, 13, 14 are refused (notImplemented); any other format word
   has no entry in the decoder table (calling the nil entry panics) *)
Definition S_dispatch (fmt : N) (mac : bool) (data : list N) : outcome sub :=
  let c2r := if mac then mac_rune else unicode in
  if fmt =? 0 then (if mac then omap F4 (M_decode0_mac mac_rune data) else omap F0 (M_decode0 data))
  else if fmt =? 4 then omap F4 (M_decode4 c2r data)
  else if fmt =? 6 then omap F4 (M_decode6 c2r data)
  else if fmt =? 12 then omap F12 (M_decode12 mac data)
  else if (fmt =? 2) || (fmt =? 8) || (fmt =? 10) || (fmt =? 13) || (fmt =? 14) then Err
  else Panic.

Definition table := list (key * list N).

Definition M_get_v (t : table) (k : key) : outcome sub :=
  match tget k t with
  | None => Err
  | Some d => M_get_sub_v k d
  end.

Fixpoint getbest_from_v (t : table) (cands : list (N * N)) (i : N) : outcome (N * sub) :=
  match cands with
  | [] => Err
  | (p, e) :: r =>
      match M_get_v t (p, e, 0) with
      | Ok s => Ok (i, s)
      | Panic => Panic
      | _ => getbest_from_v t r (i + 1)
      end
  end.

(* a nil table and an empty one both end in an error *)
Definition M_getbest_v (t : table) : outcome (N * sub) :=
  getbest_from_v t getbest_candidates 0.

(* ------------------------------------------------------------------ *)
(* Font.InstallCMap over a heap of map objects                         *)

(* cmap.Table is a Go map: a Font holds a REFERENCE (nil or the address of a
   map object); `clone := *orig` copies the reference.  The heap maps addresses
   to the current content of the map objects. *)
Definition heap := list (N * table).

Fixpoint heap_get (h : heap) (a : N) : option table :=
  match h with
  | [] => None
  | (b, t) :: r => if b =? a then Some t else heap_get r a
  end.

Fixpoint heap_set (h : heap) (a : N) (t : table) : heap :=
  match h with
  | [] => []
  | (b, u) :: r => if b =? a then (b, t) :: r else (b, u) :: heap_set r a t
  end.

(* an address the allocator has not handed out yet *)
Definition fresh (h : heap) : N := 1 + fold_right (fun p acc => N.max (fst p) acc) 0 h.

(* the cmap-relevant part of a Font value: the reference, and everything else *)
Record font (R : Type) := mkFont { f_cmap : option N; f_rest : R }.
Arguments mkFont {R} _ _.
Arguments f_cmap {R} _.
Arguments f_rest {R} _.

(* what f.CMapTable reads as *)
Definition view {R} (h : heap) (f : font R) : table :=
  match f_cmap f with
  | None => []
  | Some a => match heap_get h a with Some t => t | None => [] end
  end.

(* the reference of f is nil or points to a live map object *)
Definition live {R} (h : heap) (f : font R) : Prop :=
  match f_cmap f with None => True | Some a => heap_get h a <> None end.

(* cmap.Table{k1: b, k2: b}: a map literal, later entries overwrite *)
Definition table_literal (ks : list key) (b : list N) : table :=
  fold_left (fun t k => tput k b t) ks [].

Section Install.
Variable pick : (N -> N) -> list seg4.
Context {R : Type}.

(* InstallCMap as it is: key choice by CodeRange, Encode(0), a FRESH map with
   exactly the chosen keys (regenerated: installcmap_lang, installcmap_entries;
   the keys are C09's regenerated installcmap_keys) *)
Definition M_installcmap (h : heap) (f : font R) (s : sub) : outcome (heap * font R) :=
  let high := snd (M_coderange s) in
  b <- M_encode pick s installcmap_lang ;;
  let keys := firstn installcmap_entries (M_installcmap_keys high) in
  let a := fresh h in
  Ok ((a, table_literal keys b) :: h, mkFont (Some a) (f_rest f)).

(* the variant that stores into the existing map (allocating one only if the
   reference is nil): seed C09-j *)
Definition M_installcmap_inplace (h : heap) (f : font R) (s : sub) : outcome (heap * font R) :=
  let high := snd (M_coderange s) in
  b <- M_encode pick s installcmap_lang ;;
  let keys := firstn installcmap_entries (M_installcmap_keys high) in
  match f_cmap f with
  | None => let a := fresh h in Ok ((a, table_literal keys b) :: h, mkFont (Some a) (f_rest f))
  | Some a =>
      match heap_get h a with
      | None => Panic
      | Some t => Ok (heap_set h a (fold_left (fun t k => tput k b t) keys t), f)
      end
  end.
End Install.
