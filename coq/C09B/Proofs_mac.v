(* C09B/Proofs_mac.v — Macintosh keys: the byte table (format 0) is handed out
   translated to Unicode, as a Format4 (decodeFormat0 as repaired). *)
From Coq Require Import List NArith ZArith Lia Bool.
From Common Require Import Bytes Outcome.
From Gen Require Import C09 C09B.
From C09 Require Import Model Model4 ModelT Util Proofs_06.
From C09B Require Import Model Proofs_lookup Proofs_get.
Import ListNotations.
Local Open Scope N_scope.

Definition codes256 : list N := map N.of_nat (seq 0 256).

(* mac.DecodeOne is injective on the 256 byte values and stays inside the BMP
   (decided on the regenerated table) *)
Lemma mac_rune_inj_bool :
  forallb (fun i => forallb (fun j => (i =? j) || negb (mac_rune i =? mac_rune j)) codes256) codes256 = true.
Proof. vm_compute. reflexivity. Qed.

Lemma mac_rune_bmp_bool : forallb (fun i => mac_rune i <? 65536) codes256 = true.
Proof. vm_compute. reflexivity. Qed.

Lemma in_codes256 c : c < 256 -> In c codes256.
Proof.
  intros H. unfold codes256. apply in_map_iff. exists (N.to_nat c). split; [lia|].
  apply in_seq. lia.
Qed.

Lemma mac_rune_inj i j : i < 256 -> j < 256 -> mac_rune i = mac_rune j -> i = j.
Proof.
  intros Hi Hj E.
  pose proof (proj1 (forallb_forall _ _) mac_rune_inj_bool i (in_codes256 i Hi)) as H.
  pose proof (proj1 (forallb_forall _ _) H j (in_codes256 j Hj)) as H2. cbv beta in H2.
  rewrite E, N.eqb_refl in H2. cbn [negb] in H2. rewrite orb_false_r in H2. now apply N.eqb_eq.
Qed.

Lemma mac_rune_bmp i : i < 256 -> mac_rune i < 65536.
Proof.
  intros Hi. pose proof (proj1 (forallb_forall _ _) mac_rune_bmp_bool i (in_codes256 i Hi)) as H.
  cbv beta in H. now apply N.ltb_lt.
Qed.

Lemma mac_key i : i < 256 -> mac_rune i mod u16 = mac_rune i.
Proof. intros H. apply N.mod_small. unfold u16. now apply mac_rune_bmp. Qed.

(* the loop of the repaired decodeFormat0 *)
Lemma dec0_mac_loop_spec : forall d c acc,
  desc acc -> c + N.of_nat (length d) <= 256 ->
  (forall j, c <= j < c + N.of_nat (length d) -> has_key acc (mac_rune j) = false) ->
  let acc1 := dec0_mac_loop mac_rune c d acc in
  desc acc1 /\
  (forall j, c <= j < c + N.of_nat (length d) ->
     lookup acc1 (mac_rune j) = nth (N.to_nat (j - c)) d 0) /\
  (forall x, (forall j, c <= j < c + N.of_nat (length d) -> mac_rune j <> x) ->
     lookup acc1 x = lookup acc x).
Proof.
  induction d as [|g r IH]; intros c acc Hd Hc Hk; cbv zeta; cbn [dec0_mac_loop].
  - cbn [length] in *. split; [assumption|]. split; [intros j Hj; lia|reflexivity].
  - cbn [length] in Hc, Hk.
    set (acc0 := if g =? 0 then acc else put (mac_rune c mod u16) g acc).
    assert (Hkc : mac_rune c mod u16 = mac_rune c) by (apply mac_key; lia).
    assert (Hd0 : desc acc0) by (subst acc0; destruct (g =? 0); [assumption|now apply desc_put]).
    assert (Hk0 : forall j, c + 1 <= j < c + 1 + N.of_nat (length r) -> has_key acc0 (mac_rune j) = false).
    { intros j Hj. subst acc0. destruct (g =? 0); [apply Hk; lia|].
      rewrite Hkc, has_key_put. rewrite Hk by lia.
      destruct (mac_rune c =? mac_rune j) eqn:E; [|reflexivity].
      apply N.eqb_eq in E. apply mac_rune_inj in E; lia. }
    destruct (IH (c + 1) acc0 Hd0 ltac:(lia) Hk0) as (H1 & H2 & H3). cbv zeta in *.
    split; [exact H1|]. split.
    + intros j Hj. cbn [length] in Hj. destruct (N.eq_dec j c) as [->|Hne].
      * rewrite H3.
        -- rewrite N.sub_diag. cbn [N.to_nat nth]. subst acc0. destruct (g =? 0) eqn:E0.
           ++ apply N.eqb_eq in E0. subst g. apply lookup_no_key. apply Hk. lia.
           ++ rewrite Hkc, lookup_put, N.eqb_refl. reflexivity.
        -- intros j Hj' E. apply mac_rune_inj in E; lia.
      * rewrite H2 by lia.
        replace (N.to_nat (j - c)) with (S (N.to_nat (j - (c + 1)))) by lia. reflexivity.
    + intros x Hx. rewrite H3.
      * subst acc0. destruct (g =? 0); [reflexivity|].
        rewrite Hkc, lookup_put.
        destruct (mac_rune c =? x) eqn:E; [|reflexivity].
        apply N.eqb_eq in E. exfalso. apply (Hx c); [cbn [length]; lia|assumption].
      * intros j Hj. apply Hx. cbn [length]. lia.
Qed.

Lemma decode0_mac_spec data m :
  M_decode0_mac mac_rune data = Ok m ->
  sorted_keys m = true /\
  forall c, c < 256 -> lookup m (mac_rune c) = S_lookup0 data c.
Proof.
  unfold M_decode0_mac. change f0_dataLen with 256.
  destruct (N.of_nat (length data) <? 6) eqn:E1; [discriminate|].
  destruct (negb (N.of_nat (length (skipn 6 data)) =? 256)) eqn:E2; [discriminate|].
  apply negb_false_iff, N.eqb_eq in E2.
  intros H. apply Ok_inj in H. subst m.
  destruct (dec0_mac_loop_spec (skipn 6 data) 0 [] I ltac:(lia) ltac:(reflexivity)) as (H1 & H2 & _).
  cbv zeta in *. rewrite frev_rev. split; [now apply sorted_keys_rev_desc|].
  intros c Hc. rewrite lookup_rev_desc by assumption. rewrite H2 by lia.
  unfold S_lookup0. replace (c <? 256) with true by lia.
  rewrite N.sub_0_r. rewrite nth_skipn. f_equal. lia.
Qed.

(* Table.Get under the Macintosh key (1,0) on a byte table: the glyph of Mac
   Roman code c is found at the character mac.DecodeOne(c) *)
Lemma get_mac_format0_lemma data s :
  get16 data 0 = Ok 0 -> M_get_sub_v (1, 0, 0) data = Ok s ->
  exists m, s = F4 m /\ sorted_keys m = true /\
    forall c, c < 256 -> M_lookup s (Z.of_N (mac_rune c)) = Ok (S_lookup0 data c).
Proof.
  intros Hf H. rewrite get_sub_v_dispatch in H. cbn [N.eqb andb negb] in H.
  rewrite Hf in H. cbn [obind] in H. unfold S_dispatch in H. cbn [N.eqb] in H.
  destruct (M_decode0_mac mac_rune data) as [m| | |] eqn:E; cbn [omap obind] in H; try discriminate.
  apply Ok_inj in H. subst s. destruct (decode0_mac_spec data m E) as [Hs Hl].
  exists m. split; [reflexivity|]. split; [exact Hs|].
  intros c Hc. rewrite lookup4_spec. f_equal. unfold S_lookup.
  pose proof (mac_rune_bmp c Hc).
  replace ((0 <=? Z.of_N (mac_rune c)) && (Z.of_N (mac_rune c) <=? 65535))%Z with true by lia.
  rewrite N2Z.id. now apply Hl.
Qed.
