(* C09B/Proofs_wit.v — the summary lemma of CodeRange and the concrete
   witnesses (vm_compute) of the statements that do NOT hold. *)
From Coq Require Import String List NArith ZArith Lia Bool Permutation.
From Common Require Import Bytes Outcome.
From Gen Require Import C09 C09B.
From C09 Require Import Model Model4 ModelT Util.
From C09B Require Import Model Proofs_lookup Proofs_range Proofs_get Proofs_enum.
Import ListNotations.
Local Open Scope N_scope.

Lemma coderange_covers_lemma (s : sub) (lo hi : Z) :
  wf_sub s -> M_coderange s = (lo, hi) ->
  (forall c g, mapped s c g -> (lo <= rune_of_code s c <= hi)%Z) /\
  (lo <= hi)%Z /\ is_rune lo /\ is_rune hi /\
  match s with
  | F0 _ => lo = 0%Z /\ hi = 255%Z
  | F4 m | F12 m =>
      (m = [] -> lo = 0%Z /\ hi = 0%Z) /\
      (m <> [] -> (exists c g, In (c, g) m /\ rune_of_code s c = lo) /\
                  (exists c g, In (c, g) m /\ rune_of_code s c = hi))
  end.
Proof.
  intros Hwf E.
  split; [intros c g Hm; exact (coderange_covers_mapped s lo hi c g Hwf E Hm)|].
  split; [exact (coderange_le s lo hi Hwf E)|].
  destruct (coderange_runes s lo hi Hwf E) as [R1 R2]. split; [exact R1|]. split; [exact R2|].
  destruct s as [d|m|m].
  - exact (coderange_F0 d lo hi E).
  - exact (coderange_tight (F4 m) m lo hi (or_introl eq_refl) Hwf E).
  - exact (coderange_tight (F12 m) m lo hi (or_intror eq_refl) Hwf E).
Qed.

(* a *Format0 that maps nothing still reports 0..255 *)
Lemma coderange0_not_tight :
  exists d, wf_sub (F0 d) /\ M_coderange (F0 d) = (0%Z, 255%Z) /\ forall c g, mapped (F0 d) c g -> g = 0.
Proof.
  exists (repeat 0 256). split; [|split].
  - cbn [wf_sub]. split; [apply repeat_length|]. apply Forall_forall. intros x Hx.
    apply repeat_spec in Hx. subst. lia.
  - reflexivity.
  - intros c g [_ H]. rewrite <- H.
    destruct (nth_in_or_default (N.to_nat c) (repeat 0 256) 0) as [Hin|Hd]; [|exact Hd].
    now apply repeat_spec in Hin.
Qed.

(* ---------- InstallCMap storing into the existing map ---------- *)

Definition wit_old : list N := M_encode12 [(65, 4); (128512, 6)] 0.
Definition wit_heap : heap := [(1, [((3, 10, 0), wit_old)])].
Definition wit_font : font unit := mkFont (Some 1) tt.
Definition wit_new : sub := F12 [(65, 7)].

Lemma installcmap_inplace_witness :
  exists (h : heap) (f : font unit) (s : sub) (h' : heap) (f' : font unit),
    wf_sub s /\ live h f /\
    M_installcmap_inplace (fun _ => []) h f s = Ok (h', f') /\
    view h' f <> view h f /\
    tget (3, 10, 0) (view h' f') <> None /\
    exists i s', M_getbest_v (view h' f') = Ok (i, s') /\ M_lookup s' 65 <> M_lookup s 65.
Proof.
  exists wit_heap, wit_font, wit_new.
  destruct (M_installcmap_inplace (fun _ => []) wit_heap wit_font wit_new) as [[h' f']| | |] eqn:E;
    try (vm_compute in E; discriminate).
  exists h', f'.
  split. { cbn. split; [reflexivity|]. constructor; [cbn; lia|constructor]. }
  split. { cbn. discriminate. }
  split; [reflexivity|].
  vm_compute in E. apply Ok_inj in E. inversion E; subst h' f'; clear E.
  split. { vm_compute. discriminate. }
  split. { vm_compute. discriminate. }
  eexists. eexists. split; [vm_compute; reflexivity|]. vm_compute. discriminate.
Qed.

(* ---------- Macintosh byte table as found: handed out untranslated ---------- *)

(* Mac code 0x80 -> glyph 5, as a byte table *)
Definition wit_mac0 : list N := M_encode0 (repeat 0 128 ++ [5] ++ repeat 0 127) 0.

(* as found decodeFormat0 ignored code2rune: Table.Get returned the *Format0 of
   the raw bytes, and the glyph of Mac code 0x80 (A dieresis, U+00C4) was not
   found at U+00C4; as repaired it is *)
Lemma mac_format0_as_found_witness :
  exists (data d : list N) (c : N) (s : sub),
    c < 256 /\ S_lookup0 data c = 5 /\
    M_decode0 data = Ok d /\ M_lookup (F0 d) (Z.of_N (mac_rune c)) = Ok 0 /\
    M_get_sub_v (1, 0, 0) data = Ok s /\ M_lookup s (Z.of_N (mac_rune c)) = Ok 5.
Proof.
  exists wit_mac0.
  destruct (M_decode0 wit_mac0) as [d| | |] eqn:Ed; try (vm_compute in Ed; discriminate).
  destruct (M_get_sub_v (1, 0, 0) wit_mac0) as [s| | |] eqn:Es; try (vm_compute in Es; discriminate).
  exists d, 128, s.
  vm_compute in Ed. apply Ok_inj in Ed. subst d.
  vm_compute in Es. apply Ok_inj in Es. subst s.
  repeat split; vm_compute; reflexivity.
Qed.
