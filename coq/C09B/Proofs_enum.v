(* C09B/Proofs_enum.v — iterating low..high and calling Lookup enumerates
   exactly the non-zero entries of the mapping; the witnesses of what does NOT
   hold (range ending at the largest int32, in-place InstallCMap, Macintosh
   format 0). *)
From Coq Require Import String List NArith ZArith Lia Bool Permutation Sorted.
From Common Require Import Bytes Outcome.
From Gen Require Import C09 C09B.
From C09 Require Import Model Model4 ModelT Util.
From C09B Require Import Model Proofs_lookup Proofs_range Proofs_get.
Import ListNotations.
Local Open Scope Z_scope.

Lemma coderange_le s lo hi : wf_sub s -> M_coderange s = (lo, hi) -> lo <= hi.
Proof.
  intros Hwf E.
  pose proof (coderange_order_range s (sub_keys s) Hwf (Permutation_refl _)) as H.
  fold (M_coderange s) in H. rewrite E in H. cbn [fst snd] in H.
  destruct s as [d|m|m].
  - inversion H; subst. lia.
  - destruct H as [(_ & -> & ->)|(A1 & _ & A3)]; [lia|]. specialize (A3 _ A1). lia.
  - destruct H as [(_ & -> & ->)|(A1 & _ & A3)]; [lia|]. specialize (A3 _ A1). lia.
Qed.

Lemma coderange_F0 d lo hi : M_coderange (F0 d) = (lo, hi) -> lo = 0 /\ hi = 255.
Proof. intros H. inversion H. auto. Qed.

Lemma enum_part_lower s : forall n r p,
  In p (filter nz (map (fun x => (x, S_lookup s x)) (zrange r n))) -> r <= fst p.
Proof.
  intros n r p H. apply filter_In in H. destruct H as [H _].
  apply in_map_iff in H. destruct H as (x & <- & Hx). apply in_zrange in Hx. cbn [fst]. lia.
Qed.

Lemma enum_part_sorted s : forall n r,
  StronglySorted (fun a b : Z * N => fst a < fst b)
                 (filter nz (map (fun x => (x, S_lookup s x)) (zrange r n))).
Proof.
  induction n as [|n IH]; intros r; [constructor|].
  rewrite zrange_S. cbn [map filter]. destruct (nz (r, S_lookup s r)); [|apply IH].
  constructor; [apply IH|]. apply Forall_forall. intros p Hp.
  apply enum_part_lower in Hp. cbn [fst]. lia.
Qed.

Lemma loop_consts : names_loop_width = 64%N /\ explain_loop_width = 64%N.
Proof. split; reflexivity. Qed.

Lemma enumerate_lemma s lo hi :
  wf_sub s -> M_coderange s = (lo, hi) ->
  (forall fuel, (Z.to_nat (hi - lo + 2) <= fuel)%nat ->
     M_enumerate fuel s = Ok (S_enumerate s lo hi)) /\
  (forall r g, In (r, g) (S_enumerate s lo hi) <->
               is_rune r /\ g <> 0%N /\ S_lookup s r = g) /\
  StronglySorted (fun a b : Z * N => fst a < fst b) (S_enumerate s lo hi).
Proof.
  intros Hwf E.
  pose proof (coderange_le s lo hi Hwf E) as Hle.
  destruct (coderange_runes s lo hi Hwf E) as [Rlo Rhi].
  assert (Hlk : forall x, lo <= x <= hi -> M_lookup s x = Ok (S_lookup s x)).
  { intros x Hx. apply lookup_total.
    - unfold is_rune in *. lia.
    - intros d ->. destruct (coderange_F0 d lo hi E). lia. }
  split; [|split].
  - intros fuel Hf. unfold M_enumerate. rewrite E. rewrite (proj1 loop_consts).
    rewrite (enum_loop_run s hi (Z.to_nat (hi - lo + 1)) fuel lo []); try lia.
    + reflexivity.
    + exact Hlk.
  - intros r g. unfold S_enumerate. rewrite filter_In, in_map_iff. split.
    + intros [(x & Hx & Hin) Hnz]. inversion Hx; subst. apply in_zrange in Hin.
      unfold nz in Hnz. cbn [snd] in Hnz.
      split; [unfold is_rune in *; lia|]. split; [|reflexivity].
      intros H0. rewrite H0 in Hnz. discriminate.
    + intros (Hr & Hg & Hs).
      assert (Hl : M_lookup s r = Ok g).
      { rewrite <- Hs. apply lookup_total; [assumption|].
        intros d ->. destruct (Z.ltb_spec r 0) as [Hn|]; [|assumption].
        exfalso. apply Hg. rewrite <- Hs. unfold S_lookup.
        replace ((0 <=? r) && (r <=? 255))%Z with false by lia. reflexivity. }
      destruct (lookup_nonzero_mapped s r g Hr Hl Hg) as (c & Hm & Hc).
      pose proof (coderange_covers_mapped s lo hi c g Hwf E Hm) as Hin. rewrite Hc in Hin.
      split.
      * exists r. split; [now rewrite Hs|]. apply in_zrange. lia.
      * unfold nz. cbn [snd]. destruct (g =? 0)%N eqn:E0; [|reflexivity].
        apply N.eqb_eq in E0. contradiction.
  - apply enum_part_sorted.
Qed.

(* the same in terms of the entries of the value: what the loop sees is the
   set of entries with a non-zero glyph, each at the rune that denotes its code *)
Lemma enumerate_is_the_map s lo hi :
  wf_sub s -> M_coderange s = (lo, hi) ->
  forall r g, In (r, g) (S_enumerate s lo hi) <->
              g <> 0%N /\ exists c, mapped s c g /\ rune_of_code s c = r.
Proof.
  intros Hwf E r g. destruct (enumerate_lemma s lo hi Hwf E) as (_ & Hin & _).
  rewrite Hin. split.
  - intros (Hr & Hg & Hs). split; [assumption|].
    assert (Hl : M_lookup s r = Ok g).
    { rewrite <- Hs. apply lookup_total; [assumption|].
      intros d ->. destruct (Z.ltb_spec r 0) as [Hn|]; [|assumption].
      exfalso. apply Hg. rewrite <- Hs. unfold S_lookup.
      replace ((0 <=? r) && (r <=? 255))%Z with false by lia. reflexivity. }
    exact (lookup_nonzero_mapped s r g Hr Hl Hg).
  - intros (Hg & c & Hm & Hc).
    pose proof (lookup_mapped s c g Hwf Hm) as Hl. rewrite Hc in Hl.
    assert (Hr : is_rune r).
    { rewrite <- Hc. destruct s as [d|m|m]; cbn [rune_of_code mapped wf_sub] in *.
      - unfold is_rune. lia.
      - destruct Hwf as [_ Hb]. pose proof (proj1 (Forall_forall _ _) Hb _ Hm) as Hk.
        cbn [fst snd] in Hk. unfold is_rune. lia.
      - apply to_rune_is_rune. }
    split; [assumption|]. split; [assumption|].
    assert (H0 : forall d, s = F0 d -> 0 <= r).
    { intros d ->. rewrite <- Hc. cbn [rune_of_code]. lia. }
    rewrite (lookup_total s r Hr H0) in Hl. now apply Ok_inj in Hl.
Qed.

(* ---------- the range that ends at the largest int32 (loop as found) ---------- *)

Definition maxint_sub : sub := F12 [(2147483647%N, 1%N)].

Lemma enumerate_maxint_never_ends :
  wf_sub maxint_sub /\ M_coderange maxint_sub = (2147483647, 2147483647) /\
  forall fuel, M_enumerate_found fuel maxint_sub = OutOfFuel.
Proof.
  split; [|split].
  - cbn. split; [reflexivity|]. constructor; [cbn; lia|constructor].
  - reflexivity.
  - intros fuel. unfold M_enumerate_found.
    change (M_coderange maxint_sub) with (2147483647, 2147483647).
    apply enum_loop_maxint. unfold is_rune. lia.
Qed.
