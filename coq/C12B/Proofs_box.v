(* C12B/Proofs_box.v — Extent and the point loop: the running box is the
   componentwise extremum of the points seen so far. *)
From Coq Require Import List NArith ZArith QArith Qround Qabs Bool Lia Lqa.
From Common Require Import Outcome.
From Gen Require Import C12B.
From C12 Require Import Codec Util Model Model2 Model3.
From C12B Require Import Model Spec.
Import ListNotations.

Local Open Scope Q_scope.

(* ------------------------------------------------------------------ *)
(* comparisons                                                         *)

Lemma Qltb_lt x y : Qltb x y = true <-> x < y.
Proof.
  unfold Qltb. rewrite negb_true_iff. split.
  - intros H. apply Qnot_le_lt. intros L. apply Qle_bool_iff in L. congruence.
  - intros H. destruct (Qle_bool y x) eqn:E; [|reflexivity].
    apply Qle_bool_iff in E. exfalso. exact (Qlt_not_le _ _ H E).
Qed.

Lemma Qltb_ge x y : Qltb x y = false <-> y <= x.
Proof.
  unfold Qltb. rewrite negb_false_iff. apply Qle_bool_iff.
Qed.

Lemma Qltb_comp x x' y y' : x == x' -> y == y' -> Qltb x y = Qltb x' y'.
Proof. intros Hx Hy. unfold Qltb. now rewrite Hx, Hy. Qed.

Lemma Qis_zero_true x : Qis_zero x = true <-> x == 0.
Proof. unfold Qis_zero. apply Qeq_bool_iff. Qed.

Lemma Qis_zero_false x : Qis_zero x = false <-> ~ x == 0.
Proof. rewrite <- Qis_zero_true. destruct (Qis_zero x); split; congruence. Qed.

Lemma qmin_cases a b : (b < a /\ qmin a b = b) \/ (a <= b /\ qmin a b = a).
Proof.
  unfold qmin. destruct (Qltb b a) eqn:E.
  - left. split; [now apply Qltb_lt|reflexivity].
  - right. split; [now apply Qltb_ge|reflexivity].
Qed.

Lemma qmax_cases a b : (a < b /\ qmax a b = b) \/ (b <= a /\ qmax a b = a).
Proof.
  unfold qmax. destruct (Qltb a b) eqn:E.
  - left. split; [now apply Qltb_lt|reflexivity].
  - right. split; [now apply Qltb_ge|reflexivity].
Qed.

Lemma qmin_comp a a' b b' : a == a' -> b == b' -> qmin a b == qmin a' b'.
Proof.
  intros Ha Hb. unfold qmin. rewrite (Qltb_comp b b' a a' Hb Ha).
  destruct (Qltb b' a'); assumption.
Qed.

Lemma qmax_comp a a' b b' : a == a' -> b == b' -> qmax a b == qmax a' b'.
Proof.
  intros Ha Hb. unfold qmax. rewrite (Qltb_comp a a' b b' Ha Hb).
  destruct (Qltb a' b'); assumption.
Qed.

(* ------------------------------------------------------------------ *)
(* folds of qmin / qmax                                                *)

Lemma fold_qmin_spec l : forall a,
  let m := fold_left qmin l a in
  (m = a \/ In m l) /\ m <= a /\ Forall (fun x => m <= x) l.
Proof.
  induction l as [|x l IH]; intros a; cbn [fold_left].
  - cbn. split; [now left|]. split; [apply Qle_refl|constructor].
  - specialize (IH (qmin a x)). cbn zeta in IH. destruct IH as (H1 & H2 & H3).
    cbn zeta. destruct (qmin_cases a x) as [[L E]|[L E]]; rewrite E in *.
    + split; [|split].
      * destruct H1 as [H1|H1]; [right; left; now symmetry|right; now right].
      * lra.
      * constructor; [exact H2|exact H3].
    + split; [|split].
      * destruct H1 as [H1|H1]; [now left|right; now right].
      * exact H2.
      * constructor; [lra|exact H3].
Qed.

Lemma fold_qmax_spec l : forall a,
  let m := fold_left qmax l a in
  (m = a \/ In m l) /\ a <= m /\ Forall (fun x => x <= m) l.
Proof.
  induction l as [|x l IH]; intros a; cbn [fold_left].
  - cbn. split; [now left|]. split; [apply Qle_refl|constructor].
  - specialize (IH (qmax a x)). cbn zeta in IH. destruct IH as (H1 & H2 & H3).
    cbn zeta. destruct (qmax_cases a x) as [[L E]|[L E]]; rewrite E in *.
    + split; [|split].
      * destruct H1 as [H1|H1]; [right; left; now symmetry|right; now right].
      * lra.
      * constructor; [exact H2|exact H3].
    + split; [|split].
      * destruct H1 as [H1|H1]; [now left|right; now right].
      * exact H2.
      * constructor; [lra|exact H3].
Qed.

Lemma fold_qmin_is_min a l : is_qmin (fold_left qmin l a) (a :: l).
Proof.
  destruct (fold_qmin_spec l a) as (H1 & H2 & H3). split.
  - destruct H1 as [H1|H1]; [left; now symmetry|now right].
  - constructor; assumption.
Qed.

Lemma fold_qmax_is_max a l : is_qmax (fold_left qmax l a) (a :: l).
Proof.
  destruct (fold_qmax_spec l a) as (H1 & H2 & H3). split.
  - destruct H1 as [H1|H1]; [left; now symmetry|now right].
  - constructor; assumption.
Qed.

Lemma fold_qmin_comp l : forall l' a a',
  Forall2 Qeq l l' -> a == a' -> fold_left qmin l a == fold_left qmin l' a'.
Proof.
  induction l as [|x l IH]; intros l' a a' H Ha; inversion H; subst; cbn [fold_left]; [exact Ha|].
  apply IH; [assumption|]. now apply qmin_comp.
Qed.

Lemma fold_qmax_comp l : forall l' a a',
  Forall2 Qeq l l' -> a == a' -> fold_left qmax l a == fold_left qmax l' a'.
Proof.
  induction l as [|x l IH]; intros l' a a' H Ha; inversion H; subst; cbn [fold_left]; [exact Ha|].
  apply IH; [assumption|]. now apply qmax_comp.
Qed.

(* ------------------------------------------------------------------ *)
(* the running box                                                     *)

Lemma box4_add_later l b r u x y :
  box4_add (mkBox4 false l b r u) x y = mkBox4 false (qmin l x) (qmin b y) (qmax r x) (qmax u y).
Proof. reflexivity. Qed.

Lemma box4_add_first l b r u x y :
  box4_add (mkBox4 true l b r u) x y = mkBox4 false x y x y.
Proof. reflexivity. Qed.

Lemma acc_points_later pts : forall l b r u,
  acc_points pts (mkBox4 false l b r u) =
    mkBox4 false (fold_left qmin (map fst pts) l) (fold_left qmin (map snd pts) b)
                 (fold_left qmax (map fst pts) r) (fold_left qmax (map snd pts) u).
Proof.
  induction pts as [|p t IH]; intros l b r u; [reflexivity|].
  unfold acc_points in *. cbn [fold_left map]. rewrite box4_add_later. apply IH.
Qed.

Lemma acc_points_init pts :
  qrect_of_box4 (acc_points pts box4_init) = S_bbox pts /\
  b_first (acc_points pts box4_init) = match pts with [] => true | _ => false end.
Proof.
  destruct pts as [|p t]; [split; reflexivity|].
  unfold acc_points, box4_init. cbn [fold_left]. rewrite box4_add_first.
  fold (acc_points t (mkBox4 false (fst p) (snd p) (fst p) (snd p))).
  rewrite acc_points_later. split; reflexivity.
Qed.

(* the command loop visits exactly the points of the commands that carry one *)
Lemma box_loop_points sw tr cmds : forall s,
  cmds_wf sw cmds ->
  box_loop sw tr cmds s =
    Ok (acc_points (map (fun p => tr (fst p) (snd p)) (cmds_points sw cmds)) s).
Proof.
  induction cmds as [|c t IH]; intros s Hwf; [reflexivity|].
  inversion Hwf as [|? ? Hc Ht]; subst. cbn [box_loop cmds_points].
  unfold cmd_ok in Hc. destruct (cmd_point sw c) as [| |x y] eqn:E; [now apply IH|congruence|].
  cbn [map fst snd]. destruct (tr x y) as [x' y'] eqn:Et.
  rewrite IH by assumption. unfold acc_points. cbn [fold_left fst snd]. reflexivity.
Qed.

Lemma box_loop_panic sw tr cmds : forall s,
  ~ cmds_wf sw cmds -> box_loop sw tr cmds s = Panic.
Proof.
  induction cmds as [|c t IH]; intros s Hn; [exfalso; apply Hn; constructor|].
  cbn [box_loop]. destruct (cmd_point sw c) as [| |x y] eqn:E.
  - apply IH. intros H. apply Hn. constructor; [unfold cmd_ok; congruence|exact H].
  - reflexivity.
  - destruct (tr x y). apply IH. intros H. apply Hn. constructor; [unfold cmd_ok; congruence|exact H].
Qed.

Lemma map_id_pts (pts : list (Q * Q)) : map (fun p => tr_id (fst p) (snd p)) pts = pts.
Proof. induction pts as [|[x y] t IH]; [reflexivity|]. cbn. now rewrite IH. Qed.

(* ------------------------------------------------------------------ *)
(* Extent                                                              *)

Lemma go_i16_id z : I16 z -> go_i16 z = z.
Proof.
  intros H. unfold go_i16, I16 in *.
  replace ((-2147483648 <=? z)%Z && (z <=? 2147483647)%Z) with true
    by (symmetry; apply andb_true_iff; split; apply Z.leb_le; lia).
  now apply wrap_i16_id.
Qed.

Lemma go_i16_range z : I16 (go_i16 z).
Proof.
  unfold go_i16. destruct ((-2147483648 <=? z)%Z && (z <=? 2147483647)%Z).
  - apply wrap_i16_range.
  - unfold I16; lia.
Qed.

Lemma extent_gen cmds :
  cmds_wf c12b_extent_switch cmds -> M_extent_cmds cmds = Ok (S_extent cmds).
Proof.
  intros Hwf. unfold M_extent_cmds, S_extent. rewrite box_loop_points by assumption.
  rewrite map_id_pts. cbn [obind].
  destruct (acc_points_init (cmds_points c12b_extent_switch cmds)) as [Hb Hf].
  unfold S_extent_pts. destruct (cmds_points c12b_extent_switch cmds) as [|p t] eqn:E.
  - reflexivity.
  - rewrite <- Hb. reflexivity.
Qed.

Lemma extent_panic cmds :
  ~ cmds_wf c12b_extent_switch cmds -> M_extent_cmds cmds = Panic.
Proof. intros H. unfold M_extent_cmds. now rewrite box_loop_panic. Qed.

(* the box of a non-empty point set: extrema, and proper *)
Lemma S_bbox_extrema p t :
  let b := S_bbox (p :: t) in
  is_qmin (q_llx b) (map fst (p :: t)) /\ is_qmin (q_lly b) (map snd (p :: t)) /\
  is_qmax (q_urx b) (map fst (p :: t)) /\ is_qmax (q_ury b) (map snd (p :: t)).
Proof.
  cbv zeta. cbn [S_bbox q_llx q_lly q_urx q_ury map].
  repeat split; first [apply fold_qmin_is_min | apply fold_qmax_is_max].
Qed.

Lemma S_bbox_proper pts : qproper (S_bbox pts).
Proof.
  destruct pts as [|p t]; [split; cbn; apply Qle_refl|].
  unfold qproper. cbn [S_bbox q_llx q_lly q_urx q_ury].
  destruct (fold_qmin_spec (map fst t) (fst p)) as (_ & A & _).
  destruct (fold_qmax_spec (map fst t) (fst p)) as (_ & B & _).
  destruct (fold_qmin_spec (map snd t) (snd p)) as (_ & C & _).
  destruct (fold_qmax_spec (map snd t) (snd p)) as (_ & D & _).
  cbv zeta in *. split; lra.
Qed.

(* rounding: floor of a minimum / ceiling of a maximum of values that fit *)
Lemma is_qmin_in m l (P : Q -> Prop) : is_qmin m l -> Forall P l -> P m.
Proof. intros [Hin _] HF. rewrite Forall_forall in HF. now apply HF. Qed.

Lemma is_qmax_in m l (P : Q -> Prop) : is_qmax m l -> Forall P l -> P m.
Proof. intros [Hin _] HF. rewrite Forall_forall in HF. now apply HF. Qed.

Lemma extent_fits p t :
  pts_fit_i16 (p :: t) ->
  let b := S_bbox (p :: t) in
  S_extent_pts (p :: t) =
    mkRect (Qfloor (q_llx b)) (Qfloor (q_lly b)) (Qceiling (q_urx b)) (Qceiling (q_ury b)).
Proof.
  intros Hfit. cbv zeta. destruct (S_bbox_extrema p t) as (A & B & C & D). cbv zeta in *.
  unfold pts_fit_i16 in Hfit.
  assert (Fx : Forall (fun x => I16 (Qfloor x) /\ I16 (Qceiling x)) (map fst (p :: t))).
  { rewrite Forall_map. eapply Forall_impl; [|exact Hfit]. cbn. tauto. }
  assert (Fy : Forall (fun x => I16 (Qfloor x) /\ I16 (Qceiling x)) (map snd (p :: t))).
  { rewrite Forall_map. eapply Forall_impl; [|exact Hfit]. cbn. tauto. }
  unfold S_extent_pts. cbv zeta.
  pose proof (is_qmin_in _ _ _ A Fx) as [A1 _].
  pose proof (is_qmin_in _ _ _ B Fy) as [B1 _].
  pose proof (is_qmax_in _ _ _ C Fx) as [_ C1].
  pose proof (is_qmax_in _ _ _ D Fy) as [_ D1].
  now rewrite !go_i16_id by assumption.
Qed.

(* the table as it is today: the points are the END points *)
Lemma cmd_point_end_point c :
  c12b_extent_switch = [([1%N; 2%N], [0%N; 1%N]); ([3%N], [4%N; 5%N])] ->
  cmd_point c12b_extent_switch c <> PtPanic ->
  match end_point c with
  | Some (x, y) => cmd_point c12b_extent_switch c = Pt x y
  | None => cmd_point c12b_extent_switch c = PtNone
  end.
Proof.
  intros Hsw. rewrite Hsw. unfold cmd_point, end_point.
  change c12b_OpMoveTo with 1%N. change c12b_OpLineTo with 2%N. change c12b_OpCurveTo with 3%N.
  cbn [switch_lookup existsb]. destruct c as [op args]. cbn [c_op c_args].
  destruct (N.eqb op 1) eqn:E1; cbn [orb].
  - change (N.to_nat 0) with 0%nat. change (N.to_nat 1) with 1%nat.
    destruct args as [|x [|y r]]; cbn [nth_error]; intros H; congruence.
  - destruct (N.eqb op 2) eqn:E2; cbn [orb].
    + change (N.to_nat 0) with 0%nat. change (N.to_nat 1) with 1%nat.
      destruct args as [|x [|y r]]; cbn [nth_error]; intros H; congruence.
    + destruct (N.eqb op 3) eqn:E3; cbn [orb].
      * change (N.to_nat 4) with 4%nat. change (N.to_nat 5) with 5%nat.
        destruct args as [|a [|b [|c0 [|d [|x [|y r]]]]]]; cbn [nth_error]; intros H; congruence.
      * reflexivity.
Qed.

Lemma cmds_points_end_points cmds :
  c12b_extent_switch = [([1%N; 2%N], [0%N; 1%N]); ([3%N], [4%N; 5%N])] ->
  cmds_wf c12b_extent_switch cmds ->
  cmds_points c12b_extent_switch cmds = end_points cmds.
Proof.
  intros Hsw Hwf. induction cmds as [|c t IH]; [reflexivity|].
  inversion Hwf as [|? ? Hc Ht]; subst. cbn [cmds_points end_points].
  pose proof (cmd_point_end_point c Hsw Hc) as H.
  destruct (end_point c) as [[x y]|]; rewrite H; now rewrite IH.
Qed.
