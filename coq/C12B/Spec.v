(* C12B/Spec.v — the specification side: bounding boxes as componentwise
   extrema of point sets, the points a command list contributes, the
   transformation of a point by a sequence of matrices applied one after the
   other, the union of the non-blank glyph boxes, and the well-formedness
   predicates the theorems quantify over.  Written from the property text, not
   from the loops of the Go code. *)
From Coq Require Import List NArith ZArith QArith Qround Qabs Bool.
From Common Require Import Outcome.
From Gen Require Import C12B.
From C12 Require Import Codec Util Model Model2 Model3.
From C12B Require Import Model.
Import ListNotations.

Local Open Scope Q_scope.

(* the smaller / larger of two rationals (one of the two arguments, so that
   "is an element of the list" can be stated with Leibniz equality) *)
Definition qmin (a b : Q) : Q := if Qltb b a then b else a.
Definition qmax (a b : Q) : Q := if Qltb a b then b else a.

Definition is_qmin (m : Q) (l : list Q) : Prop := In m l /\ Forall (fun x => m <= x) l.
Definition is_qmax (m : Q) (l : list Q) : Prop := In m l /\ Forall (fun x => x <= m) l.

(* the bounding box of a set of points; the zero rectangle for no point *)
Definition S_bbox (pts : list (Q * Q)) : qrect :=
  match pts with
  | [] => qrect_zero
  | p :: t => mkQrect (fold_left qmin (map fst t) (fst p)) (fold_left qmin (map snd t) (snd p))
                      (fold_left qmax (map fst t) (fst p)) (fold_left qmax (map snd t) (snd p))
  end.

(* a command list the reader can deliver: every command that carries a point
   has the arguments the switch reads (moveto / lineto: 2, curveto: 6) *)
Definition cmd_ok (sw : list (list N * list N)) (c : cmd) : Prop := cmd_point sw c <> PtPanic.
Definition cmds_wf (sw : list (list N * list N)) (cmds : list cmd) : Prop := Forall (cmd_ok sw) cmds.

(* written out for the table as it is today (see Tie.v): the points are the
   END points of moveto, lineto and curveto; the two control points of a
   curveto, hintmask, cntrmask and unknown op codes contribute nothing *)
Definition end_point (c : cmd) : option (Q * Q) :=
  if (c_op c =? c12b_OpMoveTo)%N || (c_op c =? c12b_OpLineTo)%N then
    match c_args c with x :: y :: _ => Some (x, y) | _ => None end
  else if (c_op c =? c12b_OpCurveTo)%N then
    match c_args c with _ :: _ :: _ :: _ :: x :: y :: _ => Some (x, y) | _ => None end
  else None.

Fixpoint end_points (cmds : list cmd) : list (Q * Q) :=
  match cmds with
  | [] => []
  | c :: t => match end_point c with Some p => p :: end_points t | None => end_points t end
  end.

(* Extent: floor of the minima, ceiling of the maxima, as Int16 *)
Definition S_extent_pts (pts : list (Q * Q)) : rect :=
  match pts with
  | [] => zero_rect
  | _ => let b := S_bbox pts in
         mkRect (go_i16 (Qfloor (q_llx b))) (go_i16 (Qfloor (q_lly b)))
                (go_i16 (Qceiling (q_urx b))) (go_i16 (Qceiling (q_ury b)))
  end.

Definition S_extent (cmds : list cmd) : rect := S_extent_pts (cmds_points c12b_extent_switch cmds).

(* all rounded coordinates fit Int16: the conversion is the identity *)
Definition pts_fit_i16 (pts : list (Q * Q)) : Prop :=
  Forall (fun p => I16 (Qfloor (fst p)) /\ I16 (Qceiling (fst p)) /\
                   I16 (Qfloor (snd p)) /\ I16 (Qceiling (snd p))) pts.

(* a point through a sequence of matrices, one after the other *)
Definition apply_chain (ms : list mat) (p : Q * Q) : Q * Q :=
  fold_left (fun p M => mat_apply M (fst p) (snd p)) ms p.

(* the matrices glyph space goes through before the x1000 scale: the glyph's
   Font DICT matrix FIRST and the top-level FontMatrix SECOND for a CID-keyed
   font, the FontMatrix alone otherwise (Adobe TN 5176; PDF 32000 9.7.4.2) *)
Definition glyph_chain (f : cff_font) (fm : mat) (gid : nat) : option (list mat) :=
  if cf_cid f then
    match nth_error (cf_fdsel f) gid with
    | None => None
    | Some fd => match nth_error (cf_fmats f) fd with
                 | None => None
                 | Some F => Some [F; fm]
                 end
    end
  else Some [fm].

Definition qrect_eq (a b : qrect) : Prop :=
  q_llx a == q_llx b /\ q_lly a == q_lly b /\ q_urx a == q_urx b /\ q_ury a == q_ury b.

Definition pt_eq (p q : Q * Q) : Prop := fst p == fst q /\ snd p == snd q.

Definition qproper (r : qrect) : Prop := q_llx r <= q_urx r /\ q_lly r <= q_ury r.

(* the union of the non-blank boxes *)
Definition nonzero_boxes (boxes : list qrect) : list qrect :=
  filter (fun r => negb (qrect_is_zero r)) boxes.

Definition S_fontbbox_pdf (boxes : list qrect) : qrect :=
  match nonzero_boxes boxes with
  | [] => qrect_zero
  | b :: t => mkQrect (fold_left qmin (map q_llx t) (q_llx b)) (fold_left qmin (map q_lly t) (q_lly b))
                      (fold_left qmax (map q_urx t) (q_urx b)) (fold_left qmax (map q_ury t) (q_ury b))
  end.

(* fonts the reader can deliver *)
Definition cff_wf (f : cff_font) : Prop :=
  Forall (fun g => cmds_wf c12b_extent_switch (g_cmds g) /\ cmds_wf c12b_bboxpdf_switch (g_cmds g))
         (cf_glyphs f) /\
  (cf_cid f = true ->
     length (cf_fdsel f) = length (cf_glyphs f) /\
     Forall (fun fd => (fd < length (cf_fmats f))%nat) (cf_fdsel f)).

Definition glyf_wf (f : glyf_font) : Prop :=
  match gf_widths f with Some w => length w = length (gf_glyphs f) | None => True end.

(* IsFixedPitch on rational widths: every non-zero width lies within 1/2 of
   the first non-zero width *)
Definition first_nonzero (ws : list Q) : option Q := find (fun w => negb (Qis_zero w)) ws.

Definition all_near_first (ws : list Q) : Prop :=
  match first_nonzero ws with
  | None => True
  | Some w0 => Forall (fun w => w == 0 \/ Qabs (w0 - w) < 1 # 2) ws
  end.

(* the advance widths are integers (always so for TrueType outlines) *)
Definition int_widths (ws : list Z) : list Q := map Zq ws.
