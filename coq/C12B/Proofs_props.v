(* C12B/Proofs_props.v - the statements of Props.v whose proofs take more than
   an instantiation, proved here from the lemmas of the other Proofs_* files
   (Props.v then says `exact name_stmt`). *)
From Coq Require Import List NArith ZArith QArith Qround Qabs Bool Lia.
From Coq Require String.
From Common Require Import Outcome.
From Gen Require Import C12B.
From C12 Require Import Codec Util Model Model2 Model3 Proofs_hmtx Proofs_derived.
From C12 Require Props.
From C12B Require Import Model Spec Proofs_box Proofs_pdf Proofs_font Proofs_refuted Tie.
Import ListNotations.

Local Open Scope Q_scope.

Lemma extent_is_bbox_stmt :
  forall cmds : list cmd,
    let pts := cmds_points c12b_extent_switch cmds in
    (cmds_wf c12b_extent_switch cmds -> M_extent_cmds cmds = Ok (S_extent cmds)) /\
    (~ cmds_wf c12b_extent_switch cmds -> M_extent_cmds cmds = Panic) /\
    (pts = [] -> S_extent cmds = zero_rect) /\
    (forall p t, pts = p :: t ->
       let b := S_bbox pts in
       is_qmin (q_llx b) (map fst pts) /\ is_qmin (q_lly b) (map snd pts) /\
       is_qmax (q_urx b) (map fst pts) /\ is_qmax (q_ury b) (map snd pts) /\
       S_extent cmds = mkRect (go_i16 (Qfloor (q_llx b))) (go_i16 (Qfloor (q_lly b)))
                              (go_i16 (Qceiling (q_urx b))) (go_i16 (Qceiling (q_ury b))) /\
       (pts_fit_i16 pts ->
          S_extent cmds = mkRect (Qfloor (q_llx b)) (Qfloor (q_lly b))
                                 (Qceiling (q_urx b)) (Qceiling (q_ury b)) /\
          proper (S_extent cmds) /\ rect_ok_i16 (S_extent cmds))) /\
    (cmds_wf c12b_extent_switch cmds -> pts = end_points cmds).
Proof.
  intros cmds pts. split; [apply extent_gen|]. split; [apply extent_panic|].
  split; [intros E; unfold S_extent; fold pts; now rewrite E|]. split.
  - intros p t E b. subst b. rewrite E.
    destruct (S_bbox_extrema p t) as (A & B & C & D). cbv zeta in *.
    repeat (split; [assumption|]). split.
    + unfold S_extent. fold pts. rewrite E. reflexivity.
    + intros Hfit. unfold S_extent. fold pts. rewrite E.
      split; [now apply extent_fits|]. now apply S_extent_pts_ok.
  - intros Hwf. apply cmds_points_end_points; [apply c12b_switch_tied|exact Hwf].
Qed.

Lemma glyph_chain_def_stmt :
  forall (f : cff_font) (fm : mat) (gid : nat),
    (cf_cid f = false -> glyph_chain f fm gid = Some [fm]) /\
    (forall fd F, cf_cid f = true -> nth_error (cf_fdsel f) gid = Some fd ->
                  nth_error (cf_fmats f) fd = Some F -> glyph_chain f fm gid = Some [F; fm]).
Proof.
  intros f fm gid. unfold glyph_chain. split.
  - intros ->. reflexivity.
  - intros fd F -> -> ->. reflexivity.
Qed.

Lemma glyf_glyph_bbox_pdf_def_stmt :
  forall (f : glyf_font) (fm : mat) (gid : nat),
    (forall r, nth_error (gf_glyphs f) gid = Some (Some r) ->
       exists b, M_glyf_glyph_bbox_pdf f fm gid = Ok b /\
                 qrect_eq b (S_bbox (map (apply_chain [fm; scale1000]) (corners r))) /\ qproper b) /\
    (nth_error (gf_glyphs f) gid = Some None -> M_glyf_glyph_bbox_pdf f fm gid = Ok qrect_zero) /\
    (nth_error (gf_glyphs f) gid = None -> M_glyf_glyph_bbox_pdf f fm gid = Panic).
Proof.
  intros f fm gid. split; [intros r; apply glyf_glyph_bbox_pdf_gen|].
  unfold M_glyf_glyph_bbox_pdf. split; intros ->; reflexivity.
Qed.

Lemma font_bbox_pdf_def_stmt :
  (forall f : cff_font, cff_wf f ->
     exists boxes,
       omapM (M_cff_glyph_bbox_pdf f (cf_top f)) (gids (cf_numglyphs f)) = Ok boxes /\
       length boxes = cf_numglyphs f /\ Forall qproper boxes /\
       M_cff_font_bbox_pdf f = Ok (S_fontbbox_pdf boxes)) /\
  (forall f : glyf_font,
     exists boxes,
       omapM (M_glyf_glyph_bbox_pdf f (gf_top f)) (gids (gf_numglyphs f)) = Ok boxes /\
       length boxes = gf_numglyphs f /\ Forall qproper boxes /\
       M_glyf_font_bbox_pdf f = Ok (S_fontbbox_pdf boxes)) /\
  (forall boxes : list qrect,
     let ne := nonzero_boxes boxes in
     (ne = [] -> S_fontbbox_pdf boxes = qrect_zero) /\
     (ne <> [] ->
        is_qmin (q_llx (S_fontbbox_pdf boxes)) (map q_llx ne) /\
        is_qmin (q_lly (S_fontbbox_pdf boxes)) (map q_lly ne) /\
        is_qmax (q_urx (S_fontbbox_pdf boxes)) (map q_urx ne) /\
        is_qmax (q_ury (S_fontbbox_pdf boxes)) (map q_ury ne))).
Proof.
  split; [exact cff_font_bbox_pdf_gen|]. split; [exact glyf_font_bbox_pdf_gen|exact S_fontbbox_pdf_extrema].
Qed.

Lemma font_bbox_def_stmt :
  (forall f : cff_font, cff_wf f -> glyphs_fit f ->
     M_cff_glyph_bboxes f = Ok (cff_boxes f) /\
     M_cff_font_bbox f = Ok (S_fontbbox (cff_boxes f)) /\
     Forall proper (cff_boxes f) /\ Forall rect_ok_i16 (cff_boxes f)) /\
  (forall f : glyf_font, Forall proper (M_glyf_glyph_bboxes f) ->
     M_glyf_font_bbox f = S_fontbbox (M_glyf_glyph_bboxes f)) /\
  (forall boxes : list rect, Forall proper boxes ->
     M_fontbbox boxes = S_fontbbox boxes /\
     (nonempty_boxes boxes = [] -> S_fontbbox boxes = zero_rect) /\
     (nonempty_boxes boxes <> [] ->
        is_min_of (llx (S_fontbbox boxes)) (map llx (nonempty_boxes boxes)) /\
        is_min_of (lly (S_fontbbox boxes)) (map lly (nonempty_boxes boxes)) /\
        is_max_of (urx (S_fontbbox boxes)) (map urx (nonempty_boxes boxes)) /\
        is_max_of (ury (S_fontbbox boxes)) (map ury (nonempty_boxes boxes)))).
Proof.
  split; [|split].
  - intros f Hwf Hfit. destruct (cff_font_bbox_gen f Hwf Hfit) as [A B].
    destruct (cff_boxes_ok f Hfit) as [P R]. repeat split; assumption.
  - intros f P. unfold M_glyf_font_bbox. now apply fontbbox_union_gen.
  - exact C12.Props.fontbbox_union.
Qed.

Lemma width_queries_agree_stmt :
  forall f : cff_font, cff_wf f ->
    (forall gid, M_cff_glyph_width f gid =
                 match nth_error (M_cff_widths f) gid with Some w => Ok w | None => Panic end) /\
    (exists l, M_cff_widths_pdf f = Ok l /\ length l = cf_numglyphs f /\
       forall gid g chain,
         nth_error (cf_glyphs f) gid = Some g -> glyph_chain f (cf_top f) gid = Some chain ->
         exists M, glyph_matrix f (cf_top f) gid = Ok M /\
                   nth_error l gid = Some (g_width g * m0 M) /\
                   M_cff_glyph_width_pdf f gid = Ok (g_width g * (qfactor M * 1000)) /\
                   ((m1 M * m2 M == 0 \/ Qabs (m3 M) <= 1 # 1000000) ->
                      g_width g * (qfactor M * 1000) == 1000 * (g_width g * m0 M))) /\
    (cf_cid f = true -> M_cff_widths_map_pdf f = None) /\
    (cf_cid f = false ->
       exists m, M_cff_widths_map_pdf f = Some m /\ length m = cf_numglyphs f /\
         forall pre g post,
           cf_glyphs f = pre ++ g :: post ->
           ~ In (g_name g) (map g_name post) ->
           assoc_last m (g_name g) = Some (g_width g * (qfactor (cf_top f) * 1000)) /\
           M_cff_glyph_width_pdf f (length pre) = Ok (g_width g * (qfactor (cf_top f) * 1000))).
Proof.
  intros f Hwf. split; [apply cff_glyph_width_nth|]. split.
  - destruct (cff_widths_pdf_gen f Hwf) as (l & E & Hlen & H). exists l. split; [exact E|]. split; [exact Hlen|].
    intros gid g chain Hg Hc. destruct (H gid g chain Hg Hc) as (M & A & B & C).
    exists M. repeat (split; [assumption|]). intros Hq. rewrite (qfactor_plain M Hq). ring.
  - apply cff_widths_map_gen.
Qed.

Lemma width_queries_agree_glyf_stmt :
  forall f : glyf_font,
    (forall w, gf_widths f = Some w -> length w = gf_numglyphs f ->
       M_glyf_widths f = Ok (int_widths w) /\
       M_glyf_widths_pdf f = Ok (Some (map (fun x => Zq x / Zq (gf_upem f)) w)) /\
       (forall gid x, nth_error w gid = Some x ->
          M_glyf_glyph_width f gid = Ok (Zq x) /\
          M_glyf_glyph_width_pdf f gid = Ok (Zq x / (Zq (gf_upem f) / 1000)) /\
          (gf_upem f <> 0%Z -> Zq x / (Zq (gf_upem f) / 1000) == 1000 * (Zq x / Zq (gf_upem f)))) /\
       (forall gid, (length w <= gid)%nat ->
          M_glyf_glyph_width f gid = Panic /\ M_glyf_glyph_width_pdf f gid = Panic) /\
       M_glyf_fixed_pitch f = Ok (M_fixedpitch w)) /\
    (gf_widths f = None ->
       M_glyf_widths f = Ok (repeat 0 (gf_numglyphs f)) /\
       M_glyf_widths_pdf f = Ok None /\
       (forall gid, M_glyf_glyph_width f gid = Ok 0 /\ M_glyf_glyph_width_pdf f gid = Ok 0) /\
       M_glyf_fixed_pitch f = Ok (negb (gf_numglyphs f =? 0)%nat)).
Proof. intros f. split; [apply glyf_width_queries_gen|apply glyf_widths_nil]. Qed.

Lemma fixed_pitch_queries_stmt :
  (forall ws : list Q, M_fixedpitch_q ws = true <-> ws <> [] /\ all_near_first ws) /\
  (forall ws : list Z, M_fixedpitch_q (int_widths ws) = M_fixedpitch ws) /\
  (forall ws : list Z, M_fixedpitch_q (int_widths ws) = true <-> ws <> [] /\ all_equal_nonzero ws) /\
  (M_fixedpitch_q [500; 0; 500 + (1 # 4)] = true /\ M_fixedpitch_q [500; 500 + (1 # 2)] = false).
Proof.
  split; [exact fixed_pitch_q_gen|]. split; [exact fixedpitch_int|]. split.
  - intros ws. rewrite fixedpitch_int. apply C12.Props.fixed_pitch_def.
  - exact fixed_pitch_fractional_w.
Qed.

Lemma queries_total_stmt :
  forall (f : cff_font) (fm : mat), cff_wf f ->
    (forall gid, (gid < cf_numglyphs f)%nat ->
       exists g, nth_error (cf_glyphs f) gid = Some g /\
         M_cff_glyph_width f gid = Ok (g_width g) /\
         M_cff_glyph_name f gid = Ok (g_name g) /\
         M_cff_glyph_bbox f gid = Ok (S_extent (g_cmds g)) /\
         M_cff_glyph_height f gid = Ok (ury (S_extent (g_cmds g))) /\
         (exists w, M_cff_glyph_width_pdf f gid = Ok w) /\
         (exists b, M_cff_glyph_bbox_pdf f fm gid = Ok b)) /\
    ((exists l, M_cff_glyph_bboxes f = Ok l) /\ (exists r, M_cff_font_bbox f = Ok r) /\
     (exists l, M_cff_widths_pdf f = Ok l) /\ (exists b, M_cff_font_bbox_pdf f = Ok b)) /\
    (forall gid, (cf_numglyphs f <= gid)%nat ->
       M_cff_glyph_width f gid = Panic /\ M_cff_glyph_name f gid = Panic /\
       M_cff_glyph_bbox f gid = Panic /\ M_cff_glyph_height f gid = Panic /\
       M_cff_glyph_width_pdf f gid = Panic /\ M_cff_glyph_bbox_pdf f fm gid = Panic).
Proof.
  intros f fm Hwf. split; [intros gid; now apply cff_glyph_queries_total|].
  split; [now apply cff_font_queries_total|intros gid; now apply cff_glyph_queries_oor].
Qed.

Lemma queries_total_glyf_stmt :
  forall (f : glyf_font) (fm : mat),
    (glyf_wf f -> forall gid, (gid < gf_numglyphs f)%nat ->
       (exists r, M_glyf_glyph_bbox f gid = Ok r /\ M_glyf_glyph_height f gid = Ok (ury r)) /\
       (exists b, M_glyf_glyph_bbox_pdf f fm gid = Ok b) /\
       (exists w, M_glyf_glyph_width f gid = Ok w) /\
       (exists w, M_glyf_glyph_width_pdf f gid = Ok w) /\
       (exists l, M_glyf_widths f = Ok l) /\ (exists l, M_glyf_widths_pdf f = Ok l) /\
       (exists b, M_glyf_fixed_pitch f = Ok b) /\ (exists b, M_glyf_font_bbox_pdf f = Ok b)) /\
    (forall gid, exists nm, M_glyf_glyph_name f gid = Ok nm).
Proof.
  intros f fm. split; [intros Hwf gid; now apply glyf_queries_total|].
  intros gid. unfold M_glyf_glyph_name. destruct (gf_names f); eauto.
Qed.

Lemma model_tables_match_source_stmt :
  (c12b_OpMoveTo = 1%N /\ c12b_OpLineTo = 2%N /\ c12b_OpCurveTo = 3%N /\
   c12b_OpHintMask = 4%N /\ c12b_OpCntrMask = 5%N) /\
  (c12b_extent_switch = [([1%N; 2%N], [0%N; 1%N]); ([3%N], [4%N; 5%N])] /\
   c12b_bboxpdf_switch = [([1%N; 2%N], [0%N; 1%N]); ([3%N], [4%N; 5%N])] /\
   c12b_extent_switch_default = continue_cmdLoop /\
   c12b_bboxpdf_switch_default = continue_cmdLoop).
Proof. split; [exact c12b_opcodes_tied|exact c12b_switch_tied]. Qed.

