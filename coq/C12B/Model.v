(* C12B/Model.v — part C12B of property C12: the QUERY side of a font.
   Executable models of
     cff/glyph.go     Glyph.Extent
     cff/outlines.go  Outlines.NumGlyphs, BBox, GlyphBBoxPDF
     glyf/glyf.go     Outlines.NumGlyphs, GlyphBBoxPDF
     font.go          NumGlyphs, Widths, WidthsPDF, WidthsMapPDF, GlyphWidth,
                      GlyphWidthPDF, GlyphBBox, GlyphBBoxes, FontBBox,
                      FontBBoxPDF, IsFixedPitch, glyphHeight, GlyphName
     write.go         makeHmtx / makeOS2 / makeHead / makePost as consumers of
                      these queries (composed with C12's table models)
     read.go          the cap-height / x-height fallback through glyphHeight
   Definitions only.

   ARITHMETIC.  The Go code computes in float64.  The model is the
   REAL-NUMBER MEANING of the Go expressions, evaluated in exact rational
   arithmetic (Coq's Q): +, -, *, / are exact, comparisons are exact,
   math.Floor / math.Ceil are Qfloor / Qceiling, math.Abs is Qabs.  The
   rounding of float64 operations is OUTSIDE the model; the correspondence run
   compares the implementation's float64 answers with the model's rationals
   through the checker [Qnear] (relative tolerance 10^-9, see the end of this
   file).  Where a float64 is handed through unchanged (Widths, GlyphWidth) or
   only rounded to an integer (Extent: Floor / Ceil of the coordinates
   themselves) the model is exact, because the harness passes every coordinate,
   width and matrix entry as the exact dyadic rational the float64 holds.

   funit.Int16(x) of a float64 x is a conversion the Go specification leaves
   implementation-defined outside the int16 range.  [go_i16] mirrors what the
   gc compiler does on amd64 (measured, and compared on every run): truncate to
   int32 (CVTTSD2SL; the "integer indefinite" 0x80000000 outside the int32
   range), then keep the low 16 bits.  The theorems carry the hypothesis that
   the rounded coordinates fit Int16 wherever this matters
   ([extent_wraps_refuted] shows what happens otherwise).

   Go panics (index out of range) are the outcome [Panic].

   The op-code tables the two switch statements range over are NOT written
   here: they are the regenerated [c12b_extent_switch] / [c12b_bboxpdf_switch]
   of Gen/C12B.v. *)
From Coq Require Import List NArith ZArith QArith Qround Qabs Bool.
From Common Require Import Outcome.
From Gen Require Import C12B.
From C12 Require Import Codec Model Model2 Model3.
Import ListNotations.

Local Open Scope Q_scope.

(* ================================================================== *)
(* comparisons and conversions                                         *)

(* x < y on float64 without NaN: exact comparison of the rationals *)
Definition Qltb (x y : Q) : bool := negb (Qle_bool y x).

Definition Qis_zero (x : Q) : bool := Qeq_bool x 0.

(* int(x) / int64(x): truncation toward zero *)
Definition Qtrunc (x : Q) : Z := Z.quot (Qnum x) (Zpos (Qden x)).

(* Int16 of an integer-valued float64, gc/amd64 *)
Definition go_i16 (z : Z) : Z :=
  if ((-2147483648 <=? z) && (z <=? 2147483647))%Z then wrap_i16 z else 0%Z.

(* funit.Int16(w) for a float64 w: truncation toward zero, then as above *)
Definition go_i16_of_float (w : Q) : Z := go_i16 (Qtrunc w).

(* ================================================================== *)
(* cff.GlyphOp, cff.Glyph                                              *)

Record cmd : Type := mkCmd { c_op : N; c_args : list Q }.

(* names are opaque identifiers (the harness numbers the strings) *)
Record glyph : Type := mkGlyph { g_name : N; g_width : Q; g_cmds : list cmd }.

(* switch cmd.Op { case <ops>: x = cmd.Args[i]; y = cmd.Args[j] ... default: continue }
   over a regenerated table of (case labels, argument indices) *)
Fixpoint switch_lookup (sw : list (list N * list N)) (op : N) : option (list N) :=
  match sw with
  | [] => None
  | (ops, idx) :: t => if existsb (N.eqb op) ops then Some idx else switch_lookup t op
  end.

Inductive pt_result : Type :=
| PtNone                 (* the command carries no point: `continue` *)
| PtPanic                (* cmd.Args[k] out of range *)
| Pt (x y : Q).

Definition cmd_point (sw : list (list N * list N)) (c : cmd) : pt_result :=
  match switch_lookup sw (c_op c) with
  | None => PtNone
  | Some [ix; iy] =>
      match nth_error (c_args c) (N.to_nat ix), nth_error (c_args c) (N.to_nat iy) with
      | Some x, Some y => Pt x y
      | _, _ => PtPanic
      end
  | Some _ => PtPanic     (* a clause that does not read exactly two arguments: not modelled *)
  end.

(* the running box of Extent / GlyphBBoxPDF:
     if first || x < left { left = x } ... ; first = false *)
Record box4 : Type := mkBox4 { b_first : bool; b_llx : Q; b_lly : Q; b_urx : Q; b_ury : Q }.

Definition box4_init : box4 := mkBox4 true 0 0 0 0.

Definition box4_add (s : box4) (x y : Q) : box4 :=
  mkBox4 false
    (if b_first s || Qltb x (b_llx s) then x else b_llx s)
    (if b_first s || Qltb y (b_lly s) then y else b_lly s)
    (if b_first s || Qltb (b_urx s) x then x else b_urx s)
    (if b_first s || Qltb (b_ury s) y then y else b_ury s).

(* the command loop; [tr] is the transformation applied to each point
   (identity for Extent, M.Apply for GlyphBBoxPDF) *)
Fixpoint box_loop (sw : list (list N * list N)) (tr : Q -> Q -> Q * Q)
         (cmds : list cmd) (s : box4) : outcome box4 :=
  match cmds with
  | [] => Ok s
  | c :: t =>
      match cmd_point sw c with
      | PtNone => box_loop sw tr t s
      | PtPanic => Panic
      | Pt x y => let '(x', y') := tr x y in box_loop sw tr t (box4_add s x' y')
      end
  end.

Definition tr_id (x y : Q) : Q * Q := (x, y).

(* Glyph.Extent *)
Definition rect_of_box4 (s : box4) : rect :=
  mkRect (go_i16 (Qfloor (b_llx s))) (go_i16 (Qfloor (b_lly s)))
         (go_i16 (Qceiling (b_urx s))) (go_i16 (Qceiling (b_ury s))).

Definition M_extent_cmds (cmds : list cmd) : outcome rect :=
  s <- box_loop c12b_extent_switch tr_id cmds box4_init ;;
  Ok (rect_of_box4 s).

Definition M_extent (g : glyph) : outcome rect := M_extent_cmds (g_cmds g).

(* ================================================================== *)
(* matrix.Matrix, rect.Rect                                            *)

Record mat : Type := mkMat { m0 : Q; m1 : Q; m2 : Q; m3 : Q; m4 : Q; m5 : Q }.

(* M.Apply(x, y) = (x*M[0] + y*M[2] + M[4], x*M[1] + y*M[3] + M[5]) *)
Definition mat_apply (M : mat) (x y : Q) : Q * Q :=
  (x * m0 M + y * m2 M + m4 M, x * m1 M + y * m3 M + m5 M).

(* M.Mul(B): "first M, then B" *)
Definition mat_mul (A B : mat) : mat :=
  mkMat (m0 A * m0 B + m1 A * m2 B)
        (m0 A * m1 B + m1 A * m3 B)
        (m2 A * m0 B + m3 A * m2 B)
        (m2 A * m1 B + m3 A * m3 B)
        (m4 A * m0 B + m5 A * m2 B + m4 B)
        (m4 A * m1 B + m5 A * m3 B + m5 B).

Definition mat_scale (sx sy : Q) : mat := mkMat sx 0 0 sy 0 0.
Definition mat_id : mat := mkMat 1 0 0 1 0 0.
Definition scale1000 : mat := mat_scale 1000 1000.

Record qrect : Type := mkQrect { q_llx : Q; q_lly : Q; q_urx : Q; q_ury : Q }.

Definition qrect_zero : qrect := mkQrect 0 0 0 0.

(* rect.Rect.IsZero *)
Definition qrect_is_zero (r : qrect) : bool :=
  Qis_zero (q_llx r) && Qis_zero (q_lly r) && Qis_zero (q_urx r) && Qis_zero (q_ury r).

(* rect.Rect.Extend *)
Definition qrect_extend (r o : qrect) : qrect :=
  if qrect_is_zero o then r
  else if qrect_is_zero r then o
  else mkQrect (if Qltb (q_llx o) (q_llx r) then q_llx o else q_llx r)
               (if Qltb (q_lly o) (q_lly r) then q_lly o else q_lly r)
               (if Qltb (q_urx r) (q_urx o) then q_urx o else q_urx r)
               (if Qltb (q_ury r) (q_ury o) then q_ury o else q_ury r).

Definition qrect_of_box4 (s : box4) : qrect := mkQrect (b_llx s) (b_lly s) (b_urx s) (b_ury s).

(* ================================================================== *)
(* CFF fonts: cff.Outlines inside an sfnt.Font                         *)

Record cff_font : Type := mkCff {
  cf_glyphs : list glyph;
  cf_cid : bool;              (* o.ROS != nil *)
  cf_fdsel : list nat;        (* o.FDSelect(gid) for the glyphs of a CID-keyed font *)
  cf_fmats : list mat;        (* o.FontMatrices *)
  cf_top : mat                (* Font.FontMatrix *)
}.

Definition cf_numglyphs (f : cff_font) : nat := length (cf_glyphs f).

Definition cf_glyph (f : cff_font) (gid : nat) : outcome glyph :=
  match nth_error (cf_glyphs f) gid with Some g => Ok g | None => Panic end.

(* if o.IsCIDKeyed() { fm = o.FontMatrices[o.FDSelect(gid)].Mul(fm) } else { fm = fm } *)
Definition glyph_matrix (f : cff_font) (fm : mat) (gid : nat) : outcome mat :=
  if cf_cid f then
    match nth_error (cf_fdsel f) gid with
    | None => Panic
    | Some fd =>
        match nth_error (cf_fmats f) fd with
        | None => Panic
        | Some F => Ok (mat_mul F fm)
        end
    end
  else Ok fm.

(* cff.Outlines.GlyphBBoxPDF(fm, gid) *)
Definition M_cff_glyph_bbox_pdf (f : cff_font) (fm : mat) (gid : nat) : outcome qrect :=
  g <- cf_glyph f gid ;;
  M <- glyph_matrix f fm gid ;;
  let M' := mat_mul M scale1000 in
  s <- box_loop c12b_bboxpdf_switch (mat_apply M') (g_cmds g) box4_init ;;
  Ok (qrect_of_box4 s).

(* the loop shared by Font.FontBBoxPDF and cff.Font.FontBBoxPDF *)
Fixpoint fontbbox_pdf_loop (boxes : list qrect) (first : bool) (acc : qrect) : qrect :=
  match boxes with
  | [] => acc
  | g :: t =>
      if qrect_is_zero g then fontbbox_pdf_loop t first acc
      else if first then fontbbox_pdf_loop t false g
      else fontbbox_pdf_loop t false (qrect_extend acc g)
  end.

Fixpoint omapM {A B} (f : A -> outcome B) (l : list A) : outcome (list B) :=
  match l with
  | [] => Ok []
  | a :: t => b <- f a ;; r <- omapM f t ;; Ok (b :: r)
  end.

Definition gids (n : nat) : list nat := seq 0 n.

(* Font.FontBBoxPDF *)
Definition M_cff_font_bbox_pdf (f : cff_font) : outcome qrect :=
  boxes <- omapM (M_cff_glyph_bbox_pdf f (cf_top f)) (gids (cf_numglyphs f)) ;;
  Ok (fontbbox_pdf_loop boxes true qrect_zero).

(* Font.GlyphBBox / GlyphBBoxes / glyphHeight / FontBBox; Outlines.BBox *)
Definition M_cff_glyph_bbox (f : cff_font) (gid : nat) : outcome rect :=
  g <- cf_glyph f gid ;; M_extent g.

Definition M_cff_glyph_bboxes (f : cff_font) : outcome (list rect) :=
  omapM M_extent (cf_glyphs f).

Definition M_cff_glyph_height (f : cff_font) (gid : nat) : outcome Z :=
  r <- M_cff_glyph_bbox f gid ;; Ok (ury r).

Definition M_cff_font_bbox (f : cff_font) : outcome rect :=
  boxes <- omapM (M_cff_glyph_bbox f) (gids (cf_numglyphs f)) ;;
  Ok (M_fontbbox boxes).

(* widths *)
Definition M_cff_widths (f : cff_font) : list Q := map g_width (cf_glyphs f).

Definition M_cff_glyph_width (f : cff_font) (gid : nat) : outcome Q :=
  g <- cf_glyph f gid ;; Ok (g_width g).

(* WidthsPDF (as repaired: the glyph's Font DICT matrix takes part) *)
Definition M_cff_widths_pdf (f : cff_font) : outcome (list Q) :=
  omapM (fun gid => g <- cf_glyph f gid ;;
                    fm <- glyph_matrix f (cf_top f) gid ;;
                    Ok (g_width g * m0 fm))
        (gids (cf_numglyphs f)).

(* q := fm[0]; if math.Abs(fm[3]) > 1e-6 { q -= fm[1] * fm[2] / fm[3] } *)
Definition qfactor (fm : mat) : Q :=
  if Qltb (1 # 1000000) (Qabs (m3 fm)) then m0 fm - m1 fm * m2 fm / m3 fm else m0 fm.

Definition M_cff_glyph_width_pdf (f : cff_font) (gid : nat) : outcome Q :=
  fm <- glyph_matrix f (cf_top f) gid ;;
  g <- cf_glyph f gid ;;
  Ok (g_width g * (qfactor fm * 1000)).

(* WidthsMapPDF: nil for CID-keyed fonts; otherwise one assignment
   widths[glyph.Name] = glyph.Width * q per glyph, in glyph order (a later
   glyph of the same name overwrites an earlier one: [assoc_last]) *)
Definition M_cff_widths_map_pdf (f : cff_font) : option (list (N * Q)) :=
  if cf_cid f then None
  else Some (map (fun g => (g_name g, g_width g * (qfactor (cf_top f) * 1000))) (cf_glyphs f)).

Fixpoint assoc_last {V} (l : list (N * V)) (k : N) : option V :=
  match l with
  | [] => None
  | (k', v) :: t =>
      match assoc_last t k with
      | Some v' => Some v'
      | None => if N.eqb k k' then Some v else None
      end
  end.

Definition M_cff_glyph_name (f : cff_font) (gid : nat) : outcome N :=
  g <- cf_glyph f gid ;; Ok (g_name g).

(* Font.IsFixedPitch on float widths *)
Fixpoint fixedpitch_loop_q (ws : list Q) (width : Q) : bool :=
  match ws with
  | [] => true
  | w :: t =>
      if Qis_zero w then fixedpitch_loop_q t width
      else if Qis_zero width then fixedpitch_loop_q t w
      else if Qle_bool (1 # 2) (Qabs (width - w)) then false    (* math.Abs(width-w) >= 0.5 *)
      else fixedpitch_loop_q t width
  end.

Definition M_fixedpitch_q (ws : list Q) : bool :=
  match ws with [] => false | _ => fixedpitch_loop_q ws 0 end.

Definition M_cff_fixed_pitch (f : cff_font) : bool := M_fixedpitch_q (M_cff_widths f).

(* ================================================================== *)
(* TrueType fonts: glyf.Outlines inside an sfnt.Font                   *)

Record glyf_font : Type := mkGlyf {
  gf_glyphs : list (option rect);   (* nil glyph = None; otherwise the stored Rect16 *)
  gf_widths : option (list Z);      (* o.Widths *)
  gf_names : option (list N);       (* o.Names *)
  gf_upem : Z;                      (* Font.UnitsPerEm *)
  gf_top : mat                      (* Font.FontMatrix *)
}.

Definition gf_numglyphs (f : glyf_font) : nat := length (gf_glyphs f).

Definition Zq (z : Z) : Q := inject_Z z.

Definition box_or_zero (g : option rect) : rect :=
  match g with Some r => r | None => zero_rect end.

(* Font.GlyphBBox *)
Definition M_glyf_glyph_bbox (f : glyf_font) (gid : nat) : outcome rect :=
  match nth_error (gf_glyphs f) gid with
  | None => Panic
  | Some g => Ok (box_or_zero g)
  end.

Definition M_glyf_glyph_bboxes (f : glyf_font) : list rect := map box_or_zero (gf_glyphs f).

Definition M_glyf_glyph_height (f : glyf_font) (gid : nat) : outcome Z :=
  r <- M_glyf_glyph_bbox f gid ;; Ok (ury r).

Definition M_glyf_font_bbox (f : glyf_font) : rect := M_fontbbox (M_glyf_glyph_bboxes f).

(* the four corners, in the order of the composite literal *)
Definition corners (r : rect) : list (Q * Q) :=
  [(Zq (llx r), Zq (lly r)); (Zq (urx r), Zq (lly r)); (Zq (urx r), Zq (ury r)); (Zq (llx r), Zq (ury r))].

Definition acc_points (pts : list (Q * Q)) (s : box4) : box4 :=
  fold_left (fun s p => box4_add s (fst p) (snd p)) pts s.

(* glyf.Outlines.GlyphBBoxPDF(fm, gid) *)
Definition M_glyf_glyph_bbox_pdf (f : glyf_font) (fm : mat) (gid : nat) : outcome qrect :=
  match nth_error (gf_glyphs f) gid with
  | None => Panic
  | Some None => Ok qrect_zero
  | Some (Some r) =>
      let M := mat_mul fm scale1000 in
      Ok (qrect_of_box4 (acc_points (map (fun p => mat_apply M (fst p) (snd p)) (corners r)) box4_init))
  end.

Definition M_glyf_font_bbox_pdf (f : glyf_font) : outcome qrect :=
  boxes <- omapM (M_glyf_glyph_bbox_pdf f (gf_top f)) (gids (gf_numglyphs f)) ;;
  Ok (fontbbox_pdf_loop boxes true qrect_zero).

(* Widths(): make([]float64, n); nil Widths -> zeros; widths[i] = float64(o.Widths[i]) *)
Definition M_glyf_widths (f : glyf_font) : outcome (list Q) :=
  let n := gf_numglyphs f in
  match gf_widths f with
  | None => Ok (repeat 0 n)
  | Some w => if (length w <? n)%nat then Panic else Ok (map Zq (firstn n w))
  end.

(* WidthsPDF(): nil Widths -> nil; for gid, w := range o.Widths { widths[gid] = w / upem } *)
Definition M_glyf_widths_pdf (f : glyf_font) : outcome (option (list Q)) :=
  let n := gf_numglyphs f in
  match gf_widths f with
  | None => Ok None
  | Some w =>
      if (n <? length w)%nat then Panic
      else Ok (Some (map (fun x => Zq x / Zq (gf_upem f)) w ++ repeat 0 (n - length w)))
  end.

(* GlyphWidth(gid): indexes o.Widths, not o.Glyphs *)
Definition M_glyf_glyph_width (f : glyf_font) (gid : nat) : outcome Q :=
  match gf_widths f with
  | None => Ok 0
  | Some w => match nth_error w gid with Some x => Ok (Zq x) | None => Panic end
  end.

(* GlyphWidthPDF(gid) = float64(o.Widths[gid]) / (float64(f.UnitsPerEm) / 1000) *)
Definition M_glyf_glyph_width_pdf (f : glyf_font) (gid : nat) : outcome Q :=
  match gf_widths f with
  | None => Ok 0
  | Some w => match nth_error w gid with
              | Some x => Ok (Zq x / (Zq (gf_upem f) / 1000))
              | None => Panic
              end
  end.

(* GlyphName(gid) as repaired: if int(gid) >= len(o.Names) { return "" } *)
Definition M_glyf_glyph_name (f : glyf_font) (gid : nat) : outcome (option N) :=
  match gf_names f with
  | None => Ok None
  | Some l => Ok (nth_error l gid)
  end.

Definition M_glyf_fixed_pitch (f : glyf_font) : outcome bool :=
  ws <- M_glyf_widths f ;; Ok (M_fixedpitch_q ws).

(* ================================================================== *)
(* write.go: the derived fields, from the queries                      *)

(* makeOS2: for _, w := range f.Widths() { if w > 0 { sum += int(w); count++ } } *)
Fixpoint avg_loop_q (ws : list Q) (sum count : Z) : Z * Z :=
  match ws with
  | [] => (sum, count)
  | w :: t => if Qltb 0 w then avg_loop_q t (sum + Qtrunc w)%Z (count + 1)%Z else avg_loop_q t sum count
  end.

Definition M_avgwidth_q (ws : list Q) : Z :=
  let '(sum, count) := avg_loop_q ws 0%Z 0%Z in
  if (count >? 0)%Z then ((sum + count / 2) / count)%Z else sum.

(* everything Font.Write derives from the outlines.
   boxes = Font.GlyphBBoxes(); wq = Font.Widths(); haswidths = false exactly
   for a TrueType font with nil Widths (makeHmtx then passes Widths = nil and no
   hmtx table is written).  The hhea table is C12's M_hmtx_encode on the Info
   makeHmtx builds; its fields are read with C12's S_hhea_read. *)
Definition M_derived_q (boxes : list rect) (wq : list Q) (haswidths : bool) (cm : cmap_kind)
  : outcome derived :=
  let ws16 := if haswidths then Some (map go_i16_of_float wq) else None in
  r <- M_hmtx_encode (mkHinfo ws16 (Some boxes) None 0 0 0 0) 1 0 ;;
  match S_hhea_read (fst r) with
  | None => Err
  | Some h =>
      let bbox := M_fontbbox boxes in
      let range := match cm with
                   | NoCmap => None
                   | Cmap4 c => Some (M_coderange4 c)
                   | Cmap12 c => Some (M_coderange12 c)
                   end in
      let '(first, last) := M_firstlast range in
      Ok (mkDerived (Z.of_nat (length boxes)) bbox
                    (f_advmax h) (f_minlsb h) (f_minrsb h) (f_xmaxext h) (f_numlong h)
                    (wrap_i16 (M_avgwidth_q wq)) first last
                    (ury bbox) (wrap_i16 (- lly bbox))
                    (M_fixedpitch_q wq))
  end.

(* the advance widths and left side bearings makeHmtx hands to hmtx.Info.Encode:
   widths[i] = funit.Int16(w); lsb = LLx of the glyph box *)
Definition M_hmtx_columns (boxes : list rect) (wq : list Q) : list Z * list Z :=
  (map go_i16_of_float wq, map llx boxes).

Definition M_cff_derived (f : cff_font) (cm : cmap_kind) : outcome derived :=
  boxes <- M_cff_glyph_bboxes f ;;
  M_derived_q boxes (M_cff_widths f) true cm.

Definition M_glyf_derived (f : glyf_font) (cm : cmap_kind) : outcome derived :=
  ws <- M_glyf_widths f ;;
  M_derived_q (M_glyf_glyph_bboxes f) ws
              (match gf_widths f with Some _ => true | None => false end) cm.

(* read.go: info.CapHeight = os2Info.CapHeight; if that is 0 and the best cmap
   maps 'H' to a glyph gid with gid != 0 && gid < NumGlyphs, glyphHeight(gid)
   (the same for XHeight with 'x').  [height] is Font.glyphHeight. *)
Definition M_read_height (os2_value : Z) (have_cmap : bool) (gid : nat) (numglyphs : nat)
           (height : nat -> outcome Z) : outcome Z :=
  if negb (os2_value =? 0)%Z then Ok os2_value
  else if have_cmap && negb (gid =? 0)%nat && (gid <? numglyphs)%nat then height gid
  else Ok os2_value.

(* ================================================================== *)
(* the code before the repairs, and the seeded variants                *)

(* Extent with `i == 0 ||` in place of `first ||` (seed C12-h) *)
Fixpoint extent_loop_idx0 (sw : list (list N * list N)) (cmds : list cmd) (i : nat) (s : box4)
  : outcome box4 :=
  match cmds with
  | [] => Ok s
  | c :: t =>
      match cmd_point sw c with
      | PtNone => extent_loop_idx0 sw t (S i) s
      | PtPanic => Panic
      | Pt x y =>
          extent_loop_idx0 sw t (S i)
            (box4_add (mkBox4 (i =? 0)%nat (b_llx s) (b_lly s) (b_urx s) (b_ury s)) x y)
      end
  end.

Definition M_extent_idx0 (cmds : list cmd) : outcome rect :=
  s <- extent_loop_idx0 c12b_extent_switch cmds 0 box4_init ;; Ok (rect_of_box4 s).

(* GlyphBBoxPDF with the top-level matrix applied first (seed C12-i) *)
Definition glyph_matrix_swapped (f : cff_font) (fm : mat) (gid : nat) : outcome mat :=
  if cf_cid f then
    match nth_error (cf_fdsel f) gid with
    | None => Panic
    | Some fd =>
        match nth_error (cf_fmats f) fd with
        | None => Panic
        | Some F => Ok (mat_mul fm F)
        end
    end
  else Ok fm.

Definition M_cff_glyph_bbox_pdf_swapped (f : cff_font) (fm : mat) (gid : nat) : outcome qrect :=
  g <- cf_glyph f gid ;;
  M <- glyph_matrix_swapped f fm gid ;;
  let M' := mat_mul M scale1000 in
  s <- box_loop c12b_bboxpdf_switch (mat_apply M') (g_cmds g) box4_init ;;
  Ok (qrect_of_box4 s).

(* WidthsPDF before fixes/C12-widthspdf-cid-font-dict-matrix.diff *)
Definition M_cff_widths_pdf_old (f : cff_font) : list Q :=
  map (fun g => g_width g * m0 (cf_top f)) (cf_glyphs f).

(* GlyphName before fixes/C12-glyphname-short-names.diff:
   if f.Names == nil { return "" }; return f.Names[gid] *)
Definition M_glyf_glyph_name_old (f : glyf_font) (gid : nat) : outcome (option N) :=
  match gf_names f with
  | None => Ok None
  | Some l => match nth_error l gid with Some x => Ok (Some x) | None => Panic end
  end.

(* ================================================================== *)
(* the checker of the correspondence run                               *)

(* [got] is the float64 the implementation returned (an exact dyadic
   rational), [exact] the model's value, [mag] a bound of the magnitudes of
   the terms [exact] is a sum of (the same expression evaluated on absolute
   values; mag = |exact| when nothing cancels).  Accept iff
   |got - exact| <= 10^-9 * mag. *)
Definition Qnear (got exact mag : Q) : bool :=
  Qle_bool (Qabs (got - exact)) (mag * (1 # 1000000000)).

Definition mat_abs (M : mat) : mat :=
  mkMat (Qabs (m0 M)) (Qabs (m1 M)) (Qabs (m2 M)) (Qabs (m3 M)) (Qabs (m4 M)) (Qabs (m5 M)).

Definition Qmaxb (x y : Q) : Q := if Qltb x y then y else x.

(* the magnitude bound of the coordinates of a PDF-unit box: every point
   through the chain of absolute-value matrices *)
Definition pts_mag (M : mat) (pts : list (Q * Q)) : Q :=
  fold_left (fun m p => let '(x, y) := mat_apply M (Qabs (fst p)) (Qabs (snd p)) in Qmaxb m (Qmaxb x y))
            pts 0.

Fixpoint cmds_points (sw : list (list N * list N)) (cmds : list cmd) : list (Q * Q) :=
  match cmds with
  | [] => []
  | c :: t => match cmd_point sw c with
              | Pt x y => (x, y) :: cmds_points sw t
              | _ => cmds_points sw t
              end
  end.

Definition glyph_matrix_abs (f : cff_font) (fm : mat) (gid : nat) : mat :=
  if cf_cid f then
    match nth_error (cf_fdsel f) gid with
    | None => mat_abs fm
    | Some fd =>
        match nth_error (cf_fmats f) fd with
        | None => mat_abs fm
        | Some F => mat_mul (mat_abs F) (mat_abs fm)
        end
    end
  else mat_abs fm.

Definition cff_glyph_bbox_pdf_mag (f : cff_font) (fm : mat) (gid : nat) : Q :=
  match nth_error (cf_glyphs f) gid with
  | None => 0
  | Some g => pts_mag (mat_mul (glyph_matrix_abs f fm gid) scale1000)
                      (cmds_points c12b_bboxpdf_switch (g_cmds g))
  end.

Definition glyf_glyph_bbox_pdf_mag (f : glyf_font) (fm : mat) (gid : nat) : Q :=
  match nth_error (gf_glyphs f) gid with
  | Some (Some r) => pts_mag (mat_mul (mat_abs fm) scale1000) (corners r)
  | _ => 0
  end.

(* magnitude bound of qfactor: fm[3] itself may be a cancelled sum, so the
   quotient's uncertainty grows by |fm3|abs / |fm3| *)
Definition qfactor_mag (fm fma : mat) : Q :=
  if Qltb (1 # 1000000) (Qabs (m3 fm))
  then m0 fma + (m1 fma * m2 fma / Qabs (m3 fm)) * (1 + m3 fma / Qabs (m3 fm))
  else m0 fma.

(* ================================================================== *)
(* cff.Font: the CFF package's own copies of the queries               *)
(* (cff/font.go; a cff.Font is a FontInfo with its FontMatrix plus the *)
(* same Outlines, so the value is again a [cff_font])                  *)

(* cff.Font.Widths *)
Definition M_cfont_widths (f : cff_font) : list Q := map g_width (cf_glyphs f).

(* cff.Font.WidthsPDF: PDF GLYPH space units - widths[gid] = g.Width * (fm[0] * 1000) *)
Definition M_cfont_widths_pdf (f : cff_font) : outcome (list Q) :=
  omapM (fun gid => g <- cf_glyph f gid ;;
                    fm <- glyph_matrix f (cf_top f) gid ;;
                    Ok (g_width g * (m0 fm * 1000)))
        (gids (cf_numglyphs f)).

(* cff.Font.WidthsMapPDF: q := FontMatrix[0]; if ... { q -= ... }; q *= 1000;
   widths[glyph.Name] = glyph.Width * q *)
Definition M_cfont_widths_map_pdf (f : cff_font) : option (list (N * Q)) :=
  if cf_cid f then None
  else Some (map (fun g => (g_name g, g_width g * (qfactor (cf_top f) * 1000))) (cf_glyphs f)).

(* cff.Font.GlyphWidthPDF *)
Definition M_cfont_glyph_width_pdf (f : cff_font) (gid : nat) : outcome Q :=
  fm <- glyph_matrix f (cf_top f) gid ;;
  g <- cf_glyph f gid ;;
  Ok (g_width g * (qfactor fm * 1000)).

(* cff.Font.FontBBoxPDF: no `first` flag - the accumulator itself is tested:
   if bbox.IsZero() { bbox = glyphBox } else { bbox.Extend(glyphBox) } *)
Fixpoint fontbbox_pdf_loop2 (boxes : list qrect) (acc : qrect) : qrect :=
  match boxes with
  | [] => acc
  | g :: t =>
      if qrect_is_zero g then fontbbox_pdf_loop2 t acc
      else if qrect_is_zero acc then fontbbox_pdf_loop2 t g
      else fontbbox_pdf_loop2 t (qrect_extend acc g)
  end.

Definition M_cfont_font_bbox_pdf (f : cff_font) : outcome qrect :=
  boxes <- omapM (M_cff_glyph_bbox_pdf f (cf_top f)) (gids (cf_numglyphs f)) ;;
  Ok (fontbbox_pdf_loop2 boxes qrect_zero).

(* cff.Outlines.BBox: the loop of Font.FontBBox over the glyphs' Extents *)
Definition M_outlines_bbox (f : cff_font) : outcome rect :=
  boxes <- omapM M_extent (cf_glyphs f) ;;
  Ok (M_fontbbox boxes).

(* cff.Outlines.BuiltinEncoding: nil unless len(o.Encoding) == 256; entry i is
   ".notdef" (name id 0) when gid <= 0 || gid >= len(o.Glyphs), else the
   glyph's name.  glyph.ID is unsigned: gid <= 0 is gid == 0. *)
Definition notdef_name : N := 0%N.

Definition M_builtin_encoding (enc : list nat) (glyphs : list glyph) : option (list N) :=
  if (length enc =? 256)%nat then
    Some (map (fun gid => if (gid =? 0)%nat || (length glyphs <=? gid)%nat then notdef_name
                          else match nth_error glyphs gid with
                               | Some g => g_name g
                               | None => notdef_name
                               end) enc)
  else None.

(* ------------------------------------------------------------------ *)
(* cff.Font.Clone over a small store model.
   A struct is a list of field values.  A field holds a scalar, an ARRAY value
   (FontMatrix [6]float64: copied with the struct), or a REFERENCE (slice,
   map, pointer, func: the struct holds the reference, the elements live in
   [objs] under the reference's identity). *)
Inductive fval : Type :=
| FScalar (z : Z)
| FArray (l : list Z)
| FRef (r : nat).

Record store : Type := mkStore {
  st_structs : list (list fval);     (* location = index *)
  st_objs : list (list Z)            (* referenced objects, identity = index *)
}.

(* a cff.Font value: the two embedded pointers *)
Record cfont_ptr : Type := mkCfont { p_info : nat; p_outl : nat }.

Definition st_struct (s : store) (loc : nat) : list fval := nth loc (st_structs s) [].

(* fontInfo := *f.FontInfo; outlines := *f.Outlines; return &Font{&fontInfo, &outlines} *)
Definition M_clone (s : store) (f : cfont_ptr) : store * cfont_ptr :=
  let n := length (st_structs s) in
  (mkStore (st_structs s ++ [st_struct s (p_info f); st_struct s (p_outl f)]) (st_objs s),
   mkCfont n (S n)).

Fixpoint list_set {A} (l : list A) (i : nat) (x : A) : list A :=
  match l, i with
  | [], _ => []
  | _ :: t, O => x :: t
  | a :: t, S k => a :: list_set t k x
  end.

(* p.field = v *)
Definition st_assign (s : store) (loc field : nat) (v : fval) : store :=
  mkStore (list_set (st_structs s) loc (list_set (st_struct s loc) field v)) (st_objs s).

(* p.field[j] = x: through a reference the shared object changes; an array
   field is part of the struct *)
Definition st_write_elem (s : store) (loc field j : nat) (x : Z) : store :=
  match nth_error (st_struct s loc) field with
  | Some (FRef r) => mkStore (st_structs s) (list_set (st_objs s) r (list_set (nth r (st_objs s) []) j x))
  | Some (FArray l) => st_assign s loc field (FArray (list_set l j x))
  | _ => s
  end.

(* what a holder of the pointer [loc] observes: the fields, references followed *)
Inductive fobs : Type := OScalar (z : Z) | OArray (l : list Z) | OObj (r : nat) (l : list Z).

Definition st_observe (s : store) (loc : nat) : list fobs :=
  map (fun v => match v with
                | FScalar z => OScalar z
                | FArray l => OArray l
                | FRef r => OObj r (nth r (st_objs s) [])
                end) (st_struct s loc).

Definition cfont_observe (s : store) (f : cfont_ptr) : list fobs * list fobs :=
  (st_observe s (p_info f), st_observe s (p_outl f)).
