(* C12B/Proofs_pdf.v — the PDF-unit boxes: GlyphBBoxPDF is the bounding box of
   the points mapped by the Font DICT matrix, then the FontMatrix, then x1000;
   FontBBoxPDF is the union of the non-blank glyph boxes. *)
From Coq Require Import List NArith ZArith QArith Qround Qabs Bool Lia Lqa.
From Common Require Import Outcome.
From Gen Require Import C12B.
From C12 Require Import Codec Util Model Model2 Model3.
From C12B Require Import Model Spec Proofs_box.
Import ListNotations.

Local Open Scope Q_scope.

(* ------------------------------------------------------------------ *)
(* matrices                                                            *)

Lemma mat_apply_mul A B x y :
  pt_eq (mat_apply (mat_mul A B) x y)
        (mat_apply B (fst (mat_apply A x y)) (snd (mat_apply A x y))).
Proof. unfold pt_eq, mat_apply, mat_mul; cbn [fst snd m0 m1 m2 m3 m4 m5]. split; ring. Qed.

Lemma mat_apply_comp M x x' y y' :
  x == x' -> y == y' -> pt_eq (mat_apply M x y) (mat_apply M x' y').
Proof.
  intros Hx Hy. unfold pt_eq, mat_apply; cbn [fst snd]. rewrite Hx, Hy. split; reflexivity.
Qed.

Lemma pt_eq_refl p : pt_eq p p.
Proof. split; reflexivity. Qed.

Lemma pt_eq_trans p q r : pt_eq p q -> pt_eq q r -> pt_eq p r.
Proof. intros [A B] [C D]. split; [now rewrite A|now rewrite B]. Qed.

Lemma apply_chain_comp ms : forall p q, pt_eq p q -> pt_eq (apply_chain ms p) (apply_chain ms q).
Proof.
  induction ms as [|M t IH]; intros p q H; [exact H|].
  unfold apply_chain in *. cbn [fold_left]. apply IH. destruct H. now apply mat_apply_comp.
Qed.

(* one product matrix = the matrices one after the other *)
Lemma apply_chain_mul ms : forall M x y,
  pt_eq (mat_apply (fold_left mat_mul ms M) x y) (apply_chain ms (mat_apply M x y)).
Proof.
  induction ms as [|B t IH]; intros M x y; [apply pt_eq_refl|].
  cbn [fold_left]. eapply pt_eq_trans; [apply IH|].
  unfold apply_chain at 2. cbn [fold_left]. fold (apply_chain t).
  apply apply_chain_comp. apply mat_apply_mul.
Qed.

Lemma apply_chain_cons M t x y :
  apply_chain (M :: t) (x, y) = apply_chain t (mat_apply M x y).
Proof. reflexivity. Qed.

(* ------------------------------------------------------------------ *)
(* boxes of Qeq-equal point lists                                      *)

Lemma S_bbox_comp pts pts' : Forall2 pt_eq pts pts' -> qrect_eq (S_bbox pts) (S_bbox pts').
Proof.
  intros H. destruct H as [|p p' t t' Hp Ht]; [repeat split; reflexivity|].
  assert (Fx : Forall2 Qeq (map fst t) (map fst t')).
  { clear Hp. induction Ht as [|a b l l' [A _] _ IH]; cbn; constructor; assumption. }
  assert (Fy : Forall2 Qeq (map snd t) (map snd t')).
  { clear Hp Fx. induction Ht as [|a b l l' [_ A] _ IH]; cbn; constructor; assumption. }
  destruct Hp as [Hx Hy]. unfold qrect_eq. cbn [S_bbox q_llx q_lly q_urx q_ury].
  repeat split; first [now apply fold_qmin_comp | now apply fold_qmax_comp].
Qed.

Lemma Forall2_map_pt {A} (f g : A -> Q * Q) l :
  (forall a, pt_eq (f a) (g a)) -> Forall2 pt_eq (map f l) (map g l).
Proof. intros H. induction l; cbn; constructor; auto. Qed.

(* ------------------------------------------------------------------ *)
(* GlyphBBoxPDF of a CFF glyph                                         *)

Lemma glyph_matrix_chain f fm gid chain :
  glyph_chain f fm gid = Some chain ->
  exists M, glyph_matrix f fm gid = Ok M /\
            forall x y, pt_eq (mat_apply (mat_mul M scale1000) x y)
                              (apply_chain (chain ++ [scale1000]) (x, y)).
Proof.
  unfold glyph_chain, glyph_matrix. destruct (cf_cid f).
  - destruct (nth_error (cf_fdsel f) gid) as [fd|]; [|discriminate].
    destruct (nth_error (cf_fmats f) fd) as [F|]; [|discriminate].
    intros E; inversion E; subst. eexists; split; [reflexivity|]. intros x y.
    cbn [app]. rewrite apply_chain_cons.
    apply (apply_chain_mul [fm; scale1000] F x y).
  - intros E; inversion E; subst. eexists; split; [reflexivity|]. intros x y.
    cbn [app]. rewrite apply_chain_cons.
    apply (apply_chain_mul [scale1000] fm x y).
Qed.

Lemma glyph_bbox_pdf_gen f fm gid g chain :
  nth_error (cf_glyphs f) gid = Some g ->
  cmds_wf c12b_bboxpdf_switch (g_cmds g) ->
  glyph_chain f fm gid = Some chain ->
  let pts := cmds_points c12b_bboxpdf_switch (g_cmds g) in
  exists r, M_cff_glyph_bbox_pdf f fm gid = Ok r /\
            qrect_eq r (S_bbox (map (apply_chain (chain ++ [scale1000])) pts)) /\
            qproper r /\
            (pts = [] -> r = qrect_zero).
Proof.
  intros Hg Hwf Hc pts. destruct (glyph_matrix_chain f fm gid chain Hc) as (M & HM & Happ).
  unfold M_cff_glyph_bbox_pdf, cf_glyph. rewrite Hg. cbn [obind]. rewrite HM. cbn [obind].
  rewrite box_loop_points by assumption. cbn [obind]. fold pts.
  destruct (acc_points_init (map (fun p => mat_apply (mat_mul M scale1000) (fst p) (snd p)) pts)) as [Hb _].
  eexists; split; [reflexivity|]. rewrite Hb. split; [|split].
  - apply S_bbox_comp. apply Forall2_map_pt. intros [x y]. cbn [fst snd]. apply Happ.
  - apply S_bbox_proper.
  - intros E. rewrite E. reflexivity.
Qed.

(* ------------------------------------------------------------------ *)
(* the union loop of FontBBoxPDF                                       *)

Lemma qrect_is_zero_true r :
  qrect_is_zero r = true <-> q_llx r == 0 /\ q_lly r == 0 /\ q_urx r == 0 /\ q_ury r == 0.
Proof. unfold qrect_is_zero. rewrite !andb_true_iff, !Qis_zero_true. tauto. Qed.

Lemma qrect_is_zero_false r :
  qrect_is_zero r = false <-> ~ (q_llx r == 0 /\ q_lly r == 0 /\ q_urx r == 0 /\ q_ury r == 0).
Proof. rewrite <- qrect_is_zero_true. destruct (qrect_is_zero r); split; congruence. Qed.

Definition qunion (a b : qrect) : qrect :=
  mkQrect (qmin (q_llx a) (q_llx b)) (qmin (q_lly a) (q_lly b))
          (qmax (q_urx a) (q_urx b)) (qmax (q_ury a) (q_ury b)).

Lemma qrect_extend_union r o :
  qproper r -> qproper o -> qrect_is_zero r = false -> qrect_is_zero o = false ->
  qrect_extend r o = qunion r o /\ qproper (qunion r o) /\ qrect_is_zero (qunion r o) = false.
Proof.
  intros [Hr1 Hr2] [Ho1 Ho2] Hzr Hzo. unfold qrect_extend. rewrite Hzo, Hzr.
  split; [reflexivity|].
  unfold qunion, qproper. cbn [q_llx q_lly q_urx q_ury].
  destruct (qmin_cases (q_llx r) (q_llx o)) as [[A1 A2]|[A1 A2]]; rewrite A2;
  destruct (qmin_cases (q_lly r) (q_lly o)) as [[B1 B2]|[B1 B2]]; rewrite B2;
  destruct (qmax_cases (q_urx r) (q_urx o)) as [[C1 C2]|[C1 C2]]; rewrite C2;
  destruct (qmax_cases (q_ury r) (q_ury o)) as [[D1 D2]|[D1 D2]]; rewrite D2;
  (split; [split; lra|]);
  apply qrect_is_zero_false; apply qrect_is_zero_false in Hzr; apply qrect_is_zero_false in Hzo;
  cbn [q_llx q_lly q_urx q_ury]; intros (E1 & E2 & E3 & E4);
  first [apply Hzr; repeat split; lra | apply Hzo; repeat split; lra].
Qed.

Definition qunion_all (b : qrect) (l : list qrect) : qrect :=
  mkQrect (fold_left qmin (map q_llx l) (q_llx b)) (fold_left qmin (map q_lly l) (q_lly b))
          (fold_left qmax (map q_urx l) (q_urx b)) (fold_left qmax (map q_ury l) (q_ury b)).

Lemma fontbbox_pdf_loop_union boxes : forall acc,
  Forall qproper boxes -> qproper acc -> qrect_is_zero acc = false ->
  fontbbox_pdf_loop boxes false acc = qunion_all acc (nonzero_boxes boxes).
Proof.
  induction boxes as [|g t IH]; intros acc Hp Ha Hz.
  - destruct acc; reflexivity.
  - inversion Hp as [|? ? Hg Ht]; subst.
    cbn [fontbbox_pdf_loop nonzero_boxes filter]. fold (nonzero_boxes t).
    destruct (qrect_is_zero g) eqn:Eg; cbn [negb].
    + now apply IH.
    + destruct (qrect_extend_union acc g Ha Hg Hz Eg) as (E & P & Z0).
      rewrite E. rewrite IH by assumption.
      unfold qunion_all, qunion; cbn [map fold_left q_llx q_lly q_urx q_ury]. reflexivity.
Qed.

Lemma fontbbox_pdf_union_gen boxes :
  Forall qproper boxes -> fontbbox_pdf_loop boxes true qrect_zero = S_fontbbox_pdf boxes.
Proof.
  unfold S_fontbbox_pdf.
  induction boxes as [|g t IH]; intros Hp; [reflexivity|].
  inversion Hp as [|? ? Hg Ht]; subst.
  cbn [fontbbox_pdf_loop nonzero_boxes filter]. fold (nonzero_boxes t).
  destruct (qrect_is_zero g) eqn:Eg; cbn [negb].
  - now apply IH.
  - rewrite fontbbox_pdf_loop_union by assumption. reflexivity.
Qed.

Lemma S_fontbbox_pdf_extrema boxes :
  let ne := nonzero_boxes boxes in
  (ne = [] -> S_fontbbox_pdf boxes = qrect_zero) /\
  (ne <> [] ->
     is_qmin (q_llx (S_fontbbox_pdf boxes)) (map q_llx ne) /\
     is_qmin (q_lly (S_fontbbox_pdf boxes)) (map q_lly ne) /\
     is_qmax (q_urx (S_fontbbox_pdf boxes)) (map q_urx ne) /\
     is_qmax (q_ury (S_fontbbox_pdf boxes)) (map q_ury ne)).
Proof.
  cbv zeta. unfold S_fontbbox_pdf. destruct (nonzero_boxes boxes) as [|g t] eqn:E.
  - split; [reflexivity|congruence].
  - split; [discriminate|intros _]. cbn [q_llx q_lly q_urx q_ury map].
    repeat split; first [apply fold_qmin_is_min | apply fold_qmax_is_max].
Qed.

(* ------------------------------------------------------------------ *)
(* omapM                                                               *)

Lemma omapM_ok {A B} (f : A -> outcome B) l :
  (forall a, In a l -> exists b, f a = Ok b) ->
  exists bs, omapM f l = Ok bs /\ Forall2 (fun a b => f a = Ok b) l bs.
Proof.
  induction l as [|a t IH]; intros H.
  - exists []. split; [reflexivity|constructor].
  - destruct (H a (or_introl eq_refl)) as [b Hb].
    destruct IH as (bs & E & F); [intros x Hx; apply H; now right|].
    exists (b :: bs). cbn [omapM]. rewrite Hb. cbn [obind]. rewrite E. cbn [obind].
    split; [reflexivity|]. constructor; assumption.
Qed.

Lemma omapM_panic {A B} (f : A -> outcome B) l a :
  In a l -> f a = Panic -> (forall x, In x l -> f x = Panic \/ exists b, f x = Ok b) ->
  omapM f l = Panic.
Proof.
  induction l as [|x t IH]; intros Hin Hp Hall; [destruct Hin|].
  cbn [omapM]. destruct (Hall x (or_introl eq_refl)) as [E|[b E]]; rewrite E; cbn [obind]; [reflexivity|].
  destruct Hin as [->|Hin]; [congruence|].
  rewrite (IH Hin Hp) by (intros y Hy; apply Hall; now right). reflexivity.
Qed.

Lemma omapM_nth {A B} (f : A -> outcome B) l : forall bs i a,
  omapM f l = Ok bs -> nth_error l i = Some a ->
  exists b, nth_error bs i = Some b /\ f a = Ok b.
Proof.
  induction l as [|x t IH]; intros bs i a E Hn; [destruct i; discriminate|].
  cbn [omapM] in E. destruct (f x) as [b| | |] eqn:Ex; cbn [obind] in E; try discriminate.
  destruct (omapM f t) as [r| | |] eqn:Et; cbn [obind] in E; try discriminate.
  injection E as <-. destruct i as [|k]; cbn [nth_error] in *.
  - injection Hn as <-. eauto.
  - eapply IH; eauto.
Qed.

Lemma gids_nth gid n : (gid < n)%nat -> nth_error (gids n) gid = Some gid.
Proof.
  intros H. unfold gids. rewrite nth_error_nth' with (d := O) by (rewrite seq_length; exact H).
  rewrite seq_nth by exact H. reflexivity.
Qed.

Lemma nth_error_Some_lt {A} (l : list A) n x : nth_error l n = Some x -> (n < length l)%nat.
Proof. intros H. apply nth_error_Some. congruence. Qed.

Lemma Forall2_length {A B} (R : A -> B -> Prop) l l' : Forall2 R l l' -> length l = length l'.
Proof. induction 1; cbn; congruence. Qed.

Lemma in_gids gid n : In gid (gids n) <-> (gid < n)%nat.
Proof. unfold gids. rewrite in_seq. lia. Qed.

(* every glyph of a well-formed CFF font has a chain *)
Lemma glyph_chain_total f fm gid :
  cff_wf f -> (gid < cf_numglyphs f)%nat -> exists chain, glyph_chain f fm gid = Some chain.
Proof.
  intros [_ Hcid] Hlt. unfold glyph_chain. destruct (cf_cid f) eqn:E; [|eauto].
  destruct (Hcid eq_refl) as [Hlen Hfd]. unfold cf_numglyphs in Hlt.
  destruct (nth_error (cf_fdsel f) gid) as [fd|] eqn:E1.
  - rewrite Forall_forall in Hfd. pose proof (Hfd fd (nth_error_In _ _ E1)) as Hlt2.
    destruct (nth_error (cf_fmats f) fd) eqn:E2; [eauto|].
    apply nth_error_None in E2. lia.
  - apply nth_error_None in E1. lia.
Qed.

Lemma cff_glyph_bbox_pdf_ok f fm gid :
  cff_wf f -> (gid < cf_numglyphs f)%nat ->
  exists r, M_cff_glyph_bbox_pdf f fm gid = Ok r /\ qproper r.
Proof.
  intros Hwf Hlt. destruct (glyph_chain_total f fm gid Hwf Hlt) as [chain Hc].
  destruct (nth_error (cf_glyphs f) gid) as [g|] eqn:Eg;
    [|apply nth_error_None in Eg; unfold cf_numglyphs in Hlt; lia].
  destruct Hwf as [Hg _]. rewrite Forall_forall in Hg.
  destruct (Hg g (nth_error_In _ _ Eg)) as [_ Hw].
  destruct (glyph_bbox_pdf_gen f fm gid g chain Eg Hw Hc) as (r & E & _ & P & _). eauto.
Qed.

Lemma cff_font_bbox_pdf_gen f :
  cff_wf f ->
  exists boxes,
    omapM (M_cff_glyph_bbox_pdf f (cf_top f)) (gids (cf_numglyphs f)) = Ok boxes /\
    length boxes = cf_numglyphs f /\
    Forall qproper boxes /\
    M_cff_font_bbox_pdf f = Ok (S_fontbbox_pdf boxes).
Proof.
  intros Hwf.
  destruct (omapM_ok (M_cff_glyph_bbox_pdf f (cf_top f)) (gids (cf_numglyphs f))) as (boxes & E & F2).
  { intros gid Hin. apply in_gids in Hin.
    destruct (cff_glyph_bbox_pdf_ok f (cf_top f) gid Hwf Hin) as (r & Hr & _). eauto. }
  exists boxes. split; [exact E|].
  assert (Hp : Forall qproper boxes).
  { clear E. induction F2 as [|gid r l l' Hr _ IH]; constructor.
    - assert (Hlt : (gid < cf_numglyphs f)%nat).
      { destruct (Nat.lt_ge_cases gid (cf_numglyphs f)) as [L|L]; [exact L|].
        exfalso. unfold M_cff_glyph_bbox_pdf, cf_glyph in Hr.
        destruct (nth_error (cf_glyphs f) gid) eqn:En; [|discriminate].
        apply nth_error_Some_lt in En. unfold cf_numglyphs in L. lia. }
      destruct (cff_glyph_bbox_pdf_ok f (cf_top f) gid Hwf Hlt) as (r' & Hr' & P).
      congruence.
    - exact IH. }
  split; [|split; [exact Hp|]].
  - apply Forall2_length in F2. unfold gids in F2. rewrite seq_length in F2. congruence.
  - unfold M_cff_font_bbox_pdf. rewrite E. cbn [obind]. now rewrite fontbbox_pdf_union_gen.
Qed.

(* ------------------------------------------------------------------ *)
(* GlyphBBoxPDF of a TrueType glyph                                    *)

Lemma glyf_glyph_bbox_pdf_gen f fm gid r :
  nth_error (gf_glyphs f) gid = Some (Some r) ->
  exists b, M_glyf_glyph_bbox_pdf f fm gid = Ok b /\
            qrect_eq b (S_bbox (map (apply_chain [fm; scale1000]) (corners r))) /\ qproper b.
Proof.
  intros Hg. unfold M_glyf_glyph_bbox_pdf. rewrite Hg.
  destruct (acc_points_init (map (fun p => mat_apply (mat_mul fm scale1000) (fst p) (snd p)) (corners r))) as [Hb _].
  eexists; split; [reflexivity|]. rewrite Hb. split; [|apply S_bbox_proper].
  apply S_bbox_comp. apply Forall2_map_pt. intros [x y]. cbn [fst snd].
  rewrite apply_chain_cons. apply (apply_chain_mul [scale1000] fm x y).
Qed.

Lemma glyf_glyph_bbox_pdf_ok f fm gid :
  (gid < gf_numglyphs f)%nat -> exists b, M_glyf_glyph_bbox_pdf f fm gid = Ok b /\ qproper b.
Proof.
  intros Hlt. destruct (nth_error (gf_glyphs f) gid) as [[r|]|] eqn:E.
  - destruct (glyf_glyph_bbox_pdf_gen f fm gid r E) as (b & Hb & _ & P). eauto.
  - unfold M_glyf_glyph_bbox_pdf. rewrite E. eexists; split; [reflexivity|]. split; cbn; apply Qle_refl.
  - apply nth_error_None in E. unfold gf_numglyphs in Hlt. lia.
Qed.

Lemma glyf_font_bbox_pdf_gen f :
  exists boxes,
    omapM (M_glyf_glyph_bbox_pdf f (gf_top f)) (gids (gf_numglyphs f)) = Ok boxes /\
    length boxes = gf_numglyphs f /\
    Forall qproper boxes /\
    M_glyf_font_bbox_pdf f = Ok (S_fontbbox_pdf boxes).
Proof.
  destruct (omapM_ok (M_glyf_glyph_bbox_pdf f (gf_top f)) (gids (gf_numglyphs f))) as (boxes & E & F2).
  { intros gid Hin. apply in_gids in Hin.
    destruct (glyf_glyph_bbox_pdf_ok f (gf_top f) gid Hin) as (r & Hr & _). eauto. }
  exists boxes. split; [exact E|].
  assert (Hp : Forall qproper boxes).
  { clear E. induction F2 as [|gid r l l' Hr _ IH]; constructor; [|exact IH].
    assert (Hlt : (gid < gf_numglyphs f)%nat).
    { destruct (Nat.lt_ge_cases gid (gf_numglyphs f)) as [L|L]; [exact L|].
      exfalso. unfold M_glyf_glyph_bbox_pdf in Hr.
      destruct (nth_error (gf_glyphs f) gid) eqn:En; [|discriminate].
      apply nth_error_Some_lt in En. unfold gf_numglyphs in L. lia. }
    destruct (glyf_glyph_bbox_pdf_ok f (gf_top f) gid Hlt) as (r' & Hr' & P). congruence. }
  split; [|split; [exact Hp|]].
  - apply Forall2_length in F2. unfold gids in F2. rewrite seq_length in F2. congruence.
  - unfold M_glyf_font_bbox_pdf. rewrite E. cbn [obind]. now rewrite fontbbox_pdf_union_gen.
Qed.
