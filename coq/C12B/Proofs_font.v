(* C12B/Proofs_font.v — the font-level queries: FontBBox, the width queries
   and their mutual relations, IsFixedPitch, the derived fields of the writer
   (composition with C12), totality. *)
From Coq Require Import List NArith ZArith QArith Qround Qabs Qfield Bool Lia Lqa.
From Common Require Import Outcome.
From Gen Require Import C12B.
From C12 Require Import Codec Util Model Model2 Model3 Proofs_hmtx Proofs_derived.
From C12B Require Import Model Spec Proofs_box Proofs_pdf.
Import ListNotations.

Local Open Scope Q_scope.

(* ------------------------------------------------------------------ *)
(* omapM over the glyph ids = omapM over the glyphs                    *)

Lemma omapM_ext {A B} (f g : A -> outcome B) l :
  (forall a, In a l -> f a = g a) -> omapM f l = omapM g l.
Proof.
  induction l as [|a t IH]; intros H; [reflexivity|].
  cbn [omapM]. rewrite (H a (or_introl eq_refl)).
  rewrite IH by (intros x Hx; apply H; now right). reflexivity.
Qed.

Lemma omapM_seq {A B} (h : A -> outcome B) l : forall pre,
  omapM (fun i => match nth_error (pre ++ l) i with Some g => h g | None => Panic end)
        (seq (length pre) (length l)) = omapM h l.
Proof.
  induction l as [|a t IH]; intros pre; [reflexivity|].
  cbn [length seq omapM].
  rewrite nth_error_app2 by lia. rewrite Nat.sub_diag. cbn [nth_error].
  destruct (h a) as [b| | |]; cbn [obind]; try reflexivity.
  specialize (IH (pre ++ [a])). rewrite app_length in IH. cbn [length] in IH.
  rewrite Nat.add_1_r in IH. rewrite <- app_assoc in IH. cbn [app] in IH.
  now rewrite IH.
Qed.

Lemma omapM_gids {A B} (h : A -> outcome B) l :
  omapM (fun i => match nth_error l i with Some g => h g | None => Panic end) (gids (length l))
  = omapM h l.
Proof. exact (omapM_seq h l []). Qed.

Lemma cff_glyph_bbox_as_match f gid :
  M_cff_glyph_bbox f gid = match nth_error (cf_glyphs f) gid with Some g => M_extent g | None => Panic end.
Proof. unfold M_cff_glyph_bbox, cf_glyph. destruct (nth_error (cf_glyphs f) gid); reflexivity. Qed.

(* FontBBox ranges over the same boxes GlyphBBoxes returns *)
Lemma cff_font_bbox_boxes f :
  M_cff_font_bbox f = (boxes <- M_cff_glyph_bboxes f ;; Ok (M_fontbbox boxes)).
Proof.
  unfold M_cff_font_bbox, M_cff_glyph_bboxes, cf_numglyphs.
  rewrite (omapM_ext _ (fun i => match nth_error (cf_glyphs f) i with Some g => M_extent g | None => Panic end))
    by (intros; apply cff_glyph_bbox_as_match).
  now rewrite omapM_gids.
Qed.

Lemma omapM_map_ok {A B} (f : A -> outcome B) (g : A -> B) l :
  (forall a, In a l -> f a = Ok (g a)) -> omapM f l = Ok (map g l).
Proof.
  induction l as [|a t IH]; intros H; [reflexivity|].
  cbn [omapM map]. rewrite (H a (or_introl eq_refl)). cbn [obind].
  rewrite IH by (intros x Hx; apply H; now right). reflexivity.
Qed.

Lemma cff_glyph_bboxes_gen f :
  cff_wf f -> M_cff_glyph_bboxes f = Ok (map (fun g => S_extent (g_cmds g)) (cf_glyphs f)).
Proof.
  intros [Hg _]. unfold M_cff_glyph_bboxes. apply omapM_map_ok. intros g Hin.
  rewrite Forall_forall in Hg. destruct (Hg g Hin) as [Hw _].
  unfold M_extent. now apply extent_gen.
Qed.

(* the Extent of a glyph whose rounded coordinates fit Int16 is proper, and fits *)
Lemma Qfloor_le_ceiling_trans a b : a <= b -> (Qfloor a <= Qceiling b)%Z.
Proof.
  intros H. rewrite Zle_Qle.
  eapply Qle_trans; [apply Qfloor_le|]. eapply Qle_trans; [exact H|apply Qle_ceiling].
Qed.

Lemma S_extent_pts_ok pts :
  pts_fit_i16 pts -> proper (S_extent_pts pts) /\ rect_ok_i16 (S_extent_pts pts).
Proof.
  intros Hfit. destruct pts as [|p t].
  - cbn. unfold proper, rect_ok_i16, I16; cbn. lia.
  - rewrite (extent_fits p t Hfit). cbv zeta.
    pose proof (S_bbox_proper (p :: t)) as [P1 P2].
    split.
    + unfold proper; cbn [llx lly urx ury]. split; now apply Qfloor_le_ceiling_trans.
    + rewrite <- (extent_fits p t Hfit). unfold S_extent_pts.
      unfold rect_ok_i16; cbn [llx lly urx ury]. repeat split; apply go_i16_range.
Qed.

(* ------------------------------------------------------------------ *)
(* widths of a CFF font                                                *)

Lemma cff_glyph_width_nth f gid :
  M_cff_glyph_width f gid =
    match nth_error (M_cff_widths f) gid with Some w => Ok w | None => Panic end.
Proof.
  unfold M_cff_glyph_width, M_cff_widths, cf_glyph. rewrite nth_error_map.
  destruct (nth_error (cf_glyphs f) gid); reflexivity.
Qed.

(* q*1000 against fm[0]*1000 *)
Lemma qfactor_plain fm :
  (m1 fm * m2 fm == 0 \/ Qabs (m3 fm) <= 1 # 1000000) -> qfactor fm == m0 fm.
Proof.
  intros H. unfold qfactor. destruct (Qltb (1 # 1000000) (Qabs (m3 fm))) eqn:E; [|reflexivity].
  apply Qltb_lt in E. destruct H as [H|H]; [|lra].
  assert (Hn : ~ m3 fm == 0).
  { intros Z0. rewrite Z0 in E. cbn in E. lra. }
  unfold Qdiv. rewrite H. ring.
Qed.

Lemma cff_widths_pdf_gen f :
  cff_wf f ->
  exists l, M_cff_widths_pdf f = Ok l /\ length l = cf_numglyphs f /\
    forall gid g chain,
      nth_error (cf_glyphs f) gid = Some g -> glyph_chain f (cf_top f) gid = Some chain ->
      exists M, glyph_matrix f (cf_top f) gid = Ok M /\
                nth_error l gid = Some (g_width g * m0 M) /\
                M_cff_glyph_width_pdf f gid = Ok (g_width g * (qfactor M * 1000)).
Proof.
  intros Hwf. unfold M_cff_widths_pdf.
  set (fn := fun gid => g <- cf_glyph f gid ;; fm <- glyph_matrix f (cf_top f) gid ;; Ok (g_width g * m0 fm)).
  destruct (omapM_ok fn (gids (cf_numglyphs f))) as (l & E & F2).
  { intros gid Hin. apply in_gids in Hin.
    destruct (glyph_chain_total f (cf_top f) gid Hwf Hin) as [chain Hc].
    destruct (glyph_matrix_chain f (cf_top f) gid chain Hc) as (M & HM & _).
    destruct (nth_error (cf_glyphs f) gid) as [g|] eqn:Eg;
      [|apply nth_error_None in Eg; unfold cf_numglyphs in Hin; lia].
    exists (g_width g * m0 M). unfold fn, cf_glyph. rewrite Eg. cbn [obind]. rewrite HM. reflexivity. }
  exists l. split; [exact E|]. split.
  { apply Forall2_length in F2. unfold gids in F2. rewrite seq_length in F2. congruence. }
  intros gid g chain Hg Hc.
  destruct (glyph_matrix_chain f (cf_top f) gid chain Hc) as (M & HM & _).
  exists M. split; [exact HM|]. split.
  - assert (Hlt : (gid < cf_numglyphs f)%nat) by (unfold cf_numglyphs; eapply nth_error_Some_lt; eauto).
    destruct (omapM_nth fn _ l gid gid E (gids_nth gid _ Hlt)) as (b & Hb & Hf).
    unfold fn, cf_glyph in Hf. rewrite Hg in Hf. cbn [obind] in Hf. rewrite HM in Hf. cbn [obind] in Hf.
    congruence.
  - unfold M_cff_glyph_width_pdf, cf_glyph. rewrite HM, Hg. reflexivity.
Qed.

(* WidthsMapPDF: the entry of a glyph whose name no later glyph carries is
   exactly GlyphWidthPDF of that glyph *)
Lemma assoc_last_app {V} (l1 l2 : list (N * V)) k :
  assoc_last (l1 ++ l2) k =
    match assoc_last l2 k with Some v => Some v | None => assoc_last l1 k end.
Proof.
  induction l1 as [|[k' v] t IH]; cbn [app assoc_last].
  - destruct (assoc_last l2 k); reflexivity.
  - rewrite IH. destruct (assoc_last l2 k); [reflexivity|]. reflexivity.
Qed.

Lemma assoc_last_absent {V} (l : list (N * V)) k :
  ~ In k (map fst l) -> assoc_last l k = None.
Proof.
  induction l as [|[k' v] t IH]; intros H; [reflexivity|].
  cbn [assoc_last]. cbn [map fst In] in H.
  rewrite IH by tauto. destruct (N.eqb_spec k k'); [exfalso; apply H; left; congruence|reflexivity].
Qed.

Lemma cff_widths_map_gen f :
  (cf_cid f = true -> M_cff_widths_map_pdf f = None) /\
  (cf_cid f = false ->
     exists m, M_cff_widths_map_pdf f = Some m /\ length m = cf_numglyphs f /\
       forall pre g post,
         cf_glyphs f = pre ++ g :: post ->
         ~ In (g_name g) (map g_name post) ->
         assoc_last m (g_name g) = Some (g_width g * (qfactor (cf_top f) * 1000)) /\
         M_cff_glyph_width_pdf f (length pre) = Ok (g_width g * (qfactor (cf_top f) * 1000))).
Proof.
  unfold M_cff_widths_map_pdf. split; intros Hc; rewrite Hc; [reflexivity|].
  eexists; split; [reflexivity|]. split; [now rewrite map_length|].
  intros pre g post Hsplit Hnot. split.
  - rewrite Hsplit, map_app. cbn [map]. rewrite assoc_last_app. cbn [assoc_last].
    rewrite assoc_last_absent.
    + now rewrite N.eqb_refl.
    + rewrite map_map. cbn [fst]. exact Hnot.
  - unfold M_cff_glyph_width_pdf, glyph_matrix, cf_glyph. rewrite Hc. cbn [obind].
    rewrite Hsplit, nth_error_app2 by lia. rewrite Nat.sub_diag. reflexivity.
Qed.

(* ------------------------------------------------------------------ *)
(* IsFixedPitch                                                        *)

Lemma fixedpitch_loop_q_spec ws : forall width,
  ~ width == 0 ->
  (fixedpitch_loop_q ws width = true <->
   Forall (fun w => w == 0 \/ Qabs (width - w) < 1 # 2) ws).
Proof.
  induction ws as [|w t IH]; intros width Hw.
  - cbn. split; [constructor|reflexivity].
  - cbn [fixedpitch_loop_q]. destruct (Qis_zero w) eqn:E0.
    + apply Qis_zero_true in E0. rewrite IH by exact Hw. split.
      * intros H. constructor; [now left|exact H].
      * intros H. now inversion H.
    + apply Qis_zero_false in E0.
      assert (Ew : Qis_zero width = false) by now apply Qis_zero_false.
      rewrite Ew. destruct (Qle_bool (1 # 2) (Qabs (width - w))) eqn:Ed.
      * apply Qle_bool_iff in Ed. split; [discriminate|]. intros H. inversion H as [|? ? [H0|H0] _]; subst.
        -- contradiction.
        -- exfalso. lra.
      * assert (Hlt : Qabs (width - w) < 1 # 2).
        { apply Qnot_le_lt. intros L. apply Qle_bool_iff in L. congruence. }
        rewrite IH by exact Hw. split.
        -- intros H. constructor; [now right|exact H].
        -- intros H. now inversion H.
Qed.

Lemma fixedpitch_loop_q0_spec ws :
  fixedpitch_loop_q ws 0 = true <-> all_near_first ws.
Proof.
  unfold all_near_first, first_nonzero.
  induction ws as [|w t IH].
  - cbn. tauto.
  - cbn [fixedpitch_loop_q find]. destruct (Qis_zero w) eqn:E0; cbn [negb].
    + rewrite IH. apply Qis_zero_true in E0.
      destruct (find (fun w0 => negb (Qis_zero w0)) t) as [w0|]; [|tauto].
      split.
      * intros H. constructor; [now left|exact H].
      * intros H. now inversion H.
    + replace (Qis_zero 0) with true by reflexivity.
      pose proof E0 as E0'. apply Qis_zero_false in E0'.
      rewrite fixedpitch_loop_q_spec by exact E0'. split.
      * intros H. constructor; [|exact H]. right. setoid_replace (w - w) with 0 by ring. reflexivity.
      * intros H. now inversion H.
Qed.

Lemma fixed_pitch_q_gen ws :
  M_fixedpitch_q ws = true <-> ws <> [] /\ all_near_first ws.
Proof.
  unfold M_fixedpitch_q. destruct ws as [|w t].
  - split; [discriminate|intros [H _]; congruence].
  - rewrite fixedpitch_loop_q0_spec. split; [intros H; split; [discriminate|exact H]|intros [_ H]; exact H].
Qed.

(* on integer widths the float test is C12's integer test *)
Lemma Qis_zero_Zq z : Qis_zero (Zq z) = (z =? 0)%Z.
Proof.
  apply eq_true_iff_eq. rewrite Qis_zero_true, Z.eqb_eq. unfold Zq.
  change 0 with (inject_Z 0). apply inject_Z_injective.
Qed.

Lemma Qtrunc_Zq z : Qtrunc (Zq z) = z.
Proof. unfold Qtrunc, Zq, inject_Z. cbn [Qnum Qden]. apply Z.quot_1_r. Qed.

Lemma Qltb_Zq a b : Qltb (Zq a) (Zq b) = (a <? b)%Z.
Proof.
  apply eq_true_iff_eq. rewrite Qltb_lt, Z.ltb_lt. unfold Zq. now rewrite <- Zlt_Qlt.
Qed.

Lemma Qabs_Zq_sub a b : Qabs (Zq a - Zq b) == Zq (Z.abs (a - b)).
Proof.
  unfold Zq, Qminus. rewrite <- inject_Z_opp, <- inject_Z_plus.
  unfold Qabs, inject_Z. reflexivity.
Qed.

Lemma fixedpitch_loop_int ws : forall width,
  fixedpitch_loop_q (map Zq ws) (Zq width) = fixedpitch_loop ws width.
Proof.
  induction ws as [|w t IH]; intros width; [reflexivity|].
  cbn [map fixedpitch_loop_q fixedpitch_loop]. rewrite !Qis_zero_Zq.
  destruct (w =? 0)%Z; [apply IH|]. destruct (width =? 0)%Z; [apply IH|].
  assert (E : Qle_bool (1 # 2) (Qabs (Zq width - Zq w)) = (2 * Z.abs (width - w) >=? 1)%Z).
  { apply eq_true_iff_eq. rewrite Qle_bool_iff, Qabs_Zq_sub. unfold Zq, Qle, inject_Z. cbn [Qnum Qden].
    rewrite Z.geb_le. lia. }
  rewrite E. destruct (2 * Z.abs (width - w) >=? 1)%Z; [reflexivity|apply IH].
Qed.

Lemma fixedpitch_int ws : M_fixedpitch_q (int_widths ws) = M_fixedpitch ws.
Proof.
  unfold M_fixedpitch_q, M_fixedpitch, int_widths. destruct ws as [|w t]; [reflexivity|].
  change (map Zq (w :: t)) with (map Zq (w :: t)). change 0 with (Zq 0). apply fixedpitch_loop_int.
Qed.

Lemma avg_loop_int ws : forall sum count,
  avg_loop_q (map Zq ws) sum count = avg_loop ws sum count.
Proof.
  induction ws as [|w t IH]; intros sum count; [reflexivity|].
  cbn [map avg_loop_q avg_loop]. change 0 with (Zq 0). rewrite Qltb_Zq, Qtrunc_Zq.
  replace (w >? 0)%Z with (0 <? w)%Z by (rewrite Z.gtb_ltb; reflexivity).
  destruct (0 <? w)%Z; apply IH.
Qed.

Lemma avgwidth_int ws : M_avgwidth_q (int_widths ws) = M_avgwidth ws.
Proof. unfold M_avgwidth_q, M_avgwidth, int_widths. now rewrite avg_loop_int. Qed.

Lemma go_i16_of_float_int ws :
  Forall I16 ws -> map go_i16_of_float (int_widths ws) = ws.
Proof.
  unfold int_widths. induction 1 as [|w t Hw _ IH]; [reflexivity|].
  cbn [map]. rewrite IH. unfold go_i16_of_float. rewrite Qtrunc_Zq, go_i16_id by exact Hw. reflexivity.
Qed.

(* the derived fields computed from float widths that happen to be Int16
   integers are C12's derived fields *)
Lemma derived_q_int boxes ws cm :
  Forall I16 ws -> M_derived_q boxes (int_widths ws) true cm = M_derived boxes ws cm.
Proof.
  intros H. unfold M_derived_q, M_derived.
  rewrite go_i16_of_float_int by exact H. rewrite avgwidth_int, fixedpitch_int. reflexivity.
Qed.

(* ------------------------------------------------------------------ *)
(* the derived fields Font.Write computes from the queries             *)

(* every glyph's rounded end points fit Int16 *)
Definition glyphs_fit (f : cff_font) : Prop :=
  Forall (fun g => pts_fit_i16 (cmds_points c12b_extent_switch (g_cmds g))) (cf_glyphs f).

Definition cff_boxes (f : cff_font) : list rect := map (fun g => S_extent (g_cmds g)) (cf_glyphs f).

Lemma cff_boxes_ok f : glyphs_fit f -> Forall proper (cff_boxes f) /\ Forall rect_ok_i16 (cff_boxes f).
Proof.
  unfold glyphs_fit, cff_boxes. intros H. induction H as [|g t Hg _ [IH1 IH2]]; [split; constructor|].
  cbn [map]. destruct (S_extent_pts_ok _ Hg) as [P R]. split; constructor; assumption.
Qed.

Lemma cff_font_bbox_gen f :
  cff_wf f -> glyphs_fit f ->
  M_cff_glyph_bboxes f = Ok (cff_boxes f) /\ M_cff_font_bbox f = Ok (S_fontbbox (cff_boxes f)).
Proof.
  intros Hwf Hfit. pose proof (cff_glyph_bboxes_gen f Hwf) as E. split; [exact E|].
  rewrite cff_font_bbox_boxes, E. cbn [obind]. fold (cff_boxes f).
  destruct (cff_boxes_ok f Hfit) as [P _]. now rewrite (fontbbox_union_gen _ P).
Qed.

Lemma cff_derived_gen f ws cm :
  cff_wf f -> glyphs_fit f -> M_cff_widths f = int_widths ws ->
  (1 <= length ws)%nat -> (N.of_nat (length ws) <= 65535)%N ->
  Forall (fun w => (0 <= w)%Z) ws -> Forall I16 ws ->
  Forall I16 (map rsb_of (nonempty_zip (cff_boxes f) (combine ws (map llx (cff_boxes f))))) ->
  cmap_ok cm ->
  let boxes := cff_boxes f in
  M_cff_derived f cm =
    Ok (mkDerived (Z.of_nat (length boxes)) (S_fontbbox boxes)
                  (S_advmax ws) (S_minlsb boxes (map llx boxes))
                  (S_minrsb boxes ws (map llx boxes)) (S_xmaxext boxes (map llx boxes))
                  (N.of_nat (M_numLong ws))
                  (wrap_i16 (M_avgwidth ws)) (fst (first_last_of cm)) (snd (first_last_of cm))
                  (ury (S_fontbbox boxes)) (wrap_i16 (- lly (S_fontbbox boxes)))
                  (M_fixedpitch ws)).
Proof.
  intros Hwf Hfit Hw Hn Hcnt Hpos Hws Hrsb Hcm boxes.
  unfold M_cff_derived. rewrite (cff_glyph_bboxes_gen f Hwf). cbn [obind]. fold (cff_boxes f). fold boxes.
  rewrite Hw, derived_q_int by exact Hws.
  destruct (cff_boxes_ok f Hfit) as [P R].
  apply derived_gen; try assumption.
  unfold boxes, cff_boxes. rewrite map_length.
  assert (E : length (M_cff_widths f) = length (cf_glyphs f)) by (unfold M_cff_widths; now rewrite map_length).
  rewrite Hw in E. unfold int_widths in E. rewrite map_length in E. congruence.
Qed.

(* what makeHmtx writes reads back: the advance widths, and as left side
   bearing of every glyph the LLx of its box *)
Lemma hmtx_columns_roundtrip boxes ws :
  length boxes = length ws -> (1 <= length ws)%nat -> (N.of_nat (length ws) <= 65535)%N ->
  Forall I16 ws -> Forall rect_ok_i16 boxes ->
  M_hmtx_columns boxes (int_widths ws) = (ws, map llx boxes) /\
  exists hhea hm,
    M_hmtx_encode (mkHinfo (Some ws) (Some boxes) None 0 0 0 0) 1 0 = Ok (hhea, Some hm) /\
    M_hmtx_decode hhea (Some hm) = Ok (mkDinfo 0 0 0 1 0 0 (Some ws) (Some (map llx boxes))).
Proof.
  intros Hlen Hn Hcnt Hws Hrect. split.
  - unfold M_hmtx_columns. now rewrite go_i16_of_float_int.
  - set (i := mkHinfo (Some ws) (Some boxes) None 0 0 0 0).
    assert (Hls : Forall I16 (map llx boxes)).
    { clear -Hrect. induction Hrect as [|r e Hr He IH]; [constructor|]. cbn [map]. constructor; [apply Hr|exact IH]. }
    assert (Hnl : (N.of_nat (M_numLong ws) <= 65535)%N).
    { assert (ws <> []) by (destruct ws; [cbn in Hn; lia|discriminate]).
      pose proof (numlong_bounds ws H). lia. }
    assert (Hok : hinfo_ok i 1 0) by (unfold hinfo_ok, I16; cbn; lia).
    apply (hmtx_roundtrip_gen i 1 0 ws (map llx boxes)); try assumption; try reflexivity.
    + rewrite map_length. congruence.
    + intros e E. cbn in E. injection E as <-. exact Hlen.
Qed.

(* ------------------------------------------------------------------ *)
(* TrueType fonts                                                      *)

Lemma firstn_length_all {A} (l : list A) : firstn (length l) l = l.
Proof. apply firstn_all. Qed.

Lemma glyf_widths_some f w :
  gf_widths f = Some w -> length w = gf_numglyphs f -> M_glyf_widths f = Ok (int_widths w).
Proof.
  intros Hw Hlen. unfold M_glyf_widths. rewrite Hw, Hlen, Nat.ltb_irrefl.
  rewrite <- Hlen, firstn_all. reflexivity.
Qed.

Lemma glyf_widths_nil f :
  gf_widths f = None ->
  M_glyf_widths f = Ok (repeat 0 (gf_numglyphs f)) /\
  M_glyf_widths_pdf f = Ok None /\
  (forall gid, M_glyf_glyph_width f gid = Ok 0 /\ M_glyf_glyph_width_pdf f gid = Ok 0) /\
  M_glyf_fixed_pitch f = Ok (negb (gf_numglyphs f =? 0)%nat).
Proof.
  intros Hw. unfold M_glyf_widths, M_glyf_widths_pdf, M_glyf_glyph_width, M_glyf_glyph_width_pdf,
    M_glyf_fixed_pitch, M_glyf_widths. rewrite Hw. repeat split. cbn [obind]. f_equal.
  destruct (gf_numglyphs f) as [|n]; [reflexivity|].
  cbn [repeat Nat.eqb negb]. unfold M_fixedpitch_q.
  assert (H : forall k, fixedpitch_loop_q (repeat 0 k) 0 = true) by (induction k; [reflexivity|exact IHk]).
  exact (H (S n)).
Qed.

Lemma glyf_width_queries_gen f w :
  gf_widths f = Some w -> length w = gf_numglyphs f ->
  M_glyf_widths f = Ok (int_widths w) /\
  M_glyf_widths_pdf f = Ok (Some (map (fun x => Zq x / Zq (gf_upem f)) w)) /\
  (forall gid x, nth_error w gid = Some x ->
     M_glyf_glyph_width f gid = Ok (Zq x) /\
     M_glyf_glyph_width_pdf f gid = Ok (Zq x / (Zq (gf_upem f) / 1000)) /\
     (gf_upem f <> 0%Z -> Zq x / (Zq (gf_upem f) / 1000) == 1000 * (Zq x / Zq (gf_upem f)))) /\
  (forall gid, (length w <= gid)%nat ->
     M_glyf_glyph_width f gid = Panic /\ M_glyf_glyph_width_pdf f gid = Panic) /\
  M_glyf_fixed_pitch f = Ok (M_fixedpitch w).
Proof.
  intros Hw Hlen. split; [now apply glyf_widths_some|]. split; [|split; [|split]].
  - unfold M_glyf_widths_pdf. rewrite Hw, Hlen, Nat.ltb_irrefl, Nat.sub_diag. cbn [repeat].
    now rewrite app_nil_r.
  - intros gid x Hx. unfold M_glyf_glyph_width, M_glyf_glyph_width_pdf. rewrite Hw, Hx.
    repeat split. intros Hu.
    assert (Hq : ~ Zq (gf_upem f) == 0).
    { unfold Zq. change 0 with (inject_Z 0). rewrite inject_Z_injective. exact Hu. }
    field. exact Hq.
  - intros gid Hge. unfold M_glyf_glyph_width, M_glyf_glyph_width_pdf. rewrite Hw.
    apply nth_error_None in Hge. now rewrite Hge.
  - unfold M_glyf_fixed_pitch. rewrite (glyf_widths_some f w Hw Hlen). cbn [obind].
    now rewrite fixedpitch_int.
Qed.

Lemma glyf_derived_gen f ws cm :
  gf_widths f = Some ws -> length ws = gf_numglyphs f ->
  (1 <= length ws)%nat -> (N.of_nat (length ws) <= 65535)%N ->
  let boxes := M_glyf_glyph_bboxes f in
  Forall proper boxes -> Forall rect_ok_i16 boxes ->
  Forall (fun w => (0 <= w)%Z) ws -> Forall I16 ws ->
  Forall I16 (map rsb_of (nonempty_zip boxes (combine ws (map llx boxes)))) ->
  cmap_ok cm ->
  M_glyf_derived f cm =
    Ok (mkDerived (Z.of_nat (length boxes)) (S_fontbbox boxes)
                  (S_advmax ws) (S_minlsb boxes (map llx boxes))
                  (S_minrsb boxes ws (map llx boxes)) (S_xmaxext boxes (map llx boxes))
                  (N.of_nat (M_numLong ws))
                  (wrap_i16 (M_avgwidth ws)) (fst (first_last_of cm)) (snd (first_last_of cm))
                  (ury (S_fontbbox boxes)) (wrap_i16 (- lly (S_fontbbox boxes)))
                  (M_fixedpitch ws)).
Proof.
  intros Hw Hlen Hn Hcnt boxes P R Hpos Hws Hrsb Hcm.
  unfold M_glyf_derived. rewrite (glyf_widths_some f ws Hw Hlen). cbn [obind]. rewrite Hw.
  fold boxes. rewrite derived_q_int by exact Hws.
  apply derived_gen; try assumption.
  unfold boxes, M_glyf_glyph_bboxes. rewrite map_length. unfold gf_numglyphs in Hlen. congruence.
Qed.

(* a TrueType font without advance widths: hhea is written from the boxes alone *)
Lemma glyf_derived_nil_gen f cm :
  gf_widths f = None ->
  let boxes := M_glyf_glyph_bboxes f in
  Forall rect_ok_i16 boxes ->
  exists d, M_glyf_derived f cm = Ok d /\
    dv_fontbbox d = M_fontbbox boxes /\
    dv_advmax d = 0%Z /\ dv_minrsb d = 0%Z /\ dv_numlong d = 0%N /\
    dv_minlsb d = S_minlsb boxes (map llx boxes) /\
    dv_xmaxext d = S_xmaxext boxes (map llx boxes) /\
    dv_avg d = 0%Z /\ dv_fixed d = negb (gf_numglyphs f =? 0)%nat.
Proof.
  intros Hw boxes R.
  destruct (glyf_widths_nil f Hw) as (E1 & _ & _ & E4).
  unfold M_glyf_fixed_pitch in E4. rewrite E1 in E4. cbn [obind] in E4. injection E4 as E4.
  unfold M_glyf_derived. rewrite E1. cbn [obind]. rewrite Hw. fold boxes.
  unfold M_derived_q, M_hmtx_encode, M_minlsb, M_minrsb, M_xmaxext, M_lsbs.
  cbn [h_lsb h_extents h_widths].
  rewrite minlsb_ext_spec by (rewrite map_length; lia). cbn [obind].
  rewrite xmaxext_loop_spec by (first [now rewrite map_length | apply ext_llx_I16; exact R]).
  cbn [obind fst M_advmax].
  fold (S_minlsb boxes (map llx boxes)). fold (S_xmaxext boxes (map llx boxes)).
  assert (Hls : Forall I16 (map llx boxes)).
  { clear -R. induction R as [|r e Hr He IH]; [constructor|]. cbn [map]. constructor; [apply Hr|exact IH]. }
  assert (Hb : I16 (S_minlsb boxes (map llx boxes))).
  { unfold S_minlsb. apply list_min_P; [apply I16_0|]. now apply nonempty_zip_snd_Forall. }
  assert (Hd : I16 (S_xmaxext boxes (map llx boxes))).
  { unfold S_xmaxext. apply list_max_P; [apply I16_0|]. apply ext_llx_I16; exact R. }
  rewrite hhea_read_bytes; try assumption; try apply I16_0;
    [|unfold hinfo_ok, I16; cbn; lia|unfold U16; lia].
  destruct (M_firstlast _) as [fst0 lst0].
  eexists; split; [reflexivity|]. cbn [dv_fontbbox dv_advmax dv_minrsb dv_numlong dv_minlsb dv_xmaxext dv_avg dv_fixed
    f_advmax f_minlsb f_minrsb f_xmaxext f_numlong].
  repeat split.
  - assert (H : forall k s c, avg_loop_q (repeat 0 k) s c = (s, c)) by (induction k; intros; [reflexivity|apply IHk]).
    unfold M_avgwidth_q. rewrite H. reflexivity.
  - exact E4.
Qed.

(* ------------------------------------------------------------------ *)
(* cap height / x-height on reading                                    *)

Lemma read_height_gen os2v have gid n height :
  (os2v <> 0%Z -> M_read_height os2v have gid n height = Ok os2v) /\
  (os2v = 0%Z -> have = true -> (0 < gid < n)%nat -> M_read_height os2v have gid n height = height gid) /\
  (os2v = 0%Z -> (have = false \/ gid = 0%nat \/ (n <= gid)%nat) -> M_read_height os2v have gid n height = Ok 0%Z).
Proof.
  unfold M_read_height. repeat split.
  - intros H. destruct (Z.eqb_spec os2v 0); [contradiction|reflexivity].
  - intros -> -> [H1 H2]. cbn [Z.eqb negb andb].
    destruct (Nat.eqb_spec gid 0); [lia|]. cbn [negb andb].
    destruct (Nat.ltb_spec gid n); [reflexivity|lia].
  - intros -> H. cbn [Z.eqb negb]. destruct H as [->|[->|H]]; [reflexivity| |].
    + destruct have; reflexivity.
    + destruct have; [|reflexivity]. cbn [andb]. destruct (Nat.eqb_spec gid 0); [reflexivity|].
      cbn [negb andb]. destruct (Nat.ltb_spec gid n); [lia|reflexivity].
Qed.

(* ------------------------------------------------------------------ *)
(* totality                                                            *)

Lemma cff_glyph_queries_total f fm gid :
  cff_wf f -> (gid < cf_numglyphs f)%nat ->
  exists g, nth_error (cf_glyphs f) gid = Some g /\
    M_cff_glyph_width f gid = Ok (g_width g) /\
    M_cff_glyph_name f gid = Ok (g_name g) /\
    M_cff_glyph_bbox f gid = Ok (S_extent (g_cmds g)) /\
    M_cff_glyph_height f gid = Ok (ury (S_extent (g_cmds g))) /\
    (exists w, M_cff_glyph_width_pdf f gid = Ok w) /\
    (exists b, M_cff_glyph_bbox_pdf f fm gid = Ok b).
Proof.
  intros Hwf Hlt.
  destruct (nth_error (cf_glyphs f) gid) as [g|] eqn:Eg;
    [|apply nth_error_None in Eg; unfold cf_numglyphs in Hlt; lia].
  exists g. split; [reflexivity|].
  pose proof Hwf as [Hg _]. rewrite Forall_forall in Hg.
  destruct (Hg g (nth_error_In _ _ Eg)) as [Hw1 Hw2].
  assert (Hb : M_cff_glyph_bbox f gid = Ok (S_extent (g_cmds g))).
  { unfold M_cff_glyph_bbox, cf_glyph. rewrite Eg. cbn [obind]. unfold M_extent. now apply extent_gen. }
  repeat split.
  - unfold M_cff_glyph_width, cf_glyph. now rewrite Eg.
  - unfold M_cff_glyph_name, cf_glyph. now rewrite Eg.
  - exact Hb.
  - unfold M_cff_glyph_height. now rewrite Hb.
  - destruct (glyph_chain_total f (cf_top f) gid Hwf Hlt) as [chain Hc].
    destruct (glyph_matrix_chain f (cf_top f) gid chain Hc) as (M & HM & _).
    unfold M_cff_glyph_width_pdf, cf_glyph. rewrite HM, Eg. cbn [obind]. eauto.
  - destruct (cff_glyph_bbox_pdf_ok f fm gid Hwf Hlt) as (b & Hb' & _). eauto.
Qed.

Lemma cff_font_queries_total f :
  cff_wf f ->
  (exists l, M_cff_glyph_bboxes f = Ok l) /\ (exists r, M_cff_font_bbox f = Ok r) /\
  (exists l, M_cff_widths_pdf f = Ok l) /\ (exists b, M_cff_font_bbox_pdf f = Ok b).
Proof.
  intros Hwf. repeat split.
  - rewrite (cff_glyph_bboxes_gen f Hwf). eauto.
  - rewrite cff_font_bbox_boxes, (cff_glyph_bboxes_gen f Hwf). cbn [obind]. eauto.
  - destruct (cff_widths_pdf_gen f Hwf) as (l & E & _). eauto.
  - destruct (cff_font_bbox_pdf_gen f Hwf) as (b & _ & _ & _ & E). eauto.
Qed.

(* a glyph id beyond the last glyph: index out of range in every per-glyph query *)
Lemma cff_glyph_queries_oor f fm gid :
  cff_wf f -> (cf_numglyphs f <= gid)%nat ->
  M_cff_glyph_width f gid = Panic /\ M_cff_glyph_name f gid = Panic /\
  M_cff_glyph_bbox f gid = Panic /\ M_cff_glyph_height f gid = Panic /\
  M_cff_glyph_width_pdf f gid = Panic /\ M_cff_glyph_bbox_pdf f fm gid = Panic.
Proof.
  intros [_ Hcid] Hge. unfold cf_numglyphs in Hge.
  assert (Eg : nth_error (cf_glyphs f) gid = None) by now apply nth_error_None.
  unfold M_cff_glyph_width, M_cff_glyph_name, M_cff_glyph_height, M_cff_glyph_bbox,
    M_cff_glyph_width_pdf, M_cff_glyph_bbox_pdf, cf_glyph. rewrite Eg. cbn [obind].
  repeat split. unfold glyph_matrix. destruct (cf_cid f) eqn:Ec; [|reflexivity].
  destruct (Hcid eq_refl) as [Hlen _].
  assert (Ef : nth_error (cf_fdsel f) gid = None) by (apply nth_error_None; lia).
  now rewrite Ef.
Qed.

Lemma glyf_queries_total f fm gid :
  glyf_wf f -> (gid < gf_numglyphs f)%nat ->
  (exists r, M_glyf_glyph_bbox f gid = Ok r /\ M_glyf_glyph_height f gid = Ok (ury r)) /\
  (exists b, M_glyf_glyph_bbox_pdf f fm gid = Ok b) /\
  (exists w, M_glyf_glyph_width f gid = Ok w) /\
  (exists w, M_glyf_glyph_width_pdf f gid = Ok w) /\
  (exists l, M_glyf_widths f = Ok l) /\ (exists l, M_glyf_widths_pdf f = Ok l) /\
  (exists b, M_glyf_fixed_pitch f = Ok b) /\ (exists b, M_glyf_font_bbox_pdf f = Ok b).
Proof.
  intros Hwf Hlt. unfold glyf_wf in Hwf.
  assert (Hb : exists r, M_glyf_glyph_bbox f gid = Ok r).
  { unfold M_glyf_glyph_bbox. destruct (nth_error (gf_glyphs f) gid) eqn:E; [eauto|].
    apply nth_error_None in E. unfold gf_numglyphs in Hlt. lia. }
  destruct Hb as [r Hr]. split; [exists r; split; [exact Hr|unfold M_glyf_glyph_height; now rewrite Hr]|].
  split; [destruct (glyf_glyph_bbox_pdf_ok f fm gid Hlt) as (b & E & _); eauto|].
  destruct (gf_widths f) as [w|] eqn:Ew.
  - destruct (glyf_width_queries_gen f w Ew Hwf) as (A & B & C & _ & D).
    destruct (nth_error w gid) as [x|] eqn:Ex; [|apply nth_error_None in Ex; unfold gf_numglyphs in *; lia].
    destruct (C gid x Ex) as (C1 & C2 & _).
    repeat split; eauto. destruct (glyf_font_bbox_pdf_gen f) as (b & _ & _ & _ & E). eauto.
  - destruct (glyf_widths_nil f Ew) as (A & B & C & D). destruct (C gid) as [C1 C2].
    repeat split; eauto. destruct (glyf_font_bbox_pdf_gen f) as (b & _ & _ & _ & E). eauto.
Qed.
